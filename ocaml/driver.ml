(* Dispatch table: one line per extracted model (see drvlib.ml for the protocol). *)
let () =
  match Sys.argv with
  | [| _; "c13" |] -> Drvlib.serve Machines.C13.init Machines.C13.fstep
  | _ -> prerr_endline "usage: driver <model>"; exit 2
