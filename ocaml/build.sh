#!/bin/sh
# Extract one model and build its driver.  usage: build.sh <Cxx>   -> build/driver-<Cxx>
# The machine instance is coq/Extract/M_<Cxx>.v (init, fstep); extraction uses
# ExtrOcamlBasic only; N/Z/positive/nat stay Coq datatypes.
set -e
id="$1"
here=$(cd "$(dirname "$0")" && pwd)
root=$(cd "$here/.." && pwd)
dir="$root/build/extract/$id"
rm -rf "$dir"; mkdir -p "$dir"; cd "$dir"
cat > Extract_$id.v <<EOT
From Coq Require Import Extraction ExtrOcamlBasic.
From Verif Require Import Base.Prelude Base.Machine Extract.M_$id.
Extraction Language OCaml.
Separate Extraction
  BinInt.Z.add BinInt.Z.mul BinInt.Z.opp BinInt.Z.div_eucl BinInt.Z.eqb BinInt.Z.ltb
  Machine.r_model Machine.r_vimpl Machine.r_vmodel Machine.r_excused
  M_$id.init M_$id.fstep.
EOT
coqc -Q "$root/coq" Verif Extract_$id.v >/dev/null
cp "$here/drvlib.ml" .
cat > driver.ml <<EOT
let () = Drvlib.serve M_$id.init M_$id.fstep
EOT
files=$(ocamlfind ocamldep -sort *.mli *.ml)
ocamlfind ocamlopt -w -a -O2 -o "$root/build/driver-$id" $files 2>/dev/null || ocamlfind ocamlopt -w -a -o "$root/build/driver-$id" $files
