#!/bin/sh
# Extract the models and build the driver.  usage: build.sh  (run from anywhere)
set -e
here=$(cd "$(dirname "$0")" && pwd)
mkdir -p "$here/extracted"
cd "$here/extracted"
rm -f *.ml *.mli *.cm* *.o
coqc -Q "$here/../coq" Verif "$here/../coq/Extract/Extract.v" >/dev/null
cp "$here/drvlib.ml" "$here/driver.ml" .
# dependency order via ocamlfind ocamldep -sort
files=$(ocamlfind ocamldep -sort *.mli *.ml)
ocamlfind ocamlopt -w -a -O2 -o "$here/driver" $files 2>/dev/null || ocamlfind ocamlopt -w -a -o "$here/driver" $files
