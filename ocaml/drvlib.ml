(* Generic driver for the extracted models (one binary per model, see build.sh).
   usage: driver-<Cxx>
   stdin, one request per line:
     reset
     <op ints> ; <obs ints> | <obs ints> | ...        (implementation's observations)
   stdout, one reply per request line (nothing for reset):
     <model obs> | <model obs> ; <verdict impl> ; <verdict model> ; <excused>
   Integers are decimal strings of any size; they are converted to and from the
   extracted [BinNums.coq_Z] with the extracted arithmetic, never through OCaml int
   beyond single digits. *)

module L = Stdlib.List
module S = Stdlib.String

let rec pos_of_int (n : int) : BinNums.positive =
  if n = 1 then BinNums.Coq_xH
  else if n land 1 = 0 then BinNums.Coq_xO (pos_of_int (n lsr 1))
  else BinNums.Coq_xI (pos_of_int (n lsr 1))

let z_of_small (n : int) : BinNums.coq_Z =
  if n = 0 then BinNums.Z0
  else if n > 0 then BinNums.Zpos (pos_of_int n)
  else BinNums.Zneg (pos_of_int (-n))

let z10 = z_of_small 10

let z_of_string (s : string) : BinNums.coq_Z =
  let neg = S.length s > 0 && s.[0] = '-' in
  let start = if neg then 1 else 0 in
  let acc = ref BinNums.Z0 in
  for i = start to S.length s - 1 do
    let d = Char.code s.[i] - 48 in
    if d < 0 || d > 9 then failwith ("bad integer: " ^ s);
    acc := BinInt.Z.add (BinInt.Z.mul !acc z10) (z_of_small d)
  done;
  if neg then BinInt.Z.opp !acc else !acc

let rec small_of_pos (p : BinNums.positive) : int =
  match p with
  | BinNums.Coq_xH -> 1
  | BinNums.Coq_xO q -> 2 * small_of_pos q
  | BinNums.Coq_xI q -> 2 * small_of_pos q + 1

let string_of_z (z : BinNums.coq_Z) : string =
  let rec digits z acc =
    match z with
    | BinNums.Z0 -> acc
    | _ ->
      let (q, r) = BinInt.Z.div_eucl z z10 in
      let d = match r with BinNums.Z0 -> 0 | BinNums.Zpos p -> small_of_pos p | BinNums.Zneg _ -> failwith "neg rem" in
      digits q (S.make 1 (Char.chr (48 + d)) ^ acc)
  in
  match z with
  | BinNums.Z0 -> "0"
  | BinNums.Zpos _ -> digits z ""
  | BinNums.Zneg p -> "-" ^ digits (BinNums.Zpos p) ""

let words (s : string) : string list =
  L.filter (fun w -> w <> "") (S.split_on_char ' ' (S.trim s))

let zs_of_string (s : string) = L.map z_of_string (words s)
let string_of_zs l = S.concat " " (L.map string_of_z l)

let obs_of_string (s : string) =
  if S.trim s = "" then [] else L.map zs_of_string (S.split_on_char '|' s)

let print_reply (r : Machine.reply) =
  print_string (S.concat " | " (L.map string_of_zs r.Machine.r_model));
  print_string " ; ";
  print_string (string_of_zs r.Machine.r_vimpl);
  print_string " ; ";
  print_string (string_of_zs r.Machine.r_vmodel);
  print_string " ; ";
  print_string (string_of_zs r.Machine.r_excused);
  print_newline ()

let serve (init : 'f) (fstep : 'f -> BinNums.coq_Z list -> BinNums.coq_Z list list -> 'f * Machine.reply) =
  let st = ref init in
  try
    while true do
      let line = input_line stdin in
      if S.trim line = "reset" then st := init
      else begin
        let (opz, obsz) =
          match S.index_opt line ';' with
          | None -> (zs_of_string line, [])
          | Some i ->
            (zs_of_string (S.sub line 0 i),
             obs_of_string (S.sub line (i + 1) (S.length line - i - 1)))
        in
        let (st', r) = fstep !st opz obsz in
        st := st';
        print_reply r
      end
    done
  with End_of_file -> ()

