package upd

// History generators shared by the C02 / C04 / C11 runners.

import (
	"sort"

	"verifharness/hx"
)

type GenCfg struct {
	Family     int
	RemotePct  int  // C04: percentage of updates that are remote writes
	IllPct     int  // percentage of updates that are deliberately ill-formed (C02 findings)
	Snapshots  bool // C11: interleave Snapshot operations
	NoPersist  bool // allow persist=false where the API offers it
	FlagFields bool // C04: let data / elements name the writecheck field
	MaxLen     int
	SubElems   bool // C04: half of the delete-filter elements that can name a SUB element (value.scale, value.number,
	// timePeriod.endTime ...) instead of the whole field; the code on main removes the whole field either way
	RejectPct  int // C02: percentage of updates that the engine must reject whatever the data is (a partial
	// filter with a selector but no data item, alone or after a delete filter that has already
	// run on the working copy)
}

// selectable: fields a selector can be compared with (kept non-nil in every generated item,
// because SelectorMatch dereferences them: a nil one panics, which is C05's subject)
func (ti *TypeInfo) selectable() map[int]bool {
	m := map[int]bool{}
	for _, s := range ti.Sel {
		if s.Kind == SField {
			m[s.Index] = true
		}
	}
	return m
}

func (ti *TypeInfo) isKey(i int) bool {
	for _, k := range ti.Keys {
		if k == i {
			return true
		}
	}
	return false
}

// keyDomain: identifiers 1..4 for a single numeric key, smaller per component otherwise
func (ti *TypeInfo) keyDomain(i int) int {
	f := ti.Fields[i]
	d := 4
	if len(ti.Keys) > 1 {
		d = 2
	}
	if f.Kind != KUint && d > 3 {
		d = 3
	}
	if f.Domain-1 < d {
		d = f.Domain - 1
	}
	return d
}

// identifier values whose decimal texts collide when two of them are written one after the other
// without a separator: (1,11) / (11,1), (1,111) / (11,11) / (111,1), (12,1) / (1,21), (11,2..) ...
var collidingIDs = []int64{1, 11, 111, 12, 21, 112, 121, 211}

// multiUint: the identifier has two or more numeric parts
func (ti *TypeInfo) multiUint() bool {
	n := 0
	for _, i := range ti.Keys {
		if ti.Fields[i].Kind == KUint {
			n++
		}
	}
	return n >= 2
}

func (ti *TypeInfo) randKey(r *hx.Rng) []int64 {
	k := make([]int64, len(ti.Keys))
	for j, i := range ti.Keys {
		k[j] = int64(1 + r.Intn(ti.keyDomain(i)))
	}
	if ti.multiUint() && r.Chance(1, 2) {
		// multi-part numeric identifiers: parts whose digits collide, mostly from {1, 11, 111} so that
		// colliding pairs meet in one list
		for j, i := range ti.Keys {
			if ti.Fields[i].Kind != KUint || ti.Fields[i].Domain <= 211 {
				continue
			}
			if r.Chance(3, 4) {
				k[j] = collidingIDs[r.Intn(3)]
			} else {
				k[j] = collidingIDs[r.Intn(len(collidingIDs))]
			}
		}
	}
	// at most 10 different identifiers per history: the lists stay within the 12 elements for which
	// sort.Slice is the insertion sort of the model
	ks := hx.Zs(k).String()
	for _, p := range ti.keyPool {
		if hx.Zs(p).String() == ks {
			return k
		}
	}
	if len(ti.keyPool) >= 10 {
		return append([]int64(nil), ti.keyPool[r.Intn(len(ti.keyPool))]...)
	}
	ti.keyPool = append(ti.keyPool, append([]int64(nil), k...))
	return k
}

func (ti *TypeInfo) randVal(r *hx.Rng, i int) int64 {
	f := ti.Fields[i]
	d := 4
	if f.Domain < d {
		d = f.Domain
	}
	return int64(r.Intn(d))
}

// item with the given key values (nil = no key fields).  flagMode: 0 = the writecheck field like
// any other field, 1 = a deliberate mix of true / false / absent, 2 = absent, 3 = set at random.
// sparse: few fields (data of a partial update); needSel: selectable fields always set.
func (ti *TypeInfo) genItem(r *hx.Rng, key []int64, flagMode int, sparse, needSel bool) []int64 {
	it := make([]int64, len(ti.Fields))
	sel := ti.selectable()
	for i := range ti.Fields {
		if ti.isKey(i) {
			continue
		}
		if ti.Fields[i].WriteCheck && flagMode > 0 {
			switch flagMode {
			case 1:
				switch r.Pick(5, 3, 2) {
				case 0:
					it[i] = 2 // true
				case 1:
					it[i] = 1 // false
				}
			case 3:
				it[i] = int64(1 + r.Intn(2))
			}
			continue
		}
		p := 3
		if sparse {
			p = 2
		}
		if (sel[i] && needSel) || r.Chance(p, 5) {
			it[i] = ti.randVal(r, i) + 1
		}
	}
	for j, i := range ti.Keys {
		if key != nil && key[j] >= 0 {
			it[i] = key[j] + 1
		}
	}
	return it
}

func keyLess(ti *TypeInfo, a, b []int64) bool {
	for j, i := range ti.Keys {
		if ti.Fields[i].Kind != KUint {
			return false
		}
		if a[j] != b[j] {
			return a[j] < b[j]
		}
	}
	return false
}

func (ti *TypeInfo) distinctKeys(r *hx.Rng, n int) [][]int64 {
	seen := map[string]bool{}
	var out [][]int64
	for tries := 0; len(out) < n && tries < 40; tries++ {
		k := ti.randKey(r)
		s := hx.Zs(k).String()
		if !seen[s] {
			seen[s] = true
			out = append(out, k)
		}
	}
	return out
}

func encFilter(f Filter) hx.Zs {
	if !f.Present {
		return hx.Zs{0}
	}
	z := hx.Zs{1, 0, 0, 0, 0}
	if f.Sel != nil {
		z[1], z[3] = 1, int64(len(f.Sel))
		z = append(z, f.Sel...)
	}
	if f.Elems != nil {
		z[2], z[4] = 1, int64(len(f.Elems))
		z = append(z, f.Elems...)
	}
	return z
}

func (ti *TypeInfo) EncodeUpdate(remote, persist, wire int64, items [][]int64, fp, fd Filter) hx.Zs {
	z := hx.Zs{1, remote, persist, wire}
	z = append(z, EncodeItems(items, len(ti.Fields))...)
	z = append(z, encFilter(fp)...)
	return append(z, encFilter(fd)...)
}

// a selector: by identifier, by another selectable field, or empty (matches everything)
func (ti *TypeInfo) genSelector(r *hx.Rng) (sel []int64, key []int64) {
	if ti.SelType == nil {
		return nil, nil
	}
	sel = make([]int64, len(ti.Sel))
	mode := r.Pick(6, 2, 1)
	if mode == 0 {
		key = ti.randKey(r)
		used := false
		for j, s := range ti.Sel {
			if s.Kind != SField {
				continue
			}
			for kj, ki := range ti.Keys {
				if ki == s.Index {
					sel[j] = key[kj] + 1
					used = true
				}
			}
		}
		// the selector may not cover every key field: then the data carries no identifier
		for kj, ki := range ti.Keys {
			covered := false
			for _, s := range ti.Sel {
				if s.Kind == SField && s.Index == ki {
					covered = true
				}
			}
			if !covered {
				key[kj] = -1
			}
		}
		if !used {
			key = nil
		}
	} else if mode == 1 {
		var cand []int
		for j, s := range ti.Sel {
			if s.Kind == SField && !ti.isKey(s.Index) {
				cand = append(cand, j)
			}
		}
		if len(cand) > 0 {
			j := cand[r.Intn(len(cand))]
			sel[j] = ti.randVal(r, ti.Sel[j].Index) + 1
		}
	}
	if r.Chance(1, 8) {
		for j, s := range ti.Sel {
			if s.Kind == SIgnore {
				if _, ok := FillField(s.Type, 1); ok {
					sel[j] = 2
				}
			}
		}
	}
	return sel, key
}

func (ti *TypeInfo) genElems(r *hx.Rng, flags bool) []int64 {
	if ti.ElemType == nil {
		return nil
	}
	el := make([]int64, len(ti.Elems))
	sel := ti.selectable()
	for j, i := range ti.Elems {
		if i < 0 || ti.isKey(i) || sel[i] {
			continue
		}
		if ti.Fields[i].WriteCheck {
			if flags && r.Chance(1, 4) {
				el[j] = 1
			}
			continue
		}
		if r.Chance(2, 5) {
			el[j] = 1
		}
	}
	return el
}

// subElems turns some of the named elements into sub-element tags (2 = last, 3 = first sub element).
func (ti *TypeInfo) subElems(r *hx.Rng, cfg GenCfg, el []int64) []int64 {
	if !cfg.SubElems || el == nil {
		return el
	}
	for j := range el {
		if ti.HasSubElements(j) && (el[j] == 1 || r.Chance(1, 3)) && r.Bool() {
			if i := ti.Elems[j]; i >= 0 && !ti.isKey(i) && !ti.selectable()[i] {
				el[j] = int64(2 + r.Intn(2))
			}
		}
	}
	return el
}

// GenHistory: Init followed by 1..MaxLen updates of every filter shape.
func (ti *TypeInfo) GenHistory(r *hx.Rng, cfg GenCfg) []hx.Zs {
	direct := int64(0)
	if cfg.Family == 1 {
		direct = 1
	}
	h := []hx.Zs{{0, int64(ti.Index), direct, int64(cfg.Family)}}
	ti.keyPool = nil
	maxLen := cfg.MaxLen
	if maxLen == 0 {
		maxLen = 8
	}
	n := r.Range(1, maxLen)
	// C04: local set-up data mixes changeable / unchangeable / flag-less items; remote data
	// carries the flag only when FlagFields is set
	localFlag, remoteFlag := 0, 0
	if len(ti.WC) > 0 && cfg.RemotePct > 0 {
		localFlag, remoteFlag = 1, 2
	}
	var last hx.Zs
	for len(h)-1 < n {
		if cfg.Snapshots && r.Chance(1, 4) {
			h = append(h, hx.Zs{2})
			continue
		}
		if last != nil && r.Chance(1, 4) {
			h = append(h, last) // re-application
			last = nil
			continue
		}
		remote, persist, wire := int64(0), int64(1), int64(0)
		isRemote := cfg.RemotePct > 0 && len(h) > 1 && r.Intn(100) < cfg.RemotePct
		if isRemote {
			remote = 1
			if cfg.Family == 3 {
				wire = 1
			}
		} else {
			if cfg.NoPersist && (cfg.Family == 0 || cfg.Family == 2) && r.Chance(1, 5) {
				persist = 0
			}
			if cfg.Family == 2 && persist == 1 && r.Chance(1, 3) {
				wire = int64(1 + r.Intn(2))
			}
		}
		ill := r.Intn(100) < cfg.IllPct
		var items [][]int64
		var fp, fd Filter
		shape := r.Pick(20, 25, 8, 14, 7, 6, 6, 7, 5)
		if cfg.RejectPct > 0 && len(h) > 1 && r.Intn(100) < cfg.RejectPct {
			if sel, _ := ti.genSelector(r); sel != nil {
				shape = 99
			}
		}
		if len(h) == 1 && r.Chance(2, 3) {
			shape = 0
		}
		if isRemote && shape == 0 && r.Chance(2, 3) {
			shape = 1
		}
		flagOf := func() int {
			if !isRemote {
				return localFlag
			}
			if remoteFlag != 0 && cfg.FlagFields && r.Chance(1, 3) {
				return 3
			}
			return remoteFlag
		}
		// data applied to existing items (selector / identifier-less): the flag only when asked for
		dataFlag := func() int {
			if localFlag == 0 {
				return 0
			}
			if cfg.FlagFields && r.Chance(1, 3) {
				return 3
			}
			return 2
		}
		mergeList := func() [][]int64 {
			var l [][]int64
			for _, k := range ti.distinctKeys(r, r.Pick(1, 4, 4, 2)) {
				l = append(l, ti.genItem(r, k, flagOf(), isRemote || r.Chance(1, 3), !isRemote))
			}
			if ill && len(l) > 0 {
				switch r.Intn(3) {
				case 0: // repeated identifier
					l = append(l, ti.genItem(r, ti.keyOf(l[r.Intn(len(l))]), flagOf(), false, true))
				case 1: // an item without identifier among identified ones
					l = append(l, ti.genItem(r, nil, flagOf(), false, true))
				default: // partially given identifier
					if len(ti.Keys) > 1 {
						k := ti.randKey(r)
						k[r.Intn(len(k))] = -1
						l = append(l, ti.genItem(r, k, flagOf(), false, true))
					} else {
						l = append(l, ti.genItem(r, ti.keyOf(l[0]), flagOf(), false, true))
					}
				}
			}
			return l
		}
		switch shape {
		case 99: // rejected whatever the data is: selector in the partial filter, no data item
			sel, _ := ti.genSelector(r)
			fp = Filter{Present: true, Sel: sel}
			switch r.Intn(3) {
			case 0: // after a delete filter naming elements (with or without selector) has run
				if el := ti.subElems(r, cfg, ti.genElems(r, cfg.FlagFields)); el != nil {
					fd = Filter{Present: true, Elems: el}
					if r.Bool() {
						fd.Sel, _ = ti.genSelector(r)
					}
				}
			case 1: // after a delete filter with a selector has run
				if s2, _ := ti.genSelector(r); s2 != nil {
					fd = Filter{Present: true, Sel: s2}
				}
			}
		case 0: // full
			keys := ti.distinctKeys(r, r.Pick(1, 2, 3, 3, 2))
			sort.SliceStable(keys, func(a, b int) bool { return keyLess(ti, keys[a], keys[b]) })
			for _, k := range keys {
				items = append(items, ti.genItem(r, k, flagOf(), false, true))
			}
			if ill && len(items) > 1 {
				if r.Bool() {
					items[0], items[len(items)-1] = items[len(items)-1], items[0]
				} else {
					items = append(items, ti.genItem(r, ti.keyOf(items[0]), flagOf(), false, true))
				}
			}
			if cfg.Family == 3 && !isRemote && r.Bool() {
				persist = 2 // SetData
			}
		case 1: // partial, identified items
			fp = Filter{Present: true}
			items = mergeList()
		case 2: // partial, one item without identifier: applies to all
			fp = Filter{Present: true}
			items = [][]int64{ti.genItem(r, nil, dataFlag(), true, false)}
		case 3: // partial + selector
			sel, key := ti.genSelector(r)
			if sel == nil {
				fp = Filter{Present: true}
				items = mergeList()
				break
			}
			fp = Filter{Present: true, Sel: sel}
			if r.Bool() {
				key = nil
			}
			items = [][]int64{ti.genItem(r, key, dataFlag(), true, false)}
			if ill && r.Bool() {
				items[0] = ti.genItem(r, ti.randKey(r), dataFlag(), true, false) // data rewrites the identifier
			}
		case 4: // delete + selector
			sel, _ := ti.genSelector(r)
			if sel == nil {
				continue
			}
			fd = Filter{Present: true, Sel: sel}
		case 5: // delete + elements
			el := ti.subElems(r, cfg, ti.genElems(r, cfg.FlagFields))
			if el == nil {
				continue
			}
			fd = Filter{Present: true, Elems: el}
		case 6: // delete + selector + elements
			sel, _ := ti.genSelector(r)
			el := ti.subElems(r, cfg, ti.genElems(r, cfg.FlagFields))
			if sel == nil || el == nil {
				continue
			}
			fd = Filter{Present: true, Sel: sel, Elems: el}
		case 7: // delete combined with partial
			sel, _ := ti.genSelector(r)
			if sel == nil {
				continue
			}
			fd = Filter{Present: true, Sel: sel}
			if r.Chance(1, 3) {
				fd.Elems = ti.subElems(r, cfg, ti.genElems(r, cfg.FlagFields))
			}
			fp = Filter{Present: true}
			items = mergeList()
			if r.Chance(1, 4) {
				s2, key := ti.genSelector(r)
				fp.Sel = s2
				items = [][]int64{ti.genItem(r, key, dataFlag(), true, false)}
			}
		default: // no filter, not persisted (merge computed for the caller) / or an empty partial list
			if cfg.NoPersist && (cfg.Family == 0 || cfg.Family == 2) && !isRemote {
				persist, wire = 0, 0
				items = mergeList()
			} else {
				fp = Filter{Present: true}
			}
		}
		if persist == 0 {
			wire = 0
		}
		op := ti.EncodeUpdate(remote, persist, wire, items, fp, fd)
		h = append(h, op)
		last = op
	}
	return h
}

func (ti *TypeInfo) keyOf(it []int64) []int64 {
	k := make([]int64, len(ti.Keys))
	for j, i := range ti.Keys {
		k[j] = it[i] - 1
	}
	return k
}

// GenOverlapHistory (C04): a long list (100..140 elements mixing changeable, unchangeable and flag-less
// ones) set up locally through FeatureLocal (family 3), then `rounds` overlap operations: a remote
// partial write with identifiers and a local partial update with identifiers, naming disjoint
// identifiers, released together (World.overlap). Only for types with a single numeric identifier.
func (ti *TypeInfo) GenOverlapHistory(r *hx.Rng, rounds int) []hx.Zs {
	h := []hx.Zs{{0, int64(ti.Index), 0, 3}}
	n := r.Range(100, 140)
	var items [][]int64
	for id := 1; id <= n; id++ {
		it := ti.genItem(r, []int64{int64(id)}, 1, false, true)
		for _, wc := range ti.WC { // mostly changeable, so that most writes are accepted
			it[wc] = []int64{2, 2, 2, 2, 2, 2, 2, 2, 1, 0}[r.Intn(10)]
		}
		items = append(items, it)
	}
	h = append(h, ti.EncodeUpdate(0, 2, 0, items, Filter{}, Filter{}))
	known := n
	for i := 0; i < rounds; i++ {
		used := map[int64]bool{}
		pick := func(max int, allowNew bool) [][]int64 {
			var l [][]int64
			for c := r.Range(1, 3); c > 0; c-- {
				id := int64(1 + r.Intn(max))
				if allowNew && r.Chance(1, 6) {
					id = int64(known + 1 + r.Intn(3))
				}
				if used[id] {
					continue
				}
				used[id] = true
				l = append(l, []int64{id})
			}
			return l
		}
		var wl, ll [][]int64
		for _, k := range pick(known, r.Chance(1, 8)) { // a write naming an unknown identifier is rejected
			wl = append(wl, ti.genItem(r, k, 2, true, false))
		}
		for _, k := range pick(known, true) {
			it := ti.genItem(r, k, 3, true, false)
			if int(k[0]) > known { // a new element: selectable fields set, like every stored element
				it = ti.genItem(r, k, 1, false, true)
			}
			ll = append(ll, it)
		}
		if len(wl) == 0 || len(ll) == 0 {
			continue
		}
		sortItems := func(l [][]int64) {
			sort.SliceStable(l, func(a, b int) bool { return l[a][ti.Keys[0]] < l[b][ti.Keys[0]] })
		}
		sortItems(wl)
		sortItems(ll)
		for _, it := range ll {
			if int(it[ti.Keys[0]]-1) > known {
				known = int(it[ti.Keys[0]] - 1)
			}
		}
		op := hx.Zs{3}
		op = append(op, EncodeItems(wl, len(ti.Fields))...)
		op = append(op, encFilter(Filter{Present: true})...)
		op = append(op, encFilter(Filter{})...)
		op = append(op, EncodeItems(ll, len(ti.Fields))...)
		op = append(op, encFilter(Filter{Present: true})...)
		op = append(op, encFilter(Filter{})...)
		h = append(h, op)
	}
	return h
}

// GenSubElementHistory (C04): the two situations in which a write THROUGH a shared pointer would show.
// Elements carry struct-valued fields with two sub values (number and scale). (1) a remote write without
// identifiers gives several elements one and the same value object (copyToAllData hands out one pointer),
// the application then write-protects one of them, a remote delete with a selector for another element
// and a sub-element tag is accepted: the protected, unaddressed element must keep its value. (2) a remote
// delete without selector (addresses every element) naming a sub element is refused because of a
// protected element: no element may have changed. Family 0 (FunctionData) or 3 (FeatureLocal write path).
func (ti *TypeInfo) GenSubElementHistory(r *hx.Rng, family int) []hx.Zs {
	h := []hx.Zs{{0, int64(ti.Index), 0, int64(family)}}
	wire := int64(0)
	if family == 3 {
		wire = 1
	}
	var structs []int // struct-valued, non-key fields whose elements entry has sub elements
	for j, i := range ti.Elems {
		if i >= 0 && !ti.isKey(i) && !ti.selectable()[i] && ti.HasSubElements(j) {
			structs = append(structs, j)
		}
	}
	if len(structs) == 0 || len(ti.Keys) != 1 || len(ti.WC) != 1 {
		return ti.GenHistory(r, GenCfg{Family: family, RemotePct: 55, FlagFields: true, SubElems: true, MaxLen: 7})
	}
	wc := ti.WC[0]
	n := r.Range(3, 5)
	var items [][]int64
	for id := 1; id <= n; id++ {
		it := ti.genItem(r, []int64{int64(id)}, 2, false, true)
		it[wc] = 2 // changeable
		for _, j := range structs {
			it[ti.Elems[j]] = int64(1 + r.Intn(4))
		}
		items = append(items, it)
	}
	persist := int64(1)
	if family == 3 {
		persist = 2
	}
	h = append(h, ti.EncodeUpdate(0, persist, 0, items, Filter{}, Filter{}))
	elems := func() []int64 {
		el := make([]int64, len(ti.Elems))
		for _, j := range structs {
			if r.Chance(2, 3) {
				el[j] = int64(2 + r.Intn(2))
			}
		}
		el[structs[r.Intn(len(structs))]] = int64(2 + r.Intn(2))
		return el
	}
	selFor := func(id int) []int64 {
		sel := make([]int64, len(ti.Sel))
		for j, sf := range ti.Sel {
			if sf.Kind == SField && sf.Index == ti.Keys[0] {
				sel[j] = int64(id) + 1
			}
		}
		return sel
	}
	protect := func(id int) hx.Zs {
		it := make([]int64, len(ti.Fields))
		it[ti.Keys[0]] = int64(id) + 1
		it[wc] = 1
		return ti.EncodeUpdate(0, 1, 0, [][]int64{it}, Filter{Present: true}, Filter{})
	}
	for round := r.Range(1, 3); round > 0; round-- {
		if r.Chance(2, 3) {
			// one value object for all elements
			it := make([]int64, len(ti.Fields))
			for _, j := range structs {
				it[ti.Elems[j]] = int64(1 + r.Intn(4))
			}
			h = append(h, ti.EncodeUpdate(1, 1, wire, [][]int64{it}, Filter{Present: true}, Filter{}))
		}
		p := 1 + r.Intn(n)
		h = append(h, protect(p))
		other := 1 + r.Intn(n)
		switch r.Intn(3) {
		case 0: // refused: addresses every element, one of them is protected
			h = append(h, ti.EncodeUpdate(1, 1, wire, nil, Filter{}, Filter{Present: true, Elems: elems()}))
		case 1: // accepted (or refused when it names the protected one): one element by selector
			h = append(h, ti.EncodeUpdate(1, 1, wire, nil, Filter{}, Filter{Present: true, Sel: selFor(other), Elems: elems()}))
		default: // delete by selector combined with a partial write to another element
			it := ti.genItem(r, []int64{int64(1 + r.Intn(n))}, 2, true, false)
			h = append(h, ti.EncodeUpdate(1, 1, wire, [][]int64{it}, Filter{Present: true}, Filter{Present: true, Sel: selFor(other), Elems: elems()}))
		}
		// make every element changeable again (local), so that the next round starts alike
		it := make([]int64, len(ti.Fields))
		it[ti.Keys[0]] = int64(p) + 1
		it[wc] = 2
		h = append(h, ti.EncodeUpdate(0, 1, 0, [][]int64{it}, Filter{Present: true}, Filter{}))
	}
	return h
}

// GenDuplicateHistory (C04): stored lists that repeat an identifier or hold elements without identifier,
// followed by remote writes that take the Merge / SortData path for a THIRD element (partial write with
// identifiers, delete-only write with a selector, both combined). Such lists are set up by the application
// (SetData / UpdateData) or by the peer itself: a selector write for a changeable element whose data
// carries the identifier of another (protected) element. Whatever the list looks like, an accepted write
// must keep every element that is protected or that it does not address, a rejected one everything.
// Only for types with a single numeric identifier and one writecheck field; family 0 or 3.
func (ti *TypeInfo) GenDuplicateHistory(r *hx.Rng, family int) []hx.Zs {
	if len(ti.Keys) != 1 || len(ti.WC) != 1 || ti.Fields[ti.Keys[0]].Kind != KUint {
		return ti.GenHistory(r, GenCfg{Family: family, RemotePct: 55, FlagFields: true, MaxLen: 7})
	}
	h := []hx.Zs{{0, int64(ti.Index), 0, int64(family)}}
	wire, persist := int64(0), int64(1)
	if family == 3 {
		wire, persist = 1, 2
	}
	key, wc := ti.Keys[0], ti.WC[0]
	flag := func() int64 { return []int64{2, 2, 2, 1, 0}[r.Intn(5)] } // true, false, absent
	mk := func(id int, fl int64) []int64 {
		var k []int64
		if id > 0 {
			k = []int64{int64(id)}
		}
		it := ti.genItem(r, k, 2, false, true)
		it[wc] = fl
		return it
	}
	selFor := func(id int) []int64 {
		sel := make([]int64, len(ti.Sel))
		for j, sf := range ti.Sel {
			if sf.Kind == SField && sf.Index == key {
				sel[j] = int64(id) + 1
			}
		}
		return sel
	}
	// elements 1..n; 1 is protected, 2 and 3 are changeable, the rest mixed
	n := r.Range(3, 6)
	var items [][]int64
	for id := 1; id <= n; id++ {
		fl := flag()
		if id == 1 {
			fl = int64(r.Intn(2)) // false or absent
		} else if id <= 3 {
			fl = 2
		}
		items = append(items, mk(id, fl))
	}
	third := 3
	switch r.Intn(3) {
	case 0: // the application stores elements without identifier (protected and changeable ones) next to the others
		for c := r.Range(2, 3); c > 0; c-- {
			items = append([][]int64{mk(0, flag())}, items...)
		}
		if r.Bool() {
			items = append(items, mk(0, flag()))
		}
		h = append(h, ti.EncodeUpdate(0, persist, 0, items, Filter{}, Filter{}))
	case 1: // the application stores two elements under one identifier
		dup := mk(1+r.Intn(n), flag())
		pos := r.Intn(len(items) + 1)
		items = append(items[:pos], append([][]int64{dup}, items[pos:]...)...)
		h = append(h, ti.EncodeUpdate(0, persist, 0, items, Filter{}, Filter{}))
	default: // the peer does it: selector write for changeable element 2 whose data carries identifier 1
		h = append(h, ti.EncodeUpdate(0, persist, 0, items, Filter{}, Filter{}))
		it := ti.genItem(r, []int64{1}, 2, true, false)
		h = append(h, ti.EncodeUpdate(1, 1, wire, [][]int64{it}, Filter{Present: true, Sel: selFor(2)}, Filter{}))
	}
	for round := r.Range(2, 4); round > 0; round-- {
		id := third
		if r.Chance(1, 4) {
			id = 1 + r.Intn(n) // sometimes a protected or repeated one: rejected, or all copies written
		}
		switch r.Intn(4) {
		case 0, 1: // partial write with identifiers
			l := [][]int64{ti.genItem(r, []int64{int64(id)}, 2, true, false)}
			if r.Chance(1, 3) && n >= 4 && id < n {
				l = append(l, ti.genItem(r, []int64{int64(n)}, 2, true, false))
			}
			h = append(h, ti.EncodeUpdate(1, 1, wire, l, Filter{Present: true}, Filter{}))
		case 2: // delete-only write: clear elements of one element by selector
			h = append(h, ti.EncodeUpdate(1, 1, wire, nil, Filter{}, Filter{Present: true, Sel: selFor(id), Elems: ti.genElems(r, true)}))
		default: // delete by selector (n, if there is one beyond the third) combined with a partial write
			del := n
			if del == id {
				del = 2
			}
			l := [][]int64{ti.genItem(r, []int64{int64(id)}, 2, true, false)}
			h = append(h, ti.EncodeUpdate(1, 1, wire, l, Filter{Present: true}, Filter{Present: true, Sel: selFor(del)}))
		}
	}
	return h
}
