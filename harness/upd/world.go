package upd

// World executes the operations of coq/Model/FunctionStore.v on the real code.
//
// Families (second number of the Init operation is direct=1 for family 1 only;
// the family itself is chosen by the runner per history):
//
//	0  a bare spine.FunctionData (from the factory): UpdateDataAny / DataCopyAny
//	1  a bare data object run through its per-type UpdateList (direct)
//	2  a FeatureRemote of a connected peer: UpdateData / DataCopy, inbound notify (wire=1) and reply (wire=2)
//	3  a FeatureLocal (server): UpdateData, SetData (persist=2) / DataCopy, inbound write of a bound peer (wire=1, remote=1)

import (
	"encoding/json"
	"fmt"
	"os"
	"reflect"
	"runtime/debug"
	"sync"

	"github.com/enbility/spine-go/api"
	"github.com/enbility/spine-go/model"
	"github.com/enbility/spine-go/spine"
	"github.com/enbility/spine-go/util"

	"verifharness/hx"
)

type writer struct {
	mu   sync.Mutex
	msgs [][]byte
}

func (w *writer) WriteShipMessageWithPayload(msg []byte) {
	w.mu.Lock()
	defer w.mu.Unlock()
	w.msgs = append(w.msgs, append([]byte(nil), msg...))
}

func (w *writer) take() [][]byte {
	w.mu.Lock()
	defer w.mu.Unlock()
	m := w.msgs
	w.msgs = nil
	return m
}

type retained struct {
	obj   any
	clone string
}

type World struct {
	Types  []*TypeInfo
	Family int
	Retain bool // C11: keep every object handed out and watch it

	ti  *TypeInfo
	fd  api.FunctionDataInterface
	obj reflect.Value

	w        *writer
	local    *spine.DeviceLocal
	remote   api.DeviceRemoteInterface
	reader   interface{ HandleSpineMesssage([]byte) (*model.MsgCounterType, error) }
	lfServer api.FeatureLocalInterface
	lfClient api.FeatureLocalInterface
	rfServer api.FeatureRemoteInterface
	rfClient api.FeatureRemoteInterface
	ctr      uint64

	evMu   sync.Mutex
	events []any
	kept   []retained
}

func NewWorld(types []*TypeInfo, family int, retain bool) *World {
	return &World{Types: types, Family: family, Retain: retain}
}

// HandleEvent is subscribed at core level (synchronous, in publication order).
func (w *World) HandleEvent(p api.EventPayload) {
	if p.EventType != api.EventTypeDataChange || w.ti == nil || p.Function != w.ti.Function {
		return
	}
	if w.local == nil || p.LocalFeature == nil || p.LocalFeature.Device() != api.DeviceLocalInterface(w.local) {
		return
	}
	w.evMu.Lock()
	w.events = append(w.events, p.Data)
	w.evMu.Unlock()
}

func (w *World) Close() {
	if w.local != nil {
		_ = spine.VerifStackUnsubscribeCore(w)
		_ = spine.VerifStackUnsubscribeCore(w.local)
		w.local = nil
	}
}

func (w *World) featureType() model.FeatureTypeType {
	for _, ft := range w.ti.FeatureTypes {
		if ft != model.FeatureTypeTypeGeneric {
			return ft
		}
	}
	return w.ti.FeatureTypes[0]
}

const remoteAddr = "remote"

func (w *World) setupStack() {
	ft := w.featureType()
	w.w = &writer{}
	w.local = spine.NewDeviceLocal("brand", "model", "serial", "code", "local", model.DeviceTypeTypeEnergyManagementSystem, model.NetworkManagementFeatureSetTypeSmart)
	ent := spine.NewEntityLocal(w.local, model.EntityTypeTypeCEM, []model.AddressEntityType{1}, 0)
	w.local.AddEntity(ent)
	client := spine.NewFeatureLocal(ent.NextFeatureId(), ent, ft, model.RoleTypeClient)
	ent.AddFeature(client)
	server := spine.NewFeatureLocal(ent.NextFeatureId(), ent, ft, model.RoleTypeServer)
	server.AddFunctionType(w.ti.Function, true, true)
	ent.AddFeature(server)
	w.lfClient, w.lfServer = client, server

	rd := w.local.SetupRemoteDevice("ski-remote", w.w)
	w.remote = rd.(api.DeviceRemoteInterface)
	w.reader = rd.(interface {
		HandleSpineMesssage([]byte) (*model.MsgCounterType, error)
	})
	dev := model.AddressDeviceType(remoteAddr)
	fa := func(f uint) *model.FeatureAddressType {
		return &model.FeatureAddressType{Device: &dev, Entity: []model.AddressEntityType{1}, Feature: util.Ptr(model.AddressFeatureType(f))}
	}
	disc := &model.NodeManagementDetailedDiscoveryDataType{
		DeviceInformation: &model.NodeManagementDetailedDiscoveryDeviceInformationType{
			Description: &model.NetworkManagementDeviceDescriptionDataType{DeviceAddress: &model.DeviceAddressType{Device: &dev}},
		},
		EntityInformation: []model.NodeManagementDetailedDiscoveryEntityInformationType{{
			Description: &model.NetworkManagementEntityDescriptionDataType{
				EntityAddress: &model.EntityAddressType{Device: &dev, Entity: []model.AddressEntityType{1}},
				EntityType:    util.Ptr(model.EntityTypeTypeEVSE),
			},
		}},
		FeatureInformation: []model.NodeManagementDetailedDiscoveryFeatureInformationType{
			{Description: &model.NetworkManagementFeatureDescriptionDataType{FeatureAddress: fa(1), FeatureType: &ft, Role: util.Ptr(model.RoleTypeClient)}},
			{Description: &model.NetworkManagementFeatureDescriptionDataType{FeatureAddress: fa(2), FeatureType: &ft, Role: util.Ptr(model.RoleTypeServer),
				SupportedFunction: []model.FunctionPropertyType{{Function: &w.ti.Function, PossibleOperations: &model.PossibleOperationsType{
					Read: &model.PossibleOperationsReadType{Partial: &model.ElementTagType{}}}}}}},
		},
	}
	w.remote.UpdateDevice(disc.DeviceInformation.Description)
	if _, err := w.remote.AddEntityAndFeatures(true, disc); err != nil {
		panic(err)
	}
	w.rfClient = w.remote.FeatureByAddress(fa(1))
	w.rfServer = w.remote.FeatureByAddress(fa(2))
	if w.rfClient == nil || w.rfServer == nil {
		panic("upd: remote features not created")
	}
	if err := w.local.BindingManager().AddBinding(w.remote, model.BindingManagementRequestCallType{
		ClientAddress: w.rfClient.Address(), ServerAddress: w.lfServer.Address(), ServerFeatureType: &ft}); err != nil {
		panic(err)
	}
	_ = spine.VerifStackSubscribeCore(w)
	w.w.take()
}

func (w *World) init(ty int) {
	w.Close()
	w.ti = w.Types[ty]
	w.kept, w.events = nil, nil
	switch w.Family {
	case 0:
		w.fd = nil
		for _, fd := range spine.CreateFunctionData[api.FunctionDataInterface](w.featureType()) {
			if fd.FunctionType() == w.ti.Function {
				w.fd = fd
			}
		}
		if w.fd == nil {
			panic("upd: function data not found for " + string(w.ti.Function))
		}
	case 1:
		w.obj = reflect.New(w.ti.T)
	default:
		w.setupStack()
	}
}

func (w *World) dataCopy() any {
	switch w.Family {
	case 0:
		return w.fd.DataCopyAny()
	case 1:
		return w.obj.Interface()
	case 2:
		return w.rfServer.DataCopy(w.ti.Function)
	}
	return w.lfServer.DataCopy(w.ti.Function)
}

func jsonOf(x any) string {
	b, err := json.Marshal(x)
	if err != nil {
		return "!" + err.Error()
	}
	return string(b)
}

func (w *World) keep(x any) {
	if !w.Retain {
		return
	}
	v := reflect.ValueOf(x)
	if !v.IsValid() || ((v.Kind() == reflect.Ptr || v.Kind() == reflect.Slice) && v.IsNil()) {
		return
	}
	w.kept = append(w.kept, retained{obj: x, clone: jsonOf(x)})
}

func (w *World) changed() []hx.Zs {
	var out []hx.Zs
	for k := range w.kept {
		if now := jsonOf(w.kept[k].obj); now != w.kept[k].clone {
			out = append(out, hx.Zs{14, int64(k)})
			w.kept[k].clone = now
		}
	}
	return out
}

func EncodeItems(items [][]int64, nf int) hx.Zs {
	z := hx.Zs{int64(len(items)), int64(nf)}
	if len(items) == 0 {
		z[1] = 0
	}
	for _, it := range items {
		z = append(z, it...)
	}
	return z
}

func (w *World) storeObs() hx.Zs {
	d := w.dataCopy()
	if w.Family != 1 {
		w.keep(d)
	}
	items, ok := w.ti.ReadData(d)
	if !ok {
		return hx.Zs{12, 0}
	}
	return append(hx.Zs{12, 1}, EncodeItems(items, len(w.ti.Fields))...)
}

type rd struct {
	z   hx.Zs
	pos int
	bad bool
}

func (r *rd) n() int64 {
	if r.pos >= len(r.z) {
		r.bad = true
		return 0
	}
	v := r.z[r.pos]
	r.pos++
	return v
}

func (r *rd) items() [][]int64 {
	n, nf := int(r.n()), int(r.n())
	out := make([][]int64, 0, n)
	for i := 0; i < n; i++ {
		it := make([]int64, nf)
		for j := range it {
			it[j] = r.n()
		}
		out = append(out, it)
	}
	return out
}

func (r *rd) filter() Filter {
	if r.n() == 0 {
		return Filter{}
	}
	hs, he, ns, ne := r.n(), r.n(), int(r.n()), int(r.n())
	f := Filter{Present: true}
	if hs != 0 {
		f.Sel = make([]int64, ns)
		for i := range f.Sel {
			f.Sel[i] = r.n()
		}
	}
	if he != 0 {
		f.Elems = make([]int64, ne)
		for i := range f.Elems {
			f.Elems[i] = r.n()
		}
	}
	return f
}

func (w *World) datagram(src, dst *model.FeatureAddressType, cls model.CmdClassifierType, cmd model.CmdType, ack bool) []byte {
	w.ctr++
	d := model.Datagram{Datagram: model.DatagramType{
		Header: model.HeaderType{
			SpecificationVersion: util.Ptr(model.SpecificationVersionType("1.3.0")),
			AddressSource:        src,
			AddressDestination:   dst,
			MsgCounter:           util.Ptr(model.MsgCounterType(w.ctr)),
			CmdClassifier:        &cls,
		},
		Payload: model.PayloadType{Cmd: []model.CmdType{cmd}},
	}}
	if ack {
		d.Datagram.Header.AckRequest = util.Ptr(true)
	}
	if cls == model.CmdClassifierTypeReply {
		// a reply without reference panics in PrintMessageOverview (C05's subject)
		d.Datagram.Header.MsgCounterReference = util.Ptr(model.MsgCounterType(1))
	}
	b, err := json.Marshal(d)
	if err != nil {
		panic(err)
	}
	return b
}

// result looks for the result datagram answering message counter ref: 0 success, 1 error, -1 none
func (w *World) result(ref uint64) int64 {
	code := int64(-1)
	for _, b := range w.w.take() {
		var d model.Datagram
		if json.Unmarshal(b, &d) != nil {
			continue
		}
		h := d.Datagram.Header
		if h.CmdClassifier == nil || *h.CmdClassifier != model.CmdClassifierTypeResult || h.MsgCounterReference == nil || uint64(*h.MsgCounterReference) != ref {
			continue
		}
		for _, c := range d.Datagram.Payload.Cmd {
			if c.ResultData != nil && c.ResultData.ErrorNumber != nil {
				if *c.ResultData.ErrorNumber == 0 {
					code = 0
				} else {
					code = 1
				}
			}
		}
	}
	return code
}

// Exec runs one operation and returns the observations in the model's encoding.
func (w *World) Exec(op hx.Zs) (out []hx.Zs) {
	r := &rd{z: op}
	switch r.n() {
	case 0:
		ty := int(r.n())
		if ty < 0 || ty >= len(w.Types) {
			return []hx.Zs{{97}}
		}
		w.init(ty)
		return nil
	case 2:
		d := w.dataCopy()
		w.keep(d)
		items, ok := w.ti.ReadData(d)
		if !ok {
			out = append(out, hx.Zs{12, 0})
		} else {
			out = append(out, append(hx.Zs{12, 1}, EncodeItems(items, len(w.ti.Fields))...))
		}
		return append(out, w.changed()...)
	case 3:
		return w.overlap(r)
	case 1:
	default:
		return []hx.Zs{{97}}
	}
	remote, persist, wire := r.n(), r.n(), r.n()
	items := r.items()
	fpA, fdA := r.filter(), r.filter()
	if r.bad || w.ti == nil {
		return []hx.Zs{{97}}
	}
	data := w.ti.BuildData(items)
	fp, fd := w.ti.BuildFilter(true, fpA), w.ti.BuildFilter(false, fdA)
	nev := len(w.events)

	var code int64
	var ret any
	func() {
		defer func() {
			if e := recover(); e != nil {
				code, ret = 2, nil
				if os.Getenv("UPD_DEBUG") != "" {
					fmt.Fprintf(os.Stderr, "panic: %v\n%s\n", e, debug.Stack())
				}
			}
		}()
		switch w.Family {
		case 0:
			d, err := w.fd.UpdateDataAny(remote != 0, persist != 0, data.Interface(), fp, fd)
			if err != nil {
				code = 1
			} else {
				ret = d
			}
		case 1:
			// a bare data object has no FunctionData in front of it that would run the update on a
			// copy: when the call panics half-way, the object is put back as it was before the call
			// (the partial in-place effects of a panicking call are not modelled; panics are C05's subject)
			before, _ := json.Marshal(w.obj.Interface())
			defer func() {
				if e := recover(); e != nil {
					fresh := reflect.New(w.ti.T)
					_ = json.Unmarshal(before, fresh.Interface())
					w.obj = fresh
					panic(e)
				}
			}()
			d, ok := w.obj.Interface().(model.Updater).UpdateList(remote != 0, persist != 0, data.Interface(), fp, fd)
			if !ok {
				code = 1
			} else {
				ret = d
			}
		case 2:
			if wire == 0 {
				d, err := w.rfServer.UpdateData(persist != 0, w.ti.Function, data.Interface(), fp, fd)
				if err != nil {
					code = 1
				} else {
					ret = d
				}
			} else {
				cls := model.CmdClassifierTypeNotify
				if wire == 2 {
					cls = model.CmdClassifierTypeReply
				}
				msg := w.datagram(w.rfServer.Address(), w.lfClient.Address(), cls, w.ti.Cmd(data, fp, fd), true)
				if _, err := w.reader.HandleSpineMesssage(msg); err != nil {
					code = 3
				} else if c := w.result(w.ctr); c >= 0 {
					code = c
				} else {
					code = 3
				}
			}
		default:
			if wire == 0 {
				if persist == 2 {
					w.lfServer.SetData(w.ti.Function, data.Interface())
				} else if err := w.lfServer.UpdateData(w.ti.Function, data.Interface(), fp, fd); err != nil {
					code = 1
				}
			} else {
				msg := w.datagram(w.rfClient.Address(), w.lfServer.Address(), model.CmdClassifierTypeWrite, w.ti.Cmd(data, fp, fd), true)
				if _, err := w.reader.HandleSpineMesssage(msg); err != nil {
					code = 3
				} else if c := w.result(w.ctr); c >= 0 {
					code = c
				} else {
					code = 3
				}
			}
		}
	}()
	out = append(out, hx.Zs{10, code})
	if code == 0 && ret != nil {
		v := reflect.ValueOf(ret)
		if v.Kind() == reflect.Ptr && !v.IsNil() && v.Elem().Type() == w.ti.T {
			// the replace path returns the stored *T
			l, _ := w.ti.ReadData(ret)
			out = append(out, append(hx.Zs{11}, EncodeItems(l, len(w.ti.Fields))...))
			w.keep(ret)
		} else if v.Kind() == reflect.Slice && v.Type().Elem() == w.ti.Elem {
			out = append(out, append(hx.Zs{11}, EncodeItems(w.ti.ReadList(v), len(w.ti.Fields))...))
			w.keep(ret)
		} else {
			if os.Getenv("UPD_DEBUG") != "" { fmt.Fprintf(os.Stderr, "ret type %T want elem %v\n", ret, w.ti.Elem) }
			out = append(out, hx.Zs{11, -1, 0}) // not the data: mis-wired UpdateList
		}
	}
	out = append(out, w.storeObs())
	w.evMu.Lock()
	evs := append([]any(nil), w.events[nev:]...)
	w.evMu.Unlock()
	for _, e := range evs {
		out = append(out, hx.Zs{13})
		w.keep(e)
	}
	if w.w != nil {
		w.w.take()
	}
	return append(out, w.changed()...)
}

// ReturnsData tells whether the API used for this operation hands the resulting data back.
func ReturnsData(family int, op hx.Zs) bool {
	if len(op) < 4 || op[0] != 1 {
		return false
	}
	wire := op[3]
	return family <= 1 || (family == 2 && wire == 0)
}

func (w *World) String() string { return fmt.Sprintf("world(family %d)", w.Family) }

// overlap executes operation 3 (coq/Model/WriteStore.v Overlap): the write datagram of the bound peer
// and a local FeatureLocal.UpdateData of the same function, released together on two goroutines.
// Observations: answer to the write, result of the local update, DataCopy afterwards, the events.
func (w *World) overlap(r *rd) (out []hx.Zs) {
	wItems := r.items()
	wfpA, wfdA := r.filter(), r.filter()
	lItems := r.items()
	lfpA, lfdA := r.filter(), r.filter()
	if r.bad || w.ti == nil || w.Family != 3 {
		return []hx.Zs{{97}}
	}
	wData, lData := w.ti.BuildData(wItems), w.ti.BuildData(lItems)
	msg := w.datagram(w.rfClient.Address(), w.lfServer.Address(), model.CmdClassifierTypeWrite,
		w.ti.Cmd(wData, w.ti.BuildFilter(true, wfpA), w.ti.BuildFilter(false, wfdA)), true)
	ref := w.ctr
	lfp, lfd := w.ti.BuildFilter(true, lfpA), w.ti.BuildFilter(false, lfdA)
	nev := len(w.events)

	codeW, codeL := int64(3), int64(0)
	start := make(chan struct{})
	var wg sync.WaitGroup
	wg.Add(2)
	go func() {
		defer wg.Done()
		defer func() {
			if e := recover(); e != nil {
				codeW = 2
			}
		}()
		<-start
		if _, err := w.reader.HandleSpineMesssage(msg); err != nil {
			codeW = 3
		} else {
			codeW = -1
		}
	}()
	go func() {
		defer wg.Done()
		defer func() {
			if e := recover(); e != nil {
				codeL = 2
			}
		}()
		<-start
		if err := w.lfServer.UpdateData(w.ti.Function, lData.Interface(), lfp, lfd); err != nil {
			codeL = 1
		}
	}()
	close(start)
	wg.Wait()
	if codeW == -1 {
		if c := w.result(ref); c >= 0 {
			codeW = c
		} else {
			codeW = 3
		}
	}
	out = append(out, hx.Zs{10, codeW}, hx.Zs{10, codeL}, w.storeObs())
	w.evMu.Lock()
	evs := append([]any(nil), w.events[nev:]...)
	w.evMu.Unlock()
	for range evs {
		out = append(out, hx.Zs{13})
	}
	w.w.take()
	return out
}
