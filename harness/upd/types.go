// Package upd is shared by the translator (GenSchemas.v) and the C02/C04/C11
// runners: it enumerates the registered list data types of spine-go by
// reflection and converts between the models' abstract items (field i ->
// optional small number) and real Go values of every such type.
//
// Abstract item: one int64 per struct field of the element type, in struct
// order; 0 = nil, v+1 = the value number v.  A value number is turned into a Go
// value of the field's type by Fill (injective on 0..Domain-1) and recovered by
// looking the field's JSON text up in a per-field table.
package upd

import (
	"encoding/json"
	"fmt"
	"go/ast"
	"go/parser"
	"go/token"
	"path/filepath"
	"reflect"
	"sort"
	"strings"

	"github.com/enbility/spine-go/api"
	"github.com/enbility/spine-go/model"
	"github.com/enbility/spine-go/spine"
)

// Kind of an element field as the update engine sees it (coq/Model/Schema.v).
type Kind int

const (
	KUint         Kind = iota // pointer to a reflect.Uint
	KString                   // pointer to a string
	KBool                     // pointer to a bool
	KStruct                   // pointer to a struct
	KStructHelper             // pointer to a struct implementing model.UpdateHelper
	KSlice                    // slice field (nillable, not a pointer)
	KOtherPtr                 // pointer to anything else (uint8, int, ...)
	KNonNil                   // not nillable: CopyNonNilDataFromItemToItem would panic
)

var KindNames = []string{"KUint", "KString", "KBool", "KStruct", "KStructHelper", "KSlice", "KOtherPtr", "KNonNil"}

// how one field of the selectors struct relates to the element struct
type SelKind int

const (
	SIgnore SelKind = iota // not a pointer, or no element field of that name: never constrains
	SField                 // compared with element field Index (same pointee type, scalar)
	SBad                   // panics or compares pointers (slice-valued / struct-valued / differently typed element field)
)

type Field struct {
	Name       string
	Type       reflect.Type
	Kind       Kind
	Key        bool
	WriteCheck bool
	Domain     int // number of distinct value numbers (2 for bool)
	decode     map[string]int64
}

type SelField struct {
	Name  string
	Kind  SelKind
	Index int // element field index for SField
	Type  reflect.Type
}

type TypeInfo struct {
	Index     int
	Function  model.FunctionType
	T         reflect.Type // the list data type (struct with one slice field)
	ListField int
	Elem      reflect.Type
	Fields    []Field
	Keys      []int
	WC        []int
	// filter fields of model.FilterType for this function (-1 when absent)
	SelFilterField  int
	ElemFilterField int
	SelType         reflect.Type
	ElemType        reflect.Type
	Sel             []SelField
	Elems           []int // per elements-struct field: element field index of the same name or -1
	CmdField        int   // field of model.CmdType carrying this function
	FeatureTypes    []model.FeatureTypeType

	keyPool [][]int64 // generator state: the identifiers drawn so far in the history being generated
}

const Domain = 10

var updateHelperType = reflect.TypeOf((*model.UpdateHelper)(nil)).Elem()

// FeatureTypes finds the FeatureTypeType constants in model/*.go of the repository.
func FeatureTypes(repo string) ([]model.FeatureTypeType, error) {
	fset := token.NewFileSet()
	files, _ := filepath.Glob(filepath.Join(repo, "model", "*.go"))
	var out []model.FeatureTypeType
	for _, fn := range files {
		if strings.HasSuffix(fn, "_test.go") {
			continue
		}
		f, err := parser.ParseFile(fset, fn, nil, 0)
		if err != nil {
			return nil, err
		}
		for _, d := range f.Decls {
			gd, ok := d.(*ast.GenDecl)
			if !ok || gd.Tok != token.CONST {
				continue
			}
			for _, s := range gd.Specs {
				vs := s.(*ast.ValueSpec)
				id, ok := vs.Type.(*ast.Ident)
				if !ok || id.Name != "FeatureTypeType" || len(vs.Values) != 1 {
					continue
				}
				if lit, ok := vs.Values[0].(*ast.BasicLit); ok && lit.Kind == token.STRING {
					out = append(out, model.FeatureTypeType(strings.Trim(lit.Value, "\"")))
				}
			}
		}
	}
	if len(out) == 0 {
		return nil, fmt.Errorf("no FeatureTypeType constants found under %s/model", repo)
	}
	return out, nil
}

func pointeeKind(t reflect.Type) Kind {
	switch t.Kind() {
	case reflect.Slice:
		return KSlice
	case reflect.Ptr:
		switch t.Elem().Kind() {
		case reflect.Uint:
			return KUint
		case reflect.String:
			return KString
		case reflect.Bool:
			return KBool
		case reflect.Struct:
			if t.Implements(updateHelperType) {
				return KStructHelper
			}
			return KStruct
		}
		return KOtherPtr
	case reflect.Map, reflect.Interface, reflect.Chan, reflect.Func:
		return KSlice // nillable, treated like a slice by the engine
	}
	return KNonNil
}

// Types lists every registered function whose data type implements model.Updater
// and is a struct with exactly one slice-of-struct field, sorted by function name.
// fts are the feature types to ask the factory for (FeatureTypes, or nil for
// Generic+NodeManagement which covers every function on this tree).
func Types(fts []model.FeatureTypeType) []*TypeInfo {
	if len(fts) == 0 {
		fts = []model.FeatureTypeType{model.FeatureTypeTypeGeneric, model.FeatureTypeTypeNodeManagement}
	}
	seen := map[model.FunctionType]*TypeInfo{}
	var out []*TypeInfo
	for _, ft := range fts {
		var fds []api.FunctionDataInterface
		func() {
			defer func() { recover() }() // CreateFunctionData panics on an unknown feature type
			fds = spine.CreateFunctionData[api.FunctionDataInterface](ft)
		}()
		for _, fd := range fds {
			if ti, ok := seen[fd.FunctionType()]; ok {
				if ti != nil {
					ti.FeatureTypes = append(ti.FeatureTypes, ft)
				}
				continue
			}
			seen[fd.FunctionType()] = nil
			if !fd.SupportsPartialWrite() {
				continue
			}
			T := reflect.TypeOf(fd.DataCopyAny()).Elem()
			ti := describe(fd.FunctionType(), T)
			if ti == nil {
				continue
			}
			ti.FeatureTypes = []model.FeatureTypeType{ft}
			seen[fd.FunctionType()] = ti
			out = append(out, ti)
		}
	}
	sort.Slice(out, func(i, j int) bool { return out[i].Function < out[j].Function })
	for i, ti := range out {
		ti.Index = i
	}
	return out
}

func describe(fn model.FunctionType, T reflect.Type) *TypeInfo {
	if T.Kind() != reflect.Struct {
		return nil
	}
	ti := &TypeInfo{Function: fn, T: T, ListField: -1, SelFilterField: -1, ElemFilterField: -1, CmdField: -1}
	for i := 0; i < T.NumField(); i++ {
		f := T.Field(i)
		if f.Type.Kind() == reflect.Slice && f.Type.Elem().Kind() == reflect.Struct {
			if ti.ListField >= 0 {
				return nil
			}
			ti.ListField = i
		}
	}
	if ti.ListField < 0 {
		return nil
	}
	ti.Elem = T.Field(ti.ListField).Type.Elem()
	for i := 0; i < ti.Elem.NumField(); i++ {
		sf := ti.Elem.Field(i)
		tags := model.EEBusTags(sf)
		f := Field{Name: sf.Name, Type: sf.Type, Kind: pointeeKind(sf.Type), Domain: Domain}
		// fieldNamesWithEEBusTag only looks at pointer fields
		if _, ok := tags[model.EEBusTagKey]; ok && sf.Type.Kind() == reflect.Ptr {
			f.Key = true
			ti.Keys = append(ti.Keys, i)
		}
		if _, ok := tags[model.EEBusTagWriteCheck]; ok && sf.Type.Kind() == reflect.Ptr {
			f.WriteCheck = true
			ti.WC = append(ti.WC, i)
		}
		if f.Kind == KBool {
			f.Domain = 2
		}
		if f.Key && f.Kind == KUint {
			f.Domain = 400 // numeric identifiers: room for the long lists of the overlap histories
		}
		ti.Fields = append(ti.Fields, f)
	}
	ft := reflect.TypeOf(model.FilterType{})
	for i := 0; i < ft.NumField(); i++ {
		sf := ft.Field(i)
		tags := model.EEBusTags(sf)
		if tags[model.EEBusTagFunction] != string(fn) || sf.Type.Kind() != reflect.Ptr {
			continue
		}
		switch tags[model.EEBusTagType] {
		case string(model.EEBusTagTypeTypeSelector):
			ti.SelFilterField = i
			ti.SelType = sf.Type.Elem()
		case string(model.EEbusTagTypeTypeElements):
			ti.ElemFilterField = i
			ti.ElemType = sf.Type.Elem()
		}
	}
	if ti.SelType != nil {
		for j := 0; j < ti.SelType.NumField(); j++ {
			sf := ti.SelType.Field(j)
			s := SelField{Name: sf.Name, Kind: SIgnore, Index: -1, Type: sf.Type}
			if sf.Type.Kind() == reflect.Ptr {
				if ef, ok := ti.Elem.FieldByName(sf.Name); ok {
					idx := ef.Index[0]
					k := ti.Fields[idx].Kind
					if ef.Type == sf.Type && (k == KUint || k == KString || k == KBool || (k == KOtherPtr && ef.Type.Elem().Comparable() && ef.Type.Elem().Kind() != reflect.Struct)) {
						s.Kind, s.Index = SField, idx
					} else {
						s.Kind = SBad
					}
				}
			}
			ti.Sel = append(ti.Sel, s)
		}
	}
	if ti.ElemType != nil {
		for j := 0; j < ti.ElemType.NumField(); j++ {
			idx := -1
			if ef, ok := ti.Elem.FieldByName(ti.ElemType.Field(j).Name); ok {
				idx = ef.Index[0]
			}
			ti.Elems = append(ti.Elems, idx)
		}
	}
	ct := reflect.TypeOf(model.CmdType{})
	for i := 0; i < ct.NumField(); i++ {
		sf := ct.Field(i)
		if model.EEBusTags(sf)[model.EEBusTagFunction] == string(fn) && sf.Type.Kind() == reflect.Ptr && sf.Type.Elem() == T {
			ti.CmdField = i
		}
	}
	for i := range ti.Fields {
		f := &ti.Fields[i]
		f.decode = map[string]int64{}
		for v := 0; v < f.Domain; v++ {
			val, ok := FillField(f.Type, int64(v))
			if !ok {
				f.Domain = 0
				break
			}
			b, err := json.Marshal(val.Interface())
			if err != nil {
				f.Domain = 0
				break
			}
			if _, dup := f.decode[string(b)]; dup {
				f.Domain = v // not injective beyond this point
				break
			}
			f.decode[string(b)] = int64(v)
		}
	}
	return ti
}

// Usable: every field can carry at least two distinct values.
func (ti *TypeInfo) Usable() bool {
	for _, f := range ti.Fields {
		if f.Domain < 2 {
			return false
		}
	}
	return true
}

// fill sets v (settable, of any supported type) from value number n.
func fill(v reflect.Value, n int64, depth int) bool {
	if depth > 6 {
		return false
	}
	switch v.Kind() {
	case reflect.Uint, reflect.Uint8, reflect.Uint16, reflect.Uint32, reflect.Uint64:
		v.SetUint(uint64(n))
		return true
	case reflect.Int, reflect.Int8, reflect.Int16, reflect.Int32, reflect.Int64:
		v.SetInt(n)
		return true
	case reflect.String:
		v.SetString(fmt.Sprintf("s%d", n))
		return true
	case reflect.Bool:
		v.SetBool(n%2 == 1)
		return true
	case reflect.Ptr:
		p := reflect.New(v.Type().Elem())
		if !fill(p.Elem(), n, depth+1) {
			return false
		}
		v.Set(p)
		return true
	case reflect.Slice:
		s := reflect.MakeSlice(v.Type(), 1, 1)
		if !fill(s.Index(0), n, depth+1) {
			return false
		}
		v.Set(s)
		return true
	case reflect.Struct:
		// the first two fields that can carry a value get one (ScaledNumberType: number AND scale,
		// TimePeriodType: startTime AND endTime), so that a change to a SUB element of a
		// struct-valued field — made through a pointer several items or copies share — shows up
		// in the JSON text and hence as a value outside the field's table
		filled := 0
		for i := 0; i < v.NumField() && filled < 2; i++ {
			if !v.Field(i).CanSet() {
				continue
			}
			if fill(v.Field(i), n, depth+1) {
				filled++
			}
		}
		return filled > 0
	}
	return false
}

// FillField builds a value of a field type (pointer or slice) for value number n.
func FillField(t reflect.Type, n int64) (reflect.Value, bool) {
	v := reflect.New(t).Elem()
	ok := fill(v, n, 0)
	return v, ok
}

// BuildItem turns an abstract item into an element struct value.
func (ti *TypeInfo) BuildItem(abs []int64) reflect.Value {
	it := reflect.New(ti.Elem).Elem()
	for i, a := range abs {
		if a == 0 || i >= len(ti.Fields) {
			continue
		}
		v, _ := FillField(ti.Fields[i].Type, a-1)
		it.Field(i).Set(v)
	}
	return it
}

// BuildData builds a *T holding the given items (nil items -> nil slice).
func (ti *TypeInfo) BuildData(items [][]int64) reflect.Value {
	d := reflect.New(ti.T)
	if items != nil {
		s := reflect.MakeSlice(ti.T.Field(ti.ListField).Type, len(items), len(items))
		for i, it := range items {
			s.Index(i).Set(ti.BuildItem(it))
		}
		d.Elem().Field(ti.ListField).Set(s)
	}
	return d
}

// OutOfTable is the abstract value (encoded, i.e. value number OutOfTable-1) ReadItem reports for a
// field whose Go value is none of the values Fill produces, e.g. a ScaledNumberType that lost its
// scale: distinct from every generated value, so the monitors see "this field changed".
const OutOfTable = 9999

// ReadItem abstracts an element struct value; OutOfTable marks a value outside the table.
func (ti *TypeInfo) ReadItem(it reflect.Value) []int64 {
	out := make([]int64, len(ti.Fields))
	for i := range ti.Fields {
		f := it.Field(i)
		if f.IsNil() {
			continue
		}
		b, err := json.Marshal(f.Interface())
		if err != nil {
			out[i] = OutOfTable
			continue
		}
		if n, ok := ti.Fields[i].decode[string(b)]; ok {
			out[i] = n + 1
		} else {
			out[i] = OutOfTable
		}
	}
	return out
}

// ReadList abstracts a slice of elements (reflect.Value of kind Slice).
func (ti *TypeInfo) ReadList(s reflect.Value) [][]int64 {
	out := make([][]int64, 0, s.Len())
	for i := 0; i < s.Len(); i++ {
		out = append(out, ti.ReadItem(s.Index(i)))
	}
	return out
}

// ReadData abstracts a *T (nil pointer -> ok=false).
func (ti *TypeInfo) ReadData(d any) ([][]int64, bool) {
	v := reflect.ValueOf(d)
	if !v.IsValid() || v.Kind() != reflect.Ptr || v.IsNil() {
		return nil, false
	}
	return ti.ReadList(v.Elem().Field(ti.ListField)), true
}

// Filter is the abstract content of a FilterType for this function.
type Filter struct {
	Present bool    // a filter is given at all
	Sel     []int64 // nil: no selectors struct; else one abstract value per selectors field
	Elems   []int64 // nil: no elements struct; else 0/1 per elements field
}

// BuildFilter builds a *model.FilterType (nil when not present).
func (ti *TypeInfo) BuildFilter(partial bool, f Filter) *model.FilterType {
	if !f.Present {
		return nil
	}
	ft := &model.FilterType{CmdControl: &model.CmdControlType{}}
	if partial {
		ft.CmdControl.Partial = &model.ElementTagType{}
	} else {
		ft.CmdControl.Delete = &model.ElementTagType{}
	}
	v := reflect.ValueOf(ft).Elem()
	if f.Sel != nil && ti.SelFilterField >= 0 {
		s := reflect.New(ti.SelType)
		for j, a := range f.Sel {
			if a == 0 || j >= len(ti.Sel) {
				continue
			}
			val, _ := FillField(ti.Sel[j].Type, a-1)
			s.Elem().Field(j).Set(val)
		}
		v.Field(ti.SelFilterField).Set(s)
	}
	if f.Elems != nil && ti.ElemFilterField >= 0 {
		e := reflect.New(ti.ElemType)
		for j, a := range f.Elems {
			if a == 0 || j >= e.Elem().NumField() {
				continue
			}
			fv := e.Elem().Field(j)
			if fv.Kind() == reflect.Ptr {
				fv.Set(reflect.New(fv.Type().Elem()))
				// 2 / 3: the element names a SUB element (the last / the first pointer field of its
				// elements struct, e.g. value.scale / value.number) instead of the field as a whole
				if sub := fv.Elem(); a >= 2 && sub.Kind() == reflect.Struct {
					var ptrs []int
					for k := 0; k < sub.NumField(); k++ {
						if sub.Field(k).Kind() == reflect.Ptr && sub.Field(k).CanSet() {
							ptrs = append(ptrs, k)
						}
					}
					if len(ptrs) > 0 {
						k := ptrs[len(ptrs)-1]
						if a == 3 {
							k = ptrs[0]
						}
						sub.Field(k).Set(reflect.New(sub.Field(k).Type().Elem()))
					}
				}
			}
		}
		v.Field(ti.ElemFilterField).Set(e)
	}
	return ft
}

// Cmd builds a CmdType carrying data (a *T) for this function.
func (ti *TypeInfo) Cmd(data reflect.Value, filters ...*model.FilterType) model.CmdType {
	var c model.CmdType
	reflect.ValueOf(&c).Elem().Field(ti.CmdField).Set(data)
	for _, f := range filters {
		if f != nil {
			c.Filter = append(c.Filter, *f)
		}
	}
	if len(c.Filter) > 0 {
		c.Function = &ti.Function
	}
	return c
}

// HasSubElements tells whether field j of the elements struct is a pointer to a struct with
// pointer fields of its own, i.e. whether a delete filter can name a sub element of it.
func (ti *TypeInfo) HasSubElements(j int) bool {
	if ti.ElemType == nil || j < 0 || j >= ti.ElemType.NumField() {
		return false
	}
	t := ti.ElemType.Field(j).Type
	if t.Kind() != reflect.Ptr || t.Elem().Kind() != reflect.Struct {
		return false
	}
	for k := 0; k < t.Elem().NumField(); k++ {
		if t.Elem().Field(k).Type.Kind() == reflect.Ptr && t.Elem().Field(k).IsExported() {
			return true
		}
	}
	return false
}
