package stack

import "verifharness/hx"

// ---- op constructors (encoding of coq/Model/StackWire.v)

func eaddrEnc(e []int64) hx.Zs { return append(hx.Zs{int64(len(e))}, e...) }

func b2i(b bool) int64 {
	if b {
		return 1
	}
	return 0
}

func OpAddLocalEntity(e []int64) hx.Zs { return append(hx.Zs{1}, eaddrEnc(e)...) }
func OpAddLocalFeature(e []int64, t, role int64) hx.Zs {
	return append(hx.Zs{2, t, role}, eaddrEnc(e)...)
}
func OpAddFunction(e []int64, f, fn int64, rd, wr bool) hx.Zs {
	return append(hx.Zs{3, f, fn, b2i(rd), b2i(wr)}, eaddrEnc(e)...)
}
func OpConnect(p int64) hx.Zs                   { return hx.Zs{4, p} }
func OpDiscoveryReply(p int64, m DiscMsg) hx.Zs { return append(hx.Zs{5, p}, m.Enc()...) }
func OpDiscoveryNotify(p, ctr int64, ack bool, m DiscMsg) hx.Zs {
	return append(hx.Zs{6, p, ctr, b2i(ack)}, m.Enc()...)
}
func opReg(code, p, ctr int64, ack bool, cli, srv FAddr, t int64) hx.Zs {
	z := hx.Zs{code, p, ctr, b2i(ack)}
	z = append(z, cli.enc()...)
	z = append(z, srv.enc()...)
	return append(z, t)
}
func OpSubCall(p, ctr int64, ack bool, cli, srv FAddr, t int64) hx.Zs {
	return opReg(7, p, ctr, ack, cli, srv, t)
}
func OpSubDelete(p, ctr int64, ack bool, cli, srv FAddr) hx.Zs {
	return opReg(8, p, ctr, ack, cli, srv, 0)
}
func OpBindCall(p, ctr int64, ack bool, cli, srv FAddr, t int64) hx.Zs {
	return opReg(9, p, ctr, ack, cli, srv, t)
}
func OpBindDelete(p, ctr int64, ack bool, cli, srv FAddr) hx.Zs {
	return opReg(10, p, ctr, ack, cli, srv, 0)
}
func OpSetData(e []int64, f, fn, v int64) hx.Zs { return append(hx.Zs{11, f, fn, v}, eaddrEnc(e)...) }
func OpWrite(p, ctr int64, ack bool, src, dst FAddr, fn, v int64) hx.Zs {
	z := hx.Zs{12, p, ctr, b2i(ack), fn, v}
	z = append(z, src.enc()...)
	return append(z, dst.enc()...)
}
func OpDisconnect(p int64) hx.Zs { return hx.Zs{13, p} }
func OpListSubs(p int64) hx.Zs   { return hx.Zs{14, p} }
func OpListBinds(p int64) hx.Zs  { return hx.Zs{15, p} }
func opClient(code int64, e []int64, f int64, r FAddr) hx.Zs {
	z := append(hx.Zs{code, f}, eaddrEnc(e)...)
	return append(z, r.enc()...)
}
func OpLocalSubscribe(e []int64, f int64, r FAddr) hx.Zs   { return opClient(16, e, f, r) }
func OpLocalBind(e []int64, f int64, r FAddr) hx.Zs        { return opClient(17, e, f, r) }
func OpLocalUnsubscribe(e []int64, f int64, r FAddr) hx.Zs { return opClient(23, e, f, r) }
func OpLocalUnbind(e []int64, f int64, r FAddr) hx.Zs      { return opClient(24, e, f, r) }
func OpHasLocalSub(e []int64, f int64, r FAddr) hx.Zs      { return opClient(18, e, f, r) }
func OpHasLocalBind(e []int64, f int64, r FAddr) hx.Zs     { return opClient(19, e, f, r) }
func OpReadData(e []int64, f, fn int64) hx.Zs              { return append(hx.Zs{20, f, fn}, eaddrEnc(e)...) }
func OpResolve(p, dev int64) hx.Zs                         { return hx.Zs{21, p, dev} }

// OpDuring: while the teardown operation td of one peer runs, the registry call of another peer arrives
func OpDuring(td, call hx.Zs) hx.Zs {
	z := append(hx.Zs{22, int64(len(td))}, td...)
	return append(z, call...)
}

var OpNames = map[int64]string{1: "add-local-entity", 2: "add-local-feature", 3: "add-function", 4: "connect", 5: "discovery-reply",
	6: "discovery-notify", 7: "subscribe-call", 8: "subscribe-delete", 9: "bind-call", 10: "bind-delete", 11: "set-data", 12: "write",
	13: "disconnect", 14: "list-subscriptions", 15: "list-bindings", 16: "local-subscribe", 17: "local-bind", 18: "has-local-sub",
	19: "has-local-bind", 20: "read-data", 21: "resolve", 22: "teardown-overlapped-by-call", 23: "local-unsubscribe", 24: "local-unbind"}

// ---- world plans

type LFeat struct {
	Ent      []int64
	Id       int64
	Type     int64
	Role     int64 // 0 client 1 server 2 special
	Fns      []int64
	Writable map[int64]bool
}

func (f LFeat) Addr(withDev bool) FAddr {
	a := FAddr{Ent: f.Ent, Feat: f.Id + 1}
	if withDev {
		a.Dev = 1
	}
	return a
}

type RFeat struct {
	Ent            []int64
	Id, Type, Role int64
}

type Peer struct {
	Ski, Dev int64 // Dev: device number k (address d<k>)
	Ents     [][]int64
	Feats    []RFeat
}

func (p Peer) Addr(f RFeat, withDev bool) FAddr {
	a := FAddr{Ent: f.Ent, Feat: f.Id + 1}
	if withDev {
		a.Dev = p.Dev + 1
	}
	return a
}

func (p Peer) Msg(state int64, only [][]int64) DiscMsg {
	m := DiscMsg{Dev: p.Dev + 1}
	ents := p.Ents
	if only != nil {
		ents = only
	}
	for _, e := range ents {
		m.Ents = append(m.Ents, DiscEnt{Addr: e, State: state})
		for _, f := range p.Feats {
			if eqE(f.Ent, e) && state != 2 {
				m.Feats = append(m.Feats, DiscFeat{Ent: f.Ent, Id: f.Id, Type: f.Type, Role: f.Role})
			}
		}
	}
	return m
}

func eqE(a, b []int64) bool {
	if len(a) != len(b) {
		return false
	}
	for i := range a {
		if a[i] != b[i] {
			return false
		}
	}
	return true
}

type Plan struct {
	Prefix []hx.Zs
	Local  []LFeat
	Peers  []Peer
}

var fnsOfType = map[int64][]int64{1: {1, 2}, 2: {3}, 3: {4}, 4: {}}

// GenPlan builds a random world: 1-3 local entities with 2-4 features each, 2-3 peers
// whose trees reuse the same entity and feature numbers.
func GenPlan(r *hx.Rng) *Plan { return GenPlanFocus(r, 0) }

// GenPlanFocus biases feature types towards focus (0 = no bias), so that many remote
// client features are compatible with the same local server features.
func GenPlanFocus(r *hx.Rng, focus int64) *Plan {
	pl := &Plan{}
	lents := [][]int64{{1}, {2}, {1, 1}}[:r.Range(1, 3)]
	for _, e := range lents {
		pl.Prefix = append(pl.Prefix, OpAddLocalEntity(e))
		n := r.Range(2, 4)
		seen := map[[2]int64]bool{}
		for i := 0; i < n; i++ {
			t := int64(r.Range(1, 3))
			if r.Chance(1, 10) {
				t = 4
			}
			if focus != 0 && r.Chance(2, 3) {
				t = focus
			}
			role := int64(1)
			if r.Chance(1, 4) {
				role = 0
			}
			id := int64(i + 1)
			f := LFeat{Ent: e, Id: id, Type: t, Role: role, Writable: map[int64]bool{}}
			pl.Prefix = append(pl.Prefix, OpAddLocalFeature(e, t, role))
			if seen[[2]int64{t, role}] {
				// EntityLocal.AddFeature drops a second feature of one type and role; the id is consumed
				continue
			}
			seen[[2]int64{t, role}] = true
			for _, fn := range fnsOfType[t] {
				if r.Chance(4, 5) {
					wr := r.Chance(3, 5)
					pl.Prefix = append(pl.Prefix, OpAddFunction(e, id, fn, true, wr))
					if role != 0 {
						f.Fns = append(f.Fns, fn)
						f.Writable[fn] = wr
					}
				}
			}
			pl.Local = append(pl.Local, f)
		}
	}
	np := r.Range(2, 3)
	for k := 1; k <= np; k++ {
		p := Peer{Ski: int64(k), Dev: int64(k), Ents: [][]int64{{0}}}
		p.Feats = append(p.Feats, RFeat{Ent: []int64{0}, Id: 0, Type: 5, Role: 2})
		for _, e := range [][]int64{{1}, {2}, {1, 1}}[:r.Range(1, 3)] {
			p.Ents = append(p.Ents, e)
			n := r.Range(1, 3)
			if focus != 0 {
				n = r.Range(2, 4)
			}
			for i := 0; i < n; i++ {
				t := int64(r.Range(1, 3))
				if r.Chance(1, 10) {
					t = 4
				}
				if focus != 0 && r.Chance(3, 4) {
					t = focus
				}
				role := int64(0)
				if r.Chance(1, 5) {
					role = 1
				}
				p.Feats = append(p.Feats, RFeat{Ent: e, Id: int64(i + 1), Type: t, Role: role})
			}
		}
		pl.Peers = append(pl.Peers, p)
	}
	return pl
}

// ConnectAll appends connect + discovery reply for every peer.
func (pl *Plan) ConnectAll() []hx.Zs {
	var ops []hx.Zs
	for _, p := range pl.Peers {
		ops = append(ops, OpConnect(p.Ski), OpDiscoveryReply(p.Ski, p.Msg(0, nil)))
	}
	return ops
}

func (pl *Plan) Servers() []LFeat {
	var r []LFeat
	for _, f := range pl.Local {
		if f.Role == 1 {
			r = append(r, f)
		}
	}
	return r
}

// NodeMgmt is the local node management feature as an LFeat.
var NodeMgmt = LFeat{Ent: []int64{0}, Id: 0, Type: 5, Role: 2}

type Impl struct{ W *World }

func NewImpl() hx.Impl { return &Impl{W: New()} }
func (i *Impl) Exec(op hx.Zs) []hx.Zs {
	return i.W.Exec(op)
}
func (i *Impl) Close() { i.W.Close() }

// ---- discovery messages beyond the plain tree announcement (repaired discovery code)

// MixedNotify is a partial notification with two or three entries, each with its own state
// (added entries carry their features); now and then it names [0] as removed, which the stack
// refuses (and which ends the processing of the message).
func (p Peer) MixedNotify(r *hx.Rng) DiscMsg {
	m := DiscMsg{Dev: p.Dev + 1}
	n := r.Range(2, 3)
	for k := 0; k < n; k++ {
		e := p.Ents[r.Intn(len(p.Ents))]
		if len(e) == 1 && e[0] == 0 && !r.Chance(1, 6) && len(p.Ents) > 1 {
			e = p.Ents[1+r.Intn(len(p.Ents)-1)]
		}
		state := int64(1 + r.Intn(2))
		one := p.Msg(state, [][]int64{e})
		m.Ents = append(m.Ents, one.Ents...)
		m.Feats = append(m.Feats, one.Feats...)
	}
	return m
}

// PartialReply is a discovery reply that leaves out some of the announced entities (the stack
// removes them with their subscriptions and bindings) and now and then [0] (which it keeps).
func (p Peer) PartialReply(r *hx.Rng) DiscMsg {
	var listed [][]int64
	for i, e := range p.Ents {
		if i == 0 {
			if r.Chance(5, 6) {
				listed = append(listed, e)
			}
			continue
		}
		if r.Chance(2, 3) {
			listed = append(listed, e)
		}
	}
	if listed == nil {
		listed = [][]int64{}
	}
	return p.Msg(0, listed)
}

// NMAddr is the node-management feature of the peer; before its discovery reply it has no device part.
func (p Peer) NMAddr(withDev bool) FAddr {
	a := FAddr{Ent: []int64{0}, Feat: 1}
	if withDev {
		a.Dev = p.Dev + 1
	}
	return a
}

// Twins is a history for the by-connection delete rule: two peers that cannot be told apart by
// address - both announce the same device address and the same tree, or neither has answered the
// discovery request yet (no device address; they use their node-management features) - obtain
// subscriptions (bind = false) or bindings (bind = true) and delete them, their own and each
// other's, in a random order, with listings of both and a data change after every delete.
func Twins(r *hx.Rng, bind bool) []hx.Zs {
	var h []hx.Zs
	e := []int64{1}
	h = append(h, OpAddLocalEntity(e),
		OpAddLocalFeature(e, 1, 1), OpAddFunction(e, 1, 1, true, true),
		OpAddLocalFeature(e, 2, 1), OpAddFunction(e, 2, 3, true, true))
	srv := []FAddr{{Dev: 1, Ent: e, Feat: 2}, {Dev: 1, Ent: e, Feat: 3}}
	nm := FAddr{Dev: 1, Ent: []int64{0}, Feat: 1}
	addressless := r.Chance(1, 3)
	peers := []Peer{}
	for k := int64(1); k <= 2; k++ {
		p := Peer{Ski: k, Dev: 1, Ents: [][]int64{{0}, {1}}, Feats: []RFeat{{Ent: []int64{0}, Id: 0, Type: 5, Role: 2},
			{Ent: []int64{1}, Id: 1, Type: 1, Role: 0}, {Ent: []int64{1}, Id: 2, Type: 2, Role: 0}}}
		peers = append(peers, p)
		h = append(h, OpConnect(k))
		if !addressless {
			h = append(h, OpDiscoveryReply(k, p.Msg(0, nil)))
		}
	}
	ctr := map[int64]int64{}
	next := func(p int64) int64 { ctr[p]++; return 100*p + ctr[p] }
	lists := func() {
		for _, p := range peers {
			if bind {
				h = append(h, OpListBinds(p.Ski))
			} else {
				h = append(h, OpListSubs(p.Ski))
			}
		}
	}
	change := func() {
		h = append(h, OpSetData(e, 1, 1, int64(r.Range(1, 900))), OpSetData(e, 2, 3, int64(r.Range(1, 900))))
	}
	type pair struct {
		cli, srv FAddr
		t        int64
	}
	var held [2][]pair // what each peer asked for
	devOf := func(with bool) int64 {
		if with && !addressless {
			return 2
		}
		return 0
	}
	for k, p := range peers {
		var want []pair
		switch {
		case addressless:
			want = []pair{{FAddr{Ent: []int64{0}, Feat: 1}, nm, 6}}
		case bind: // at most one binding per server feature: the twins bind to different ones
			want = []pair{{FAddr{Dev: devOf(r.Bool()), Ent: e, Feat: int64(k) + 2}, srv[k], int64(k) + 2}}
		default:
			want = []pair{{FAddr{Dev: devOf(r.Bool()), Ent: e, Feat: 2}, srv[0], 2}}
			if r.Bool() {
				want = append(want, pair{FAddr{Dev: devOf(r.Bool()), Ent: e, Feat: 3}, srv[1], 3})
			}
		}
		for _, w := range want {
			if bind {
				h = append(h, OpBindCall(p.Ski, next(p.Ski), r.Bool(), w.cli, w.srv, w.t))
			} else {
				h = append(h, OpSubCall(p.Ski, next(p.Ski), r.Bool(), w.cli, w.srv, w.t))
			}
		}
		held[k] = want
	}
	lists()
	change()
	// deletes: own and the twin's pairs, in a random order, some repeated
	type del struct {
		by int
		w  pair
	}
	var dels []del
	for k := range peers {
		for _, w := range held[k] {
			dels = append(dels, del{k, w}, del{1 - k, w})
		}
	}
	for i := len(dels) - 1; i > 0; i-- {
		j := r.Intn(i + 1)
		dels[i], dels[j] = dels[j], dels[i]
	}
	if r.Bool() && len(dels) > 0 {
		dels = append(dels, dels[r.Intn(len(dels))])
	}
	for _, d := range dels {
		p := peers[d.by]
		cli := d.w.cli
		cli.Dev = devOf(r.Bool())
		if bind {
			h = append(h, OpBindDelete(p.Ski, next(p.Ski), r.Bool(), cli, d.w.srv))
		} else {
			h = append(h, OpSubDelete(p.Ski, next(p.Ski), r.Bool(), cli, d.w.srv))
		}
		lists()
		if !bind {
			change()
		}
	}
	return h
}

// DeleteOverlap is a history for the atomicity of RemoveSubscription / RemoveBinding: peers with
// distinct device addresses hold subscriptions (bind = false) or bindings (bind = true); a delete
// call of one peer is overlapped (operation 22) by a subscribe / bind (sometimes a delete) call of
// another peer, which arrives while the delete sits between its filter and its store; listings of
// both peers and a data change follow every overlap.
func DeleteOverlap(r *hx.Rng, bind bool) []hx.Zs {
	var h []hx.Zs
	e := []int64{1}
	h = append(h, OpAddLocalEntity(e),
		OpAddLocalFeature(e, 1, 1), OpAddFunction(e, 1, 1, true, true),
		OpAddLocalFeature(e, 2, 1), OpAddFunction(e, 2, 3, true, true))
	srv := []FAddr{{Dev: 1, Ent: e, Feat: 2}, {Dev: 1, Ent: e, Feat: 3}}
	n := int64(r.Range(2, 3))
	var peers []Peer
	for k := int64(1); k <= n; k++ {
		p := Peer{Ski: k, Dev: k, Ents: [][]int64{{0}, {1}}, Feats: []RFeat{{Ent: []int64{0}, Id: 0, Type: 5, Role: 2},
			{Ent: []int64{1}, Id: 1, Type: 1, Role: 0}, {Ent: []int64{1}, Id: 2, Type: 2, Role: 0}}}
		peers = append(peers, p)
		h = append(h, OpConnect(k), OpDiscoveryReply(k, p.Msg(0, nil)))
	}
	ctr := map[int64]int64{}
	next := func(p int64) int64 { ctr[p]++; return 100*p + ctr[p] }
	// pair j of peer p: its client feature j+1 (type j+1) with server feature j
	cli := func(p Peer, j int) FAddr {
		a := FAddr{Ent: e, Feat: int64(j) + 2}
		if r.Chance(2, 3) {
			a.Dev = p.Dev + 1
		}
		return a
	}
	mk := func(code int64, p Peer, j int) hx.Zs {
		switch {
		case code == 7 && !bind:
			return OpSubCall(p.Ski, next(p.Ski), r.Bool(), cli(p, j), srv[j], int64(j)+2)
		case code == 7:
			return OpBindCall(p.Ski, next(p.Ski), r.Bool(), cli(p, j), srv[j], int64(j)+2)
		case !bind:
			return OpSubDelete(p.Ski, next(p.Ski), r.Bool(), cli(p, j), srv[j])
		}
		return OpBindDelete(p.Ski, next(p.Ski), r.Bool(), cli(p, j), srv[j])
	}
	lists := func(ps ...Peer) {
		for _, p := range ps {
			if bind {
				h = append(h, OpListBinds(p.Ski))
			} else {
				h = append(h, OpListSubs(p.Ski))
			}
		}
	}
	for round := 0; round < r.Range(2, 5); round++ {
		ai := r.Intn(len(peers))
		bi := (ai + 1 + r.Intn(len(peers)-1)) % len(peers)
		a, b := peers[ai], peers[bi]
		ja := r.Intn(2)
		// a gets something to delete (the request may be refused: already there, or - bindings -
		// the server feature is taken; the delete is then refused and the call follows it)
		if r.Chance(7, 8) {
			h = append(h, mk(7, a, ja))
		}
		if !bind && r.Bool() {
			h = append(h, mk(7, a, 1-ja))
		}
		jb := r.Intn(2)
		if bind {
			// a bind request for the server feature a is unbinding does not commute with the delete
			// (refused before, granted after): only the other feature
			jb = 1 - ja
		}
		var call hx.Zs
		if r.Chance(5, 6) {
			call = mk(7, b, jb)
		} else {
			call = mk(8, b, jb)
		}
		h = append(h, OpDuring(mk(8, a, ja), call))
		lists(b, a)
		h = append(h, OpSetData(e, int64(jb)+1, []int64{1, 3}[jb], int64(r.Range(1, 900))))
	}
	lists(peers...)
	return h
}

// Reannounce is a history for "an entity announced again keeps its registry entries": a peer holds
// subscriptions and bindings made from its entity [1] (and [2]), then announces [1] again
// (detailed-discovery notification, lastStateChange added for the EXISTING entity) with none, some
// or all of its features - DeviceRemote.AddEntityAndFeatures empties and rebuilds the feature list -
// and after that is torn down: disconnect (sometimes overlapped by a call of another peer) or an
// entity-removed notification.  Listings, a data change (fan-out), a bind request and a write of
// another peer for the server feature the removed peer had bound follow: nothing of the removed
// entity may survive.
func Reannounce(r *hx.Rng) []hx.Zs {
	var h []hx.Zs
	e := []int64{1}
	h = append(h, OpAddLocalEntity(e),
		OpAddLocalFeature(e, 1, 1), OpAddFunction(e, 1, 1, true, true),
		OpAddLocalFeature(e, 2, 1), OpAddFunction(e, 2, 3, true, true))
	srv := []FAddr{{Dev: 1, Ent: e, Feat: 2}, {Dev: 1, Ent: e, Feat: 3}}
	n := int64(r.Range(2, 3))
	var peers []Peer
	for k := int64(1); k <= n; k++ {
		p := Peer{Ski: k, Dev: k, Ents: [][]int64{{0}, {1}, {2}}, Feats: []RFeat{{Ent: []int64{0}, Id: 0, Type: 5, Role: 2},
			{Ent: []int64{1}, Id: 1, Type: 1, Role: 0}, {Ent: []int64{1}, Id: 2, Type: 2, Role: 0},
			{Ent: []int64{2}, Id: 1, Type: 1, Role: 0}}}
		peers = append(peers, p)
		h = append(h, OpConnect(k), OpDiscoveryReply(k, p.Msg(0, nil)))
	}
	ctr := map[int64]int64{}
	next := func(p int64) int64 { ctr[p]++; return 100*p + ctr[p] }
	// client feature j (0: [1]:1 type 1, 1: [1]:2 type 2, 2: [2]:1 type 1) of p with its server feature
	type pair struct {
		cli FAddr
		s   int
	}
	mk := func(p Peer, j int) pair {
		switch j {
		case 0:
			return pair{FAddr{Dev: p.Dev + 1, Ent: []int64{1}, Feat: 2}, 0}
		case 1:
			return pair{FAddr{Dev: p.Dev + 1, Ent: []int64{1}, Feat: 3}, 1}
		}
		return pair{FAddr{Dev: p.Dev + 1, Ent: []int64{2}, Feat: 2}, 0}
	}
	sub := func(p Peer, j int) {
		x := mk(p, j)
		h = append(h, OpSubCall(p.Ski, next(p.Ski), r.Bool(), x.cli, srv[x.s], int64(x.s)+2))
	}
	bind := func(p Peer, j int) {
		x := mk(p, j)
		h = append(h, OpBindCall(p.Ski, next(p.Ski), r.Bool(), x.cli, srv[x.s], int64(x.s)+2))
	}
	lists := func() {
		for _, p := range peers {
			h = append(h, OpListSubs(p.Ski), OpListBinds(p.Ski))
		}
	}
	change := func() {
		h = append(h, OpSetData(e, 1, 1, int64(r.Range(1, 900))), OpSetData(e, 2, 3, int64(r.Range(1, 900))))
	}
	a, b := peers[0], peers[1]
	// a: entries from entity [1] (and sometimes [2]); b: a subscription of its own
	for j := 0; j < 3; j++ {
		if j < 2 && r.Chance(4, 5) || j == 2 && r.Bool() {
			sub(a, j)
		}
	}
	ja := r.Intn(2) // the server feature a binds (from entity [1])
	if r.Chance(5, 6) {
		bind(a, ja)
	}
	if r.Bool() {
		sub(b, r.Intn(3))
	}
	// entity [1] of a announced again
	m := DiscMsg{Dev: a.Dev + 1, Ents: []DiscEnt{{Addr: []int64{1}, State: 1}}}
	switch r.Pick(5, 3, 1) {
	case 0: // no feature information at all
	case 1: // a subset
		for _, f := range a.Feats {
			if eqE(f.Ent, []int64{1}) && r.Bool() {
				m.Feats = append(m.Feats, DiscFeat{Ent: f.Ent, Id: f.Id, Type: f.Type, Role: f.Role})
			}
		}
	default:
		m = a.Msg(1, [][]int64{{1}})
	}
	h = append(h, OpDiscoveryNotify(a.Ski, next(a.Ski), r.Bool(), m))
	if r.Bool() {
		lists()
		change() // the entries are still there: a is still notified
	}
	if r.Chance(1, 4) {
		sub(a, r.Intn(2)) // from a feature that may be gone now
	}
	// teardown
	call := OpSubCall(b.Ski, next(b.Ski), r.Bool(), mk(b, 1).cli, srv[1], 3)
	switch r.Pick(5, 2, 2) {
	case 0:
		h = append(h, OpDisconnect(a.Ski))
	case 1:
		h = append(h, OpDuring(OpDisconnect(a.Ski), call))
	default:
		h = append(h, OpDiscoveryNotify(a.Ski, next(a.Ski), r.Bool(), a.Msg(2, [][]int64{{1}})))
	}
	lists()
	change()
	// the server feature a had bound is free again: b gets it and writes through it
	bind(b, ja)
	if ja == 0 {
		h = append(h, OpWrite(b.Ski, next(b.Ski), r.Bool(), mk(b, 0).cli, srv[0], 1, int64(r.Range(1, 900))))
	} else {
		h = append(h, OpWrite(b.Ski, next(b.Ski), r.Bool(), mk(b, 1).cli, srv[1], 3, int64(r.Range(1, 900))))
	}
	h = append(h, OpListBinds(b.Ski), OpReadData(e, int64(ja)+1, []int64{1, 3}[ja]))
	return h
}

// RoundOverlap is a history for "the teardown of one subscriber does not stop the others being
// served": three or four peers subscribe to the same local server feature (registry order = order of
// the requests), then a data change whose notification round is held in the write to the first
// subscriber while one of the LATER subscribers is disconnected (operation 22 with SetData and
// Disconnect); every subscriber that is still connected must get exactly one notification of that
// round.  Listings and another data change follow.
func RoundOverlap(r *hx.Rng) []hx.Zs {
	var h []hx.Zs
	e := []int64{1}
	h = append(h, OpAddLocalEntity(e),
		OpAddLocalFeature(e, 1, 1), OpAddFunction(e, 1, 1, true, true),
		OpAddLocalFeature(e, 2, 1), OpAddFunction(e, 2, 3, true, true))
	srv := []FAddr{{Dev: 1, Ent: e, Feat: 2}, {Dev: 1, Ent: e, Feat: 3}}
	n := int64(r.Range(3, 4))
	var peers []Peer
	for k := int64(1); k <= n; k++ {
		p := Peer{Ski: k, Dev: k, Ents: [][]int64{{0}, {1}}, Feats: []RFeat{{Ent: []int64{0}, Id: 0, Type: 5, Role: 2},
			{Ent: []int64{1}, Id: 1, Type: 1, Role: 0}, {Ent: []int64{1}, Id: 2, Type: 2, Role: 0}}}
		peers = append(peers, p)
		h = append(h, OpConnect(k), OpDiscoveryReply(k, p.Msg(0, nil)))
	}
	ctr := map[int64]int64{}
	next := func(p int64) int64 { ctr[p]++; return 100*p + ctr[p] }
	j := r.Intn(2) // the server feature of the round; fn 1 on feature 1, fn 3 on feature 2
	// registry order: a random permutation of the peers
	ord := make([]int, len(peers))
	for i := range ord {
		ord[i] = i
	}
	for i := len(ord) - 1; i > 0; i-- {
		k := r.Intn(i + 1)
		ord[i], ord[k] = ord[k], ord[i]
	}
	connected := map[int64]bool{}
	for _, i := range ord {
		p := peers[i]
		if r.Chance(9, 10) {
			h = append(h, OpSubCall(p.Ski, next(p.Ski), r.Bool(), FAddr{Dev: p.Dev + 1, Ent: e, Feat: int64(j) + 2}, srv[j], int64(j)+2))
		}
		if r.Chance(1, 3) { // the other feature too
			h = append(h, OpSubCall(p.Ski, next(p.Ski), r.Bool(), FAddr{Dev: p.Dev + 1, Ent: e, Feat: int64(1-j) + 2}, srv[1-j], int64(1-j)+2))
		}
		connected[p.Ski] = true
	}
	change := func(jj int) hx.Zs {
		return OpSetData(e, int64(jj)+1, []int64{1, 3}[jj], int64(r.Range(1, 900)))
	}
	for round := 0; round < r.Range(1, 2); round++ {
		// the peer removed during the round: mostly not the first of the list
		k := 1 + r.Intn(len(ord)-1)
		if r.Chance(1, 8) {
			k = 0
		}
		p := peers[ord[k]]
		if !connected[p.Ski] {
			continue
		}
		jj := j
		if r.Chance(1, 6) {
			jj = 1 - j
		}
		h = append(h, OpDuring(change(jj), OpDisconnect(p.Ski)))
		connected[p.Ski] = false
		for _, q := range peers {
			h = append(h, OpListSubs(q.Ski))
		}
		h = append(h, change(j))
	}
	return h
}
