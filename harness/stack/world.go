// Package stack executes the operations of coq/Model/Stack.v on the real
// spine-go stack and reports the observations in the model's wire encoding
// (coq/Model/StackWire.v).
//
// Identifier bijection: SKI "s<k>" <-> k, device address "d<k>" <-> k (local
// device = d0), feature types 1 LoadControl, 2 Measurement, 3 DeviceConfiguration,
// 4 Generic, 5 NodeManagement, 6 DeviceClassification; functions 1
// loadControlLimitListData, 2 loadControlLimitDescriptionListData, 3
// measurementListData, 4 deviceConfigurationKeyValueListData; a data value v is
// a one-element list carrying v.
//
// Projection (what is NOT observed): outbound read/call datagrams except those
// caused by LocalSubscribe/LocalBind; message counters of outbound datagrams;
// error texts (only error/no error); the payload of device-change events.
package stack

import (
	"encoding/json"
	"fmt"
	"sync"
	"sync/atomic"
	"time"

	"github.com/enbility/spine-go/api"
	"github.com/enbility/spine-go/model"
	"github.com/enbility/spine-go/spine"
	"github.com/enbility/spine-go/util"

	"verifharness/hx"
)

type peerRec struct {
	gone   bool // connection removed: the transport delivers nothing any more
	ski    int64
	dev    api.DeviceRemoteInterface
	reader interface {
		HandleSpineMesssage([]byte) (*model.MsgCounterType, error)
	}
}

type logItem struct {
	ski int64  // >= 0: datagram written to that peer
	msg []byte //
	ev  hx.Zs  // event observation (already encoded) when ski < 0
}

// overlap is a registry call of another peer waiting to be delivered while a teardown runs
// (operation 22, coq/Model/StackX.v During).  It is delivered on its own goroutine from inside
// the removal cascade: on the first subscription-removed (binding-removed for a binding call)
// event of the teardown, i.e. while the registry concerned is inside Remove...ForEntity.
type overlap struct {
	sub     bool // the call concerns the subscription registry
	deliver func()
	atYield string // "" : delivered at the first removal event; otherwise at that yield point of the stack
	started bool
	entered chan struct{}
	done    chan struct{}
}

var (
	ovMu    sync.Mutex
	ovStats = map[string]int{}
)

// OverlapStats reports how the overlapped calls of this process were delivered.
func OverlapStats() map[string]int {
	ovMu.Lock()
	defer ovMu.Unlock()
	m := map[string]int{}
	for k, v := range ovStats {
		m[k] = v
	}
	return m
}

func ovCount(k string) {
	ovMu.Lock()
	ovStats[k]++
	ovMu.Unlock()
}

// parkedWrite: see execRound
type parkedWrite struct {
	except  int64 // writes to this peer are not held
	taken   atomic.Bool
	parked  chan struct{}
	release chan struct{}
}

type World struct {
	park    atomic.Pointer[parkedWrite]
	ov      *overlap
	mu      sync.Mutex
	log     []logItem
	local   *spine.DeviceLocal
	ents    map[string]api.EntityLocalInterface
	peers   map[int64]*peerRec
	curOp   int64
	readCtr int64 // counter of the listing reads sent on behalf of peers
	closed  bool
}

type writer struct {
	w   *World
	ski int64
}

func (wr *writer) WriteShipMessageWithPayload(msg []byte) {
	if pk := wr.w.park.Load(); pk != nil && wr.ski != pk.except && pk.taken.CompareAndSwap(false, true) {
		// the first write of a notification round to a peer other than the one about to be removed is
		// held here - inside the connection's writer, no lock of the harness or the stack held by us -
		// until the runner has removed that peer (bounded)
		close(pk.parked)
		select {
		case <-pk.release:
		case <-time.After(5 * time.Second):
		}
	}
	wr.w.mu.Lock()
	defer wr.w.mu.Unlock()
	wr.w.log = append(wr.w.log, logItem{ski: wr.ski, msg: append([]byte(nil), msg...)})
}

func New() *World {
	w := &World{ents: map[string]api.EntityLocalInterface{}, peers: map[int64]*peerRec{}}
	w.local = spine.NewDeviceLocal("brand", "model", "serial", "code", "d0", model.DeviceTypeTypeEnergyManagementSystem, model.NetworkManagementFeatureSetTypeSmart)
	w.ents[ekey([]int64{0})] = w.local.Entity([]model.AddressEntityType{0})
	_ = spine.VerifStackSubscribeCore(w)
	return w
}

func (w *World) Local() *spine.DeviceLocal { return w.local }

func (w *World) Close() {
	w.closed = true
	_ = spine.VerifStackUnsubscribeCore(w)
	for _, p := range w.peers {
		w.local.RemoveRemoteDevice(fmt.Sprintf("s%d", p.ski))
	}
}

func ekey(e []int64) string { return fmt.Sprint(e) }

func Ski(k int64) string { return fmt.Sprintf("s%d", k) }

func skiNum(s string) int64 {
	var k int64 = -1
	fmt.Sscanf(s, "s%d", &k)
	return k
}

func devNum(d *model.AddressDeviceType) int64 { // wire: 0 none, k+1
	if d == nil {
		return 0
	}
	var k int64 = 998
	fmt.Sscanf(string(*d), "d%d", &k)
	return k + 1
}

func devPtr(code int64) *model.AddressDeviceType {
	if code == 0 {
		return nil
	}
	return util.Ptr(model.AddressDeviceType(fmt.Sprintf("d%d", code-1)))
}

// ---- address encoding

type FAddr struct {
	Dev  int64 // 0 none, k+1
	Ent  []int64
	Feat int64 // 0 none, f+1
}

func (a FAddr) enc() hx.Zs {
	z := hx.Zs{a.Dev, int64(len(a.Ent))}
	z = append(z, a.Ent...)
	return append(z, a.Feat)
}

func (a FAddr) model() *model.FeatureAddressType {
	r := &model.FeatureAddressType{Device: devPtr(a.Dev)}
	for _, e := range a.Ent {
		r.Entity = append(r.Entity, model.AddressEntityType(e))
	}
	if a.Feat != 0 {
		r.Feature = util.Ptr(model.AddressFeatureType(a.Feat - 1))
	}
	return r
}

func fromFeatureAddr(a *model.FeatureAddressType) FAddr {
	var r FAddr
	if a == nil {
		return r
	}
	r.Dev = devNum(a.Device)
	for _, e := range a.Entity {
		r.Ent = append(r.Ent, int64(e))
	}
	if a.Feature != nil {
		r.Feat = int64(*a.Feature) + 1
	}
	return r
}

func entAddr(e []int64) []model.AddressEntityType {
	var r []model.AddressEntityType
	for _, x := range e {
		r = append(r, model.AddressEntityType(x))
	}
	return r
}

// ---- reader over an encoded operation

type rd struct {
	z hx.Zs
	i int
}

func (r *rd) n() int64 {
	if r.i >= len(r.z) {
		return 0
	}
	v := r.z[r.i]
	r.i++
	return v
}
func (r *rd) b() bool { return r.n() != 0 }
func (r *rd) eaddr() []int64 {
	k := r.n()
	var e []int64
	for j := int64(0); j < k; j++ {
		e = append(e, r.n())
	}
	return e
}
func (r *rd) faddr() FAddr {
	var a FAddr
	a.Dev = r.n()
	a.Ent = r.eaddr()
	a.Feat = r.n()
	return a
}

// ---- type / function tables

func FeatureType(t int64) model.FeatureTypeType {
	switch t {
	case 1:
		return model.FeatureTypeTypeLoadControl
	case 2:
		return model.FeatureTypeTypeMeasurement
	case 3:
		return model.FeatureTypeTypeDeviceConfiguration
	case 4:
		return model.FeatureTypeTypeGeneric
	case 5:
		return model.FeatureTypeTypeNodeManagement
	case 6:
		return model.FeatureTypeTypeDeviceClassification
	}
	return model.FeatureTypeTypeAlarm
}

func Role(r int64) model.RoleType {
	switch r {
	case 0:
		return model.RoleTypeClient
	case 1:
		return model.RoleTypeServer
	}
	return model.RoleTypeSpecial
}

func Function(fn int64) model.FunctionType {
	switch fn {
	case 1:
		return model.FunctionTypeLoadControlLimitListData
	case 2:
		return model.FunctionTypeLoadControlLimitDescriptionListData
	case 3:
		return model.FunctionTypeMeasurementListData
	case 4:
		return model.FunctionTypeDeviceConfigurationKeyValueListData
	}
	return model.FunctionTypeAlarmListData
}

func DataValue(fn, v int64) any {
	switch fn {
	case 1:
		return &model.LoadControlLimitListDataType{LoadControlLimitData: []model.LoadControlLimitDataType{{LimitId: util.Ptr(model.LoadControlLimitIdType(1)), Value: &model.ScaledNumberType{Number: util.Ptr(model.NumberType(v))}}}}
	case 2:
		return &model.LoadControlLimitDescriptionListDataType{LoadControlLimitDescriptionData: []model.LoadControlLimitDescriptionDataType{{LimitId: util.Ptr(model.LoadControlLimitIdType(v))}}}
	case 3:
		// both key fields are given, so that a partial write of this list merges into the item by identifier
		return &model.MeasurementListDataType{MeasurementData: []model.MeasurementDataType{{MeasurementId: util.Ptr(model.MeasurementIdType(1)), ValueType: util.Ptr(model.MeasurementValueTypeTypeValue), Value: &model.ScaledNumberType{Number: util.Ptr(model.NumberType(v))}}}}
	case 4:
		return &model.DeviceConfigurationKeyValueListDataType{DeviceConfigurationKeyValueData: []model.DeviceConfigurationKeyValueDataType{{KeyId: util.Ptr(model.DeviceConfigurationKeyIdType(v))}}}
	}
	return &model.AlarmListDataType{}
}

func CmdFor(fn, v int64) model.CmdType {
	switch fn {
	case 1:
		return model.CmdType{LoadControlLimitListData: DataValue(fn, v).(*model.LoadControlLimitListDataType)}
	case 2:
		return model.CmdType{LoadControlLimitDescriptionListData: DataValue(fn, v).(*model.LoadControlLimitDescriptionListDataType)}
	case 3:
		return model.CmdType{MeasurementListData: DataValue(fn, v).(*model.MeasurementListDataType)}
	case 4:
		return model.CmdType{DeviceConfigurationKeyValueListData: DataValue(fn, v).(*model.DeviceConfigurationKeyValueListDataType)}
	}
	return model.CmdType{AlarmListData: &model.AlarmListDataType{}}
}

// cmdValue recovers (fn, v) from a command or stored data
func cmdValue(c model.CmdType) (int64, int64, bool) {
	switch {
	case c.LoadControlLimitListData != nil:
		return 1, valueOf(c.LoadControlLimitListData), true
	case c.LoadControlLimitDescriptionListData != nil:
		return 2, valueOf(c.LoadControlLimitDescriptionListData), true
	case c.MeasurementListData != nil:
		return 3, valueOf(c.MeasurementListData), true
	case c.DeviceConfigurationKeyValueListData != nil:
		return 4, valueOf(c.DeviceConfigurationKeyValueListData), true
	}
	return 0, 0, false
}

func valueOf(d any) int64 {
	switch x := d.(type) {
	case *model.LoadControlLimitListDataType:
		if x != nil && len(x.LoadControlLimitData) == 1 && x.LoadControlLimitData[0].Value != nil && x.LoadControlLimitData[0].Value.Number != nil {
			return int64(*x.LoadControlLimitData[0].Value.Number)
		}
	case *model.LoadControlLimitDescriptionListDataType:
		if x != nil && len(x.LoadControlLimitDescriptionData) == 1 && x.LoadControlLimitDescriptionData[0].LimitId != nil {
			return int64(*x.LoadControlLimitDescriptionData[0].LimitId)
		}
	case *model.MeasurementListDataType:
		if x != nil && len(x.MeasurementData) == 1 && x.MeasurementData[0].Value != nil && x.MeasurementData[0].Value.Number != nil {
			return int64(*x.MeasurementData[0].Value.Number)
		}
	case *model.DeviceConfigurationKeyValueListDataType:
		if x != nil && len(x.DeviceConfigurationKeyValueData) == 1 && x.DeviceConfigurationKeyValueData[0].KeyId != nil {
			return int64(*x.DeviceConfigurationKeyValueData[0].KeyId)
		}
	}
	return -1
}

// ---- events (core level: synchronous, in publication order)

func (w *World) HandleEvent(p api.EventPayload) {
	if w.closed {
		return
	}
	kind := int64(p.EventType)
	z := hx.Zs{5, kind, int64(p.ChangeType), skiNum(p.Ski)}
	opt := func(present bool, enc hx.Zs) {
		if present {
			z = append(z, 1)
			z = append(z, enc...)
		} else {
			z = append(z, 0)
		}
	}
	if p.EventType == api.EventTypeDeviceChange {
		z = append(z, 0, 0, 0)
	} else {
		var ent hx.Zs
		hasEnt := p.Entity != nil && !isNil(p.Entity)
		if hasEnt {
			a := p.Entity.Address()
			ent = hx.Zs{int64(len(a.Entity))}
			for _, e := range a.Entity {
				ent = append(ent, int64(e))
			}
		}
		opt(hasEnt, ent)
		hasF := p.Feature != nil && !isNil(p.Feature)
		var fa hx.Zs
		if hasF {
			fa = fromFeatureAddr(p.Feature.Address()).enc()
		}
		opt(hasF, fa)
		hasL := p.LocalFeature != nil && !isNil(p.LocalFeature)
		var la hx.Zs
		if hasL {
			la = fromFeatureAddr(p.LocalFeature.Address()).enc()
		}
		opt(hasL, la)
	}
	w.mu.Lock()
	w.log = append(w.log, logItem{ski: -1, ev: z})
	d := w.ov
	fire := d != nil && !d.started && d.atYield == "" && p.ChangeType == api.ElementChangeRemove &&
		((d.sub && p.EventType == api.EventTypeSubscriptionChange) || (!d.sub && p.EventType == api.EventTypeBindingChange))
	if fire {
		d.started = true
	}
	w.mu.Unlock()
	if fire {
		d.fire(2 * time.Millisecond)
	}
}

// fire delivers the other peer's call now, on its own goroutine - never synchronously - and gives
// it a moment: the caller is inside the registry (publishing a removal, or parked at a yield point
// between filter and store) and may hold its lock.  The waits are bounded: a call that does not
// get going in time is simply delivered later (the check may then miss an interleaving, it cannot
// report a false one).
func (d *overlap) fire(grace time.Duration) {
	go func() {
		close(d.entered)
		d.deliver()
		close(d.done)
	}()
	select {
	case <-d.entered:
		select {
		case <-d.done:
		case <-time.After(grace):
		}
	case <-time.After(100 * time.Millisecond):
	}
}

// ChainYield is the yield callback of the runner (cmd/c09 installs its scheduler); the overlap of a
// delete call installs its own for the duration of the delete, forwards every other point to this
// one and re-installs it afterwards.
var ChainYield func(point string)

func (w *World) overlapYield(d *overlap, point string) {
	if point != d.atYield {
		if f := ChainYield; f != nil {
			f(point)
		}
		return
	}
	w.mu.Lock()
	fire := w.ov == d && !d.started
	if fire {
		d.started = true
	}
	w.mu.Unlock()
	if fire {
		// on the unchanged code the call blocks on the registry mutex until the delete is released:
		// the whole grace period is spent; 3 ms let a call that is NOT held back finish
		d.fire(3 * time.Millisecond)
	}
}

// ---- inbound datagrams

func (w *World) inject(p int64, d model.DatagramType) {
	pr := w.peers[p]
	if pr == nil {
		return
	}
	b, err := json.Marshal(model.Datagram{Datagram: d})
	if err != nil {
		panic(err)
	}
	w.InjectRaw(p, b)
}

// InjectRaw delivers bytes to peer p's reader; a panic of the stack becomes the
// observation [97] (outside every model's vocabulary except C05's).
func (w *World) InjectRaw(p int64, b []byte) {
	pr := w.peers[p]
	if pr == nil || pr.gone {
		return
	}
	defer func() {
		if e := recover(); e != nil {
			w.mu.Lock()
			w.log = append(w.log, logItem{ski: -1, ev: hx.Zs{97}})
			w.mu.Unlock()
		}
	}()
	// the entry point of the SHIP read loop (it processes the datagram before it returns: the next
	// datagram of the connection is handed over only afterwards)
	if sr, ok := pr.reader.(interface{ HandleShipPayloadMessage([]byte) }); ok {
		sr.HandleShipPayloadMessage(b)
		return
	}
	_, _ = pr.reader.HandleSpineMesssage(b)
}

func header(src, dst *model.FeatureAddressType, ctr int64, ref *int64, ack bool, cls model.CmdClassifierType) model.HeaderType {
	h := model.HeaderType{
		SpecificationVersion: &spine.SpecificationVersion,
		AddressSource:        src,
		AddressDestination:   dst,
		MsgCounter:           util.Ptr(model.MsgCounterType(ctr)),
		CmdClassifier:        &cls,
	}
	if ref != nil {
		h.MsgCounterReference = util.Ptr(model.MsgCounterType(*ref))
	}
	if ack {
		h.AckRequest = util.Ptr(true)
	}
	return h
}

func (w *World) peerDev(p int64) *model.AddressDeviceType {
	if pr := w.peers[p]; pr != nil {
		return pr.dev.Address()
	}
	return nil
}

func nmAddr(dev *model.AddressDeviceType) *model.FeatureAddressType {
	return &model.FeatureAddressType{Device: dev, Entity: []model.AddressEntityType{0}, Feature: util.Ptr(model.AddressFeatureType(0))}
}

type DiscEnt struct {
	Addr  []int64
	Dev   int64
	State int64
}
type DiscFeat struct {
	Ent            []int64
	Id, Type, Role int64
}
type DiscMsg struct {
	Dev   int64
	Ents  []DiscEnt
	Feats []DiscFeat
}

func (r *rd) msg() DiscMsg {
	var m DiscMsg
	m.Dev = r.n()
	ne := r.n()
	for i := int64(0); i < ne; i++ {
		var e DiscEnt
		e.Addr = r.eaddr()
		e.Dev = r.n()
		e.State = r.n()
		m.Ents = append(m.Ents, e)
	}
	nf := r.n()
	for i := int64(0); i < nf; i++ {
		var f DiscFeat
		f.Ent = r.eaddr()
		f.Id = r.n()
		f.Type = r.n()
		f.Role = r.n()
		m.Feats = append(m.Feats, f)
	}
	return m
}

func (m DiscMsg) Enc() hx.Zs {
	z := hx.Zs{m.Dev, int64(len(m.Ents))}
	for _, e := range m.Ents {
		z = append(z, int64(len(e.Addr)))
		z = append(z, e.Addr...)
		z = append(z, e.Dev, e.State)
	}
	z = append(z, int64(len(m.Feats)))
	for _, f := range m.Feats {
		z = append(z, int64(len(f.Ent)))
		z = append(z, f.Ent...)
		z = append(z, f.Id, f.Type, f.Role)
	}
	return z
}

func (m DiscMsg) data() *model.NodeManagementDetailedDiscoveryDataType {
	d := &model.NodeManagementDetailedDiscoveryDataType{
		DeviceInformation: &model.NodeManagementDetailedDiscoveryDeviceInformationType{
			Description: &model.NetworkManagementDeviceDescriptionDataType{},
		},
	}
	if m.Dev != 0 {
		d.DeviceInformation.Description.DeviceAddress = &model.DeviceAddressType{Device: devPtr(m.Dev)}
	}
	for _, e := range m.Ents {
		ei := model.NodeManagementDetailedDiscoveryEntityInformationType{
			Description: &model.NetworkManagementEntityDescriptionDataType{
				EntityAddress: &model.EntityAddressType{Device: devPtr(e.Dev), Entity: entAddr(e.Addr)},
				EntityType:    util.Ptr(model.EntityTypeTypeCEM),
			},
		}
		if len(e.Addr) == 1 && e.Addr[0] == 0 {
			ei.Description.EntityType = util.Ptr(model.EntityTypeTypeDeviceInformation)
		}
		switch e.State {
		case 1:
			ei.Description.LastStateChange = util.Ptr(model.NetworkManagementStateChangeTypeAdded)
		case 2:
			ei.Description.LastStateChange = util.Ptr(model.NetworkManagementStateChangeTypeRemoved)
		}
		d.EntityInformation = append(d.EntityInformation, ei)
	}
	for _, f := range m.Feats {
		ft := FeatureType(f.Type)
		ro := Role(f.Role)
		fi := model.NodeManagementDetailedDiscoveryFeatureInformationType{
			Description: &model.NetworkManagementFeatureDescriptionDataType{
				FeatureAddress: &model.FeatureAddressType{Device: devPtr(m.Dev), Entity: entAddr(f.Ent), Feature: util.Ptr(model.AddressFeatureType(f.Id))},
				FeatureType:    &ft,
				Role:           &ro,
			},
		}
		d.FeatureInformation = append(d.FeatureInformation, fi)
	}
	return d
}

// ---- outbound projection

func (w *World) drain(op int64) []hx.Zs {
	w.mu.Lock()
	items := w.log
	w.log = nil
	w.mu.Unlock()
	var out []hx.Zs
	for _, it := range items {
		if it.ski < 0 {
			out = append(out, it.ev)
			continue
		}
		var d model.Datagram
		if err := json.Unmarshal(it.msg, &d); err != nil {
			out = append(out, hx.Zs{4, it.ski, 99})
			continue
		}
		h := d.Datagram.Header
		if h.CmdClassifier == nil || len(d.Datagram.Payload.Cmd) != 1 {
			out = append(out, hx.Zs{4, it.ski, 98})
			continue
		}
		c := d.Datagram.Payload.Cmd[0]
		src, dst := fromFeatureAddr(h.AddressSource), fromFeatureAddr(h.AddressDestination)
		switch *h.CmdClassifier {
		case model.CmdClassifierTypeResult:
			var ref int64 = -1
			if h.MsgCounterReference != nil {
				ref = int64(*h.MsgCounterReference)
			}
			var e int64
			if c.ResultData == nil || c.ResultData.ErrorNumber == nil {
				e = 2
			} else if *c.ResultData.ErrorNumber != 0 {
				e = 1
			}
			z := hx.Zs{1, it.ski, ref, e}
			z = append(z, src.enc()...)
			out = append(out, append(z, dst.enc()...))
		case model.CmdClassifierTypeNotify:
			if fn, v, ok := cmdValue(c); ok {
				z := hx.Zs{2, it.ski, fn, v}
				z = append(z, src.enc()...)
				out = append(out, append(z, dst.enc()...))
			} else {
				out = append(out, hx.Zs{4, it.ski, 2})
			}
		case model.CmdClassifierTypeReply:
			out = append(out, hx.Zs{4, it.ski, 3})
		case model.CmdClassifierTypeRead, model.CmdClassifierTypeCall:
			if op == 16 || op == 17 || op == 23 || op == 24 {
				var kind int64
				switch {
				case c.NodeManagementSubscriptionRequestCall != nil:
					kind = 1
				case c.NodeManagementBindingRequestCall != nil:
					kind = 2
				case c.NodeManagementSubscriptionDeleteCall != nil:
					kind = 3
				case c.NodeManagementBindingDeleteCall != nil:
					kind = 4
				}
				z := hx.Zs{3, it.ski, kind}
				z = append(z, src.enc()...)
				out = append(out, append(z, dst.enc()...))
			}
		default:
			out = append(out, hx.Zs{4, it.ski, 4})
		}
	}
	return out
}
