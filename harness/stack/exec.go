package stack

import (
	"encoding/json"
	"reflect"
	"time"

	"github.com/enbility/spine-go/api"
	"github.com/enbility/spine-go/model"
	"github.com/enbility/spine-go/spine"
	"github.com/enbility/spine-go/util"

	"verifharness/hx"
)

func isNil(x any) bool {
	if x == nil {
		return true
	}
	v := reflect.ValueOf(x)
	switch v.Kind() {
	case reflect.Ptr, reflect.Interface, reflect.Map, reflect.Slice:
		return v.IsNil()
	}
	return false
}

func (w *World) localFeature(e []int64, f int64) api.FeatureLocalInterface {
	ent := w.ents[ekey(e)]
	if ent == nil {
		return nil
	}
	fl := ent.FeatureOfAddress(util.Ptr(model.AddressFeatureType(f)))
	if isNil(fl) {
		return nil
	}
	return fl
}

func regCall(r *rd) (FAddr, FAddr, int64) {
	c := r.faddr()
	s := r.faddr()
	return c, s, r.n()
}

func featureTypePtr(code int64) *model.FeatureTypeType {
	if code == 0 {
		return nil
	}
	t := FeatureType(code - 1)
	return &t
}

// ofCall: the observation is what peer q's registry call with counter ctr wrote or published
// (coq/Model/StackX.v of_call)
func ofCall(q, ctr int64, o hx.Zs) bool {
	switch {
	case len(o) >= 3 && o[0] == 1:
		return o[1] == q && o[2] == ctr
	case len(o) >= 4 && o[0] == 5 && (o[1] == 2 || o[1] == 3):
		return o[3] == q
	}
	return false
}

// Exec runs one encoded operation and returns the observations.
func (w *World) Exec(op hx.Zs) []hx.Zs {
	if len(op) >= 2 && op[0] == 22 {
		return w.execOverlap(op)
	}
	ret := w.execOp(op)
	code := int64(0)
	if len(op) > 0 {
		code = op[0]
	}
	out := w.drain(code)
	return append(out, ret...)
}

// execOverlap: operation 22 = [22, n, teardown operation (n integers), registry call of another peer].
// The call is delivered while the teardown runs (see overlap); the observations are returned in the
// canonical order "the teardown's, then the call's" (each part in its own order), which is the
// order of the sequential composition that models the overlap.
func (w *World) execOverlap(op hx.Zs) []hx.Zs {
	n := int(op[1])
	if n < 2 || 2+n+2 > len(op) {
		return nil
	}
	td, call := op[2:2+n], op[2+n:]
	if td[0] == 11 && call[0] == 13 {
		return w.execRound(td, call)
	}
	if len(call) < 3 {
		return nil
	}
	isDel := td[0] == 8 || td[0] == 10 // a delete call of p, parked inside the registry's critical section
	okTd := td[0] == 13 || td[0] == 6 || td[0] == 5 || isDel
	okCall := call[0] >= 7 && call[0] <= 10
	if !okTd || !okCall || td[1] == call[1] {
		return nil // not an overlap: nothing happens (as in the model)
	}
	q, ctr := call[1], call[2]
	d := &overlap{sub: call[0] == 7 || call[0] == 8, entered: make(chan struct{}), done: make(chan struct{}),
		deliver: func() { w.execOp(call) }}
	if isDel {
		// the delete reaches the yield point between its filter and its store (on the unchanged code:
		// holding the registry mutex): q's call is delivered there.  The removal event that follows
		// is not used as a trigger for deletes.
		d.atYield = "RemoveSubscription.filtered"
		if td[0] == 10 {
			d.atYield = "RemoveBinding.filtered"
		}
		spine.VerifSetYield(func(point string) { w.overlapYield(d, point) })
	}
	w.mu.Lock()
	w.ov = d
	w.mu.Unlock()
	ret := w.execOp(td)
	if isDel {
		spine.VerifSetYield(ChainYield)
	}
	w.mu.Lock()
	started := d.started
	d.started = true // no removal event of that registry: the call is delivered now
	w.ov = nil
	w.mu.Unlock()
	if started && isDel {
		ovCount("call-delivered-inside-delete-critical-section")
	} else if !started && isDel {
		ovCount("call-delivered-after-refused-delete")
	}
	if started {
		if !isDel {
			ovCount("call-delivered-inside-removal-cascade")
		}
		select {
		case <-d.done:
		case <-time.After(10 * time.Second):
			ret = append(ret, hx.Zs{94})
		}
	} else {
		if !isDel {
			ovCount("call-delivered-after-teardown-without-removal-event")
		}
		d.deliver()
	}
	out := append(w.drain(22), ret...)
	var first, second []hx.Zs
	for _, o := range out {
		if ofCall(q, ctr, o) {
			second = append(second, o)
		} else {
			first = append(first, o)
		}
	}
	return append(first, second...)
}

// execOp runs one encoded operation; what was written and published is left in the log.
func (w *World) execOp(op hx.Zs) []hx.Zs {
	r := &rd{z: op}
	code := r.n()
	var ret []hx.Zs
	retB := func(b bool) {
		if b {
			ret = append(ret, hx.Zs{7, 1})
		} else {
			ret = append(ret, hx.Zs{7, 0})
		}
	}
	switch code {
	case 1: // AddLocalEntity
		e := r.eaddr()
		if w.ents[ekey(e)] == nil {
			ent := spine.NewEntityLocal(w.local, model.EntityTypeTypeCEM, entAddr(e), 0)
			w.ents[ekey(e)] = ent
			w.local.AddEntity(ent)
		}
	case 2: // AddLocalFeature
		t, ro := r.n(), r.n()
		e := r.eaddr()
		ent := w.ents[ekey(e)]
		if ent == nil {
			ret = append(ret, hx.Zs{9})
			break
		}
		f := spine.NewFeatureLocal(ent.NextFeatureId(), ent, FeatureType(t), Role(ro))
		ent.AddFeature(f)
		ret = append(ret, hx.Zs{6, int64(*f.Address().Feature)})
	case 3: // AddFunction
		f, fn, rdb, wr := r.n(), r.n(), r.b(), r.b()
		e := r.eaddr()
		if fl := w.localFeature(e, f); fl != nil {
			fl.AddFunctionType(Function(fn), rdb, wr)
		}
	case 4: // Connect
		p := r.n()
		if pr := w.peers[p]; pr != nil && !pr.gone {
			// the transport reconnects: the old connection is removed first
			w.local.RemoveRemoteDeviceConnection(Ski(p))
			pr.gone = true
		}
		wr := &writer{w: w, ski: p}
		rdr := w.local.SetupRemoteDevice(Ski(p), wr)
		dev := w.local.RemoteDeviceForSki(Ski(p))
		w.peers[p] = &peerRec{ski: p, dev: dev, reader: rdr.(interface {
			HandleSpineMesssage([]byte) (*model.MsgCounterType, error)
		})}
	case 5: // DiscoveryReply
		p := r.n()
		m := r.msg()
		one := int64(1)
		h := header(nmAddr(devPtr(m.Dev)), nmAddr(devPtr(1)), 1, &one, false, model.CmdClassifierTypeReply)
		w.inject(p, model.DatagramType{Header: h, Payload: model.PayloadType{Cmd: []model.CmdType{{NodeManagementDetailedDiscoveryData: m.data()}}}})
	case 6: // DiscoveryNotify (partial)
		p, ctr, ack := r.n(), r.n(), r.b()
		m := r.msg()
		h := header(nmAddr(w.peerDev(p)), nmAddr(devPtr(1)), ctr, nil, ack, model.CmdClassifierTypeNotify)
		cmd := model.CmdType{
			Function:                            util.Ptr(model.FunctionTypeNodeManagementDetailedDiscoveryData),
			Filter:                              []model.FilterType{{CmdControl: &model.CmdControlType{Partial: &model.ElementTagType{}}}},
			NodeManagementDetailedDiscoveryData: m.data(),
		}
		w.inject(p, model.DatagramType{Header: h, Payload: model.PayloadType{Cmd: []model.CmdType{cmd}}})
	case 7, 8, 9, 10: // registry calls
		p, ctr, ack := r.n(), r.n(), r.b()
		cli, srv, t := regCall(r)
		h := header(nmAddr(w.peerDev(p)), nmAddr(devPtr(1)), ctr, nil, ack, model.CmdClassifierTypeCall)
		var cmd model.CmdType
		switch code {
		case 7:
			cmd.NodeManagementSubscriptionRequestCall = &model.NodeManagementSubscriptionRequestCallType{SubscriptionRequest: &model.SubscriptionManagementRequestCallType{ClientAddress: cli.model(), ServerAddress: srv.model(), ServerFeatureType: featureTypePtr(t)}}
		case 8:
			cmd.NodeManagementSubscriptionDeleteCall = &model.NodeManagementSubscriptionDeleteCallType{SubscriptionDelete: &model.SubscriptionManagementDeleteCallType{ClientAddress: cli.model(), ServerAddress: srv.model()}}
		case 9:
			cmd.NodeManagementBindingRequestCall = &model.NodeManagementBindingRequestCallType{BindingRequest: &model.BindingManagementRequestCallType{ClientAddress: cli.model(), ServerAddress: srv.model(), ServerFeatureType: featureTypePtr(t)}}
		case 10:
			cmd.NodeManagementBindingDeleteCall = &model.NodeManagementBindingDeleteCallType{BindingDelete: &model.BindingManagementDeleteCallType{ClientAddress: cli.model(), ServerAddress: srv.model()}}
		}
		w.inject(p, model.DatagramType{Header: h, Payload: model.PayloadType{Cmd: []model.CmdType{cmd}}})
	case 11: // SetData
		f, fn, v := r.n(), r.n(), r.n()
		e := r.eaddr()
		if fl := w.localFeature(e, f); fl != nil {
			// A local data change is SetData or, for the one-item lists whose item carries its complete
			// identifier (functions 1 and 3), one of the UpdateData forms that give the same data: no
			// filter, a bare partial filter (merge by identifier) or a delete filter naming neither
			// selector nor elements (ignored by the update rules, the data is merged).  The model has one
			// operation for all of them: the data changes and every subscriber is notified.
			// every form must report success (a local change reported as failed although it was stored, or
			// the other way round, is an observation the model never makes: seed C11-l)
			var uerr *model.ErrorType
			switch {
			case (fn == 1 || fn == 3) && v%4 == 1:
				uerr = fl.UpdateData(Function(fn), DataValue(fn, v), nil, nil)
			case (fn == 1 || fn == 3) && v%4 == 2:
				uerr = fl.UpdateData(Function(fn), DataValue(fn, v), &model.FilterType{CmdControl: &model.CmdControlType{Partial: &model.ElementTagType{}}}, nil)
			case (fn == 1 || fn == 3) && v%4 == 3:
				uerr = fl.UpdateData(Function(fn), DataValue(fn, v), nil, &model.FilterType{CmdControl: &model.CmdControlType{Delete: &model.ElementTagType{}}})
			default:
				fl.SetData(Function(fn), DataValue(fn, v))
			}
			if uerr != nil && fl.DataCopy(Function(fn)) != nil {
				ret = append(ret, hx.Zs{93})
			}
		} else {
			ret = append(ret, hx.Zs{9})
		}
	case 12: // Write
		p, ctr, ack, fn, v := r.n(), r.n(), r.b(), r.n(), r.n()
		src, dst := r.faddr(), r.faddr()
		h := header(src.model(), dst.model(), ctr, nil, ack, model.CmdClassifierTypeWrite)
		cmd := CmdFor(fn, v)
		// The optional `function` element of a cmd is not what the stack dispatches on (the function is
		// the one of the data element: cmd.Data()); the model ignores it.  Some writes carry it, naming
		// the data's own function or - every fourth counter - another function (the sibling function of
		// the same feature type where there is one), so that a gate trusting the element is exposed.
		switch ctr % 4 {
		case 1:
			cmd.Function = util.Ptr(Function(fn))
		case 2:
			cmd.Function = util.Ptr(Function(map[int64]int64{1: 2, 2: 1, 3: 1, 4: 1}[fn]))
		}
		// Every third measurement write is a PARTIAL write (cmdControl partial, no selector) of the same
		// one-item list: by the restricted-exchange rules it merges into item 1, which gives the same
		// data as the full write the model knows (the measurement item has no write-protection flag), so
		// the gate must treat it exactly like a full write.  Only when the addressed feature already
		// stores that item: a remote partial write naming an unknown item is refused (5d85d8b), a full
		// write is not.
		if fn == 3 && ctr%3 == 0 && dst.Feat > 0 {
			if fl := w.localFeature(dst.Ent, dst.Feat-1); fl != nil {
				if d, ok := fl.DataCopy(Function(3)).(*model.MeasurementListDataType); ok && d != nil && len(d.MeasurementData) == 1 &&
					d.MeasurementData[0].MeasurementId != nil && *d.MeasurementData[0].MeasurementId == 1 && d.MeasurementData[0].ValueType != nil {
					cmd.Filter = []model.FilterType{{CmdControl: &model.CmdControlType{Partial: &model.ElementTagType{}}}}
				}
			}
		}
		w.inject(p, model.DatagramType{Header: h, Payload: model.PayloadType{Cmd: []model.CmdType{cmd}}})
	case 13: // Disconnect
		p := r.n()
		w.local.RemoveRemoteDeviceConnection(Ski(p))
		if pr := w.peers[p]; pr != nil {
			pr.gone = true
		}
	case 14, 15: // listings
		p := r.n()
		pr := w.peers[p]
		if pr == nil {
			break
		}
		if code == 14 {
			for _, s := range w.local.SubscriptionManager().Subscriptions(pr.dev) {
				z := hx.Zs{8, int64(s.Id)}
				z = append(z, fromFeatureAddr(s.ServerFeature.Address()).enc()...)
				ret = append(ret, append(z, fromFeatureAddr(s.ClientFeature.Address()).enc()...))
			}
		} else {
			for _, s := range w.local.BindingManager().Bindings(pr.dev) {
				z := hx.Zs{8, int64(s.Id)}
				z = append(z, fromFeatureAddr(s.ServerFeature.Address()).enc()...)
				ret = append(ret, append(z, fromFeatureAddr(s.ClientFeature.Address()).enc()...))
			}
		}
		// The list reported TO the peer: it asks the node management for its subscription / binding
		// list over its connection (nodeManagementSubscriptionData / nodeManagementBindingData call,
		// NodeManagement.processRead{Subscription,Binding}Data) and the reply must be the same list,
		// ids included.  Equal lists are one listing; otherwise both are returned (the wire list first)
		// and cannot be the model's listing.  A connected peer that gets no reply: [4 p 6].
		if !pr.gone {
			wire, answered := w.wireListing(p, code == 14)
			if answered {
				ovCount("listing-read-over-the-wire-answered")
			}
			switch {
			case !answered:
				ovCount("listing-read-over-the-wire-unanswered")
				ret = append(ret, hx.Zs{4, p, 6})
			case !sameListing(wire, ret):
				ret = append(wire, ret...)
			}
		}
	case 16, 17, 18, 19, 23, 24: // client-side requests / bookkeeping
		f := r.n()
		e := r.eaddr()
		ra := r.faddr()
		fl := w.localFeature(e, f)
		if fl == nil {
			ret = append(ret, hx.Zs{9})
			break
		}
		switch code {
		case 16:
			_, err := fl.SubscribeToRemote(ra.model())
			retB(err == nil)
		case 17:
			_, err := fl.BindToRemote(ra.model())
			retB(err == nil)
		case 18:
			retB(fl.HasSubscriptionToRemote(ra.model()))
		case 19:
			retB(fl.HasBindingToRemote(ra.model()))
		case 23:
			_, err := fl.RemoveRemoteSubscription(ra.model())
			retB(err == nil)
		case 24:
			_, err := fl.RemoveRemoteBinding(ra.model())
			retB(err == nil)
		}
	case 20: // ReadData
		f, fn := r.n(), r.n()
		e := r.eaddr()
		fl := w.localFeature(e, f)
		if fl == nil {
			ret = append(ret, hx.Zs{9})
			break
		}
		d := fl.DataCopy(Function(fn))
		if isNil(d) {
			ret = append(ret, hx.Zs{9})
		} else {
			ret = append(ret, hx.Zs{6, valueOf(d)})
		}
	case 21: // Resolve
		p, dev := r.n(), r.n()
		retB(!isNil(w.local.RemoteDeviceForSki(Ski(p))))
		if dev == 0 {
			retB(false)
		} else {
			retB(!isNil(w.local.RemoteDeviceForAddress(*devPtr(dev))))
		}
	}
	return ret
}

func sameListing(a, b []hx.Zs) bool {
	if len(a) != len(b) {
		return false
	}
	for i := range a {
		if len(a[i]) != len(b[i]) {
			return false
		}
		for j := range a[i] {
			if a[i][j] != b[i][j] {
				return false
			}
		}
	}
	return true
}

// wireListing lets peer p read its subscription (sub) or binding list through the local node
// management and returns the entries of the reply in the encoding of the listing observation.
// Everything written to p in answer to the read is taken out of the log.
func (w *World) wireListing(p int64, sub bool) ([]hx.Zs, bool) {
	w.readCtr++
	ctr := 1000000 + w.readCtr
	h := header(nmAddr(w.peerDev(p)), nmAddr(devPtr(1)), ctr, nil, false, model.CmdClassifierTypeCall)
	var cmd model.CmdType
	if sub {
		cmd.NodeManagementSubscriptionData = &model.NodeManagementSubscriptionDataType{}
	} else {
		cmd.NodeManagementBindingData = &model.NodeManagementBindingDataType{}
	}
	w.inject(p, model.DatagramType{Header: h, Payload: model.PayloadType{Cmd: []model.CmdType{cmd}}})
	w.mu.Lock()
	items := w.log
	w.log = nil
	var mine []logItem
	for _, it := range items {
		if it.ski == p {
			var d model.Datagram
			if json.Unmarshal(it.msg, &d) == nil && d.Datagram.Header.MsgCounterReference != nil &&
				int64(*d.Datagram.Header.MsgCounterReference) == ctr {
				mine = append(mine, it)
				continue
			}
		}
		w.log = append(w.log, it)
	}
	w.mu.Unlock()
	var out []hx.Zs
	answered := false
	entry := func(id *uint, srv, cli *model.FeatureAddressType) {
		z := hx.Zs{8, -1}
		if id != nil {
			z[1] = int64(*id)
		}
		z = append(z, fromFeatureAddr(srv).enc()...)
		out = append(out, append(z, fromFeatureAddr(cli).enc()...))
	}
	for _, it := range mine {
		var d model.Datagram
		_ = json.Unmarshal(it.msg, &d)
		hd := d.Datagram.Header
		if hd.CmdClassifier == nil || *hd.CmdClassifier != model.CmdClassifierTypeReply || len(d.Datagram.Payload.Cmd) != 1 {
			continue
		}
		c := d.Datagram.Payload.Cmd[0]
		switch {
		case sub && c.NodeManagementSubscriptionData != nil:
			answered = true
			for _, e := range c.NodeManagementSubscriptionData.SubscriptionEntry {
				entry((*uint)(e.SubscriptionId), e.ServerAddress, e.ClientAddress)
			}
		case !sub && c.NodeManagementBindingData != nil:
			answered = true
			for _, e := range c.NodeManagementBindingData.BindingEntry {
				entry((*uint)(e.BindingId), e.ServerAddress, e.ClientAddress)
			}
		}
	}
	return out, answered
}

// execRound: operation 22 with a local data change and Disconnect p (coq/Model/StackX.v
// round_overlap).  The change runs on its own goroutine; the first write of its notification round to
// a peer other than p is held inside that peer's connection writer; meanwhile p is disconnected, the
// teardown runs to its end; then the write is released and the round finishes.  Model: the change,
// then the disconnect.  Canonical projection of the observations:
//   - the notifications of the round in the order of the subscription list taken before the round
//     (the order the model writes them in); notifications that match no entry follow;
//   - what the round wrote to p itself is not prescribed (p is being removed: the unchanged code still
//     writes to its connection object, a round that skips p would be just as good): it is replaced by
//     one notification per subscription entry of p, with the content of the round's other
//     notifications;
//   - then the observations of the disconnect (events of connection p).
//
// Without a held write (nobody else subscribed, nothing to notify) the two operations simply run one
// after the other and nothing is replaced.
func (w *World) execRound(change, disc hx.Zs) []hx.Zs {
	p := disc[1]
	r := &rd{z: change}
	_, f, _, _ := r.n(), r.n(), r.n(), r.n()
	e := r.eaddr()
	fl := w.localFeature(e, f)
	pr := w.peers[p]
	if fl == nil || pr == nil || pr.gone {
		ret := w.execOp(change)
		out := append(w.drain(11), ret...)
		ret = w.execOp(disc)
		return append(append(out, w.drain(13)...), ret...)
	}
	type ent struct {
		ski int64
		dst FAddr
	}
	var order []ent
	for _, s := range w.local.SubscriptionManager().SubscriptionsOnFeature(*fl.Address()) {
		order = append(order, ent{skiNum(s.ClientFeature.Device().Ski()), fromFeatureAddr(s.ClientFeature.Address())})
	}
	pk := &parkedWrite{except: p, parked: make(chan struct{}), release: make(chan struct{})}
	w.park.Store(pk)
	var ret1 []hx.Zs
	done := make(chan struct{})
	go func() {
		ret1 = w.execOp(change)
		close(done)
	}()
	held := false
	select {
	case <-pk.parked:
		held = true
	case <-done:
	}
	if !held {
		w.park.Store(nil)
		ovCount("round-without-held-write")
		out := append(w.drain(11), ret1...)
		ret := w.execOp(disc)
		return append(append(out, w.drain(13)...), ret...)
	}
	ret2 := w.execOp(disc) // the teardown of p, start to end, while the round is held
	w.park.Store(nil)
	close(pk.release)
	select {
	case <-done:
	case <-time.After(10 * time.Second):
		ret1 = append(ret1, hx.Zs{94})
	}
	ovCount("disconnect-delivered-inside-notification-round")
	all := w.drain(22)
	var notifs, others, second []hx.Zs
	for _, o := range all {
		switch {
		case len(o) >= 2 && o[0] == 2 && o[1] == p: // written to p by the round: not prescribed
		case len(o) >= 2 && o[0] == 2:
			notifs = append(notifs, o)
		case fromPeer(p, o):
			second = append(second, o)
		default:
			others = append(others, o)
		}
	}
	var first []hx.Zs
	if len(notifs) > 0 {
		tmpl := notifs[0] // [2 ski fn v src... dst...]
		srcEnd := 4 + len(fromFeatureAddr(fl.Address()).enc())
		used := make([]bool, len(notifs))
		for _, en := range order {
			if en.ski == p {
				z := append(hx.Zs{2, p}, tmpl[2:srcEnd]...)
				first = append(first, append(z, en.dst.enc()...))
				continue
			}
			for i, o := range notifs {
				if !used[i] && o[1] == en.ski && sameZs(o[srcEnd:], en.dst.enc()) {
					used[i] = true
					first = append(first, o)
					break
				}
			}
		}
		for i, o := range notifs {
			if !used[i] {
				first = append(first, o)
			}
		}
	}
	first = append(append(first, others...), ret1...)
	return append(append(first, second...), ret2...)
}

func sameZs(a, b hx.Zs) bool {
	if len(a) != len(b) {
		return false
	}
	for i := range a {
		if a[i] != b[i] {
			return false
		}
	}
	return true
}

// fromPeer: an event of connection p or a result written to p (coq/Model/StackX.v from_peer)
func fromPeer(p int64, o hx.Zs) bool {
	switch {
	case len(o) >= 2 && o[0] == 1:
		return o[1] == p
	case len(o) >= 4 && o[0] == 5:
		return o[3] == p
	}
	return false
}
