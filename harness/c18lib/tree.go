package c18lib

// Integer wire encoding of Go values and JSON trees (coq/Model/CmdWire.v):
//
//	value: 0 | 1 b | 2 z | 3 n bytes.. | 4 n items.. (list) | 5 n items.. (struct)
//	json:  0 | 1 b | 2 z | 3 n bytes.. | 4 n items.. (array) | 6 n (n' keybytes.. item).. (object)

import (
	"bytes"
	"encoding/json"
	"fmt"
	"io"
	"reflect"
	"strconv"
)

const (
	TNil    = 0
	TBool   = 1
	TInt    = 2
	TStr    = 3
	TList   = 4
	TStruct = 5
	TObj    = 6
)

// V is a value tree or a JSON tree.
type V struct {
	Tag  int
	B    bool
	Z    int64
	S    string
	L    []V
	Keys []string // TObj: member names, parallel to L
}

var Nil = V{Tag: TNil}

func (v V) IsNil() bool { return v.Tag == TNil }

func (v V) Ints(out []int64) []int64 {
	switch v.Tag {
	case TNil:
		return append(out, 0)
	case TBool:
		if v.B {
			return append(out, 1, 1)
		}
		return append(out, 1, 0)
	case TInt:
		return append(out, 2, v.Z)
	case TStr:
		out = append(out, 3, int64(len(v.S)))
		for i := 0; i < len(v.S); i++ {
			out = append(out, int64(v.S[i]))
		}
		return out
	case TList, TStruct:
		out = append(out, int64(v.Tag), int64(len(v.L)))
		for _, x := range v.L {
			out = x.Ints(out)
		}
		return out
	case TObj:
		out = append(out, 6, int64(len(v.L)))
		for i, x := range v.L {
			k := v.Keys[i]
			out = append(out, int64(len(k)))
			for j := 0; j < len(k); j++ {
				out = append(out, int64(k[j]))
			}
			out = x.Ints(out)
		}
		return out
	}
	panic("bad tree tag")
}

func takeStr(l []int64) (string, []int64, error) {
	if len(l) < 1 || l[0] < 0 || int(l[0]) > len(l)-1 {
		return "", nil, fmt.Errorf("bad string length")
	}
	n := int(l[0])
	b := make([]byte, n)
	for i := 0; i < n; i++ {
		if l[1+i] < 0 || l[1+i] > 255 {
			return "", nil, fmt.Errorf("bad byte")
		}
		b[i] = byte(l[1+i])
	}
	return string(b), l[1+n:], nil
}

// Parse reads one tree from the front of l.
func Parse(l []int64) (V, []int64, error) {
	if len(l) == 0 {
		return V{}, nil, fmt.Errorf("empty")
	}
	switch l[0] {
	case 0:
		return Nil, l[1:], nil
	case 1:
		if len(l) < 2 {
			break
		}
		return V{Tag: TBool, B: l[1] != 0}, l[2:], nil
	case 2:
		if len(l) < 2 {
			break
		}
		return V{Tag: TInt, Z: l[1]}, l[2:], nil
	case 3:
		s, r, err := takeStr(l[1:])
		return V{Tag: TStr, S: s}, r, err
	case 4, 5:
		if len(l) < 2 || l[1] < 0 || int(l[1]) > len(l) {
			break
		}
		v := V{Tag: int(l[0]), L: []V{}}
		r := l[2:]
		for i := 0; i < int(l[1]); i++ {
			x, r2, err := Parse(r)
			if err != nil {
				return V{}, nil, err
			}
			v.L = append(v.L, x)
			r = r2
		}
		return v, r, nil
	case 6:
		if len(l) < 2 || l[1] < 0 || int(l[1]) > len(l) {
			break
		}
		v := V{Tag: TObj, L: []V{}, Keys: []string{}}
		r := l[2:]
		for i := 0; i < int(l[1]); i++ {
			k, r1, err := takeStr(r)
			if err != nil {
				return V{}, nil, err
			}
			x, r2, err := Parse(r1)
			if err != nil {
				return V{}, nil, err
			}
			v.Keys = append(v.Keys, k)
			v.L = append(v.L, x)
			r = r2
		}
		return v, r, nil
	}
	return V{}, nil, fmt.Errorf("bad tree at %v", l[:min(len(l), 4)])
}

// ---------------------------------------------------------------- Go value <-> tree

// ToTree converts the Go value rv (of the static field type described by ty).
func (c *Closure) ToTree(rv reflect.Value) V {
	switch rv.Kind() {
	case reflect.Ptr:
		if rv.IsNil() {
			return Nil
		}
		return c.ToTree(rv.Elem())
	case reflect.Slice:
		if rv.IsNil() {
			return Nil
		}
		v := V{Tag: TList, L: []V{}}
		for i := 0; i < rv.Len(); i++ {
			v.L = append(v.L, c.ToTree(rv.Index(i)))
		}
		return v
	case reflect.Struct:
		v := V{Tag: TStruct, L: []V{}}
		for i := 0; i < rv.NumField(); i++ {
			v.L = append(v.L, c.ToTree(rv.Field(i)))
		}
		return v
	case reflect.Bool:
		return V{Tag: TBool, B: rv.Bool()}
	case reflect.String:
		return V{Tag: TStr, S: rv.String()}
	case reflect.Int, reflect.Int8, reflect.Int16, reflect.Int32, reflect.Int64:
		return V{Tag: TInt, Z: rv.Int()}
	case reflect.Uint, reflect.Uint8, reflect.Uint16, reflect.Uint32, reflect.Uint64:
		u := rv.Uint()
		if u > 1<<63-1 {
			panic("uint beyond the int64 wire range")
		}
		return V{Tag: TInt, Z: int64(u)}
	}
	panic("ToTree: unsupported kind " + rv.Kind().String())
}

// FromTree builds a Go value of type t from the tree (panics on an ill-typed tree).
func (c *Closure) FromTree(v V, t reflect.Type) reflect.Value {
	out := reflect.New(t).Elem()
	c.setFrom(out, v)
	return out
}

func (c *Closure) setFrom(dst reflect.Value, v V) {
	switch dst.Kind() {
	case reflect.Ptr:
		if v.IsNil() {
			return
		}
		p := reflect.New(dst.Type().Elem())
		c.setFrom(p.Elem(), v)
		dst.Set(p)
	case reflect.Slice:
		if v.IsNil() {
			return
		}
		if v.Tag != TList {
			panic("FromTree: list expected")
		}
		s := reflect.MakeSlice(dst.Type(), len(v.L), len(v.L))
		for i, x := range v.L {
			c.setFrom(s.Index(i), x)
		}
		dst.Set(s)
	case reflect.Struct:
		if v.Tag != TStruct || len(v.L) != dst.NumField() {
			panic(fmt.Sprintf("FromTree: struct %s with %d fields expected", dst.Type().Name(), dst.NumField()))
		}
		for i, x := range v.L {
			c.setFrom(dst.Field(i), x)
		}
	case reflect.Bool:
		if v.Tag != TBool {
			panic("FromTree: bool expected")
		}
		dst.SetBool(v.B)
	case reflect.String:
		if v.Tag != TStr {
			panic("FromTree: string expected")
		}
		dst.SetString(v.S)
	case reflect.Int, reflect.Int8, reflect.Int16, reflect.Int32, reflect.Int64:
		if v.Tag != TInt || dst.OverflowInt(v.Z) {
			panic("FromTree: int expected / overflow")
		}
		dst.SetInt(v.Z)
	case reflect.Uint, reflect.Uint8, reflect.Uint16, reflect.Uint32, reflect.Uint64:
		if v.Tag != TInt || v.Z < 0 || dst.OverflowUint(uint64(v.Z)) {
			panic("FromTree: uint expected / overflow")
		}
		dst.SetUint(uint64(v.Z))
	default:
		panic("FromTree: unsupported kind " + dst.Kind().String())
	}
}

// ---------------------------------------------------------------- JSON text <-> tree

// JSONTree parses JSON text into an ordered tree (object members in document
// order, duplicates kept). Non-integer numbers are outside the model: error.
func JSONTree(b []byte) (V, error) {
	d := json.NewDecoder(bytes.NewReader(b))
	d.UseNumber()
	v, err := jsonValue(d)
	if err != nil {
		return V{}, err
	}
	if _, err := d.Token(); err != io.EOF {
		return V{}, fmt.Errorf("trailing data")
	}
	return v, nil
}

func jsonValue(d *json.Decoder) (V, error) {
	tok, err := d.Token()
	if err != nil {
		return V{}, err
	}
	return jsonFromToken(d, tok)
}

func jsonFromToken(d *json.Decoder, tok json.Token) (V, error) {
	switch x := tok.(type) {
	case nil:
		return Nil, nil
	case bool:
		return V{Tag: TBool, B: x}, nil
	case string:
		return V{Tag: TStr, S: x}, nil
	case json.Number:
		z, err := strconv.ParseInt(string(x), 10, 64)
		if err != nil {
			return V{}, fmt.Errorf("number %s outside the model", x)
		}
		return V{Tag: TInt, Z: z}, nil
	case json.Delim:
		switch x {
		case '[':
			v := V{Tag: TList, L: []V{}}
			for d.More() {
				e, err := jsonValue(d)
				if err != nil {
					return V{}, err
				}
				v.L = append(v.L, e)
			}
			_, err := d.Token()
			return v, err
		case '{':
			v := V{Tag: TObj, L: []V{}, Keys: []string{}}
			for d.More() {
				kt, err := d.Token()
				if err != nil {
					return V{}, err
				}
				k, ok := kt.(string)
				if !ok {
					return V{}, fmt.Errorf("object key expected")
				}
				e, err := jsonValue(d)
				if err != nil {
					return V{}, err
				}
				v.Keys = append(v.Keys, k)
				v.L = append(v.L, e)
			}
			_, err := d.Token()
			return v, err
		}
	}
	return V{}, fmt.Errorf("unexpected token %v", tok)
}

// RenderJSON writes a JSON tree as text (member order and duplicates preserved).
func RenderJSON(v V, w *bytes.Buffer) {
	switch v.Tag {
	case TNil:
		w.WriteString("null")
	case TBool:
		if v.B {
			w.WriteString("true")
		} else {
			w.WriteString("false")
		}
	case TInt:
		w.WriteString(strconv.FormatInt(v.Z, 10))
	case TStr:
		b, _ := json.Marshal(v.S)
		w.Write(b)
	case TList:
		w.WriteByte('[')
		for i, x := range v.L {
			if i > 0 {
				w.WriteByte(',')
			}
			RenderJSON(x, w)
		}
		w.WriteByte(']')
	case TObj:
		w.WriteByte('{')
		for i, x := range v.L {
			if i > 0 {
				w.WriteByte(',')
			}
			b, _ := json.Marshal(v.Keys[i])
			w.Write(b)
			w.WriteByte(':')
			RenderJSON(x, w)
		}
		w.WriteByte('}')
	default:
		panic("RenderJSON: not a JSON tree")
	}
}

// ---------------------------------------------------------------- sample values (CmdWire.sample_k)

func (c *Closure) zeroTy(t Ty) V {
	if t.Shape != "val" {
		return Nil
	}
	return c.zeroKind(t.Kind)
}

func (c *Closure) zeroKind(k Kind) V {
	switch k.K {
	case "bool":
		return V{Tag: TBool}
	case "int":
		return V{Tag: TInt}
	case "str":
		return V{Tag: TStr}
	case "struct":
		v := V{Tag: TStruct, L: []V{}}
		for _, f := range c.Structs[k.Struct].Fields {
			v.L = append(v.L, c.zeroTy(f.Ty))
		}
		return v
	}
	return Nil
}

// Sample mirrors sample_k of coq/Model/CmdWire.v.
func (c *Closure) Sample(depth int, k Kind) V {
	switch k.K {
	case "bool":
		return V{Tag: TBool, B: true}
	case "int":
		hi, _ := strconv.ParseUint(k.Hi, 10, 64)
		z := int64(7)
		if hi < 7 {
			z = int64(hi)
		}
		return V{Tag: TInt, Z: z}
	case "str":
		return V{Tag: TStr, S: "s"}
	case "struct":
		v := V{Tag: TStruct, L: []V{}}
		for _, f := range c.Structs[k.Struct].Fields {
			switch {
			case depth == 0:
				v.L = append(v.L, c.zeroTy(f.Ty))
			case f.Ty.Shape == "slice":
				v.L = append(v.L, V{Tag: TList, L: []V{c.Sample(depth-1, f.Ty.Kind)}})
			default:
				v.L = append(v.L, c.Sample(depth-1, f.Ty.Kind))
			}
		}
		return v
	}
	return Nil
}

func (c *Closure) SampleStruct(depth int, s *Struct) V {
	if s == nil {
		return Nil
	}
	return c.Sample(depth, Kind{K: "struct", Struct: s.ID})
}
