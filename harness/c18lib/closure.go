// Package c18lib is shared by the translator tables of C18 (harness/cmd/gen/c18.go)
// and the C18 runner (harness/cmd/c18): the reflection closure of model.Datagram
// with stable struct ids, the function tables obtained by evaluating
// spine.CreateFunctionData, and the integer wire encoding of values / JSON trees.
package c18lib

import (
	"encoding/json"
	"fmt"
	"go/ast"
	"go/parser"
	"go/token"
	"os"
	"path/filepath"
	"reflect"
	"runtime/debug"
	"sort"
	"strconv"
	"strings"

	"github.com/enbility/spine-go/api"
	"github.com/enbility/spine-go/model"
	"github.com/enbility/spine-go/spine"
)

// Kind of a scalar / struct position in the type-descriptor universe of
// coq/Model/JsonTy.v.
type Kind struct {
	K      string // "bool" | "int" | "str" | "struct" | "bad"
	Lo, Hi string // decimal bounds for "int"
	Struct int    // struct id for "struct"
	Why    string // reason for "bad"
}

// Ty is one of the three shapes that occur: value, pointer, slice.
type Ty struct {
	Shape string // "val" | "ptr" | "slice"
	Kind  Kind
}

type Field struct {
	Go    string
	Index int
	JSON  string
	Omit  bool
	Ty    Ty
	Eebus string // raw eebus struct tag
	Type  reflect.Type
}

type Struct struct {
	ID     int
	Name   string
	Type   reflect.Type
	Rank   int
	Custom bool
	Fields []Field
}

type Closure struct {
	Structs []*Struct
	ByType  map[reflect.Type]*Struct
	Cyclic  bool
}

var marshalerT = reflect.TypeOf((*json.Marshaler)(nil)).Elem()
var unmarshalerT = reflect.TypeOf((*json.Unmarshaler)(nil)).Elem()

func hasCustomJSON(t reflect.Type) bool {
	return t.Implements(marshalerT) || reflect.PointerTo(t).Implements(marshalerT) ||
		t.Implements(unmarshalerT) || reflect.PointerTo(t).Implements(unmarshalerT)
}

func intBounds(k reflect.Kind) (string, string, bool) {
	switch k {
	case reflect.Int8:
		return "-128", "127", true
	case reflect.Int16:
		return "-32768", "32767", true
	case reflect.Int32:
		return "-2147483648", "2147483647", true
	case reflect.Int, reflect.Int64:
		return "-9223372036854775808", "9223372036854775807", true
	case reflect.Uint8:
		return "0", "255", true
	case reflect.Uint16:
		return "0", "65535", true
	case reflect.Uint32:
		return "0", "4294967295", true
	case reflect.Uint, reflect.Uint64:
		return "0", "18446744073709551615", true
	}
	return "", "", false
}

func (c *Closure) kindOf(t reflect.Type) Kind {
	switch t.Kind() {
	case reflect.Bool:
		if hasCustomJSON(t) {
			return Kind{K: "bad", Why: "custom JSON on scalar"}
		}
		return Kind{K: "bool"}
	case reflect.String:
		if hasCustomJSON(t) {
			return Kind{K: "bad", Why: "custom JSON on scalar"}
		}
		return Kind{K: "str"}
	case reflect.Struct:
		s := c.visit(t)
		return Kind{K: "struct", Struct: s.ID}
	}
	if lo, hi, ok := intBounds(t.Kind()); ok {
		if hasCustomJSON(t) {
			return Kind{K: "bad", Why: "custom JSON on scalar"}
		}
		return Kind{K: "int", Lo: lo, Hi: hi}
	}
	return Kind{K: "bad", Why: "unsupported kind " + t.Kind().String()}
}

func (c *Closure) tyOf(t reflect.Type) Ty {
	switch t.Kind() {
	case reflect.Ptr:
		e := t.Elem()
		if e.Kind() == reflect.Ptr || e.Kind() == reflect.Slice {
			return Ty{"ptr", Kind{K: "bad", Why: "nested pointer/slice"}}
		}
		return Ty{"ptr", c.kindOf(e)}
	case reflect.Slice:
		e := t.Elem()
		if e.Kind() == reflect.Ptr || e.Kind() == reflect.Slice {
			return Ty{"slice", Kind{K: "bad", Why: "nested pointer/slice"}}
		}
		if e.Kind() == reflect.Uint8 {
			return Ty{"slice", Kind{K: "bad", Why: "[]byte is base64 in JSON"}}
		}
		if hasCustomJSON(t) {
			return Ty{"slice", Kind{K: "bad", Why: "custom JSON on slice type"}}
		}
		return Ty{"slice", c.kindOf(e)}
	}
	return Ty{"val", c.kindOf(t)}
}

func (c *Closure) visit(t reflect.Type) *Struct {
	if s, ok := c.ByType[t]; ok {
		return s
	}
	s := &Struct{ID: len(c.Structs), Name: t.Name(), Type: t, Custom: hasCustomJSON(t), Rank: -1}
	c.Structs = append(c.Structs, s)
	c.ByType[t] = s
	for i := 0; i < t.NumField(); i++ {
		sf := t.Field(i)
		f := Field{Go: sf.Name, Index: i, Type: sf.Type, Eebus: sf.Tag.Get("eebus")}
		tag, hasTag := sf.Tag.Lookup("json")
		parts := strings.Split(tag, ",")
		f.JSON = parts[0]
		bad := ""
		for _, o := range parts[1:] {
			switch o {
			case "omitempty":
				f.Omit = true
			default:
				bad = "json tag option " + o
			}
		}
		if !hasTag || f.JSON == "" {
			f.JSON = sf.Name
		}
		if f.JSON == "-" && len(parts) == 1 {
			bad = "json:\"-\" field"
		}
		if sf.Anonymous {
			bad = "embedded field"
		}
		if !sf.IsExported() {
			bad = "unexported field"
		}
		f.Ty = c.tyOf(sf.Type)
		if bad != "" {
			f.Ty.Kind = Kind{K: "bad", Why: bad}
		}
		s.Fields = append(s.Fields, f)
	}
	return s
}

// rank: leaves 0, otherwise 1 + max rank of the struct-typed fields; a cycle
// leaves rank 0 on the back edge so that the Coq-side check fails.
func (c *Closure) rank(s *Struct, onPath map[int]bool) int {
	if s.Rank >= 0 {
		return s.Rank
	}
	if onPath[s.ID] {
		c.Cyclic = true
		return 0
	}
	onPath[s.ID] = true
	r := 0
	for _, f := range s.Fields {
		if f.Ty.Kind.K == "struct" {
			if x := c.rank(c.Structs[f.Ty.Kind.Struct], onPath) + 1; x > r {
				r = x
			}
		}
	}
	delete(onPath, s.ID)
	s.Rank = r
	return r
}

// NewClosure walks model.Datagram; ids are assigned in depth-first field order.
func NewClosure() *Closure {
	c := &Closure{ByType: map[reflect.Type]*Struct{}}
	c.visit(reflect.TypeOf(model.Datagram{}))
	for _, s := range c.Structs {
		c.rank(s, map[int]bool{})
	}
	return c
}

func (c *Closure) Of(v any) *Struct {
	t := reflect.TypeOf(v)
	for t.Kind() == reflect.Ptr {
		t = t.Elem()
	}
	return c.ByType[t]
}

func (c *Closure) Cmd() *Struct    { return c.ByType[reflect.TypeOf(model.CmdType{})] }
func (c *Closure) Filter() *Struct { return c.ByType[reflect.TypeOf(model.FilterType{})] }

func (s *Struct) FieldIndex(goName string) int {
	for i, f := range s.Fields {
		if f.Go == goName {
			return i
		}
	}
	return -1
}

func (c *Closure) NumFields() int {
	n := 0
	for _, s := range c.Structs {
		n += len(s.Fields)
	}
	return n
}

// ---------------------------------------------------------------- function tables

type Function struct {
	Index int
	Name  string
	Data  *Struct // registered payload type
	Sel   *Struct // selectors type by the XSD naming convention (nil: none)
	El    *Struct // elements type by the XSD naming convention (nil: none)
	// the elements type is that of the list item (true) or of the payload type itself (false)
	ElFromItem bool
	// the same looked up through the eebus tags (what the code will use); for the report only
	TagSel, TagEl *Struct
}

type Factory struct {
	FeatureTypes []string   // FeatureTypeType constants (AST order)
	Registered   [][2]int   // (feature type index, function index), factory order
	Functions    []Function // distinct (function name, payload type) pairs in first-seen order
	Unregistered []string   // feature types for which CreateFunctionData panics
	// filtersForSelectorsElements passes &deleteSelector / &deleteElements (a *any)
	DeleteArgByAddress bool
}

// FeatureTypeConsts reads the FeatureTypeType constants from model/*.go.
func FeatureTypeConsts(repo string) ([]string, error) {
	files, _ := filepath.Glob(filepath.Join(repo, "model", "*.go"))
	sort.Strings(files)
	var out []string
	seen := map[string]bool{}
	for _, fn := range files {
		if strings.HasSuffix(fn, "_test.go") {
			continue
		}
		fset := token.NewFileSet()
		f, err := parser.ParseFile(fset, fn, nil, 0)
		if err != nil {
			return nil, err
		}
		for _, d := range f.Decls {
			gd, ok := d.(*ast.GenDecl)
			if !ok || gd.Tok != token.CONST {
				continue
			}
			for _, sp := range gd.Specs {
				vs := sp.(*ast.ValueSpec)
				id, ok := vs.Type.(*ast.Ident)
				if !ok || id.Name != "FeatureTypeType" {
					continue
				}
				for _, v := range vs.Values {
					if lit, ok := v.(*ast.BasicLit); ok && lit.Kind == token.STRING {
						s, err := strconv.Unquote(lit.Value)
						if err == nil && !seen[s] {
							seen[s] = true
							out = append(out, s)
						}
					}
				}
			}
		}
	}
	if len(out) == 0 {
		return nil, fmt.Errorf("no FeatureTypeType constants found under %s/model", repo)
	}
	return out, nil
}

// DeleteArgByAddress inspects spine/function_data_cmd.go: does
// filtersForSelectorsElements hand `&deleteSelector` (a pointer to the interface
// variable) to addSelectorToFilter / addElementToFilter?
func DeleteArgByAddress(repo string) (bool, error) {
	fset := token.NewFileSet()
	f, err := parser.ParseFile(fset, filepath.Join(repo, "spine", "function_data_cmd.go"), nil, 0)
	if err != nil {
		return false, err
	}
	found, calls := false, 0
	for _, d := range f.Decls {
		fd, ok := d.(*ast.FuncDecl)
		if !ok || fd.Name.Name != "filtersForSelectorsElements" {
			continue
		}
		ast.Inspect(fd, func(n ast.Node) bool {
			call, ok := n.(*ast.CallExpr)
			if !ok || len(call.Args) != 3 {
				return true
			}
			id, ok := call.Fun.(*ast.Ident)
			if !ok || (id.Name != "addSelectorToFilter" && id.Name != "addElementToFilter") {
				return true
			}
			calls++
			if u, ok := call.Args[2].(*ast.UnaryExpr); ok && u.Op == token.AND {
				found = true
			}
			return true
		})
	}
	if calls != 4 {
		if Lenient {
			// the runner goes on with the repaired reading (the delete arguments are passed as they
			// are) and lets the sweep over the real builders decide; the translator stays strict
			return false, nil
		}
		return false, fmt.Errorf("filtersForSelectorsElements: expected 4 add*ToFilter calls, found %d", calls)
	}
	return found, nil
}

// Lenient is set by the runner (not by the translator): a source shape the AST readers do not
// recognise is then no reason to stop, so that the search for a concrete failing input still runs
// when the tie by regeneration is already reported as broken.
var Lenient bool

func title(s string) string {
	if s == "" {
		return s
	}
	return strings.ToUpper(s[:1]) + s[1:]
}

// conventionTypes: the selectors / elements type of a payload type by the naming
// convention of the SPINE XSDs, independent of the eebus tags (D = payload type name
// without "Type"):
//
//	selectors: D + "SelectorsType"
//	elements:  D + "ElementsType" if FilterType has a field of that type, otherwise, when
//	           the payload type is a list container (one field, a slice of structs), the
//	           list item's type name without "Type" + "ElementsType" (elFromItem = true)
func conventionTypes(c *Closure, data *Struct) (sel, el *Struct, elFromItem bool) {
	byName := map[string]*Struct{}
	for _, f := range c.Filter().Fields {
		if f.Ty.Shape == "ptr" && f.Ty.Kind.K == "struct" {
			s := c.Structs[f.Ty.Kind.Struct]
			byName[s.Name] = s
		}
	}
	base := strings.TrimSuffix(data.Name, "Type")
	sel = byName[base+"SelectorsType"]
	el = byName[base+"ElementsType"]
	if el == nil && len(data.Fields) == 1 && data.Fields[0].Ty.Shape == "slice" && data.Fields[0].Ty.Kind.K == "struct" {
		item := c.Structs[data.Fields[0].Ty.Kind.Struct]
		el = byName[strings.TrimSuffix(item.Name, "Type")+"ElementsType"]
		elFromItem = el != nil
	}
	return
}

func tagTypes(c *Closure, fct string) (sel, el *Struct) {
	for _, f := range c.Filter().Fields {
		tags := model.EEBusTags(reflect.StructField{Tag: reflect.StructTag(`eebus:"` + f.Eebus + `"`)})
		if tags[model.EEBusTagFunction] != fct || f.Ty.Kind.K != "struct" {
			continue
		}
		switch tags[model.EEBusTagType] {
		case string(model.EEBusTagTypeTypeSelector):
			if sel == nil {
				sel = c.Structs[f.Ty.Kind.Struct]
			}
		case string(model.EEbusTagTypeTypeElements):
			if el == nil {
				el = c.Structs[f.Ty.Kind.Struct]
			}
		}
	}
	return
}

// NewFactory evaluates CreateFunctionData for every feature type constant.
func NewFactory(c *Closure, repo string) (*Factory, error) {
	fts, err := FeatureTypeConsts(repo)
	if err != nil {
		return nil, err
	}
	fa := &Factory{FeatureTypes: fts}
	if fa.DeleteArgByAddress, err = DeleteArgByAddress(repo); err != nil {
		return nil, err
	}
	idx := map[string]int{}
	for i, ft := range fts {
		fds, ok := CreateFor(model.FeatureTypeType(ft))
		if !ok {
			fa.Unregistered = append(fa.Unregistered, ft)
			continue
		}
		for _, fd := range fds {
			name := string(fd.FunctionType())
			t := reflect.TypeOf(fd.DataCopyAny())
			for t.Kind() == reflect.Ptr {
				t = t.Elem()
			}
			data := c.ByType[t]
			if data == nil {
				return nil, fmt.Errorf("function %s: payload type %s is not reachable from model.Datagram", name, t)
			}
			// a function entry is the pair (function name, registered payload type)
			key := name + "/" + data.Name
			j, ok := idx[key]
			if !ok {
				j = len(fa.Functions)
				idx[key] = j
				fn := Function{Index: j, Name: name, Data: data}
				fn.Sel, fn.El, fn.ElFromItem = conventionTypes(c, data)
				fn.TagSel, fn.TagEl = tagTypes(c, name)
				fa.Functions = append(fa.Functions, fn)
			}
			fa.Registered = append(fa.Registered, [2]int{i, j})
		}
	}
	return fa, nil
}

// CreateFor calls the factory, turning its panic for unknown feature types into ok=false.
func CreateFor(ft model.FeatureTypeType) (fds []api.FunctionDataCmdInterface, ok bool) {
	defer func() {
		if r := recover(); r != nil {
			fds, ok = nil, false
		}
	}()
	return spine.CreateFunctionData[api.FunctionDataCmdInterface](ft), true
}

// RepoRoot is the directory of the spine-go tree this binary was built against
// (the `replace` target recorded in the build info), needed for the AST-derived parts.
func RepoRoot() string {
	if bi, ok := debug.ReadBuildInfo(); ok {
		for _, d := range bi.Deps {
			if d.Path == "github.com/enbility/spine-go" && d.Replace != nil && d.Replace.Path != "" {
				return d.Replace.Path
			}
		}
	}
	if r := os.Getenv("VERIF_REPO"); r != "" {
		return r
	}
	return "/repo"
}
