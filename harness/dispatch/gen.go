package dispatch

import "verifharness/hx"

// ---------------------------------------------------------------- op encoders

func eaddrEnc(e []int64) hx.Zs { return append(hx.Zs{int64(len(e))}, e...) }

func OpAddLocalEntity(e []int64) hx.Zs    { return append(hx.Zs{1}, eaddrEnc(e)...) }
func OpRemoveLocalEntity(e []int64) hx.Zs { return append(hx.Zs{14}, eaddrEnc(e)...) }

// ackOf: ackRequest true (1 in 2), otherwise present and false (1 in 3) or absent
func ackOf(r *hx.Rng) (bool, bool) {
	if r.Chance(1, 2) {
		return true, false
	}
	return false, r.Chance(1, 3)
}

func OpAddLocalFeature(e []int64, t, r int64) hx.Zs {
	return append(hx.Zs{2, t, r}, eaddrEnc(e)...)
}
func OpAddFunction(e []int64, f, fn int64, rd, wr bool) hx.Zs {
	return append(hx.Zs{3, f, fn, b2i(rd), b2i(wr)}, eaddrEnc(e)...)
}
func OpSetData(e []int64, f, fn, v int64) hx.Zs {
	return append(hx.Zs{4, f, fn, Tok(fn, v)}, eaddrEnc(e)...)
}
func OpGetData(e []int64, f, fn int64) hx.Zs { return append(hx.Zs{5, f, fn}, eaddrEnc(e)...) }
func OpConnect(p int64) hx.Zs                { return hx.Zs{6, p} }
func OpDisconnect(p int64) hx.Zs             { return hx.Zs{7, p} }
func OpAddRespCb(e []int64, f, ctr, cb int64) hx.Zs {
	return append(hx.Zs{9, f, ctr, cb}, eaddrEnc(e)...)
}

// OpParRegister: callback cb for counter ctr on feature (e, f) from k goroutines at once
func OpParRegister(e []int64, f, ctr, cb, k int64) hx.Zs {
	return append(hx.Zs{15, f, ctr, cb, k}, eaddrEnc(e)...)
}

func OpAddResultCb(e []int64, f, cb int64) hx.Zs { return append(hx.Zs{10, f, cb}, eaddrEnc(e)...) }
func OpQFactory(t int64) hx.Zs                   { return hx.Zs{11, t} }

// ---------------------------------------------------------------- plans

type LFeat struct {
	Ent            []int64
	Id, Type, Role int64
	Fns            []int64        // functions added with AddFunction
	Wr             map[int64]bool // writable
}

func (f LFeat) Addr(dev int64) FAddr { return FAddr{Dev: dev, Ent: f.Ent, Feat: f.Id + 1} }

type RFeat struct {
	Ent            []int64
	Id, Type, Role int64
}

type Peer struct {
	Ski   int64
	Feats []RFeat
	ctr   int64
}

func (p *Peer) Dev() int64 { return p.Ski + 1 } // wire code of device address d<ski>

func (p *Peer) Addr(f RFeat, withDev bool) FAddr {
	a := FAddr{Ent: f.Ent, Feat: f.Id + 1}
	if withDev {
		a.Dev = p.Dev()
	}
	return a
}

func (p *Peer) Next() int64 { p.ctr++; return p.ctr }

var nmFeat = RFeat{Ent: []int64{0}, Id: 0, Type: 5, Role: 2}
var NMLocal = LFeat{Ent: []int64{0}, Id: 0, Type: 5, Role: 2}

// Tree is the peer's detailed discovery reply.
func (p *Peer) Tree() DiscMsg {
	m := DiscMsg{Dev: p.Dev()}
	seen := map[string]bool{}
	for _, f := range append([]RFeat{nmFeat}, p.Feats...) {
		if !seen[ekey(f.Ent)] {
			seen[ekey(f.Ent)] = true
			m.Ents = append(m.Ents, DiscEnt{Addr: f.Ent})
		}
		m.Feats = append(m.Feats, DiscFeat{Ent: f.Ent, Id: f.Id, Type: f.Type, Role: f.Role})
	}
	return m
}

// TreeVariant: a later discovery reply that may omit entities (they are removed), the node
// management feature (it is kept), or carry a defective entry (empty entity address: rejected).
// Entity [0] is always listed (see the assumption on in-place address completion in props/C01.json).
func (p *Peer) TreeVariant(r *hx.Rng) DiscMsg {
	full := p.Tree()
	m := DiscMsg{Dev: full.Dev}
	dropEnt := map[string]bool{}
	for _, e := range full.Ents[1:] {
		if r.Chance(1, 3) {
			dropEnt[ekey(e.Addr)] = true
		}
	}
	for _, e := range full.Ents {
		if !dropEnt[ekey(e.Addr)] {
			m.Ents = append(m.Ents, e)
		}
	}
	dropNM := r.Chance(1, 4)
	for _, f := range full.Feats {
		if dropEnt[ekey(f.Ent)] || (dropNM && len(f.Ent) == 1 && f.Ent[0] == 0 && f.Id == 0) {
			continue
		}
		m.Feats = append(m.Feats, f)
	}
	if r.Chance(1, 5) {
		e := []int64{3}
		m.Ents = append(m.Ents, DiscEnt{Addr: e})
		m.Feats = append(m.Feats, DiscFeat{Ent: e, Id: 1, Type: dataTypes[r.Intn(len(dataTypes))], Role: int64(r.Pick(5, 3, 2))})
	}
	if r.Chance(1, 10) {
		m.Ents = append(m.Ents, DiscEnt{}) // no entity address
	}
	return m
}

// Announce: connect and deliver the discovery reply (from the node management feature,
// whose device address is not known yet).
func (p *Peer) Announce() []hx.Zs {
	d := Dgram{Src: FAddr{Ent: []int64{0}, Feat: 1}, Dst: NMLocal.Addr(1), Ctr: p.Next(), Ref: 2, Cls: 1,
		Pl: Payload{Kind: 1, Msg: p.Tree()}}
	return []hx.Zs{OpConnect(p.Ski), OpInbound(p.Ski, d)}
}

type Plan struct {
	Ents   [][]int64
	Locals []LFeat
	Peers  []*Peer
	Prefix []hx.Zs
}

var dataTypes = []int64{1, 2, 3, 6, 4}

// GenPlan: 1-2 local entities with features of several types and roles, functions with
// random read / write flags and data, 2-3 peers announcing the same entity / feature numbers.
func GenPlan(r *hx.Rng) *Plan {
	pl := &Plan{}
	next := map[string]int64{}
	// flat and nested entity trees; a child may be created before its parent, or without it
	trees := [][][]int64{{{1}}, {{1}, {2}}, {{1, 1}, {1}}, {{1}, {1, 1}}, {{1, 1}}, {{1, 1}, {1}, {2}}}
	pl.Ents = trees[r.Pick(3, 4, 3, 2, 2, 2)]
	for _, e := range pl.Ents {
		pl.Prefix = append(pl.Prefix, OpAddLocalEntity(e))
		next[ekey(e)] = 1
		have := map[[2]int64]bool{}
		for k := 0; k < r.Range(2, 4); k++ {
			t := dataTypes[r.Intn(len(dataTypes))]
			role := int64(r.Pick(3, 5, 2))
			pl.Prefix = append(pl.Prefix, OpAddLocalFeature(e, t, role))
			id := next[ekey(e)]
			next[ekey(e)]++
			if have[[2]int64{t, role}] {
				continue // a second feature of that type and role is ignored (the id is consumed)
			}
			have[[2]int64{t, role}] = true
			f := LFeat{Ent: e, Id: id, Type: t, Role: role, Wr: map[int64]bool{}}
			fns := FnsOfType(t)
			for _, fn := range fns {
				if t == 4 && !r.Chance(1, 4) {
					continue
				}
				if r.Chance(1, 6) {
					continue // registered by the factory but not announced as supported
				}
				wr := r.Chance(1, 2)
				pl.Prefix = append(pl.Prefix, OpAddFunction(e, id, fn, r.Chance(5, 6), wr))
				if role != 0 {
					f.Fns = append(f.Fns, fn)
					f.Wr[fn] = wr
				}
				if r.Chance(2, 3) {
					pl.Prefix = append(pl.Prefix, OpSetData(e, id, fn, int64(r.Range(1, 900))))
				}
			}
			if r.Chance(1, 5) {
				// a function of another feature type: operations know it, the factory does not
				pl.Prefix = append(pl.Prefix, OpAddFunction(e, id, 27, true, true))
				if role != 0 {
					f.Wr[27] = true
				}
			}
			pl.Locals = append(pl.Locals, f)
		}
	}
	np := r.Range(2, 3)
	for k := 1; k <= np; k++ {
		p := &Peer{Ski: int64(k)}
		for _, e := range [][]int64{{1}, {2}} {
			for id := int64(1); id <= int64(r.Range(2, 3)); id++ {
				p.Feats = append(p.Feats, RFeat{Ent: e, Id: id, Type: dataTypes[r.Intn(len(dataTypes))], Role: int64(r.Pick(5, 3, 2))})
			}
		}
		pl.Peers = append(pl.Peers, p)
	}
	return pl
}

func (pl *Plan) ConnectAll() []hx.Zs {
	var h []hx.Zs
	for _, p := range pl.Peers {
		h = append(h, p.Announce()...)
	}
	return h
}

func (pl *Plan) localAddr(r *hx.Rng) (FAddr, *LFeat) {
	if r.Chance(1, 10) && len(pl.Locals) > 0 {
		// the parent or a child address of an existing feature's entity, same feature id: resolves only if
		// exactly that entity exists (and then to its own feature)
		f := pl.Locals[r.Intn(len(pl.Locals))]
		e := append([]int64{}, f.Ent...)
		if len(e) > 1 && r.Bool() {
			e = e[:len(e)-1]
		} else {
			e = append(e, 1)
		}
		for i := range pl.Locals {
			if ekey(pl.Locals[i].Ent) == ekey(e) && pl.Locals[i].Id == f.Id {
				return pl.Locals[i].Addr(int64(r.Intn(2))), &pl.Locals[i]
			}
		}
		return FAddr{Dev: int64(r.Intn(2)), Ent: e, Feat: f.Id + 1}, nil
	}
	switch r.Pick(14, 3, 2, 1) {
	case 0:
		if len(pl.Locals) > 0 {
			f := &pl.Locals[r.Intn(len(pl.Locals))]
			return f.Addr(int64(r.Pick(1, 3, 1)) % 3 * 1), f // device omitted / d0 / omitted
		}
	case 1:
		return NMLocal.Addr(int64(r.Intn(2))), &NMLocal
	case 2:
		// unknown destination, with and without (or with a foreign) device part
		return FAddr{Dev: []int64{0, 1, 6}[r.Intn(3)], Ent: []int64{int64(r.Range(1, 9))}, Feat: int64(r.Range(5, 10))}, nil
	}
	return FAddr{Dev: 1, Ent: []int64{0}, Feat: 2}, &LFeat{Ent: []int64{0}, Id: 1, Type: 6, Role: 1, Fns: []int64{25}, Wr: map[int64]bool{}}
}

func (pl *Plan) remoteAddr(r *hx.Rng, p *Peer) (FAddr, RFeat) {
	switch r.Pick(12, 2, 1) {
	case 0:
		f := p.Feats[r.Intn(len(p.Feats))]
		return p.Addr(f, r.Chance(3, 4)), f
	case 1:
		return p.Addr(nmFeat, r.Bool()), nmFeat
	}
	f := RFeat{Ent: []int64{int64(r.Range(1, 4))}, Id: int64(r.Range(4, 9)), Type: 1}
	return p.Addr(f, true), f // not announced
}

func pickFn(r *hx.Rng, lf *LFeat, rf RFeat) int64 {
	switch r.Pick(6, 3, 1) {
	case 0:
		if lf != nil {
			if fns := FnsOfType(lf.Type); len(fns) > 0 && lf.Type != 5 {
				return fns[r.Intn(len(fns))]
			}
		}
	case 1:
		if fns := FnsOfType(rf.Type); len(fns) > 0 && rf.Type != 5 {
			return fns[r.Intn(len(fns))]
		}
	}
	return int64(r.Range(11, NFns))
}

// RegCall: a subscription / binding call payload, mostly plausible
func (pl *Plan) regCall(r *hx.Rng, p *Peer) RegCall {
	cli, _ := pl.remoteAddr(r, p)
	srv, lf := pl.localAddr(r)
	t := int64(r.Range(1, 6))
	if lf != nil && r.Chance(5, 6) {
		t = lf.Type
		if t == 4 {
			t = dataTypes[r.Intn(4)]
		}
	}
	return RegCall{Cli: cli, Srv: srv, Type: t}
}

// Datagram: one random inbound datagram of peer p.
func (pl *Plan) Datagram(r *hx.Rng, p *Peer, refs []int64) Dgram {
	src, rf := pl.remoteAddr(r, p)
	dst, lf := pl.localAddr(r)
	d := Dgram{Src: src, Dst: dst, Ctr: p.Next()}
	d.Ack, d.AckFalse = ackOf(r)
	if r.Chance(1, 3) && len(refs) > 0 {
		d.Ref = refs[r.Intn(len(refs))] + 1
	}
	if r.Chance(1, 8) {
		d.Result = true
		d.Fct = int64(r.Pick(6, 2, 1, 1))
		d.Err = int64(r.Pick(2, 1, 1, 1)) * int64(r.Range(1, 3))
		if r.Chance(1, 4) {
			// classifier result, but the cmd carries a function's data instead of resultData
			d.ResultPl = true
			d.Pl = Payload{Kind: 0, Fn: pickFn(r, lf, rf), V: int64(r.Range(1, 900))}
			if lf == &NMLocal {
				d.Pl = Payload{Kind: 2, V: int64(r.Range(1, 900))}
			}
		}
		if d.Ref == 0 && len(refs) > 0 && r.Chance(2, 3) {
			d.Ref = refs[r.Intn(len(refs))] + 1
		}
		return d
	}
	d.Cls = int64(r.Pick(4, 3, 3, 4, 2))
	// node management payloads go to node management, to unknown destinations, and now and then to any feature
	if lf == &NMLocal || (lf == nil && r.Chance(1, 4)) || r.Chance(1, 12) {
		d.Pl.Kind = int64(r.Pick(2, 3, 3, 3, 2, 3, 2, 2, 2, 2))
		if d.Pl.Kind != 0 && r.Chance(2, 3) {
			// the classifier node management implements for this payload
			switch d.Pl.Kind {
			case 1, 2, 9:
				d.Cls = int64(r.Pick(3, 2, 1))
			default:
				d.Cls = 4
			}
		}
	}
	d.Fct = int64(r.Pick(6, 2, 1, 1))
	if r.Chance(1, 15) {
		// a resultData element under another classifier than result
		d.Pl = Payload{Kind: 10, V: int64(r.Intn(4))}
		if len(refs) > 0 && r.Chance(1, 2) {
			d.Ref = refs[r.Intn(len(refs))] + 1
		}
		return d
	}
	switch d.Pl.Kind {
	case 0:
		d.Pl.Fn = pickFn(r, lf, rf)
		if d.Cls != 0 {
			d.Pl.V = int64(r.Range(1, 900))
		}
		if d.Cls == 0 || d.Cls == 3 {
			// plain / read restricted by selectors or elements / write asking for a partial update (put on
			// the wire only for the functions without partial support: rejected by the data model)
			d.Sel = int64(r.Pick(3, 1, 1))
		}
	case 1:
		if d.Cls == 2 {
			d.Pl.Msg = pl.partialNotify(r, p)
		} else {
			d.Pl.Msg = DiscMsg{Dev: p.Dev()}
			if d.Cls == 1 {
				d.Pl.Msg = p.TreeVariant(r)
			}
		}
	case 2:
		if d.Cls != 0 {
			d.Pl.V = int64(r.Range(1, 900))
		}
	case 3, 4, 5, 6:
		d.Pl.Call = pl.regCall(r, p)
	}
	return d
}

// partialNotify: entity [3] added / removed, entity [2] removed / re-added, or a defective message
func (pl *Plan) partialNotify(r *hx.Rng, p *Peer) DiscMsg {
	m := DiscMsg{Dev: p.Dev()}
	e := []int64{int64(r.Range(2, 3))}
	switch r.Pick(4, 4, 1, 1, 1) {
	case 0:
		m.Ents = []DiscEnt{{Addr: e, State: 1}}
		for id := int64(1); id <= 2; id++ {
			m.Feats = append(m.Feats, DiscFeat{Ent: e, Id: id, Type: dataTypes[r.Intn(len(dataTypes))], Role: int64(r.Pick(5, 3, 2))})
		}
	case 1:
		m.Ents = []DiscEnt{{Addr: e, State: 2}}
	case 2:
		m.Ents = []DiscEnt{{Addr: e}} // no state
	case 3:
		m.Ents = []DiscEnt{{Addr: e, State: int64(r.Range(1, 2)), Dev: 7}} // another device
	}
	// further entries, handled one by one: mixed additions and removals, the device information
	// entity (cannot be removed), an entry without entity address
	for r.Chance(1, 3) && len(m.Ents) < 4 {
		e2 := []int64{int64(r.Range(0, 3))}
		switch r.Pick(3, 3, 1) {
		case 0:
			m.Ents = append(m.Ents, DiscEnt{Addr: e2, State: 1})
			m.Feats = append(m.Feats, DiscFeat{Ent: e2, Id: 1, Type: dataTypes[r.Intn(len(dataTypes))], Role: int64(r.Pick(5, 3, 2))})
			if e2[0] == 0 && r.Bool() {
				m.Feats = append(m.Feats, DiscFeat{Ent: e2, Id: 0, Type: 5, Role: 2})
			}
		case 1:
			m.Ents = append(m.Ents, DiscEnt{Addr: e2, State: 2})
		default:
			m.Ents = append(m.Ents, DiscEnt{State: int64(r.Range(1, 2))})
		}
	}
	return m
}

// Setup: typical subscriptions and bindings of the peers' client features on matching local servers
func (pl *Plan) Setup(r *hx.Rng) []hx.Zs {
	var h []hx.Zs
	for _, p := range pl.Peers {
		for _, f := range p.Feats {
			for i := range pl.Locals {
				lf := &pl.Locals[i]
				if lf.Role == 0 || f.Role == 1 || !(lf.Type == f.Type || lf.Type == 4 || f.Type == 4) || !r.Chance(1, 2) {
					continue
				}
				t := lf.Type
				if t == 4 {
					t = f.Type
				}
				kind := int64(3)
				if r.Chance(3, 5) {
					kind = 5
				}
				d := Dgram{Src: p.Addr(nmFeat, true), Dst: NMLocal.Addr(1), Ctr: p.Next(), Ack: r.Bool(), Cls: 4,
					Pl: Payload{Kind: kind, Call: RegCall{Cli: p.Addr(f, r.Chance(2, 3)), Srv: lf.Addr(int64(r.Intn(2))), Type: t}}}
				h = append(h, OpInbound(p.Ski, d))
			}
		}
	}
	return h
}

// ---------------------------------------------------------------- the matrix

type cell struct{ t, role int64 }

// MatrixHistory: one local feature of type t and role `role` ([1]:1; node management for t = 5),
// two peers with identical numbering (peer 1 bound and subscribed, peer 2 not), then every
// classifier x function (all registered for the type + one foreign) x ack x destination
// known / unknown x source announced / not.
func MatrixHistory(t, role int64, full bool) []hx.Zs {
	var h []hx.Zs
	e := []int64{1}
	target := LFeat{Ent: e, Id: 1, Type: t, Role: role}
	srvType := t
	if t == 5 {
		target = NMLocal
		srvType = 1
		role = 1
	}
	h = append(h, OpAddLocalEntity(e), OpAddLocalFeature(e, srvType, role))
	fns := FnsOfType(srvType)
	if srvType == 4 && !full {
		fns = []int64{14, 17, 24, 25, 27}
	}
	for i, fn := range fns {
		h = append(h, OpAddFunction(e, 1, fn, true, i%3 != 2), OpSetData(e, 1, fn, 100+fn))
	}
	if srvType != 4 && srvType != 7 {
		// the foreign function is announced as writable although the factory has no data for it:
		// an admitted write of it is rejected by the data model ("data not found")
		h = append(h, OpAddFunction(e, 1, 27, true, true))
	}
	peers := []*Peer{{Ski: 1}, {Ski: 2}}
	for _, p := range peers {
		p.Feats = []RFeat{{Ent: e, Id: 1, Type: srvType, Role: 0}, {Ent: e, Id: 2, Type: srvType, Role: 1}, {Ent: e, Id: 3, Type: 4, Role: 2}}
		h = append(h, p.Announce()...)
	}
	p1 := peers[0]
	srv := LFeat{Ent: e, Id: 1, Type: srvType, Role: role}
	callT := srvType
	if callT == 4 {
		callT = 1
	}
	call := func(p *Peer) RegCall { return RegCall{Cli: p.Addr(p.Feats[0], true), Srv: srv.Addr(1), Type: callT} }
	for _, kind := range []int64{3, 5} {
		h = append(h, OpInbound(1, Dgram{Src: p1.Addr(nmFeat, true), Dst: NMLocal.Addr(1), Ctr: p1.Next(), Ack: true, Cls: 4,
			Pl: Payload{Kind: kind, Call: call(p1)}}))
	}
	type pay struct{ Payload }
	var pays []Payload
	if t == 5 {
		for k := int64(1); k <= 9; k++ {
			pays = append(pays, Payload{Kind: k})
		}
		pays = append(pays, Payload{Kind: 0, Fn: 14})
	} else {
		for _, fn := range fns {
			pays = append(pays, Payload{Kind: 0, Fn: fn})
		}
		foreign := int64(27)
		if srvType == 4 || srvType == 7 {
			foreign = 0 // Generic registers everything the harness knows
		}
		if foreign != 0 {
			pays = append(pays, Payload{Kind: 0, Fn: foreign})
		}
	}
	pays = append(pays, Payload{Kind: 10}) // a resultData element under every classifier
	n := 0
	for _, pl := range pays {
		for cls := int64(0); cls <= 5; cls++ {
			for _, ack := range []int{0, 1, 2} { // ackRequest absent / true / present and false
				for _, known := range []bool{true, false} {
					for _, ann := range []bool{true, false} {
						for _, p := range peers { // peer 1 is bound and subscribed, peer 2 is not
							n++
							// the function element (absent / the data's / empty / another) and, for reads of data
							// functions, the restriction (none / selectors / elements) cycle through the cells
							d := Dgram{Ctr: p.Next(), Ack: ack == 1, AckFalse: ack == 2, Cls: cls, Pl: pl, Fct: int64(n % 4)}
							if (cls == 0 || cls == 3) && pl.Kind == 0 {
								d.Sel = int64(n/4) % 3 // on writes: a partial update, effective for functions without partial support
							}
							d.Src = p.Addr(p.Feats[0], n%3 != 0)
							if t == 5 && n%4 < 2 {
								d.Src = p.Addr(nmFeat, true)
							}
							if !ann {
								d.Src = FAddr{Dev: p.Dev(), Ent: e, Feat: 10}
							}
							d.Dst = target.Addr(int64(n/2) % 2)
							if !known {
								d.Dst = FAddr{Dev: int64(n/2) % 2, Ent: []int64{7}, Feat: 8}
							}
							if cls == 5 {
								d.Result = true
								d.Err = int64(n % 3)
								d.Ref = int64(n%2) * 4
								if pl.Kind != 10 && n%4 >= 2 {
									// classifier result whose cmd is the payload of this cell instead of resultData
									d.ResultPl = true
									switch pl.Kind {
									case 0, 2:
										d.Pl.V = int64(200 + n%700)
									case 1:
										d.Pl.Msg = DiscMsg{Dev: p.Dev()}
									case 3, 4, 5, 6:
										d.Pl.Call = call(p)
									}
								}
							} else if pl.Kind == 10 {
								d.Pl.V = int64(n % 3)
								d.Ref = int64(n%2) * 4
							} else {
								switch pl.Kind {
								case 0, 2:
									if cls != 0 {
										d.Pl.V = int64(200 + n%700)
									}
								case 1:
									d.Pl.Msg = DiscMsg{Dev: p.Dev()}
									if cls == 1 {
										d.Pl.Msg = p.Tree()
									} else if cls == 2 {
										d.Pl.Msg.Ents = []DiscEnt{{Addr: []int64{4}, State: int64(1 + n%2)}}
									}
								case 3, 4, 5, 6:
									d.Pl.Call = call(p)
								}
								if cls == 1 {
									d.Ref = 3
								}
							}
							h = append(h, OpInbound(p.Ski, d))
							if cls == 3 && known && pl.Kind == 0 && t != 5 {
								h = append(h, OpGetData(e, 1, pl.Fn))
							}
						}
					}
				}
			}
		}
	}
	// the reads this stack itself sends when a selector or elements are given (ReadCmdType: empty function
	// element + partial filter), and the same with every variant of the function element
	if t != 5 {
		for _, fn := range fns {
			for sel := int64(1); sel <= 2; sel++ {
				for fct := int64(0); fct <= 3; fct++ {
					p := peers[int(fn+sel+fct)%2]
					h = append(h, OpInbound(p.Ski, Dgram{Src: p.Addr(p.Feats[0], true), Dst: target.Addr(1), Ctr: p.Next(),
						Cls: 0, Pl: Payload{Kind: 0, Fn: fn}, Fct: fct, Sel: sel}))
				}
			}
		}
	}
	return h
}

// Matrix: every cell once (quick: Generic restricted to five functions).
func Matrix(tier string) [][]hx.Zs {
	var out [][]hx.Zs
	// the factory table of the model against spine.CreateFunctionData
	var q []hx.Zs
	for t := int64(1); t <= 7; t++ {
		q = append(q, OpQFactory(t))
	}
	out = append(out, q)
	for _, t := range []int64{1, 2, 3, 6, 4} {
		for role := int64(0); role <= 2; role++ {
			out = append(out, MatrixHistory(t, role, tier == "thorough"))
		}
	}
	out = append(out, MatrixHistory(5, 2, true))
	out = append(out, NestedHistory(true), NestedHistory(false))
	return out
}

// NestedHistory: nested local entities with same-numbered features.  The child [1,1] is created BEFORE its
// parent [1] (withParent) or without it; both carry features 1 and 2 with different types and data.  Every
// classifier x ack x both peers is sent to the parent, the child, a grandchild and an unrelated entity,
// features 1-3; then the parent is removed (its address, a proper prefix of the child's, must resolve to
// nothing: one error result with the local device address) and everything is sent again; then the child.
func NestedHistory(withParent bool) []hx.Zs {
	var h []hx.Zs
	child, parent := []int64{1, 1}, []int64{1}
	set := func(e []int64, t1, t2, base int64) {
		h = append(h, OpAddLocalEntity(e), OpAddLocalFeature(e, t1, 1), OpAddLocalFeature(e, t2, 1))
		for id, t := range []int64{t1, t2} {
			for _, fn := range FnsOfType(t)[:3] {
				h = append(h, OpAddFunction(e, int64(id+1), fn, true, true), OpSetData(e, int64(id+1), fn, base+fn))
			}
		}
	}
	set(child, 1, 2, 500)
	if withParent {
		set(parent, 2, 1, 100)
	}
	peers := []*Peer{{Ski: 1}, {Ski: 2}}
	for _, p := range peers {
		p.Feats = []RFeat{{Ent: []int64{1}, Id: 1, Type: 4, Role: 0}, {Ent: []int64{1}, Id: 2, Type: 4, Role: 1}}
		h = append(h, p.Announce()...)
	}
	p1 := peers[0]
	for _, srv := range []FAddr{{Dev: 1, Ent: child, Feat: 2}, {Dev: 1, Ent: parent, Feat: 3}} {
		h = append(h, OpInbound(1, Dgram{Src: p1.Addr(nmFeat, true), Dst: NMLocal.Addr(1), Ctr: p1.Next(), Ack: true, Cls: 4,
			Pl: Payload{Kind: 5, Call: RegCall{Cli: p1.Addr(p1.Feats[0], true), Srv: srv, Type: 1}}}))
	}
	n := 0
	block := func() {
		for _, e := range [][]int64{parent, child, {1, 1, 1}, {2}} {
			for feat := int64(1); feat <= 3; feat++ {
				for cls := int64(0); cls <= 5; cls++ {
					for ack := 0; ack <= 2; ack++ {
						n++
						p := peers[n%2]
						d := Dgram{Src: p.Addr(p.Feats[0], true), Dst: FAddr{Dev: int64(n/2) % 2, Ent: e, Feat: feat + 1}, Ctr: p.Next(),
							Ack: ack == 1, AckFalse: ack == 2, Cls: cls, Fct: int64(n % 4)}
						if cls == 5 {
							d.Result = true
							d.Err = int64(n % 3)
							d.Ref = 3
						} else {
							d.Pl = Payload{Kind: 0, Fn: []int64{11, 17, 12, 18}[n%4]}
							if cls != 0 {
								d.Pl.V = int64(200 + n%700)
							}
						}
						h = append(h, OpInbound(p.Ski, d))
					}
				}
			}
		}
	}
	block()
	h = append(h, OpRemoveLocalEntity(parent))
	block()
	h = append(h, OpRemoveLocalEntity(child))
	block()
	return h
}

// Random: a random world, typical registrations, then random traffic with data changes,
// reconnects, callbacks (cbWeight > 0).
func Random(r *hx.Rng, tier string, cbWeight int) []hx.Zs {
	pl := GenPlan(r)
	h := append([]hx.Zs{}, pl.Prefix...)
	h = append(h, pl.ConnectAll()...)
	if r.Chance(4, 5) {
		h = append(h, pl.Setup(r)...)
	}
	n := r.Range(10, 50)
	if tier == "thorough" {
		n = r.Range(10, 120)
	}
	refs := []int64{1, 2, 3, 5, 8}
	gone := map[int64]bool{}
	for k := 0; k < n; k++ {
		p := pl.Peers[r.Intn(len(pl.Peers))]
		if r.Chance(1, 60) && len(pl.Ents) > 0 {
			h = append(h, OpRemoveLocalEntity(pl.Ents[r.Intn(len(pl.Ents))]))
			continue
		}
		switch r.Pick(60, 8, 3, 2, cbWeight, 4) {
		case 0:
			h = append(h, OpInbound(p.Ski, pl.Datagram(r, p, refs)))
		case 1:
			if len(pl.Locals) > 0 {
				f := pl.Locals[r.Intn(len(pl.Locals))]
				h = append(h, OpSetData(f.Ent, f.Id, pickFn(r, &f, RFeat{Type: f.Type}), int64(r.Range(1, 900))))
			}
		case 2:
			h = append(h, OpDisconnect(p.Ski))
			gone[p.Ski] = true
		case 3:
			h = append(h, p.Announce()...)
			gone[p.Ski] = false
		case 4:
			_, lf := pl.localAddr(r)
			if lf == nil {
				lf = &LFeat{Ent: []int64{5}, Id: 5}
			}
			if r.Chance(3, 4) {
				h = append(h, OpAddRespCb(lf.Ent, lf.Id, refs[r.Intn(len(refs))], int64(r.Intn(4))))
			} else {
				h = append(h, OpAddResultCb(lf.Ent, lf.Id, int64(r.Intn(NCallbacks))))
			}
		default:
			if len(pl.Locals) > 0 {
				f := pl.Locals[r.Intn(len(pl.Locals))]
				h = append(h, OpGetData(f.Ent, f.Id, pickFn(r, &f, RFeat{Type: f.Type})))
			}
		}
	}
	return h
}

// CallbackHistory: registrations of several callbacks per counter on several features (node
// management, DeviceClassification, client and server features, a feature that does not exist),
// duplicates, result callbacks, interleaved with replies and results from several peers carrying
// matching, non-matching, repeated and missing references, accepted and rejected replies.
func CallbackHistory(r *hx.Rng, tier string) []hx.Zs {
	pl := GenPlan(r)
	h := append([]hx.Zs{}, pl.Prefix...)
	h = append(h, pl.ConnectAll()...)
	targets := []LFeat{NMLocal, {Ent: []int64{0}, Id: 1, Type: 6, Role: 1}}
	for _, f := range pl.Locals {
		targets = append(targets, f)
	}
	targets = targets[:min(len(targets), 2+r.Range(1, 3))]
	ctrs := []int64{1, 2, 3, 4, 5, 6}[:r.Range(2, 6)]
	register := func() {
		t := targets[r.Intn(len(targets))]
		if r.Chance(1, 12) {
			t = LFeat{Ent: []int64{int64(r.Range(1, 4))}, Id: int64(r.Range(6, 9))} // no such feature
		}
		if r.Chance(1, 5) {
			h = append(h, OpAddResultCb(t.Ent, t.Id, int64(r.Intn(NCallbacks))))
		} else if r.Chance(1, 6) {
			h = append(h, OpParRegister(t.Ent, t.Id, ctrs[r.Intn(len(ctrs))], int64(r.Intn(5)), int64(r.Range(2, 4))))
		} else {
			h = append(h, OpAddRespCb(t.Ent, t.Id, ctrs[r.Intn(len(ctrs))], int64(r.Intn(5))))
		}
	}
	deliver := func() {
		p := pl.Peers[r.Intn(len(pl.Peers))]
		t := targets[r.Intn(len(targets))]
		src, rf := pl.remoteAddr(r, p)
		d := Dgram{Src: src, Dst: t.Addr(int64(r.Intn(2))), Ctr: p.Next(), Ack: r.Chance(1, 4), AckFalse: r.Chance(1, 4)}
		if r.Chance(1, 10) {
			d.Dst, _ = pl.localAddr(r)
		}
		switch r.Pick(12, 2, 2) {
		case 0:
			d.Ref = ctrs[r.Intn(len(ctrs))] + 1
		case 1:
			d.Ref = int64(r.Range(7, 12)) + 1 // nobody waits for it
		}
		d.Fct = int64(r.Pick(6, 2, 1, 1))
		if r.Chance(2, 5) {
			d.Result = true
			d.Err = int64(r.Pick(3, 1, 1)) * int64(r.Range(1, 4)) % 8
			h = append(h, OpInbound(p.Ski, d))
			return
		}
		d.Cls = 1
		if r.Chance(1, 8) {
			d.Cls = int64(r.Pick(1, 0, 2, 1, 1)) // another classifier: no callback
		}
		if t.Type == 5 && t.Id == 0 && len(t.Ent) == 1 && t.Ent[0] == 0 {
			d.Pl.Kind = int64(r.Pick(1, 3, 4, 0, 0, 0, 0, 0, 0, 1))
		}
		switch d.Pl.Kind {
		case 0:
			// mostly a function the sending feature's type carries (accepted), sometimes not (rejected)
			fns := FnsOfType(rf.Type)
			if len(fns) > 0 && rf.Type != 5 && r.Chance(3, 4) {
				d.Pl.Fn = fns[r.Intn(len(fns))]
			} else {
				d.Pl.Fn = int64(r.Range(11, NFns))
			}
			d.Pl.V = int64(r.Range(1, 900))
		case 1:
			d.Pl.Msg = p.Tree()
			if d.Cls == 2 {
				d.Pl.Msg = pl.partialNotify(r, p)
			}
		case 2:
			d.Pl.V = int64(r.Range(1, 900))
		}
		h = append(h, OpInbound(p.Ski, d))
	}
	for k := 0; k < r.Range(3, 10); k++ {
		register()
	}
	n := r.Range(10, 40)
	if tier == "thorough" {
		n = r.Range(10, 100)
	}
	for k := 0; k < n; k++ {
		switch r.Pick(10, 5, 1, 1) {
		case 0:
			deliver()
		case 1:
			register()
		case 2:
			p := pl.Peers[r.Intn(len(pl.Peers))]
			h = append(h, OpDisconnect(p.Ski))
			h = append(h, p.Announce()...)
		default:
			p := pl.Peers[r.Intn(len(pl.Peers))]
			h = append(h, OpInbound(p.Ski, pl.Datagram(r, p, ctrs)))
		}
	}
	return h
}

// OpParArrive encodes "d arrives on the connections ps at once, racing with the registration of
// callback late (0 = none, cb+1) for d's reference on d's destination; then once more on pf".
func OpParArrive(ps []int64, d Dgram, late, pf int64) hx.Zs {
	z := hx.Zs{12, late, pf, int64(len(ps))}
	z = append(z, ps...)
	return append(z, OpInbound(0, d)[2:]...)
}

// ParHistory: overlapping arrivals.  Four peers announce the same features; every round uses a
// fresh counter on one local feature: 1-6 callbacks (ids 0..6) are registered for it, then the
// same result or accepted reply referencing the counter arrives on 2-4 connections at once,
// mostly racing with the registration of callback 7 for that counter, and once more afterwards.
// Whatever the interleaving, every registered callback is invoked exactly once and every result
// callback once per arrival (Proofs/CallbackProofs.par_any_interleaving), so the operations are
// well posed: fresh late callback, delivering closing arrival, result or data reply.
func ParHistory(r *hx.Rng, tier string) []hx.Zs {
	e := []int64{1}
	h := []hx.Zs{OpAddLocalEntity(e), OpAddLocalFeature(e, 1, 0), OpAddLocalFeature(e, 2, 1)}
	targets := []LFeat{{Ent: e, Id: 1, Type: 1, Role: 0}, {Ent: e, Id: 2, Type: 2, Role: 1}, NMLocal, {Ent: []int64{0}, Id: 1, Type: 6, Role: 1}}
	var peers []*Peer
	for k := int64(1); k <= 4; k++ {
		p := &Peer{Ski: k, Feats: []RFeat{{Ent: e, Id: 1, Type: 1, Role: 1}, {Ent: e, Id: 2, Type: 2, Role: 0}}}
		peers = append(peers, p)
		h = append(h, p.Announce()...)
	}
	h = append(h, resultCallbacks(r, targets)...)
	gone := map[int64]bool{}
	rounds := r.Range(15, 35)
	if tier == "thorough" {
		rounds = r.Range(20, 80)
	}
	for i := 0; i < rounds; i++ {
		ctr := int64(1000 + i)
		t := targets[r.Intn(len(targets))]
		// early callbacks, distinct ids out of 0..6
		perm := []int64{0, 1, 2, 3, 4, 5, 6}
		for j := len(perm) - 1; j > 0; j-- {
			k := r.Intn(j + 1)
			perm[j], perm[k] = perm[k], perm[j]
		}
		for _, cb := range perm[:r.Range(1, 6)] {
			if r.Chance(1, 3) {
				// the same registration from 2-4 goroutines at once: one is accepted, the callback fires once
				h = append(h, OpParRegister(t.Ent, t.Id, ctr, cb, int64(r.Range(2, 4))))
			} else {
				h = append(h, OpAddRespCb(t.Ent, t.Id, ctr, cb))
			}
		}
		// the arrival: from the same remote feature of every peer, device part omitted
		src := RFeat{Ent: e, Id: 1, Type: 1, Role: 1}
		d := Dgram{Src: FAddr{Ent: src.Ent, Feat: src.Id + 1}, Dst: t.Addr(int64(r.Intn(2))), Ctr: int64(5000 + i), Ref: ctr + 1}
		accepted := true
		switch r.Pick(5, 4, 1) {
		case 0:
			d.Result = true
			d.Err = int64(r.Intn(4))
		case 1:
			d.Cls = 1
			if t.Type == 5 {
				d.Src = FAddr{Ent: []int64{0}, Feat: 1}
				d.Pl = Payload{Kind: 2, V: int64(r.Range(1, 900))}
			} else {
				d.Pl = Payload{Kind: 0, Fn: FnsOfType(1)[r.Intn(6)], V: int64(r.Range(1, 900))}
			}
		default:
			// a reply the replica cannot take (or node management does not implement): nobody is invoked
			d.Cls = 1
			d.Pl = Payload{Kind: 0, Fn: 17, V: 3}
			accepted = false
		}
		// 2-4 distinct peers at once
		order := []int{0, 1, 2, 3}
		for j := 3; j > 0; j-- {
			k := r.Intn(j + 1)
			order[j], order[k] = order[k], order[j]
		}
		var ps []int64
		for _, k := range order[:r.Range(2, 4)] {
			ps = append(ps, peers[k].Ski)
		}
		var conn []int64
		for _, p := range peers {
			if !gone[p.Ski] {
				conn = append(conn, p.Ski)
			}
		}
		pf := conn[r.Intn(len(conn))]
		late := int64(0)
		if accepted && r.Chance(3, 4) {
			late = 8 // callback 7
		}
		h = append(h, OpParArrive(ps, d, late, pf))
		// now and then a peer leaves or comes back
		if r.Chance(1, 12) && len(conn) > 2 {
			p := conn[r.Intn(len(conn))]
			h = append(h, OpDisconnect(p))
			gone[p] = true
		} else if r.Chance(1, 10) {
			for _, p := range peers {
				if gone[p.Ski] {
					h = append(h, p.Announce()...)
					gone[p.Ski] = false
					break
				}
			}
		}
	}
	return h
}

// resultCallbacks registers 0-7 result callbacks on every target; in two of three cases the first
// one is the slow callback 7 (it blocks until the operation that invoked it waits for quiescence).
func resultCallbacks(r *hx.Rng, targets []LFeat) []hx.Zs {
	var h []hx.Zs
	for _, t := range targets {
		k := []int{0, 1, 2, 3, 3, 4, 5, 5, 6, 7, 7}[r.Intn(11)]
		for j := 0; j < k; j++ {
			cb := int64(r.Intn(NCallbacks - 1))
			if j == 0 && r.Chance(2, 3) {
				cb = 7
			}
			h = append(h, OpAddResultCb(t.Ent, t.Id, cb))
		}
	}
	return h
}

// OpSeqArrive encodes "these datagrams arrive one after the other without waiting for the callbacks".
func OpSeqArrive(arr []struct {
	P int64
	D Dgram
}) hx.Zs {
	z := hx.Zs{13, int64(len(arr))}
	for _, a := range arr {
		enc := OpInbound(0, a.D)[2:]
		z = append(z, a.P, int64(len(enc)))
		z = append(z, enc...)
	}
	return z
}

// SeqHistory: results in quick succession.  Four peers, four local features with 0-7 result
// callbacks (mostly a slow one first); every round registers response callbacks for two to four
// fresh counters on one feature and then delivers the results (now and then a reply, a repeated or
// an unknown reference) for these counters back to back, while the callbacks of the first ones are
// still being worked off; now and then a result callback is added between the rounds.
func SeqHistory(r *hx.Rng, tier string) []hx.Zs {
	e := []int64{1}
	h := []hx.Zs{OpAddLocalEntity(e), OpAddLocalFeature(e, 1, 0), OpAddLocalFeature(e, 2, 1)}
	targets := []LFeat{{Ent: e, Id: 1, Type: 1, Role: 0}, {Ent: e, Id: 2, Type: 2, Role: 1}, NMLocal, {Ent: []int64{0}, Id: 1, Type: 6, Role: 1}}
	var peers []*Peer
	for k := int64(1); k <= 4; k++ {
		p := &Peer{Ski: k, Feats: []RFeat{{Ent: e, Id: 1, Type: 1, Role: 1}, {Ent: e, Id: 2, Type: 2, Role: 0}}}
		peers = append(peers, p)
		h = append(h, p.Announce()...)
	}
	h = append(h, resultCallbacks(r, targets)...)
	rounds := r.Range(10, 25)
	if tier == "thorough" {
		rounds = r.Range(15, 60)
	}
	next := int64(2000)
	for i := 0; i < rounds; i++ {
		t := targets[r.Intn(len(targets))]
		var ctrs []int64
		for k := 0; k < r.Range(2, 4); k++ {
			next++
			ctrs = append(ctrs, next)
			for j := 0; j < r.Range(1, 2); j++ {
				if r.Chance(1, 3) {
					h = append(h, OpParRegister(t.Ent, t.Id, next, int64(r.Intn(NCallbacks-1)), int64(r.Range(2, 3))))
				} else {
					h = append(h, OpAddRespCb(t.Ent, t.Id, next, int64(r.Intn(NCallbacks-1))))
				}
			}
		}
		var arr []struct {
			P int64
			D Dgram
		}
		add := func(ref int64) {
			p := peers[r.Intn(len(peers))]
			d := Dgram{Src: p.Addr(p.Feats[0], r.Bool()), Dst: t.Addr(int64(r.Intn(2))), Ctr: p.Next(), Ref: ref + 1,
				Result: true, Err: int64(r.Intn(4)), Fct: int64(r.Pick(6, 2, 1, 1))}
			if r.Chance(1, 6) {
				d.Result = false
				d.Cls = 1
				d.Pl = Payload{Kind: 0, Fn: FnsOfType(1)[r.Intn(6)], V: int64(r.Range(1, 900))}
			}
			arr = append(arr, struct {
				P int64
				D Dgram
			}{p.Ski, d})
		}
		for _, c := range ctrs {
			add(c)
			if r.Chance(1, 8) {
				add(c) // repeated reference
			}
			if r.Chance(1, 10) {
				add(9000 + c) // nobody waits for it
			}
		}
		h = append(h, OpSeqArrive(arr))
		if r.Chance(1, 6) {
			h = append(h, OpAddResultCb(t.Ent, t.Id, int64(r.Intn(NCallbacks-1))))
		}
		if r.Chance(1, 10) {
			// the same through overlapping arrivals of one of the results
			p := peers[r.Intn(len(peers))]
			next++
			h = append(h, OpAddRespCb(t.Ent, t.Id, next, int64(r.Intn(NCallbacks-1))))
			d := Dgram{Src: FAddr{Ent: e, Feat: 2}, Dst: t.Addr(1), Ctr: p.Next(), Ref: next + 1, Result: true, Err: 1}
			h = append(h, OpParArrive([]int64{1, 2, 3}, d, 0, p.Ski))
		}
	}
	return h
}

// ManyPendingHistory: many unanswered requests on one feature.  21-40 response callbacks are
// registered on DISTINCT counters of one local feature (1-2 callbacks per counter, a few counters
// spread over a second feature) before any response arrives; then a reply or result for every one
// of these counters arrives, in random order (in half of the histories the lowest counters first,
// in a quarter the counters in ascending order), now and then repeated.  Every callback must be
// invoked exactly once however many counters are waiting.
func ManyPendingHistory(r *hx.Rng, tier string) []hx.Zs {
	e := []int64{1}
	h := []hx.Zs{OpAddLocalEntity(e), OpAddLocalFeature(e, 1, 0), OpAddLocalFeature(e, 2, 1)}
	targets := []LFeat{{Ent: e, Id: 1, Type: 1, Role: 0}, {Ent: e, Id: 2, Type: 2, Role: 1}, NMLocal}
	var peers []*Peer
	for k := int64(1); k <= 2; k++ {
		p := &Peer{Ski: k, Feats: []RFeat{{Ent: e, Id: 1, Type: 1, Role: 1}, {Ent: e, Id: 2, Type: 2, Role: 0}}}
		peers = append(peers, p)
		h = append(h, p.Announce()...)
	}
	main := targets[r.Intn(len(targets))]
	other := targets[(int(main.Id)+1)%len(targets)]
	if r.Chance(1, 2) {
		h = append(h, OpAddResultCb(main.Ent, main.Id, int64(r.Intn(NCallbacks-1))))
	}
	n := r.Range(21, 40)
	base := int64(r.Range(1, 50)) * 100
	type pend struct {
		t   LFeat
		ctr int64
	}
	var ps []pend
	for i := 0; i < n; i++ {
		ctr := base + int64(i)
		h = append(h, OpAddRespCb(main.Ent, main.Id, ctr, int64(r.Intn(NCallbacks-1))))
		if r.Chance(1, 4) {
			h = append(h, OpAddRespCb(main.Ent, main.Id, ctr, int64(r.Intn(NCallbacks-1)))) // maybe a duplicate: refused
		}
		ps = append(ps, pend{main, ctr})
		if r.Chance(1, 8) {
			c2 := base + 500 + int64(i)
			h = append(h, OpAddRespCb(other.Ent, other.Id, c2, int64(r.Intn(NCallbacks-1))))
			ps = append(ps, pend{other, c2})
		}
	}
	// the order of the responses
	switch r.Pick(2, 1, 1) {
	case 0: // lowest counters first, the rest shuffled
		k := r.Range(3, 10)
		for j := len(ps) - 1; j > k; j-- {
			i := k + r.Intn(j-k+1)
			ps[j], ps[i] = ps[i], ps[j]
		}
	case 1: // ascending
	default:
		for j := len(ps) - 1; j > 0; j-- {
			i := r.Intn(j + 1)
			ps[j], ps[i] = ps[i], ps[j]
		}
	}
	for _, x := range ps {
		p := peers[r.Intn(len(peers))]
		d := Dgram{Src: p.Addr(p.Feats[0], r.Bool()), Dst: x.t.Addr(int64(r.Intn(2))), Ctr: p.Next(), Ref: x.ctr + 1, Fct: int64(r.Pick(6, 2, 1, 1))}
		d.Ack, d.AckFalse = ackOf(r)
		if r.Chance(1, 2) {
			d.Result = true
			d.Err = int64(r.Intn(4))
		} else {
			d.Cls = 1
			d.Pl = Payload{Kind: 0, Fn: FnsOfType(1)[r.Intn(6)], V: int64(r.Range(1, 900))}
			if x.t.Type == 5 {
				d.Src = p.Addr(nmFeat, true)
				d.Pl = Payload{Kind: 2, V: int64(r.Range(1, 900))}
			}
		}
		h = append(h, OpInbound(p.Ski, d))
		if r.Chance(1, 12) {
			h = append(h, OpInbound(p.Ski, d)) // the same response again: nobody waits for it any more
		}
	}
	return h
}
