// Package dispatch executes the operations of coq/Model/Dispatch.v on the real
// spine-go stack and reports the observations in the model's wire encoding
// (coq/Model/DispatchWire.v).  Shared by the runners cmd/c01 and cmd/c14.
//
// Identifier bijection: SKI "s<k>" <-> k, device address "d<k>" <-> k (local
// device = d0); feature types 1 LoadControl, 2 Measurement, 3 DeviceConfiguration,
// 4 Generic, 5 NodeManagement, 6 DeviceClassification, 7 Alarm; functions see Fns.
// A data token v is stored in the first scalar leaf of the function's data type
// (found by reflection, the same walk encodes and decodes; checked at start-up by a
// JSON round trip for every function); token 0 = the empty value.
//
// Projection (what is NOT observed): outbound read / call / notify / write
// datagrams (the stack's own requests and the subscription fan-out), outbound
// message counters, error texts (only the error number), the content of discovery
// and destination-list replies (token 0), subscription / binding entry lists
// (their length), events.
package dispatch

import (
	"bytes"
	"encoding/json"
	"fmt"
	"os"
	"reflect"
	"runtime"
	"runtime/debug"
	"strconv"
	"sync"
	"sync/atomic"
	"time"

	"github.com/enbility/spine-go/api"
	"github.com/enbility/spine-go/model"
	"github.com/enbility/spine-go/spine"
	"github.com/enbility/spine-go/util"

	"verifharness/hx"
)

// ---------------------------------------------------------------- tables

// Fns maps the model's function ids to the code's function names.
var Fns = map[int64]model.FunctionType{
	1:  model.FunctionTypeNodeManagementDetailedDiscoveryData,
	2:  model.FunctionTypeNodeManagementUseCaseData,
	3:  model.FunctionTypeNodeManagementDestinationListData,
	4:  model.FunctionTypeNodeManagementSubscriptionData,
	5:  model.FunctionTypeNodeManagementSubscriptionRequestCall,
	6:  model.FunctionTypeNodeManagementSubscriptionDeleteCall,
	7:  model.FunctionTypeNodeManagementBindingData,
	8:  model.FunctionTypeNodeManagementBindingRequestCall,
	9:  model.FunctionTypeNodeManagementBindingDeleteCall,
	10: model.FunctionTypeResultData,
	11: model.FunctionTypeLoadControlEventListData,
	12: model.FunctionTypeLoadControlLimitConstraintsListData,
	13: model.FunctionTypeLoadControlLimitDescriptionListData,
	14: model.FunctionTypeLoadControlLimitListData,
	15: model.FunctionTypeLoadControlNodeData,
	16: model.FunctionTypeLoadControlStateListData,
	17: model.FunctionTypeMeasurementListData,
	18: model.FunctionTypeMeasurementDescriptionListData,
	19: model.FunctionTypeMeasurementConstraintsListData,
	20: model.FunctionTypeMeasurementThresholdRelationListData,
	21: model.FunctionTypeMeasurementSeriesListData,
	22: model.FunctionTypeDeviceConfigurationKeyValueConstraintsListData,
	23: model.FunctionTypeDeviceConfigurationKeyValueDescriptionListData,
	24: model.FunctionTypeDeviceConfigurationKeyValueListData,
	25: model.FunctionTypeDeviceClassificationManufacturerData,
	26: model.FunctionTypeDeviceClassificationUserData,
	27: model.FunctionTypeAlarmListData,
}

const NFns = 27

var fnIds = map[model.FunctionType]int64{}

// FnsOfType lists the data functions the factory registers for a (non node management) type.
func FnsOfType(t int64) []int64 {
	switch t {
	case 1:
		return []int64{11, 12, 13, 14, 15, 16}
	case 2:
		return []int64{17, 18, 19, 20, 21}
	case 3:
		return []int64{22, 23, 24}
	case 6:
		return []int64{25, 26}
	case 7:
		return []int64{27}
	case 4:
		var l []int64
		for f := int64(11); f <= NFns; f++ {
			l = append(l, f)
		}
		return l
	case 5:
		return []int64{1, 2, 3}
	}
	return nil
}

func FeatureType(t int64) model.FeatureTypeType {
	switch t {
	case 1:
		return model.FeatureTypeTypeLoadControl
	case 2:
		return model.FeatureTypeTypeMeasurement
	case 3:
		return model.FeatureTypeTypeDeviceConfiguration
	case 4:
		return model.FeatureTypeTypeGeneric
	case 5:
		return model.FeatureTypeTypeNodeManagement
	case 6:
		return model.FeatureTypeTypeDeviceClassification
	}
	return model.FeatureTypeTypeAlarm
}

func Role(r int64) model.RoleType {
	switch r {
	case 0:
		return model.RoleTypeClient
	case 1:
		return model.RoleTypeServer
	}
	return model.RoleTypeSpecial
}

// ---------------------------------------------------------------- data tokens (reflection)

func bigInt(k reflect.Kind) bool {
	switch k {
	case reflect.Int, reflect.Int32, reflect.Int64, reflect.Uint, reflect.Uint32, reflect.Uint64:
		return true
	}
	return false
}

func isUint(k reflect.Kind) bool {
	return k == reflect.Uint || k == reflect.Uint32 || k == reflect.Uint64
}

// setTok stores tok in the first scalar leaf of struct value v (depth first, field order).
func setTok(v reflect.Value, tok int64, depth int) bool {
	for i := 0; i < v.NumField(); i++ {
		f := v.Field(i)
		if !f.CanSet() {
			continue
		}
		switch f.Kind() {
		case reflect.Ptr:
			et := f.Type().Elem()
			switch {
			case bigInt(et.Kind()):
				nv := reflect.New(et)
				if isUint(et.Kind()) {
					nv.Elem().SetUint(uint64(tok))
				} else {
					nv.Elem().SetInt(tok)
				}
				f.Set(nv)
				return true
			case et.Kind() == reflect.String:
				nv := reflect.New(et)
				nv.Elem().SetString(strconv.FormatInt(tok, 10))
				f.Set(nv)
				return true
			case et.Kind() == reflect.Bool:
				// two-valued data (loadControlNodeData): token 1 = true, 2 = false
				nv := reflect.New(et)
				nv.Elem().SetBool(tok != 2)
				f.Set(nv)
				return true
			case et.Kind() == reflect.Struct && depth < 4:
				nv := reflect.New(et)
				if setTok(nv.Elem(), tok, depth+1) {
					f.Set(nv)
					return true
				}
			}
		case reflect.Slice:
			et := f.Type().Elem()
			if et.Kind() == reflect.Struct && depth < 4 {
				nv := reflect.New(et).Elem()
				if setTok(nv, tok, depth+1) {
					f.Set(reflect.Append(reflect.MakeSlice(f.Type(), 0, 1), nv))
					return true
				}
			}
		}
	}
	return false
}

// getTok mirrors setTok: the first eligible leaf decides (nil = 0, unparsable = -1).
func getTok(v reflect.Value, depth int) (int64, bool) {
	for i := 0; i < v.NumField(); i++ {
		f := v.Field(i)
		switch f.Kind() {
		case reflect.Ptr:
			et := f.Type().Elem()
			switch {
			case bigInt(et.Kind()):
				if f.IsNil() {
					return 0, true
				}
				if isUint(et.Kind()) {
					return int64(f.Elem().Uint()), true
				}
				return f.Elem().Int(), true
			case et.Kind() == reflect.String:
				if f.IsNil() {
					return 0, true
				}
				n, err := strconv.ParseInt(f.Elem().String(), 10, 64)
				if err != nil {
					return -1, true
				}
				return n, true
			case et.Kind() == reflect.Bool:
				if f.IsNil() {
					return 0, true
				}
				if f.Elem().Bool() {
					return 1, true
				}
				return 2, true
			case et.Kind() == reflect.Struct && depth < 4:
				if f.IsNil() {
					// would setTok have used this field?
					if setTok(reflect.New(et).Elem(), 1, depth+1) {
						return 0, true
					}
					continue
				}
				if t, ok := getTok(f.Elem(), depth+1); ok {
					return t, true
				}
			}
		case reflect.Slice:
			et := f.Type().Elem()
			if et.Kind() == reflect.Struct && depth < 4 {
				if f.Len() == 0 {
					if setTok(reflect.New(et).Elem(), 1, depth+1) {
						return 0, true
					}
					continue
				}
				if t, ok := getTok(f.Index(0), depth+1); ok {
					return t, true
				}
			}
		}
	}
	return 0, false
}

// cmdFieldFor finds the CmdType field tagged with the function.
func cmdFieldFor(fct model.FunctionType) (int, bool) {
	t := reflect.TypeOf(model.CmdType{})
	for i := 0; i < t.NumField(); i++ {
		sf := t.Field(i)
		if sf.Name == "Function" || sf.Name == "Filter" {
			continue
		}
		if f, ok := model.EEBusTags(sf)[model.EEBusTagFunction]; ok && model.FunctionType(f) == fct {
			return i, true
		}
	}
	return 0, false
}

// Tok normalises a token for the function's data type (loadControlNodeData is a single bool).
func Tok(fn, v int64) int64 {
	if fn == 15 && v != 0 {
		return 1 + v%2
	}
	return v
}

// PartialOK: does the function's data type support partial updates (coq: fn_partial)?
func PartialOK(fn int64) bool { return fn != 15 && fn != 25 && fn != 26 }

// DataValue builds the data of function fn carrying token v (0 = empty value).
func DataValue(fn, v int64) any {
	idx, ok := cmdFieldFor(Fns[fn])
	if !ok {
		panic(fmt.Sprintf("no cmd field for function %d", fn))
	}
	pt := reflect.TypeOf(model.CmdType{}).Field(idx).Type
	nv := reflect.New(pt.Elem())
	if v != 0 {
		if !setTok(nv.Elem(), v, 0) {
			panic(fmt.Sprintf("function %d: no scalar leaf for the token", fn))
		}
	}
	return nv.Interface()
}

// CmdFor builds a cmd whose data field is that of function fn with token v.
func CmdFor(fn, v int64) model.CmdType {
	var c model.CmdType
	idx, _ := cmdFieldFor(Fns[fn])
	reflect.ValueOf(&c).Elem().Field(idx).Set(reflect.ValueOf(DataValue(fn, v)))
	return c
}

// TokenOf decodes the token of a data value (pointer to a data struct).
func TokenOf(d any) int64 {
	if d == nil {
		return 0
	}
	v := reflect.ValueOf(d)
	if v.Kind() != reflect.Ptr || v.IsNil() || v.Elem().Kind() != reflect.Struct {
		return 0
	}
	switch x := d.(type) {
	case *model.ResultDataType:
		if x.ErrorNumber == nil {
			return -1
		}
		return int64(*x.ErrorNumber)
	case *model.NodeManagementDetailedDiscoveryDataType, *model.NodeManagementDestinationListDataType:
		return 0
	case *model.NodeManagementSubscriptionDataType:
		return int64(len(x.SubscriptionEntry))
	case *model.NodeManagementBindingDataType:
		return int64(len(x.BindingEntry))
	case *model.NodeManagementSubscriptionRequestCallType, *model.NodeManagementSubscriptionDeleteCallType,
		*model.NodeManagementBindingRequestCallType, *model.NodeManagementBindingDeleteCallType:
		return 0
	}
	t, _ := getTok(v.Elem(), 0)
	return t
}

// cmdFnTok: function id and token of the data field of a cmd (fn 0 = none / unknown).
func cmdFnTok(c model.CmdType) (int64, int64) {
	cd, err := c.Data()
	if err != nil || cd.Function == nil {
		return 0, 0
	}
	id, ok := fnIds[*cd.Function]
	if !ok {
		return 0, 0
	}
	return id, TokenOf(cd.Value)
}

func init() {
	for id, f := range Fns {
		fnIds[f] = id
	}
	// the model's fn_partial table against FunctionData.SupportsPartialWrite
	for _, fd := range spine.CreateFunctionData[api.FunctionDataCmdInterface](model.FeatureTypeTypeGeneric) {
		if id, ok := fnIds[fd.FunctionType()]; ok && id >= 11 && fd.SupportsPartialWrite() != PartialOK(id) {
			panic(fmt.Sprintf("partial update support of function %d differs from the model's fn_partial table", id))
		}
	}
	// self-check of the token encoding: JSON round trip for every data function
	for _, fn := range append([]int64{2}, FnsOfType(4)...) {
		for _, tok := range []int64{1, 77, 900} {
			tok = Tok(fn, tok)
			c := CmdFor(fn, tok)
			b, err := json.Marshal(c)
			if err != nil {
				panic(err)
			}
			var c2 model.CmdType
			if err := json.Unmarshal(b, &c2); err != nil {
				panic(fmt.Sprintf("function %d: %v", fn, err))
			}
			if f, t := cmdFnTok(c2); f != fn || t != tok {
				panic(fmt.Sprintf("token encoding of function %d does not round-trip: %d %d (%s)", fn, f, t, b))
			}
		}
		if f, t := cmdFnTok(CmdFor(fn, 0)); f != fn || t != 0 {
			panic(fmt.Sprintf("empty value of function %d decodes to %d %d", fn, f, t))
		}
	}
}

// ---------------------------------------------------------------- world

type peerRec struct {
	gone   bool
	ski    int64
	dev    api.DeviceRemoteInterface
	reader interface {
		HandleSpineMesssage([]byte) (*model.MsgCounterType, error)
	}
}

type logItem struct {
	ski int64
	msg []byte
	ev  hx.Zs
}

type World struct {
	mu      sync.Mutex
	log     []logItem
	invokes []hx.Zs
	nInv    atomic.Int64
	nCbs    int           // callbacks registered so far (waiting is only needed when > 0)
	gate    chan struct{} // callback 7 is slow: it blocks until the current operation waits for quiescence
	local   *spine.DeviceLocal
	ents    map[string]api.EntityLocalInterface
	removed map[string]bool // entities taken out of the device again (their objects live on)
	peers   map[int64]*peerRec
}

type writer struct {
	w   *World
	ski int64
}

func (wr *writer) WriteShipMessageWithPayload(msg []byte) {
	wr.w.mu.Lock()
	defer wr.w.mu.Unlock()
	wr.w.log = append(wr.w.log, logItem{ski: wr.ski, msg: append([]byte(nil), msg...)})
}

func New() *World {
	w := &World{ents: map[string]api.EntityLocalInterface{}, removed: map[string]bool{}, peers: map[int64]*peerRec{}}
	// device model "77": the manufacturer data of DeviceClassification decode to token 77
	w.local = spine.NewDeviceLocal("brand", "77", "serial", "code", "d0", model.DeviceTypeTypeEnergyManagementSystem, model.NetworkManagementFeatureSetTypeSmart)
	w.ents[ekey([]int64{0})] = w.local.Entity([]model.AddressEntityType{0})
	return w
}

func (w *World) Local() *spine.DeviceLocal { return w.local }

func (w *World) Close() {
	for _, p := range w.peers {
		if !p.gone {
			w.local.RemoveRemoteDeviceConnection(Ski(p.ski))
		}
	}
}

func ekey(e []int64) string { return fmt.Sprint(e) }

func Ski(k int64) string { return fmt.Sprintf("s%d", k) }

func skiNum(s string) int64 {
	var k int64 = -1
	fmt.Sscanf(s, "s%d", &k)
	return k
}

func devNum(d *model.AddressDeviceType) int64 { // wire: 0 none, k+1
	if d == nil {
		return 0
	}
	var k int64 = 998
	fmt.Sscanf(string(*d), "d%d", &k)
	return k + 1
}

func devPtr(code int64) *model.AddressDeviceType {
	if code == 0 {
		return nil
	}
	return util.Ptr(model.AddressDeviceType(fmt.Sprintf("d%d", code-1)))
}

// ---- addresses

type FAddr struct {
	Dev  int64 // 0 none, k+1
	Ent  []int64
	Feat int64 // 0 none, f+1
}

func (a FAddr) Enc() hx.Zs {
	z := hx.Zs{a.Dev, int64(len(a.Ent))}
	z = append(z, a.Ent...)
	return append(z, a.Feat)
}

func (a FAddr) model() *model.FeatureAddressType {
	r := &model.FeatureAddressType{Device: devPtr(a.Dev)}
	for _, e := range a.Ent {
		r.Entity = append(r.Entity, model.AddressEntityType(e))
	}
	if a.Feat != 0 {
		r.Feature = util.Ptr(model.AddressFeatureType(a.Feat - 1))
	}
	return r
}

func fromFeatureAddr(a *model.FeatureAddressType) FAddr {
	var r FAddr
	if a == nil {
		return r
	}
	r.Dev = devNum(a.Device)
	for _, e := range a.Entity {
		r.Ent = append(r.Ent, int64(e))
	}
	if a.Feature != nil {
		r.Feat = int64(*a.Feature) + 1
	}
	return r
}

func entAddr(e []int64) []model.AddressEntityType {
	var r []model.AddressEntityType
	for _, x := range e {
		r = append(r, model.AddressEntityType(x))
	}
	return r
}

func encEaddr(e []model.AddressEntityType) hx.Zs {
	z := hx.Zs{int64(len(e))}
	for _, x := range e {
		z = append(z, int64(x))
	}
	return z
}

// ---- reader over an encoded operation

type rd struct {
	z hx.Zs
	i int
}

func (r *rd) n() int64 {
	if r.i >= len(r.z) {
		return 0
	}
	v := r.z[r.i]
	r.i++
	return v
}
func (r *rd) b() bool { return r.n() != 0 }
func (r *rd) eaddr() []int64 {
	k := r.n()
	var e []int64
	for j := int64(0); j < k; j++ {
		e = append(e, r.n())
	}
	return e
}
func (r *rd) faddr() FAddr {
	var a FAddr
	a.Dev = r.n()
	a.Ent = r.eaddr()
	a.Feat = r.n()
	return a
}

// ---- discovery messages

type DiscEnt struct {
	Addr  []int64
	Dev   int64
	State int64
}
type DiscFeat struct {
	Ent            []int64
	Id, Type, Role int64
}
type DiscMsg struct {
	Dev   int64
	Ents  []DiscEnt
	Feats []DiscFeat
}

func (r *rd) msg() DiscMsg {
	var m DiscMsg
	m.Dev = r.n()
	ne := r.n()
	for i := int64(0); i < ne; i++ {
		var e DiscEnt
		e.Addr = r.eaddr()
		e.Dev = r.n()
		e.State = r.n()
		m.Ents = append(m.Ents, e)
	}
	nf := r.n()
	for i := int64(0); i < nf; i++ {
		var f DiscFeat
		f.Ent = r.eaddr()
		f.Id = r.n()
		f.Type = r.n()
		f.Role = r.n()
		m.Feats = append(m.Feats, f)
	}
	return m
}

func (m DiscMsg) Enc() hx.Zs {
	z := hx.Zs{m.Dev, int64(len(m.Ents))}
	for _, e := range m.Ents {
		z = append(z, int64(len(e.Addr)))
		z = append(z, e.Addr...)
		z = append(z, e.Dev, e.State)
	}
	z = append(z, int64(len(m.Feats)))
	for _, f := range m.Feats {
		z = append(z, int64(len(f.Ent)))
		z = append(z, f.Ent...)
		z = append(z, f.Id, f.Type, f.Role)
	}
	return z
}

func (m DiscMsg) data() *model.NodeManagementDetailedDiscoveryDataType {
	d := &model.NodeManagementDetailedDiscoveryDataType{
		DeviceInformation: &model.NodeManagementDetailedDiscoveryDeviceInformationType{
			Description: &model.NetworkManagementDeviceDescriptionDataType{},
		},
	}
	if m.Dev != 0 {
		d.DeviceInformation.Description.DeviceAddress = &model.DeviceAddressType{Device: devPtr(m.Dev)}
	}
	for _, e := range m.Ents {
		ei := model.NodeManagementDetailedDiscoveryEntityInformationType{
			Description: &model.NetworkManagementEntityDescriptionDataType{
				EntityAddress: &model.EntityAddressType{Device: devPtr(e.Dev), Entity: entAddr(e.Addr)},
				EntityType:    util.Ptr(model.EntityTypeTypeCEM),
			},
		}
		if len(e.Addr) == 1 && e.Addr[0] == 0 {
			ei.Description.EntityType = util.Ptr(model.EntityTypeTypeDeviceInformation)
		}
		switch e.State {
		case 1:
			ei.Description.LastStateChange = util.Ptr(model.NetworkManagementStateChangeTypeAdded)
		case 2:
			ei.Description.LastStateChange = util.Ptr(model.NetworkManagementStateChangeTypeRemoved)
		}
		d.EntityInformation = append(d.EntityInformation, ei)
	}
	for _, f := range m.Feats {
		ft := FeatureType(f.Type)
		ro := Role(f.Role)
		fi := model.NodeManagementDetailedDiscoveryFeatureInformationType{
			Description: &model.NetworkManagementFeatureDescriptionDataType{
				FeatureAddress: &model.FeatureAddressType{Device: devPtr(m.Dev), Entity: entAddr(f.Ent), Feature: util.Ptr(model.AddressFeatureType(f.Id))},
				FeatureType:    &ft,
				Role:           &ro,
			},
		}
		d.FeatureInformation = append(d.FeatureInformation, fi)
	}
	return d
}

// ---- datagrams (the op encoding of DispatchWire.pDgram)

type RegCall struct {
	Cli, Srv FAddr
	Type     int64
}

type Payload struct {
	Kind int64 // 0 data, 1 discovery, 2 use case, 3..6 sub req / del, bind req / del, 7 sub data, 8 bind data, 9 dest list
	Fn   int64
	V    int64
	Msg  DiscMsg
	Call RegCall
}

type Dgram struct {
	Src, Dst FAddr
	Ctr      int64
	Ref      int64 // 0 none, r+1
	Ack      bool  // ackRequest: true
	AckFalse bool  // ackRequest present and false (only when !Ack); neither: the element is absent
	Result   bool  // classifier result
	ResultPl bool  // classifier result (with Result) whose cmd is NOT resultData but the payload Pl
	Err      int64 // resultData.errorNumber
	Cls      int64 // 0 read 1 reply 2 notify 3 write 4 call
	Pl       Payload
	Fct      int64 // the cmd's function element: 0 absent, 1 the data's function, 2 empty, 3 another function
	Sel      int64 // read restriction (reads of data functions only): 0 none, 1 selectors, 2 elements
}

func b2i(b bool) int64 {
	if b {
		return 1
	}
	return 0
}

// OpInbound encodes "datagram d arrives on connection p".
func OpInbound(p int64, d Dgram) hx.Zs {
	z := hx.Zs{8, p}
	z = append(z, d.Src.Enc()...)
	z = append(z, d.Dst.Enc()...)
	ack := b2i(d.Ack)
	if !d.Ack && d.AckFalse {
		ack = 2
	}
	z = append(z, d.Ctr, d.Ref, ack)
	if d.Result && !d.ResultPl {
		return append(z, 0, d.Err, d.Fct, 0)
	}
	if d.Result {
		z = append(z, 2, d.Pl.Kind)
	} else {
		z = append(z, 1, d.Cls, d.Pl.Kind)
	}
	switch d.Pl.Kind {
	case 10: // a resultData element under another classifier
		z = append(z, d.Pl.V)
	case 0:
		z = append(z, d.Pl.Fn, Tok(d.Pl.Fn, d.Pl.V))
	case 1:
		z = append(z, d.Pl.Msg.Enc()...)
	case 2:
		z = append(z, d.Pl.V)
	case 3, 4, 5, 6:
		z = append(z, d.Pl.Call.Cli.Enc()...)
		z = append(z, d.Pl.Call.Srv.Enc()...)
		z = append(z, d.Pl.Call.Type)
	}
	return append(z, d.Fct, d.Sel)
}

func (r *rd) dgram() Dgram {
	var d Dgram
	d.Src = r.faddr()
	d.Dst = r.faddr()
	d.Ctr = r.n()
	d.Ref = r.n()
	ack := r.n()
	d.Ack = ack == 1
	d.AckFalse = ack == 2
	switch r.n() {
	case 0:
		d.Result = true
		d.Err = r.n()
		r.tail(&d)
		return d
	case 2:
		d.Result, d.ResultPl = true, true
	default:
		d.Cls = r.n()
	}
	d.Pl.Kind = r.n()
	switch d.Pl.Kind {
	case 10:
		d.Pl.V = r.n()
	case 0:
		d.Pl.Fn = r.n()
		d.Pl.V = r.n()
	case 1:
		d.Pl.Msg = r.msg()
	case 2:
		d.Pl.V = r.n()
	case 3, 4, 5, 6:
		d.Pl.Call.Cli = r.faddr()
		d.Pl.Call.Srv = r.faddr()
		d.Pl.Call.Type = r.n()
	}
	r.tail(&d)
	return d
}

// the function element and the read restriction follow the body; older recordings end with the body
func (r *rd) tail(d *Dgram) {
	if r.i < len(r.z) {
		d.Fct = r.n()
		d.Sel = r.n()
	}
}

var classifiers = []model.CmdClassifierType{model.CmdClassifierTypeRead, model.CmdClassifierTypeReply,
	model.CmdClassifierTypeNotify, model.CmdClassifierTypeWrite, model.CmdClassifierTypeCall}

func (d Dgram) datagram() model.DatagramType {
	cls := model.CmdClassifierTypeResult
	if !d.Result {
		cls = classifiers[d.Cls]
	}
	h := model.HeaderType{
		SpecificationVersion: &spine.SpecificationVersion,
		AddressSource:        d.Src.model(),
		AddressDestination:   d.Dst.model(),
		MsgCounter:           util.Ptr(model.MsgCounterType(d.Ctr)),
		CmdClassifier:        &cls,
	}
	if d.Ref != 0 {
		h.MsgCounterReference = util.Ptr(model.MsgCounterType(d.Ref - 1))
	}
	if d.Ack {
		h.AckRequest = util.Ptr(true)
	} else if d.AckFalse {
		h.AckRequest = util.Ptr(false)
	}
	var cmd model.CmdType
	if d.Result && !d.ResultPl {
		cmd.ResultData = &model.ResultDataType{ErrorNumber: util.Ptr(model.ErrorNumberType(d.Err))}
	} else {
		c := d.Pl.Call
		t := FeatureType(c.Type)
		switch d.Pl.Kind {
		case 10:
			cmd.ResultData = &model.ResultDataType{ErrorNumber: util.Ptr(model.ErrorNumberType(d.Pl.V))}
		case 0:
			cmd = CmdFor(d.Pl.Fn, d.Pl.V)
			if !d.Result && d.Cls == 3 && d.Sel != 0 && !PartialOK(d.Pl.Fn) {
				// a partial write of a function whose data type has no partial updates: rejected by the data model
				cmd.Function = util.Ptr(Fns[d.Pl.Fn])
				cmd.Filter = []model.FilterType{{CmdControl: &model.CmdControlType{Partial: &model.ElementTagType{}}}}
				stats["datagram:partial-write-without-partial-support"]++
			}
		case 1:
			cmd.NodeManagementDetailedDiscoveryData = d.Pl.Msg.data()
			if d.Cls == 2 {
				// notifications are partial (the full form is out of the model's scope)
				cmd.Function = util.Ptr(model.FunctionTypeNodeManagementDetailedDiscoveryData)
				cmd.Filter = []model.FilterType{{CmdControl: &model.CmdControlType{Partial: &model.ElementTagType{}}}}
			}
		case 2:
			cmd = CmdFor(2, d.Pl.V)
		case 3:
			cmd.NodeManagementSubscriptionRequestCall = &model.NodeManagementSubscriptionRequestCallType{SubscriptionRequest: &model.SubscriptionManagementRequestCallType{ClientAddress: c.Cli.model(), ServerAddress: c.Srv.model(), ServerFeatureType: &t}}
		case 4:
			cmd.NodeManagementSubscriptionDeleteCall = &model.NodeManagementSubscriptionDeleteCallType{SubscriptionDelete: &model.SubscriptionManagementDeleteCallType{ClientAddress: c.Cli.model(), ServerAddress: c.Srv.model()}}
		case 5:
			cmd.NodeManagementBindingRequestCall = &model.NodeManagementBindingRequestCallType{BindingRequest: &model.BindingManagementRequestCallType{ClientAddress: c.Cli.model(), ServerAddress: c.Srv.model(), ServerFeatureType: &t}}
		case 6:
			cmd.NodeManagementBindingDeleteCall = &model.NodeManagementBindingDeleteCallType{BindingDelete: &model.BindingManagementDeleteCallType{ClientAddress: c.Cli.model(), ServerAddress: c.Srv.model()}}
		case 7:
			cmd.NodeManagementSubscriptionData = &model.NodeManagementSubscriptionDataType{}
		case 8:
			cmd.NodeManagementBindingData = &model.NodeManagementBindingDataType{}
		case 9:
			cmd.NodeManagementDestinationListData = &model.NodeManagementDestinationListDataType{}
		}
	}
	if !d.Result && d.Cls == 0 && d.Pl.Kind == 0 && d.Sel != 0 {
		cmd = filteredRead(d.Pl.Fn, d.Sel)
	}
	if d.Fct != 0 {
		var fn model.FunctionType
		if cd, err := cmd.Data(); err == nil && cd.Function != nil {
			fn = *cd.Function
		}
		switch d.Fct {
		case 1:
			cmd.Function = util.Ptr(fn)
		case 2:
			cmd.Function = util.Ptr(model.FunctionType(""))
		default:
			other := model.FunctionTypeAlarmListData
			if fn == other {
				other = model.FunctionTypeMeasurementListData
			}
			cmd.Function = util.Ptr(other)
		}
	}
	return model.DatagramType{Header: h, Payload: model.PayloadType{Cmd: []model.CmdType{cmd}}}
}

// filterArg builds the function's selectors (typ "selector") or elements (typ "elements") value:
// the type of the FilterType field tagged with the function, with its first leaf set.
func filterArg(fct model.FunctionType, typ model.EEBusTagTypeType) any {
	t := reflect.TypeOf(model.FilterType{})
	for i := 0; i < t.NumField(); i++ {
		sf := t.Field(i)
		tags := model.EEBusTags(sf)
		if model.FunctionType(tags[model.EEBusTagFunction]) != fct || tags[model.EEBusTagType] != string(typ) || sf.Type.Kind() != reflect.Ptr {
			continue
		}
		v := reflect.New(sf.Type.Elem())
		if typ == model.EEBusTagTypeTypeSelector {
			setTok(v.Elem(), 1, 0)
		} else {
			for j := 0; j < v.Elem().NumField(); j++ {
				f := v.Elem().Field(j)
				if f.Kind() == reflect.Ptr && f.CanSet() {
					f.Set(reflect.New(f.Type().Elem()))
					break
				}
			}
		}
		return v.Interface()
	}
	return nil
}

// filteredRead is the read cmd this stack itself puts on the wire for a read restricted by a selector
// (sel 1) or by elements (sel 2): FunctionDataCmd.ReadCmdType — the function's empty data element, a
// partial filter, and a function element that is present but empty.
func filteredRead(fn, sel int64) model.CmdType {
	fct := Fns[fn]
	for _, fd := range spine.CreateFunctionData[api.FunctionDataCmdInterface](model.FeatureTypeTypeGeneric) {
		if fd.FunctionType() != fct {
			continue
		}
		var selector, elements any
		if sel == 1 {
			selector = filterArg(fct, model.EEBusTagTypeTypeSelector)
		} else {
			elements = filterArg(fct, model.EEbusTagTypeTypeElements)
		}
		if selector == nil && elements == nil {
			break // the function has no such filter field
		}
		stats["filtered-read-cmds-built-by-ReadCmdType"]++
		return fd.ReadCmdType(selector, elements)
	}
	c := CmdFor(fn, 0)
	c.Function = util.Ptr(model.FunctionType(""))
	c.Filter = []model.FilterType{{CmdControl: &model.CmdControlType{Partial: &model.ElementTagType{}}}}
	return c
}

// InjectRaw delivers bytes to peer p's reader; a panic of the stack becomes the
// observation [97] (outside the model's vocabulary).
func (w *World) InjectRaw(p int64, b []byte) {
	pr := w.peers[p]
	if pr == nil || pr.gone {
		return
	}
	defer func() {
		if e := recover(); e != nil {
			if os.Getenv("VERIF_DEBUG_PANIC") != "" {
				fmt.Fprintf(os.Stderr, "panic: %v\n%s\n", e, debug.Stack())
			}
			w.mu.Lock()
			w.log = append(w.log, logItem{ski: -1, ev: hx.Zs{97}})
			w.mu.Unlock()
		}
	}()
	// the entry point of the SHIP read loop (it processes the datagram before it returns: the next
	// datagram of the connection is handed over only afterwards)
	if sr, ok := pr.reader.(interface{ HandleShipPayloadMessage([]byte) }); ok {
		sr.HandleShipPayloadMessage(b)
		return
	}
	_, _ = pr.reader.HandleSpineMesssage(b)
}

// ---- callbacks: eight functions with distinct code (AddResponseCallback compares code pointers)

func (w *World) invoked(cb int64, m api.ResponseMessage) {
	z := hx.Zs{3, cb}
	la := m.FeatureLocal.Address()
	ra := m.FeatureRemote.Address()
	var lf, rf int64 = -1, -1
	if la.Feature != nil {
		lf = int64(*la.Feature)
	}
	if ra.Feature != nil {
		rf = int64(*ra.Feature)
	}
	z = append(z, lf, int64(m.MsgCounterReference), skiNum(m.DeviceRemote.Ski()), rf, TokenOf(m.Data))
	z = append(z, encEaddr(la.Entity)...)
	z = append(z, encEaddr(ra.Entity)...)
	w.mu.Lock()
	w.invokes = append(w.invokes, z)
	w.mu.Unlock()
	w.nInv.Add(1)
}

func (w *World) cb0(m api.ResponseMessage) { w.invoked(0, m) }
func (w *World) cb1(m api.ResponseMessage) { w.invoked(1, m) }
func (w *World) cb2(m api.ResponseMessage) { w.invoked(2, m) }
func (w *World) cb3(m api.ResponseMessage) { w.invoked(3, m) }
func (w *World) cb4(m api.ResponseMessage) { w.invoked(4, m) }
func (w *World) cb5(m api.ResponseMessage) { w.invoked(5, m) }
func (w *World) cb6(m api.ResponseMessage) { w.invoked(6, m) }
func (w *World) cb7(m api.ResponseMessage) {
	// the slow application callback: it only gets on with its work when the operation is over
	w.mu.Lock()
	g := w.gate
	w.mu.Unlock()
	if g != nil {
		<-g
	}
	w.invoked(7, m)
}

const NCallbacks = 8

func (w *World) callback(i int64) func(api.ResponseMessage) {
	switch i % NCallbacks {
	case 0:
		return w.cb0
	case 1:
		return w.cb1
	case 2:
		return w.cb2
	case 3:
		return w.cb3
	case 4:
		return w.cb4
	case 5:
		return w.cb5
	case 6:
		return w.cb6
	}
	return w.cb7
}

// libGoroutines counts the live goroutines that were started by the stack itself (`go cb(msg)` and the
// like): those whose creation site, as printed by runtime.Stack, lies in spine-go.  Goroutines of the
// harness (hx runs every operation on a goroutine of its own and the previous one may still be on its
// way out) do not count, which a plain runtime.NumGoroutine() comparison cannot tell apart.
var stackBuf = make([]byte, 1<<16)

func libGoroutines() int {
	for {
		n := runtime.Stack(stackBuf, true)
		if n < len(stackBuf) {
			return bytes.Count(stackBuf[:n], []byte("created by github.com/enbility/spine-go/"))
		}
		stackBuf = make([]byte, 2*len(stackBuf))
	}
}

// settle lets the slow callback proceed and waits until the goroutines the stack spawned during the
// operation (the callbacks) have finished.  No timing is involved; a goroutine that does not finish
// within 30 s is reported as an observation outside the vocabulary.
func (w *World) settle(base int) {
	w.mu.Lock()
	if w.gate != nil {
		close(w.gate) // the slow callback may proceed
		w.gate = nil
	}
	w.mu.Unlock()
	if w.nCbs == 0 {
		return
	}
	deadline := time.Now().Add(30 * time.Second)
	for i := 0; ; i++ {
		if (i > 200 || runtime.NumGoroutine() <= base+1) && libGoroutines() == 0 {
			return
		}
		if i < 100 {
			runtime.Gosched()
			continue
		}
		time.Sleep(20 * time.Microsecond)
		if i%1000 == 0 && time.Now().After(deadline) {
			w.mu.Lock()
			w.log = append(w.log, logItem{ski: -1, ev: hx.Zs{97, 1}})
			w.mu.Unlock()
			return
		}
	}
}

// ---- outbound projection

func (w *World) drain() []hx.Zs {
	w.mu.Lock()
	items := w.log
	w.log = nil
	inv := w.invokes
	w.invokes = nil
	w.mu.Unlock()
	var out []hx.Zs
	for _, it := range items {
		if it.ski < 0 {
			out = append(out, it.ev)
			continue
		}
		var d model.Datagram
		if err := json.Unmarshal(it.msg, &d); err != nil {
			out = append(out, hx.Zs{97, it.ski})
			continue
		}
		h := d.Datagram.Header
		if h.CmdClassifier == nil {
			out = append(out, hx.Zs{97, it.ski})
			continue
		}
		if *h.CmdClassifier != model.CmdClassifierTypeReply && *h.CmdClassifier != model.CmdClassifierTypeResult {
			continue
		}
		if len(d.Datagram.Payload.Cmd) != 1 || h.MsgCounterReference == nil {
			// a response without reference or with several cmds is outside the vocabulary
			out = append(out, hx.Zs{97, it.ski})
			continue
		}
		c := d.Datagram.Payload.Cmd[0]
		ref := int64(*h.MsgCounterReference)
		src, dst := fromFeatureAddr(h.AddressSource), fromFeatureAddr(h.AddressDestination)
		var z hx.Zs
		if *h.CmdClassifier == model.CmdClassifierTypeResult {
			if c.ResultData == nil || c.ResultData.ErrorNumber == nil {
				out = append(out, hx.Zs{97, it.ski})
				continue
			}
			z = hx.Zs{2, it.ski, ref, int64(*c.ResultData.ErrorNumber)}
		} else {
			fn, tok := cmdFnTok(c)
			z = hx.Zs{1, it.ski, ref, fn, tok}
		}
		z = append(z, src.Enc()...)
		out = append(out, append(z, dst.Enc()...))
	}
	return append(out, inv...)
}

func isNil(x any) bool {
	if x == nil {
		return true
	}
	v := reflect.ValueOf(x)
	switch v.Kind() {
	case reflect.Ptr, reflect.Interface, reflect.Map, reflect.Slice:
		return v.IsNil()
	}
	return false
}

func (w *World) localFeature(e []int64, f int64) api.FeatureLocalInterface {
	ent := w.ents[ekey(e)]
	if ent == nil {
		return nil
	}
	fl := ent.FeatureOfAddress(util.Ptr(model.AddressFeatureType(f)))
	if isNil(fl) {
		return nil
	}
	return fl
}

// Exec runs one encoded operation and returns the observations.
func (w *World) Exec(op hx.Zs) []hx.Zs {
	base := runtime.NumGoroutine()
	if len(op) > 0 && (op[0] == 8 || op[0] == 12 || op[0] == 13) {
		w.mu.Lock()
		w.gate = make(chan struct{})
		w.mu.Unlock()
	}
	r := &rd{z: op}
	code := r.n()
	var ret []hx.Zs
	switch code {
	case 1: // AddLocalEntity
		e := r.eaddr()
		if w.ents[ekey(e)] == nil {
			ent := spine.NewEntityLocal(w.local, model.EntityTypeTypeCEM, entAddr(e), 0)
			w.ents[ekey(e)] = ent
			w.local.AddEntity(ent)
		}
	case 2: // AddLocalFeature
		t, ro := r.n(), r.n()
		e := r.eaddr()
		ent := w.ents[ekey(e)]
		if ent == nil {
			ret = append(ret, hx.Zs{6})
			break
		}
		f := spine.NewFeatureLocal(ent.NextFeatureId(), ent, FeatureType(t), Role(ro))
		ent.AddFeature(f)
		ret = append(ret, hx.Zs{5, int64(*f.Address().Feature)})
	case 3: // AddFunction
		f, fn, rdb, wr := r.n(), r.n(), r.b(), r.b()
		e := r.eaddr()
		if fl := w.localFeature(e, f); fl != nil {
			fl.AddFunctionType(Fns[fn], rdb, wr)
		}
	case 4: // SetData
		f, fn, v := r.n(), r.n(), r.n()
		e := r.eaddr()
		if fl := w.localFeature(e, f); fl != nil {
			if _, ok := cmdFieldFor(Fns[fn]); ok {
				fl.SetData(Fns[fn], DataValue(fn, v))
			}
		} else {
			ret = append(ret, hx.Zs{6})
		}
	case 5: // GetData
		f, fn := r.n(), r.n()
		e := r.eaddr()
		fl := w.localFeature(e, f)
		if fl == nil {
			ret = append(ret, hx.Zs{6})
			break
		}
		ret = append(ret, hx.Zs{5, TokenOf(fl.DataCopy(Fns[fn]))})
	case 6: // Connect
		p := r.n()
		if pr := w.peers[p]; pr != nil && !pr.gone {
			w.local.RemoveRemoteDeviceConnection(Ski(p))
			pr.gone = true
		}
		wr := &writer{w: w, ski: p}
		rdr := w.local.SetupRemoteDevice(Ski(p), wr)
		dev := w.local.RemoteDeviceForSki(Ski(p))
		w.peers[p] = &peerRec{ski: p, dev: dev, reader: rdr.(interface {
			HandleSpineMesssage([]byte) (*model.MsgCounterType, error)
		})}
	case 7: // Disconnect
		p := r.n()
		if pr := w.peers[p]; pr != nil && !pr.gone {
			w.local.RemoveRemoteDeviceConnection(Ski(p))
			pr.gone = true
		}
	case 8: // Inbound
		p := r.n()
		d := r.dgram()
		b, err := json.Marshal(model.Datagram{Datagram: d.datagram()})
		if err != nil {
			panic(err)
		}
		w.InjectRaw(p, b)
		w.settle(base)
	case 9: // AddRespCb
		f, ctr, cb := r.n(), r.n(), r.n()
		e := r.eaddr()
		fl := w.localFeature(e, f)
		if fl == nil {
			ret = append(ret, hx.Zs{6})
			break
		}
		err := fl.AddResponseCallback(model.MsgCounterType(ctr), w.callback(cb))
		w.nCbs++
		ret = append(ret, hx.Zs{4, b2i(err == nil)})
	case 10: // AddResultCb
		f, cb := r.n(), r.n()
		e := r.eaddr()
		fl := w.localFeature(e, f)
		if fl == nil {
			ret = append(ret, hx.Zs{6})
			break
		}
		fl.AddResultCallback(w.callback(cb))
		w.nCbs++
	case 15: // ParRegister: the same callback for the same counter from k goroutines released together
		f, ctr, cb, k := r.n(), r.n(), r.n(), r.n()
		e := r.eaddr()
		fl := w.localFeature(e, f)
		if fl == nil {
			for i := int64(0); i < k; i++ {
				ret = append(ret, hx.Zs{6})
			}
			break
		}
		fn := w.callback(cb)
		oks := make([]int64, k)
		var ready atomic.Int32
		var wg sync.WaitGroup
		for i := int64(0); i < k; i++ {
			wg.Add(1)
			go func(i int64) {
				defer wg.Done()
				// spinning start: all k calls enter AddResponseCallback within a few instructions of each other
				ready.Add(1)
				for j := 0; ready.Load() < int32(k); j++ {
					if j > 20000 {
						runtime.Gosched()
					}
				}
				oks[i] = b2i(fl.AddResponseCallback(model.MsgCounterType(ctr), fn) == nil)
			}(i)
		}
		wg.Wait()
		w.nCbs++
		stats["overlapping-registrations"]++
		// which of the calls was accepted is the schedule's business: accepted ones first
		for _, want := range []int64{1, 0} {
			for _, ok := range oks {
				if ok == want {
					ret = append(ret, hx.Zs{4, ok})
				}
			}
		}
	case 14: // RemoveLocalEntity (never the device information entity; an address is not reused afterwards)
		e := r.eaddr()
		if ent := w.ents[ekey(e)]; ent != nil && !w.removed[ekey(e)] && !(len(e) == 1 && e[0] == 0) {
			w.local.RemoveEntity(ent)
			w.removed[ekey(e)] = true
		}
	case 13: // SeqArrive: arrivals back to back, the callbacks they start are not waited for in between
		n := r.n()
		for i := int64(0); i < n; i++ {
			p := r.n()
			l := r.n()
			sub := &rd{z: r.z[r.i:min(len(r.z), r.i+int(l))]}
			r.i += int(l)
			d := sub.dgram()
			b, err := json.Marshal(model.Datagram{Datagram: d.datagram()})
			if err != nil {
				panic(err)
			}
			w.InjectRaw(p, b)
			stats["back-to-back-arrivals"]++
		}
		w.settle(base)
		stats["back-to-back-operations"]++
		var out []hx.Zs
		for _, o := range w.drain() {
			if len(o) > 0 && (o[0] == 3 || o[0] == 97) {
				out = append(out, o)
				if o[0] == 3 {
					stats["callback-invocations"]++
				}
			}
		}
		return out
	case 12: // ParArrive: overlapping arrivals of one datagram on several connections, racing with a registration
		late, pf := r.n(), r.n()
		ps := r.eaddr()
		d := r.dgram()
		b, err := json.Marshal(model.Datagram{Datagram: d.datagram()})
		if err != nil {
			panic(err)
		}
		var live []int64
		for _, p := range ps {
			if pr := w.peers[p]; pr != nil && !pr.gone {
				live = append(live, p)
			}
		}
		var fl api.FeatureLocalInterface
		doReg := late != 0 && d.Ref != 0 && d.Dst.Feat != 0
		if doReg {
			fl = w.localFeature(d.Dst.Ent, d.Dst.Feat-1)
			if fl == nil {
				ret = append(ret, hx.Zs{6})
				doReg = false
			}
		}
		total := int32(len(live))
		if doReg {
			total++
			w.nCbs++
		}
		// released together: every goroutine announces itself and spins until all are there
		var ready atomic.Int32
		barrier := func() {
			ready.Add(1)
			for i := 0; ready.Load() < total; i++ {
				if i > 2000 {
					runtime.Gosched()
				}
			}
		}
		var wg sync.WaitGroup
		for _, p := range live {
			wg.Add(1)
			go func(p int64) {
				defer wg.Done()
				barrier()
				w.InjectRaw(p, b)
			}(p)
		}
		var regOK int64
		if doReg {
			wg.Add(1)
			cb := w.callback(late - 1)
			go func() {
				defer wg.Done()
				barrier()
				regOK = b2i(fl.AddResponseCallback(model.MsgCounterType(d.Ref-1), cb) == nil)
			}()
		}
		wg.Wait()
		if doReg {
			ret = append(ret, hx.Zs{4, regOK})
		}
		w.InjectRaw(pf, b)
		w.settle(base)
		stats["overlapping-operations"]++
		if len(live) >= 2 {
			stats["overlapping-operations:with-2+-live-arrivals"]++
		}
		if doReg {
			stats["overlapping-operations:with-racing-registration"]++
		}
		stats["overlapping-arrivals"] += len(live)
		var out []hx.Zs
		for _, o := range w.drain() {
			switch {
			case len(o) > 4 && o[0] == 3:
				o[4] = 0 // which arrival won is the schedule's business
				out = append(out, o)
				stats["callback-invocations"]++
			case len(o) > 0 && o[0] == 97:
				out = append(out, o)
			}
		}
		return append(out, ret...)
	case 11: // QFactory
		t := r.n()
		ft := FeatureType(t)
		known := 0
		for fn := int64(1); fn <= NFns; fn++ {
			if registered(ft, Fns[fn]) {
				ret = append(ret, hx.Zs{5, fn})
				known++
			}
		}
		if t != 4 {
			ret = append(ret, hx.Zs{5, int64(1000 + len(spine.CreateFunctionData[api.FunctionDataCmdInterface](ft)) - known)})
		}
	}
	out := w.drain()
	account(op, out)
	return append(out, ret...)
}

// ---- measured distribution of what the implementation did (for the evidence)

var stats = map[string]int{}

func account(op hx.Zs, out []hx.Zs) {
	if len(op) == 0 || op[0] != 8 {
		return
	}
	r := &rd{z: op, i: 2}
	d := r.dgram()
	cls := "result"
	if d.ResultPl {
		cls = "result-without-resultData"
	}
	if !d.Result && d.Pl.Kind == 10 {
		stats["datagram:resultData-under-another-classifier"]++
	}
	if !d.Result {
		cls = []string{"read", "reply", "notify", "write", "call"}[d.Cls]
	}
	stats["datagram:"+cls]++
	stats[fmt.Sprintf("datagram:function-element-%d", d.Fct)]++
	if !d.Result && d.Cls == 0 && d.Pl.Kind == 0 && d.Sel != 0 {
		stats["datagram:filtered-read"]++
	}
	if d.Ack {
		stats["datagram:ackRequest"]++
	} else if d.AckFalse {
		stats["datagram:ackRequest-false"]++
	}
	if d.Ref == 0 {
		stats["datagram:without-reference"]++
	}
	var replies, oks, errs, invs int
	for _, o := range out {
		switch {
		case len(o) > 0 && o[0] == 1:
			replies++
		case len(o) > 3 && o[0] == 2 && o[3] == 0:
			oks++
		case len(o) > 3 && o[0] == 2:
			errs++
			stats[fmt.Sprintf("error-number:%d", o[3])]++
		case len(o) > 0 && o[0] == 3:
			invs++
		}
	}
	stats["responses:reply"] += replies
	stats["responses:result-success"] += oks
	stats["responses:result-error"] += errs
	stats["callback-invocations"] += invs
	if replies+oks+errs == 0 {
		stats["datagrams-without-response"]++
	}
	if replies+oks+errs > 1 {
		stats["datagrams-with-two-responses"]++
	}
	if invs > 0 {
		stats["datagrams-invoking-callbacks"]++
	}
}

// Stats returns the distribution measured on the implementation side since start-up
// (including the executions the shrinker repeats).
func Stats() map[string]int { return stats }

// registered: does the function factory create function data for this function on this feature type?
func registered(ft model.FeatureTypeType, fct model.FunctionType) bool {
	for _, fd := range spine.CreateFunctionData[api.FunctionDataCmdInterface](ft) {
		if fd.FunctionType() == fct {
			return true
		}
	}
	return false
}

// Canon sorts the callback invocations (they run in goroutines) and puts them last.
func Canon(op hx.Zs, obs []hx.Zs) []hx.Zs {
	var rest, inv []hx.Zs
	for _, o := range obs {
		if len(o) > 0 && o[0] == 3 {
			inv = append(inv, o)
		} else {
			rest = append(rest, o)
		}
	}
	for i := 1; i < len(inv); i++ {
		for j := i; j > 0 && lessZs(inv[j], inv[j-1]); j-- {
			inv[j], inv[j-1] = inv[j-1], inv[j]
		}
	}
	return append(rest, inv...)
}

func lessZs(a, b hx.Zs) bool {
	for i := 0; i < len(a) && i < len(b); i++ {
		if a[i] != b[i] {
			return a[i] < b[i]
		}
	}
	return len(a) < len(b)
}
