// Package hx is the shared correspondence/oracle framework (DESIGN.md 2.2b, 2.3).
//
// A property runner supplies a generator of operation histories and an
// implementation executor; hx executes every history on the real code, pipes the
// same operations together with the implementation's observations through the
// extracted Coq model + monitor (ocaml/driver), and classifies each history:
//
//	agree        implementation == model, monitor accepts the implementation trace
//	known        monitor rejects only excused clauses AND implementation == model
//	violation    monitor rejects a non-excused clause on the implementation trace
//	disagree     implementation != model (correspondence broken); the oracle verdict
//	             decides whether a concrete failing input exists
//
// Everything random derives from one seed. Results go to a JSON file which
// bin/check turns into the evidence file and the VIOLATION / KNOWN-FINDING lines.
package hx

import (
	"bufio"
	"crypto/sha256"
	"encoding/hex"
	"encoding/json"
	"flag"
	"fmt"
	"io"
	"os"
	"os/exec"
	"path/filepath"
	"sort"
	"strconv"
	"strings"
	"time"
)

// Zs is one operation or one observation in the integer wire encoding.
type Zs []int64

func (z Zs) String() string {
	parts := make([]string, len(z))
	for i, v := range z {
		parts[i] = strconv.FormatInt(v, 10)
	}
	return strings.Join(parts, " ")
}

func obsString(o []Zs) string {
	parts := make([]string, len(o))
	for i, v := range o {
		parts[i] = v.String()
	}
	return strings.Join(parts, " | ")
}

// ---------------------------------------------------------------- PRNG

// Rng is splitmix64; every random choice of a run derives from one of these.
type Rng struct{ s uint64 }

func NewRng(seed uint64) *Rng { return &Rng{s: seed*0x9E3779B97F4A7C15 + 0x1234567} }

func (r *Rng) U64() uint64 {
	r.s += 0x9E3779B97F4A7C15
	z := r.s
	z = (z ^ (z >> 30)) * 0xBF58476D1CE4E5B9
	z = (z ^ (z >> 27)) * 0x94D049BB133111EB
	return z ^ (z >> 31)
}

// Intn returns a value in [0,n).
func (r *Rng) Intn(n int) int {
	if n <= 0 {
		return 0
	}
	return int(r.U64() % uint64(n))
}

// Range returns a value in [lo,hi].
func (r *Rng) Range(lo, hi int) int { return lo + r.Intn(hi-lo+1) }

func (r *Rng) Bool() bool { return r.U64()&1 == 1 }

// Chance is true with probability num/den.
func (r *Rng) Chance(num, den int) bool { return r.Intn(den) < num }

// Pick returns a weighted index.
func (r *Rng) Pick(weights ...int) int {
	t := 0
	for _, w := range weights {
		t += w
	}
	x := r.Intn(t)
	for i, w := range weights {
		if x < w {
			return i
		}
		x -= w
	}
	return len(weights) - 1
}

func (r *Rng) Fork() *Rng { return NewRng(r.U64()) }

// ---------------------------------------------------------------- driver client

type Reply struct {
	Model   []Zs
	VImpl   []int64
	VModel  []int64
	Excused []int64
}

type Driver struct {
	cmd *exec.Cmd
	in  io.WriteCloser
	out *bufio.Reader
}

func StartDriver(path string) (*Driver, error) {
	cmd := exec.Command(path)
	in, err := cmd.StdinPipe()
	if err != nil {
		return nil, err
	}
	out, err := cmd.StdoutPipe()
	if err != nil {
		return nil, err
	}
	cmd.Stderr = os.Stderr
	if err := cmd.Start(); err != nil {
		return nil, err
	}
	return &Driver{cmd: cmd, in: in, out: bufio.NewReaderSize(out, 1<<20)}, nil
}

func (d *Driver) Close() {
	d.in.Close()
	d.cmd.Wait()
}

func (d *Driver) Reset() error {
	_, err := io.WriteString(d.in, "reset\n")
	return err
}

func parseInts(s string) ([]int64, error) {
	f := strings.Fields(s)
	out := make([]int64, 0, len(f))
	for _, w := range f {
		v, err := strconv.ParseInt(w, 10, 64)
		if err != nil {
			return nil, err
		}
		out = append(out, v)
	}
	return out, nil
}

func (d *Driver) Step(op Zs, obs []Zs) (Reply, error) {
	line := op.String() + " ; " + obsString(obs) + "\n"
	if _, err := io.WriteString(d.in, line); err != nil {
		return Reply{}, err
	}
	resp, err := d.out.ReadString('\n')
	if err != nil {
		return Reply{}, fmt.Errorf("driver closed: %w", err)
	}
	secs := strings.Split(strings.TrimRight(resp, "\n"), ";")
	if len(secs) != 4 {
		return Reply{}, fmt.Errorf("driver: malformed reply %q", resp)
	}
	var r Reply
	if strings.TrimSpace(secs[0]) != "" {
		for _, o := range strings.Split(secs[0], "|") {
			v, err := parseInts(o)
			if err != nil {
				return Reply{}, err
			}
			r.Model = append(r.Model, Zs(v))
		}
	}
	if r.VImpl, err = parseInts(secs[1]); err != nil {
		return Reply{}, err
	}
	if r.VModel, err = parseInts(secs[2]); err != nil {
		return Reply{}, err
	}
	if r.Excused, err = parseInts(secs[3]); err != nil {
		return Reply{}, err
	}
	return r, nil
}

// ---------------------------------------------------------------- runner

// Impl executes operations on the real implementation. A fresh Impl is created
// for every history (and for every shrink attempt).
type Impl interface {
	Exec(op Zs) []Zs
	Close()
}

type Config struct {
	Property string                                // "C13"
	Model    string                                // driver model name, "c13"
	Clauses  map[int64]string                      // clause id -> short name (also the known-finding class name)
	OpNames  map[int64]string                      // first int of an op -> name, for the distribution
	NewImpl  func() Impl                           // fresh implementation instance
	Gen      func(r *Rng, tier string, i int) []Zs // i-th history
	Count    map[string]int                        // histories per tier
	// Canon canonicalises one observation list before comparison (optional).
	Canon func(op Zs, obs []Zs) []Zs
	// Extra lets a runner add its own keys to the result (distribution details, coverage).
	Extra func() map[string]any
	// Fixed histories run before the generated ones (matrices, regression inputs).
	Fixed func(tier string) [][]Zs
	// Prepare is told the history about to be executed, before NewImpl (optional; every execution,
	// also those of the shrinker).
	Prepare func(h []Zs)
}

type StepRec struct {
	Op       Zs      `json:"op"`
	Impl     []Zs    `json:"impl"`
	Model    []Zs    `json:"model"`
	ModelRaw []Zs    `json:"model_raw,omitempty"`
	VImpl    []int64 `json:"v_impl,omitempty"`
	VModel   []int64 `json:"v_model,omitempty"`
	Excused  []int64 `json:"excused,omitempty"`
}

type Outcome struct {
	Kind     string    `json:"kind"` // agree | known | violation | disagree | model-violation
	Clauses  []string  `json:"clauses,omitempty"`
	At       int       `json:"at"` // index of the first offending step
	History  []Zs      `json:"history"`
	Trace    []StepRec `json:"trace,omitempty"`
	Source   string    `json:"source,omitempty"`
	OracleOK bool      `json:"oracle_ok"` // for disagree: the monitor accepted the implementation trace
}

type Result struct {
	Property      string             `json:"property"`
	Tier          string             `json:"tier"`
	Seed          uint64             `json:"seed"`
	Histories     int                `json:"histories"`
	Operations    int                `json:"operations"`
	Distinct      int                `json:"distinct_nontrivial"`
	OpDist        map[string]int     `json:"op_distribution"`
	LenDist       map[string]int     `json:"history_length_distribution"`
	Agree         int                `json:"agree"`
	Known         map[string]int     `json:"known_findings"`
	KnownWitness  map[string]Outcome `json:"known_witness,omitempty"`
	Violations    []Outcome          `json:"violations"`
	Disagreements []Outcome          `json:"disagreements"`
	Samples       []Outcome          `json:"samples"`
	CrossCheck    [][]StepRec        `json:"cross_check"`
	Extra         map[string]any     `json:"extra,omitempty"`
	WallS         float64            `json:"wall_s"`
	Error         string             `json:"error,omitempty"`
}

func eqZs(a, b Zs) bool {
	if len(a) != len(b) {
		return false
	}
	for i := range a {
		if a[i] != b[i] {
			return false
		}
	}
	return true
}

func eqObs(a, b []Zs) bool {
	if len(a) != len(b) {
		return false
	}
	for i := range a {
		if !eqZs(a[i], b[i]) {
			return false
		}
	}
	return true
}

func contains(l []int64, x int64) bool {
	for _, v := range l {
		if v == x {
			return true
		}
	}
	return false
}

type runner struct {
	cfg Config
	drv *Driver
}

func (r *runner) clauseNames(ids []int64) []string {
	var out []string
	for _, c := range ids {
		n, ok := r.cfg.Clauses[c]
		if !ok {
			n = fmt.Sprintf("clause-%d", c)
		}
		out = append(out, n)
	}
	sort.Strings(out)
	return out
}

// runOne executes one history on both sides and classifies it.
// opPatience is how long one operation (or Close) of the implementation may take before it is
// considered wedged; after the first wedge of a run later waits are kept short (global state of the
// implementation - the event bus, package-level mutexes - may stay blocked for the following histories).
var opPatience = 60 * time.Second

// guarded runs f on a goroutine of its own and reports whether it returned in time.  The waiting
// goroutine sleeps on a timer, so a deadlock of the implementation never makes the Go runtime abort the
// process ("all goroutines are asleep"); a wedged goroutine is abandoned.
func guarded(f func()) bool {
	done := make(chan struct{})
	go func() {
		defer close(done)
		f()
	}()
	t := time.NewTimer(opPatience)
	defer t.Stop()
	select {
	case <-done:
		return true
	case <-t.C:
		opPatience = 3 * time.Second
		return false
	}
}

func (r *runner) runOne(h []Zs, keepTrace bool) (Outcome, []StepRec, error) {
	var impl Impl
	if r.cfg.Prepare != nil {
		r.cfg.Prepare(h)
	}
	if !guarded(func() { impl = r.cfg.NewImpl() }) {
		return Outcome{Kind: "violation", Clauses: []string{"implementation-never-returned (set-up of a fresh instance)"}, At: 0, History: h}, nil, nil
	}
	defer guarded(func() { impl.Close() })
	if err := r.drv.Reset(); err != nil {
		return Outcome{}, nil, err
	}
	out := Outcome{Kind: "agree", At: -1, History: h, OracleOK: true}
	var trace []StepRec
	knownSet := map[int64]bool{}
	disagreeAt := -1
	for i, op := range h {
		var obs []Zs
		if !guarded(func() { obs = impl.Exec(op) }) {
			// the call into the implementation did not return: a wedge (deadlock, lock left held, ...)
			trace = append(trace, StepRec{Op: op, Impl: []Zs{{-1}}})
			out.Kind = "violation"
			out.At = i
			out.Clauses = []string{"implementation-never-returned"}
			out.OracleOK = false
			break
		}
		if r.cfg.Canon != nil {
			obs = r.cfg.Canon(op, obs)
		}
		rep, err := r.drv.Step(op, obs)
		if err != nil {
			return Outcome{}, nil, err
		}
		model := rep.Model
		var raw []Zs
		if r.cfg.Canon != nil {
			raw = rep.Model
			model = r.cfg.Canon(op, append([]Zs(nil), model...))
		}
		trace = append(trace, StepRec{Op: op, Impl: obs, Model: model, ModelRaw: raw, VImpl: rep.VImpl, VModel: rep.VModel, Excused: rep.Excused})
		// the model itself violating a non-excused clause contradicts the theorem: machinery error
		for _, c := range rep.VModel {
			if !contains(rep.Excused, c) && out.Kind != "violation" && out.Kind != "model-violation" {
				out.Kind = "model-violation"
				out.At = i
				out.Clauses = r.clauseNames(rep.VModel)
			}
		}
		var bad []int64
		for _, c := range rep.VImpl {
			if contains(rep.Excused, c) {
				knownSet[c] = true
			} else {
				bad = append(bad, c)
			}
		}
		if len(bad) > 0 && out.Kind != "violation" {
			out.Kind = "violation"
			out.At = i
			out.Clauses = r.clauseNames(bad)
			out.OracleOK = false
		}
		if !eqObs(obs, model) && disagreeAt < 0 {
			disagreeAt = i
		}
		if out.Kind == "violation" {
			break
		}
	}
	if out.Kind == "agree" || out.Kind == "known" {
		if disagreeAt >= 0 {
			out.Kind = "disagree"
			out.At = disagreeAt
		} else if len(knownSet) > 0 {
			out.Kind = "known"
			var ids []int64
			for c := range knownSet {
				ids = append(ids, c)
			}
			out.Clauses = r.clauseNames(ids)
		}
	}
	if out.Kind == "violation" && disagreeAt < 0 {
		// implementation == model up to the violation, yet the clause is not excused:
		// the theorem says this cannot happen for the model, so it is reported as is.
	}
	if keepTrace || out.Kind != "agree" {
		out.Trace = trace
	}
	return out, trace, nil
}

func sameFailure(a, b Outcome) bool {
	if a.Kind != b.Kind {
		return false
	}
	if a.Kind == "violation" || a.Kind == "known" {
		return strings.Join(a.Clauses, ",") == strings.Join(b.Clauses, ",")
	}
	return true
}

// shrink removes operations while the same kind of failure persists.
func (r *runner) shrink(o Outcome) Outcome {
	best := o
	h := append([]Zs(nil), o.History...)
	if o.At >= 0 && o.At+1 < len(h) {
		h = h[:o.At+1]
	}
	budget := 600
	deadline := time.Now().Add(25 * time.Second) // a wedged implementation makes every attempt slow
	try := func(cand []Zs) bool {
		if budget <= 0 || time.Now().After(deadline) {
			budget = 0
			return false
		}
		budget--
		res, _, err := r.runOne(cand, true)
		if err == nil && sameFailure(res, o) {
			if res.At >= 0 && res.At+1 < len(cand) {
				cand = cand[:res.At+1]
				res.History = cand
			}
			h = cand
			best = res
			return true
		}
		return false
	}
	for chunk := (len(h) + 1) / 2; chunk >= 1 && budget > 0; {
		progress := false
		for i := 0; i < len(h) && budget > 0; {
			end := i + chunk
			if end > len(h) {
				end = len(h)
			}
			cand := append(append([]Zs(nil), h[:i]...), h[end:]...)
			if len(cand) > 0 && try(cand) {
				progress = true
			} else {
				i += chunk
			}
		}
		if chunk == 1 && !progress {
			break
		}
		if !progress || chunk > len(h) {
			chunk = chunk / 2
		}
		if chunk < 1 && len(h) > 0 {
			break
		}
	}
	if len(best.Trace) == 0 {
		res, _, err := r.runOne(h, true)
		if err == nil {
			best = res
		}
	}
	best.Source = o.Source
	return best
}

func histKey(h []Zs) string {
	hs := sha256.New()
	for _, op := range h {
		io.WriteString(hs, op.String())
		io.WriteString(hs, "\n")
	}
	return hex.EncodeToString(hs.Sum(nil)[:12])
}

// LoadHistory reads a replay/corpus file: JSON with a "history" array of int arrays.
func LoadHistory(path string) ([]Zs, error) {
	b, err := os.ReadFile(path)
	if err != nil {
		return nil, err
	}
	var o struct {
		History []Zs `json:"history"`
	}
	if err := json.Unmarshal(b, &o); err != nil {
		return nil, err
	}
	return o.History, nil
}

func lenBucket(n int) string {
	switch {
	case n <= 5:
		return "1-5"
	case n <= 20:
		return "6-20"
	case n <= 60:
		return "21-60"
	case n <= 150:
		return "61-150"
	}
	return ">150"
}

// Main is the entry point of every property runner.
func Main(cfg Config) {
	tier := flag.String("tier", "quick", "quick|thorough")
	seed := flag.Uint64("seed", 1, "PRNG seed")
	outPath := flag.String("out", "", "result JSON path")
	driverPath := flag.String("driver", "", "path of ocaml/driver")
	corpusDir := flag.String("corpus", "", "directory of corpus histories (run first)")
	replay := flag.String("replay", "", "replay one recorded history and print the trace")
	count := flag.Int("count", 0, "override the number of generated histories")
	scale := flag.Int("scale", 1, "multiply the number of generated histories (used when the anchored source files changed)")
	flag.Parse()

	start := time.Now()
	drv, err := StartDriver(*driverPath)
	if err != nil {
		fmt.Fprintln(os.Stderr, "cannot start driver:", err)
		os.Exit(3)
	}
	defer drv.Close()
	r := &runner{cfg: cfg, drv: drv}

	if *replay != "" {
		h, err := LoadHistory(*replay)
		if err != nil {
			fmt.Fprintln(os.Stderr, err)
			os.Exit(3)
		}
		o, _, err := r.runOne(h, true)
		if err != nil {
			fmt.Fprintln(os.Stderr, err)
			os.Exit(3)
		}
		for i, s := range o.Trace {
			mark := ""
			if !eqObs(s.Impl, s.Model) {
				mark = "   <-- implementation differs from model"
			}
			fmt.Printf("%3d op=[%s]\n      impl =[%s]\n      model=[%s] verdict_impl=%v verdict_model=%v excused=%v%s\n",
				i, s.Op, obsString(s.Impl), obsString(s.Model), r.clauseNames(s.VImpl), r.clauseNames(s.VModel), s.Excused, mark)
		}
		fmt.Printf("outcome: %s %v at step %d\n", o.Kind, o.Clauses, o.At)
		if o.Kind == "agree" {
			os.Exit(0)
		}
		os.Exit(1)
	}

	res := Result{Property: cfg.Property, Tier: *tier, Seed: *seed, OpDist: map[string]int{}, LenDist: map[string]int{},
		Known: map[string]int{}, KnownWitness: map[string]Outcome{}, Violations: []Outcome{}, Disagreements: []Outcome{}, Samples: []Outcome{}}
	seen := map[string]bool{}
	rng := NewRng(*seed)

	type src struct {
		h    []Zs
		name string
	}
	var work []src
	if *corpusDir != "" {
		files, _ := filepath.Glob(filepath.Join(*corpusDir, "*.json"))
		sort.Strings(files)
		for _, f := range files {
			h, err := LoadHistory(f)
			if err != nil {
				res.Error = "corpus " + f + ": " + err.Error()
				continue
			}
			work = append(work, src{h, "corpus:" + filepath.Base(f)})
		}
	}
	if cfg.Fixed != nil {
		for i, h := range cfg.Fixed(*tier) {
			work = append(work, src{h, fmt.Sprintf("fixed:%d", i)})
		}
	}
	n := cfg.Count[*tier]
	if *count > 0 {
		n = *count
	}
	if *scale > 1 {
		n *= *scale
	}
	for i := 0; i < n; i++ {
		work = append(work, src{cfg.Gen(rng.Fork(), *tier, i), fmt.Sprintf("gen:%d", i)})
	}

	// Once the run has failed there is no point in collecting hundreds of further failing
	// histories (a broken implementation can make each of them slow): stop generating after
	// maxFailing failing histories or when the wall-clock budget of the tier is used up.
	// A disagreement whose trace the monitor accepts is not yet a failing input of the property:
	// keep searching for a concrete one (a later history may show the violation itself), but not
	// without bound.
	const maxViolating = 6
	const maxFailing = 60
	wallBudget := map[string]time.Duration{"quick": 6 * time.Minute, "thorough": 100 * time.Minute}[*tier]
	if wallBudget == 0 {
		wallBudget = 6 * time.Minute
	}
	stopped := ""
	for _, w := range work {
		if len(res.Violations) >= maxViolating || len(res.Violations)+len(res.Disagreements) >= maxFailing {
			stopped = fmt.Sprintf("stopped after %d violating and %d disagreeing histories", len(res.Violations), len(res.Disagreements))
			break
		}
		if time.Since(start) > wallBudget {
			stopped = fmt.Sprintf("wall-clock budget of the %s tier (%s) used up after %d of %d histories", *tier, wallBudget, res.Histories, len(work))
			break
		}
		if *outPath != "" {
			// left behind if the process dies (a fatal runtime error of the implementation cannot be
			// recovered): bin/check then reports the history that was running
			if b, err := json.Marshal(map[string]any{"source": w.name, "history": w.h}); err == nil {
				_ = os.WriteFile(*outPath+".running", b, 0o644)
			}
		}
		o, trace, err := r.runOne(w.h, false)
		if err != nil {
			res.Error = err.Error()
			break
		}
		o.Source = w.name
		res.Histories++
		res.Operations += len(w.h)
		res.LenDist[lenBucket(len(w.h))]++
		for _, op := range w.h {
			name := "?"
			if len(op) > 0 {
				if nme, ok := cfg.OpNames[op[0]]; ok {
					name = nme
				} else {
					name = fmt.Sprintf("op%d", op[0])
				}
			}
			res.OpDist[name]++
		}
		k := histKey(w.h)
		if !seen[k] && len(w.h) >= 2 {
			seen[k] = true
			res.Distinct++
		}
		switch o.Kind {
		case "agree":
			res.Agree++
			if len(res.Samples) < 3 && len(w.h) <= 12 {
				o.Trace = trace
				res.Samples = append(res.Samples, o)
			}
			if len(res.CrossCheck) < 25 && len(w.h) <= 80 {
				res.CrossCheck = append(res.CrossCheck, trace)
			}
		case "known":
			for _, c := range o.Clauses {
				res.Known[c]++
				if _, ok := res.KnownWitness[c]; !ok {
					res.KnownWitness[c] = r.shrink(o)
				}
			}
			if len(res.CrossCheck) < 25 && len(w.h) <= 80 {
				res.CrossCheck = append(res.CrossCheck, trace)
			}
		case "violation", "model-violation":
			if len(res.Violations) < 5 {
				res.Violations = append(res.Violations, r.shrink(o))
			} else {
				res.Violations = append(res.Violations, Outcome{Kind: o.Kind, Clauses: o.Clauses, At: o.At, Source: o.Source, History: nil})
			}
		case "disagree":
			if len(res.Disagreements) < 5 {
				res.Disagreements = append(res.Disagreements, r.shrink(o))
			} else {
				res.Disagreements = append(res.Disagreements, Outcome{Kind: o.Kind, At: o.At, Source: o.Source, OracleOK: o.OracleOK})
			}
		}
	}
	if cfg.Extra != nil {
		res.Extra = cfg.Extra()
	}
	if stopped != "" {
		if res.Extra == nil {
			res.Extra = map[string]any{}
		}
		res.Extra["stopped_early"] = stopped
	}
	if *outPath != "" {
		_ = os.Remove(*outPath + ".running")
	}
	res.WallS = time.Since(start).Seconds()
	b, _ := json.MarshalIndent(res, "", " ")
	if *outPath == "" {
		os.Stdout.Write(b)
	} else if err := os.WriteFile(*outPath, b, 0o644); err != nil {
		fmt.Fprintln(os.Stderr, err)
		os.Exit(3)
	}
	fmt.Fprintf(os.Stderr, "%s %s: %d histories, %d ops, agree=%d known=%v violations=%d disagreements=%d (%.1fs)\n",
		cfg.Property, *tier, res.Histories, res.Operations, res.Agree, res.Known, len(res.Violations), len(res.Disagreements), res.WallS)
	if res.Error != "" {
		fmt.Fprintln(os.Stderr, "error:", res.Error)
		os.Exit(3)
	}
}
