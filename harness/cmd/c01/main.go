// C01 runner: the inbound dispatcher of the real stack (DeviceLocal.ProcessCmd,
// FeatureLocal.HandleMessage, NodeManagement.HandleMessage, Sender.Reply / result)
// against coq/Model/Dispatch.v, judged by the extracted monitor coq/Spec/ResponseSpec.v.
//
// Fixed histories (every run): the factory table query and the full matrix
// classifier x function x ack x destination known/unknown x role x source announced/not
// (harness/dispatch.Matrix).  Generated histories: random worlds with 2-3 peers using
// the same entity / feature numbers and message counters, typical subscriptions and
// bindings, random datagrams, data changes, reconnects, partial discovery notifications.
package main

import (
	"fmt"

	"verifharness/dispatch"
	"verifharness/hx"
)

type impl struct{ w *dispatch.World }

func (m *impl) Exec(op hx.Zs) []hx.Zs { return m.w.Exec(op) }
func (m *impl) Close()                { m.w.Close() }

var matrixOps, matrixDatagrams int
var clsDist = map[string]int{}

func count(h []hx.Zs) {
	for _, op := range h {
		if len(op) > 0 && op[0] == 8 {
			matrixDatagrams++
		}
	}
	matrixOps += len(h)
}

func main() {
	hx.Main(hx.Config{
		Property: "C01",
		Clauses: map[int64]string{1: "responses-not-exactly-the-prescribed-ones", 2: "response-to-another-peer", 3: "wrong-reference",
			4: "wrong-destination", 5: "wrong-source", 6: "result-in-answer-to-a-result", 7: "response-without-request",
			98: "unparseable-observation", 99: "unparseable-operation"},
		OpNames: map[int64]string{1: "add-entity", 2: "add-feature", 3: "add-function", 4: "set-data", 5: "get-data", 6: "connect",
			7: "disconnect", 8: "inbound-datagram", 9: "add-response-callback", 10: "add-result-callback", 11: "factory-query", 12: "overlapping-arrivals", 13: "back-to-back-arrivals", 14: "remove-entity", 15: "overlapping-registrations"},
		NewImpl: func() hx.Impl { return &impl{w: dispatch.New()} },
		Gen: func(r *hx.Rng, tier string, i int) []hx.Zs {
			cb := 0
			if i%4 == 3 {
				cb = 6
			}
			return dispatch.Random(r, tier, cb)
		},
		Fixed: func(tier string) [][]hx.Zs {
			m := dispatch.Matrix(tier)
			for _, h := range m {
				count(h)
			}
			return m
		},
		Count: map[string]int{"quick": 1000, "thorough": 20000},
		Canon: dispatch.Canon,
		Extra: func() map[string]any {
			return map[string]any{
				"implementation_side_distribution": dispatch.Stats(),
				"matrix":                           fmt.Sprintf("%d fixed histories, %d operations, %d datagrams: 6 classifiers x every function of the type (+1 foreign) x ackRequest absent/true/false x destination known/unknown x source announced/not x function element x read restriction, for 5 feature types x 3 roles and node management; 2 histories with nested local entities (child before / without its parent, same-numbered features, removal of parent then child)", 19, matrixOps, matrixDatagrams),
			}
		},
	})
}
