// C16 runner: the real spine.HeartbeatManager of a local entity on a real spine.DeviceLocal with a
// discovered peer that can subscribe to the DeviceDiagnosis server feature, against the model
// coq/Model/Heartbeat.v.
//
// Every API call (IsHeartbeatRunning, StopHeartbeat, StartHeartbeat, AddFunctionType(heartbeat),
// DeviceLocal.RemoveEntity) runs in its own goroutine under a forced schedule: the hooks
// StopHeartbeat.checked (1) and StartHeartbeat.stopped (2) park it, `Call t c` starts it and reports
// where it got (parked / returned / blocked on stopMux, decided from the goroutine's wait state),
// `Resume t` lets it continue to the next hook or its return.  The heartbeat streams are goroutines of
// the code itself; the hooks Heartbeat.started / fired / refreshed / exited identify them, park them
// when their ticker fired (real time: the runner waits for it) and report every refresh.  `Tick g`
// lets stream g perform the loop iteration of a fired tick, `Run g k` lets it run k iterations
// unparked and measures the period.
//
// op encoding (parse_op in Heartbeat.v):
//
//	0 t      Setup: entity with heartbeat timeout t ms, t >= 100 (only as first operation; default 100); the data
//	         announces t truncated to a multiple of 100 ms and the ticker must follow the announced value
//	1 t c    Call t c  (c: 0 IsHeartbeatRunning, 1 StopHeartbeat, 2 StartHeartbeat,
//	                    3 AddFunctionType(heartbeat), 4 RemoveEntity)
//	2 t      Resume t
//	3 g      Tick g
//	4 g k    Run g k
//	5 / 6    the peer subscribes to / unsubscribes from the DeviceDiagnosis feature
//	8 m k n  Burst: k StartHeartbeat calls with nothing parked in between (m = 0: back to back from one goroutine
//	         under GOMAXPROCS(1); m = 1: k goroutines released together), then a free run of n refreshes
//	0 t w    Setup with a peer whose connection takes w ms per write
//	0 t w 1  Setup where, in addition, a peer whose connection has no outgoing side subscribed first
//	9 m k    First: on k fresh entities AddFunctionType(heartbeat) and the first other access (m = 0 IsHeartbeatRunning,
//	         1 HeartbeatManager(), 2 StartHeartbeat) released together; then run, stop, watch (obs 18 notrunning leaky)
//	7 [w]    DataCopy(heartbeat); with 1 (and after every stop) more than one period of real time passes first,
//	         with w >= 100 that many ms pass (the streams stay held at Heartbeat.fired meanwhile)
//
// obs encoding: 0 ready, 1 busy, 2 blocked, 3 not runnable, 4 h parked at hook h, 5 done, 6 b
// running, 7 StartHeartbeat error, 8 t waiter t acquired, 9 g stream g started, 10 c n fresh tmo
// refresh (counter, notifies to the peer, timestamp current, announced timeout ms), 11 stream exited,
// 12 p late timing (period ms snapped to the announced timeout or timeout-2s, gaps above timeout+tol),
// 13 site panic, 14 b subscribed, 15 [c] stored counter, 16 g live fast c nn mono after a burst: stream left over,
// 17 a call or a resumed stream got stuck;
// distinct streams that refreshed, the n refreshes came quicker than one stream produces them, last counter, notifies, counters increased.
package main

import (
	"encoding/json"
	"fmt"
	"os"
	"os/exec"
	"runtime"
	"sort"
	"strconv"
	"strings"
	"sync"
	"sync/atomic"
	"time"

	"github.com/enbility/spine-go/api"
	"github.com/enbility/spine-go/model"
	"github.com/enbility/spine-go/spine"
	"github.com/enbility/spine-go/util"

	"verifharness/hx"
)

// ---------------------------------------------------------------- connection recorder

type writer struct {
	mu    sync.Mutex
	msgs  [][]byte
	delay atomic.Int64 // ns per write: a peer behind a slow connection
}

func (w *writer) WriteShipMessageWithPayload(msg []byte) {
	if d := w.delay.Load(); d > 0 {
		time.Sleep(time.Duration(d))
	}
	w.mu.Lock()
	defer w.mu.Unlock()
	w.msgs = append(w.msgs, append([]byte(nil), msg...))
}

func (w *writer) take() [][]byte {
	w.mu.Lock()
	defer w.mu.Unlock()
	m := w.msgs
	w.msgs = nil
	return m
}

// ---------------------------------------------------------------- scheduling

type worker struct {
	tid     int64
	call    int64
	goid    int64
	run     func()
	started chan struct{}
	parked  chan int64
	resume  chan struct{}
	done    chan struct{}
	state   int // 1 waiting for the mutex, 2 parked at a hook, 3 done
	hook    int64
	// results
	retB    bool
	err     error
	panicS  string
	expect  bool // a successful return means a new stream was started
	counted bool // that stream was waited for
}

type refresh struct {
	counter int64 // -1: no data
	fresh   bool
	tmo     int64
	at      time.Time
}

type stream struct {
	id       int64
	goid     int64
	fired    chan time.Time // parked at Heartbeat.fired
	release  chan struct{}
	refr     chan refresh
	exited   chan struct{}
	pass     int // iterations that may run without parking (guarded by sched.mu)
	fireLog  []time.Time
	reported bool // exit reported to the model
	freePass bool // passed Heartbeat.fired on the free budget (guarded by sched.mu)
	parkedAt *time.Time
}

type sched struct {
	mu       sync.Mutex
	byGoid   map[int64]*worker
	streams  []*stream
	sByGoid  map[int64]*stream
	draining bool
	m        *impl
	free     int         // refreshes that any stream may still perform without parking (operation Burst)
	freeRefr []freeEvent // the refreshes of the current free run, in the order of the data lock
}

type freeEvent struct {
	st *stream
	r  refresh
}

func goid() int64 {
	var buf [64]byte
	n := runtime.Stack(buf[:], false)
	f := strings.Fields(string(buf[:n]))
	if len(f) < 2 {
		return -1
	}
	id, _ := strconv.ParseInt(f[1], 10, 64)
	return id
}

// unrepaired code only: streams started while no feature is known would dereference nil at their first
// refresh and kill the process; they are remembered globally and held in the fired hook for good.
var poisonOwner sync.Map // goroutine id -> *impl

func poisoned() bool {
	if o, ok := poisonOwner.Load(goid()); ok {
		return !o.(*impl).added.Load()
	}
	return false
}

func fallbackYield(point string) {
	if _, ok := auxGoids.Load(goid()); ok {
		return
	}
	if point == "Heartbeat.fired" && poisoned() {
		select {}
	}
}

// streams of the auxiliary fresh entities of operation First run freely and are not numbered
var auxMode atomic.Bool
var auxGoids sync.Map // goroutine id -> true
var auxStarted atomic.Int64

func (s *sched) yield(point string) {
	if strings.HasPrefix(point, "Heartbeat.") {
		id := goid()
		if point == "Heartbeat.started" && auxMode.Load() {
			auxGoids.Store(id, true)
			auxStarted.Add(1)
			return
		}
		if _, ok := auxGoids.Load(id); ok {
			if point == "Heartbeat.exited" {
				auxGoids.Delete(id)
			}
			return
		}
	}
	switch point {
	case "StopHeartbeat.checked", "StartHeartbeat.stopped":
		s.mu.Lock()
		w := s.byGoid[goid()]
		drain := s.draining
		s.mu.Unlock()
		if w == nil || drain {
			return
		}
		h := int64(1)
		if point == "StartHeartbeat.stopped" {
			h = 2
		}
		w.parked <- h
		<-w.resume
	case "Heartbeat.started":
		s.mu.Lock()
		st := &stream{id: int64(len(s.streams)), goid: goid(), fired: make(chan time.Time, 1), release: make(chan struct{}),
			refr: make(chan refresh, 64), exited: make(chan struct{})}
		s.streams = append(s.streams, st)
		s.sByGoid[st.goid] = st
		if s.m.nilPanics && !s.m.added.Load() {
			poisonOwner.Store(st.goid, s.m)
		}
		s.mu.Unlock()
	case "Heartbeat.fired":
		now := time.Now()
		s.mu.Lock()
		st := s.sByGoid[goid()]
		if st == nil {
			s.mu.Unlock()
			fallbackYield(point)
			return
		}
		if poisoned() {
			// unrepaired code: going on would dereference the nil feature and kill the process
			s.mu.Unlock()
			select {
			case st.fired <- now:
			default:
			}
			select {}
		}
		if s.draining {
			s.mu.Unlock()
			return
		}
		st.fireLog = append(st.fireLog, now)
		if st.pass > 0 {
			st.pass--
			s.mu.Unlock()
			return
		}
		if s.free > 0 {
			st.freePass = true
			s.mu.Unlock()
			return
		}
		s.mu.Unlock()
		st.fired <- now
		<-st.release
	case "Heartbeat.refreshed":
		s.mu.Lock()
		st := s.sByGoid[goid()]
		s.mu.Unlock()
		if st == nil {
			return
		}
		r := s.m.readData()
		s.mu.Lock()
		if st.freePass {
			st.freePass = false
			if s.free > 0 {
				s.free--
			}
			s.freeRefr = append(s.freeRefr, freeEvent{st, r})
			s.mu.Unlock()
			return
		}
		s.mu.Unlock()
		select {
		case st.refr <- r:
		default:
		}
	case "Heartbeat.exited":
		s.mu.Lock()
		st := s.sByGoid[goid()]
		s.mu.Unlock()
		if st != nil {
			close(st.exited)
		}
	}
}

func (s *sched) spawn(w *worker) {
	go func() {
		s.mu.Lock()
		w.goid = goid()
		s.byGoid[w.goid] = w
		s.mu.Unlock()
		close(w.started)
		defer close(w.done)
		defer func() {
			if r := recover(); r != nil {
				w.panicS = fmt.Sprint(r)
			}
		}()
		w.run()
	}()
	<-w.started
}

func waitState(id int64) string {
	buf := make([]byte, 1<<18)
	n := runtime.Stack(buf, true)
	key := fmt.Sprintf("goroutine %d [", id)
	txt := string(buf[:n])
	i := strings.Index(txt, key)
	if i < 0 {
		return ""
	}
	rest := txt[i+len(key):]
	j := strings.Index(rest, "]")
	if j < 0 {
		return ""
	}
	return rest[:j]
}

// settle waits until the worker is parked at a hook (2), has finished (3) or is blocked on a mutex (1).
func (s *sched) settle(w *worker) int {
	deadline := time.Now().Add(5 * time.Second)
	wait := 50 * time.Microsecond
	for {
		select {
		case h := <-w.parked:
			w.state, w.hook = 2, h
			return 2
		case <-w.done:
			w.state = 3
			return 3
		case <-time.After(wait):
		}
		st := waitState(w.goid)
		if strings.HasPrefix(st, "sync.Mutex.Lock") || strings.HasPrefix(st, "semacquire") || strings.HasPrefix(st, "sync.RWMutex") {
			select {
			case h := <-w.parked:
				w.state, w.hook = 2, h
				return 2
			case <-w.done:
				w.state = 3
				return 3
			default:
			}
			w.state = 1
			return 1
		}
		if wait < 2*time.Millisecond {
			wait *= 2
		}
		if time.Now().After(deadline) {
			return -1
		}
	}
}

// ---------------------------------------------------------------- implementation

const localDev = "local"
const peerDev = "peer0"
const peerSki = "ski-peer0"
const brokenDev = "peerB"
const brokenSki = "ski-peerB"
const defaultTmo = 100

type impl struct {
	configured bool
	tmo        int64 // ms
	dev        *spine.DeviceLocal
	ent        *spine.EntityLocal
	feat       api.FeatureLocalInterface
	w          *writer
	peer       api.DeviceRemoteInterface
	ctr        uint64
	sc         *sched
	threads    map[int64]*worker
	waiter     *worker
	added      atomic.Bool // AddFunctionType(heartbeat) was executed
	stopped    bool        // something was stopped since the last Read (then Read waits for a stray refresh)
	ids        []*stream   // model number -> stream
	adopted    int         // streams of the scheduler that have a model number
	auxSeq     int64       // fresh entities made by operation First
	brokenPeer bool        // a peer without outgoing side subscribes before the observed peer
	nilPanics  bool        // probe result: a stream without feature panics (unrepaired code)
}

var stats = struct {
	sync.Mutex
	gaps        map[int64][]int64 // announced timeout -> measured gaps (ms)
	refreshes   int
	realTimeRun int
	bursts      int
	firstUses   int
	brokenPeers int
	stuck       int
	probe       string
}{gaps: map[int64][]int64{}}

func tolOf(t int64) time.Duration { return time.Duration(60+t/4) * time.Millisecond }

func nmAddr(dev string) *model.FeatureAddressType {
	return &model.FeatureAddressType{Device: util.Ptr(model.AddressDeviceType(dev)), Entity: []model.AddressEntityType{0}, Feature: util.Ptr(model.AddressFeatureType(0))}
}

func peerFeature() *model.FeatureAddressType { return peerFeatureOf(peerDev) }

func peerFeatureOf(dev string) *model.FeatureAddressType {
	return &model.FeatureAddressType{Device: util.Ptr(model.AddressDeviceType(dev)), Entity: []model.AddressEntityType{1}, Feature: util.Ptr(model.AddressFeatureType(1))}
}

func (m *impl) send(classifier model.CmdClassifierType, ref *model.MsgCounterType, cmd model.CmdType) {
	m.sendAs(m.peer, peerDev, classifier, ref, cmd)
}

func (m *impl) sendAs(peer api.DeviceRemoteInterface, dev string, classifier model.CmdClassifierType, ref *model.MsgCounterType, cmd model.CmdType) {
	m.ctr++
	d := model.Datagram{Datagram: model.DatagramType{
		Header: model.HeaderType{
			SpecificationVersion: util.Ptr(model.SpecificationVersionType("1.3.0")),
			AddressSource:        nmAddr(dev),
			AddressDestination:   nmAddr(localDev),
			MsgCounter:           util.Ptr(model.MsgCounterType(m.ctr)),
			MsgCounterReference:  ref,
			CmdClassifier:        util.Ptr(classifier),
		},
		Payload: model.PayloadType{Cmd: []model.CmdType{cmd}},
	}}
	b, err := json.Marshal(d)
	if err != nil {
		panic(err)
	}
	_, _ = peer.HandleSpineMesssage(b)
}

// discovered: the peer answers the detailed discovery read with one entity [1] holding a DeviceDiagnosis client feature
func (m *impl) discovered(peer api.DeviceRemoteInterface, dev string, ref *model.MsgCounterType) {
	devAddr := util.Ptr(model.AddressDeviceType(dev))
	m.sendAs(peer, dev, model.CmdClassifierTypeReply, ref, model.CmdType{NodeManagementDetailedDiscoveryData: &model.NodeManagementDetailedDiscoveryDataType{
		SpecificationVersionList: &model.NodeManagementSpecificationVersionListType{SpecificationVersion: []model.SpecificationVersionDataType{"1.3.0"}},
		DeviceInformation: &model.NodeManagementDetailedDiscoveryDeviceInformationType{Description: &model.NetworkManagementDeviceDescriptionDataType{
			DeviceAddress: &model.DeviceAddressType{Device: devAddr},
			DeviceType:    util.Ptr(model.DeviceTypeTypeChargingStation),
		}},
		EntityInformation: []model.NodeManagementDetailedDiscoveryEntityInformationType{
			{Description: &model.NetworkManagementEntityDescriptionDataType{
				EntityAddress: &model.EntityAddressType{Device: devAddr, Entity: []model.AddressEntityType{0}},
				EntityType:    util.Ptr(model.EntityTypeTypeDeviceInformation),
			}},
			{Description: &model.NetworkManagementEntityDescriptionDataType{
				EntityAddress: &model.EntityAddressType{Device: devAddr, Entity: []model.AddressEntityType{1}},
				EntityType:    util.Ptr(model.EntityTypeTypeEVSE),
			}},
		},
		FeatureInformation: []model.NodeManagementDetailedDiscoveryFeatureInformationType{
			{Description: &model.NetworkManagementFeatureDescriptionDataType{
				FeatureAddress: nmAddr(dev),
				FeatureType:    util.Ptr(model.FeatureTypeTypeNodeManagement),
				Role:           util.Ptr(model.RoleTypeSpecial),
			}},
			{Description: &model.NetworkManagementFeatureDescriptionDataType{
				FeatureAddress: peerFeatureOf(dev),
				FeatureType:    util.Ptr(model.FeatureTypeTypeDeviceDiagnosis),
				Role:           util.Ptr(model.RoleTypeClient),
			}},
		},
	}})
}

func newImpl() hx.Impl {
	return &impl{w: &writer{}, threads: map[int64]*worker{}, nilPanics: probeNilFeature()}
}

func (m *impl) configure(t int64) {
	m.configured = true
	m.tmo = t
	m.sc = &sched{byGoid: map[int64]*worker{}, sByGoid: map[int64]*stream{}, m: m}
	m.dev = spine.NewDeviceLocal("brand", "model", "serial", "code", localDev, model.DeviceTypeTypeEnergyManagementSystem, model.NetworkManagementFeatureSetTypeSmart)
	m.ent = spine.NewEntityLocal(m.dev, model.EntityTypeTypeCEM, []model.AddressEntityType{1}, time.Duration(t)*time.Millisecond)
	m.dev.AddEntity(m.ent)
	m.feat = m.ent.GetOrAddFeature(model.FeatureTypeTypeDeviceDiagnosis, model.RoleTypeServer)
	rd := m.dev.SetupRemoteDevice(peerSki, m.w)
	m.peer = rd.(api.DeviceRemoteInterface)
	var ref *model.MsgCounterType
	for _, b := range m.w.take() {
		var d model.Datagram
		if json.Unmarshal(b, &d) == nil && d.Datagram.Header.MsgCounter != nil {
			ref = d.Datagram.Header.MsgCounter
		}
	}
	m.discovered(m.peer, peerDev, ref)
	m.w.take()
	if m.brokenPeer {
		// a second peer whose connection has no outgoing side subscribes first: notifying it fails, the peer
		// that subscribes after it must still get every refresh
		rb := m.dev.SetupRemoteDevice(brokenSki, nil).(api.DeviceRemoteInterface)
		m.discovered(rb, brokenDev, util.Ptr(model.MsgCounterType(1)))
		m.sendAs(rb, brokenDev, model.CmdClassifierTypeCall, nil, model.CmdType{NodeManagementSubscriptionRequestCall: &model.NodeManagementSubscriptionRequestCallType{
			SubscriptionRequest: &model.SubscriptionManagementRequestCallType{ClientAddress: peerFeatureOf(brokenDev), ServerAddress: m.feat.Address(),
				ServerFeatureType: util.Ptr(model.FeatureTypeTypeDeviceDiagnosis)}}})
		stats.Lock()
		if len(m.dev.SubscriptionManager().SubscriptionsOnFeature(*m.feat.Address())) == 1 {
			stats.brokenPeers++
		}
		stats.Unlock()
	}
	spine.VerifSetYield(m.sc.yield)
}

func (m *impl) Close() {
	if !m.configured {
		return
	}
	m.sc.mu.Lock()
	m.sc.draining = true
	streams := append([]*stream(nil), m.sc.streams...)
	m.sc.mu.Unlock()
	// unrepaired code only: a StartHeartbeat without feature must not get to `go` any more, its stream would
	// dereference the nil feature once the hooks are gone
	poison := m.nilPanics && !m.added.Load()
	for _, w := range m.threads {
		if w.state == 2 && !(poison && w.call == 2) {
			w.resume <- struct{}{}
		}
	}
	for _, w := range m.threads {
		if (poison && w.call == 2 && w.state == 2) || w.state == 4 {
			continue
		}
		select {
		case <-w.done:
		case <-w.parked:
			w.resume <- struct{}{}
			select {
			case <-w.done:
			case <-w.parked:
				w.resume <- struct{}{}
				<-w.done
			case <-time.After(5 * time.Second):
				fmt.Fprintln(os.Stderr, "c16: goroutine did not finish")
			}
		case <-time.After(5 * time.Second):
			fmt.Fprintln(os.Stderr, "c16: goroutine did not finish")
		}
	}
	// streams started by calls that only returned now must have registered before the hooks change hands
	need := 0
	for _, w := range m.threads {
		select {
		case <-w.done:
			if w.expect && !w.counted && w.err == nil && w.panicS == "" {
				need++
			}
		default:
		}
	}
	n0 := len(streams)
	for deadline := time.Now().Add(2 * time.Second); need > 0 && m.streamCount() < n0+need && time.Now().Before(deadline); {
		time.Sleep(200 * time.Microsecond)
	}
	m.sc.mu.Lock()
	streams = append([]*stream(nil), m.sc.streams...)
	m.sc.mu.Unlock()
	stopDone := make(chan struct{})
	go func() {
		defer close(stopDone)
		defer func() { _ = recover() }()
		m.ent.HeartbeatManager().StopHeartbeat()
	}()
	select {
	case <-stopDone:
	case <-time.After(2 * time.Second): // stopMux is held by a call that is kept parked (unrepaired code only)
	}
	if m.nilPanics && !m.added.Load() {
		streams = nil // they stay parked for good
	}
	for _, st := range streams {
		select {
		case <-st.fired:
			st.release <- struct{}{}
		default:
		}
	}
	for _, st := range streams {
		select {
		case <-st.exited:
		case <-st.fired:
			st.release <- struct{}{}
			select {
			case <-st.exited:
			case <-time.After(time.Duration(m.tmo)*time.Millisecond + time.Second):
			}
		case <-time.After(time.Duration(m.tmo)*time.Millisecond + time.Second):
			// an unstoppable stream (possible on unrepaired code only) stays behind
		}
	}
	spine.VerifSetYield(fallbackYield)
	m.dev.RemoveRemoteDevice(peerSki)
}

// readData reads the stored heartbeat data.
func (m *impl) readData() refresh {
	r := refresh{counter: -1, at: time.Now()}
	d, err := spine.LocalFeatureDataCopyOfType[*model.DeviceDiagnosisHeartbeatDataType](m.feat, model.FunctionTypeDeviceDiagnosisHeartbeatData)
	if err != nil || d == nil {
		return r
	}
	if d.HeartbeatCounter != nil {
		r.counter = int64(*d.HeartbeatCounter)
	}
	if d.Timestamp != nil {
		if ts, err := d.Timestamp.GetDateTimeType().GetTime(); err == nil {
			dt := r.at.Sub(ts)
			r.fresh = dt > -1500*time.Millisecond && dt < 1500*time.Millisecond
		}
	}
	r.tmo = -1
	if d.HeartbeatTimeout != nil {
		if dd, err := d.HeartbeatTimeout.GetTimeDuration(); err == nil {
			r.tmo = dd.Milliseconds()
		}
	}
	return r
}

// notifiesFor counts the notify datagrams written to the peer that carry heartbeat counter c and
// drops everything recorded so far.
func (m *impl) notifies() map[int64]int64 {
	out := map[int64]int64{}
	for _, b := range m.w.take() {
		var d model.Datagram
		if json.Unmarshal(b, &d) != nil {
			continue
		}
		h := d.Datagram.Header
		if h.CmdClassifier == nil || *h.CmdClassifier != model.CmdClassifierTypeNotify {
			continue
		}
		for _, c := range d.Datagram.Payload.Cmd {
			if c.DeviceDiagnosisHeartbeatData != nil && c.DeviceDiagnosisHeartbeatData.HeartbeatCounter != nil &&
				h.AddressDestination != nil && h.AddressDestination.Feature != nil && *h.AddressDestination.Feature == 1 {
				out[int64(*c.DeviceDiagnosisHeartbeatData.HeartbeatCounter)]++
			}
		}
	}
	return out
}

func b2i(b bool) int64 {
	if b {
		return 1
	}
	return 0
}

func (m *impl) refreshObs(r refresh, n map[int64]int64) hx.Zs {
	if r.tmo > 0 {
		m.tmo = r.tmo // from here on the timeout is the one the data announces (the configured one may have more digits)
	}
	cnt := n[r.counter]
	for c, k := range n { // notifies for any other counter are reported as surplus
		if c != r.counter {
			cnt += 100 * k
		}
	}
	stats.Lock()
	stats.refreshes++
	stats.Unlock()
	return hx.Zs{10, r.counter, cnt, b2i(r.fresh), r.tmo}
}

func panicSite(s string) int64 {
	switch {
	case strings.Contains(s, "close of closed channel"):
		return 1
	case strings.Contains(s, "close of nil channel"):
		return 3
	case strings.Contains(s, "nil pointer"):
		return 2
	}
	return 9
}

// outcome of a worker that reached a hook, returned or blocked; then what the release of stopMux let happen
// a goroutine that waits for a mutex although no call is parked inside the critical section: wait whether it
// gets through after all (a stream may hold the data lock for the length of a slow write); if not it is stuck
var stuckPatience = 2 * time.Second

func (m *impl) holderParked(w *worker) bool {
	for _, o := range m.threads {
		if o != w && o.state == 2 {
			return true
		}
	}
	return false
}

func (m *impl) report(w *worker, st int, nBefore int) []hx.Zs {
	switch st {
	case 1:
		if !m.holderParked(w) {
			select {
			case h := <-w.parked:
				w.state, w.hook = 2, h
				return m.report(w, 2, nBefore)
			case <-w.done:
				w.state = 3
				return m.report(w, 3, nBefore)
			case <-time.After(stuckPatience):
			}
			stuckPatience = 300 * time.Millisecond
			w.state = 4
			stats.Lock()
			stats.stuck++
			stats.Unlock()
			return []hx.Zs{{17}}
		}
		m.waiter = w
		return []hx.Zs{{2}}
	case 2:
		return []hx.Zs{{4, w.hook}}
	case 3:
		var out []hx.Zs
		switch {
		case w.panicS != "":
			out = append(out, hx.Zs{13, panicSite(w.panicS)})
		case w.call == 0:
			out = append(out, hx.Zs{6, b2i(w.retB)})
		case w.call == 2 && w.err != nil:
			return []hx.Zs{{7}}
		default:
			// a new stream exists once `go updateHeartbeatData` ran
			if w.expect {
				w.counted = true
				deadline := time.Now().Add(2 * time.Second)
				for {
					m.sc.mu.Lock()
					n := len(m.sc.streams)
					m.sc.mu.Unlock()
					if n > nBefore {
						for _, g := range m.adopt(false) {
							out = append(out, hx.Zs{9, g})
						}
						break
					}
					if time.Now().After(deadline) {
						break
					}
					time.Sleep(200 * time.Microsecond)
				}
			}
			if w.call == 1 || w.call == 4 {
				m.stopped = true
			}
			out = append(out, hx.Zs{5})
		}
		if w == m.waiter {
			m.waiter = nil
		}
		// the mutex is free: the waiter acquires it
		if m.waiter != nil && m.waiter != w {
			wt := m.waiter
			n2 := m.streamCount()
			s2 := m.sc.settle(wt)
			if s2 == 1 { // the holder is through and the waiter still waits: for something else
				m.waiter = nil
				res := m.report(wt, 1, n2)
				if len(res) == 1 && len(res[0]) == 1 && res[0][0] == 17 {
					return append(out, res...)
				}
				return append(append(out, hx.Zs{8, wt.tid}), res...)
			}
			m.waiter = nil
			out = append(out, hx.Zs{8, wt.tid})
			out = append(out, m.report(wt, s2, n2)...)
		}
		return out
	}
	return []hx.Zs{{96}}
}

func (m *impl) streamCount() int {
	m.sc.mu.Lock()
	defer m.sc.mu.Unlock()
	return len(m.sc.streams)
}

func (m *impl) stream(g int64) *stream {
	if g < 0 || int(g) >= len(m.ids) {
		return nil
	}
	return m.ids[g]
}

func isExited(st *stream) bool {
	select {
	case <-st.exited:
		return true
	default:
		return false
	}
}

// adopt gives the streams that registered since the last call their model numbers: in the order of their
// registration, or (after a burst, where goroutines start in any order) the ones that have exited first.
func (m *impl) adopt(exitedFirst bool) []int64 {
	m.sc.mu.Lock()
	fresh := append([]*stream(nil), m.sc.streams[m.adopted:]...)
	m.adopted = len(m.sc.streams)
	m.sc.mu.Unlock()
	if exitedFirst {
		sort.SliceStable(fresh, func(i, j int) bool { return isExited(fresh[i]) && !isExited(fresh[j]) })
	}
	var ids []int64
	for _, st := range fresh {
		ids = append(ids, int64(len(m.ids)))
		m.ids = append(m.ids, st)
	}
	return ids
}

func (m *impl) subscribed() bool {
	for _, e := range m.dev.SubscriptionManager().SubscriptionsOnFeature(*m.feat.Address()) {
		if a := e.ClientFeature.Address(); a != nil && a.Device != nil && string(*a.Device) == peerDev {
			return true
		}
	}
	return false
}

func (m *impl) Exec(op hx.Zs) []hx.Zs {
	if len(op) == 0 {
		return []hx.Zs{{97}}
	}
	if op[0] == 0 {
		if len(op) < 2 || len(op) > 4 {
			return []hx.Zs{{97}}
		}
		if len(op) == 4 && op[3] != 0 && !m.configured {
			m.brokenPeer = true
		}
		if len(op) == 3 && op[2] > 0 && !m.configured {
			defer m.w.delay.Store(op[2] * int64(time.Millisecond)) // after the set-up traffic
		}
		if m.configured || op[1] < 100 {
			if !m.configured {
				m.configure(defaultTmo)
			}
			return []hx.Zs{{3}}
		}
		m.configure(op[1])
		return []hx.Zs{{0}}
	}
	if !m.configured {
		m.configure(defaultTmo)
	}
	period := time.Duration(m.tmo) * time.Millisecond
	switch op[0] {
	case 1: // Call t c
		if len(op) != 3 || op[2] < 0 || op[2] > 4 {
			return []hx.Zs{{97}}
		}
		t, c := op[1], op[2]
		if w := m.threads[t]; w != nil && w.state != 3 {
			return []hx.Zs{{1}}
		}
		if m.waiter != nil {
			return []hx.Zs{{3}}
		}
		w := &worker{tid: t, call: c, started: make(chan struct{}), parked: make(chan int64, 1), resume: make(chan struct{}), done: make(chan struct{})}
		switch c {
		case 0:
			w.run = func() { w.retB = m.ent.HeartbeatManager().IsHeartbeatRunning() }
		case 1:
			w.run = func() { m.ent.HeartbeatManager().StopHeartbeat() }
		case 2:
			w.run = func() { w.err = m.ent.HeartbeatManager().StartHeartbeat() }
		case 3:
			w.run = func() { m.feat.AddFunctionType(model.FunctionTypeDeviceDiagnosisHeartbeatData, true, false) }
		case 4:
			w.run = func() { m.dev.RemoveEntity(m.ent) }
		}
		w.expect = c == 2 || (c == 3 && !m.added.Load())
		m.threads[t] = w
		before := m.readData()
		m.notifies()
		n0 := m.streamCount()
		m.sc.spawn(w)
		st := m.sc.settle(w)
		var out []hx.Zs
		if c == 3 {
			// the refresh done by SetLocalFeature itself
			if after := m.readData(); after.counter != before.counter {
				out = append(out, m.refreshObs(after, m.notifies()))
			}
			m.added.Store(true)
		}
		return append(out, m.report(w, st, n0)...)
	case 2: // Resume t
		if len(op) != 2 {
			return []hx.Zs{{97}}
		}
		w := m.threads[op[1]]
		if w == nil || w.state != 2 {
			return []hx.Zs{{3}}
		}
		if w.hook == 1 {
			m.stopped = true
		}
		n0 := m.streamCount()
		w.resume <- struct{}{}
		return m.report(w, m.sc.settle(w), n0)
	case 3: // Tick g
		if len(op) != 2 {
			return []hx.Zs{{97}}
		}
		st := m.stream(op[1])
		if st == nil || st.reported {
			return []hx.Zs{{3}}
		}
		return m.tick(st, period)
	case 4: // Run g k
		if len(op) != 3 {
			return []hx.Zs{{97}}
		}
		k := int(op[2])
		st := m.stream(op[1])
		if k < 2 || k > 12 || st == nil || st.reported {
			return []hx.Zs{{3}}
		}
		return m.runK(st, k, period)
	case 5, 6:
		if op[0] == 5 {
			m.send(model.CmdClassifierTypeCall, nil, model.CmdType{NodeManagementSubscriptionRequestCall: &model.NodeManagementSubscriptionRequestCallType{
				SubscriptionRequest: &model.SubscriptionManagementRequestCallType{ClientAddress: peerFeature(), ServerAddress: m.feat.Address(),
					ServerFeatureType: util.Ptr(model.FeatureTypeTypeDeviceDiagnosis)}}})
		} else {
			m.send(model.CmdClassifierTypeCall, nil, model.CmdType{NodeManagementSubscriptionDeleteCall: &model.NodeManagementSubscriptionDeleteCallType{
				SubscriptionDelete: &model.SubscriptionManagementDeleteCallType{ClientAddress: peerFeature(), ServerAddress: m.feat.Address()}}})
		}
		m.w.take()
		return []hx.Zs{{14, b2i(m.subscribed())}}
	case 8: // Burst mode k n
		if len(op) != 4 {
			return []hx.Zs{{97}}
		}
		return m.burst(op[1], int(op[2]), int(op[3]), period)
	case 9: // First mode k
		if len(op) != 3 {
			return []hx.Zs{{97}}
		}
		return m.firstUse(op[1], int(op[2]))
	case 7:
		if len(op) > 1 && op[1] >= 100 {
			// that many ms pass with every stream held at Heartbeat.fired: the next Tick releases a tick that fired
			// long ago, its refresh must still carry the time of the refresh
			m.stopped = false
			time.Sleep(time.Duration(op[1]) * time.Millisecond)
		} else if m.stopped || len(op) > 1 {
			// a refresh of a stream that was not stopped properly would arrive within one period
			m.stopped = false
			// (the wait is a heuristic of the search, not part of the judgement: one ticker period, which the
			// code derives from the timeout; the thorough tier waits the whole announced timeout)
			wait := period
			if m.tmo > 2000 && !thoroughTier {
				wait -= 2 * time.Second
			}
			time.Sleep(wait + wait/4 + 20*time.Millisecond)
		}
		r := m.readData()
		if r.counter < 0 {
			return []hx.Zs{{15}}
		}
		return []hx.Zs{{15, r.counter}}
	}
	return []hx.Zs{{97}}
}

// firstUse: k fresh entities on this device; on each, AddFunctionType(heartbeat) and the first other access to the
// entity's heartbeat (mode 0 IsHeartbeatRunning, 1 HeartbeatManager(), 2 StartHeartbeat) are released together from
// a spinning start; nothing touched the entity's heartbeat before.  Then all heartbeats run for a period and a half,
// are stopped (even ones by StopHeartbeat, odd ones by RemoveEntity) and their data is watched for 3.5 periods.
func (m *impl) firstUse(mode int64, k int) []hx.Zs {
	if k < 1 {
		k = 1
	}
	if k > 128 {
		k = 128
	}
	const auxTmo = 100 * time.Millisecond
	type aux struct {
		ent  *spine.EntityLocal
		feat api.FeatureLocalInterface
		c1   int64
	}
	counterOf := func(f api.FeatureLocalInterface) int64 {
		d, err := spine.LocalFeatureDataCopyOfType[*model.DeviceDiagnosisHeartbeatDataType](f, model.FunctionTypeDeviceDiagnosisHeartbeatData)
		if err != nil || d == nil || d.HeartbeatCounter == nil {
			return -1
		}
		return int64(*d.HeartbeatCounter)
	}
	auxMode.Store(true)
	before := auxStarted.Load()
	auxs := make([]*aux, k)
	for i := range auxs {
		m.auxSeq++
		e := spine.NewEntityLocal(m.dev, model.EntityTypeTypeCEM, []model.AddressEntityType{model.AddressEntityType(1000 + m.auxSeq)}, auxTmo)
		m.dev.AddEntity(e)
		a := &aux{ent: e, feat: e.GetOrAddFeature(model.FeatureTypeTypeDeviceDiagnosis, model.RoleTypeServer)}
		auxs[i] = a
		var ready sync.WaitGroup
		var done sync.WaitGroup
		var gate atomic.Bool
		ready.Add(2)
		done.Add(2)
		go func() {
			defer done.Done()
			ready.Done()
			for !gate.Load() {
			}
			a.feat.AddFunctionType(model.FunctionTypeDeviceDiagnosisHeartbeatData, true, false)
		}()
		go func() {
			defer done.Done()
			ready.Done()
			for !gate.Load() {
			}
			switch mode {
			case 0:
				_ = a.ent.HeartbeatManager().IsHeartbeatRunning()
			case 1:
				_ = a.ent.HeartbeatManager()
			default:
				_ = a.ent.HeartbeatManager().StartHeartbeat()
			}
		}()
		ready.Wait()
		gate.Store(true)
		done.Wait()
	}
	// every AddFunctionType started a stream; let them register while they are still recognised as auxiliary
	for deadline := time.Now().Add(2 * time.Second); auxStarted.Load() < before+int64(k) && time.Now().Before(deadline); {
		time.Sleep(200 * time.Microsecond)
	}
	time.Sleep(auxTmo + auxTmo/2)
	var notRunning, leaky int64
	for i, a := range auxs {
		if !a.ent.HeartbeatManager().IsHeartbeatRunning() {
			notRunning++
		}
		if i%2 == 0 {
			a.ent.HeartbeatManager().StopHeartbeat()
		} else {
			m.dev.RemoveEntity(a.ent)
		}
		a.c1 = counterOf(a.feat)
	}
	time.Sleep(3*auxTmo + auxTmo/2)
	for i, a := range auxs {
		if counterOf(a.feat)-a.c1 > 1 { // one refresh may have been in flight
			leaky++
		}
		if i%2 == 0 {
			m.dev.RemoveEntity(a.ent)
		}
	}
	auxMode.Store(false)
	stats.Lock()
	stats.firstUses += k
	stats.Unlock()
	return []hx.Zs{{18, notRunning, leaky}}
}

// burst: k StartHeartbeat calls with nothing parked in between (mode 0: back to back from this goroutine with
// one P, so that none of the spawned goroutines runs before the last start returned; otherwise k goroutines
// released together), then every stream runs freely until n refreshes happened; reported: the stream left
// over, how many different streams refreshed, whether the n refreshes came quicker than one stream can
// produce them, the last counter, the notifies for these refreshes, whether the counters increased.
func (m *impl) burst(mode int64, k, n int, period time.Duration) []hx.Zs {
	if k < 2 || k > 8 || n < 2 || n > 12 {
		return []hx.Zs{{3}}
	}
	if m.waiter != nil {
		return []hx.Zs{{3}}
	}
	for _, w := range m.threads {
		if w.state == 2 {
			return []hx.Zs{{3}}
		}
	}
	if !m.added.Load() {
		if err := m.ent.HeartbeatManager().StartHeartbeat(); err != nil {
			return []hx.Zs{{7}}
		}
		return []hx.Zs{{96}} // a stream without feature (unrepaired code): not continued
	}
	m.adopt(false)
	m.notifies()
	n0 := m.streamCount()
	m.sc.mu.Lock()
	m.sc.free = n
	m.sc.freeRefr = nil
	m.sc.mu.Unlock()
	errs := make([]error, k)
	if mode == 0 {
		old := runtime.GOMAXPROCS(1)
		for i := 0; i < k; i++ {
			errs[i] = m.ent.HeartbeatManager().StartHeartbeat()
		}
		runtime.GOMAXPROCS(old)
	} else {
		gate := make(chan struct{})
		var wg sync.WaitGroup
		for i := 0; i < k; i++ {
			wg.Add(1)
			go func(i int) {
				defer wg.Done()
				<-gate
				errs[i] = m.ent.HeartbeatManager().StartHeartbeat()
			}(i)
		}
		close(gate)
		done := make(chan struct{})
		go func() { wg.Wait(); close(done) }()
		select {
		case <-done:
		case <-time.After(5 * time.Second):
			return []hx.Zs{{96}}
		}
	}
	m.stopped = true
	for deadline := time.Now().Add(2 * time.Second); m.streamCount() < n0+k && time.Now().Before(deadline); {
		time.Sleep(200 * time.Microsecond)
	}
	// the free run: n refreshes of one stream take n periods
	eff := period
	if m.tmo > 2000 {
		eff -= 2 * time.Second // heuristic of the search only: the ticker period the code derives from the timeout
	}
	deadline := time.Now().Add(time.Duration(n+2)*period + tolOf(m.tmo))
	var evs []freeEvent
	for {
		m.sc.mu.Lock()
		evs = append([]freeEvent(nil), m.sc.freeRefr...)
		m.sc.mu.Unlock()
		if len(evs) >= n || time.Now().After(deadline) {
			break
		}
		time.Sleep(time.Millisecond)
	}
	m.sc.mu.Lock()
	m.sc.free = 0
	m.sc.mu.Unlock()
	// the streams that were stopped by a later start have returned by now
	for deadline := time.Now().Add(100 * time.Millisecond); time.Now().Before(deadline); {
		alive := 0
		m.sc.mu.Lock()
		for _, st := range m.sc.streams[n0:] {
			if !isExited(st) {
				alive++
			}
		}
		m.sc.mu.Unlock()
		if alive <= 1 {
			break
		}
		time.Sleep(time.Millisecond)
	}
	ids := m.adopt(true)
	g := int64(-1)
	if len(ids) > 0 {
		g = ids[len(ids)-1]
	}
	distinct := map[*stream]bool{}
	mono := true
	last := int64(-1)
	counters := map[int64]bool{}
	for _, e := range evs {
		if e.r.tmo > 0 {
			m.tmo = e.r.tmo
		}
		distinct[e.st] = true
		if e.r.counter <= last {
			mono = false
		}
		last = e.r.counter
		counters[e.r.counter] = true
	}
	var nn int64
	for c, cnt := range m.notifies() {
		if counters[c] {
			nn += cnt
		} else {
			nn += 100 * cnt
		}
	}
	fast := false
	if len(evs) >= 2 {
		elapsed := evs[len(evs)-1].r.at.Sub(evs[0].r.at)
		fast = elapsed < time.Duration(len(evs)-1)*eff*6/10
	}
	stats.Lock()
	stats.bursts++
	stats.refreshes += len(evs)
	stats.Unlock()
	if last < 0 {
		last = 0
	}
	return []hx.Zs{{16, g, int64(len(distinct)), b2i(fast), last, nn, b2i(mono)}}
}

// tick: stream st parked at Heartbeat.fired (wait for its ticker, at most the announced timeout plus
// tolerance) runs one loop iteration.
func (m *impl) tick(st *stream, period time.Duration) []hx.Zs {
	select {
	case <-st.exited:
		st.reported = true
		return []hx.Zs{{11}}
	case <-st.fired:
	case <-time.After(period + tolOf(m.tmo)):
		return []hx.Zs{{3}}
	}
	if !m.added.Load() && m.nilPanics {
		// unrepaired code: the refresh dereferences the nil feature and the process dies; observed in a
		// child process (probeNilFeature), the stream stays parked in the hook
		st.reported = true
		return []hx.Zs{{13, 2}}
	}
	m.notifies()
	st.release <- struct{}{}
	select {
	case r := <-st.refr:
		return []hx.Zs{m.refreshObs(r, m.notifies())}
	case <-st.exited:
		st.reported = true
		return []hx.Zs{{11}}
	case <-time.After(streamPatience):
		// released at Heartbeat.fired, and neither a refresh nor the exit follows: it hangs on the data lock
		streamPatience = 500 * time.Millisecond
		st.reported = true
		stats.Lock()
		stats.stuck++
		stats.Unlock()
		return []hx.Zs{{17}}
	}
}

var streamPatience = 3 * time.Second

func (m *impl) runK(st *stream, k int, period time.Duration) []hx.Zs {
	select {
	case <-st.exited:
		st.reported = true
		return []hx.Zs{{11}}
	default:
	}
	if !m.added.Load() && m.nilPanics {
		st.reported = true
		return []hx.Zs{{13, 2}}
	}
	m.notifies()
	m.sc.mu.Lock()
	first := len(st.fireLog)
	stale := false
	select {
	case <-st.fired: // already parked: this fire is the first of the k
		stale = true
		first--
		st.pass = k - 1
		m.sc.mu.Unlock()
		st.release <- struct{}{}
	default:
		st.pass = k
		m.sc.mu.Unlock()
	}
	var out []hx.Zs
	var rs []refresh
	for i := 0; i < k; i++ {
		select {
		case r := <-st.refr:
			rs = append(rs, r)
		case <-st.exited:
			st.reported = true
			m.sc.mu.Lock()
			st.pass = 0
			m.sc.mu.Unlock()
			if i == 0 {
				return []hx.Zs{{11}}
			}
			return append(out, hx.Zs{11})
		case <-time.After(period + tolOf(m.tmo) + time.Second):
			m.sc.mu.Lock()
			st.pass = 0
			m.sc.mu.Unlock()
			return append(out, hx.Zs{3})
		}
	}
	n := m.notifies()
	for _, r := range rs {
		one := map[int64]int64{r.counter: n[r.counter]}
		delete(n, r.counter)
		out = append(out, m.refreshObs(r, one))
	}
	if len(n) > 0 {
		out = append(out, hx.Zs{95})
	}
	// timing: gaps between the k fires of this run; the first gap is dropped when the first fire was a stale one
	m.sc.mu.Lock()
	fires := append([]time.Time(nil), st.fireLog[first:]...)
	m.sc.mu.Unlock()
	if len(fires) > k {
		fires = fires[:k]
	}
	var gaps []int64
	for i := 1; i < len(fires); i++ {
		if i == 1 && stale {
			continue
		}
		gaps = append(gaps, fires[i].Sub(fires[i-1]).Milliseconds())
	}
	var late int64
	for _, g := range gaps {
		if time.Duration(g)*time.Millisecond > period+tolOf(m.tmo) {
			late++
		}
	}
	p := int64(-1)
	if len(gaps) > 0 {
		sorted := append([]int64(nil), gaps...)
		sort.Slice(sorted, func(i, j int) bool { return sorted[i] < sorted[j] })
		med := sorted[len(sorted)/2]
		p = med
		for _, cand := range []int64{m.tmo, m.tmo - 2000} {
			d := med - cand
			if d < 0 {
				d = -d
			}
			if cand > 0 && d <= 40+cand/5 {
				p = cand
				break
			}
		}
	}
	stats.Lock()
	stats.gaps[m.tmo] = append(stats.gaps[m.tmo], gaps...)
	stats.realTimeRun++
	stats.Unlock()
	return append(out, hx.Zs{12, p, late})
}

// ---------------------------------------------------------------- probe: StartHeartbeat without a feature

// On the unrepaired code StartHeartbeat starts a stream although no feature is known, and the first
// refresh dereferences nil in the stream's goroutine, which kills the process.  That cannot be observed
// in-process, so the runner asks a child process once and replays the answer (obs 13 2).
var probeOnce sync.Once
var probeResult bool

func probeNilFeature() bool {
	probeOnce.Do(func() {
		if os.Getenv("C16_PROBE") != "" {
			return
		}
		cmd := exec.Command(os.Args[0])
		cmd.Env = append(os.Environ(), "C16_PROBE=1")
		out, err := cmd.CombinedOutput()
		txt := string(out)
		switch {
		case err == nil && strings.Contains(txt, "probe: start refused"):
			stats.probe = "StartHeartbeat without feature returns an error"
		case err == nil && strings.Contains(txt, "probe: survived"):
			stats.probe = "StartHeartbeat without feature started a stream that survived a tick"
		case strings.Contains(txt, "nil pointer") || strings.Contains(txt, "panic"):
			probeResult = true
			stats.probe = "StartHeartbeat without feature: the stream panics at its first tick (nil feature)"
		default:
			stats.probe = "probe inconclusive: " + strings.TrimSpace(txt)
		}
	})
	return probeResult
}

func probeChild() {
	dev := spine.NewDeviceLocal("brand", "model", "serial", "code", localDev, model.DeviceTypeTypeEnergyManagementSystem, model.NetworkManagementFeatureSetTypeSmart)
	ent := spine.NewEntityLocal(dev, model.EntityTypeTypeCEM, []model.AddressEntityType{1}, 20*time.Millisecond)
	dev.AddEntity(ent)
	if err := ent.HeartbeatManager().StartHeartbeat(); err != nil {
		fmt.Println("probe: start refused")
		return
	}
	time.Sleep(200 * time.Millisecond)
	fmt.Println("probe: survived")
}

// ---------------------------------------------------------------- generator

// configured timeouts; 190, 195 and 290 ms are announced (and must run) as 100, 100 and 200 ms
var quickTmo = []int64{100, 100, 190, 200, 200, 195, 300, 400, 2100, 2100, 2200, 290, 2300}
var thoroughTmo = []int64{100, 100, 200, 200, 300, 400, 700, 1000, 2100, 2200, 2300, 2500, 3000, 4000, 150, 190, 199, 250, 290, 1250, 2010, 2050, 2090, 2190, 4050}

func pickTmo(r *hx.Rng, tier string) int64 {
	if tier == "thorough" {
		return thoroughTmo[r.Intn(len(thoroughTmo))]
	}
	return quickTmo[r.Intn(len(quickTmo))]
}

func call(t, c int64) hx.Zs { return hx.Zs{1, t, c} }
func resume(t int64) hx.Zs  { return hx.Zs{2, t} }

// a complete sequential call: enough resumes for every hook
func seq(t, c int64) []hx.Zs { return []hx.Zs{call(t, c), resume(t), resume(t)} }

var thoroughTier bool

func gen(r *hx.Rng, tier string, i int) []hx.Zs {
	thoroughTier = tier == "thorough"
	tm := pickTmo(r, tier)
	h := []hx.Zs{{0, tm}}
	streams := int64(0) // upper bound of the number of streams started so far
	tickSome := func(n int) {
		for ; n > 0; n-- {
			g := streams - 1
			if g < 0 || r.Chance(1, 6) {
				g = int64(r.Intn(int(streams) + 1))
			}
			h = append(h, hx.Zs{3, g})
		}
	}
	switch {
	case i%8 == 5: // rapid restarts with nothing parked in between, then the streams run freely
		tm = []int64{100, 100, 200, 2100}[r.Intn(4)]
		h = []hx.Zs{{0, tm}}
		if r.Chance(3, 4) {
			h = append(h, hx.Zs{5})
		}
		h = append(h, seq(0, 3)...)
		streams++
		if r.Bool() {
			h = append(h, hx.Zs{3, 0})
		}
		for b := r.Range(1, 2); b > 0; b-- {
			k := int64(r.Range(2, 4))
			mode := int64(r.Pick(2, 1))
			if mode == 1 {
				k = int64(r.Range(4, 8))
			}
			h = append(h, hx.Zs{8, mode, k, int64(r.Range(4, 6))})
			streams += k
			h = append(h, hx.Zs{3, streams - 1}, hx.Zs{3, streams - 2}, call(1, 0))
		}
		h = append(h, seq(1, int64(r.Pick(1, 1))*3+1)...)
		h = append(h, hx.Zs{3, streams - 1}, hx.Zs{7, 1}, hx.Zs{3, streams - 1}, call(0, 0))
		return h
	case i%12 == 10: // overlapped first use of fresh entities somewhere in an ordinary life
		h = []hx.Zs{{0, 100}}
		if r.Bool() {
			h = append(h, hx.Zs{5})
		}
		first := hx.Zs{9, int64(r.Intn(3)), int64(r.Range(24, 64))}
		if r.Bool() {
			h = append(h, first)
		}
		h = append(h, seq(0, 3)...)
		h = append(h, hx.Zs{3, 0}, first, hx.Zs{3, 0}, call(1, 0))
		h = append(h, seq(1, int64(r.Pick(1, 1))*3+1)...)
		h = append(h, hx.Zs{3, 0}, hx.Zs{7}, call(0, 0))
		return h
	case i%16 == 7: // the subscribed peer sits behind a slow connection: the period must not stretch
		tm = []int64{300, 400}[r.Intn(2)]
		h = []hx.Zs{{0, tm, tm * 2 / 3}, {5}}
		h = append(h, seq(0, 3)...)
		h = append(h, hx.Zs{4, 0, int64(r.Range(3, 4))}, hx.Zs{3, 0})
		h = append(h, seq(1, 1)...)
		h = append(h, hx.Zs{3, 0}, hx.Zs{7})
		return h
	}
	if r.Chance(1, 5) {
		h[0] = hx.Zs{0, tm, 0, 1} // a subscriber that cannot be notified is there first
	}
	if r.Chance(2, 3) {
		h = append(h, hx.Zs{5})
	}
	switch i % 4 {
	case 0: // life cycle, sequential
		if r.Chance(1, 4) {
			h = append(h, seq(0, 2)...) // StartHeartbeat before the feature exists
			streams++
			tickSome(1)
		}
		h = append(h, seq(0, 3)...)
		streams++
		for n := r.Range(3, 9); n > 0; n-- {
			switch r.Pick(30, 12, 12, 12, 6, 8, 8, 12) {
			case 0:
				if tier == "thorough" && r.Chance(1, 6) {
					h = append(h, hx.Zs{7, int64(r.Range(1800, 2600))}) // a tick released long after it fired
				}
				tickSome(r.Range(1, 2))
			case 1:
				h = append(h, call(0, 0))
			case 2:
				if r.Chance(1, 2) { // more than a period passes: the stream has taken its tick when the stop comes
					h = append(h, hx.Zs{7, 1})
				}
				h = append(h, seq(0, 1)...)
				tickSome(r.Range(1, 2))
			case 3:
				if r.Chance(1, 3) {
					h = append(h, hx.Zs{7, 1})
				}
				h = append(h, seq(0, 2)...)
				streams++
				if r.Chance(1, 2) {
					h = append(h, hx.Zs{3, streams - 2}, hx.Zs{3, streams - 1})
				}
			case 4:
				h = append(h, seq(0, 4)...)
				tickSome(1)
			case 5:
				h = append(h, hx.Zs{5 + int64(r.Intn(2))})
			case 6:
				h = append(h, seq(0, 3)...)
			case 7:
				h = append(h, hx.Zs{7})
			}
		}
		h = append(h, seq(0, int64(r.Pick(1, 1))*3+1)...) // Stop or RemoveEntity
		tickSome(2)
		h = append(h, hx.Zs{7}, call(0, 0))
	case 1: // real time: the stream runs unparked, the period is measured
		h = append(h, seq(0, 3)...)
		streams++
		k := int64(r.Range(3, 5))
		if tm-2000 > 600 || (tm <= 2000 && tm > 600) {
			k = 3
		}
		h = append(h, hx.Zs{4, 0, k})
		if r.Bool() {
			h = append(h, seq(0, 2)...)
			streams++
			h = append(h, hx.Zs{4, 1, 3}, hx.Zs{3, 0})
		}
		h = append(h, seq(1, int64(r.Pick(1, 1))*3+1)...)
		h = append(h, hx.Zs{7}, hx.Zs{3, streams - 1}, hx.Zs{4, streams - 1, 3}, call(0, 0))
	default: // goroutines under a random schedule
		k := int64(r.Range(2, 4))
		if r.Chance(3, 4) {
			h = append(h, seq(0, 3)...)
			streams++
		}
		for n := r.Range(8, 26); n > 0; n-- {
			t := int64(r.Intn(int(k)))
			switch r.Pick(38, 38, 12, 6, 6) {
			case 0:
				c := int64(r.Pick(14, 30, 30, 12, 8))
				h = append(h, call(t, c))
				if c == 2 || c == 3 {
					streams++
				}
			case 1:
				h = append(h, resume(t))
			case 2:
				tickSome(1)
			case 3:
				h = append(h, hx.Zs{7})
			case 4:
				h = append(h, hx.Zs{5 + int64(r.Intn(2))})
			}
		}
		for round := int64(0); round < 3; round++ {
			for t := int64(0); t < k; t++ {
				h = append(h, resume(t))
			}
		}
		h = append(h, call(0, 0))
		tickSome(2)
		h = append(h, seq(0, 1)...)
		tickSome(2)
		h = append(h, hx.Zs{7}, call(0, 0))
	}
	return h
}

func fixed(tier string) [][]hx.Zs {
	thoroughTier = tier == "thorough"
	add := seq(0, 3)
	cat := func(parts ...[]hx.Zs) []hx.Zs {
		var h []hx.Zs
		for _, p := range parts {
			h = append(h, p...)
		}
		return h
	}
	hs := [][]hx.Zs{
		// two stops pass the running check before either closes (pinned: close of closed channel)
		cat([]hx.Zs{{0, 100}, {5}}, add, []hx.Zs{call(1, 1), call(2, 1), resume(1), resume(2), {3, 0}, call(3, 0), {7}}),
		// two overlapping starts (pinned: the first stream's channel is overwritten, two streams, one unstoppable)
		cat([]hx.Zs{{0, 100}, {5}}, add, seq(1, 1), []hx.Zs{call(1, 2), call(2, 2), resume(1), resume(2), resume(2), resume(2),
			{3, 1}, {3, 1}, {3, 2}}, seq(3, 1), []hx.Zs{{3, 1}, {3, 1}, {3, 2}, {7}}),
		// start without a feature (pinned: the stream panics at its first tick)
		{{0, 100}, call(0, 2), resume(0), {3, 0}, call(0, 0)},
		// a tick that fired before the stop: the iteration must not refresh any more (pinned: it does, and select may even take a second one)
		cat([]hx.Zs{{0, 100}, {5}}, add, []hx.Zs{{3, 0}}, seq(1, 1), []hx.Zs{{3, 0}, {3, 0}, {7}}),
		// the ticker fired before the stop and again while the stream was held: one iteration was in flight; after it
		// select finds ticker and stop channel ready (pinned: it may refresh a second time; repeated, the choice is random)
		// ... and afterwards the heartbeat must be startable and refresh again (the exit of the stopped stream must
		// leave nothing locked)
		cat([]hx.Zs{{0, 100}, {5}}, add, []hx.Zs{call(1, 1), {7, 1}, resume(1), {7, 1}, {3, 0}, {3, 0}, {7}}, seq(3, 2), []hx.Zs{{3, 1}, {3, 1}, call(0, 0)}, seq(4, 3), seq(3, 1), []hx.Zs{{3, 1}, {7}}),
		cat([]hx.Zs{{0, 100}}, add, []hx.Zs{call(1, 1), {7, 1}, resume(1), {7, 1}, {3, 0}, {3, 0}, {7, 1}}, seq(3, 2), []hx.Zs{{3, 1}, {4, 1, 3}, call(0, 0)}),
		cat([]hx.Zs{{0, 100}, {5}}, add, []hx.Zs{call(2, 4), {7, 1}, resume(2), {7, 1}, {3, 0}, {3, 0}, {3, 0}, {7}}, seq(3, 2), []hx.Zs{{3, 1}, {3, 1}, call(0, 0)}),
		// a restart while the old stream is held after its tick fired: the new stream exists already when the old one exits
		cat([]hx.Zs{{0, 100}, {5}}, add, []hx.Zs{{3, 0}, call(1, 2), {7, 1}, resume(1), resume(1), {3, 0}, {3, 1}, {3, 1}, call(0, 0)}, seq(2, 1), []hx.Zs{{3, 1}, {7}}, seq(2, 2), []hx.Zs{{3, 2}}),
		// a stop parked after its check while a start replaces the stream (pinned: the stop then closes the new stream's channel)
		cat([]hx.Zs{{0, 100}, {5}}, add, []hx.Zs{call(1, 1), call(2, 2), resume(2), resume(2), resume(1), resume(2), resume(2), {3, 0}, {3, 1}, call(3, 0)}),
		// announced timeout above 2 s: the period is shortened by 2 s
		cat([]hx.Zs{{0, 2100}, {5}}, add, []hx.Zs{{4, 0, 4}}, seq(0, 1), []hx.Zs{{3, 0}, {7}}),
		// RemoveEntity stops the heartbeat; the peer's subscription stays registered, a later start refreshes and notifies again
		cat([]hx.Zs{{0, 200}, {5}}, add, []hx.Zs{{3, 0}}, seq(0, 4), []hx.Zs{{3, 0}, {7}, {5}}, seq(0, 2), []hx.Zs{{3, 1}, {3, 1}}, seq(0, 1), []hx.Zs{{3, 1}, {7}}),
	}
	hs = append(hs,
		// two and three starts back to back on one P (no spawned goroutine runs before the last start returned), then a free run
		cat([]hx.Zs{{0, 100}, {5}}, add, []hx.Zs{{8, 0, 2, 6}, {3, 2}, {3, 1}}, seq(1, 1), []hx.Zs{{3, 2}, {7, 1}, call(0, 0)}),
		cat([]hx.Zs{{0, 100}}, add, []hx.Zs{{3, 0}, {8, 0, 3, 6}, {3, 3}, {3, 0}, {8, 0, 2, 4}, {3, 5}}, seq(1, 4), []hx.Zs{{3, 5}, {7, 1}, call(0, 0)}),
		// the entity is removed, its heartbeat started again, the entity removed a second time: stopped again
		cat([]hx.Zs{{0, 100}, {5}}, add, seq(0, 4), []hx.Zs{{3, 0}}, seq(0, 2), []hx.Zs{{3, 1}}, seq(0, 4), []hx.Zs{{3, 1}, {7, 1}, call(0, 0)}),
		// eight goroutines start the heartbeat at the same moment
		cat([]hx.Zs{{0, 100}, {5}}, add, []hx.Zs{{8, 1, 8, 6}, {3, 8}, {8, 1, 8, 5}, {3, 16}}, seq(1, 1), []hx.Zs{{3, 16}, {7, 1}, call(0, 0)}),
		// a subscribed peer whose connection takes 2/3 of the timeout per write: the period must stay the ticker's
		cat([]hx.Zs{{0, 300, 200}, {5}}, add, []hx.Zs{{4, 0, 4}, {3, 0}}, seq(1, 1), []hx.Zs{{3, 0}, {7}}),
		cat([]hx.Zs{{0, 400, 260}, {5}}, add, []hx.Zs{{4, 0, 3}}, seq(1, 1), []hx.Zs{{3, 0}, {7}}),
	)
	hs = append(hs,
		// the stream is held for 2.5 s after its ticker fired (as if the refresh before had stalled on a blocked connection):
		// the refresh then carries the current time, not the time the tick fired; so does the one of the tick pending behind it
		cat([]hx.Zs{{0, 100}, {5}}, add, []hx.Zs{{3, 0}, {7, 2500}, {3, 0}, {3, 0}}, seq(1, 1), []hx.Zs{{3, 0}, {7}}),
	)
	hs = append(hs,
		// a peer that cannot be notified (no outgoing side) subscribed before the observed one: every refresh still reaches the latter
		cat([]hx.Zs{{0, 100, 0, 1}, {5}}, add, []hx.Zs{{3, 0}, {4, 0, 3}}, seq(1, 1), []hx.Zs{{3, 0}, {7}}),
		cat([]hx.Zs{{0, 200, 0, 1}}, add, []hx.Zs{{3, 0}, {5}, {3, 0}, {8, 0, 2, 4}, {6}, {3, 2}}, seq(1, 4), []hx.Zs{{3, 2}, {7}}),
	)
	hs = append(hs,
		// first use of fresh entities with two accesses released together (48 entities each), around ordinary use of this entity
		cat([]hx.Zs{{0, 100}, {5}, {9, 0, 48}}, add, []hx.Zs{{3, 0}}, seq(1, 1), []hx.Zs{{3, 0}, {7}}),
		cat([]hx.Zs{{0, 100}}, add, []hx.Zs{{9, 1, 48}, {3, 0}, call(1, 1), {9, 2, 32}, resume(1), {3, 0}, {7, 1}, call(0, 0)}),
		cat([]hx.Zs{{0, 200}, {5}, {9, 2, 48}}, add, []hx.Zs{{3, 0}, {9, 0, 48}}, seq(1, 4), []hx.Zs{{3, 0}, {7}}),
	)
	hs = append(hs,
		// configured timeouts with more digits than the announced text keeps: 190 ms and 295 ms are announced as 100 / 200 ms
		// and the stream must keep the announced period; 2.05 s is announced as 2 s, which is not above the threshold
		cat([]hx.Zs{{0, 190}, {5}}, add, []hx.Zs{{4, 0, 4}, {3, 0}}, seq(1, 1), []hx.Zs{{3, 0}, {7}}),
		cat([]hx.Zs{{0, 295}, {5}}, add, []hx.Zs{{3, 0}, {4, 0, 3}}, seq(1, 2), []hx.Zs{{4, 1, 3}}, seq(1, 4), []hx.Zs{{3, 1}, {7}}),
		cat([]hx.Zs{{0, 2050}}, add, []hx.Zs{{4, 0, 2}}, seq(1, 1), []hx.Zs{{3, 0}, call(0, 0)}),
	)
	if tier == "thorough" {
		for _, t := range []int64{2500, 4000, 1000} {
			hs = append(hs, cat([]hx.Zs{{0, t}, {5}}, add, []hx.Zs{{4, 0, 4}}, seq(0, 1), []hx.Zs{{3, 0}, {7}}))
		}
	}
	return hs
}

func extra() map[string]any {
	stats.Lock()
	defer stats.Unlock()
	gaps := map[string]any{}
	for t, g := range stats.gaps {
		if len(g) == 0 {
			continue
		}
		s := append([]int64(nil), g...)
		sort.Slice(s, func(i, j int) bool { return s[i] < s[j] })
		exp := t
		if t > 2000 {
			exp = t - 2000
		}
		gaps[fmt.Sprintf("timeout_%dms", t)] = map[string]any{"expected_period_ms": exp, "gaps": len(s), "min_ms": s[0], "median_ms": s[len(s)/2], "max_ms": s[len(s)-1],
			"tolerance_ms": tolOf(t).Milliseconds()}
	}
	return map[string]any{"measured_periods": gaps, "refreshes_observed": stats.refreshes, "real_time_runs": stats.realTimeRun, "bursts": stats.bursts, "histories_with_a_subscribed_peer_that_cannot_be_notified": stats.brokenPeers, "overlapped_first_uses_of_fresh_entities": stats.firstUses, "stuck_calls_or_streams": stats.stuck,
		"start_without_feature_probe": stats.probe,
		"runtime_parts":               "wall-clock period (measured per real-time run, tolerance 60 ms + timeout/4), timestamp within 1.5 s of the observation, select's choice (forced through the hooks) are measured, not proved"}
}

func main() {
	if os.Getenv("C16_PROBE") != "" {
		probeChild()
		return
	}
	hx.Main(hx.Config{
		Property: "C16",
		Clauses: map[int64]string{1: "panic", 2: "counter-not-increasing", 3: "refresh-not-notified-once", 4: "two-concurrent-streams",
			5: "refresh-after-stop", 6: "period-exceeds-timeout", 7: "stale-timestamp-or-timeout", 8: "running-flag-wrong",
			9: "data-changed-without-refresh", 10: "malformed-observation", 11: "call-or-stream-stuck", 98: "unparseable-observation", 99: "unparseable-operation"},
		OpNames: map[int64]string{0: "setup", 1: "call", 2: "resume", 3: "tick", 4: "run-real-time", 5: "subscribe", 6: "unsubscribe", 7: "read", 8: "burst-of-starts", 9: "first-use-overlap"},
		NewImpl: newImpl,
		Gen:     gen,
		Fixed:   fixed,
		Count:   map[string]int{"quick": 28, "thorough": 1100},
		Extra:   extra,
	})
}
