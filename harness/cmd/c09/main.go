// C09 runner: binding registry (exact grant / delete / listing, at most one binding per
// server feature), real stack vs coq/Model/C09Machine.v = Model/Stack.v (sequential
// histories, harness/stack) x Model/BindSched.v (two-step AddBinding under forced
// schedules through the yield hook "AddBinding.checked"), judged by Spec/C09Spec.v and
// Spec/BindSchedSpec.v.
package main

import (
	"encoding/json"
	"fmt"
	"runtime"
	"strconv"
	"strings"
	"sync"
	"sync/atomic"
	"time"

	"github.com/enbility/spine-go/model"
	"github.com/enbility/spine-go/spine"
	"github.com/enbility/spine-go/util"

	"verifharness/hx"
	"verifharness/stack"
)

// ---------------------------------------------------------------- forced scheduling

type worker struct {
	tid    int64
	parked chan struct{}
	resume chan struct{}
	done   chan struct{}
	state  int // 2 parked at the hook, 3 done
}

type sched struct {
	mu       sync.Mutex
	byGoid   map[int64]*worker
	draining bool
}

func goid() int64 {
	var buf [64]byte
	n := runtime.Stack(buf[:], false)
	f := strings.Fields(string(buf[:n]))
	if len(f) < 2 {
		return -1
	}
	id, _ := strconv.ParseInt(f[1], 10, 64)
	return id
}

func (s *sched) yield(point string) {
	if point != "AddBinding.checked" {
		return
	}
	s.mu.Lock()
	w := s.byGoid[goid()]
	drain := s.draining
	s.mu.Unlock()
	if w == nil || drain {
		return
	}
	w.parked <- struct{}{}
	<-w.resume
}

// ---------------------------------------------------------------- the fixed world of Model/BindSched.v

const nSchedPeers = 3

// local entity [1]: (type, role) of features 1..4; every peer: entity [1] features 1..4
var schedLocal = [][2]int64{{1, 1}, {2, 1}, {1, 0}, {4, 1}}
var schedRemote = [][2]int64{{1, 0}, {2, 0}, {1, 1}, {4, 0}}

type schedWorld struct {
	w       *stack.World
	sc      *sched
	threads map[int64]*worker
	ctr     int64
}

func newSchedWorld() *schedWorld {
	sw := &schedWorld{w: stack.New(), sc: &sched{byGoid: map[int64]*worker{}}, threads: map[int64]*worker{}}
	e := []int64{1}
	sw.w.Exec(stack.OpAddLocalEntity(e))
	for _, f := range schedLocal {
		sw.w.Exec(stack.OpAddLocalFeature(e, f[0], f[1]))
	}
	for p := int64(1); p <= nSchedPeers; p++ {
		m := stack.DiscMsg{Dev: p + 1, Ents: []stack.DiscEnt{{Addr: []int64{0}}, {Addr: e}}}
		m.Feats = append(m.Feats, stack.DiscFeat{Ent: []int64{0}, Id: 0, Type: 5, Role: 2})
		for i, f := range schedRemote {
			m.Feats = append(m.Feats, stack.DiscFeat{Ent: e, Id: int64(i + 1), Type: f[0], Role: f[1]})
		}
		sw.w.Exec(stack.OpConnect(p))
		sw.w.Exec(stack.OpDiscoveryReply(p, m))
	}
	spine.VerifSetYield(sw.sc.yield)
	stack.ChainYield = sw.sc.yield
	return sw
}

func (sw *schedWorld) close() {
	sw.sc.mu.Lock()
	sw.sc.draining = true
	sw.sc.mu.Unlock()
	for _, w := range sw.threads {
		if w.state == 2 {
			w.resume <- struct{}{}
			select {
			case <-w.done:
			case <-time.After(5 * time.Second):
			}
		}
	}
	spine.VerifSetYield(nil)
	stack.ChainYield = nil
	sw.w.Close()
}

func featAddr(dev string, f int64) *model.FeatureAddressType {
	return &model.FeatureAddressType{Device: util.Ptr(model.AddressDeviceType(dev)), Entity: []model.AddressEntityType{1}, Feature: util.Ptr(model.AddressFeatureType(f))}
}

func nmAddr(dev string) *model.FeatureAddressType {
	return &model.FeatureAddressType{Device: util.Ptr(model.AddressDeviceType(dev)), Entity: []model.AddressEntityType{0}, Feature: util.Ptr(model.AddressFeatureType(0))}
}

func devOf(p int64) string { return "d" + strconv.FormatInt(p, 10) }

// bindRequest is the datagram of a binding request call of peer p (acknowledgement requested)
func (sw *schedWorld) bindRequest(p, srv, cli, typ int64) []byte {
	sw.ctr++
	cls := model.CmdClassifierTypeCall
	ft := stack.FeatureType(typ)
	h := model.HeaderType{
		SpecificationVersion: &spine.SpecificationVersion,
		AddressSource:        nmAddr(devOf(p)),
		AddressDestination:   nmAddr("d0"),
		MsgCounter:           util.Ptr(model.MsgCounterType(1000 + sw.ctr)),
		CmdClassifier:        &cls,
		AckRequest:           util.Ptr(true),
	}
	cmd := model.CmdType{NodeManagementBindingRequestCall: &model.NodeManagementBindingRequestCallType{BindingRequest: &model.BindingManagementRequestCallType{
		ClientAddress: featAddr(devOf(p), cli), ServerAddress: featAddr("d0", srv), ServerFeatureType: &ft}}}
	b, err := json.Marshal(model.Datagram{Datagram: model.DatagramType{Header: h, Payload: model.PayloadType{Cmd: []model.CmdType{cmd}}}})
	if err != nil {
		panic(err)
	}
	return b
}

// project turns observations in the encoding of Model/StackWire.v into those of Model/BindSched.v
func project(obs []hx.Zs) []hx.Zs {
	var out []hx.Zs
	for _, o := range obs {
		switch {
		case len(o) >= 4 && o[0] == 1: // result
			e := o[3]
			if e > 1 {
				out = append(out, hx.Zs{40, 1})
			} else {
				out = append(out, hx.Zs{35, o[1], e})
			}
		case len(o) >= 4 && o[0] == 5 && o[1] == 3: // binding event: [5 3 change ski optEnt optFeat optLocal]
			i := 4
			skipE := func() {
				if i < len(o) && o[i] == 1 {
					i += 2 + int(o[i+1])
				} else {
					i++
				}
			}
			feat := func() int64 {
				if i >= len(o) || o[i] != 1 {
					i++
					return -1
				}
				// 1 dev len e... feat
				n := int(o[i+2])
				f := o[i+3+n] - 1
				i += 4 + n
				return f
			}
			skipE()
			cli := feat()
			srv := feat()
			code := int64(36)
			if o[2] == 2 {
				code = 37
			} else if o[2] != 0 {
				code = 40
			}
			if cli < 0 || srv < 0 {
				out = append(out, hx.Zs{40, 2})
			} else {
				out = append(out, hx.Zs{code, o[3], srv, cli})
			}
		case len(o) >= 2 && o[0] == 8: // listing entry: [8 id srv-faddr cli-faddr]
			// faddr = dev len e... feat
			i := 2
			fa := func() int64 {
				n := int(o[i+1])
				f := o[i+2+n] - 1
				i += 3 + n
				return f
			}
			srv := fa()
			cli := fa()
			out = append(out, hx.Zs{38, o[1], srv, cli})
		case len(o) >= 1 && o[0] == 97:
			out = append(out, hx.Zs{40, 97})
		default:
			out = append(out, hx.Zs{40, 3})
		}
	}
	return out
}

func (sw *schedWorld) flush() []hx.Zs { return project(sw.w.Exec(hx.Zs{0})) }

func (sw *schedWorld) exec(op hx.Zs) []hx.Zs {
	known := func(p int64) bool { return p >= 1 && p <= nSchedPeers }
	switch op[0] {
	case 51: // Begin t p srv cli typ
		if len(op) != 6 {
			return []hx.Zs{{40, 9}}
		}
		t, p, srv, cli, typ := op[1], op[2], op[3], op[4], op[5]
		if w := sw.threads[t]; w != nil && w.state == 2 {
			return []hx.Zs{{32}}
		}
		if !known(p) {
			return []hx.Zs{{34}}
		}
		msg := sw.bindRequest(p, srv, cli, typ)
		w := &worker{tid: t, parked: make(chan struct{}, 1), resume: make(chan struct{}), done: make(chan struct{})}
		sw.threads[t] = w
		started := make(chan struct{})
		go func() {
			sw.sc.mu.Lock()
			sw.sc.byGoid[goid()] = w
			sw.sc.mu.Unlock()
			close(started)
			sw.w.InjectRaw(p, msg)
			close(w.done)
		}()
		<-started
		select {
		case <-w.parked:
			w.state = 2
			return append(sw.flush(), hx.Zs{31})
		case <-w.done:
			w.state = 3
			return sw.flush()
		case <-time.After(5 * time.Second):
			return []hx.Zs{{40, 96}}
		}
	case 52: // End t
		w := sw.threads[op[1]]
		if w == nil || w.state != 2 {
			return []hx.Zs{{33}}
		}
		w.resume <- struct{}{}
		select {
		case <-w.done:
			w.state = 3
		case <-time.After(5 * time.Second):
			return []hx.Zs{{40, 96}}
		}
		return sw.flush()
	case 53: // Unbind p srv cli
		p, srv, cli := op[1], op[2], op[3]
		if !known(p) {
			return []hx.Zs{{34}}
		}
		sw.ctr++
		c := stack.FAddr{Dev: p + 1, Ent: []int64{1}, Feat: cli + 1}
		s := stack.FAddr{Dev: 1, Ent: []int64{1}, Feat: srv + 1}
		return project(sw.w.Exec(stack.OpBindDelete(p, 1000+sw.ctr, true, c, s)))
	case 54: // ListB p
		return project(sw.w.Exec(stack.OpListBinds(op[1])))
	case 57: // Race n p1 c1 t1 p2 c2 t2 srv
		if len(op) != 9 {
			return []hx.Zs{{40, 9}}
		}
		return sw.race(op[1], [2][3]int64{{op[2], op[3], op[4]}, {op[5], op[6], op[7]}}, op[8])
	case 55: // OnFeat f
		n := len(sw.w.Local().BindingManager().BindingsOnFeature(*featAddr("d0", op[1])))
		return append(sw.flush(), hx.Zs{39, int64(n)})
	}
	return []hx.Zs{{40, 9}}
}

// race: n rounds of two binding requests (different peers, one server feature) handled by two
// goroutines that announce themselves and then spin WITHOUT yielding until both have announced
// (tight start: the requests enter AddBinding within a few hundred nanoseconds of each other);
// they are not registered with the scheduler, so the yield hook does not park them: the runtime
// picks the interleaving of the critical sections.  After each round: count what was granted
// and refused, count the bindings on the feature, delete the granted binding(s).
func (sw *schedWorld) race(n int64, q [2][3]int64, srv int64) []hx.Zs {
	known := func(p int64) bool { return p >= 1 && p <= nSchedPeers }
	if !known(q[0][0]) || !known(q[1][0]) || q[0][0] == q[1][0] {
		return []hx.Zs{{33}}
	}
	var granted, refused, over int64
	var extra []hx.Zs
	addr := *featAddr("d0", srv)
	// during a race the yield hook is a second, finer rendezvous instead of a parking place: a
	// request that reaches AddBinding.checked spins (bounded, without yielding) until the other
	// one is there too, then both run on; a request refused before the hook never arrives and the
	// other one gives up waiting after the bound
	var arrived *int32
	spine.VerifSetYield(func(point string) {
		if point != "AddBinding.checked" || arrived == nil {
			return
		}
		atomic.AddInt32(arrived, 1)
		for spins := 0; atomic.LoadInt32(arrived) < 2 && spins < 200000; spins++ {
		}
	})
	defer spine.VerifSetYield(sw.sc.yield)
	for i := int64(0); i < n; i++ {
		msgs := [2][]byte{sw.bindRequest(q[0][0], srv, q[0][1], q[0][2]), sw.bindRequest(q[1][0], srv, q[1][1], q[1][2])}
		arrived = nil
		if i%2 == 0 { // every other round runs without the second rendezvous
			arrived = new(int32)
		}
		var ready int32
		var wg sync.WaitGroup
		wg.Add(2)
		for k := 0; k < 2; k++ {
			go func(k int) {
				defer wg.Done()
				atomic.AddInt32(&ready, 1)
				for spins := 0; atomic.LoadInt32(&ready) < 2; spins++ {
					if spins > 2000000 {
						runtime.Gosched()
					}
				}
				sw.w.InjectRaw(q[k][0], msgs[k])
			}(k)
		}
		wg.Wait()
		cnt := len(sw.w.Local().BindingManager().BindingsOnFeature(addr))
		if cnt > 1 {
			over++
		}
		for _, o := range sw.flush() {
			switch {
			case o[0] == 36:
				granted++
				sw.ctr++
				c := stack.FAddr{Dev: o[1] + 1, Ent: []int64{1}, Feat: o[3] + 1}
				s := stack.FAddr{Dev: 1, Ent: []int64{1}, Feat: o[2] + 1}
				if !has(project(sw.w.Exec(stack.OpBindDelete(o[1], 1000+sw.ctr, true, c, s))), 37) {
					extra = append(extra, hx.Zs{40, 5})
				}
			case o[0] == 35 && o[2] == 1:
				refused++
			case o[0] == 35 && o[2] == 0: // the acknowledgement of a granted request
			default:
				if len(extra) < 4 {
					extra = append(extra, o)
				}
			}
		}
	}
	outcomes["race-rounds"] += int(n)
	outcomes["race-rounds-with-more-than-one-binding"] += int(over)
	return append([]hx.Zs{{41, n, granted, refused, over}}, extra...)
}

// ---------------------------------------------------------------- the binding list as reported over the wire

type capture struct {
	mu   sync.Mutex
	msgs [][]byte
}

func (c *capture) WriteShipMessageWithPayload(msg []byte) {
	c.mu.Lock()
	c.msgs = append(c.msgs, append([]byte(nil), msg...))
	c.mu.Unlock()
}

func encAddr(a *model.FeatureAddressType) hx.Zs {
	z := hx.Zs{0}
	if a == nil {
		return hx.Zs{0, 0, 0}
	}
	if a.Device != nil {
		var k int64 = 998
		fmt.Sscanf(string(*a.Device), "d%d", &k)
		z[0] = k + 1
	}
	z = append(z, int64(len(a.Entity)))
	for _, e := range a.Entity {
		z = append(z, int64(e))
	}
	if a.Feature != nil {
		return append(z, int64(*a.Feature)+1)
	}
	return append(z, 0)
}

// wireList: peer p calls nodeManagementBindingData; the call travels through
// DeviceRemote.HandleSpineMesssage -> DeviceLocal.ProcessCmd -> NodeManagement.processReadBindingData
// and the reply datagram is parsed.  harness/stack projects replies to a bare marker, so the
// call is sent over a second connection object of the same SKI whose writer this runner owns
// (BindingManager.Bindings selects by SKI; the reply is what the peer would be sent).
func wireList(w *stack.World, p int64) []hx.Zs {
	cp := &capture{}
	shadow := spine.NewDeviceRemote(w.Local(), stack.Ski(p), spine.NewSender(cp))
	cls := model.CmdClassifierTypeCall
	h := model.HeaderType{
		SpecificationVersion: &spine.SpecificationVersion,
		AddressSource:        nmAddr(devOf(p)),
		AddressDestination:   nmAddr("d0"),
		MsgCounter:           util.Ptr(model.MsgCounterType(7777)),
		CmdClassifier:        &cls,
	}
	cmd := model.CmdType{NodeManagementBindingData: &model.NodeManagementBindingDataType{}}
	b, err := json.Marshal(model.Datagram{Datagram: model.DatagramType{Header: h, Payload: model.PayloadType{Cmd: []model.CmdType{cmd}}}})
	if err != nil {
		panic(err)
	}
	func() {
		defer func() {
			if e := recover(); e != nil {
				cp.msgs = append(cp.msgs, nil)
			}
		}()
		_, _ = shadow.HandleSpineMesssage(b)
	}()
	var out []hx.Zs
	replies := 0
	for _, m := range cp.msgs {
		var d model.Datagram
		if m == nil || json.Unmarshal(m, &d) != nil || len(d.Datagram.Payload.Cmd) != 1 || d.Datagram.Header.CmdClassifier == nil {
			out = append(out, hx.Zs{4, p, 99})
			continue
		}
		c := d.Datagram.Payload.Cmd[0]
		if *d.Datagram.Header.CmdClassifier != model.CmdClassifierTypeReply || c.NodeManagementBindingData == nil {
			out = append(out, hx.Zs{4, p, 98})
			continue
		}
		replies++
		for _, e := range c.NodeManagementBindingData.BindingEntry {
			var id int64 = -1
			if e.BindingId != nil {
				id = int64(*e.BindingId)
			}
			z := hx.Zs{8, id}
			z = append(z, encAddr(e.ServerAddress)...)
			out = append(out, append(z, encAddr(e.ClientAddress)...))
		}
	}
	if replies != 1 {
		out = append(out, hx.Zs{4, p, 97})
	}
	outcomes["wire-listings"]++
	if len(out) >= 2 {
		outcomes["wire-listings-with-two-or-more-bindings"]++
	}
	return out
}

// ---------------------------------------------------------------- implementation: one real device per component

type impl struct {
	sw *stack.World
	bw *schedWorld
}

func newImpl() hx.Impl { return &impl{} }

var outcomes = map[string]int{}

func has(out []hx.Zs, prefix ...int64) bool {
	for _, o := range out {
		if len(o) >= len(prefix) {
			ok := true
			for i, v := range prefix {
				if o[i] != v {
					ok = false
				}
			}
			if ok {
				return true
			}
		}
	}
	return false
}

// tally of what the implementation answered (goes into the evidence)
func tally(op hx.Zs, out []hx.Zs) {
	switch op[0] {
	case 9:
		if has(out, 5, 3, 0) {
			outcomes["bind-granted"]++
		} else if len(out) > 0 {
			outcomes["bind-refused"]++
		} else {
			outcomes["bind-dropped"]++
		}
	case 10:
		if has(out, 5, 3, 2) {
			outcomes["delete-done"]++
		} else if len(out) > 0 {
			outcomes["delete-refused"]++
		} else {
			outcomes["delete-dropped"]++
		}
	case 51:
		if has(out, 31) {
			outcomes["sched-begin-parked"]++
		} else if has(out, 35) {
			outcomes["sched-begin-refused"]++
		}
	case 52:
		if has(out, 36) {
			outcomes["sched-end-granted"]++
		} else if has(out, 35) {
			outcomes["sched-end-refused"]++
		}
	case 53:
		if has(out, 37) {
			outcomes["sched-unbind-done"]++
		} else {
			outcomes["sched-unbind-refused"]++
		}
	}
}

func (m *impl) Exec(op hx.Zs) []hx.Zs {
	if len(op) == 0 {
		return nil
	}
	if op[0] == 56 { // the binding list of peer p as reported over the wire
		if len(op) != 2 {
			return []hx.Zs{{4, 0, 96}}
		}
		if m.sw == nil {
			m.sw = stack.New()
		}
		out := wireList(m.sw, op[1])
		m.sw.Exec(hx.Zs{0})
		if m.bw != nil {
			m.bw.flush()
		}
		return out
	}
	if (op[0] >= 51 && op[0] <= 55) || op[0] == 57 {
		if m.bw == nil {
			m.bw = newSchedWorld()
		}
		out := m.bw.exec(op)
		if m.sw != nil {
			m.sw.Exec(hx.Zs{0}) // the event bus is process-global: drop what the other device saw
		}
		tally(op, out)
		return out
	}
	if m.sw == nil {
		m.sw = stack.New()
	}
	out := m.sw.Exec(op)
	if m.bw != nil {
		m.bw.flush()
	}
	tally(op, out)
	return out
}

func (m *impl) Close() {
	if m.bw != nil {
		m.bw.close()
	}
	if m.sw != nil {
		m.sw.Close()
	}
}

// ---------------------------------------------------------------- generators

func opBegin(t, p, srv, cli, typ int64) hx.Zs { return hx.Zs{51, t, p, srv, cli, typ} }
func opEnd(t int64) hx.Zs                     { return hx.Zs{52, t} }
func opUnbind(p, srv, cli int64) hx.Zs        { return hx.Zs{53, p, srv, cli} }
func opListB(p int64) hx.Zs                   { return hx.Zs{54, p} }
func opOnFeat(f int64) hx.Zs                  { return hx.Zs{55, f} }
func opWire(p int64) hx.Zs                    { return hx.Zs{56, p} }
func opRace(n, p1, c1, t1, p2, c2, t2, srv int64) hx.Zs {
	return hx.Zs{57, n, p1, c1, t1, p2, c2, t2, srv}
}

// genRace: free-running overlaps.  Mostly two valid requests of different peers for one unbound
// server feature (the case in which the single-binding rule is at stake), now and then an invalid
// request, a bound feature, a parked third request; counts and listings in between.
func genRace(r *hx.Rng, tier string) []hx.Zs {
	var h []hx.Zs
	rounds := int64(r.Range(40, 120))
	if tier == "thorough" {
		rounds = int64(r.Range(100, 300))
	}
	for k := 0; k < r.Range(2, 4); k++ {
		srv := int64([]int{1, 2, 4}[r.Intn(3)])
		typ := srv
		if srv == 4 {
			typ = int64(r.Range(1, 2))
		}
		p1 := int64(r.Range(1, nSchedPeers))
		p2 := p1%nSchedPeers + 1
		c1, c2 := typ, typ
		if r.Chance(1, 4) {
			c2 = 4
		}
		switch r.Pick(12, 2, 2, 1, 1) {
		case 1: // one invalid request
			c2 = int64(r.Range(1, 6))
			distSched["race-with-invalid-request"]++
		case 2: // the feature is bound already: both refused in every round
			h = append(h, opBegin(4, p2, srv, c2, typ), opEnd(4))
			rounds /= 4
			distSched["race-on-bound-feature"]++
		case 3: // a third request for the same feature stays parked during the race
			p3 := p2%nSchedPeers + 1
			h = append(h, opBegin(3, p3, srv, typ, typ))
			distSched["race-with-parked-request"]++
		case 4:
			srv = int64(r.Range(1, 5))
		}
		h = append(h, opRace(rounds, p1, c1, typ, p2, c2, typ, srv), opOnFeat(srv))
		if r.Bool() {
			h = append(h, opEnd(3), opOnFeat(srv))
		}
		distSched["race"]++
	}
	for p := int64(1); p <= nSchedPeers; p++ {
		h = append(h, opListB(p))
	}
	return h
}

// the schedule refuting the pinned AddBinding: both requests pass the check before either inserts
func witnessSchedule() []hx.Zs {
	return []hx.Zs{opBegin(1, 1, 1, 1, 1), opBegin(2, 2, 1, 1, 1), opEnd(1), opEnd(2), opOnFeat(1), opListB(1), opListB(2)}
}

var distSched = map[string]int{}
var distSeq = map[string]int{}

// genSched: 2-4 goroutines handling binding requests of different peers, mostly for the same
// one or two server features, under a random schedule, mixed with deletes, listings, counts.
func genSched(r *hx.Rng, tier string) []hx.Zs {
	var h []hx.Zs
	n := r.Range(6, 30)
	if tier == "thorough" {
		n = r.Range(6, 80)
	}
	hot := int64(r.Range(1, 4))
	parked := map[int64]bool{}
	type pair struct{ p, srv, cli int64 }
	var asked []pair
	for len(h) < n {
		switch r.Pick(30, 30, 10, 6, 12, 3) {
		case 0: // begin
			t := int64(r.Range(1, 4))
			p := int64(r.Range(1, nSchedPeers))
			srv := hot
			if r.Chance(1, 3) {
				srv = int64(r.Range(1, 5))
			}
			cli := int64(r.Range(1, 4))
			typ := int64(1)
			switch srv {
			case 2:
				typ = 2
			case 4:
				typ = int64(r.Range(1, 2))
			}
			if r.Chance(3, 4) { // a client feature compatible with the type
				cli = typ
				if r.Chance(1, 4) {
					cli = 4
				}
			}
			if r.Chance(1, 10) {
				typ = int64(r.Range(1, 4))
			}
			if r.Chance(1, 12) {
				cli = int64(r.Range(1, 6))
			}
			if r.Chance(1, 25) {
				p = int64(r.Range(0, 5))
			}
			if parked[t] {
				distSched["begin-busy"]++
			} else {
				distSched["begin"]++
			}
			asked = append(asked, pair{p, srv, cli})
			h = append(h, opBegin(t, p, srv, cli, typ))
			parked[t] = true // possibly (the generator does not know whether it parked); End tolerates both
		case 1: // end
			t := int64(r.Range(1, 4))
			h = append(h, opEnd(t))
			delete(parked, t)
			distSched["end"]++
		case 2: // delete
			if len(asked) > 0 && r.Chance(5, 6) {
				a := asked[r.Intn(len(asked))]
				p := a.p
				if r.Chance(1, 8) {
					p = int64(r.Range(1, nSchedPeers))
				}
				h = append(h, opUnbind(p, a.srv, a.cli))
			} else {
				h = append(h, opUnbind(int64(r.Range(1, nSchedPeers)), int64(r.Range(1, 5)), int64(r.Range(1, 5))))
			}
			distSched["unbind"]++
		case 3:
			h = append(h, opListB(int64(r.Range(1, nSchedPeers))))
		case 4:
			f := hot
			if r.Chance(1, 3) {
				f = int64(r.Range(1, 4))
			}
			h = append(h, opOnFeat(f))
		default:
			for p := int64(1); p <= nSchedPeers; p++ {
				h = append(h, opListB(p))
			}
		}
	}
	for t := int64(1); t <= 4; t++ {
		h = append(h, opEnd(t))
	}
	for f := int64(1); f <= 4; f++ {
		h = append(h, opOnFeat(f))
	}
	for p := int64(1); p <= nSchedPeers; p++ {
		h = append(h, opListB(p))
	}
	return h
}

// raceSched: k goroutines all ask for the same server feature; all Begins first (in random
// order), then the Ends in random order — the densest form of the interleaving clause.
func raceSched(r *hx.Rng) []hx.Zs {
	k := r.Range(2, 4)
	srv := int64([]int{1, 2, 4}[r.Intn(3)])
	typ := srv
	if srv == 4 {
		typ = int64(r.Range(1, 2))
	}
	var h []hx.Zs
	order := r.Intn(6)
	ts := []int64{1, 2, 3, 4}[:k]
	for i := range ts {
		j := (i + order) % k
		ts[i], ts[j] = ts[j], ts[i]
	}
	for _, t := range ts {
		p := (t-1)%nSchedPeers + 1
		cli := typ
		if r.Chance(1, 5) {
			cli = 4
		}
		h = append(h, opBegin(t, p, srv, cli, typ))
	}
	for i := range ts {
		j := r.Intn(k)
		ts[i], ts[j] = ts[j], ts[i]
	}
	for _, t := range ts {
		h = append(h, opEnd(t))
		if r.Chance(1, 2) {
			h = append(h, opOnFeat(srv))
		}
	}
	h = append(h, opOnFeat(srv))
	for p := int64(1); p <= nSchedPeers; p++ {
		h = append(h, opListB(p))
	}
	distSched["race"]++
	return h
}

func pickAddr(r *hx.Rng, a stack.FAddr) stack.FAddr {
	if r.Chance(1, 3) {
		a.Dev = 0 // omitted device part (legal: defaults to sender / recipient)
	}
	return a
}

// genSeq: sequential histories in random worlds.
func genSeq(r *hx.Rng, tier string) []hx.Zs {
	focus := int64(0)
	if r.Chance(2, 3) {
		focus = int64(r.Range(1, 3))
	}
	pl := stack.GenPlanFocus(r, focus)
	h := append([]hx.Zs{}, pl.Prefix...)
	h = append(h, pl.ConnectAll()...)
	ctr := map[int64]int64{}
	next := func(p int64) int64 { ctr[p]++; return 100*p + ctr[p] }
	type call struct {
		p        int64
		cli, srv stack.FAddr
	}
	var calls []call
	locals := append([]stack.LFeat{stack.NodeMgmt}, pl.Local...)
	connected := map[int64]bool{}
	for _, p := range pl.Peers {
		connected[p.Ski] = true
	}
	listAll := func() {
		for _, p := range pl.Peers {
			// the registry's list and the list reported to the peer over the wire
			h = append(h, stack.OpListBinds(p.Ski), opWire(p.Ski))
		}
	}
	n := r.Range(10, 50)
	if tier == "thorough" {
		n = r.Range(10, 120)
	}
	for len(h) < len(pl.Prefix)+n {
		p := pl.Peers[r.Intn(len(pl.Peers))]
		switch r.Pick(38, 18, 4, 6, 6, 8, 4, 4, 3, 2, 4) {
		case 0: // bind
			var cli stack.FAddr
			var cf *stack.RFeat
			if r.Chance(6, 7) {
				f := p.Feats[r.Intn(len(p.Feats))]
				cf = &f
				cli = p.Addr(f, true)
			} else {
				cli = stack.FAddr{Dev: p.Dev + 1, Ent: []int64{int64(r.Range(1, 3))}, Feat: int64(r.Range(1, 5))}
				distSeq["bind-unknown-client"]++
			}
			var srv stack.FAddr
			var t int64
			if r.Chance(6, 7) {
				lf := locals[r.Intn(len(locals))]
				if cf != nil && r.Chance(2, 3) { // aim at a server feature of the client's type
					for _, c := range pl.Local {
						if c.Type == cf.Type && c.Role == 1 {
							lf = c
							break
						}
					}
				}
				srv = lf.Addr(true)
				t = lf.Type
			} else {
				srv = stack.FAddr{Dev: 1, Ent: []int64{int64(r.Range(1, 3))}, Feat: int64(r.Range(1, 6))}
				t = int64(r.Range(1, 3))
				distSeq["bind-unknown-server"]++
			}
			if r.Chance(1, 6) {
				t = int64(r.Range(1, 5))
				distSeq["bind-random-type"]++
			}
			c := call{p.Ski, pickAddr(r, cli), pickAddr(r, srv)}
			calls = append(calls, c)
			tt := t + 1
			if r.Chance(1, 40) {
				tt = 0 // missing server feature type
			}
			h = append(h, stack.OpBindCall(p.Ski, next(p.Ski), r.Bool(), c.cli, c.srv, tt))
			distSeq["bind"]++
			if r.Chance(1, 6) { // second request for the same server feature, by this or another peer
				q := pl.Peers[r.Intn(len(pl.Peers))]
				qc := q.Addr(q.Feats[r.Intn(len(q.Feats))], true)
				if q.Ski == p.Ski && r.Bool() {
					qc = c.cli
				}
				calls = append(calls, call{q.Ski, qc, c.srv})
				h = append(h, stack.OpBindCall(q.Ski, next(q.Ski), r.Bool(), qc, c.srv, tt))
				distSeq["bind-second-on-feature"]++
			}
		case 1: // delete
			if len(calls) > 0 && r.Chance(6, 7) {
				c := calls[r.Intn(len(calls))]
				sender := c.p
				cli := c.cli
				if r.Chance(1, 8) { // sent by another peer (naming its own or the other's device)
					sender = pl.Peers[r.Intn(len(pl.Peers))].Ski
					distSeq["delete-by-other-peer"]++
				}
				if r.Chance(1, 4) {
					cli.Dev = 0
				}
				h = append(h, stack.OpBindDelete(sender, next(sender), r.Bool(), cli, pickAddr(r, c.srv)))
			} else {
				h = append(h, stack.OpBindDelete(p.Ski, next(p.Ski), r.Bool(), p.Addr(p.Feats[r.Intn(len(p.Feats))], r.Bool()), locals[r.Intn(len(locals))].Addr(r.Bool())))
			}
			distSeq["delete"]++
			if r.Chance(2, 3) {
				listAll()
			}
		case 2: // subscription traffic (must not disturb bindings)
			lf := locals[r.Intn(len(locals))]
			h = append(h, stack.OpSubCall(p.Ski, next(p.Ski), r.Bool(), p.Addr(p.Feats[r.Intn(len(p.Feats))], true), lf.Addr(true), lf.Type+1))
		case 3: // local data change
			lf := pl.Local[r.Intn(len(pl.Local))]
			fn := int64(r.Range(1, 4))
			if len(lf.Fns) > 0 && r.Chance(4, 5) {
				fn = lf.Fns[r.Intn(len(lf.Fns))]
			}
			h = append(h, stack.OpSetData(lf.Ent, lf.Id, fn, int64(r.Range(1, 900))))
		case 4: // write
			lf := pl.Local[r.Intn(len(pl.Local))]
			fn := int64(r.Range(1, 4))
			if len(lf.Fns) > 0 && r.Chance(5, 6) {
				fn = lf.Fns[r.Intn(len(lf.Fns))]
			}
			h = append(h, stack.OpWrite(p.Ski, next(p.Ski), r.Bool(), p.Addr(p.Feats[r.Intn(len(p.Feats))], true), lf.Addr(true), fn, int64(r.Range(1, 900))))
		case 5:
			h = append(h, stack.OpListBinds(p.Ski))
		case 6: // disconnect / reconnect
			if connected[p.Ski] {
				h = append(h, stack.OpDisconnect(p.Ski))
				connected[p.Ski] = false
			} else if r.Chance(2, 3) {
				h = append(h, stack.OpConnect(p.Ski), stack.OpDiscoveryReply(p.Ski, p.Msg(0, nil)))
				connected[p.Ski] = true
			} else {
				// the peer binds through its node-management feature (and names a feature it has not
				// announced) before it answers the discovery request; the reply follows
				h = append(h, stack.OpConnect(p.Ski))
				connected[p.Ski] = true
				h = append(h, stack.OpBindCall(p.Ski, next(p.Ski), r.Bool(), p.NMAddr(false), stack.NodeMgmt.Addr(r.Bool()), 6))
				if r.Bool() {
					lf := pl.Local[r.Intn(len(pl.Local))]
					h = append(h, stack.OpBindCall(p.Ski, next(p.Ski), r.Bool(), p.Addr(p.Feats[r.Intn(len(p.Feats))], false), lf.Addr(true), lf.Type+1))
					h = append(h, stack.OpBindDelete(p.Ski, next(p.Ski), r.Bool(), p.Addr(p.Feats[r.Intn(len(p.Feats))], false), lf.Addr(true)))
				}
				h = append(h, stack.OpListBinds(p.Ski))
				if r.Chance(3, 4) {
					h = append(h, stack.OpDiscoveryReply(p.Ski, p.Msg(0, nil)), stack.OpListBinds(p.Ski))
					if r.Bool() {
						h = append(h, stack.OpBindDelete(p.Ski, next(p.Ski), r.Bool(), p.NMAddr(r.Bool()), stack.NodeMgmt.Addr(true)))
					}
				}
				distSeq["pre-reply-binding-then-reply"]++
			}
			distSeq["disconnect-reconnect"]++
		case 7: // entity removed / re-added; mixed notifications; replies that omit entities
			switch {
			case r.Chance(1, 4):
				h = append(h, stack.OpDiscoveryNotify(p.Ski, next(p.Ski), r.Bool(), p.MixedNotify(r)), stack.OpListBinds(p.Ski))
				distSeq["notification-mixing-added-and-removed"]++
			case r.Chance(1, 3):
				h = append(h, stack.OpDiscoveryReply(p.Ski, p.PartialReply(r)), stack.OpListBinds(p.Ski))
				distSeq["reply-omitting-entities"]++
			case len(p.Ents) > 1:
				e := p.Ents[1+r.Intn(len(p.Ents)-1)]
				st := int64(2)
				if r.Chance(1, 3) {
					st = 1
				}
				h = append(h, stack.OpDiscoveryNotify(p.Ski, next(p.Ski), r.Bool(), p.Msg(st, [][]int64{e})))
				distSeq["entity-removed-readded"]++
			}
		case 8: // a client feature binds to every compatible server feature, then deletes one of them
			var mine []call
			for _, f := range p.Feats {
				if f.Role != 0 || f.Ent[0] == 0 {
					continue
				}
				for _, lf := range pl.Servers() {
					if lf.Type == f.Type || lf.Type == 4 || f.Type == 4 {
						c := call{p.Ski, p.Addr(f, true), lf.Addr(true)}
						t := lf.Type
						if lf.Type == 4 {
							t = f.Type
						}
						mine = append(mine, c)
						h = append(h, stack.OpBindCall(p.Ski, next(p.Ski), r.Bool(), c.cli, c.srv, t+1))
					}
				}
			}
			calls = append(calls, mine...)
			if len(mine) > 0 {
				c := mine[r.Intn(len(mine))]
				h = append(h, stack.OpBindDelete(p.Ski, next(p.Ski), r.Bool(), pickAddr(r, c.cli), pickAddr(r, c.srv)))
				distSeq["delete-one-of-several"]++
			}
			listAll()
		case 10: // a teardown of p overlapped by a bind / unbind call of another peer q
			var q stack.Peer
			found := false
			for _, c := range pl.Peers {
				if c.Ski != p.Ski && connected[c.Ski] {
					q, found = c, true
				}
			}
			if !found || !connected[p.Ski] {
				break
			}
			// a server feature p never asked a binding for (the overlapped call must not depend on p's entries)
			var lf *stack.LFeat
			for k := range pl.Local {
				c := pl.Local[k]
				used := false
				for _, x := range calls {
					if x.p == p.Ski && fmt.Sprint(x.srv.Ent, x.srv.Feat) == fmt.Sprint(c.Ent, c.Id+1) {
						used = true
					}
				}
				if !used && c.Role == 1 {
					lf = &c
					break
				}
			}
			if lf == nil {
				break
			}
			qc := call{q.Ski, q.Addr(q.Feats[r.Intn(len(q.Feats))], true), lf.Addr(true)}
			var c hx.Zs
			if r.Chance(2, 3) {
				calls = append(calls, qc)
				c = stack.OpBindCall(q.Ski, next(q.Ski), r.Bool(), qc.cli, qc.srv, lf.Type+1)
			} else {
				c = stack.OpBindDelete(q.Ski, next(q.Ski), r.Bool(), qc.cli, qc.srv)
			}
			h = append(h, stack.OpDuring(stack.OpDisconnect(p.Ski), c), stack.OpListBinds(q.Ski), stack.OpListBinds(p.Ski))
			connected[p.Ski] = false
			distSeq["teardown-overlapped-by-call"]++
		default:
			listAll()
		}
	}
	listAll()
	return h
}

// withWire: every listing of the registry is followed by the list reported over the wire
func withWire(h []hx.Zs) []hx.Zs {
	var out []hx.Zs
	for _, op := range h {
		out = append(out, op)
		if len(op) == 2 && op[0] == 15 {
			out = append(out, opWire(op[1]))
		}
	}
	return out
}

func gen(r *hx.Rng, tier string, i int) []hx.Zs {
	if i%16 == 15 {
		return genRace(r, tier)
	}
	switch i % 4 {
	case 1:
		return genSched(r, tier)
	case 3:
		if r.Chance(1, 8) { // both components in one history
			return append(raceSched(r), genSeq(r, tier)...)
		}
		return raceSched(r)
	}
	if i%16 == 2 {
		// an entity announced again without its features, then torn down
		return stack.Reannounce(r)
	}
	if i%8 == 6 {
		// a delete call of one peer overlapped by a bind call of another (atomicity of RemoveBinding)
		return stack.DeleteOverlap(r, true)
	}
	if i%8 == 4 {
		// two peers that cannot be told apart by address delete their own and each other's bindings
		return withWire(stack.Twins(r, true))
	}
	return genSeq(r, tier)
}

func fixed(tier string) [][]hx.Zs {
	return [][]hx.Zs{witnessSchedule(),
		// two valid requests of peers 1 and 2 for the unbound feature 1, free-running
		{opRace(400, 1, 1, 1, 2, 1, 1, 1), opOnFeat(1), opListB(1), opListB(2)}}
}

var opNames = map[int64]string{56: "wire-list-bindings", 57: "sched-race", 51: "sched-begin", 52: "sched-end", 53: "sched-unbind", 54: "sched-list", 55: "sched-bindings-on-feature"}

func main() {
	for k, v := range stack.OpNames {
		opNames[k] = v
	}
	hx.Main(hx.Config{
		Property: "C09",
		Clauses: map[int64]string{1: "grant-rule", 2: "binding-event", 3: "delete-rule", 4: "listing", 5: "stray-binding-event",
			11: "sched-grant-rule", 12: "more-than-one-binding-on-a-feature", 13: "sched-registry-exact", 14: "sched-delete-rule", 15: "sched-step",
			98: "unparseable-observation", 99: "unparseable-operation"},
		OpNames: opNames,
		NewImpl: newImpl,
		Gen:     gen,
		Fixed:   fixed,
		Count:   map[string]int{"quick": 3000, "thorough": 80000},
		Extra: func() map[string]any {
			return map[string]any{"implementation_outcomes": outcomes, "sequential_history_features": distSeq, "schedule_history_features": distSched,
				"yield_hook": "AddBinding.checked, RemoveBinding.filtered (spine/binding_manager.go, build tag verif)", "observed_overlaps": stack.OverlapStats()}
		},
	})
}
