package main

// world executes the operations of coq/Model/SnapStore.v on the real code and observes, for
// every object the API hands out (DataCopy result, data returned by UpdateData, data-change
// event payload): its value, which earlier handed-out object shares its outer struct / its
// backing array (pointer identity through reflect), and, after every later operation and
// while every later update runs (a reader goroutine), whether it still equals the deep clone
// (JSON text) taken at hand-out.
//
// Families (third number of the Init operation):
//
//	0  a bare spine.FunctionData (from the factory): UpdateDataAny / DataCopyAny
//	2  a FeatureRemote of a connected peer: UpdateData / DataCopy, inbound notify (wire=1) and reply (wire=2)
//	3  a FeatureLocal (server): UpdateData, SetData (persist=2) / DataCopy, inbound write of a bound peer (wire=1, remote=1)
//	5  the EntityLocal use-case operations against kept DataCopy results (usecase.go; runtime oracle only)
//
// The stack set-up mirrors harness/upd/world.go (which serves C02/C04).

import (
	"encoding/json"
	"fmt"
	"os"
	"reflect"
	"runtime/debug"
	"sync"
	"sync/atomic"

	"github.com/enbility/spine-go/api"
	"github.com/enbility/spine-go/model"
	"github.com/enbility/spine-go/spine"
	"github.com/enbility/spine-go/util"

	"verifharness/hx"
	"verifharness/upd"
)

type writer struct {
	mu   sync.Mutex
	msgs [][]byte
}

func (w *writer) WriteShipMessageWithPayload(msg []byte) {
	w.mu.Lock()
	defer w.mu.Unlock()
	w.msgs = append(w.msgs, append([]byte(nil), msg...))
}

func (w *writer) take() [][]byte {
	w.mu.Lock()
	defer w.mu.Unlock()
	m := w.msgs
	w.msgs = nil
	return m
}

// one object handed to the application
type retained struct {
	obj     any    // *T or []Elem, exactly as handed out
	clone   string // deep clone at hand-out (JSON text)
	flagged atomic.Bool
}

type world struct {
	types  []*upd.TypeInfo
	family int // 0 / 2 / 3 (1 and 4 of the Init operation are mapped to 0 and 2)
	noList bool // family 1 / 4: the per-type UpdateList does not return the data

	ti *upd.TypeInfo
	fd api.FunctionDataInterface

	w        *writer
	local    *spine.DeviceLocal
	remote   api.DeviceRemoteInterface
	reader   interface{ HandleSpineMesssage([]byte) (*model.MsgCounterType, error) }
	lfServer api.FeatureLocalInterface
	lfClient api.FeatureLocalInterface
	rfServer api.FeatureRemoteInterface
	rfClient api.FeatureRemoteInterface
	ctr      uint64

	evMu   sync.Mutex
	events []any
	kept   []*retained

	uc *ucWorld // family 5 (usecase.go)
}

func newWorld(types []*upd.TypeInfo) *world { return &world{types: types} }

// HandleEvent is subscribed at core level (synchronous, in publication order).
func (w *world) HandleEvent(p api.EventPayload) {
	if p.EventType != api.EventTypeDataChange || w.ti == nil || p.Function != w.ti.Function {
		return
	}
	if w.local == nil || p.LocalFeature == nil || p.LocalFeature.Device() != api.DeviceLocalInterface(w.local) {
		return
	}
	w.evMu.Lock()
	w.events = append(w.events, p.Data)
	w.evMu.Unlock()
}

func (w *world) Close() {
	w.closeUseCases()
	if w.local != nil {
		_ = spine.VerifStackUnsubscribeCore(w)
		_ = spine.VerifStackUnsubscribeCore(w.local)
		w.local = nil
	}
}

func (w *world) featureType() model.FeatureTypeType {
	for _, ft := range w.ti.FeatureTypes {
		if ft != model.FeatureTypeTypeGeneric {
			return ft
		}
	}
	return w.ti.FeatureTypes[0]
}

const remoteAddr = "remote"

func (w *world) setupStack() {
	ft := w.featureType()
	w.w = &writer{}
	w.local = spine.NewDeviceLocal("brand", "model", "serial", "code", "local", model.DeviceTypeTypeEnergyManagementSystem, model.NetworkManagementFeatureSetTypeSmart)
	ent := spine.NewEntityLocal(w.local, model.EntityTypeTypeCEM, []model.AddressEntityType{1}, 0)
	w.local.AddEntity(ent)
	client := spine.NewFeatureLocal(ent.NextFeatureId(), ent, ft, model.RoleTypeClient)
	ent.AddFeature(client)
	server := spine.NewFeatureLocal(ent.NextFeatureId(), ent, ft, model.RoleTypeServer)
	server.AddFunctionType(w.ti.Function, true, true)
	ent.AddFeature(server)
	w.lfClient, w.lfServer = client, server

	rd := w.local.SetupRemoteDevice("ski-remote", w.w)
	w.remote = rd.(api.DeviceRemoteInterface)
	w.reader = rd.(interface {
		HandleSpineMesssage([]byte) (*model.MsgCounterType, error)
	})
	dev := model.AddressDeviceType(remoteAddr)
	fa := func(f uint) *model.FeatureAddressType {
		return &model.FeatureAddressType{Device: &dev, Entity: []model.AddressEntityType{1}, Feature: util.Ptr(model.AddressFeatureType(f))}
	}
	disc := &model.NodeManagementDetailedDiscoveryDataType{
		DeviceInformation: &model.NodeManagementDetailedDiscoveryDeviceInformationType{
			Description: &model.NetworkManagementDeviceDescriptionDataType{DeviceAddress: &model.DeviceAddressType{Device: &dev}},
		},
		EntityInformation: []model.NodeManagementDetailedDiscoveryEntityInformationType{{
			Description: &model.NetworkManagementEntityDescriptionDataType{
				EntityAddress: &model.EntityAddressType{Device: &dev, Entity: []model.AddressEntityType{1}},
				EntityType:    util.Ptr(model.EntityTypeTypeEVSE),
			},
		}},
		FeatureInformation: []model.NodeManagementDetailedDiscoveryFeatureInformationType{
			{Description: &model.NetworkManagementFeatureDescriptionDataType{FeatureAddress: fa(1), FeatureType: &ft, Role: util.Ptr(model.RoleTypeClient)}},
			{Description: &model.NetworkManagementFeatureDescriptionDataType{FeatureAddress: fa(2), FeatureType: &ft, Role: util.Ptr(model.RoleTypeServer),
				SupportedFunction: []model.FunctionPropertyType{{Function: &w.ti.Function, PossibleOperations: &model.PossibleOperationsType{
					Read: &model.PossibleOperationsReadType{Partial: &model.ElementTagType{}}}}}}},
		},
	}
	w.remote.UpdateDevice(disc.DeviceInformation.Description)
	if _, err := w.remote.AddEntityAndFeatures(true, disc); err != nil {
		panic(err)
	}
	w.rfClient = w.remote.FeatureByAddress(fa(1))
	w.rfServer = w.remote.FeatureByAddress(fa(2))
	if w.rfClient == nil || w.rfServer == nil {
		panic("c11: remote features not created")
	}
	if err := w.local.BindingManager().AddBinding(w.remote, model.BindingManagementRequestCallType{
		ClientAddress: w.rfClient.Address(), ServerAddress: w.lfServer.Address(), ServerFeatureType: &ft}); err != nil {
		panic(err)
	}
	_ = spine.VerifStackSubscribeCore(w)
	w.w.take()
}

func (w *world) init(ty, family int) {
	w.Close()
	w.ti = w.types[ty]
	w.family = family
	w.kept, w.events = nil, nil
	switch family {
	case 0:
		w.fd = nil
		for _, fd := range spine.CreateFunctionData[api.FunctionDataInterface](w.featureType()) {
			if fd.FunctionType() == w.ti.Function {
				w.fd = fd
			}
		}
		if w.fd == nil {
			panic("c11: function data not found for " + string(w.ti.Function))
		}
	default:
		w.setupStack()
	}
}

func (w *world) dataCopy() any {
	switch w.family {
	case 0:
		return w.fd.DataCopyAny()
	case 2:
		return w.rfServer.DataCopy(w.ti.Function)
	}
	return w.lfServer.DataCopy(w.ti.Function)
}

func jsonOf(x any) string {
	b, err := json.Marshal(x)
	if err != nil {
		return "!" + err.Error()
	}
	return string(b)
}

func isNilObj(x any) bool {
	v := reflect.ValueOf(x)
	return !v.IsValid() || ((v.Kind() == reflect.Ptr || v.Kind() == reflect.Slice || v.Kind() == reflect.Interface) && v.IsNil())
}

// list returns the list a handed-out object denotes (the list field of a *T, or the bare slice)
// and, for a *T, the address of the outer struct.
func (w *world) list(x any) (lst reflect.Value, outer uintptr, ok bool) {
	v := reflect.ValueOf(x)
	if v.Kind() == reflect.Ptr && !v.IsNil() && v.Elem().Type() == w.ti.T {
		return v.Elem().Field(w.ti.ListField), v.Pointer(), true
	}
	if v.IsValid() && v.Kind() == reflect.Slice && v.Type().Elem() == w.ti.Elem {
		return v, 0, true // a nil list is an (empty) list
	}
	return reflect.Value{}, 0, false
}

// handOut records one object and describes it: 15 kind oc ac <items>
func (w *world) handOut(kind int64, x any) hx.Zs {
	lst, outer, ok := w.list(x)
	if !ok {
		return hx.Zs{15, kind, -1, -1, 0, 0} // not the data: outside the model's vocabulary
	}
	k := len(w.kept)
	oc, ac := int64(0), int64(0)
	if outer != 0 {
		oc = int64(k + 1)
		for j, r := range w.kept {
			if _, o, ok := w.list(r.obj); ok && o == outer {
				oc = int64(j + 1)
				break
			}
		}
	}
	if lst.Len() > 0 {
		ac = int64(k + 1)
		base := lst.Pointer()
		for j, r := range w.kept {
			if l, _, ok := w.list(r.obj); ok && l.Len() > 0 && l.Pointer() == base {
				ac = int64(j + 1)
				break
			}
		}
	}
	w.kept = append(w.kept, &retained{obj: x, clone: jsonOf(x)})
	if ac != 0 && ac != int64(k+1) {
		stats["handed_out_sharing_an_array_with_an_earlier_object"]++
	}
	if oc != 0 && oc != int64(k+1) {
		stats["handed_out_sharing_the_outer_struct_with_an_earlier_object"]++
	}
	z := hx.Zs{15, kind, oc, ac}
	return append(z, upd.EncodeItems(w.ti.ReadList(lst), len(w.ti.Fields))...)
}

// changed compares the first n retained objects with their clones (a difference seen by the
// concurrent reader counts as well); a change is reported once, the clone then follows the object.
func (w *world) changed(n int) []hx.Zs {
	var out []hx.Zs
	for k := 0; k < n; k++ {
		r := w.kept[k]
		now := jsonOf(r.obj)
		if now != r.clone || r.flagged.Load() {
			out = append(out, hx.Zs{14, int64(k)})
			r.clone = now
			r.flagged.Store(false)
		}
	}
	return out
}

// withReader runs f while a second goroutine keeps reading (JSON-encoding) every retained
// object and comparing it with its clone: "updates applied concurrently with the snapshot
// being read or encoded".  The reader has completed one pass before f starts.
func (w *world) withReader(f func()) {
	if len(w.kept) == 0 || noReader {
		f()
		return
	}
	kept := append([]*retained(nil), w.kept...)
	stop := make(chan struct{})
	started := make(chan struct{})
	done := make(chan struct{})
	go func() {
		defer close(done)
		defer func() { _ = recover() }()
		first := true
		for {
			for _, r := range kept {
				if jsonOf(r.obj) != r.clone {
					r.flagged.Store(true)
				}
			}
			if first {
				close(started)
				first = false
			}
			select {
			case <-stop:
				return
			default:
			}
		}
	}()
	<-started
	defer func() {
		close(stop)
		<-done
	}()
	f()
}

type rd struct {
	z   hx.Zs
	pos int
	bad bool
}

func (r *rd) n() int64 {
	if r.pos >= len(r.z) {
		r.bad = true
		return 0
	}
	v := r.z[r.pos]
	r.pos++
	return v
}

func (r *rd) items() [][]int64 {
	n, nf := int(r.n()), int(r.n())
	if n < 0 || nf < 0 || n > 1000 || nf > 1000 {
		r.bad = true
		return nil
	}
	out := make([][]int64, 0, n)
	for i := 0; i < n; i++ {
		it := make([]int64, nf)
		for j := range it {
			it[j] = r.n()
		}
		out = append(out, it)
	}
	return out
}

func (r *rd) filter() upd.Filter {
	if r.n() == 0 {
		return upd.Filter{}
	}
	hs, he, ns, ne := r.n(), r.n(), int(r.n()), int(r.n())
	f := upd.Filter{Present: true}
	if ns < 0 || ne < 0 || ns > 1000 || ne > 1000 {
		r.bad = true
		return f
	}
	if hs != 0 {
		f.Sel = make([]int64, ns)
		for i := range f.Sel {
			f.Sel[i] = r.n()
		}
	}
	if he != 0 {
		f.Elems = make([]int64, ne)
		for i := range f.Elems {
			f.Elems[i] = r.n()
		}
	}
	return f
}

func (w *world) datagram(src, dst *model.FeatureAddressType, cls model.CmdClassifierType, cmd model.CmdType) []byte {
	w.ctr++
	d := model.Datagram{Datagram: model.DatagramType{
		Header: model.HeaderType{
			SpecificationVersion: util.Ptr(model.SpecificationVersionType("1.3.0")),
			AddressSource:        src,
			AddressDestination:   dst,
			MsgCounter:           util.Ptr(model.MsgCounterType(w.ctr)),
			CmdClassifier:        &cls,
			AckRequest:           util.Ptr(true),
		},
		Payload: model.PayloadType{Cmd: []model.CmdType{cmd}},
	}}
	if cls == model.CmdClassifierTypeReply {
		// a reply without reference panics in PrintMessageOverview (C05's subject)
		d.Datagram.Header.MsgCounterReference = util.Ptr(model.MsgCounterType(1))
	}
	b, err := json.Marshal(d)
	if err != nil {
		panic(err)
	}
	return b
}

// result looks for the result datagram answering message counter ref: 0 success, 1 error, -1 none
func (w *world) result(ref uint64) int64 {
	code := int64(-1)
	for _, b := range w.w.take() {
		var d model.Datagram
		if json.Unmarshal(b, &d) != nil {
			continue
		}
		h := d.Datagram.Header
		if h.CmdClassifier == nil || *h.CmdClassifier != model.CmdClassifierTypeResult || h.MsgCounterReference == nil || uint64(*h.MsgCounterReference) != ref {
			continue
		}
		for _, c := range d.Datagram.Payload.Cmd {
			if c.ResultData != nil && c.ResultData.ErrorNumber != nil {
				if *c.ResultData.ErrorNumber == 0 {
					code = 0
				} else {
					code = 1
				}
			}
		}
	}
	return code
}

// snapshot: DataCopy, the result kept; -> 15 0 ... or 16
func (w *world) snapshot() hx.Zs {
	d := w.dataCopy()
	if isNilObj(d) {
		return hx.Zs{16}
	}
	return w.handOut(0, d)
}

// Exec runs one operation and returns the observations in the model's encoding.
func (w *world) Exec(op hx.Zs) (out []hx.Zs) {
	r := &rd{z: op}
	switch r.n() {
	case 0:
		ty, fam := int(r.n()), int(r.n())
		if fam == 5 {
			w.initUseCases()
			return nil
		}
		if ty < 0 || ty >= len(w.types) || fam < 0 || fam > 4 {
			return []hx.Zs{{97}}
		}
		w.noList = fam == 1 || fam == 4
		if fam == 1 {
			fam = 0
		} else if fam == 4 {
			fam = 2
		}
		w.init(ty, fam)
		return nil
	case 3, 4:
		if w.uc == nil {
			return []hx.Zs{{97}}
		}
		return w.execUseCase(op)
	case 2:
		if w.ti == nil {
			return []hx.Zs{{97}}
		}
		n := len(w.kept)
		s := w.snapshot()
		return append([]hx.Zs{s}, w.changed(n)...)
	case 1, 5: // 5: the same update, but the store is not read back (no DataCopy) afterwards
	default:
		return []hx.Zs{{97}}
	}
	quiet := op[0] == 5
	remote, persist, wire := r.n(), r.n(), r.n()
	items := r.items()
	fpA, fdA := r.filter(), r.filter()
	if r.bad || w.ti == nil {
		return []hx.Zs{{97}}
	}
	if len(items) == 0 {
		items = nil
	}
	data := w.ti.BuildData(items)
	fp, fd := w.ti.BuildFilter(true, fpA), w.ti.BuildFilter(false, fdA)
	w.nestElements(fd, fdA)
	w.evMu.Lock()
	nev := len(w.events)
	w.evMu.Unlock()
	nkept := len(w.kept)

	var code int64
	var ret any
	returns := w.family == 0 || (w.family == 2 && wire == 0)
	w.withReader(func() {
		defer func() {
			if e := recover(); e != nil {
				code, ret = 2, nil
				if os.Getenv("C11_DEBUG") != "" {
					fmt.Fprintf(os.Stderr, "panic: %v\n%s\n", e, debug.Stack())
				}
			}
		}()
		switch w.family {
		case 0:
			d, err := w.fd.UpdateDataAny(remote != 0, persist != 0, data.Interface(), fp, fd)
			if err != nil {
				code = 1
			} else {
				ret = d
			}
		case 2:
			if wire == 0 {
				d, err := w.rfServer.UpdateData(persist != 0, w.ti.Function, data.Interface(), fp, fd)
				if err != nil {
					code = 1
				} else {
					ret = d
				}
			} else {
				cls := model.CmdClassifierTypeNotify
				if wire == 2 {
					cls = model.CmdClassifierTypeReply
				}
				msg := w.datagram(w.rfServer.Address(), w.lfClient.Address(), cls, w.ti.Cmd(data, fp, fd))
				if _, err := w.reader.HandleSpineMesssage(msg); err != nil {
					code = 3
				} else if c := w.result(w.ctr); c >= 0 {
					code = c
				} else {
					code = 3
				}
			}
		default:
			if wire == 0 {
				if persist == 2 {
					w.lfServer.SetData(w.ti.Function, data.Interface())
				} else if err := w.lfServer.UpdateData(w.ti.Function, data.Interface(), fp, fd); err != nil {
					code = 1
				}
			} else {
				msg := w.datagram(w.rfClient.Address(), w.lfServer.Address(), model.CmdClassifierTypeWrite, w.ti.Cmd(data, fp, fd))
				if _, err := w.reader.HandleSpineMesssage(msg); err != nil {
					code = 3
				} else if c := w.result(w.ctr); c >= 0 {
					code = c
				} else {
					code = 3
				}
			}
		}
	})
	out = append(out, hx.Zs{10, code})
	// what the update handed to the application: the returned data, the event payloads
	if returns && code == 0 && ret != nil {
		if _, _, isData := w.list(ret); isData || !w.noList {
			out = append(out, w.handOut(1, ret))
		}
	}
	w.evMu.Lock()
	evs := append([]any(nil), w.events[nev:]...)
	w.evMu.Unlock()
	for _, e := range evs {
		if !isNilObj(e) {
			out = append(out, w.handOut(2, e))
		}
	}
	// read the store back; the copy is kept like any other
	if !quiet {
		out = append(out, w.snapshot())
	}
	if w.w != nil {
		w.w.take()
	}
	return append(out, w.changed(nkept)...)
}

// nestElements: the elements part of a delete filter names a field with 1 (the empty tag, built by
// harness/upd), 2 (a tag naming its first sub element) or 3 (a tag naming every sub element, and
// the first sub-sub element of those that have any).  On the code as it is a named field is removed
// as a whole whatever its tag contains, which is all the model needs to know.
func (w *world) nestElements(fd *model.FilterType, a upd.Filter) {
	if fd == nil || a.Elems == nil || w.ti.ElemFilterField < 0 {
		return
	}
	ev := reflect.ValueOf(fd).Elem().Field(w.ti.ElemFilterField)
	if ev.Kind() != reflect.Ptr || ev.IsNil() {
		return
	}
	e := ev.Elem()
	for j, v := range a.Elems {
		if v < 2 || j >= e.NumField() {
			continue
		}
		tag := e.Field(j)
		if tag.Kind() != reflect.Ptr || tag.IsNil() || tag.Elem().Kind() != reflect.Struct {
			continue
		}
		fillTag(tag.Elem(), v >= 3, 2)
		stats["delete_elements_with_nested_tags"]++
	}
}

// fillTag names sub elements of a tag struct: the first one, or all of them (and below them, while
// depth lasts, the first one again)
func fillTag(t reflect.Value, all bool, depth int) {
	for i := 0; i < t.NumField(); i++ {
		f := t.Field(i)
		if f.Kind() != reflect.Ptr || f.Type().Elem().Kind() != reflect.Struct || !f.CanSet() {
			continue
		}
		f.Set(reflect.New(f.Type().Elem()))
		if depth > 1 && all {
			fillTag(f.Elem(), false, depth-1)
		}
		if !all {
			return
		}
	}
}

// subElements: how many sub elements the tag of elements field j can name (0: a plain ElementTagType)
func subElements(ti *upd.TypeInfo, j int) int {
	if ti.ElemType == nil || j >= ti.ElemType.NumField() {
		return 0
	}
	t := ti.ElemType.Field(j).Type
	if t.Kind() != reflect.Ptr || t.Elem().Kind() != reflect.Struct {
		return 0
	}
	n := 0
	for i := 0; i < t.Elem().NumField(); i++ {
		f := t.Elem().Field(i)
		if f.Type.Kind() == reflect.Ptr && f.Type.Elem().Kind() == reflect.Struct {
			n++
		}
	}
	return n
}
