package main

// Family 5: the four EntityLocal use-case operations (AddUseCaseSupport, RemoveUseCaseSupport,
// SetUseCaseAvailability, RemoveAllUseCaseSupports) against retained DataCopy results of
// nodeManagementUseCaseData.  The helpers are not transcribed in coq/Model/SnapStore.v (operations
// Keep / Ext: the model only says that nothing handed out changes), so this stream is a runtime
// oracle: the extracted monitor's clause handed-out-data-changed judges what is observed here.
//
//	3                    Keep: DataCopy of nodeManagementUseCaseData of the device, kept and cloned   -> 17
//	4 kind e a n av      Ext: kind 0 add, 1 remove, 2 set availability, 3 remove all; entity e (1..3),
//	                     actor a (0..1), use-case name n (0..3), av = available
//
// after either: 14 k for every kept object that differs from its clone (also if seen only by the
// reader goroutine while the operation ran).

import (
	"github.com/enbility/spine-go/model"
	"github.com/enbility/spine-go/spine"

	"verifharness/hx"
)

var ucActors = []model.UseCaseActorType{model.UseCaseActorTypeCEM, model.UseCaseActorTypeEVSE}
var ucNames = []model.UseCaseNameType{
	model.UseCaseNameTypeEVSECommissioningAndConfiguration, model.UseCaseNameTypeEVChargingSummary,
	model.UseCaseNameTypeControlOfBattery, model.UseCaseNameTypeMonitoringOfPowerConsumption,
}

type ucWorld struct {
	local *spine.DeviceLocal
	ents  []*spine.EntityLocal
}

func (w *world) initUseCases() {
	w.Close()
	w.ti = nil
	w.family = 5
	w.kept, w.events = nil, nil
	u := &ucWorld{}
	u.local = spine.NewDeviceLocal("brand", "model", "serial", "code", "local", model.DeviceTypeTypeEnergyManagementSystem, model.NetworkManagementFeatureSetTypeSmart)
	for i := 1; i <= 3; i++ {
		e := spine.NewEntityLocal(u.local, model.EntityTypeTypeCEM, []model.AddressEntityType{model.AddressEntityType(i)}, 0)
		u.local.AddEntity(e)
		u.ents = append(u.ents, e)
	}
	w.uc = u
}

func (w *world) closeUseCases() {
	if w.uc != nil {
		_ = spine.VerifStackUnsubscribeCore(w.uc.local)
		w.uc = nil
	}
}

// execUseCase handles operations 3 and 4 of family 5
func (w *world) execUseCase(op hx.Zs) []hx.Zs {
	u := w.uc
	n := len(w.kept)
	switch op[0] {
	case 3:
		d := u.local.NodeManagement().DataCopy(model.FunctionTypeNodeManagementUseCaseData)
		w.kept = append(w.kept, &retained{obj: d, clone: jsonOf(d)})
		stats["usecase_datacopies_kept"]++
		return append([]hx.Zs{{17}}, w.changed(n)...)
	case 4:
		if len(op) != 6 || op[2] < 1 || int(op[2]) > len(u.ents) || op[3] < 0 || int(op[3]) >= len(ucActors) || op[4] < 0 || int(op[4]) >= len(ucNames) {
			return []hx.Zs{{97}}
		}
		e, a, nm := u.ents[op[2]-1], ucActors[op[3]], ucNames[op[4]]
		w.withReader(func() {
			switch op[1] {
			case 0:
				e.AddUseCaseSupport(a, nm, "1.0.0", "", op[5] != 0, []model.UseCaseScenarioSupportType{1, 2})
			case 1:
				e.RemoveUseCaseSupport(a, nm)
			case 2:
				e.SetUseCaseAvailability(a, nm, op[5] != 0)
			default:
				e.RemoveAllUseCaseSupports()
			}
		})
		stats["usecase_operations"]++
		return w.changed(n)
	}
	return []hx.Zs{{97}}
}

// genUseCases: a few additions first, then a mix, DataCopies in between
func genUseCases(r *hx.Rng, tier string) []hx.Zs {
	h := []hx.Zs{{0, 0, 5, fixedFlag, quirks[0], quirks[1], quirks[2], quirks[3], quirks[4], quirks[5], quirks[6]}}
	n := r.Range(4, 14)
	if tier == "thorough" {
		n = r.Range(4, 30)
	}
	for i := 0; i < n; i++ {
		if i > 0 && r.Chance(1, 3) {
			h = append(h, hx.Zs{3})
			continue
		}
		kind := int64(r.Pick(5, 2, 5, 1))
		if i < 2 {
			kind = 0
		}
		h = append(h, hx.Zs{4, kind, int64(r.Range(1, 3)), int64(r.Intn(len(ucActors))), int64(r.Intn(len(ucNames))), int64(r.Intn(2))})
	}
	return append(h, hx.Zs{3})
}
