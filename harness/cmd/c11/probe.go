package main

// The value-level behaviour of the update engine is changed by the repairs of C02/C04 (selector
// updates reaching every match, the writecheck flag surviving remote writes, write checks only for
// addressed items, unknown identifiers in remote writes) and of C05 (306e400: a selector update
// without a data item fails instead of panicking; db846a9: SelectorMatch treats an item without a
// value for a selected field as not matching instead of dereferencing nil).  None of them
// concerns the memory discipline C11 is about, and the C11 theorems hold for every setting of
// the corresponding switches of coq/Model/SnapStore.v ([quirks]); the correspondence check
// needs the setting of the tree it runs against, which is read off the real engine here.

import (
	"reflect"

	"github.com/enbility/spine-go/model"
	"github.com/enbility/spine-go/util"

	"verifharness/upd"
)

var returnsDataCache = map[int]bool{}

// returnsData: does the per-type UpdateList of this type return the resulting list (three types
// return their `persist` argument instead)?
func returnsData(ti *upd.TypeInfo) bool {
	if v, ok := returnsDataCache[ti.Index]; ok {
		return v
	}
	res := false
	func() {
		defer func() { _ = recover() }()
		obj := reflect.New(ti.T).Interface().(model.Updater)
		d, _ := obj.UpdateList(false, false, ti.BuildData(nil).Interface(),
			&model.FilterType{CmdControl: &model.CmdControlType{Partial: &model.ElementTagType{}}}, nil)
		v := reflect.ValueOf(d)
		res = v.IsValid() && v.Kind() == reflect.Slice && v.Type().Elem() == ti.Elem
	}()
	returnsDataCache[ti.Index] = res
	return res
}

func limit(id uint, changeable *bool, active bool) model.LoadControlLimitDataType {
	return model.LoadControlLimitDataType{
		LimitId:           util.Ptr(model.LoadControlLimitIdType(id)),
		IsLimitChangeable: changeable,
		IsLimitActive:     util.Ptr(active),
	}
}

func b2i(b bool) int64 {
	if b {
		return 1
	}
	return 0
}

func probeQuirks() (q [7]int64) {
	defer func() {
		if e := recover(); e != nil {
			panic("c11: probing the update engine failed")
		}
	}()
	yes, no := util.Ptr(true), util.Ptr(false)
	partial := func() *model.FilterType {
		return &model.FilterType{CmdControl: &model.CmdControlType{Partial: &model.ElementTagType{}}}
	}
	del := func() *model.FilterType {
		return &model.FilterType{CmdControl: &model.CmdControlType{Delete: &model.ElementTagType{}}}
	}

	// 1: a selector matching two items (by a non-identifier field): one or both updated?
	{
		// measurement data can be selected by value type
		exm := []model.MeasurementDataType{
			{MeasurementId: util.Ptr(model.MeasurementIdType(1)), ValueType: util.Ptr(model.MeasurementValueTypeTypeValue), Value: model.NewScaledNumberType(1)},
			{MeasurementId: util.Ptr(model.MeasurementIdType(2)), ValueType: util.Ptr(model.MeasurementValueTypeTypeValue), Value: model.NewScaledNumberType(1)},
		}
		fpm := partial()
		fpm.MeasurementListDataSelectors = &model.MeasurementListDataSelectorsType{ValueType: util.Ptr(model.MeasurementValueTypeTypeValue)}
		res, _ := model.UpdateList(false, exm, []model.MeasurementDataType{{Value: model.NewScaledNumberType(7)}}, fpm, nil)
		n := 0
		for _, it := range res {
			if it.Value != nil && it.Value.GetValue() == 7 {
				n++
			}
		}
		q[0] = b2i(n == 2)
	}
	// 2: a remote selector write carrying the writecheck flag: is the stored flag kept?
	{
		ex := []model.LoadControlLimitDataType{limit(1, yes, true)}
		fp := partial()
		fp.LoadControlLimitListDataSelectors = &model.LoadControlLimitListDataSelectorsType{LimitId: util.Ptr(model.LoadControlLimitIdType(1))}
		res, _ := model.UpdateList(true, ex, []model.LoadControlLimitDataType{{IsLimitChangeable: no, IsLimitActive: no}}, fp, nil)
		q[1] = b2i(len(res) == 1 && res[0].IsLimitChangeable != nil && *res[0].IsLimitChangeable)
	}
	// 3: a remote delete addressing a changeable item while another item is not changeable
	{
		ex := []model.LoadControlLimitDataType{limit(1, yes, true), limit(2, no, true)}
		fd := del()
		fd.LoadControlLimitListDataSelectors = &model.LoadControlLimitListDataSelectorsType{LimitId: util.Ptr(model.LoadControlLimitIdType(1))}
		_, ok := model.UpdateList(true, ex, nil, nil, fd)
		q[2] = b2i(ok)
	}
	// 4: a remote merge naming a changeable item while another item is not changeable
	{
		ex := []model.LoadControlLimitDataType{limit(1, yes, true), limit(2, no, true)}
		_, ok := model.UpdateList(true, ex, []model.LoadControlLimitDataType{limit(1, nil, false)}, nil, nil)
		q[3] = b2i(ok)
	}
	// 5: a remote merge naming an unknown item
	{
		ex := []model.LoadControlLimitDataType{limit(1, yes, true)}
		_, ok := model.UpdateList(true, ex, []model.LoadControlLimitDataType{limit(9, nil, false)}, nil, nil)
		q[4] = b2i(!ok)
	}
	// 6: SelectorMatch on an item that has no value for the selected field: no match, or a nil dereference?
	func() {
		defer func() {
			if e := recover(); e != nil {
				q[5] = 0
			}
		}()
		fd := &model.FilterData{Selector: &model.LoadControlLimitListDataSelectorsType{LimitId: util.Ptr(model.LoadControlLimitIdType(1))}}
		q[5] = b2i(!fd.SelectorMatch(&model.LoadControlLimitDataType{IsLimitActive: yes}))
	}()
	// 7: a selector update that carries no data item: reported as failed, or an index out of range?
	func() {
		defer func() {
			if e := recover(); e != nil {
				q[6] = 0
			}
		}()
		ex := []model.LoadControlLimitDataType{limit(1, yes, true)}
		fp := partial()
		fp.LoadControlLimitListDataSelectors = &model.LoadControlLimitListDataSelectorsType{LimitId: util.Ptr(model.LoadControlLimitIdType(1))}
		_, ok := model.UpdateList(false, ex, nil, fp, nil)
		q[6] = b2i(!ok)
	}()
	return q
}
