// C11 runner: stable snapshots; non-persisting and failed updates leave the store unchanged.
// The real FunctionData / FeatureRemote / FeatureLocal data paths against
// coq/Model/SnapStore.v (memory model coq/Model/Slices.v), for every registered list data type.
//
// op encoding (parse_op in SnapStore.v):
//
//	0 ty fam fixed q1..q7   start over with list type ty on API family fam (0 FunctionData, 2 FeatureRemote,
//	                        3 FeatureLocal; 1 / 4 = 0 / 2 for a type whose UpdateList returns no data); fixed=1: the repaired FunctionData.UpdateData; q1..q5: value-level
//	                        engine switches, probed from the real engine at start-up (see probe.go)
//	1 remote persist wire <items> <filter partial> <filter delete>     one update (harness/upd encoding)
//	2                       DataCopy, the result kept
//	5 remote persist wire … as 1, but the store is NOT read back with DataCopy after the update
//	3 / 4 ...               family 5, see usecase.go
//
// obs encoding: 10 code | 15 kind oc ac <items> (object handed out: 0 DataCopy, 1 returned data, 2 event
// payload; oc/ac = 1 + index of the first handed-out object sharing the outer struct / backing array) |
// 16 (DataCopy returned nil) | 14 k (handed-out object k differs from its clone).
//
// Environment: C11_VARIANT=pinned makes the histories select the model of the pinned (unrepaired)
// FunctionData.UpdateData, used once to confirm that model and pinned code agree on the defects;
// C11_NOREADER=1 switches the concurrent reader goroutine off.
package main

import (
	"fmt"
	"os"
	"sort"

	"verifharness/hx"
	"verifharness/upd"
)

var types = upd.Types(nil)

// the types the quick tier concentrates on: the three writecheck types (failing remote writes),
// multi-key types, a struct-key type, selectors with ignored / non-key fields
var representative = []string{
	"loadControlLimitListData", "setpointListData", "deviceConfigurationKeyValueListData",
	"measurementListData", "electricalConnectionCharacteristicListData",
	"networkManagementDeviceDescriptionListData", "billListData",
	"electricalConnectionPermittedValueSetListData", "timeSeriesListData", "billConstraintsListData",
}

var usable []*upd.TypeInfo
var repr []*upd.TypeInfo
var wcTypes []*upd.TypeInfo
var byName = map[string]*upd.TypeInfo{}
var perType = map[string]int{}
var perFamily = map[string]int{}
var stats = map[string]int{}

var fixedFlag = int64(1)
var noReader = os.Getenv("C11_NOREADER") != ""
var quirks [7]int64

func init() {
	if os.Getenv("C11_VARIANT") == "pinned" {
		fixedFlag = 0
	}
	for _, ti := range types {
		byName[string(ti.Function)] = ti
		if len(ti.Keys) == 0 || !ti.Usable() {
			continue // no identifier at all (nodeManagementDestinationListData): the generator has nothing to address
		}
		usable = append(usable, ti)
		if len(ti.WC) > 0 {
			wcTypes = append(wcTypes, ti)
		}
		for _, n := range representative {
			if string(ti.Function) == n {
				repr = append(repr, ti)
			}
		}
	}
	if len(usable) == 0 || len(repr) == 0 {
		fmt.Fprintln(os.Stderr, "c11: no usable list data type found")
		os.Exit(3)
	}
	quirks = probeQuirks()
}

// families 0 / 2 become 1 / 4 for the types whose per-type UpdateList does not return the data
func initOp(ti *upd.TypeInfo, fam int) hx.Zs {
	if !returnsData(ti) {
		if fam == 0 {
			fam = 1
		} else if fam == 2 {
			fam = 4
		}
	}
	return hx.Zs{0, int64(ti.Index), int64(fam), fixedFlag, quirks[0], quirks[1], quirks[2], quirks[3], quirks[4], quirks[5], quirks[6]}
}

type impl struct{ w *world }

func newImpl() hx.Impl { return &impl{w: newWorld(types)} }

func (m *impl) Close() { m.w.Close() }

func (m *impl) Exec(op hx.Zs) []hx.Zs {
	obs := m.w.Exec(op)
	if len(op) > 0 && (op[0] == 1 || op[0] == 5) && len(obs) > 0 && len(obs[0]) == 2 {
		if op[0] == 5 {
			stats["updates_not_read_back"]++
		}
		kinds[classify(m.w.ti, op, obs[0][1])]++
		switch {
		case obs[0][1] == 1:
			stats["updates_failed"]++
		case obs[0][1] == 2:
			stats["updates_panicked"]++
		case op[2] == 0:
			stats["updates_not_persisted"]++
		default:
			stats["updates_persisted"]++
		}
	}
	for _, o := range obs {
		if len(o) > 3 && o[0] == 15 {
			stats[fmt.Sprintf("handed_out_kind_%d", o[1])]++
		}
	}
	return obs
}

func gen(r *hx.Rng, tier string, i int) []hx.Zs {
	if i%12 == 11 {
		perFamily["5"]++
		return genUseCases(r, tier)
	}
	var ti *upd.TypeInfo
	switch i % 4 {
	case 0:
		ti = usable[(i/4)%len(usable)]
	case 1:
		ti = wcTypes[(i/4)%len(wcTypes)]
	default:
		ti = repr[(i/4)%len(repr)]
	}
	fam := []int{0, 2, 3}[r.Pick(3, 4, 4)]
	cfg := upd.GenCfg{Family: fam, IllPct: 4, NoPersist: true, Snapshots: true, FlagFields: true, MaxLen: 10}
	if fam != 2 {
		cfg.RemotePct = 35 // remote writes: bare FunctionData (remoteWrite=true) and inbound write datagrams
	}
	if tier == "thorough" {
		cfg.MaxLen = 24
	}
	h := ti.GenHistory(r, cfg)
	h[0] = initOp(ti, fam)
	h = addFilterless(r, ti, fam, h)
	h = nestTags(r, ti, h)
	h = addBareFilters(r, ti, fam, h)
	h = unobserved(r, ti, fam, h)
	perType[string(ti.Function)]++
	perFamily[fmt.Sprint(fam)]++
	return h
}

// an item of type ti: identifier fields set (values 1..3) or all left out, the writecheck field
// absent / false / true, the other fields set with probability 3/5
func genItem(r *hx.Rng, ti *upd.TypeInfo, withKey bool) []int64 {
	it := make([]int64, len(ti.Fields))
	isKey := map[int]bool{}
	for _, k := range ti.Keys {
		isKey[k] = true
	}
	for i, f := range ti.Fields {
		d := f.Domain
		if d > 4 {
			d = 4
		}
		switch {
		case isKey[i]:
			if withKey {
				kd := d - 1
				if kd < 1 {
					kd = 1
				}
				it[i] = int64(1+r.Intn(kd)) + 1
			}
		case f.WriteCheck:
			it[i] = int64(r.Pick(2, 3, 4))
		default:
			if r.Chance(3, 5) && d > 0 {
				it[i] = int64(r.Intn(d)) + 1
			}
		}
	}
	return it
}

// addFilterless crosses the FILTER-LESS update path (no partial filter, no delete filter) with every
// list kind (identified items, one identifier-less item = apply to all, mixed either way round),
// persist yes / no where the API offers it, local / remote write where the API offers it; the
// generator of harness/upd only produces filter-less updates that persist (full replace) or that
// carry identified items.  One to three such updates are inserted after the first operation,
// usually behind a DataCopy.
func addFilterless(r *hx.Rng, ti *upd.TypeInfo, fam int, h []hx.Zs) []hx.Zs {
	if len(h) < 2 || !r.Chance(2, 3) {
		return h
	}
	none := upd.Filter{}
	for n := r.Range(1, 3); n > 0; n-- {
		var items [][]int64
		switch r.Pick(3, 5, 2, 2) {
		case 0: // identified items: Merge
			for k := r.Range(1, 3); k > 0; k-- {
				items = append(items, genItem(r, ti, true))
			}
		case 1: // one item without identifier: copyToAllData
			items = [][]int64{genItem(r, ti, false)}
		case 2: // identifier-less first, identified after: still copyToAllData with the first
			items = [][]int64{genItem(r, ti, false), genItem(r, ti, true)}
		default: // identified first, an identifier-less one behind: Merge of an ill-formed list
			items = [][]int64{genItem(r, ti, true), genItem(r, ti, false)}
		}
		remote, persist, wire := int64(0), int64(1), int64(0)
		switch fam {
		case 0:
			remote = int64(r.Pick(3, 2))
			persist = int64(r.Pick(3, 1))
		case 2:
			persist = int64(r.Pick(3, 1))
			if persist == 1 && r.Chance(1, 3) {
				wire = int64(1 + r.Intn(2))
			}
		default:
			if r.Chance(1, 3) {
				remote, wire = 1, 1
			}
		}
		op := ti.EncodeUpdate(remote, persist, wire, items, none, none)
		pos := r.Range(2, len(h))
		ins := []hx.Zs{op}
		if r.Chance(2, 3) {
			ins = []hx.Zs{{2}, op}
		}
		h = append(h[:pos:pos], append(ins, h[pos:]...)...)
	}
	return h
}

// filterAt returns the positions of the selector and elements values of the filter starting at pos
// and the position behind it
func filterAt(op hx.Zs, pos int) (elems []int, next int, ok bool) {
	if pos >= len(op) {
		return nil, pos, false
	}
	if op[pos] == 0 {
		return nil, pos + 1, true
	}
	if pos+5 > len(op) {
		return nil, pos, false
	}
	ns, ne := int(op[pos+3])*b2n(op[pos+1]), int(op[pos+4])*b2n(op[pos+2])
	if pos+5+ns+ne > len(op) {
		return nil, pos, false
	}
	for i := 0; i < ne; i++ {
		elems = append(elems, pos+5+ns+i)
	}
	return elems, pos + 5 + ns + ne, true
}

// nestTags: in the elements part of delete filters, half of the named struct-valued fields get a tag
// that names sub elements (2: the first one, 3: all of them, two levels deep) instead of the empty tag
func nestTags(r *hx.Rng, ti *upd.TypeInfo, h []hx.Zs) []hx.Zs {
	for i, op := range h {
		if len(op) < 6 || (op[0] != 1 && op[0] != 5) {
			continue
		}
		pos := 6 + int(op[4])*int(op[5])
		_, pos, ok := filterAt(op, pos)
		if !ok {
			continue
		}
		elems, _, ok := filterAt(op, pos)
		if !ok {
			continue
		}
		var cp hx.Zs
		for j, at := range elems {
			if op[at] == 1 && subElements(ti, j) > 0 && r.Bool() {
				if cp == nil {
					cp = append(hx.Zs(nil), op...)
				}
				cp[at] = int64(2 + r.Intn(2))
			}
		}
		if cp != nil {
			h[i] = cp
		}
	}
	return h
}

// addBareFilters: updates whose delete and / or partial filter is BARE (only cmdControl.delete /
// cmdControl.partial, no selector, no elements: FilterType.Data() fails, model.UpdateList skips such a
// filter and goes on with the data), with data that changes something (identified items: merge;
// an identifier-less item: all items), on every family, local and remote, persisting or not.  The
// generator of harness/upd produces bare partial filters only, never a bare delete filter.  Half of
// the histories get 1-2 of them, usually behind a DataCopy.
func addBareFilters(r *hx.Rng, ti *upd.TypeInfo, fam int, h []hx.Zs) []hx.Zs {
	if len(h) < 2 || !r.Bool() {
		return h
	}
	bare, none := upd.Filter{Present: true}, upd.Filter{}
	for n := r.Range(1, 2); n > 0; n-- {
		var items [][]int64
		switch r.Pick(4, 3, 1) {
		case 0:
			for k := r.Range(1, 3); k > 0; k-- {
				items = append(items, genItem(r, ti, true))
			}
		case 1:
			items = [][]int64{genItem(r, ti, false)}
		}
		fp, fd := none, bare // bare delete alone, bare delete + bare partial, bare delete + real partial selector is left to the generator
		if r.Chance(1, 3) {
			fp = bare
		}
		remote, persist, wire := int64(0), int64(1), int64(0)
		switch fam {
		case 0:
			remote = int64(r.Pick(3, 2))
			persist = int64(r.Pick(3, 1))
		case 2:
			persist = int64(r.Pick(3, 1))
			if persist == 1 && r.Chance(1, 3) {
				wire = int64(1 + r.Intn(2))
			}
		default:
			if r.Chance(1, 4) {
				remote, wire = 1, 1
			}
		}
		op := ti.EncodeUpdate(remote, persist, wire, items, fp, fd)
		stats["updates_with_bare_delete_filter"]++
		pos := r.Range(2, len(h))
		ins := []hx.Zs{op}
		if r.Chance(2, 3) {
			ins = []hx.Zs{{2}, op}
		}
		h = append(h[:pos:pos], append(ins, h[pos:]...)...)
	}
	return h
}

// inPlaceUpdate: an update that writes into existing items (identifier-less data for all items, a
// selector update by identifier, a delete filter with elements), encoded without read-back
func inPlaceUpdate(r *hx.Rng, ti *upd.TypeInfo, remote, persist, wire int64) hx.Zs {
	none := upd.Filter{}
	var op hx.Zs
	switch r.Pick(3, 3, 2) {
	case 0:
		op = ti.EncodeUpdate(remote, persist, wire, [][]int64{genItem(r, ti, false)}, upd.Filter{Present: true}, none)
	case 1:
		key := genItem(r, ti, true)
		sel := make([]int64, len(ti.Sel))
		found := false
		for j, sf := range ti.Sel {
			if sf.Kind != upd.SField {
				continue
			}
			for _, k := range ti.Keys {
				if sf.Index == k {
					sel[j] = key[k]
					found = true
				}
			}
		}
		if !found {
			return inPlaceUpdate(r, ti, remote, persist, wire)
		}
		op = ti.EncodeUpdate(remote, persist, wire, [][]int64{genItem(r, ti, false)}, upd.Filter{Present: true, Sel: sel}, none)
	default:
		if ti.ElemType == nil {
			return inPlaceUpdate(r, ti, remote, persist, wire)
		}
		el := make([]int64, len(ti.Elems))
		isKey := map[int]bool{}
		for _, k := range ti.Keys {
			isKey[k] = true
		}
		n := 0
		for j, i := range ti.Elems {
			if i >= 0 && !isKey[i] && !ti.Fields[i].WriteCheck && r.Bool() {
				el[j] = 1
				n++
			}
		}
		if n == 0 {
			return inPlaceUpdate(r, ti, remote, persist, wire)
		}
		op = ti.EncodeUpdate(remote, persist, wire, nil, none, upd.Filter{Present: true, Elems: el})
	}
	op[0] = 5
	return op
}

// unobserved: stretches in which the store is NOT read back through DataCopy.  The runner's own
// DataCopy after every update is an access to the FunctionData like any other; code that keeps
// state across calls (say, "nobody holds a copy since the last persisted update") behaves
// differently when nobody looks.  (a) half of the histories of the API families get most of their
// updates turned into updates without read-back and most DataCopy operations in between removed;
// (b) two thirds get a stretch appended: a persisted partial update (list built by the update),
// then 1-2 in-place updates that must not change the store (no persistence, or a refused remote
// write), none of them read back; the history always ends with a DataCopy that is compared with the
// model's prediction for the whole stretch (and judged by the deferred clauses of the monitor),
// the data returned by the persisted update is kept and watched all along.
func unobserved(r *hx.Rng, ti *upd.TypeInfo, fam int, h []hx.Zs) []hx.Zs {
	if len(h) < 2 {
		return h
	}
	if r.Bool() {
		out := h[:1:1]
		for _, op := range h[1:] {
			switch {
			case op[0] == 1 && r.Chance(3, 4):
				q := append(hx.Zs(nil), op...)
				q[0] = 5
				out = append(out, q)
			case op[0] == 2 && r.Chance(3, 4):
			default:
				out = append(out, op)
			}
		}
		h = out
	}
	if r.Chance(2, 3) {
		none := upd.Filter{}
		var items [][]int64
		for k := r.Range(1, 3); k > 0; k-- {
			items = append(items, genItem(r, ti, true))
		}
		wire := int64(0)
		if fam == 2 && r.Chance(1, 3) {
			wire = int64(1 + r.Intn(2))
		}
		first := ti.EncodeUpdate(0, 1, wire, items, upd.Filter{Present: true}, none)
		first[0] = 5
		h = append(h, first)
		for k := r.Range(1, 2); k > 0; k-- {
			switch fam {
			case 0:
				if r.Bool() {
					h = append(h, inPlaceUpdate(r, ti, int64(r.Intn(2)), 0, 0))
				} else {
					h = append(h, inPlaceUpdate(r, ti, 1, 1, 0)) // fails on unwritable items only
				}
			case 2:
				h = append(h, inPlaceUpdate(r, ti, 0, 0, 0))
			default:
				h = append(h, inPlaceUpdate(r, ti, 1, 1, 1)) // inbound write: fails on unwritable items only
			}
		}
	}
	return append(h, hx.Zs{2})
}

// classify names the update kind of an operation for the measured distribution
func classify(ti *upd.TypeInfo, op hx.Zs, code int64) string {
	if ti == nil || len(op) < 6 {
		return "?"
	}
	n, nf := int(op[4]), int(op[5])
	pos := 6 + n*nf
	if pos >= len(op) {
		return "?"
	}
	hasFp := op[pos] != 0
	fpSel := false
	if hasFp {
		if pos+5 > len(op) {
			return "?"
		}
		fpSel = op[pos+1] != 0
		pos += 5 + int(op[pos+3])*b2n(op[pos+1]) + int(op[pos+4])*b2n(op[pos+2])
	} else {
		pos++
	}
	hasFd := pos < len(op) && op[pos] != 0
	ident := "no-items"
	if n > 0 && nf == len(ti.Fields) {
		ident = "identified"
		for _, k := range ti.Keys {
			if op[6+k] == 0 {
				ident = "identifier-less"
			}
		}
	}
	kind := "filter-less"
	switch {
	case hasFd && hasFp:
		kind = "delete+partial"
	case hasFd:
		kind = "delete"
	case fpSel:
		kind = "partial+selector"
	case hasFp:
		kind = "partial"
	}
	who := "local"
	if op[1] != 0 {
		who = "remote-write"
	} else if op[3] == 1 {
		who = "notify"
	} else if op[3] == 2 {
		who = "reply"
	}
	res := map[int64]string{0: "ok", 1: "failed", 2: "panic"}[code]
	return fmt.Sprintf("%s/%s/%s/persist=%d/%s", kind, ident, who, b2n(op[2]), res)
}

func b2n(v int64) int {
	if v != 0 {
		return 1
	}
	return 0
}

var kinds = map[string]int{}

// the witnesses of coq/Properties/C11.v on billConstraintsListData, on every family that can run them
func fixed(tier string) [][]hx.Zs {
	ti := byName["billConstraintsListData"]
	if ti == nil || len(ti.Fields) != 3 {
		return nil
	}
	none := upd.Filter{}
	sel := func(k int64) upd.Filter { return upd.Filter{Present: true, Sel: []int64{k}} }
	part := upd.Filter{Present: true}
	var out [][]hx.Zs
	for _, fam := range []int{0, 2, 3} {
		np := int64(0) // persist=false where the API offers it
		if fam == 3 {
			np = 1
		}
		wire := int64(0)
		if fam == 2 {
			wire = 1
		}
		// selector update after a DataCopy
		out = append(out, []hx.Zs{initOp(ti, fam),
			ti.EncodeUpdate(0, 1, 0, [][]int64{{2, 1, 1}, {3, 1, 1}}, none, none), {2},
			ti.EncodeUpdate(0, np, 0, [][]int64{{0, 5, 0}}, sel(3), none), {2}})
		// full (notify) then partial (notify): the first payload is the stored object
		out = append(out, []hx.Zs{initOp(ti, fam),
			ti.EncodeUpdate(0, 1, wire, [][]int64{{2, 1, 1}}, none, none),
			ti.EncodeUpdate(0, 1, wire, [][]int64{{3, 7, 7}}, part, none), {2}})
		// update on an empty store that is not persisted / fails
		out = append(out, []hx.Zs{initOp(ti, fam), {2},
			ti.EncodeUpdate(0, np, 0, [][]int64{{2, 1, 1}}, part, none), {2}})
		// a selector update without any data item (306e400), a selector meeting an item without
		// identifier (db846a9): failed / no match on the repaired engine, panics before
		out = append(out, []hx.Zs{initOp(ti, fam),
			ti.EncodeUpdate(0, 1, 0, [][]int64{{2, 1, 1}, {0, 4, 4}}, none, none), {2},
			ti.EncodeUpdate(0, 1, 0, nil, sel(2), none),
			ti.EncodeUpdate(0, 1, 0, [][]int64{{0, 5, 0}}, sel(3), none), {2}})
	}
	// bare filters (only cmdControl.delete / cmdControl.partial): skipped by the engine, the data is
	// merged and stored; whatever the API then reports must fit what it stored (FeatureLocal.UpdateData,
	// FeatureRemote.UpdateData, bare FunctionData)
	for _, fam := range []int{0, 2, 3} {
		out = append(out, []hx.Zs{initOp(ti, fam),
			ti.EncodeUpdate(0, 1, 0, [][]int64{{2, 1, 1}, {3, 1, 1}}, none, none), {2},
			ti.EncodeUpdate(0, 1, 0, [][]int64{{3, 7, 7}, {4, 1, 1}}, none, part), {2},
			ti.EncodeUpdate(0, 1, 0, [][]int64{{0, 8, 0}}, part, part), {2}})
	}
	// unobserved stretch: a persisted partial update, then in-place updates without persistence, none
	// of them read back, then DataCopy (the returned data of the first is kept all along)
	for _, fam := range []int{0, 2} {
		qt := func(op hx.Zs) hx.Zs { op[0] = 5; return op }
		out = append(out, []hx.Zs{initOp(ti, fam),
			qt(ti.EncodeUpdate(0, 1, 0, [][]int64{{2, 1, 1}, {3, 1, 1}}, part, none)),
			qt(ti.EncodeUpdate(0, 0, 0, [][]int64{{0, 5, 0}}, sel(3), none)),
			qt(ti.EncodeUpdate(0, 0, 0, [][]int64{{0, 0, 6}}, part, none)), {2}})
	}
	// the filter-less path: no filters, persist=false, an item without identifier (copyToAllData writes in
	// place), an identified list (Merge), and mixed; after a DataCopy
	for _, fam := range []int{0, 2} {
		out = append(out, []hx.Zs{initOp(ti, fam),
			ti.EncodeUpdate(0, 1, 0, [][]int64{{2, 1, 1}, {3, 1, 1}}, none, none), {2},
			ti.EncodeUpdate(0, 0, 0, [][]int64{{0, 5, 0}}, none, none), {2},
			ti.EncodeUpdate(0, 0, 0, [][]int64{{3, 6, 0}, {4, 6, 6}}, none, none), {2},
			ti.EncodeUpdate(0, 0, 0, [][]int64{{0, 7, 0}, {3, 8, 8}}, none, none), {2}})
	}
	// a refused remote write on a writecheck type: item 1 not changeable, identifier-less data for all
	if lc := byName["loadControlLimitListData"]; lc != nil && len(lc.WC) == 1 {
		mk := func(id, flag, val int64) []int64 {
			it := make([]int64, len(lc.Fields))
			it[lc.Keys[0]] = id
			it[lc.WC[0]] = flag
			for i, f := range lc.Fields {
				if f.Name == "IsLimitActive" {
					it[i] = val
				}
			}
			return it
		}
		for _, fam := range []int{0, 3} {
			wire := int64(0)
			if fam == 3 {
				wire = 1
			}
			out = append(out, []hx.Zs{initOp(lc, fam),
				lc.EncodeUpdate(0, 1, 0, [][]int64{mk(1, 2, 1), mk(2, 1, 1)}, none, none), {2},
				lc.EncodeUpdate(1, 1, wire, [][]int64{mk(0, 0, 2)}, part, none), {2}})
		}
		// a delete filter whose elements part names SUB elements of the structured fields (value: {number},
		// timePeriod: {all, two levels}): the code removes the named field as a whole; after a DataCopy,
		// on every family, persisting and not
		for _, fam := range []int{0, 2, 3} {
			full := func(id int64) []int64 { it := mk(id, 2, 1); it[3], it[4] = 2, 3; return it }
			np := int64(0)
			if fam == 3 {
				np = 1
			}
			wire := int64(0)
			if fam == 2 {
				wire = 1
			}
			nested := func(tp, val int64) upd.Filter { return upd.Filter{Present: true, Elems: []int64{0, 0, 0, tp, val}} }
			out = append(out, []hx.Zs{initOp(lc, fam),
				lc.EncodeUpdate(0, 1, wire, [][]int64{full(1), full(2)}, none, none), {2},
				lc.EncodeUpdate(0, np, 0, nil, none, nested(0, 2)), {2},
				lc.EncodeUpdate(0, 1, wire, nil, none, nested(3, 3)), {2}})
		}
		// the same refused write without any filter and without persistence (bare FunctionData only)
		out = append(out, []hx.Zs{initOp(lc, 0),
			lc.EncodeUpdate(0, 1, 0, [][]int64{mk(1, 2, 1), mk(2, 1, 1)}, none, none), {2},
			lc.EncodeUpdate(1, 0, 0, [][]int64{mk(0, 0, 2)}, none, none), {2}})
	}
	return out
}

func main() {
	hx.Main(hx.Config{
		Property: "C11",
		Clauses: map[int64]string{1: "handed-out-data-changed", 2: "non-persisting-update-changed-store",
			3: "failed-update-changed-store", 4: "malformed-observation", 98: "unparseable-observation", 99: "unparseable-operation"},
		OpNames: map[int64]string{0: "init", 1: "update", 2: "snapshot", 3: "usecase-datacopy", 4: "usecase-operation", 5: "update-not-read-back"},
		NewImpl: newImpl,
		Gen:     gen,
		Fixed:   fixed,
		Count:   map[string]int{"quick": 2400, "thorough": 90000},
		Extra: func() map[string]any {
			names := make([]string, 0, len(perType))
			for n := range perType {
				names = append(names, n)
			}
			sort.Strings(names)
			return map[string]any{"registered_list_types": len(types), "types_exercised": len(perType), "histories_per_type": perType,
				"histories_per_family": perFamily, "engine_switches_probed": map[string]int64{"selector_updates_all_matches": quirks[0],
					"writecheck_flag_restored": quirks[1], "delete_checks_addressed_items_only": quirks[2],
					"merge_fails_for_addressed_items_only": quirks[3], "merge_fails_for_unknown_identifier": quirks[4],
					"selector_skips_item_without_value": quirks[5], "selector_update_without_data_fails": quirks[6]},
				"update_kinds_measured": kinds, "model_variant_fixed": fixedFlag, "concurrent_reader": !noReader, "measured": stats}
		},
	})
}
