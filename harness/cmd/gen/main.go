// Translator: regenerates coq/Gen/*.v from /repo's current source (DESIGN.md 2.2a).
// usage: gen -repo /repo -out /verif/coq/Gen <table>...
// A table whose source pattern is no longer found makes the translator fail; the
// check then reports that the tie to the source is broken.
package main

import (
	"flag"
	"fmt"
	"os"
	"path/filepath"
)

var repo = flag.String("repo", "/repo", "repository root")
var outDir = flag.String("out", "", "output directory (coq/Gen)")

func writeIfChanged(name, content string) {
	p := filepath.Join(*outDir, name)
	old, err := os.ReadFile(p)
	if err == nil && string(old) == content {
		return
	}
	if err := os.WriteFile(p, []byte(content), 0o644); err != nil {
		fail("write %s: %v", p, err)
	}
}

func fail(f string, a ...any) {
	fmt.Fprintf(os.Stderr, "gen: "+f+"\n", a...)
	os.Exit(1)
}

var tables = map[string]func(){
	"consts":  genConsts,
	"schemas": genSchemas,
	"wiring":  genWiring,
	// C18 (c18.go)
	"jsontypes": genJsonTypes,
	"tags":      genTags,
	"factory":   genFactory,
	// C17 (locks.go)
	"locks": genLocks,
}

func main() {
	flag.Parse()
	if *outDir == "" {
		fail("-out required")
	}
	for _, t := range flag.Args() {
		f, ok := tables[t]
		if !ok {
			fail("unknown table %q", t)
		}
		f()
	}
}
