// Table "locks" (C17): static lock analysis of packages spine and model over go/ssa.
//
// Output: coq/Gen/GenLocks.v (mutex classes, nested-acquisition edges with a rank
// certificate, per-field access rows with the lock sets held) and coq/Gen/GenLocks.json
// (the same with witnesses and source sites, read by lib/c17.py and harness/cmd/c17).
//
// What the walk does (say exactly; DESIGN.md "as built - C17"):
//   - roots ("threads") = every exported function and exported method declared in spine and
//     model (the public API, entered with no lock held), every `go` target and every
//     closure handed to time.AfterFunc (new threads, empty held set);
//   - a forward data-flow over each function body per calling context (may-held set,
//     must-held set, receiver/arguments known to be unpublished); join = union for may,
//     intersection for must; `defer mu.Unlock()` releases at function exit; every function
//     must be balanced (held set at exit = held set at entry) or it is reported as unsupported;
//   - Lock/RLock on a receiver that is a struct field address or a package-level variable
//     acquires that mutex *class* (RLock = same class, mode R); any other receiver shape is
//     reported as unsupported;
//   - static calls are followed into spine/model (generic instantiations through Origin());
//     interface calls are resolved by class-hierarchy analysis restricted to the named types
//     declared in spine and model (mocks are a different package and never candidates);
//     calls of function values are resolved to every function literal / function of spine and
//     model with an identical signature; function literals passed to code outside spine/model
//     (linq, sort.Slice, ...) are analysed as called on the spot with the current held set;
//     calls that leave spine/model otherwise (ship-go writer, logging, json, reflect) are
//     assumed not to call back and not to lock;
//   - accesses: loads/stores through a field address of a struct declared in spine, map
//     updates / delete / element stores on a container loaded from such a field (write),
//     sync/atomic calls on a field address (atomic), a short list of mutating library methods
//     (lrucache Get/Put) on a value loaded from a field (write); package-level variables of
//     spine likewise.  An access whose base object was allocated in the current function (or
//     reached it as an unpublished receiver/argument from the allocating function) is marked
//     "before publication".
package main

import (
	"encoding/json"
	"fmt"
	"go/token"
	"go/types"
	"os"
	"path/filepath"
	"regexp"
	"sort"
	"strings"

	"golang.org/x/tools/go/packages"
	"golang.org/x/tools/go/ssa"
	"golang.org/x/tools/go/ssa/ssautil"
)

const (
	modeR = 1
	modeW = 2
)

type hset map[int]int // class id -> mode

func (h hset) clone() hset {
	o := make(hset, len(h))
	for k, v := range h {
		o[k] = v
	}
	return o
}

func (h hset) key() string {
	ks := make([]int, 0, len(h))
	for k := range h {
		ks = append(ks, k)
	}
	sort.Ints(ks)
	var b strings.Builder
	for _, k := range ks {
		fmt.Fprintf(&b, "%d:%d,", k, h[k])
	}
	return b.String()
}

func (h hset) equal(o hset) bool { return h.key() == o.key() }

type lstate struct {
	reached  bool
	may      hset
	must     hset
	defRel   hset
	defCalls map[*ssa.Defer]bool
}

func newState() *lstate {
	return &lstate{may: hset{}, must: hset{}, defRel: hset{}, defCalls: map[*ssa.Defer]bool{}}
}

func (s *lstate) clone() *lstate {
	o := &lstate{reached: s.reached, may: s.may.clone(), must: s.must.clone(), defRel: s.defRel.clone(), defCalls: map[*ssa.Defer]bool{}}
	for k := range s.defCalls {
		o.defCalls[k] = true
	}
	return o
}

// join o into s; reports whether s changed
func (s *lstate) join(o *lstate) bool {
	if !o.reached {
		return false
	}
	if !s.reached {
		*s = *o.clone()
		return true
	}
	changed := false
	for k, m := range o.may {
		if s.may[k] < m {
			s.may[k] = m
			changed = true
		}
	}
	for k, m := range s.must {
		om, ok := o.must[k]
		if !ok {
			delete(s.must, k)
			changed = true
		} else if om < m {
			s.must[k] = om
			changed = true
		}
	}
	for k, m := range o.defRel {
		if s.defRel[k] < m {
			s.defRel[k] = m
			changed = true
		}
	}
	for k := range o.defCalls {
		if !s.defCalls[k] {
			s.defCalls[k] = true
			changed = true
		}
	}
	return changed
}

type lockClass struct {
	ID    int    `json:"id"`
	Name  string `json:"name"`
	Owner string `json:"owner"` // struct that declares the mutex field; "" for a package-level mutex
	RW    bool   `json:"rw"`
	Pos   string `json:"pos"`
	Sites int    `json:"acquisition_sites"`
}

type lockEdge struct {
	From    int    `json:"from"`
	To      int    `json:"to"`
	Witness string `json:"witness"`
	Exempt  string `json:"exempt,omitempty"`
}

type accessRow struct {
	ID       int      `json:"id"`
	Field    string   `json:"field"`
	FieldID  int      `json:"field_id"`
	Accessor string   `json:"accessor"`
	FuncID   int      `json:"func_id"`
	Kind     string   `json:"kind"` // R | W
	Atomic   bool     `json:"atomic"`
	Prepub   bool     `json:"prepub"`
	Variant  string   `json:"variant"` // struct embedding the accessed object ("" = unknown)
	Held     [][2]int `json:"held"`    // must-held (class, mode)
	HeldStr  string   `json:"held_names"`
	Sites    []string `json:"sites"`
	Witness  string   `json:"witness"`
	Note     string   `json:"note,omitempty"`
}

type trackedField struct {
	ID     int
	Name   string
	Struct string
}

type analyzer struct {
	prog    *ssa.Program
	fset    *token.FileSet
	scope   map[*types.Package]bool
	spine   *types.Package
	modelP  *types.Package
	classes []*lockClass
	classBy map[string]int // "pkg.Struct.field" or "pkg.var"

	fields  []*trackedField
	fieldBy map[string]int
	structs map[string]int // struct name -> id

	funcs  []string
	funcBy map[string]int

	edges    map[[2]int]*lockEdge
	rows     map[string]*accessRow
	rowOrder []string

	visited     map[string]bool
	unsupported []string
	unsupSeen   map[string]bool
	roots       []string
	threadRoots map[string]bool

	namedTypes []*types.Named // candidates for class-hierarchy analysis
	allFuncs   []*ssa.Function
	chaCache   map[string][]*ssa.Function
	sigCache   map[string][]*ssa.Function
	nvisits    int
	lockSites  map[string]int
	dynNotes   map[string]bool
}

func (a *analyzer) unsup(f string, args ...any) {
	s := fmt.Sprintf(f, args...)
	if !a.unsupSeen[s] {
		a.unsupSeen[s] = true
		a.unsupported = append(a.unsupported, s)
	}
}

func (a *analyzer) pos(p token.Pos) string {
	if !p.IsValid() {
		return "?"
	}
	pp := a.fset.Position(p)
	rel := pp.Filename
	if i := strings.Index(rel, "/spine/"); i >= 0 {
		rel = rel[i+1:]
	} else if i := strings.Index(rel, "/model/"); i >= 0 {
		rel = rel[i+1:]
	}
	return fmt.Sprintf("%s:%d", rel, pp.Line)
}

func namedOf(t types.Type) *types.Named {
	t = types.Unalias(t)
	if p, ok := t.(*types.Pointer); ok {
		t = types.Unalias(p.Elem())
	}
	if n, ok := t.(*types.Named); ok {
		return n.Origin()
	}
	return nil
}

func (a *analyzer) typeName(n *types.Named) string {
	if n == nil || n.Obj() == nil {
		return "?"
	}
	pk := ""
	if n.Obj().Pkg() != nil && n.Obj().Pkg() != a.spine {
		pk = n.Obj().Pkg().Name() + "."
	}
	return pk + n.Obj().Name()
}

func (a *analyzer) fnPkg(fn *ssa.Function) *types.Package {
	for f := fn; f != nil; f = f.Parent() {
		if o := f.Origin(); o != nil {
			f = o
		}
		if f.Pkg != nil {
			return f.Pkg.Pkg
		}
		if f.Signature != nil && f.Signature.Recv() != nil {
			if n := namedOf(f.Signature.Recv().Type()); n != nil && n.Obj() != nil {
				return n.Obj().Pkg()
			}
		}
	}
	return nil
}

var anonRe = regexp.MustCompile(`\$(\d+)$`)

func (a *analyzer) shortName(fn *ssa.Function) string {
	if o := fn.Origin(); o != nil {
		fn = o
	}
	if p := fn.Parent(); p != nil {
		n := fn.Name() // parent$1
		if m := anonRe.FindStringSubmatch(n); m != nil {
			return a.shortName(p) + "$" + m[1]
		}
		return a.shortName(p) + "$" + n
	}
	name := fn.Name()
	pk := ""
	if p := a.fnPkg(fn); p != nil && p != a.spine {
		pk = p.Name() + "."
	}
	if fn.Signature != nil && fn.Signature.Recv() != nil {
		if n := namedOf(fn.Signature.Recv().Type()); n != nil {
			return pk + n.Obj().Name() + "." + name
		}
	}
	return pk + name
}

func (a *analyzer) inScope(fn *ssa.Function) bool {
	if fn == nil {
		return false
	}
	p := a.fnPkg(fn)
	return p != nil && a.scope[p]
}

func (a *analyzer) funcID(name string) int {
	if id, ok := a.funcBy[name]; ok {
		return id
	}
	a.funcs = append(a.funcs, name)
	a.funcBy[name] = len(a.funcs)
	return len(a.funcs)
}

func isMutexType(t types.Type) (isMutex, rw bool) {
	n, ok := types.Unalias(t).(*types.Named)
	if !ok || n.Obj().Pkg() == nil || n.Obj().Pkg().Path() != "sync" {
		return false, false
	}
	switch n.Obj().Name() {
	case "Mutex":
		return true, false
	case "RWMutex":
		return true, true
	}
	return false, false
}

// discover mutex classes and tracked fields from the package scopes
func (a *analyzer) discover(pkgs []*ssa.Package) {
	for _, sp := range pkgs {
		tp := sp.Pkg
		names := tp.Scope().Names()
		sort.Strings(names)
		for _, nm := range names {
			obj := tp.Scope().Lookup(nm)
			switch o := obj.(type) {
			case *types.TypeName:
				if o.IsAlias() {
					continue
				}
				n, ok := o.Type().(*types.Named)
				if !ok {
					continue
				}
				if _, isIface := n.Underlying().(*types.Interface); !isIface {
					a.namedTypes = append(a.namedTypes, n)
				}
				st, ok := n.Underlying().(*types.Struct)
				if !ok {
					continue
				}
				sname := a.typeName(n)
				for i := 0; i < st.NumFields(); i++ {
					f := st.Field(i)
					if m, rw := isMutexType(f.Type()); m {
						a.addClass(sname+"."+f.Name(), sname, rw, a.pos(f.Pos()))
						continue
					}
					if p, ok := types.Unalias(f.Type()).(*types.Pointer); ok {
						if m, _ := isMutexType(p.Elem()); m {
							a.unsup("mutex held through a pointer field %s.%s (%s): receiver not statically resolvable", sname, f.Name(), a.pos(f.Pos()))
						}
					}
					if tp == a.spine {
						a.addField(sname+"."+f.Name(), sname)
					}
				}
			case *types.Var:
				if m, rw := isMutexType(o.Type()); m {
					a.addClass(a.globalName(o), "", rw, a.pos(o.Pos()))
				} else if tp == a.spine {
					a.addField(a.globalName(o), "")
				}
			}
		}
	}
}

func (a *analyzer) globalName(o types.Object) string {
	if o == nil {
		return "?"
	}
	if o.Pkg() != nil && o.Pkg() != a.spine {
		return o.Pkg().Name() + "." + o.Name()
	}
	return "var." + o.Name()
}

func (a *analyzer) addClass(name, owner string, rw bool, pos string) {
	c := &lockClass{ID: len(a.classes) + 1, Name: name, Owner: owner, RW: rw, Pos: pos}
	a.classes = append(a.classes, c)
	a.classBy[name] = c.ID
}

func (a *analyzer) addField(name, strct string) {
	if _, ok := a.fieldBy[name]; ok {
		return
	}
	if strct != "" {
		if _, ok := a.structs[strct]; !ok {
			a.structs[strct] = len(a.structs) + 1
		}
	}
	f := &trackedField{ID: len(a.fields) + 1, Name: name, Struct: strct}
	a.fields = append(a.fields, f)
	a.fieldBy[name] = f.ID
}

// fieldKey returns the tracked-field / class key of a field address
func (a *analyzer) fieldKey(fa *ssa.FieldAddr) (string, *types.Var) {
	n := namedOf(fa.X.Type())
	if n == nil {
		return "", nil
	}
	st, ok := n.Underlying().(*types.Struct)
	if !ok || fa.Field >= st.NumFields() {
		return "", nil
	}
	f := st.Field(fa.Field)
	return a.typeName(n) + "." + f.Name(), f
}

func (a *analyzer) lockClassOf(v ssa.Value) (int, bool) {
	switch x := v.(type) {
	case *ssa.FieldAddr:
		k, _ := a.fieldKey(x)
		id, ok := a.classBy[k]
		return id, ok
	case *ssa.Global:
		id, ok := a.classBy[a.globalName(x.Object())]
		return id, ok
	}
	return 0, false
}

// ---- freshness (object not yet published) ----

func (a *analyzer) isFresh(v ssa.Value, fn *ssa.Function, fresh uint32, depth int) bool {
	if depth > 8 {
		return false
	}
	switch x := v.(type) {
	case *ssa.Alloc:
		return true
	case *ssa.Parameter:
		for i, p := range fn.Params {
			if p == x && i < 32 {
				return fresh&(1<<uint(i)) != 0
			}
		}
	case *ssa.UnOp:
		if x.Op == token.MUL {
			if fa, ok := x.X.(*ssa.FieldAddr); ok {
				if _, f := a.fieldKey(fa); f != nil && f.Embedded() {
					return a.isFresh(fa.X, fn, fresh, depth+1)
				}
			}
		}
	case *ssa.Call:
		if c := x.Call.StaticCallee(); c != nil && a.inScope(c) && c.Parent() == nil &&
			(strings.HasPrefix(c.Name(), "New") || strings.HasPrefix(c.Name(), "new")) {
			return true
		}
	case *ssa.MakeInterface:
		return a.isFresh(x.X, fn, fresh, depth+1)
	case *ssa.ChangeInterface:
		return a.isFresh(x.X, fn, fresh, depth+1)
	case *ssa.ChangeType:
		return a.isFresh(x.X, fn, fresh, depth+1)
	case *ssa.Phi:
		for _, e := range x.Edges {
			if e == v || !a.isFresh(e, fn, fresh, depth+1) {
				return false
			}
		}
		return len(x.Edges) > 0
	}
	return false
}

// ---- call resolution ----

func (a *analyzer) chaTargets(common *ssa.CallCommon) []*ssa.Function {
	iface, ok := common.Value.Type().Underlying().(*types.Interface)
	if !ok {
		return nil
	}
	m := common.Method
	key := types.TypeString(common.Value.Type(), nil) + "#" + m.Name()
	if r, ok := a.chaCache[key]; ok {
		return r
	}
	var out []*ssa.Function
	seen := map[*ssa.Function]bool{}
	add := func(f *ssa.Function) {
		if f != nil && !seen[f] {
			seen[f] = true
			out = append(out, f)
		}
	}
	for _, n := range a.namedTypes {
		if n.TypeParams().Len() > 0 {
			// generic type: candidates by method name (over-approximation)
			for i := 0; i < n.NumMethods(); i++ {
				if n.Method(i).Name() == m.Name() {
					add(a.prog.FuncValue(n.Method(i)))
				}
			}
			continue
		}
		var recv types.Type
		if types.Implements(n, iface) {
			recv = n
		} else if p := types.NewPointer(n); types.Implements(p, iface) {
			recv = p
		} else {
			continue
		}
		sel := a.prog.MethodSets.MethodSet(recv).Lookup(m.Pkg(), m.Name())
		if sel == nil {
			continue
		}
		add(a.prog.MethodValue(sel))
	}
	a.chaCache[key] = out
	return out
}

func (a *analyzer) sigTargets(sig *types.Signature) []*ssa.Function {
	key := types.TypeString(sig, nil)
	if r, ok := a.sigCache[key]; ok {
		return r
	}
	var out []*ssa.Function
	for _, f := range a.allFuncs {
		if f.Signature == nil || f.Signature.Recv() != nil || f.Blocks == nil {
			continue
		}
		if f.Parent() == nil && f.Pkg != nil && f.Pkg.Func(f.Name()) != f {
			continue
		}
		if types.Identical(types.NewSignatureType(nil, nil, nil, f.Signature.Params(), f.Signature.Results(), f.Signature.Variadic()),
			types.NewSignatureType(nil, nil, nil, sig.Params(), sig.Results(), sig.Variadic())) {
			out = append(out, f)
		}
	}
	a.sigCache[key] = out
	return out
}

// targets of a call: (functions to follow in scope, description of what was not followed)
func (a *analyzer) targets(common *ssa.CallCommon) []*ssa.Function {
	if common.IsInvoke() {
		return a.chaTargets(common)
	}
	if c := common.StaticCallee(); c != nil {
		return []*ssa.Function{c}
	}
	if _, ok := common.Value.(*ssa.Builtin); ok {
		return nil
	}
	if sig, ok := common.Value.Type().Underlying().(*types.Signature); ok {
		ts := a.sigTargets(sig)
		note := fmt.Sprintf("call of a function value of type %s resolved to %d function(s) of spine/model", types.TypeString(sig, func(p *types.Package) string { return p.Name() }), len(ts))
		a.dynNotes[note] = true
		return ts
	}
	return nil
}

func body(fn *ssa.Function) *ssa.Function {
	if fn == nil {
		return nil
	}
	if fn.Blocks == nil {
		if o := fn.Origin(); o != nil && o.Blocks != nil {
			return o
		}
		return nil
	}
	return fn
}

// ---- the walk ----

type actx struct {
	may, must hset
	fresh     uint32
	variant   string // struct that embeds the receiver object ("" = unknown)
	chain     []string
}

func (a *analyzer) analyze(fn *ssa.Function, c actx) {
	fn = body(fn)
	if fn == nil || !(a.inScope(fn) || fn.Pkg == nil && fn.Synthetic != "") {
		return
	}
	key := fmt.Sprintf("%p|%s|%s|%d|%s", fn, c.may.key(), c.must.key(), c.fresh, c.variant)
	if a.visited[key] {
		return
	}
	a.visited[key] = true
	a.nvisits++
	if len(c.chain) > 60 {
		a.unsup("call chain deeper than 60 at %s", a.shortName(fn))
		return
	}

	in := make([]*lstate, len(fn.Blocks))
	for i := range in {
		in[i] = newState()
	}
	entry := newState()
	entry.reached = true
	entry.may = c.may.clone()
	entry.must = c.must.clone()
	in[0] = entry
	work := []int{0}
	inWork := map[int]bool{0: true}
	iter := 0
	for len(work) > 0 {
		bi := work[0]
		work = work[1:]
		inWork[bi] = false
		iter++
		if iter > 20000 {
			a.unsup("data-flow did not converge in %s", a.shortName(fn))
			break
		}
		st := in[bi].clone()
		a.block(fn, fn.Blocks[bi], st, c, false)
		for _, succ := range fn.Blocks[bi].Succs {
			if in[succ.Index].join(st) && !inWork[succ.Index] {
				work = append(work, succ.Index)
				inWork[succ.Index] = true
			}
		}
	}
	for bi, b := range fn.Blocks {
		if !in[bi].reached {
			continue
		}
		st := in[bi].clone()
		a.block(fn, b, st, c, true)
	}
}

func (a *analyzer) chainStr(c actx, fn *ssa.Function, p token.Pos) string {
	s := strings.Join(c.chain, " > ")
	if s != "" {
		s += " > "
	}
	return s + a.shortName(fn) + " (" + a.pos(p) + ")"
}

func (a *analyzer) heldNames(h hset) string {
	ks := make([]int, 0, len(h))
	for k := range h {
		ks = append(ks, k)
	}
	sort.Ints(ks)
	var parts []string
	for _, k := range ks {
		m := "W"
		if h[k] == modeR {
			m = "R"
		}
		parts = append(parts, a.classes[k-1].Name+":"+m)
	}
	return "{" + strings.Join(parts, ", ") + "}"
}

func (a *analyzer) block(fn *ssa.Function, b *ssa.BasicBlock, st *lstate, c actx, record bool) {
	for _, ins := range b.Instrs {
		switch x := ins.(type) {
		case *ssa.Call:
			a.call(fn, x, x.Common(), st, c, record)
		case *ssa.Go:
			if record {
				for _, t := range a.targets(x.Common()) {
					a.spawn(t, "go "+a.shortName(t)+" from "+a.shortName(fn)+" ("+a.pos(x.Pos())+")")
				}
				a.closureArgsAsThreads(fn, x.Common(), x.Pos())
			}
		case *ssa.Defer:
			com := x.Common()
			if cal := com.StaticCallee(); cal != nil && isSyncLockFn(cal) {
				cls, ok := a.lockClassOf(com.Args[0])
				if !ok {
					if record {
						a.unsup("deferred %s on a receiver that is not a field address or package variable in %s (%s)", cal.Name(), a.shortName(fn), a.pos(x.Pos()))
					}
					continue
				}
				switch cal.Name() {
				case "Unlock":
					st.defRel[cls] = modeW
				case "RUnlock":
					if st.defRel[cls] < modeR {
						st.defRel[cls] = modeR
					}
				default:
					if record {
						a.unsup("deferred %s in %s (%s)", cal.Name(), a.shortName(fn), a.pos(x.Pos()))
					}
				}
				continue
			}
			st.defCalls[x] = true
		case *ssa.RunDefers:
			after := st.must.clone()
			for k := range st.defRel {
				delete(after, k)
			}
			if record {
				for d := range st.defCalls {
					for _, t := range a.targets(d.Common()) {
						a.follow(fn, t, d.Common(), st.may, after, c, d.Pos())
					}
				}
			}
			for k := range st.defRel {
				delete(st.may, k)
				delete(st.must, k)
			}
		case *ssa.Return:
			if record && (!st.may.equal(c.may) || !st.must.equal(c.must)) {
				a.unsup("function %s is not lock-balanced: enters with may=%s must=%s, returns at %s with may=%s must=%s",
					a.shortName(fn), a.heldNames(c.may), a.heldNames(c.must), a.pos(x.Pos()), a.heldNames(st.may), a.heldNames(st.must))
			}
		case *ssa.UnOp:
			if record && x.Op == token.MUL {
				switch y := x.X.(type) {
				case *ssa.FieldAddr:
					a.access(fn, y, y.X, "R", false, st, c, x.Pos(), "")
				case *ssa.Global:
					a.globalAccess(fn, y, "R", st, c, x.Pos())
				}
			}
		case *ssa.Store:
			if !record {
				continue
			}
			switch y := x.Addr.(type) {
			case *ssa.FieldAddr:
				if tracked := a.access(fn, y, y.X, "W", false, st, c, x.Pos(), ""); tracked {
					continue
				}
				if fa := loadedField(y.X); fa != nil {
					// r.address.Device = ...: a store into the object a tracked pointer field refers to
					a.access(fn, fa, fa.X, "W", false, st, c, x.Pos(), "store through the pointer")
				}
			case *ssa.Global:
				a.globalAccess(fn, y, "W", st, c, x.Pos())
			case *ssa.IndexAddr:
				if fa := loadedField(y.X); fa != nil {
					a.access(fn, fa, fa.X, "W", false, st, c, x.Pos(), "element store")
				}
			}
		case *ssa.MapUpdate:
			if record {
				if fa := loadedField(x.Map); fa != nil {
					a.access(fn, fa, fa.X, "W", false, st, c, x.Pos(), "map update")
				}
			}
		case *ssa.FieldAddr:
			if record {
				a.addrTaken(fn, x, st, c)
			}
		}
	}
}

func loadedField(v ssa.Value) *ssa.FieldAddr {
	if u, ok := v.(*ssa.UnOp); ok && u.Op == token.MUL {
		if fa, ok := u.X.(*ssa.FieldAddr); ok {
			return fa
		}
	}
	return nil
}

func isSyncLockFn(f *ssa.Function) bool {
	if f == nil || f.Pkg == nil || f.Pkg.Pkg.Path() != "sync" || f.Signature.Recv() == nil {
		return false
	}
	m, _ := isMutexType(f.Signature.Recv().Type().(*types.Pointer).Elem())
	return m
}

// library methods that mutate their receiver although they read like lookups
var mutatingExternal = map[string]bool{
	"github.com/golanguzb70/lrucache.LRUCache.Get":    true, // moves the node to the front of the list
	"github.com/golanguzb70/lrucache.LRUCache.Put":    true,
	"github.com/golanguzb70/lrucache.LRUCache.Delete": true,
}

func externalKey(f *ssa.Function) string {
	if o := f.Origin(); o != nil {
		f = o
	}
	if f.Signature == nil || f.Signature.Recv() == nil {
		return ""
	}
	n := namedOf(f.Signature.Recv().Type())
	if n == nil || n.Obj().Pkg() == nil {
		return ""
	}
	return n.Obj().Pkg().Path() + "." + n.Obj().Name() + "." + f.Name()
}

func (a *analyzer) call(fn *ssa.Function, ins ssa.Instruction, com *ssa.CallCommon, st *lstate, c actx, record bool) {
	// builtins
	if bi, ok := com.Value.(*ssa.Builtin); ok {
		if record && (bi.Name() == "delete" || bi.Name() == "copy" || bi.Name() == "clear") && len(com.Args) > 0 {
			if fa := loadedField(com.Args[0]); fa != nil {
				a.access(fn, fa, fa.X, "W", false, st, c, ins.Pos(), bi.Name())
			}
		}
		return
	}
	cal := com.StaticCallee()
	if cal != nil && isSyncLockFn(cal) {
		cls, ok := a.lockClassOf(com.Args[0])
		if !ok {
			if record {
				a.unsup("%s on a receiver that is not a field address or package variable in %s (%s)", cal.Name(), a.shortName(fn), a.pos(ins.Pos()))
			}
			return
		}
		switch cal.Name() {
		case "Lock", "RLock":
			mode := modeW
			if cal.Name() == "RLock" {
				mode = modeR
			}
			if record {
				a.lockSites[a.pos(ins.Pos())] = cls
				for h := range st.may {
					a.addEdge(h, cls, a.chainStr(c, fn, ins.Pos()))
				}
			}
			if st.may[cls] < mode {
				st.may[cls] = mode
			}
			if m, ok := st.must[cls]; !ok || m < mode {
				st.must[cls] = mode
			}
		case "Unlock", "RUnlock":
			delete(st.may, cls)
			delete(st.must, cls)
		default:
			if record {
				a.unsup("%s.%s is not modelled (%s, %s)", "sync", cal.Name(), a.shortName(fn), a.pos(ins.Pos()))
			}
		}
		return
	}
	if !record {
		return
	}
	if cal != nil && cal.Pkg != nil && cal.Pkg.Pkg.Path() == "sync/atomic" {
		for _, arg := range com.Args {
			if fa, ok := arg.(*ssa.FieldAddr); ok {
				kind := "W"
				if strings.HasPrefix(cal.Name(), "Load") {
					kind = "R"
				}
				a.access(fn, fa, fa.X, kind, true, st, c, ins.Pos(), "atomic."+cal.Name())
			}
		}
		return
	}
	if cal != nil && cal.Pkg != nil && cal.Pkg.Pkg.Path() == "time" && cal.Name() == "AfterFunc" && len(com.Args) == 2 {
		a.threadFromValue(fn, com.Args[1], "time.AfterFunc closure from "+a.shortName(fn)+" ("+a.pos(ins.Pos())+")")
		return
	}
	if cal != nil && mutatingExternal[externalKey(cal)] && len(com.Args) > 0 {
		if fa := loadedField(com.Args[0]); fa != nil {
			a.access(fn, fa, fa.X, "W", false, st, c, ins.Pos(), "mutating library call "+cal.Name())
		}
	}
	followed := false
	for _, t := range a.targets(com) {
		if bt := body(t); bt != nil && (a.inScope(bt) || bt.Pkg == nil && bt.Synthetic != "") {
			a.follow(fn, t, com, st.may, st.must, c, ins.Pos())
			followed = true
		}
	}
	if !followed || cal == nil || !a.inScope(cal) {
		// function literals handed to code outside spine/model run on the spot
		for _, arg := range com.Args {
			var f *ssa.Function
			switch v := arg.(type) {
			case *ssa.MakeClosure:
				f, _ = v.Fn.(*ssa.Function)
			case *ssa.Function:
				f = v
			case *ssa.MakeInterface: // linq's WhereT(f any)
				switch w := v.X.(type) {
				case *ssa.MakeClosure:
					f, _ = w.Fn.(*ssa.Function)
				case *ssa.Function:
					f = w
				}
			}
			if f != nil && a.inScope(f) && (cal == nil || !a.inScope(cal)) {
				nc := actx{may: st.may.clone(), must: st.must.clone(), chain: append(append([]string{}, c.chain...), a.shortName(fn)+":"+lineOf(a.pos(ins.Pos())))}
				a.analyze(f, nc)
			}
		}
	}
}

func concreteNamed(v ssa.Value) *types.Named {
	switch x := v.(type) {
	case *ssa.MakeInterface:
		return concreteNamed(x.X)
	case *ssa.ChangeInterface:
		return concreteNamed(x.X)
	}
	if _, ok := v.Type().Underlying().(*types.Interface); ok {
		return nil
	}
	return namedOf(v.Type())
}

func lineOf(p string) string {
	if i := strings.LastIndex(p, ":"); i >= 0 {
		return p[i+1:]
	}
	return p
}

func (a *analyzer) follow(fn, t *ssa.Function, com *ssa.CallCommon, may, must hset, c actx, p token.Pos) {
	bt := body(t)
	if bt == nil {
		return
	}
	var fresh uint32
	args := com.Args
	if com.IsInvoke() {
		args = append([]ssa.Value{com.Value}, com.Args...)
	}
	for i, arg := range args {
		if i < 32 && i < len(bt.Params) && a.isFresh(arg, fn, c.fresh, 0) {
			// only when the callee's parameter has the concrete type of the unpublished object
			// (a class-hierarchy candidate of another type is a spurious path anyway)
			if cn := concreteNamed(arg); cn != nil && cn == namedOf(bt.Params[i].Type()) {
				fresh |= 1 << uint(i)
			}
		}
	}
	variant := ""
	if len(args) > 0 && bt.Signature != nil && bt.Signature.Recv() != nil {
		variant = a.variantOf(args[0], fn, c)
	}
	nc := actx{may: may.clone(), must: must.clone(), fresh: fresh, variant: variant, chain: append(append([]string{}, c.chain...), a.shortName(fn)+":"+lineOf(a.pos(p)))}
	a.analyze(t, nc)
}

func (a *analyzer) spawn(t *ssa.Function, why string) {
	bt := body(t)
	if bt == nil || !a.inScope(bt) && !(bt.Pkg == nil && bt.Synthetic != "") {
		return
	}
	if !a.threadRoots[why] {
		a.threadRoots[why] = true
	}
	a.analyze(t, actx{may: hset{}, must: hset{}, chain: []string{"[" + why + "]"}})
}

func (a *analyzer) threadFromValue(fn *ssa.Function, v ssa.Value, why string) {
	switch x := v.(type) {
	case *ssa.MakeClosure:
		if f, ok := x.Fn.(*ssa.Function); ok {
			a.spawn(f, why)
		}
	case *ssa.Function:
		a.spawn(x, why)
	default:
		if sig, ok := v.Type().Underlying().(*types.Signature); ok {
			for _, t := range a.sigTargets(sig) {
				a.spawn(t, why)
			}
		}
	}
}

func (a *analyzer) closureArgsAsThreads(fn *ssa.Function, com *ssa.CallCommon, p token.Pos) {
	// `go f(x)` where f is a function value held in a variable: resolved by targets();
	// nothing else to do (the arguments are evaluated in the spawning thread)
}

func (a *analyzer) addEdge(from, to int, witness string) {
	k := [2]int{from, to}
	if e, ok := a.edges[k]; ok {
		if len(witness) < len(e.Witness) {
			e.Witness = witness
		}
		return
	}
	a.edges[k] = &lockEdge{From: from, To: to, Witness: witness}
}

func (a *analyzer) access(fn *ssa.Function, fa *ssa.FieldAddr, base ssa.Value, kind string, atomic bool, st *lstate, c actx, p token.Pos, note string) bool {
	k, fv := a.fieldKey(fa)
	if fv == nil {
		return false
	}
	if _, isClass := a.classBy[k]; isClass {
		return true
	}
	fid, ok := a.fieldBy[k]
	if !ok {
		return false
	}
	prepub := a.isFresh(base, fn, c.fresh, 0) || fn.Name() == "init"
	a.addRow(fn, k, fid, kind, atomic, prepub, a.variantOf(base, fn, c), st, c, p, note)
	return true
}

// variantOf: the struct that embeds the accessed object, when the base pointer was loaded
// from an embedded field (r.Device.address with r *DeviceRemote -> "DeviceRemote") or is the
// receiver of a method that was called on such a value
func (a *analyzer) variantOf(base ssa.Value, fn *ssa.Function, c actx) string {
	if fa := loadedField(base); fa != nil {
		if _, f := a.fieldKey(fa); f != nil && f.Embedded() {
			if n := namedOf(fa.X.Type()); n != nil {
				return a.typeName(n)
			}
		}
		return ""
	}
	if fa, ok := base.(*ssa.FieldAddr); ok { // embedded by value
		if _, f := a.fieldKey(fa); f != nil && f.Embedded() {
			if n := namedOf(fa.X.Type()); n != nil {
				return a.typeName(n)
			}
		}
		return ""
	}
	if p, ok := base.(*ssa.Parameter); ok && len(fn.Params) > 0 && fn.Params[0] == p {
		return c.variant
	}
	return ""
}

func (a *analyzer) globalAccess(fn *ssa.Function, g *ssa.Global, kind string, st *lstate, c actx, p token.Pos) {
	k := a.globalName(g.Object())
	fid, ok := a.fieldBy[k]
	if !ok {
		return
	}
	prepub := fn.Name() == "init" || strings.HasPrefix(fn.Name(), "init#")
	a.addRow(fn, k, fid, kind, false, prepub, "", st, c, p, "")
}

func (a *analyzer) addRow(fn *ssa.Function, field string, fid int, kind string, atomic, prepub bool, variant string, st *lstate, c actx, p token.Pos, note string) {
	acc := a.shortName(fn)
	key := fmt.Sprintf("%s|%s|%s|%v|%v|%s|%s", field, acc, kind, atomic, prepub, variant, st.must.key())
	site := a.pos(p)
	if r, ok := a.rows[key]; ok {
		for _, s := range r.Sites {
			if s == site {
				return
			}
		}
		r.Sites = append(r.Sites, site)
		sort.Strings(r.Sites)
		return
	}
	r := &accessRow{Field: field, FieldID: fid, Accessor: acc, FuncID: a.funcID(acc), Kind: kind, Atomic: atomic, Prepub: prepub, Variant: variant,
		HeldStr: a.heldNames(st.must), Sites: []string{site}, Witness: a.chainStr(c, fn, p), Note: note}
	ks := make([]int, 0, len(st.must))
	for k := range st.must {
		ks = append(ks, k)
	}
	sort.Ints(ks)
	for _, k := range ks {
		r.Held = append(r.Held, [2]int{k, st.must[k]})
	}
	a.rows[key] = r
	a.rowOrder = append(a.rowOrder, key)
}

// a field address that escapes (stored, passed on, captured) counts as a read here
func (a *analyzer) addrTaken(fn *ssa.Function, fa *ssa.FieldAddr, st *lstate, c actx) {
	refs := fa.Referrers()
	if refs == nil {
		return
	}
	for _, r := range *refs {
		switch y := r.(type) {
		case *ssa.UnOp:
			continue
		case *ssa.Store:
			if y.Addr == fa {
				continue
			}
		case *ssa.FieldAddr, *ssa.IndexAddr, *ssa.DebugRef:
			continue
		case ssa.CallInstruction:
			if cal := y.Common().StaticCallee(); cal != nil && (isSyncLockFn(cal) || cal.Pkg != nil && cal.Pkg.Pkg.Path() == "sync/atomic") {
				continue
			}
		}
		a.access(fn, fa, fa.X, "R", false, st, c, fa.Pos(), "address taken")
		return
	}
}

// ---- exemptions / known findings (read only) ----

type exemptions struct {
	Comment string                           `json:"_comment"`
	Edges   []struct{ From, To, Why string } `json:"edges"`
	Pairs   []struct {
		Field, A, B, Why string
	} `json:"pairs"`
}

func pairClass(field, x, y string) string {
	if y < x {
		x, y = y, x
	}
	return "race:" + field + ":" + x + ":" + y
}

// ---- emit ----

func coqStr(s string) string { return `"` + strings.ReplaceAll(s, `"`, `""`) + `"` }
func coqCmt(s string) string {
	return strings.ReplaceAll(strings.ReplaceAll(s, "(*", "( *"), "*)", "* )")
}

func genLocks() {
	cfg := &packages.Config{
		Mode: packages.LoadAllSyntax,
		Dir:  *repo,
		Env:  append(os.Environ(), "GOFLAGS=-mod=readonly", "GOPROXY=off", "GOSUMDB=off", "GOTOOLCHAIN=local", "CGO_ENABLED=0"),
	}
	pkgs, err := packages.Load(cfg, "./spine", "./model")
	if err != nil {
		fail("locks: load: %v", err)
	}
	if packages.PrintErrors(pkgs) > 0 {
		fail("locks: packages spine/model do not type-check")
	}
	prog, spkgs := ssautil.AllPackages(pkgs, ssa.BuilderMode(0))
	prog.Build()
	a := &analyzer{prog: prog, fset: prog.Fset, scope: map[*types.Package]bool{}, classBy: map[string]int{}, fieldBy: map[string]int{},
		structs: map[string]int{}, funcBy: map[string]int{}, edges: map[[2]int]*lockEdge{}, rows: map[string]*accessRow{},
		visited: map[string]bool{}, unsupSeen: map[string]bool{}, threadRoots: map[string]bool{}, chaCache: map[string][]*ssa.Function{},
		sigCache: map[string][]*ssa.Function{}, dynNotes: map[string]bool{}, lockSites: map[string]int{}}
	var mine []*ssa.Package
	for _, sp := range spkgs {
		if sp == nil {
			continue
		}
		switch {
		case strings.HasSuffix(sp.Pkg.Path(), "/spine-go/spine"):
			a.spine = sp.Pkg
		case strings.HasSuffix(sp.Pkg.Path(), "/spine-go/model"):
			a.modelP = sp.Pkg
		default:
			continue
		}
		a.scope[sp.Pkg] = true
		mine = append(mine, sp)
	}
	if a.spine == nil || a.modelP == nil {
		fail("locks: packages spine and model not found under %s", *repo)
	}
	sort.Slice(mine, func(i, j int) bool { return mine[i].Pkg.Path() > mine[j].Pkg.Path() }) // spine first
	a.discover(mine)

	// all functions of the two packages (for function-value resolution) and the roots
	all := ssautil.AllFunctions(prog)
	for f := range all {
		if a.inScope(f) && f.Blocks != nil {
			a.allFuncs = append(a.allFuncs, f)
		}
	}
	sort.Slice(a.allFuncs, func(i, j int) bool {
		if a.allFuncs[i].Pos() != a.allFuncs[j].Pos() {
			return a.allFuncs[i].Pos() < a.allFuncs[j].Pos()
		}
		return a.allFuncs[i].String() < a.allFuncs[j].String()
	})
	var roots []*ssa.Function
	for _, f := range a.allFuncs {
		if f.Parent() != nil || f.Synthetic != "" && !strings.HasPrefix(f.Synthetic, "package initializer") {
			continue
		}
		if f.Origin() != nil { // instantiation: its generic origin is the root
			continue
		}
		if f.Name() == "init" || token.IsExported(f.Name()) {
			roots = append(roots, f)
		}
	}
	for _, f := range roots {
		a.roots = append(a.roots, a.shortName(f))
		a.analyze(f, actx{may: hset{}, must: hset{}, chain: nil})
	}

	a.emit()
}

func (a *analyzer) emit() {
	root := filepath.Dir(filepath.Dir(*outDir))
	for _, cls := range a.lockSites {
		a.classes[cls-1].Sites++
	}
	// exemptions and known findings
	var ex exemptions
	if data, err := os.ReadFile(filepath.Join(root, "props", "C17.exemptions.json")); err == nil {
		if err := json.Unmarshal(data, &ex); err != nil {
			fail("locks: props/C17.exemptions.json: %v", err)
		}
	}
	known := map[string]string{}
	if data, err := os.ReadFile(filepath.Join(root, "KNOWN_FINDINGS.txt")); err == nil {
		re := regexp.MustCompile(`^finding:\s+property=C17\s+class=(\S+)\s+(.*)$`)
		for _, l := range strings.Split(string(data), "\n") {
			if m := re.FindStringSubmatch(strings.TrimSpace(l)); m != nil {
				known[m[1]] = m[2]
			}
		}
	}
	exEdge := map[[2]string]string{}
	for _, e := range ex.Edges {
		exEdge[[2]string{e.From, e.To}] = e.Why
	}

	// edges, sorted
	var edges []*lockEdge
	for _, e := range a.edges {
		if why, ok := exEdge[[2]string{a.classes[e.From-1].Name, a.classes[e.To-1].Name}]; ok {
			e.Exempt = why
		}
		edges = append(edges, e)
	}
	sort.Slice(edges, func(i, j int) bool {
		if edges[i].From != edges[j].From {
			return edges[i].From < edges[j].From
		}
		return edges[i].To < edges[j].To
	})
	// rank certificate: longest-path layering of the non-exempt edge graph if acyclic
	n := len(a.classes)
	rank := make([]int, n+1)
	indeg := make([]int, n+1)
	adj := make([][]int, n+1)
	for _, e := range edges {
		if e.Exempt != "" || e.From == e.To {
			continue
		}
		adj[e.From] = append(adj[e.From], e.To)
		indeg[e.To]++
	}
	var queue []int
	for i := 1; i <= n; i++ {
		if indeg[i] == 0 {
			queue = append(queue, i)
		}
	}
	done := 0
	for len(queue) > 0 {
		v := queue[0]
		queue = queue[1:]
		done++
		for _, w := range adj[v] {
			if rank[w] < rank[v]+1 {
				rank[w] = rank[v] + 1
			}
			indeg[w]--
			if indeg[w] == 0 {
				queue = append(queue, w)
			}
		}
	}
	acyclic := done == n
	var cyc []string
	if !acyclic {
		for i := 1; i <= n; i++ {
			if indeg[i] > 0 {
				cyc = append(cyc, a.classes[i-1].Name)
			}
		}
	}

	// rows in deterministic order
	var rows []*accessRow
	for _, k := range a.rowOrder {
		rows = append(rows, a.rows[k])
	}
	sort.SliceStable(rows, func(i, j int) bool {
		if rows[i].FieldID != rows[j].FieldID {
			return rows[i].FieldID < rows[j].FieldID
		}
		if rows[i].Accessor != rows[j].Accessor {
			return rows[i].Accessor < rows[j].Accessor
		}
		if rows[i].Kind != rows[j].Kind {
			return rows[i].Kind < rows[j].Kind
		}
		if rows[i].Variant != rows[j].Variant {
			return rows[i].Variant < rows[j].Variant
		}
		return rows[i].HeldStr < rows[j].HeldStr
	})
	for i, r := range rows {
		r.ID = i + 1
	}

	// excused pairs: exemptions (reviewed, not defects) and known findings (defects, recorded)
	type exPair struct {
		Field, A, B int
		Src         string
	}
	var excused []exPair
	var dangling []string
	addPair := func(field, x, y, src string) {
		fid, ok1 := a.fieldBy[field]
		xa, ok2 := a.funcBy[x]
		ya, ok3 := a.funcBy[y]
		if !ok1 || !ok2 || !ok3 {
			dangling = append(dangling, fmt.Sprintf("%s: (%s, %s, %s) names no row of the table", src, field, x, y))
			return
		}
		excused = append(excused, exPair{fid, xa, ya, src})
	}
	for _, p := range ex.Pairs {
		addPair(p.Field, p.A, p.B, "exemption")
	}
	var knownKeys []string
	for k := range known {
		knownKeys = append(knownKeys, k)
	}
	sort.Strings(knownKeys)
	for _, k := range knownKeys {
		parts := strings.Split(k, ":")
		if len(parts) == 4 && parts[0] == "race" && parts[1] != "heap" {
			addPair(parts[1], parts[2], parts[3], "known finding")
		}
	}

	var b strings.Builder
	b.WriteString("(* GENERATED by harness/cmd/gen (table locks) from the repository source - do not edit.\n")
	b.WriteString("   Static lock analysis of packages spine and model (go/ssa); see harness/cmd/gen/locks.go\n")
	b.WriteString("   for what is followed and what is assumed. *)\n")
	b.WriteString("From Coq Require Import List NArith String.\nImport ListNotations.\nOpen Scope N_scope.\nOpen Scope string_scope.\n\n")

	b.WriteString("(* mutex classes: (id, name, owner struct id (0 = package-level variable), RWMutex?) *)\n")
	b.WriteString("Definition classes : list (N * string * N * bool) := [\n")
	for i, c := range a.classes {
		sep := ";"
		if i == len(a.classes)-1 {
			sep = ""
		}
		fmt.Fprintf(&b, "  (%d, %s, %d, %v)%s (* %s, %d acquisition site(s) reached *)\n", c.ID, coqStr(c.Name), a.structs[c.Owner], c.RW, sep, c.Pos, c.Sites)
	}
	b.WriteString("].\n\n")

	b.WriteString("(* tracked fields: (id, name, struct id (0 = package-level variable)) *)\n")
	b.WriteString("Definition fields : list (N * string * N) := [\n")
	for i, f := range a.fields {
		sep := ";"
		if i == len(a.fields)-1 {
			sep = ""
		}
		fmt.Fprintf(&b, "  (%d, %s, %d)%s\n", f.ID, coqStr(f.Name), a.structs[f.Struct], sep)
	}
	b.WriteString("].\n\n")

	b.WriteString("(* accessor functions: (id, name) *)\nDefinition funcs : list (N * string) := [\n")
	for i, f := range a.funcs {
		sep := ";"
		if i == len(a.funcs)-1 {
			sep = ""
		}
		fmt.Fprintf(&b, "  (%d, %s)%s\n", i+1, coqStr(f), sep)
	}
	b.WriteString("].\n\n")

	b.WriteString("(* nested acquisitions (held class, acquired class), witness call chain in the comment *)\n")
	writeEdges := func(name string, exempt bool) {
		fmt.Fprintf(&b, "Definition %s : list (N * N) := [\n", name)
		first := true
		for _, e := range edges {
			if (e.Exempt != "") != exempt {
				continue
			}
			if !first {
				b.WriteString(";\n")
			}
			first = false
			fmt.Fprintf(&b, "  (%d, %d) (* %s -> %s: %s", e.From, e.To, a.classes[e.From-1].Name, a.classes[e.To-1].Name, coqCmt(e.Witness))
			if exempt {
				fmt.Fprintf(&b, " | EXEMPT: %s", coqCmt(e.Exempt))
			}
			b.WriteString(" *)")
		}
		b.WriteString("\n].\n\n")
	}
	writeEdges("edges", false)
	b.WriteString("(* edges exempted by props/C17.exemptions.json (reviewed; each with its justification) *)\n")
	writeEdges("exempt_edges", true)

	fmt.Fprintf(&b, "(* rank certificate (class id, rank): %s *)\n", map[bool]string{true: "the non-exempt edge graph is acyclic", false: "NO CERTIFICATE - the edge graph has a cycle through " + coqCmt(strings.Join(cyc, ", "))}[acyclic])
	b.WriteString("Definition rank_table : list (N * N) := [\n")
	for i := 1; i <= n; i++ {
		sep := ";"
		if i == n {
			sep = ""
		}
		r := rank[i]
		if !acyclic {
			r = 0
		}
		fmt.Fprintf(&b, "  (%d, %d)%s (* %s *)\n", i, r, sep, a.classes[i-1].Name)
	}
	b.WriteString("].\n\n")

	b.WriteString("(* access rows: (row id, field id, accessor id, write?, atomic?, before publication?,\n   id of the struct embedding the accessed object (0 = unknown), must-held [(class, write mode?)]) *)\n")
	b.WriteString("Definition accesses : list (N * N * N * bool * bool * bool * N * list (N * bool)) := [\n")
	for i, r := range rows {
		sep := ";"
		if i == len(rows)-1 {
			sep = ""
		}
		var hs []string
		for _, h := range r.Held {
			hs = append(hs, fmt.Sprintf("(%d, %v)", h[0], h[1] == modeW))
		}
		note := ""
		if r.Note != "" {
			note = " [" + r.Note + "]"
		}
		via := ""
		if r.Variant != "" {
			via = " via " + r.Variant
		}
		fmt.Fprintf(&b, "  (%d, %d, %d, %v, %v, %v, %d, [%s])%s (* %s %s by %s%s at %s under %s%s *)\n", r.ID, r.FieldID, r.FuncID, r.Kind == "W", r.Atomic, r.Prepub, a.structs[r.Variant],
			strings.Join(hs, "; "), sep, r.Field, map[string]string{"R": "read", "W": "written"}[r.Kind], r.Accessor, via, strings.Join(r.Sites, ","), r.HeldStr, coqCmt(note))
	}
	b.WriteString("].\n\n")

	b.WriteString("(* conflicting pairs that are not required to be lock-consistent: (field id, accessor id, accessor id).\n")
	b.WriteString("   Sources: KNOWN_FINDINGS.txt (defects, recorded) and props/C17.exemptions.json (reviewed, not defects). *)\n")
	b.WriteString("Definition excused_pairs : list (N * N * N) := [\n")
	for i, p := range excused {
		sep := ";"
		if i == len(excused)-1 {
			sep = ""
		}
		fmt.Fprintf(&b, "  (%d, %d, %d)%s (* %s: %s, %s / %s *)\n", p.Field, p.A, p.B, sep, p.Src, a.fields[p.Field-1].Name, a.funcs[p.A-1], a.funcs[p.B-1])
	}
	b.WriteString("].\n\n")

	b.WriteString("(* code shapes the analysis does not support (must be empty for the tables to be an over-approximation) *)\n")
	b.WriteString("Definition unsupported : list string := [\n")
	for i, u := range a.unsupported {
		sep := ";"
		if i == len(a.unsupported)-1 {
			sep = ""
		}
		fmt.Fprintf(&b, "  %s%s\n", coqStr(u), sep)
	}
	b.WriteString("].\n")
	writeIfChanged("GenLocks.v", b.String())

	sites := map[string][]string{}
	for _, r := range rows {
		for _, s := range r.Sites {
			found := false
			for _, f := range sites[s] {
				if f == r.Field {
					found = true
				}
			}
			if !found {
				sites[s] = append(sites[s], r.Field)
			}
		}
	}
	var notes []string
	for k := range a.dynNotes {
		notes = append(notes, k)
	}
	sort.Strings(notes)
	var threads []string
	for k := range a.threadRoots {
		threads = append(threads, k)
	}
	sort.Strings(threads)
	nsites := 0
	for _, c := range a.classes {
		nsites += c.Sites
	}
	out := map[string]any{
		"classes": a.classes, "edges": edges, "rows": rows, "rank": rank[1:], "acyclic": acyclic, "cycle_through": cyc,
		"unsupported": a.unsupported, "api_roots": len(a.roots), "spawned_threads": threads, "sites": sites,
		"function_value_resolution": notes, "contexts_analysed": a.nvisits, "acquisition_sites": nsites,
		"dangling_excuses": dangling, "funcs": a.funcs,
	}
	js, _ := json.MarshalIndent(out, "", " ")
	writeIfChanged("GenLocks.json", string(js)+"\n")
}
