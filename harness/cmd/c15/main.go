// C15 runner: the process-wide event bus spine.Events against coq/Model/EventBus.v.
//
// Every API call runs on a goroutine of its own that parks (a) before each call of
// its script, (b) at the `verif` yield points inside Publish ("Publish.snapshot"
// after the handler list is copied, "Publish.locked" after muHandle is taken,
// "Publish.spawned" before it is released) and (c) inside the scripted handlers.
// One operation `Step k` releases exactly one parked goroutine until it parks again,
// so the operation list is the schedule, on the real bus as in the model.
//
// op encoding (parse_op in EventBus.v):
//
//	0 l h a...   script of handler h when called at level l (0 core, 1 application); a = triples
//	             [0 l h] subscribe, [1 l h] unsubscribe, [2 0 0] publish
//	1 t k l h    caller t starts the call (k l h)
//	2 k          the (k mod n)-th of the n runnable threads takes one step
//	3 n          up to n steps of the first runnable thread
//	4 a...       burst: the calls a (triples as above, no publish) are released together on as many
//	             goroutines of their own (callers 1000, 1001, ...) with real parallelism - no hooks, all
//	             processors - when they commute (parOK = par_ok of EventBus.v: two calls on the same
//	             (level, handler) pair are of the same kind, all core-level subscriptions name one
//	             handler); otherwise one after the other in the order given.  Reported when all have
//	             returned, in the order given.  May come at any moment: parked goroutines hold at most
//	             muHandle, never events.mu.
//
// obs encoding (print_obs): thread = two ints, [0 t] caller, [h+1 e] goroutine of handler h for event e
//
//	0 T l h  subscribe returned      1 T l h  unsubscribe returned    2 T e  Publish(e) called, list copied
//	3 T e    muHandle taken          4 T l h e  HandleEvent(e) of handler h entered on thread T; level as
//	         observed: 0 = called synchronously on a publishing goroutine, 1 = on a goroutine of its own
//	5 T e n  n handler goroutines started   6 T e  Publish(e) returned   7 idle   8 deadlock (all waiting for
//	         muHandle)   9 t busy   10 T  the step did not complete within the time limit (real deadlock)
package main

import (
	"fmt"
	"os"
	"runtime"
	"strconv"
	"strings"
	"sync"
	"sync/atomic"
	"time"

	"github.com/enbility/spine-go/api"
	"github.com/enbility/spine-go/spine"

	"verifharness/hx"
)

const stepTimeout = 3 * time.Second

type act struct{ k, l, h int64 }

type item struct{ l, h int64 }

func goid() uint64 {
	var buf [64]byte
	n := runtime.Stack(buf[:], false)
	f := strings.Fields(string(buf[:n]))
	if len(f) < 2 {
		return 0
	}
	id, _ := strconv.ParseUint(f[1], 10, 64)
	return id
}

type evKind int

const (
	evPark evKind = iota
	evDone
	evArrive
)

type event struct {
	th   *thread
	kind evKind
}

// thread is one goroutine under the scheduler's control.
type thread struct {
	a, b   int64 // identity on the wire: (0,t) or (h+1,e)
	resume chan struct{}
	// where it is parked (written by the thread before it reports, read by the scheduler afterwards)
	where    string // "arrived" "pre-act" "snapshot" "locked" "core" "spawned"
	nextPub  bool   // the next call of the script it is running is Publish
	inCore   bool   // inside a core handler (so a Publish would wait for its own lock)
	curE     int64  // event of the Publish it is inside
	snapApps []int64
	finished bool
}

func (t *thread) less(o *thread) bool {
	if (t.a == 0) != (o.a == 0) {
		return t.a == 0
	}
	if t.a == 0 {
		return t.b <= o.b
	}
	if t.b != o.b {
		return t.b < o.b
	}
	return t.a <= o.a
}

// A handler's number is NOT part of the object: all handlers of a history have equal contents and
// are distinct subscribers only by identity, which is all the bus may go by (seed C15-h compared
// handlers by content).  The non-zero size keeps distinct objects at distinct addresses.
type handler struct {
	im  *impl
	pad byte
}

func (hd *handler) id() int64 {
	hd.im.hmu.Lock()
	defer hd.im.hmu.Unlock()
	return hd.im.hid[hd]
}

type impl struct {
	mu      sync.Mutex
	aborted bool
	byGoid  map[uint64]*thread
	threads []*thread // unfinished, canonical order
	scripts map[item][]act
	set     map[item]bool // who is subscribed, as far as the completed calls say (to know how many goroutines to wait for)
	locked  bool
	nextE   int64
	log     []hx.Zs // observations made by the running thread during the current step
	events  chan event
	arrived map[int64]int // event -> goroutines arrived
	impatient bool        // something timed out in this history: keep further waits short
	hs      map[int64]*handler
	hmu     sync.Mutex
	hid     map[*handler]int64
}

var statMu sync.Mutex
var stats = map[string]int{}

func stat(k string, n int) {
	statMu.Lock()
	stats[k] += n
	statMu.Unlock()
}

func newImpl() hx.Impl {
	im := &impl{byGoid: map[uint64]*thread{}, scripts: map[item][]act{}, set: map[item]bool{},
		events: make(chan event, 1024), arrived: map[int64]int{}, hs: map[int64]*handler{}, hid: map[*handler]int64{}}
	spine.VerifResetEvents()
	spine.VerifSetYield(im.yield)
	return im
}

func (im *impl) Close() {
	im.mu.Lock()
	im.aborted = true
	for _, t := range im.byGoid {
		close(t.resume)
	}
	im.mu.Unlock()
	spine.VerifSetYield(nil)
	spine.VerifResetEvents()
}

func (im *impl) current() *thread {
	g := goid()
	im.mu.Lock()
	defer im.mu.Unlock()
	return im.byGoid[g]
}

func (im *impl) emit(o hx.Zs) {
	im.mu.Lock()
	im.log = append(im.log, o)
	im.mu.Unlock()
}

// park reports that the thread stands still and waits for the scheduler.
func (im *impl) park(t *thread, where string, kind evKind) {
	t.where = where
	im.events <- event{t, kind}
	_, ok := <-t.resume
	if !ok {
		runtime.Goexit() // the history is over
	}
}

func (im *impl) yield(point string) {
	t := im.current()
	if t == nil {
		return
	}
	switch point {
	case "Publish.snapshot":
		im.emit(hx.Zs{2, t.a, t.b, t.curE})
		im.mu.Lock()
		t.snapApps = nil
		for it := range im.set {
			if it.l == 1 {
				t.snapApps = append(t.snapApps, it.h)
			}
		}
		im.mu.Unlock()
		im.park(t, "snapshot", evPark)
	case "Publish.locked":
		im.emit(hx.Zs{3, t.a, t.b, t.curE})
		im.park(t, "locked", evPark)
	case "Publish.spawned":
		im.park(t, "spawned", evPark)
	}
}

func (im *impl) script(l, h int64) []act {
	im.mu.Lock()
	defer im.mu.Unlock()
	return append([]act(nil), im.scripts[item{l, h}]...)
}

// do performs one call of a script on the real bus.
func (im *impl) do(t *thread, a act) {
	switch a.k {
	case 0:
		if a.l == 0 {
			_ = spine.VerifSubscribeCore(im.handler(a.h))
		} else {
			_ = spine.Events.Subscribe(im.handler(a.h))
		}
		im.mu.Lock()
		im.set[item{a.l, a.h}] = true
		im.mu.Unlock()
		im.emit(hx.Zs{0, t.a, t.b, a.l, a.h})
	case 1:
		if a.l == 0 {
			_ = spine.VerifUnsubscribeCore(im.handler(a.h))
		} else {
			_ = spine.Events.Unsubscribe(im.handler(a.h))
		}
		im.mu.Lock()
		delete(im.set, item{a.l, a.h})
		im.mu.Unlock()
		im.emit(hx.Zs{1, t.a, t.b, a.l, a.h})
	default:
		im.mu.Lock()
		e := im.nextE
		im.nextE++
		im.mu.Unlock()
		outer := t.curE
		t.curE = e
		stat("publish_calls", 1)
		if t.a != 0 {
			stat("publish_from_handler", 1)
		}
		spine.Events.Publish(api.EventPayload{Ski: strconv.FormatInt(e, 10), EventType: api.EventTypeDataChange})
		im.emit(hx.Zs{6, t.a, t.b, e})
		t.curE = outer
	}
}

// handler h is one object per history, made when first named
func (im *impl) handler(h int64) *handler {
	im.mu.Lock()
	defer im.mu.Unlock()
	hd := im.hs[h]
	if hd == nil {
		hd = &handler{im: im}
		im.hs[h] = hd
		im.hmu.Lock()
		im.hid[hd] = h
		im.hmu.Unlock()
	}
	return hd
}

// ---- bursts of overlapping subscribe / unsubscribe calls

const parBase = 1000

// parOK mirrors par_ok of Model/EventBus.v: the calls commute.
func parOK(acts []act) bool {
	for i, a := range acts {
		if a.k != 0 && a.k != 1 {
			return false
		}
		for _, b := range acts[i+1:] {
			if b.k != 0 && b.k != 1 {
				return false
			}
			same := a.l == b.l && a.h == b.h
			if same && a.k != b.k {
				return false
			}
			if a.k == 0 && b.k == 0 && a.l == 0 && b.l == 0 && !same {
				return false
			}
		}
	}
	return true
}

func normLevel(l int64) int64 {
	if l == 0 {
		return 0
	}
	return 1
}

// call performs one subscribe / unsubscribe on the real bus; false when it reported an error.
func (im *impl) call(a act, hd *handler) bool {
	var err error
	switch {
	case a.k == 0 && a.l == 0:
		err = spine.VerifSubscribeCore(hd)
	case a.k == 0:
		err = spine.Events.Subscribe(hd)
	case a.l == 0:
		err = spine.VerifUnsubscribeCore(hd)
	default:
		err = spine.Events.Unsubscribe(hd)
	}
	return err == nil
}

func (im *impl) par(acts []act) []hx.Zs {
	for i := range acts {
		acts[i].l = normLevel(acts[i].l)
	}
	k := len(acts)
	hds := make([]*handler, k) // looked up beforehand: nothing but the bus call after the common start
	for i, a := range acts {
		hds[i] = im.handler(a.h)
	}
	ok := make([]bool, k)
	returned := make([]atomic.Bool, k)
	busLen := len(im.set)
	if parOK(acts) && k >= 2 {
		stat("bursts_overlapped", 1)
		stat("burst_calls_overlapped", k)
		if busLen >= 500 {
			stat("bursts_overlapped_on_a_bus_of_500_or_more", 1)
		}
		samePair := true
		for _, a := range acts {
			if a != acts[0] {
				samePair = false
			}
		}
		if samePair && acts[0].k == 0 {
			stat("bursts_same_pair_subscriptions", 1)
		}
		var wg sync.WaitGroup
		var waiting atomic.Int32
		waiting.Store(int32(k))
		start := make(chan struct{})
		// A common start as tight as goroutines allow.  Up to half the processors: every goroutine
		// announces itself and then spins WITHOUT yielding its processor until all have announced
		// themselves, so that at the moment of release they are all running (measured on the seeded
		// split of subscribe into two critical sections, 16 processors, 1024 entries on the bus:
		// 8 such goroutines enter the pair twice in about 85 % of the bursts, 16 goroutines yielding
		// in the wait loop in 3 %, released by a closed channel in 1 %).  A goroutine that has spun
		// for 5 ms yields from then on (the others may not have got a processor).  More calls than
		// that: yielding wait loop; the big fills: a closed channel.
		procs := runtime.GOMAXPROCS(0)
		tight := k <= procs/2 || k == 2 && procs >= 2
		spin := k <= 64
		if tight {
			stat("bursts_with_tight_common_start", 1)
		}
		for i := range acts {
			wg.Add(1)
			go func(i int) {
				defer wg.Done()
				switch {
				case tight:
					waiting.Add(-1)
					deadline := time.Now().Add(5 * time.Millisecond)
					late := false
					for n := 1; waiting.Load() > 0; n++ {
						if late {
							runtime.Gosched()
						} else if n&255 == 0 && time.Now().After(deadline) {
							late = true
						}
					}
				case spin:
					waiting.Add(-1)
					for waiting.Load() > 0 {
						runtime.Gosched()
					}
				default:
					<-start
				}
				ok[i] = im.call(acts[i], hds[i])
				returned[i].Store(true)
			}(i)
		}
		close(start)
		fin := make(chan struct{})
		go func() { wg.Wait(); close(fin) }()
		select {
		case <-fin:
		case <-time.After(im.patienceOr()):
			im.impatient = true
		}
	} else {
		stat("bursts_one_call_after_the_other", 1)
		for i, a := range acts {
			if a.k == 0 || a.k == 1 {
				ok[i] = im.call(a, hds[i])
				returned[i].Store(true)
			}
		}
	}
	var out []hx.Zs
	im.mu.Lock()
	for i, a := range acts {
		if a.k != 0 && a.k != 1 {
			continue
		}
		if !returned[i].Load() {
			out = append(out, hx.Zs{10, 0, parBase + int64(i)})
			continue
		}
		if !ok[i] {
			continue // an error return is not an observation of the model: the comparison shows it
		}
		if a.k == 0 {
			im.set[item{a.l, a.h}] = true
		} else {
			delete(im.set, item{a.l, a.h})
		}
		out = append(out, hx.Zs{a.k, 0, parBase + int64(i), a.l, a.h})
	}
	im.mu.Unlock()
	return out
}

// runScript: park before every call (an API caller, an application handler).
func (im *impl) runScript(t *thread, acts []act) {
	for _, a := range acts {
		t.nextPub = a.k == 2
		im.park(t, "pre-act", evPark)
		im.do(t, a)
	}
}

func (im *impl) finish(t *thread) {
	t.finished = true
	im.events <- event{t, evDone}
}

// HandleEvent: the level is what is observed - called on a goroutine the scheduler
// knows (a publisher inside Publish): core; on a fresh goroutine: application.
func (hd *handler) HandleEvent(p api.EventPayload) {
	im := hd.im
	hdh := hd.id()
	e, err := strconv.ParseInt(p.Ski, 10, 64)
	if err != nil {
		return
	}
	g := goid()
	im.mu.Lock()
	if im.aborted {
		im.mu.Unlock()
		return
	}
	t := im.byGoid[g]
	if t == nil {
		t = &thread{a: hdh + 1, b: e, resume: make(chan struct{})}
		im.byGoid[g] = t
		im.mu.Unlock()
		stat("application_deliveries", 1)
		im.park(t, "arrived", evArrive)
		im.emit(hx.Zs{4, t.a, t.b, 1, hdh, e})
		im.runScript(t, im.script(1, hdh))
		im.finish(t)
		return
	}
	im.mu.Unlock()
	// synchronous call inside a thread that is publishing
	stat("core_deliveries", 1)
	im.emit(hx.Zs{4, t.a, t.b, 0, hdh, e})
	acts := im.script(0, hdh)
	t.inCore = true
	t.nextPub = len(acts) > 0 && acts[0].k == 2
	im.park(t, "core", evPark)
	for i, a := range acts {
		im.do(t, a)
		t.nextPub = i+1 < len(acts) && acts[i+1].k == 2
		im.park(t, "core", evPark)
	}
	t.inCore = false
	t.nextPub = false
}

// ---- scheduler

func (im *impl) insert(t *thread) {
	i := 0
	for i < len(im.threads) && im.threads[i].less(t) {
		i++
	}
	im.threads = append(im.threads, nil)
	copy(im.threads[i+1:], im.threads[i:])
	im.threads[i] = t
}

func (im *impl) remove(t *thread) {
	for i, x := range im.threads {
		if x == t {
			im.threads = append(im.threads[:i], im.threads[i+1:]...)
			return
		}
	}
}

func (im *impl) runnable(t *thread) bool {
	if t.where == "snapshot" {
		return !im.locked
	}
	if t.where == "core" && t.nextPub {
		return false
	}
	return t.where != "stuck"
}

// await waits until thread t parks or finishes; goroutines arriving meanwhile join the table.
func (im *impl) await(t *thread) bool {
	timer := time.NewTimer(im.patienceOr())
	defer timer.Stop()
	for {
		select {
		case ev := <-im.events:
			if ev.kind == evArrive {
				im.arrive(ev.th)
				continue
			}
			if ev.th == t {
				return true
			}
		case <-timer.C:
			im.impatient = true
			return false
		}
	}
}

// patienceOr: the full step timeout until something has timed out once in this history; after
// that the history has already diverged from the model and further waits are kept short, so a
// wedged bus costs seconds per history and not minutes.
func (im *impl) patienceOr() time.Duration {
	if im.impatient {
		return 40 * time.Millisecond
	}
	return stepTimeout
}

func (im *impl) arrive(t *thread) {
	im.arrived[t.b]++
	im.insert(t)
}

func (im *impl) drainArrivals() {
	for {
		select {
		case ev := <-im.events:
			if ev.kind == evArrive {
				im.arrive(ev.th)
			}
		default:
			return
		}
	}
}

func (im *impl) takeLog() []hx.Zs {
	im.mu.Lock()
	defer im.mu.Unlock()
	l := im.log
	im.log = nil
	return l
}

func (im *impl) sched(k int64) []hx.Zs {
	im.drainArrivals()
	var run []*thread
	for _, t := range im.threads {
		if im.runnable(t) {
			run = append(run, t)
		}
	}
	if len(run) == 0 {
		if len(im.threads) == 0 {
			return []hx.Zs{{7}}
		}
		return []hx.Zs{{8}}
	}
	t := run[int(k%int64(len(run)))]
	if len(run) > 1 {
		stat("steps_with_a_choice", 1)
	}
	if im.locked && t.where != "locked" && t.where != "core" && t.where != "spawned" {
		stat("steps_of_others_while_handle_lock_held", 1)
	}
	was := t.where
	t.resume <- struct{}{}
	if !im.await(t) {
		t.where = "stuck"
		stat("stuck", 1)
		return append(im.takeLog(), hx.Zs{10, t.a, t.b})
	}
	out := im.takeLog()
	if t.where == "locked" && was == "snapshot" {
		im.locked = true
	}
	if was == "spawned" {
		im.locked = false
	}
	if t.where == "spawned" && was != "spawned" {
		// wait for the goroutines of the application handlers subscribed when the list was copied
		deadline := time.Now().Add(im.patienceOr())
		want := map[int64]bool{}
		for _, h := range t.snapApps {
			want[h] = true
		}
		for {
			missing := 0
			for _, x := range im.threads {
				if x.a != 0 && x.b == t.curE {
					delete(want, x.a-1)
				}
			}
			missing = len(want)
			if missing == 0 {
				break
			}
			if time.Now().After(deadline) {
				im.impatient = true
				break
			}
			select {
			case ev := <-im.events:
				if ev.kind == evArrive {
					im.arrive(ev.th)
				}
			case <-time.After(time.Until(deadline)):
			}
		}
		out = append(out, hx.Zs{5, t.a, t.b, t.curE, int64(im.arrived[t.curE])})
	}
	if t.finished {
		im.remove(t)
	}
	return out
}

func quiet(o []hx.Zs) bool {
	return len(o) == 1 && len(o[0]) == 1 && (o[0][0] == 7 || o[0][0] == 8)
}

func (im *impl) Exec(op hx.Zs) []hx.Zs {
	switch op[0] {
	case 0:
		var acts []act
		for i := 3; i+2 < len(op); i += 3 {
			acts = append(acts, act{op[i], op[i+1], op[i+2]})
		}
		im.mu.Lock()
		im.scripts[item{op[1], op[2]}] = acts
		im.mu.Unlock()
		return nil
	case 1:
		for _, t := range im.threads {
			if t.a == 0 && t.b == op[1] {
				return []hx.Zs{{9, op[1]}}
			}
		}
		t := &thread{a: 0, b: op[1], resume: make(chan struct{})}
		a := act{op[2], op[3], op[4]}
		started := make(chan struct{})
		go func() {
			im.mu.Lock()
			im.byGoid[goid()] = t
			im.mu.Unlock()
			close(started)
			im.runScript(t, []act{a})
			im.finish(t)
		}()
		<-started
		im.insert(t)
		if !im.await(t) { // parks before its call
			return []hx.Zs{{10, 0, op[1]}}
		}
		return nil
	case 2:
		return im.sched(op[1])
	case 4:
		var acts []act
		for i := 1; i+2 < len(op); i += 3 {
			acts = append(acts, act{op[i], op[i+1], op[i+2]})
		}
		return im.par(acts)
	case 3:
		var out []hx.Zs
		for i := int64(0); i < op[1]; i++ {
			o := im.sched(0)
			out = append(out, o...)
			if quiet(o) {
				break
			}
		}
		return out
	}
	return nil
}

// ---- generator

func encScript(l, h int64, acts []act) hx.Zs {
	z := hx.Zs{0, l, h}
	for _, a := range acts {
		z = append(z, a.k, a.l, a.h)
	}
	return z
}

func randAct(r *hx.Rng, level int64, nh int, pubChance int) act {
	if level == 1 && r.Chance(pubChance, 100) {
		return act{2, 0, 0}
	}
	return act{int64(r.Intn(2)), int64(r.Intn(2)), int64(r.Intn(nh))}
}

// genBurst: a burst over the handlers 0..nh-1; mostly well posed (the runner overlaps those).
func genBurst(r *hx.Rng, nh int) hx.Zs {
	z := hx.Zs{4}
	add := func(k, l, h int) { z = append(z, int64(k), int64(l), int64(h)) }
	switch r.Pick(4, 3, 2, 4, 1) {
	case 0: // one pair subscribed several times over
		l, h := r.Intn(2), r.Intn(nh)
		for n := r.Range(2, 6); n > 0; n-- {
			add(0, l, h)
		}
	case 1: // subscriptions of several pairs (core level: one handler)
		coreH := r.Intn(nh)
		for n := r.Range(2, 5); n > 0; n-- {
			l, h := r.Intn(2), r.Intn(nh)
			if l == 0 {
				h = coreH
			}
			add(0, l, h)
		}
	case 2: // unsubscriptions
		for n := r.Range(2, 5); n > 0; n-- {
			add(1, r.Intn(2), r.Intn(nh))
		}
	case 3: // a mix: every pair either subscribed or unsubscribed, possibly by several calls
		coreSub := false
		for len(z) < 7 {
			z = hx.Zs{4}
			coreSub = false
			for l := 0; l < 2; l++ {
				for h := 0; h < nh; h++ {
					if r.Chance(1, 2) {
						continue
					}
					k := r.Intn(2)
					if k == 0 && l == 0 {
						if coreSub {
							k = 1
						}
						coreSub = k == 0
					}
					for n := r.Pick(3, 1); n >= 0; n-- {
						add(k, l, h)
					}
				}
			}
		}
		// the order given is only one of the serialisations: shuffle the calls
		n := (len(z) - 1) / 3
		for a := n - 1; a > 0; a-- {
			b := r.Intn(a + 1)
			for c := 0; c < 3; c++ {
				z[1+3*a+c], z[1+3*b+c] = z[1+3*b+c], z[1+3*a+c]
			}
		}
	default: // anything: when the calls do not commute the runner takes them one after the other
		for n := r.Range(2, 4); n > 0; n-- {
			add(r.Intn(2), r.Intn(2), r.Intn(nh))
		}
	}
	return z
}

const (
	wideEvery   = 30   // one generated history in wideEvery is a wide-bus history
	wideFillers = 1024 // other subscribers on the bus while the bursts run: a long "already subscribed?" scan
	wideCalls   = 8    // overlapping subscriptions of one pair (half the processors of the machine this was tuned on)
	wideTargets = 60   // handlers that are subscribed that way, at either level, in one such history
	fillerBase  = 1000
)

// genWide: the bus is filled with many other subscribers; then, target by target (both levels),
// wideCalls overlapping subscriptions of the same pair; the other subscribers leave again (another
// burst) and one publication shows how often each target is on the bus.  Before that, two bursts
// of subscriptions of different pairs and a mixed burst, also on the full bus.
func genWide(r *hx.Rng, tier string, i int) []hx.Zs {
	fillers := wideFillers
	if i == 5 {
		fillers = 48 // the first one is short enough for the in-Coq cross-check sample
	}
	var h []hx.Zs
	fill, unfill := hx.Zs{4}, hx.Zs{4}
	for f := 0; f < fillers; f++ {
		fill = append(fill, 0, 1, int64(fillerBase+f))
		unfill = append(unfill, 1, 1, int64(fillerBase+f))
	}
	h = append(h, fill)
	nt := r.Range(wideTargets-8, wideTargets)
	if i == 5 {
		nt = 6
	}
	type pair struct{ l, h int64 }
	var targets []pair
	for t := 0; t < nt; t++ {
		targets = append(targets, pair{0, int64(t)}, pair{1, int64(t)})
	}
	for a := len(targets) - 1; a > 0; a-- {
		b := r.Intn(a + 1)
		targets[a], targets[b] = targets[b], targets[a]
	}
	for _, t := range targets {
		k := wideCalls
		if r.Chance(1, 6) {
			k = r.Range(2, wideCalls)
		}
		b := hx.Zs{4}
		for ; k > 0; k-- {
			b = append(b, 0, t.l, t.h)
		}
		h = append(h, b)
	}
	// overlapping subscriptions of DIFFERENT pairs on the full bus (one core-level pair among them):
	// every one of them must be there afterwards
	next := int64(wideTargets)
	for n := 2; n > 0; n-- {
		b := hx.Zs{4, 0, 0, next}
		for k := 1; k < wideCalls; k++ {
			b = append(b, 0, 1, next+int64(k))
		}
		next += wideCalls
		h = append(h, b)
	}
	// a mix: some targets leave (two calls each), new pairs come
	b := hx.Zs{4}
	for _, t := range targets[:4] {
		b = append(b, 1, t.l, t.h, 1, t.l, t.h)
	}
	for k := int64(0); k < 8; k++ {
		b = append(b, 0, 1, next+k)
	}
	h = append(h, b)
	h = append(h, unfill, hx.Zs{1, 0, 2, 0, 0}, hx.Zs{3, 600}, hx.Zs{2, 0})
	return h
}

func gen(r *hx.Rng, tier string, i int) []hx.Zs {
	if i%wideEvery == 5 || os.Getenv("C15_ONLY_WIDE") != "" { // the variable: only for measuring how often a seeded race is hit
		return genWide(r, tier, i)
	}
	var h []hx.Zs
	nh := r.Range(2, 4)
	kind := i % 4
	pub := []int{0, 12, 25, 8}[kind]
	// handler behaviours
	for l := int64(0); l < 2; l++ {
		for x := 0; x < nh; x++ {
			if r.Chance(1, 2) {
				continue
			}
			var acts []act
			for n := r.Range(1, 2); n > 0; n-- {
				acts = append(acts, randAct(r, l, nh, pub))
			}
			h = append(h, encScript(l, int64(x), acts))
		}
	}
	// initial subscriptions
	for n := r.Range(1, 5); n > 0; n-- {
		h = append(h, hx.Zs{1, int64(r.Intn(4)), 0, int64(r.Intn(2)), int64(r.Intn(nh))}, hx.Zs{2, 0})
	}
	n := r.Range(10, 60)
	if tier == "thorough" {
		n = r.Range(10, 140)
	}
	for len(h) < n {
		switch r.Pick(22, 50, 4, 3, 5) {
		case 4:
			h = append(h, genBurst(r, nh))
		case 0:
			t := int64(r.Intn(4))
			switch r.Pick(5, 3, 3) {
			case 0:
				h = append(h, hx.Zs{1, t, 2, 0, 0})
			case 1:
				h = append(h, hx.Zs{1, t, 0, int64(r.Intn(2)), int64(r.Intn(nh))})
			default:
				h = append(h, hx.Zs{1, t, 1, int64(r.Intn(2)), int64(r.Intn(nh))})
			}
		case 1:
			h = append(h, hx.Zs{2, int64(r.Intn(6))})
		case 2:
			h = append(h, hx.Zs{3, int64(r.Range(1, 12))})
		default:
			l := int64(r.Intn(2))
			var acts []act
			for k := r.Intn(3); k > 0; k-- {
				acts = append(acts, randAct(r, l, nh, pub))
			}
			h = append(h, encScript(l, int64(r.Intn(nh)), acts))
		}
	}
	h = append(h, hx.Zs{3, 150}, hx.Zs{2, 0})
	return h
}

func fixed(tier string) [][]hx.Zs {
	sub := func(t, l, h int64) hx.Zs { return hx.Zs{1, t, 0, l, h} }
	unsub := func(t, l, h int64) hx.Zs { return hx.Zs{1, t, 1, l, h} }
	pub := func(t int64) hx.Zs { return hx.Zs{1, t, 2, 0, 0} }
	step := func(k int64) hx.Zs { return hx.Zs{2, k} }
	drain := hx.Zs{3, 100}
	par := func(acts ...act) hx.Zs {
		z := hx.Zs{4}
		for _, a := range acts {
			z = append(z, a.k, a.l, a.h)
		}
		return z
	}
	rep := func(n int, a act) []act {
		var l []act
		for ; n > 0; n-- {
			l = append(l, a)
		}
		return l
	}
	return [][]hx.Zs{
		// the burst example of Properties/C15.v: overlapping subscriptions while a publication is parked after its snapshot
		{sub(0, 1, 1), hx.Zs{3, 5}, pub(0), step(0), par(act{0, 1, 2}, act{0, 0, 3}, act{0, 1, 2}, act{0, 1, 2}), hx.Zs{3, 50},
			pub(0), hx.Zs{3, 50}, par(act{1, 1, 1}, act{0, 1, 4}, act{1, 0, 3}), pub(0), hx.Zs{3, 50}, step(0)},
		// eight overlapping subscriptions of one handler, at either level: it is subscribed once per level
		{par(rep(8, act{0, 1, 1})...), par(rep(8, act{0, 0, 1})...), pub(0), drain, par(rep(4, act{1, 1, 1})...), pub(0), drain, step(0)},
		// calls that do not commute are taken in the order given
		{par(act{0, 1, 1}, act{1, 1, 1}, act{0, 0, 2}, act{0, 0, 3}), pub(0), drain, par(act{1, 0, 2}, act{0, 0, 2}), pub(0), drain, step(0)},
		// a burst while a publisher holds the handler lock inside a core handler
		{sub(0, 0, 0), step(0), pub(0), step(0), step(0), step(0), par(act{0, 1, 1}, act{0, 1, 2}, act{1, 0, 0}, act{0, 1, 1}), drain,
			pub(0), drain, step(0)},
		// the non-vacuity example of Properties/C15.v
		{encScript(0, 1, []act{{0, 1, 3}}), encScript(1, 2, []act{{1, 1, 2}, {2, 0, 0}}),
			sub(0, 0, 1), sub(1, 1, 2), sub(2, 1, 2), hx.Zs{3, 10}, pub(0), step(0), unsub(1, 1, 2), step(1), drain, step(0)},
		// subscribing twice = once; the same handler at both levels gets the event once per level
		{sub(0, 1, 1), step(0), sub(0, 1, 1), step(0), sub(0, 0, 1), step(0), sub(0, 0, 1), step(0), pub(1), drain, step(0)},
		// unsubscription returned before Publish is called: nothing delivered
		{sub(0, 1, 1), step(0), sub(0, 0, 2), step(0), unsub(0, 1, 1), step(0), unsub(0, 0, 2), step(0), pub(1), drain, step(0)},
		// two publishers: both copy the list, the second waits for muHandle while the first is inside a core handler
		{encScript(0, 0, []act{{1, 0, 0}, {0, 1, 2}}), sub(0, 0, 0), step(0), sub(0, 1, 1), step(0),
			pub(0), pub(1), step(0), step(1), step(0), step(0), step(1), step(0), step(0), drain, step(0)},
		// a handler unsubscribes itself while handling, at both levels; a later event is not delivered to it
		{encScript(0, 0, []act{{1, 0, 0}}), encScript(1, 1, []act{{1, 1, 1}}), sub(0, 0, 0), step(0), sub(0, 1, 1), step(0),
			pub(0), drain, pub(0), drain, step(0)},
		// application handlers park while the publisher returns and publishes again (asynchronous delivery)
		{sub(0, 1, 0), step(0), sub(0, 1, 1), step(0), pub(0), step(0), step(0), step(0), step(0), pub(0), step(0), step(0), step(0), step(0),
			step(3), step(0), step(1), drain, step(0)},
	}
}

func main() {
	hx.Main(hx.Config{
		Property: "C15",
		Clauses: map[int64]string{1: "delivered-to-a-handler-not-subscribed-at-publication", 2: "delivered-twice",
			3: "core-handler-not-first", 4: "application-handler-not-asynchronous", 5: "delivery-or-return-missing",
			6: "deadlock", 7: "impossible-observation", 98: "unparseable-observation", 99: "unparseable-operation"},
		OpNames: map[int64]string{0: "script", 1: "call", 2: "step", 3: "drain", 4: "burst"},
		NewImpl: newImpl,
		Gen:     gen,
		Fixed:   fixed,
		Count:   map[string]int{"quick": 1500, "thorough": 40000},
		Extra: func() map[string]any {
			statMu.Lock()
			defer statMu.Unlock()
			m := map[string]any{}
			for k, v := range stats {
				m[k] = v
			}
			m["note"] = "handlers are scripted objects (one per handler number and history) subscribed through Events.Subscribe / VerifSubscribeCore; the level of a delivery is observed (synchronous on the publisher's goroutine = core, own goroutine = application)"
			m["bursts_note"] = fmt.Sprintf("a burst = overlapping subscribe/unsubscribe calls released together on goroutines of their own, all processors (GOMAXPROCS=%d), no hooks; one generated history in %d fills the bus with %d other subscribers and then runs, for %d-%d targets (handlers at either level), %d overlapping subscriptions of the same pair (the window between the 'already subscribed?' scan and the append grows with the length of the bus), two bursts of as many subscriptions of different pairs and a mixed burst, empties the bus again and publishes once: a pair entered twice is delivered twice, a lost one is missing", runtime.GOMAXPROCS(0), wideEvery, wideFillers, 2*(wideTargets-8), 2*wideTargets, wideCalls)
			return m
		},
	})
}
