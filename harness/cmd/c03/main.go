// C03 runner: the remote write gate (write permission + binding at the moment of the
// write; authorisation follows grants, unbinds, disconnects and entity removals), real
// stack vs coq/Model/Stack.v judged by coq/Spec/C03Spec.v.
package main

import (
	"fmt"
	"verifharness/hx"
	"verifharness/stack"
)

var outcomes = map[string]int{}
var features = map[string]int{}

func has(out []hx.Zs, prefix ...int64) bool {
	for _, o := range out {
		if len(o) >= len(prefix) {
			ok := true
			for i, v := range prefix {
				if o[i] != v {
					ok = false
				}
			}
			if ok {
				return true
			}
		}
	}
	return false
}

type impl struct{ w *stack.World }

func newImpl() hx.Impl { return &impl{w: stack.New()} }
func (m *impl) Close() { m.w.Close() }
func (m *impl) Exec(op hx.Zs) []hx.Zs {
	out := m.w.Exec(op)
	if len(op) > 0 {
		switch op[0] {
		case 12:
			switch {
			case has(out, 5, 4):
				outcomes["write-accepted"]++
			case len(out) == 0:
				outcomes["write-dropped"]++
			default:
				outcomes["write-refused"]++
			}
			if has(out, 2) {
				outcomes["write-with-notification"]++
			}
		case 9:
			if has(out, 5, 3, 0) {
				outcomes["bind-granted"]++
			} else {
				outcomes["bind-not-granted"]++
			}
		case 10:
			if has(out, 5, 3, 2) {
				outcomes["unbind-done"]++
			} else {
				outcomes["unbind-not-done"]++
			}
		}
	}
	return out
}

func pickAddr(r *hx.Rng, a stack.FAddr) stack.FAddr {
	if r.Chance(1, 4) {
		a.Dev = 0
	}
	return a
}

type grant struct {
	p        stack.Peer
	cf       stack.RFeat
	lf       stack.LFeat
	cli, srv stack.FAddr
}

func gen(r *hx.Rng, tier string, i int) []hx.Zs {
	if i%16 == 11 {
		// an entity announced again without its features, then torn down; another peer binds and writes
		return stack.Reannounce(r)
	}
	focus := int64(r.Range(1, 3))
	if r.Chance(1, 5) {
		focus = 0
	}
	pl := stack.GenPlanFocus(r, focus)
	h := append([]hx.Zs{}, pl.Prefix...)
	// now and then a function announced (even writable) on a feature whose type does not support it
	for _, lf := range pl.Local {
		if lf.Role == 1 && r.Chance(1, 6) {
			h = append(h, stack.OpAddFunction(lf.Ent, lf.Id, int64(r.Range(1, 4)), true, r.Bool()))
			features["foreign-function-announced"]++
		}
	}
	h = append(h, pl.ConnectAll()...)
	ctr := map[int64]int64{}
	next := func(p int64) int64 { ctr[p]++; return 100*p + ctr[p] }
	connected := map[int64]bool{}
	for _, p := range pl.Peers {
		connected[p.Ski] = true
	}
	servers := pl.Servers()
	if len(servers) == 0 {
		servers = pl.Local
	}
	var grants []grant
	// candidate (client feature, server feature) pairs that the grant rule accepts
	var cands []grant
	for _, p := range pl.Peers {
		for _, cf := range p.Feats {
			if cf.Role != 0 || cf.Ent[0] == 0 {
				continue
			}
			for _, lf := range servers {
				if lf.Role == 1 && (lf.Type == cf.Type || lf.Type == 4 || cf.Type == 4) {
					cands = append(cands, grant{p: p, cf: cf, lf: lf, cli: p.Addr(cf, true), srv: lf.Addr(true)})
				}
			}
		}
	}
	bind := func(g grant) {
		t := g.lf.Type
		if t == 4 {
			t = g.cf.Type
		}
		h = append(h, stack.OpBindCall(g.p.Ski, next(g.p.Ski), r.Bool(), pickAddr(r, g.cli), pickAddr(r, g.srv), t+1))
		grants = append(grants, g)
	}
	fnOf := func(lf stack.LFeat) int64 {
		if len(lf.Fns) > 0 && r.Chance(6, 7) {
			return lf.Fns[r.Intn(len(lf.Fns))]
		}
		return int64(r.Range(1, 4))
	}
	write := func(p stack.Peer, src stack.FAddr, lf stack.LFeat) {
		fn := fnOf(lf)
		h = append(h, stack.OpWrite(p.Ski, next(p.Ski), r.Bool(), src, lf.Addr(r.Chance(5, 6)), fn, int64(r.Range(1, 900))))
		if r.Chance(3, 4) {
			h = append(h, stack.OpReadData(lf.Ent, lf.Id, fn))
		}
	}
	n := r.Range(12, 60)
	if tier == "thorough" {
		n = r.Range(12, 140)
	}
	// subscriptions of some remote features, so that an accepted write has someone to notify
	for _, p := range pl.Peers {
		if r.Chance(1, 2) && len(servers) > 0 {
			lf := servers[r.Intn(len(servers))]
			h = append(h, stack.OpSubCall(p.Ski, next(p.Ski), false, p.Addr(p.Feats[r.Intn(len(p.Feats))], true), lf.Addr(true), lf.Type+1))
		}
	}
	for len(h) < len(pl.Prefix)+n {
		p := pl.Peers[r.Intn(len(pl.Peers))]
		if !connected[p.Ski] && r.Chance(1, 3) {
			h = append(h, stack.OpConnect(p.Ski), stack.OpDiscoveryReply(p.Ski, p.Msg(0, nil)))
			connected[p.Ski] = true
			features["reconnect"]++
		}
		switch r.Pick(16, 30, 8, 8, 5, 5, 5, 4, 3) {
		case 0: // bind
			if len(cands) > 0 && r.Chance(5, 6) {
				bind(cands[r.Intn(len(cands))])
			} else {
				lf := pl.Local[r.Intn(len(pl.Local))]
				cf := p.Feats[r.Intn(len(p.Feats))]
				bind(grant{p: p, cf: cf, lf: lf, cli: p.Addr(cf, true), srv: lf.Addr(true)})
			}
			features["bind"]++
		case 1: // write
			switch {
			case len(grants) > 0 && r.Chance(3, 5): // the (possibly) bound writer to its feature
				g := grants[r.Intn(len(grants))]
				write(g.p, g.cli, g.lf)
				features["write-by-granted-pair"]++
			case len(grants) > 0 && r.Chance(1, 2): // another peer's feature with the same numbers, or another feature of the bound peer
				g := grants[r.Intn(len(grants))]
				q := pl.Peers[r.Intn(len(pl.Peers))]
				src := stack.FAddr{Dev: q.Dev + 1, Ent: g.cf.Ent, Feat: g.cf.Id + 1}
				if r.Chance(1, 3) {
					src = q.Addr(q.Feats[r.Intn(len(q.Feats))], true)
				}
				if r.Chance(1, 6) {
					src.Dev = g.p.Dev + 1 // naming the bound peer's device on another connection
				}
				write(q, src, g.lf)
				features["write-by-other-feature-or-peer"]++
			default:
				lf := pl.Local[r.Intn(len(pl.Local))]
				src := p.Addr(p.Feats[r.Intn(len(p.Feats))], true)
				if r.Chance(1, 8) {
					src = stack.FAddr{Dev: p.Dev + 1, Ent: []int64{int64(r.Range(1, 3))}, Feat: int64(r.Range(1, 6))}
				}
				write(p, src, lf)
				features["write-random"]++
			}
		case 2: // unbind
			if len(grants) > 0 && r.Chance(5, 6) {
				g := grants[r.Intn(len(grants))]
				h = append(h, stack.OpBindDelete(g.p.Ski, next(g.p.Ski), r.Bool(), pickAddr(r, g.cli), pickAddr(r, g.srv)))
				if r.Chance(2, 3) {
					write(g.p, g.cli, g.lf)
					features["write-right-after-unbind"]++
				}
			} else {
				lf := pl.Local[r.Intn(len(pl.Local))]
				h = append(h, stack.OpBindDelete(p.Ski, next(p.Ski), r.Bool(), p.Addr(p.Feats[r.Intn(len(p.Feats))], r.Bool()), lf.Addr(r.Bool())))
			}
			features["unbind"]++
		case 3: // local data change
			lf := pl.Local[r.Intn(len(pl.Local))]
			fn := fnOf(lf)
			h = append(h, stack.OpSetData(lf.Ent, lf.Id, fn, int64(r.Range(1, 900))))
			if r.Bool() {
				h = append(h, stack.OpReadData(lf.Ent, lf.Id, fn))
			}
		case 4: // disconnect / reconnect
			if connected[p.Ski] {
				// now and then the disconnect is overlapped by a bind / unbind call of another connected
				// peer q for a server feature p never asked a binding for (the two commute), after which q
				// writes: the authorisation must be exactly what q's call produced
				var over hx.Zs
				if r.Chance(1, 2) {
					for _, g := range cands {
						if g.p.Ski == p.Ski || !connected[g.p.Ski] {
							continue
						}
						used := false
						for _, x := range grants {
							if x.p.Ski == p.Ski && fmt.Sprint(x.lf.Ent, x.lf.Id) == fmt.Sprint(g.lf.Ent, g.lf.Id) {
								used = true
							}
						}
						if used {
							continue
						}
						t := g.lf.Type
						if t == 4 {
							t = g.cf.Type
						}
						held := false
						for _, x := range grants {
							if x.p.Ski == g.p.Ski && fmt.Sprint(x.cli, x.srv) == fmt.Sprint(g.cli, g.srv) {
								held = true
							}
						}
						if held && r.Bool() {
							over = stack.OpBindDelete(g.p.Ski, next(g.p.Ski), r.Bool(), g.cli, g.srv)
						} else {
							over = stack.OpBindCall(g.p.Ski, next(g.p.Ski), r.Bool(), g.cli, g.srv, t+1)
							grants = append(grants, g)
						}
						h = append(h, stack.OpDuring(stack.OpDisconnect(p.Ski), over))
						write(g.p, g.cli, g.lf)
						features["disconnect-overlapped-by-bind-or-unbind"]++
						break
					}
				}
				if over == nil {
					h = append(h, stack.OpDisconnect(p.Ski))
				}
				connected[p.Ski] = false
				features["disconnect"]++
			} else if r.Chance(2, 3) {
				h = append(h, stack.OpConnect(p.Ski), stack.OpDiscoveryReply(p.Ski, p.Msg(0, nil)))
				connected[p.Ski] = true
				features["reconnect"]++
			} else {
				// binding through the node-management feature before the discovery reply, then the reply
				h = append(h, stack.OpConnect(p.Ski))
				connected[p.Ski] = true
				h = append(h, stack.OpBindCall(p.Ski, next(p.Ski), r.Bool(), p.NMAddr(false), stack.NodeMgmt.Addr(true), 6))
				if r.Bool() {
					lf := pl.Local[r.Intn(len(pl.Local))]
					h = append(h, stack.OpBindCall(p.Ski, next(p.Ski), r.Bool(), p.Addr(p.Feats[r.Intn(len(p.Feats))], false), lf.Addr(true), lf.Type+1))
				}
				h = append(h, stack.OpListBinds(p.Ski), stack.OpDiscoveryReply(p.Ski, p.Msg(0, nil)), stack.OpListBinds(p.Ski))
				features["pre-reply-binding-then-reply"]++
			}
			for _, g := range grants {
				if g.p.Ski == p.Ski && r.Chance(1, 2) {
					write(g.p, g.cli, g.lf)
					features["write-right-after-disconnect-or-reconnect"]++
					break
				}
			}
		case 5: // entity removed / re-added
			if len(p.Ents) > 1 {
				e := p.Ents[1+r.Intn(len(p.Ents)-1)]
				st := int64(2)
				if r.Chance(1, 3) {
					st = 1
				}
				switch {
				case r.Chance(1, 4):
					h = append(h, stack.OpDiscoveryNotify(p.Ski, next(p.Ski), r.Bool(), p.MixedNotify(r)))
					features["notification-mixing-added-and-removed"]++
				case r.Chance(1, 3):
					h = append(h, stack.OpDiscoveryReply(p.Ski, p.PartialReply(r)))
					features["reply-omitting-entities"]++
				default:
					h = append(h, stack.OpDiscoveryNotify(p.Ski, next(p.Ski), r.Bool(), p.Msg(st, [][]int64{e})))
				}
				features["entity-removed-or-readded"]++
				for _, g := range grants {
					if g.p.Ski == p.Ski && r.Chance(1, 2) {
						write(g.p, g.cli, g.lf)
						features["write-right-after-entity-change"]++
						break
					}
				}
			}
		case 6: // read
			lf := pl.Local[r.Intn(len(pl.Local))]
			h = append(h, stack.OpReadData(lf.Ent, lf.Id, fnOf(lf)))
		case 7: // reconnect without a disconnect (the transport replaces the connection)
			h = append(h, stack.OpConnect(p.Ski), stack.OpDiscoveryReply(p.Ski, p.Msg(0, nil)))
			connected[p.Ski] = true
			features["reconnect-replacing"]++
		default:
			h = append(h, stack.OpListBinds(p.Ski))
		}
	}
	for _, lf := range pl.Local {
		for _, fn := range lf.Fns {
			h = append(h, stack.OpReadData(lf.Ent, lf.Id, fn))
		}
	}
	return h
}

func main() {
	hx.Main(hx.Config{
		Property: "C03",
		Clauses: map[int64]string{1: "unauthorised-write-not-refused-with-one-error", 2: "unauthorised-write-notified-a-subscriber",
			3: "unauthorised-write-published-a-data-event", 4: "data-not-what-authorised-writes-produced", 5: "authorised-write-not-accepted",
			98: "unparseable-observation", 99: "unparseable-operation"},
		OpNames: stack.OpNames,
		NewImpl: newImpl,
		Gen:     gen,
		Count:   map[string]int{"quick": 2500, "thorough": 60000},
		Extra: func() map[string]any {
			return map[string]any{"implementation_outcomes": outcomes, "history_features": features}
		},
	})
}
