// C10 runner: teardown of one peer or entity never leaks into another.
// Real stack (harness/stack) vs coq/Model/Stack.v, judged by coq/Spec/C10Spec.v.
//
// Worlds: 2-3 peers whose trees use IDENTICAL entity and feature numbers (one template),
// device addresses distinct, partly equal or all equal, and peers that have not (yet) sent
// their discovery reply (device address unknown; they subscribe through their node
// management feature or through entities announced by partial notification, name features
// they have not announced, and may answer late).  Discovery traffic of the repaired code:
// notifications mixing added and removed entries, replies that omit announced entities or [0].  Every peer
// subscribes and binds, local client features subscribe/bind to the peers; connections are
// dropped, re-established and entities announced as removed at arbitrary points; after each
// teardown a probe block lists every peer's entries, changes the data of every subscribed
// server feature, queries the client-side bookkeeping and resolves every device.
//
// Not generated (see DESIGN.md "As built — Stack family"): an identical local request repeated
// on one connection (withheld by the sender's request cache, which Model/Stack.v does not
// describe), a local request to a device address announced by two connected peers (the
// receiving connection is chosen by map iteration order), a device-less discovery message that
// re-creates the features of [0] (the model identifies the node-management feature object by its
// address), a re-announced different device address (only the recorded corpus witness).
package main

import (
	"fmt"
	"os"
	"sync"

	"verifharness/hx"
	"verifharness/stack"
)

type lfeat struct {
	ent    []int64
	id     int64
	typ    int64
	role   int64
	fns    []int64
	wr     map[int64]bool
	subbed bool
}

type rfeat struct {
	ent           []int64
	id, typ, role int64
}

type peerSt struct {
	ski, dev  int64 // dev: device number k (address d<k>)
	late      bool  // does not answer the discovery request at connect
	connected bool
	replied   bool
	preNM     bool // made an entry through [0]:0 before its reply in this connection
	foreign   bool // announced an entity under a device address before its own reply
	ents      map[string]bool
}

type ref struct {
	sub  bool
	lf   lfeat
	addr stack.FAddr
}

// allowPreNM: a discovery reply may follow registry entries made through the node-management
// feature before the reply (default; C10_ALLOW_PRENM=0 restores the old restriction).
var allowPreNM = os.Getenv("C10_ALLOW_PRENM") != "0"

var (
	statMu sync.Mutex
	stats  = map[string]int{}
)

func count(k string) {
	statMu.Lock()
	stats[k]++
	statMu.Unlock()
}

func ekey(e []int64) string { return fmt.Sprint(e) }

type gen struct {
	r      *hx.Rng
	h      []hx.Zs
	local  []lfeat
	tmpl   []rfeat   // remote features per non-zero entity (shared template)
	rents  [][]int64 // remote entities besides [0]
	peers  []*peerSt
	ctr    map[int64]int64
	refs   []ref
	nmRefs map[int64]bool // device numbers the local node management subscribed to
	asked  map[string]bool
	gen    map[int64]int   // connection generation per SKI
	mode   int             // 0: device addresses pairwise distinct
	bound  map[string]bool // "ski/server" pairs for which a binding was requested
}

func (g *gen) next(p int64) int64 { g.ctr[p]++; return 100*p + g.ctr[p] }
func (g *gen) add(op hx.Zs)       { g.h = append(g.h, op) }

func (g *gen) servers() []lfeat {
	var s []lfeat
	for _, f := range g.local {
		if f.role == 1 {
			s = append(s, f)
		}
	}
	return s
}

func (g *gen) clients() []lfeat {
	var s []lfeat
	for _, f := range g.local {
		if f.role == 0 {
			s = append(s, f)
		}
	}
	return s
}

func laddr(f lfeat, withDev bool) stack.FAddr {
	a := stack.FAddr{Ent: f.ent, Feat: f.id + 1}
	if withDev {
		a.Dev = 1
	}
	return a
}

// the address under which peer p's feature is known: the device part is there once the
// entity was announced with a device address
func (g *gen) raddr(p *peerSt, f rfeat, withDev bool) stack.FAddr {
	a := stack.FAddr{Ent: f.ent, Feat: f.id + 1}
	if withDev && p.replied {
		a.Dev = p.dev + 1
	}
	return a
}

func (g *gen) msg(p *peerSt, state int64, ents [][]int64, dev int64) stack.DiscMsg {
	m := stack.DiscMsg{Dev: dev}
	for _, e := range ents {
		m.Ents = append(m.Ents, stack.DiscEnt{Addr: e, State: state})
		if state == 2 {
			continue
		}
		if len(e) == 1 && e[0] == 0 {
			m.Feats = append(m.Feats, stack.DiscFeat{Ent: e, Id: 0, Type: 5, Role: 2})
			continue
		}
		for _, f := range g.tmpl {
			if ekey(f.ent) == ekey(e) {
				m.Feats = append(m.Feats, stack.DiscFeat{Ent: f.ent, Id: f.id, Type: f.typ, Role: f.role})
			}
		}
	}
	return m
}

// reply sends a discovery reply of p; with omit, entities announced earlier may be left out
// (the reply then removes them with their subscriptions and bindings) and so may [0]
// (which the stack keeps)
func (g *gen) reply(p *peerSt, omit bool) {
	listed := [][]int64{}
	if !omit || g.r.Chance(4, 5) {
		listed = append(listed, []int64{0})
	} else {
		count("replies-omitting-entity-0")
	}
	omitted := 0
	for _, e := range g.rents {
		if omit && g.r.Chance(1, 3) {
			if p.ents[ekey(e)] {
				omitted++
			}
			continue
		}
		listed = append(listed, e)
	}
	if omitted > 0 {
		count("replies-omitting-announced-entities")
	}
	g.add(stack.OpDiscoveryReply(p.ski, g.msg(p, 0, listed, p.dev+1)))
	p.replied = true
	p.ents = map[string]bool{"[0]": true}
	for _, e := range listed {
		p.ents[ekey(e)] = true
	}
	g.nmRefs[p.dev] = true
}

func (g *gen) connect(p *peerSt) {
	g.add(stack.OpConnect(p.ski))
	g.gen[p.ski]++
	p.connected, p.replied, p.preNM = true, false, false
	p.ents = map[string]bool{"[0]": true}
	if !p.late {
		g.reply(p, g.r.Chance(1, 6))
	} else {
		count("connections-without-discovery-reply")
	}
}

// how many connected peers announce device number d
func (g *gen) announcers(d int64) int {
	n := 0
	for _, p := range g.peers {
		if p.connected && p.replied && p.dev == d {
			n++
		}
	}
	return n
}

// compatible: a subscription/binding of f on s is granted as far as roles and types go
func compatible(f rfeat, s lfeat) bool {
	return f.role == 0 && (s.typ == f.typ || s.typ == 4 || f.typ == 4)
}

// overlap: while a teardown of p runs (disconnect, entity-removing notification or reply), the
// subscribe / bind / delete call of another peer q arrives.  Only calls that commute with the
// teardown are generated (then "teardown, then call" is the only outcome): device addresses
// pairwise distinct, no entity announced under a foreign address, q has answered the discovery
// request, and a binding request only for a server feature p never asked a binding for.
func (g *gen) overlap(p *peerSt) {
	r := g.r
	if g.mode != 0 || !p.connected || p.foreign || len(g.tmpl) == 0 {
		return
	}
	var qs []*peerSt
	for _, q := range g.peers {
		if q != p && q.connected && q.replied && !q.foreign {
			qs = append(qs, q)
		}
	}
	srvs := g.servers()
	if len(qs) == 0 || len(srvs) == 0 {
		return
	}
	q := qs[r.Intn(len(qs))]
	// give p something to lose (a subscription and, sometimes, a binding on a feature of its own)
	var pf []rfeat
	for _, f := range g.tmpl {
		if p.ents[ekey(f.ent)] {
			pf = append(pf, f)
		}
	}
	if len(pf) > 0 && r.Chance(4, 5) {
		f := pf[r.Intn(len(pf))]
		for _, s := range srvs {
			if compatible(f, s) {
				t := s.typ
				if t == 4 {
					t = f.typ
				}
				g.add(stack.OpSubCall(p.ski, g.next(p.ski), r.Bool(), g.raddr(p, f, true), laddr(s, true), t+1))
				if r.Chance(1, 3) {
					g.bound[fmt.Sprint(p.ski, s.ent, s.id)] = true
					g.add(stack.OpBindCall(p.ski, g.next(p.ski), r.Bool(), g.raddr(p, f, true), laddr(s, true), t+1))
				}
				break
			}
		}
	}
	// q's call
	var qf []rfeat
	for _, f := range g.tmpl {
		if q.ents[ekey(f.ent)] {
			qf = append(qf, f)
		}
	}
	if len(qf) == 0 {
		return
	}
	f := qf[r.Intn(len(qf))]
	s := srvs[r.Intn(len(srvs))]
	for _, c := range srvs {
		if compatible(f, c) && r.Chance(2, 3) {
			s = c
			break
		}
	}
	t := s.typ
	if t == 4 {
		t = f.typ
	}
	var call hx.Zs
	switch r.Pick(5, 2, 3, 1) {
	case 0:
		call = stack.OpSubCall(q.ski, g.next(q.ski), r.Bool(), g.raddr(q, f, true), laddr(s, true), t+1)
	case 1:
		call = stack.OpSubDelete(q.ski, g.next(q.ski), r.Bool(), g.raddr(q, f, r.Bool()), laddr(s, true))
	case 2:
		if g.bound[fmt.Sprint(p.ski, s.ent, s.id)] {
			return
		}
		g.bound[fmt.Sprint(q.ski, s.ent, s.id)] = true
		call = stack.OpBindCall(q.ski, g.next(q.ski), r.Bool(), g.raddr(q, f, true), laddr(s, true), t+1)
	default:
		call = stack.OpBindDelete(q.ski, g.next(q.ski), r.Bool(), g.raddr(q, f, r.Bool()), laddr(s, true))
	}
	// p's teardown
	var td hx.Zs
	switch r.Pick(5, 3, 2) {
	case 0:
		td = stack.OpDisconnect(p.ski)
		if !p.replied {
			count("teardowns-of-address-less-peer")
		}
		p.connected = false
		count("disconnects")
	case 1:
		if len(pf) == 0 {
			return
		}
		e := pf[r.Intn(len(pf))].ent
		dev := int64(0)
		if p.replied {
			dev = p.dev + 1
		}
		td = stack.OpDiscoveryNotify(p.ski, g.next(p.ski), r.Bool(), g.msg(p, 2, [][]int64{e}, dev))
		delete(p.ents, ekey(e))
		count("entity-removals")
	default:
		if !p.replied {
			return
		}
		h := len(g.h)
		g.reply(p, true)
		td = g.h[h]
		g.h = g.h[:h]
		count("repeated-discovery-replies")
	}
	g.add(stack.OpDuring(td, call))
	count("teardowns-overlapped-by-a-call-of-another-peer")
	g.probe()
}

func (g *gen) probe() {
	for _, p := range g.peers {
		g.add(stack.OpListSubs(p.ski))
		g.add(stack.OpListBinds(p.ski))
	}
	for _, s := range g.servers() {
		if len(s.fns) > 0 {
			g.add(stack.OpSetData(s.ent, s.id, s.fns[g.r.Intn(len(s.fns))], int64(g.r.Range(1, 900))))
		}
	}
	for _, rf := range g.refs {
		if rf.sub {
			g.add(stack.OpHasLocalSub(rf.lf.ent, rf.lf.id, rf.addr))
		} else {
			g.add(stack.OpHasLocalBind(rf.lf.ent, rf.lf.id, rf.addr))
		}
	}
	for d := int64(0); d < 10; d++ { // in increasing order: map iteration must not leak into the history
		if g.nmRefs[d] {
			g.add(stack.OpHasLocalSub([]int64{0}, 0, stack.FAddr{Dev: d + 1, Ent: []int64{0}, Feat: 1}))
		}
	}
	for _, p := range g.peers {
		g.add(stack.OpResolve(p.ski, p.dev+1))
	}
}

func genHistory(r *hx.Rng, tier string, i int) []hx.Zs {
	if i%12 == 3 {
		// a notification round held in its first write while a later subscriber is disconnected
		count("notification-rounds-overlapped-by-a-disconnect")
		return stack.RoundOverlap(r)
	}
	if i%12 == 7 {
		// an entity announced again without (all of) its features, then torn down
		count("entities-announced-again-then-torn-down")
		return stack.Reannounce(r)
	}
	g := &gen{r: r, ctr: map[int64]int64{}, nmRefs: map[int64]bool{}, asked: map[string]bool{}, gen: map[int64]int{}, bound: map[string]bool{}}

	// ---- local tree: servers with functions, client features for local requests
	fnsOfType := map[int64][]int64{1: {1, 2}, 2: {3}, 3: {4}, 4: {}}
	for _, e := range [][]int64{{1}, {2}}[:r.Range(1, 2)] {
		g.add(stack.OpAddLocalEntity(e))
		seen := map[[2]int64]bool{}
		n := r.Range(2, 4)
		for k := 0; k < n; k++ {
			t := int64(r.Range(1, 3))
			if r.Chance(1, 8) {
				t = 4
			}
			role := int64(1)
			if k == n-1 || r.Chance(1, 4) {
				role = 0
			}
			id := int64(k + 1)
			g.add(stack.OpAddLocalFeature(e, t, role))
			if seen[[2]int64{t, role}] {
				continue // dropped by EntityLocal.AddFeature, the id is consumed
			}
			seen[[2]int64{t, role}] = true
			f := lfeat{ent: e, id: id, typ: t, role: role, wr: map[int64]bool{}}
			for _, fn := range fnsOfType[t] {
				if r.Chance(5, 6) {
					wr := r.Chance(3, 5)
					g.add(stack.OpAddFunction(e, id, fn, true, wr))
					if role == 1 {
						f.fns = append(f.fns, fn)
						f.wr[fn] = wr
					}
				}
			}
			g.local = append(g.local, f)
		}
	}
	focus := int64(0)
	if s := g.servers(); len(s) > 0 {
		focus = s[r.Intn(len(s))].typ
	}

	// ---- one remote tree template shared by all peers
	g.rents = [][]int64{{1}, {2}, {1, 1}}[:r.Range(1, 3)]
	for _, e := range g.rents {
		for k := 0; k < r.Range(1, 3); k++ {
			t := int64(r.Range(1, 3))
			if focus != 0 && r.Chance(2, 3) {
				t = focus
			}
			if r.Chance(1, 10) {
				t = 4
			}
			role := int64(0)
			if r.Chance(1, 6) {
				role = 1
			}
			g.tmpl = append(g.tmpl, rfeat{ent: e, id: int64(k + 1), typ: t, role: role})
		}
	}

	// ---- peers: identical numbering; device addresses distinct / partly equal / all equal
	np := r.Range(2, 3)
	mode := r.Pick(5, 2, 2)
	g.mode = mode
	for k := 1; k <= np; k++ {
		p := &peerSt{ski: int64(k), dev: int64(k), ents: map[string]bool{}}
		switch mode {
		case 1:
			p.dev = 1
		case 2:
			if k >= 2 {
				p.dev = 2
			}
		}
		p.late = r.Chance(1, 4)
		g.peers = append(g.peers, p)
	}
	switch mode {
	case 0:
		count("worlds-distinct-device-addresses")
	default:
		count("worlds-with-equal-device-addresses")
	}
	for _, p := range g.peers {
		g.connect(p)
	}

	n := r.Range(12, 45)
	if tier == "thorough" {
		n = r.Range(12, 110)
	}
	start := len(g.h)
	for len(g.h) < start+n {
		p := g.peers[r.Intn(len(g.peers))]
		switch r.Pick(22, 10, 8, 6, 6, 4, 8, 7, 5, 5, 4, 3, 9, 5) {
		case 0: // subscribe call
			if !p.connected {
				break
			}
			srvs := g.servers()
			if p.replied || len(p.ents) > 1 || r.Chance(1, 8) {
				var cands []rfeat
				anyFeature := r.Chance(1, 10) // may name a feature the peer does not (or no longer) announce
				for _, f := range g.tmpl {
					if p.ents[ekey(f.ent)] || anyFeature {
						cands = append(cands, f)
					}
				}
				if len(cands) > 0 && len(srvs) > 0 {
					f := cands[r.Intn(len(cands))]
					s := srvs[r.Intn(len(srvs))]
					t := s.typ + 1
					if r.Chance(1, 12) {
						t = int64(r.Range(1, 4)) + 1
					}
					if r.Chance(1, 40) {
						t = 0 // serverFeatureType missing
					}
					if !p.replied && !p.ents[ekey(f.ent)] {
						count("calls-of-address-less-peer-naming-unknown-feature")
					}
					g.add(stack.OpSubCall(p.ski, g.next(p.ski), r.Bool(), g.raddr(p, f, r.Chance(3, 4)), laddr(s, r.Chance(3, 4)), t))
					break
				}
			}
			// through the node management features (the only feature before the reply)
			if !p.replied {
				p.preNM = true
				count("registry-calls-before-discovery-reply")
			}
			cli := stack.FAddr{Ent: []int64{0}, Feat: 1}
			if p.replied && r.Chance(3, 4) {
				cli.Dev = p.dev + 1
			}
			g.add(stack.OpSubCall(p.ski, g.next(p.ski), r.Bool(), cli, stack.FAddr{Dev: 1, Ent: []int64{0}, Feat: 1}, 6))
		case 1: // bind call
			if !p.connected {
				break
			}
			var cands []rfeat
			anyFeature := r.Chance(1, 10)
			for _, f := range g.tmpl {
				if p.ents[ekey(f.ent)] || anyFeature {
					cands = append(cands, f)
				}
			}
			srvs := g.servers()
			if len(cands) > 0 && len(srvs) > 0 {
				f := cands[r.Intn(len(cands))]
				s := srvs[r.Intn(len(srvs))]
				if !p.replied && !p.ents[ekey(f.ent)] {
					count("calls-of-address-less-peer-naming-unknown-feature")
				}
				g.bound[fmt.Sprint(p.ski, s.ent, s.id)] = true
				g.add(stack.OpBindCall(p.ski, g.next(p.ski), r.Bool(), g.raddr(p, f, true), laddr(s, true), s.typ+1))
			}
		case 2: // local data change
			if srvs := g.servers(); len(srvs) > 0 {
				s := srvs[r.Intn(len(srvs))]
				if len(s.fns) > 0 {
					g.add(stack.OpSetData(s.ent, s.id, s.fns[r.Intn(len(s.fns))], int64(r.Range(1, 900))))
				}
			}
		case 3: // remote write
			if !p.connected {
				break
			}
			srvs := g.servers()
			var cands []rfeat
			for _, f := range g.tmpl {
				if p.ents[ekey(f.ent)] {
					cands = append(cands, f)
				}
			}
			if len(srvs) > 0 && len(cands) > 0 {
				s := srvs[r.Intn(len(srvs))]
				f := cands[r.Intn(len(cands))]
				fn := int64(r.Range(1, 4))
				if len(s.fns) > 0 && r.Chance(5, 6) {
					fn = s.fns[r.Intn(len(s.fns))]
				}
				g.add(stack.OpWrite(p.ski, g.next(p.ski), r.Bool(), g.raddr(p, f, true), laddr(s, true), fn, int64(r.Range(1, 900))))
			}
		case 4: // local subscribe / bind to a peer (only while the address names one connection)
			cl := g.clients()
			if len(cl) == 0 || !p.connected || !p.replied || g.announcers(p.dev) != 1 || len(g.tmpl) == 0 {
				break
			}
			lf := cl[r.Intn(len(cl))]
			f := g.tmpl[r.Intn(len(g.tmpl))]
			a := stack.FAddr{Dev: p.dev + 1, Ent: f.ent, Feat: f.id + 1}
			sub := r.Chance(2, 3)
			key := fmt.Sprint(sub, lf.ent, lf.id, a, p.ski, g.gen[p.ski])
			if g.asked[key] {
				// an identical request that is still unanswered is withheld by the sender (C13);
				// Model/Stack.v does not describe the request cache
				break
			}
			g.asked[key] = true
			if sub {
				g.add(stack.OpLocalSubscribe(lf.ent, lf.id, a))
				g.refs = append(g.refs, ref{true, lf, a})
			} else {
				g.add(stack.OpLocalBind(lf.ent, lf.id, a))
				g.refs = append(g.refs, ref{false, lf, a})
			}
		case 5: // delete calls
			if !p.connected || len(g.tmpl) == 0 {
				break
			}
			srvs := g.servers()
			if len(srvs) == 0 {
				break
			}
			f := g.tmpl[r.Intn(len(g.tmpl))]
			if !p.replied && !p.ents[ekey(f.ent)] {
				count("calls-of-address-less-peer-naming-unknown-feature")
			}
			s := srvs[r.Intn(len(srvs))]
			if r.Bool() {
				g.add(stack.OpSubDelete(p.ski, g.next(p.ski), r.Bool(), g.raddr(p, f, r.Bool()), laddr(s, true)))
			} else {
				g.add(stack.OpBindDelete(p.ski, g.next(p.ski), r.Bool(), g.raddr(p, f, r.Bool()), laddr(s, true)))
			}
		case 6: // drop the connection
			if p.connected {
				if !p.replied {
					count("teardowns-of-address-less-peer")
				}
				g.add(stack.OpDisconnect(p.ski))
				p.connected = false
				count("disconnects")
				g.probe()
			} else if r.Chance(1, 6) {
				g.add(stack.OpDisconnect(p.ski)) // not connected: only the device event
			}
		case 7: // (re)connect
			if p.connected && r.Chance(1, 3) {
				count("reconnects-over-live-connection")
				g.connect(p)
				g.probe()
			} else if !p.connected {
				p.late = r.Chance(1, 4)
				g.connect(p)
			}
		case 8, 9: // partial notification: one to three entries, each with its own state
			if !p.connected || len(g.rents) == 0 {
				break
			}
			dev := int64(0)
			if p.replied {
				dev = p.dev + 1
			} else if r.Chance(1, 6) {
				dev = p.dev + 1 // an address-less connection announcing entities under a device address
				p.foreign = true
			}
			n := 1
			if r.Chance(1, 3) {
				n = r.Range(2, 3)
			}
			m := stack.DiscMsg{Dev: dev}
			removed, added := 0, 0
			stopped := false
			for k := 0; k < n; k++ {
				e := g.rents[r.Intn(len(g.rents))]
				state := int64(2)
				if (k == 0 && n == 1 && r.Chance(1, 3)) || (n > 1 && r.Bool()) {
					state = 1
				}
				if r.Chance(1, 25) && (state == 2 || dev != 0) {
					// [0]: "removed" is refused (and ends the processing of the message); "added"
					// re-creates its features, which is only generated with a device address
					// (Model/Stack.v identifies the node-management feature object by its address)
					e = []int64{0}
				}
				one := g.msg(p, state, [][]int64{e}, dev)
				m.Ents = append(m.Ents, one.Ents...)
				m.Feats = append(m.Feats, one.Feats...)
				if stopped {
					continue
				}
				switch {
				case state == 2 && len(e) == 1 && e[0] == 0:
					stopped = true
					count("notifications-removing-entity-0")
				case state == 2:
					if p.ents[ekey(e)] {
						removed++
					}
					delete(p.ents, ekey(e))
				default:
					p.ents[ekey(e)] = true
					added++
				}
			}
			g.add(stack.OpDiscoveryNotify(p.ski, g.next(p.ski), r.Bool(), m))
			if removed > 0 {
				count("entity-removals")
			}
			if removed > 0 && added > 0 {
				count("notifications-mixing-added-and-removed")
			}
			if removed > 0 {
				g.probe()
			}
		case 10: // a further discovery reply of a connection that has answered already
			if p.connected && p.replied {
				g.reply(p, true)
				count("repeated-discovery-replies")
				g.probe()
			}
		case 12: // a teardown of p overlapped by a registry call of another peer q
			g.overlap(p)
		case 13: // a local feature withdraws a request (RemoveRemoteSubscription / RemoveRemoteBinding)
			if len(g.refs) == 0 {
				break
			}
			rf := g.refs[r.Intn(len(g.refs))]
			if r.Chance(1, 6) && len(g.tmpl) > 0 && p.connected && p.replied {
				// a request that was never made (or of the other kind): the delete call is sent all the same
				f := g.tmpl[r.Intn(len(g.tmpl))]
				rf = ref{r.Bool(), rf.lf, stack.FAddr{Dev: p.dev + 1, Ent: f.ent, Feat: f.id + 1}}
			}
			d := rf.addr.Dev - 1
			var owner *peerSt
			for _, q := range g.peers {
				if q.connected && q.replied && q.dev == d {
					owner = q
				}
			}
			if owner == nil || g.announcers(d) != 1 {
				break // only while the address names one connection
			}
			key := fmt.Sprint("un", rf.sub, rf.lf.ent, rf.lf.id, rf.addr, owner.ski, g.gen[owner.ski])
			if g.asked[key] {
				break // an identical unanswered delete call is withheld by the sender, as for requests
			}
			g.asked[key] = true
			// the request may be made again afterwards: it is a new datagram only if the first one was
			// answered, which it is not - so the request key stays taken
			if rf.sub {
				g.add(stack.OpLocalUnsubscribe(rf.lf.ent, rf.lf.id, rf.addr))
			} else {
				g.add(stack.OpLocalUnbind(rf.lf.ent, rf.lf.id, rf.addr))
			}
			count("local-requests-withdrawn")
			g.probe()
		default: // a late discovery reply
			if p.connected && !p.replied && (!p.preNM || allowPreNM) {
				if p.preNM {
					count("late-replies-after-pre-reply-entries")
				}
				g.reply(p, r.Chance(1, 4))
				count("late-discovery-replies")
			}
		}
	}
	g.probe()
	return g.h
}

// measuring wrapper: what the generated histories actually exercise on the implementation
type measured struct {
	hx.Impl
	torn bool // a teardown has happened in this history
}

func (m *measured) Exec(op hx.Zs) []hx.Zs {
	out := m.Impl.Exec(op)
	if len(op) == 0 {
		return out
	}
	statMu.Lock()
	defer statMu.Unlock()
	regRemoved := 0
	for _, o := range out {
		if len(o) >= 3 && o[0] == 5 && (o[1] == 2 || o[1] == 3) && o[2] == 2 {
			regRemoved++
		}
		if len(o) > 0 && o[0] == 2 && m.torn {
			stats["observed-notifications-after-a-teardown"]++
		}
	}
	switch op[0] {
	case 13:
		stats["observed-entries-removed-by-disconnect"] += regRemoved
		m.torn = true
	case 4:
		stats["observed-entries-removed-by-reconnect"] += regRemoved
		if regRemoved > 0 {
			m.torn = true
		}
	case 6:
		stats["observed-entries-removed-by-entity-removal"] += regRemoved
		if regRemoved > 0 {
			m.torn = true
		}
	case 14, 15:
		if m.torn {
			stats["observed-entries-listed-after-a-teardown"] += len(out)
		}
	}
	return out
}

func main() {
	hx.Main(hx.Config{
		Property: "C10",
		Clauses: map[int64]string{1: "teardown-events", 2: "write-to-removed-connection", 3: "resolve-after-removal",
			4: "listing-after-teardown", 5: "fan-out-after-teardown", 6: "client-bookkeeping-keyed-by-device-address",
			98: "unparseable-observation", 99: "unparseable-operation"},
		OpNames: stack.OpNames,
		NewImpl: func() hx.Impl { return &measured{Impl: stack.NewImpl()} },
		Gen:     genHistory,
		Count:   map[string]int{"quick": 6000, "thorough": 200000},
		Extra: func() map[string]any {
			statMu.Lock()
			defer statMu.Unlock()
			m := map[string]any{}
			for k, v := range stats {
				m[k] = v
			}
			for k, v := range stack.OverlapStats() {
				m["observed-overlap-"+k] = v
			}
			return map[string]any{"generated": m}
		},
	})
}
