// C06 runner: the remote device tree of the real spine-go stack, driven by injected
// detailed-discovery datagrams of three peers, against the model coq/Model/Discovery.v.
//
// op encoding (parse_op in Discovery.v):
//
//	1 p k di  nE (ent)*  nF (feat)*      datagram of peer p's NodeManagement: k = 0 reply, 1 partial notify, 2 full notify;
//	                                      di = deviceInformation present (notifications only; a reply always carries it)
//	    ent  = alen a.. type dflag d sflag s        (s: 1 added, 2 removed, 3 modified)
//	    feat = alen a.. id ftype role dflag d nOps (fn oflag k)*     (k = 3*read + write, each 0 absent / 1 present / 2 partial)
//	2 p kd fid alen a..                   registry call for peer p's feature (a, fid), if that entry is not there yet:
//	                                      kd 0 AddSubscription, 1 AddBinding (p's feature is the client of a local server
//	                                      feature reserved for it), 2 SubscribeToRemote, 3 BindToRemote (local client feature)
//
//	3 p k p' kd fid alen a.. di nE (ent)* nF (feat)*
//	                                      datagram of peer p as in op 1, during whose removal cascade the subscription (kd 0) or
//	                                      binding (kd 1) request call of ANOTHER peer p' for its feature (a, fid) is delivered
//	                                      through p''s HandleSpineMesssage on a second goroutine: a core-level event handler starts
//	                                      it on the first subscription- (binding-) removed event the registry publishes, gives it
//	                                      2 ms and returns; the runner waits for it after the datagram of p has been handled. Without
//	                                      such an event the call is delivered right after. The model is the sequential composition
//	                                      (the registry lock serialises the call after the removal); the bounded wait can only make
//	                                      the check miss a lost update, never raise an alarm.
//
// obs encoding (print_obs): 0 <snapshot> | 1 p (device event) | 2 p added alen a.. (entity event) | 3 ok
// snapshot = for each peer: known nEnt (alen a.. type dflag d nFeat (id ftype role dflag d nOps (fn k)*)*)*, then
// nReg (p kd fid alen a..)* sorted by (kd, p, a, fid).
//
// Projection (what is NOT observed): outbound datagrams (subscription calls, result messages, re-reads), event payload
// data, subscription/binding change events, the device part of entity and feature addresses, cached function data.
package main

import (
	"encoding/json"
	"fmt"
	"os"
	"sort"
	"sync"
	"time"

	"github.com/enbility/spine-go/api"
	"github.com/enbility/spine-go/model"
	"github.com/enbility/spine-go/spine"
	"github.com/enbility/spine-go/util"

	"verifharness/hx"
)

const nPeers = 3

var entityTypes = []model.EntityTypeType{model.EntityTypeTypeDeviceInformation, model.EntityTypeTypeCEM, model.EntityTypeTypeEVSE,
	model.EntityTypeTypeEV, model.EntityTypeTypeHeatPumpAppliance, model.EntityTypeTypeGeneric}
var featureTypes = []model.FeatureTypeType{model.FeatureTypeTypeNodeManagement, model.FeatureTypeTypeGeneric, model.FeatureTypeTypeLoadControl,
	model.FeatureTypeTypeMeasurement, model.FeatureTypeTypeDeviceDiagnosis, model.FeatureTypeTypeElectricalConnection}
var roles = []model.RoleType{model.RoleTypeClient, model.RoleTypeServer, model.RoleTypeSpecial}
var functions = []model.FunctionType{model.FunctionTypeNodeManagementDetailedDiscoveryData, model.FunctionTypeNodeManagementUseCaseData,
	model.FunctionTypeLoadControlLimitListData, model.FunctionTypeMeasurementListData, model.FunctionTypeDeviceDiagnosisStateData,
	model.FunctionTypeElectricalConnectionDescriptionListData}

// the address / feature-id domain the client-side caches are enumerated over
var addrDomain = [][]int64{{0}, {1}, {2}, {3}, {1, 1}, {2, 1}}

const fidDomain = 5

func idx[T comparable](l []T, x T) int64 {
	for i, v := range l {
		if v == x {
			return int64(i)
		}
	}
	return 90
}

func entAddr(a []int64) []model.AddressEntityType {
	out := make([]model.AddressEntityType, len(a))
	for i, v := range a {
		out[i] = model.AddressEntityType(v)
	}
	return out
}

func encAddr(a []model.AddressEntityType) hx.Zs {
	z := hx.Zs{int64(len(a))}
	for _, v := range a {
		z = append(z, int64(v))
	}
	return z
}

func devOf(p int64) *model.AddressDeviceType {
	return util.Ptr(model.AddressDeviceType(fmt.Sprintf("d%d", p+1)))
}

func descr(d int64) *model.DescriptionType { return util.Ptr(model.DescriptionType(fmt.Sprintf("desc%d", d))) }

func descrNum(d *model.DescriptionType) hx.Zs {
	if d == nil {
		return hx.Zs{0, 0}
	}
	var n int64 = 91
	fmt.Sscanf(string(*d), "desc%d", &n)
	return hx.Zs{1, n}
}

// writer keeps the result messages the stack sends to a peer (only while a request call is being delivered)
type writer struct {
	mu      sync.Mutex
	capture bool
	msgs    [][]byte
}

func (wr *writer) WriteShipMessageWithPayload(b []byte) {
	wr.mu.Lock()
	if wr.capture {
		wr.msgs = append(wr.msgs, append([]byte(nil), b...))
	}
	wr.mu.Unlock()
}

// granted reports whether a result without error referring to message counter ctr was sent
func (wr *writer) granted(ctr int64) bool {
	wr.mu.Lock()
	defer wr.mu.Unlock()
	ok := false
	for _, b := range wr.msgs {
		var d model.Datagram
		if json.Unmarshal(b, &d) != nil {
			continue
		}
		h := d.Datagram.Header
		if h.MsgCounterReference == nil || int64(*h.MsgCounterReference) != ctr || len(d.Datagram.Payload.Cmd) == 0 {
			continue
		}
		if rd := d.Datagram.Payload.Cmd[0].ResultData; rd != nil && rd.ErrorNumber != nil && *rd.ErrorNumber == 0 {
			ok = true
		}
	}
	wr.capture, wr.msgs = false, nil
	return ok
}

// a request call of another peer waiting to be delivered during a removal cascade
var callStats = map[string]int{}

type during struct {
	kd      int64
	deliver func()
	started bool
	entered chan struct{}
	done    chan struct{}
}

type peerRec struct {
	dev    api.DeviceRemoteInterface
	wr     *writer
	reader interface {
		HandleSpineMesssage([]byte) (*model.MsgCounterType, error)
	}
}

type world struct {
	mu     sync.Mutex
	events []hx.Zs
	closed bool
	local  *spine.DeviceLocal
	ent    api.EntityLocalInterface
	cli    api.FeatureLocalInterface
	srv    map[string]api.FeatureLocalInterface
	peers  [nPeers]*peerRec
	during *during
	ctr    int64
}

func newWorld() hx.Impl {
	spine.VerifResetEvents()
	w := &world{srv: map[string]api.FeatureLocalInterface{}}
	w.local = spine.NewDeviceLocal("brand", "model", "serial", "code", "d0", model.DeviceTypeTypeEnergyManagementSystem, model.NetworkManagementFeatureSetTypeSmart)
	w.ent = spine.NewEntityLocal(w.local, model.EntityTypeTypeCEM, entAddr([]int64{1}), 0)
	w.local.AddEntity(w.ent)
	w.cli = spine.NewFeatureLocal(w.ent.NextFeatureId(), w.ent, model.FeatureTypeTypeGeneric, model.RoleTypeClient)
	w.ent.AddFeature(w.cli)
	_ = spine.VerifStackSubscribeCore(w)
	for p := 0; p < nPeers; p++ {
		wr := &writer{}
		rdr := w.local.SetupRemoteDevice(fmt.Sprintf("s%d", p), wr)
		w.peers[p] = &peerRec{wr: wr, dev: w.local.RemoteDeviceForSki(fmt.Sprintf("s%d", p)), reader: rdr.(interface {
			HandleSpineMesssage([]byte) (*model.MsgCounterType, error)
		})}
	}
	return w
}

func (w *world) Close() {
	w.closed = true
	_ = spine.VerifStackUnsubscribeCore(w)
}

// core-level handler: synchronous, in publication order
func (w *world) HandleEvent(p api.EventPayload) {
	if w.closed {
		return
	}
	var peer int64 = 92
	fmt.Sscanf(p.Ski, "s%d", &peer)
	var z hx.Zs
	switch p.EventType {
	case api.EventTypeDeviceChange:
		if p.ChangeType == api.ElementChangeAdd {
			z = hx.Zs{1, peer}
		} else {
			z = hx.Zs{95, peer}
		}
	case api.EventTypeEntityChange:
		switch {
		case p.Entity == nil:
			z = hx.Zs{95, peer}
		case p.ChangeType == api.ElementChangeAdd:
			z = append(hx.Zs{2, peer, 1}, encAddr(p.Entity.Address().Entity)...)
		case p.ChangeType == api.ElementChangeRemove:
			z = append(hx.Zs{2, peer, 0}, encAddr(p.Entity.Address().Entity)...)
		default:
			z = hx.Zs{95, peer}
		}
	case api.EventTypeSubscriptionChange, api.EventTypeBindingChange:
		// the registry publishes a removal: deliver the other peer's pending call now, on its own goroutine
		// (never from here: the registry may hold its lock), and give it a moment
		if p.ChangeType != api.ElementChangeRemove {
			return
		}
		w.mu.Lock()
		d := w.during
		if d == nil || d.started || (d.kd == 0) != (p.EventType == api.EventTypeSubscriptionChange) {
			w.mu.Unlock()
			return
		}
		d.started = true
		w.mu.Unlock()
		go func() {
			close(d.entered)
			d.deliver()
			close(d.done)
		}()
		select {
		case <-d.entered:
			select {
			case <-d.done:
			case <-time.After(2 * time.Millisecond):
			}
		case <-time.After(100 * time.Millisecond):
		}
		return
	default:
		return
	}
	w.mu.Lock()
	w.events = append(w.events, z)
	w.mu.Unlock()
}

// ---- decoding of the operation

type rd struct {
	z hx.Zs
	i int
}

func (r *rd) n() int64 {
	if r.i >= len(r.z) {
		return 0
	}
	v := r.z[r.i]
	r.i++
	return v
}

func (r *rd) addr() []int64 {
	k := r.n()
	a := make([]int64, 0, k)
	for j := int64(0); j < k; j++ {
		a = append(a, r.n())
	}
	return a
}

func (r *rd) opt() (bool, int64) {
	f, v := r.n(), r.n()
	return f != 0, v
}

func possibleOps(k int64) *model.PossibleOperationsType {
	po := &model.PossibleOperationsType{}
	switch k / 3 {
	case 1:
		po.Read = &model.PossibleOperationsReadType{}
	case 2:
		po.Read = &model.PossibleOperationsReadType{Partial: &model.ElementTagType{}}
	}
	switch k % 3 {
	case 1:
		po.Write = &model.PossibleOperationsWriteType{}
	case 2:
		po.Write = &model.PossibleOperationsWriteType{Partial: &model.ElementTagType{}}
	}
	return po
}

func (w *world) message(r *rd) []byte {
	p, k := r.n(), r.n()
	return w.messageOf(p, k, r)
}

func (w *world) messageOf(p, k int64, r *rd) []byte {
	di := r.n() != 0
	data := &model.NodeManagementDetailedDiscoveryDataType{}
	if k == 0 || di {
		data.DeviceInformation = &model.NodeManagementDetailedDiscoveryDeviceInformationType{
			Description: &model.NetworkManagementDeviceDescriptionDataType{
				DeviceAddress:     &model.DeviceAddressType{Device: devOf(p)},
				DeviceType:        util.Ptr(model.DeviceTypeTypeChargingStation),
				NetworkFeatureSet: util.Ptr(model.NetworkManagementFeatureSetTypeSmart),
			},
		}
	}
	nE := r.n()
	for j := int64(0); j < nE; j++ {
		a, ty := r.addr(), r.n()
		hasD, d := r.opt()
		hasS, s := r.opt()
		ed := &model.NetworkManagementEntityDescriptionDataType{
			EntityAddress: &model.EntityAddressType{Entity: entAddr(a)},
			EntityType:    util.Ptr(entityTypes[int(ty)%len(entityTypes)]),
		}
		if di {
			ed.EntityAddress.Device = devOf(p)
		}
		if hasD {
			ed.Description = descr(d)
		}
		if hasS {
			switch s {
			case 1:
				ed.LastStateChange = util.Ptr(model.NetworkManagementStateChangeTypeAdded)
			case 2:
				ed.LastStateChange = util.Ptr(model.NetworkManagementStateChangeTypeRemoved)
			default:
				ed.LastStateChange = util.Ptr(model.NetworkManagementStateChangeTypeModified)
			}
		}
		data.EntityInformation = append(data.EntityInformation, model.NodeManagementDetailedDiscoveryEntityInformationType{Description: ed})
	}
	nF := r.n()
	for j := int64(0); j < nF; j++ {
		a, id, ty, ro := r.addr(), r.n(), r.n(), r.n()
		hasD, d := r.opt()
		fd := &model.NetworkManagementFeatureDescriptionDataType{
			FeatureAddress: &model.FeatureAddressType{Entity: entAddr(a), Feature: util.Ptr(model.AddressFeatureType(id))},
			FeatureType:    util.Ptr(featureTypes[int(ty)%len(featureTypes)]),
			Role:           util.Ptr(roles[int(ro)%len(roles)]),
		}
		if di {
			fd.FeatureAddress.Device = devOf(p)
		}
		if hasD {
			fd.Description = descr(d)
		}
		nO := r.n()
		for i := int64(0); i < nO; i++ {
			fn := r.n()
			hasK, kk := r.opt()
			sf := model.FunctionPropertyType{Function: util.Ptr(functions[int(fn)%len(functions)])}
			if hasK {
				sf.PossibleOperations = possibleOps(kk)
			}
			fd.SupportedFunction = append(fd.SupportedFunction, sf)
		}
		data.FeatureInformation = append(data.FeatureInformation, model.NodeManagementDetailedDiscoveryFeatureInformationType{Description: fd})
	}
	w.ctr++
	cls := model.CmdClassifierTypeNotify
	if k == 0 {
		cls = model.CmdClassifierTypeReply
	}
	h := model.HeaderType{
		SpecificationVersion: &spine.SpecificationVersion,
		AddressSource:        &model.FeatureAddressType{Device: devOf(p), Entity: entAddr([]int64{0}), Feature: util.Ptr(model.AddressFeatureType(0))},
		AddressDestination:   &model.FeatureAddressType{Device: util.Ptr(model.AddressDeviceType("d0")), Entity: entAddr([]int64{0}), Feature: util.Ptr(model.AddressFeatureType(0))},
		MsgCounter:           util.Ptr(model.MsgCounterType(w.ctr)),
		CmdClassifier:        &cls,
	}
	if k == 0 {
		h.MsgCounterReference = util.Ptr(model.MsgCounterType(1))
	}
	cmd := model.CmdType{NodeManagementDetailedDiscoveryData: data}
	if k == 1 {
		cmd.Function = util.Ptr(model.FunctionTypeNodeManagementDetailedDiscoveryData)
		cmd.Filter = []model.FilterType{{CmdControl: &model.CmdControlType{Partial: &model.ElementTagType{}}}}
	}
	b, err := json.Marshal(model.Datagram{Datagram: model.DatagramType{Header: h, Payload: model.PayloadType{Cmd: []model.CmdType{cmd}}}})
	if err != nil {
		panic(err)
	}
	return b
}

// ---- the registries

type regEntry struct {
	p, kd, fid int64
	a          []int64
}

func cmpAddr(a, b []int64) int {
	for i := 0; i < len(a) && i < len(b); i++ {
		if a[i] != b[i] {
			if a[i] < b[i] {
				return -1
			}
			return 1
		}
	}
	return len(a) - len(b)
}

func fromModelAddr(a []model.AddressEntityType) []int64 {
	out := make([]int64, len(a))
	for i, v := range a {
		out[i] = int64(v)
	}
	return out
}

func remoteFeatureAddr(p int64, a []int64, fid int64) *model.FeatureAddressType {
	return &model.FeatureAddressType{Device: devOf(p), Entity: entAddr(a), Feature: util.Ptr(model.AddressFeatureType(fid))}
}

func (w *world) registry() []regEntry {
	var out []regEntry
	for p := int64(0); p < nPeers; p++ {
		for _, s := range w.local.SubscriptionManager().Subscriptions(w.peers[p].dev) {
			ca := s.ClientFeature.Address()
			out = append(out, regEntry{p, 0, int64(*ca.Feature), fromModelAddr(ca.Entity)})
		}
		for _, s := range w.local.BindingManager().Bindings(w.peers[p].dev) {
			ca := s.ClientFeature.Address()
			out = append(out, regEntry{p, 1, int64(*ca.Feature), fromModelAddr(ca.Entity)})
		}
		for _, a := range addrDomain {
			for fid := int64(0); fid < fidDomain; fid++ {
				ra := remoteFeatureAddr(p, a, fid)
				if w.cli.HasSubscriptionToRemote(ra) {
					out = append(out, regEntry{p, 2, fid, a})
				}
				if w.cli.HasBindingToRemote(ra) {
					out = append(out, regEntry{p, 3, fid, a})
				}
				if w.local.NodeManagement().HasSubscriptionToRemote(ra) {
					out = append(out, regEntry{p, 4, fid, a})
				}
				if w.local.NodeManagement().HasBindingToRemote(ra) {
					out = append(out, regEntry{p, 5, fid, a})
				}
			}
		}
	}
	sort.SliceStable(out, func(i, j int) bool {
		x, y := out[i], out[j]
		if x.kd != y.kd {
			return x.kd < y.kd
		}
		if x.p != y.p {
			return x.p < y.p
		}
		if c := cmpAddr(x.a, y.a); c != 0 {
			return c < 0
		}
		return x.fid < y.fid
	})
	return out
}

func (w *world) serverFeature(p, kd int64, a []int64, fid int64) api.FeatureLocalInterface {
	key := fmt.Sprint(p, kd, a, fid)
	if f, ok := w.srv[key]; ok {
		return f
	}
	// an entity holds one feature per (type, role), a server feature one binding: one local entity per reserved server feature
	ent := spine.NewEntityLocal(w.local, model.EntityTypeTypeCEM, entAddr([]int64{int64(2 + len(w.srv))}), 0)
	w.local.AddEntity(ent)
	f := spine.NewFeatureLocal(ent.NextFeatureId(), ent, model.FeatureTypeTypeGeneric, model.RoleTypeServer)
	ent.AddFeature(f)
	w.srv[key] = f
	return f
}

// requestCall builds peer p2's subscription (kd 0) / binding (kd 1) request call for its feature (a, fid), or nil when
// the operation delivers none: same peer, entry already there, no such client feature
func (w *world) requestCall(p, p2, kd, fid int64, a []int64) ([]byte, int64) {
	if p == p2 || (kd != 0 && kd != 1) {
		return nil, 0
	}
	for _, e := range w.registry() {
		if e.p == p2 && e.kd == kd && e.fid == fid && cmpAddr(e.a, a) == 0 {
			return nil, 0
		}
	}
	ra := remoteFeatureAddr(p2, a, fid)
	cf := w.peers[p2].dev.FeatureByAddress(ra)
	if cf == nil {
		return nil, 0
	}
	ft := cf.Type()
	sa := w.serverFeature(p2, kd, a, fid).Address()
	ca := &model.FeatureAddressType{Device: devOf(p2), Entity: ra.Entity, Feature: ra.Feature}
	var cmd model.CmdType
	if kd == 0 {
		cmd.NodeManagementSubscriptionRequestCall = spine.NewNodeManagementSubscriptionRequestCallType(ca, sa, ft)
	} else {
		cmd.NodeManagementBindingRequestCall = spine.NewNodeManagementBindingRequestCallType(ca, sa, ft)
	}
	w.ctr++
	cls := model.CmdClassifierTypeCall
	h := model.HeaderType{
		SpecificationVersion: &spine.SpecificationVersion,
		AddressSource:        &model.FeatureAddressType{Device: devOf(p2), Entity: entAddr([]int64{0}), Feature: util.Ptr(model.AddressFeatureType(0))},
		AddressDestination:   &model.FeatureAddressType{Device: util.Ptr(model.AddressDeviceType("d0")), Entity: entAddr([]int64{0}), Feature: util.Ptr(model.AddressFeatureType(0))},
		MsgCounter:           util.Ptr(model.MsgCounterType(w.ctr)),
		CmdClassifier:        &cls,
		AckRequest:           util.Ptr(true),
	}
	b, err := json.Marshal(model.Datagram{Datagram: model.DatagramType{Header: h, Payload: model.PayloadType{Cmd: []model.CmdType{cmd}}}})
	if err != nil {
		panic(err)
	}
	return b, w.ctr
}

func (w *world) regAdd(p, kd, fid int64, a []int64) bool {
	for _, e := range w.registry() {
		if e.p == p && e.kd == kd && e.fid == fid && cmpAddr(e.a, a) == 0 {
			return false
		}
	}
	ra := remoteFeatureAddr(p, a, fid)
	dev := w.peers[p].dev
	switch kd {
	case 0, 1:
		// no client feature: AddSubscription / AddBinding would refuse (and, while the device address is
		// still unknown, crash formatting the refusal: *remoteDevice.Address() — C05's business)
		cf := dev.FeatureByAddress(ra)
		if cf == nil {
			return false
		}
		ft := cf.Type()
		sa := w.serverFeature(p, kd, a, fid).Address()
		ca := &model.FeatureAddressType{Entity: ra.Entity, Feature: ra.Feature}
		if kd == 0 {
			return w.local.SubscriptionManager().AddSubscription(dev, model.SubscriptionManagementRequestCallType{ClientAddress: ca, ServerAddress: sa, ServerFeatureType: &ft}) == nil
		}
		return w.local.BindingManager().AddBinding(dev, model.BindingManagementRequestCallType{ClientAddress: ca, ServerAddress: sa, ServerFeatureType: &ft}) == nil
	case 2:
		_, err := w.cli.SubscribeToRemote(ra)
		return err == nil
	case 3:
		_, err := w.cli.BindToRemote(ra)
		return err == nil
	}
	return false
}

// ---- the snapshot

func opsCode(o api.OperationsInterface) int64 {
	var rdc, wrc int64
	if o.Read() {
		rdc = 1
		if o.ReadPartial() {
			rdc = 2
		}
	}
	if o.Write() {
		wrc = 1
		if o.WritePartial() {
			wrc = 2
		}
	}
	return 3*rdc + wrc
}

func (w *world) snapshot() hx.Zs {
	z := hx.Zs{0}
	bad := false
	for p := 0; p < nPeers; p++ {
		dev := w.peers[p].dev
		if dev.Address() != nil {
			z = append(z, 1)
		} else {
			z = append(z, 0)
		}
		ents := dev.Entities()
		z = append(z, int64(len(ents)))
		seenE := map[string]bool{}
		for _, e := range ents {
			a := e.Address().Entity
			z = append(z, encAddr(a)...)
			z = append(z, idx(entityTypes, e.EntityType()))
			z = append(z, descrNum(e.Description())...)
			// Entity(addr) must be the first entity with that address
			if k := fmt.Sprint(a); !seenE[k] {
				seenE[k] = true
				if dev.Entity(a) != e {
					bad = true
				}
			}
			feats := e.Features()
			z = append(z, int64(len(feats)))
			seenF := map[int64]bool{}
			for _, f := range feats {
				fa := f.Address()
				id := int64(*fa.Feature)
				z = append(z, id, idx(featureTypes, f.Type()), idx(roles, f.Role()))
				z = append(z, descrNum(f.Description())...)
				if !seenF[id] && dev.Entity(a) == e {
					seenF[id] = true
					if dev.FeatureByAddress(&model.FeatureAddressType{Entity: a, Feature: fa.Feature}) != f {
						bad = true
					}
				}
				if f.Entity() != e || cmpAddr(fromModelAddr(fa.Entity), fromModelAddr(a)) != 0 {
					bad = true
				}
				type kv struct{ fn, k int64 }
				var ops []kv
				for fn, o := range f.Operations() {
					ops = append(ops, kv{idx(functions, fn), opsCode(o)})
				}
				sort.Slice(ops, func(i, j int) bool { return ops[i].fn < ops[j].fn })
				z = append(z, int64(len(ops)))
				for _, o := range ops {
					z = append(z, o.fn, o.k)
				}
			}
		}
	}
	reg := w.registry()
	z = append(z, int64(len(reg)))
	for _, e := range reg {
		z = append(z, e.p, e.kd, e.fid, int64(len(e.a)))
		z = append(z, e.a...)
	}
	if bad {
		return hx.Zs{96}
	}
	return z
}

func (w *world) Exec(op hx.Zs) (out []hx.Zs) {
	w.mu.Lock()
	w.events = nil
	w.mu.Unlock()
	r := &rd{z: op}
	var res []hx.Zs
	switch r.n() {
	case 1:
		p := op[1]
		if p < 0 || p >= nPeers {
			break
		}
		b := w.message(r)
		func() {
			defer func() {
				if e := recover(); e != nil {
					res = append(res, hx.Zs{97})
				}
			}()
			_, _ = w.peers[p].reader.HandleSpineMesssage(b)
		}()
	case 3:
		p, k, p2, kd, fid := r.n(), r.n(), r.n(), r.n(), r.n()
		a := r.addr()
		if p < 0 || p >= nPeers || p2 < 0 || p2 >= nPeers {
			break
		}
		b := w.messageOf(p, k, r)
		call, ctr := w.requestCall(p, p2, kd, fid, a)
		var d *during
		if call != nil {
			d = &during{kd: kd, entered: make(chan struct{}), done: make(chan struct{}),
				deliver: func() {
					defer func() { _ = recover() }()
					_, _ = w.peers[p2].reader.HandleSpineMesssage(call)
				}}
			w.peers[p2].wr.mu.Lock()
			w.peers[p2].wr.capture = true
			w.peers[p2].wr.mu.Unlock()
			w.mu.Lock()
			w.during = d
			w.mu.Unlock()
		}
		func() {
			defer func() {
				if e := recover(); e != nil {
					res = append(res, hx.Zs{97})
				}
			}()
			_, _ = w.peers[p].reader.HandleSpineMesssage(b)
		}()
		ok := false
		if d == nil {
			callStats["call-not-delivered"]++
		}
		if d != nil {
			w.mu.Lock()
			started := d.started
			d.started = true // no removal event: the call is delivered now
			w.during = nil
			w.mu.Unlock()
			if started {
				callStats["call-delivered-during-removal-cascade"]++
				select {
				case <-d.done:
				case <-time.After(10 * time.Second):
					res = append(res, hx.Zs{94})
				}
			} else {
				callStats["call-delivered-after-message-without-removal-event"]++
				d.deliver()
			}
			ok = w.peers[p2].wr.granted(ctr)
		}
		if ok {
			res = append(res, hx.Zs{3, 1})
		} else {
			res = append(res, hx.Zs{3, 0})
		}
	case 2:
		p, kd, fid := r.n(), r.n(), r.n()
		a := r.addr()
		if p < 0 || p >= nPeers {
			break
		}
		if w.regAdd(p, kd, fid, a) {
			res = append(res, hx.Zs{3, 1})
		} else {
			res = append(res, hx.Zs{3, 0})
		}
	}
	out = append(out, w.snapshot())
	w.mu.Lock()
	out = append(out, w.events...)
	w.events = nil
	w.mu.Unlock()
	return append(out, res...)
}

func main() {
	if dir := os.Getenv("C06_DUMP_FIXED"); dir != "" { // writes the fixed histories as corpus files
		for i, h := range fixed("quick") {
			b, _ := json.Marshal(map[string]any{"history": h})
			_ = os.WriteFile(fmt.Sprintf("%s/fixed-%d.json", dir, i+1), b, 0o644)
		}
		return
	}
	hx.Main(hx.Config{
		Property: "C06",
		Clauses: map[int64]string{1: "entity-addresses-differ", 2: "entity-type-differs", 3: "entity-content-differs",
			4: "entity-events-not-exact", 5: "cascade-not-exact", 6: "other-peer-changed", 7: "registry-call", 8: "no-snapshot",
			98: "unparseable-observation", 99: "unparseable-operation"},
		OpNames: map[int64]string{1: "discovery-message", 2: "registry-call", 3: "discovery-message-with-concurrent-request-call"},
		NewImpl: newWorld,
		Gen:     gen,
		Fixed:   fixed,
		Count:   map[string]int{"quick": 2000, "thorough": 25000},
		Extra:   extra,
	})
}
