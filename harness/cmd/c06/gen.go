package main

import (
	"fmt"

	"verifharness/hx"
)

// ---- message construction

type gOp struct {
	fn  int64
	has bool
	k   int64
}

type gFeat struct {
	a          []int64
	id, ty, ro int64
	hasD       bool
	d          int64
	ops        []gOp
}

type gEnt struct {
	a    []int64
	ty   int64
	hasD bool
	d    int64
	hasS bool
	s    int64
}

func b2i(b bool) int64 {
	if b {
		return 1
	}
	return 0
}

func encA(a []int64) hx.Zs { return append(hx.Zs{int64(len(a))}, a...) }

func encMsg(p, k int64, di bool, es []gEnt, fs []gFeat) hx.Zs {
	z := hx.Zs{1, p, k, b2i(di), int64(len(es))}
	for _, e := range es {
		z = append(z, encA(e.a)...)
		z = append(z, e.ty, b2i(e.hasD), e.d*b2i(e.hasD), b2i(e.hasS), e.s*b2i(e.hasS))
	}
	z = append(z, int64(len(fs)))
	for _, f := range fs {
		z = append(z, encA(f.a)...)
		z = append(z, f.id, f.ty, f.ro, b2i(f.hasD), f.d*b2i(f.hasD), int64(len(f.ops)))
		for _, o := range f.ops {
			z = append(z, o.fn, b2i(o.has), o.k*b2i(o.has))
		}
	}
	return z
}

func regOp(p, kd, fid int64, a []int64) hx.Zs { return append(hx.Zs{2, p, kd, fid}, encA(a)...) }

// duringOp turns a message op [1 p k ...] into [3 p k p2 kd fid alen a.. ...]: peer p2's request call for its
// feature (a, fid) is delivered while the message of p is being processed
func duringOp(msg hx.Zs, p2, kd, fid int64, a []int64) hx.Zs {
	z := hx.Zs{3, msg[1], msg[2], p2, kd, fid}
	z = append(z, encA(a)...)
	stats["message-with-concurrent-call"]++
	return append(z, msg[3:]...)
}

// during wraps a message of s so that another peer's subscription / binding call arrives meanwhile
func wrapDuring(ss []*sim, s *sim, msg hx.Zs) hx.Zs {
	o := ss[(int(s.p)+1+s.r.Intn(len(ss)-1))%len(ss)]
	if s.r.Chance(1, 12) {
		o = s // the same peer: not delivered
	}
	call := o.reg(int64(s.r.Intn(2)))
	return duringOp(msg, call[1], call[2], call[3], call[5:])
}

var stats = map[string]int{}

func extra() map[string]any {
	out := map[string]any{}
	for k, v := range stats {
		out[k] = v
	}
	cs := map[string]any{}
	for k, v := range callStats {
		cs[k] = v
	}
	return map[string]any{"generated_message_classes": out, "concurrent_request_calls": cs}
}

// ---- a peer as the generator imagines it (only to steer the generation)

type simEnt struct {
	e  gEnt
	fs []gFeat
}

type sim struct {
	p     int64
	r     *hx.Rng
	tree  []simEnt // what the generator believes the stack knows
	known bool
}

func key(a []int64) string { return fmt.Sprint(a) }

func defaultType(a []int64) int64 {
	switch key(a) {
	case "[0]":
		return 0
	case "[1]":
		return 1
	case "[2]":
		return 2
	case "[3]":
		return 4
	}
	return 3
}

func (s *sim) find(a []int64) int {
	for i, e := range s.tree {
		if key(e.e.a) == key(a) {
			return i
		}
	}
	return -1
}

func (s *sim) upsert(e gEnt, fs []gFeat) {
	var mine []gFeat
	for _, f := range fs {
		if key(f.a) == key(e.a) {
			mine = append(mine, f)
		}
	}
	if i := s.find(e.a); i >= 0 {
		s.tree[i] = simEnt{e, mine}
	} else {
		s.tree = append(s.tree, simEnt{e, mine})
	}
}

func (s *sim) remove(a []int64) {
	if i := s.find(a); i >= 0 {
		s.tree = append(append([]simEnt(nil), s.tree[:i]...), s.tree[i+1:]...)
	}
}

func nmFeat(r *hx.Rng) gFeat {
	f := gFeat{a: []int64{0}, id: 0, ty: 0, ro: 2}
	if r.Chance(1, 2) {
		f.ops = []gOp{{0, true, 3}, {1, true, 3}}
	}
	return f
}

func (s *sim) randFeat(a []int64, id int64) gFeat {
	r := s.r
	f := gFeat{a: a, id: id, ty: int64(1 + r.Intn(5)), ro: int64(r.Pick(5, 4, 1))}
	if r.Chance(1, 2) {
		f.hasD, f.d = true, int64(r.Intn(6))
	}
	n := r.Pick(3, 3, 2, 1)
	for j := 0; j < n; j++ {
		o := gOp{fn: int64(r.Intn(6)), has: !r.Chance(1, 6)}
		o.k = int64(r.Intn(9))
		f.ops = append(f.ops, o)
	}
	return f
}

// features announced for address a: for [0] the NodeManagement feature first (unless broken on purpose)
func (s *sim) randFeats(a []int64, keepNM bool) []gFeat {
	r := s.r
	var fs []gFeat
	if key(a) == "[0]" && keepNM {
		fs = append(fs, nmFeat(r))
	}
	n := r.Pick(2, 4, 3, 1)
	id := int64(1)
	for j := 0; j < n; j++ {
		if r.Chance(1, 12) && j > 0 {
			id-- // repeated feature id
		}
		fs = append(fs, s.randFeat(a, id))
		id++
	}
	return fs
}

func (s *sim) randEnt(a []int64, state int64) gEnt {
	r := s.r
	e := gEnt{a: a, ty: defaultType(a)}
	if r.Chance(1, 40) {
		e.ty = int64(r.Intn(6))
		stats["entity-type-varied"]++
	}
	if r.Chance(1, 2) {
		e.hasD, e.d = true, int64(r.Intn(6))
	}
	if state > 0 {
		e.hasS, e.s = true, state
	}
	return e
}

func (s *sim) randAddr() []int64 { return addrDomain[s.r.Intn(len(addrDomain))] }

func (s *sim) nonZeroAddr() []int64 { return addrDomain[1+s.r.Intn(len(addrDomain)-1)] }

// a reply listing [0] and a few entities
func (s *sim) reply(omitKnown bool) hx.Zs {
	r := s.r
	var es []gEnt
	var fs []gFeat
	es = append(es, s.randEnt([]int64{0}, 0))
	fs = append(fs, s.randFeats([]int64{0}, true)...)
	for _, a := range addrDomain[1:] {
		known := s.find(a) >= 0
		if (known && !(omitKnown && r.Chance(1, 2))) || (!known && r.Chance(1, 3)) {
			es = append(es, s.randEnt(a, 0))
			fs = append(fs, s.randFeats(a, true)...)
		}
	}
	if r.Chance(1, 5) { // feature order independent of entity order
		for i := len(fs) - 1; i > 0; i-- {
			j := r.Intn(i + 1)
			fs[i], fs[j] = fs[j], fs[i]
		}
	}
	var nt []simEnt
	s.tree = nt
	for _, e := range es {
		s.upsert(e, fs)
	}
	s.known = true
	stats["reply"]++
	return encMsg(s.p, 0, true, es, fs)
}

// a partial notification with the given (address, state) entries
func (s *sim) partial(entries [][]int64, states []int64) hx.Zs {
	r := s.r
	var es []gEnt
	var fs []gFeat
	hasA, hasR := false, false
	for i, a := range entries {
		e := s.randEnt(a, states[i])
		es = append(es, e)
		switch states[i] {
		case 1:
			hasA = true
			fs = append(fs, s.randFeats(a, !r.Chance(1, 8))...)
		case 2:
			hasR = true
			if r.Chance(1, 6) { // features named for a removed entity
				fs = append(fs, s.randFeats(a, true)...)
			}
		}
	}
	if r.Chance(1, 8) { // features of an entity the message does not list
		fs = append(fs, s.randFeats(s.randAddr(), true)...)
	}
	for i, e := range es {
		if !e.hasS {
			break
		}
		switch states[i] {
		case 1:
			s.upsert(e, fs)
		case 2:
			s.remove(e.a)
		}
	}
	if hasA && hasR {
		stats["partial-mixed-added-removed"]++
	} else if hasA {
		stats["partial-added"]++
	} else if hasR {
		stats["partial-removed"]++
	} else {
		stats["partial-other"]++
	}
	return encMsg(s.p, 1, !r.Chance(1, 4), es, fs)
}

// a full notification: the believed tree, with entities dropped / added / changed
func (s *sim) full(drop, add, change int) hx.Zs {
	r := s.r
	var es []gEnt
	var fs []gFeat
	changed := false
	for _, e := range s.tree {
		if key(e.e.a) != "[0]" && r.Intn(100) < drop {
			continue
		}
		if key(e.e.a) == "[0]" && r.Chance(1, 40) {
			stats["full-omits-entity-0"]++
			continue
		}
		ge := e.e
		ge.hasS = r.Chance(1, 4)
		ge.s = int64(1 + r.Intn(3))
		if r.Intn(100) < change {
			changed = true
			es = append(es, ge)
			fs = append(fs, s.randFeats(e.e.a, true)...)
			if r.Chance(1, 3) {
				es[len(es)-1].hasD, es[len(es)-1].d = true, int64(r.Intn(6))
			}
		} else {
			es = append(es, ge)
			fs = append(fs, e.fs...)
		}
	}
	for _, a := range addrDomain[1:] {
		if s.find(a) < 0 && r.Intn(100) < add {
			es = append(es, s.randEnt(a, 0))
			fs = append(fs, s.randFeats(a, true)...)
			if r.Chance(1, 10) { // listed twice
				es = append(es, s.randEnt(a, 0))
			}
		}
	}
	s.tree = nil
	for _, e := range es {
		s.upsert(e, fs)
	}
	if changed {
		stats["full-known-entity-changed"]++
	} else {
		stats["full"]++
	}
	return encMsg(s.p, 2, !r.Chance(1, 4), es, fs)
}

func (s *sim) reg(kd int64) hx.Zs {
	r := s.r
	a := s.randAddr()
	fid := int64(r.Intn(fidDomain))
	if len(s.tree) > 0 && r.Chance(4, 5) {
		e := s.tree[r.Intn(len(s.tree))]
		a = e.e.a
		if len(e.fs) > 0 && r.Chance(4, 5) {
			fid = e.fs[r.Intn(len(e.fs))].id
		}
	}
	return regOp(s.p, kd, fid, a)
}

func newSims(r *hx.Rng) []*sim {
	var ss []*sim
	for p := int64(0); p < nPeers; p++ {
		s := &sim{p: p, r: r}
		s.tree = []simEnt{{gEnt{a: []int64{0}, ty: 0}, []gFeat{{a: []int64{0}, id: 0, ty: 0, ro: 2}}}}
		ss = append(ss, s)
	}
	return ss
}

func (s *sim) someStates(n int, wAdd, wRem, wMod, wNone int) ([][]int64, []int64) {
	var as [][]int64
	var st []int64
	for j := 0; j < n; j++ {
		a := s.nonZeroAddr()
		if s.r.Chance(1, 25) {
			a = []int64{0}
		}
		as = append(as, a)
		st = append(st, int64([]int{1, 2, 3, 0}[s.r.Pick(wAdd, wRem, wMod, wNone)]))
	}
	return as, st
}

func gen(r *hx.Rng, tier string, i int) []hx.Zs {
	ss := newSims(r)
	var h []hx.Zs
	n := r.Range(6, 26)
	if tier == "thorough" {
		n = r.Range(6, 60)
	}
	pick := func() *sim {
		if i%2 == 0 {
			return ss[r.Intn(2)]
		}
		return ss[r.Intn(nPeers)]
	}
	switch i % 5 {
	case 0: // orderly peers: reply, then adds / removes / full notifications, registrations in between
		for _, s := range ss {
			if r.Chance(4, 5) {
				h = append(h, s.reply(false))
			}
		}
		for len(h) < n {
			s := pick()
			switch r.Pick(25, 20, 15, 30, 5, 5) {
			case 0:
				as, st := s.someStates(r.Range(1, 2), 1, 0, 0, 0)
				h = append(h, s.partial(as, st))
			case 1:
				var m hx.Zs
				if len(s.tree) > 1 {
					m = s.partial([][]int64{s.tree[1+r.Intn(len(s.tree)-1)].e.a}, []int64{2})
				} else {
					m = s.partial([][]int64{s.nonZeroAddr()}, []int64{2})
				}
				if r.Chance(1, 3) {
					m = wrapDuring(ss, s, m)
				}
				h = append(h, m)
			case 2:
				m := s.full(25, 25, 0)
				if r.Chance(1, 3) {
					m = wrapDuring(ss, s, m)
				}
				h = append(h, m)
			case 3:
				h = append(h, s.reg(int64(r.Intn(4))))
			case 4:
				h = append(h, s.reply(r.Chance(1, 2)))
			default:
				as, st := s.someStates(r.Range(2, 3), 1, 1, 0, 0)
				h = append(h, s.partial(as, st))
			}
		}
	case 1: // anything goes: mixed states, repeated entries, unknown removals, stateless entries, before and after a reply
		for len(h) < n {
			s := pick()
			switch r.Pick(40, 12, 14, 24, 10) {
			case 0:
				as, st := s.someStates(r.Range(1, 4), 10, 8, 2, 1)
				if r.Chance(1, 5) && len(as) > 1 { // the same address twice
					as[len(as)-1] = as[0]
				}
				h = append(h, s.partial(as, st))
			case 1:
				h = append(h, s.reply(r.Chance(1, 2)))
			case 2:
				h = append(h, s.full(30, 30, 15))
			case 3:
				h = append(h, s.reg(int64(r.Intn(4))))
			default:
				h = append(h, encMsg(s.p, int64(r.Intn(3)), r.Bool(), nil, nil)) // empty message
				stats["empty"]++
			}
		}
	case 2: // cascade: the same addresses on several peers, everything registered, then entities go
		for _, s := range ss {
			h = append(h, s.reply(false))
			as, st := s.someStates(r.Range(2, 3), 1, 0, 0, 0)
			h = append(h, s.partial(as, st))
		}
		for j := 0; j < r.Range(6, 14); j++ {
			h = append(h, pick().reg(int64(r.Intn(4))))
		}
		for len(h) < n+10 {
			s := pick()
			switch r.Pick(30, 15, 10, 25, 20) {
			case 0:
				as, st := s.someStates(r.Range(1, 2), 0, 1, 0, 0)
				if len(s.tree) > 1 && r.Chance(3, 4) {
					as[0] = s.tree[1+r.Intn(len(s.tree)-1)].e.a
				}
				if len(s.tree) > 1 && r.Chance(1, 2) {
					// make sure the entity that goes holds an entry of the kind of the call that arrives meanwhile
					e := s.tree[1+r.Intn(len(s.tree)-1)]
					kd := int64(r.Intn(2))
					for _, f := range e.fs {
						if f.ro != 1 {
							h = append(h, regOp(s.p, kd, f.id, e.e.a))
							break
						}
					}
					o := ss[(int(s.p)+1+r.Intn(len(ss)-1))%len(ss)]
					call := o.reg(kd)
					as[0] = e.e.a
					h = append(h, duringOp(s.partial(as, st), call[1], call[2], call[3], call[5:]))
					break
				}
				m := s.partial(as, st)
				if r.Chance(1, 2) {
					m = wrapDuring(ss, s, m)
				}
				h = append(h, m)
			case 1:
				m := s.full(50, 10, 0)
				if r.Chance(1, 2) {
					m = wrapDuring(ss, s, m)
				}
				h = append(h, m)
			case 2:
				m := s.reply(true)
				if r.Chance(1, 2) {
					m = wrapDuring(ss, s, m)
				}
				h = append(h, m)
			case 3:
				h = append(h, s.reg(int64(r.Intn(4))))
			default:
				as, st := s.someStates(r.Range(2, 3), 1, 1, 0, 0)
				h = append(h, s.partial(as, st))
			}
		}
	case 3: // before the reply: entities announced while the device address is unknown, partial replies, then removals
		for len(h) < n {
			s := pick()
			switch r.Pick(30, 15, 20, 25, 10) {
			case 0:
				as, st := s.someStates(r.Range(1, 2), 3, 1, 0, 0)
				h = append(h, s.partial(as, st))
			case 1:
				h = append(h, s.reply(true))
			case 2:
				h = append(h, s.reg(int64(2+r.Intn(2))))
			case 3:
				as, st := s.someStates(r.Range(1, 2), 0, 1, 0, 0)
				if len(s.tree) > 0 && r.Chance(3, 4) {
					as[0] = s.tree[r.Intn(len(s.tree))].e.a
				}
				h = append(h, s.partial(as, st))
			default:
				h = append(h, s.full(20, 30, 0))
			}
		}
	default: // complete descriptions that change what is known (the recorded findings) and entity [0] games
		for _, s := range ss {
			if r.Chance(2, 3) {
				h = append(h, s.reply(false))
			}
		}
		for len(h) < n {
			s := pick()
			switch r.Pick(35, 20, 15, 10, 10, 10) {
			case 0:
				h = append(h, s.full(15, 20, 40))
			case 1:
				h = append(h, s.reply(r.Chance(1, 3)))
			case 2:
				as, st := s.someStates(r.Range(1, 2), 1, 0, 0, 0)
				if len(s.tree) > 0 {
					as[0] = s.tree[r.Intn(len(s.tree))].e.a // re-announce a known entity
				}
				h = append(h, s.partial(as, st))
			case 3:
				h = append(h, s.partial([][]int64{{0}}, []int64{int64(1 + r.Intn(2))}))
				stats["entity-0-partial"]++
			case 4:
				h = append(h, s.reg(int64(r.Intn(4))))
			default:
				as, st := s.someStates(r.Range(1, 3), 1, 1, 1, 0)
				h = append(h, s.partial(as, st))
			}
		}
	}
	return h
}

// ---- fixed histories: the witnesses of the repaired defects and of the recorded findings

func fixed(tier string) [][]hx.Zs {
	r := hx.NewRng(7)
	mk := func() *sim {
		s := &sim{p: 0, r: r}
		return s
	}
	e := func(a []int64, s int64) gEnt {
		return gEnt{a: a, ty: defaultType(a), hasS: s > 0, s: s}
	}
	f := func(a []int64, id, ro int64) gFeat { return gFeat{a: a, id: id, ty: 2, ro: ro} }
	nm := gFeat{a: []int64{0}, id: 0, ty: 0, ro: 2}
	_ = mk
	reply01 := encMsg(0, 0, true, []gEnt{e([]int64{0}, 0), e([]int64{1}, 0)}, []gFeat{nm, f([]int64{1}, 1, 0)})
	var hs [][]hx.Zs
	// 1. pinned defect: {[2] added, [1] removed} on {[0],[1]} must leave {[0],[2]}
	hs = append(hs, []hx.Zs{reply01,
		encMsg(0, 1, true, []gEnt{e([]int64{2}, 1), e([]int64{1}, 2)}, []gFeat{f([]int64{2}, 1, 0)})})
	// 2. {[1] removed, [2] added}: the added branch of the pinned code re-creates [1]
	hs = append(hs, []hx.Zs{reply01,
		encMsg(0, 1, true, []gEnt{e([]int64{1}, 2), e([]int64{2}, 1)}, []gFeat{f([]int64{2}, 1, 0), f([]int64{1}, 1, 0)})})
	// 3. an entity announced before the reply carries no device address: its removal must still clean the client caches
	hs = append(hs, []hx.Zs{
		encMsg(0, 1, false, []gEnt{e([]int64{1}, 1)}, []gFeat{f([]int64{1}, 1, 1)}),
		encMsg(0, 0, true, []gEnt{e([]int64{0}, 0)}, []gFeat{nm}),
		encMsg(0, 1, false, []gEnt{e([]int64{1}, 1)}, []gFeat{f([]int64{1}, 1, 1)}),
		regOp(0, 2, 1, []int64{1}), regOp(0, 3, 1, []int64{1}), regOp(1, 2, 1, []int64{1}),
		encMsg(0, 1, false, []gEnt{e([]int64{1}, 2)}, nil)})
	// 4. a second reply that no longer lists [1] (with a subscription and a binding of [1]/1, and the same on peer 1)
	reply11 := encMsg(1, 0, true, []gEnt{e([]int64{0}, 0), e([]int64{1}, 0)}, []gFeat{nm, f([]int64{1}, 1, 0)})
	hs = append(hs, []hx.Zs{reply01, reply11, regOp(0, 0, 1, []int64{1}), regOp(0, 1, 1, []int64{1}), regOp(1, 0, 1, []int64{1}),
		regOp(0, 2, 1, []int64{1}),
		encMsg(0, 0, true, []gEnt{e([]int64{0}, 0)}, []gFeat{nm})})
	// 5. recorded finding: a known address announced with another entity type
	e1x := e([]int64{1}, 1)
	e1x.ty = 3
	hs = append(hs, []hx.Zs{reply01, encMsg(0, 1, true, []gEnt{e1x}, []gFeat{f([]int64{1}, 1, 0)})})
	// 6. recorded finding: a full notification with new features for the known entity [1]
	hs = append(hs, []hx.Zs{reply01,
		encMsg(0, 2, true, []gEnt{e([]int64{0}, 0), e([]int64{1}, 0), e([]int64{2}, 0)},
			[]gFeat{nm, f([]int64{1}, 1, 0), f([]int64{1}, 2, 1), f([]int64{2}, 1, 1)})})
	// 7. a full notification that does not list [0]: [0] goes, every later datagram of the peer is dropped
	hs = append(hs, []hx.Zs{reply01,
		encMsg(0, 2, true, []gEnt{e([]int64{1}, 0)}, []gFeat{f([]int64{1}, 1, 0)}),
		encMsg(0, 1, true, []gEnt{e([]int64{2}, 1)}, nil), reply01})
	// 8. nested addresses, several peers, the same entity added twice in one message, removal of an unknown entity
	hs = append(hs, []hx.Zs{reply01, reply11,
		encMsg(1, 1, true, []gEnt{e([]int64{1, 1}, 1), e([]int64{1, 1}, 1), e([]int64{2, 1}, 2)}, []gFeat{f([]int64{1, 1}, 1, 0), f([]int64{1, 1}, 2, 1)}),
		regOp(1, 0, 1, []int64{1, 1}), regOp(0, 0, 1, []int64{1}),
		encMsg(1, 1, false, []gEnt{e([]int64{1, 1}, 2), e([]int64{1}, 2)}, nil)})
	// 9-11. peer 1's request call arrives while peer 0's entity [1] (which holds a subscription and a binding) is removed
	// by a partial notification / a reply / a full notification that no longer lists it: the call must not be lost
	setup := []hx.Zs{reply01, reply11, regOp(0, 0, 1, []int64{1}), regOp(0, 1, 1, []int64{1})}
	with := func(o hx.Zs) []hx.Zs { return append(append([]hx.Zs(nil), setup...), o) }
	hs = append(hs, with(duringOp(encMsg(0, 1, true, []gEnt{e([]int64{1}, 2)}, nil), 1, 0, 1, []int64{1})))
	hs = append(hs, with(duringOp(encMsg(0, 0, true, []gEnt{e([]int64{0}, 0)}, []gFeat{nm}), 1, 1, 1, []int64{1})))
	hs = append(hs, with(duringOp(encMsg(0, 2, true, []gEnt{e([]int64{0}, 0)}, []gFeat{nm}), 1, 0, 1, []int64{1})))
	return hs
}
