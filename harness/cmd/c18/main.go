package main

import (
	"fmt"

	"verifharness/c18lib"
)

func main() {
	c := c18lib.NewClosure()
	fa, err := c18lib.NewFactory(c, "/var/tmp/verif-wt.c18")
	if err != nil {
		panic(err)
	}
	nm := func(s *c18lib.Struct) string {
		if s == nil {
			return "-"
		}
		return s.Name
	}
	ns, ne := 0, 0
	for _, f := range fa.Functions {
		if f.Sel != nil {
			ns++
		}
		if f.El != nil {
			ne++
		}
		if f.Sel != f.TagSel || f.El != f.TagEl {
			fmt.Printf("%s data=%s conv sel=%s el=%s  tags sel=%s el=%s\n", f.Name, f.Data.Name, nm(f.Sel), nm(f.El), nm(f.TagSel), nm(f.TagEl))
		}
		if f.El == nil {
			fmt.Printf("no elements type: %s (%s)\n", f.Name, f.Data.Name)
		}
	}
	fmt.Println(len(fa.Functions), "functions", len(fa.Registered), "registered", ns, "with selectors", ne, "with elements", fa.Unregistered)
	// filter fields not used by any registered function by convention
	used := map[*c18lib.Struct]bool{}
	for _, f := range fa.Functions {
		used[f.Sel] = true
		used[f.El] = true
	}
	for _, f := range c.Filter().Fields {
		if f.Ty.Kind.K == "struct" && f.Go != "CmdControl" && !used[c.Structs[f.Ty.Kind.Struct]] {
			fmt.Println("filter field of no registered function:", f.Go, f.Eebus)
		}
	}
}
