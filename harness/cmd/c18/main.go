// C18 runner: the tag-driven command tables and the JSON codec of spine-go against
// the models coq/Model/CmdTables.v + JsonCodec.v (machine: coq/Model/CmdWire.v).
//
// op encoding (parse_op in CmdWire.v); <..> are trees in the integer encoding of c18lib/tree.go:
//
//	0 ft fn shape <data> <sel> <el>   build the command of the shape with the real API for the
//	                                  function entry fn registered for feature type ft, json.Marshal,
//	                                  json.Unmarshal, CmdType.Data / ExtractFilter / FilterType.Data
//	1 tid <value>                     json.Marshal the value of struct type tid, Unmarshal it again
//	2 tid <json>                      json.Unmarshal an arbitrary JSON tree into struct type tid
//
// obs encoding (print_obs): 10 <json> | 11 fn idx ty <value> | 16 | 12/13 present fn selty elty <sel> <el>
// | 14 <value> | 17 code | 19 site | 20 | 21.
//
// Struct ids, field positions and function indices are those of the translator tables
// (same reflection closure, c18lib).
package main

import (
	"bytes"
	"encoding/json"
	"fmt"
	"os"
	"path/filepath"
	"reflect"
	"strings"

	"github.com/enbility/spine-go/api"
	"github.com/enbility/spine-go/model"

	"verifharness/c18lib"
	"verifharness/hx"
)

var (
	clo *c18lib.Closure
	fac *c18lib.Factory
	// statistics for the evidence
	rowsRun       = map[string]int{}
	shapesRun     = map[string]int{}
	codecTypes    = map[int]int{}
	decodeOutcome = map[string]int{}
	panicsSeen    = map[string]int{}
	notApplicable = 0
	failingRows   = map[string]bool{}
)

var shapeNames = []string{"read", "read+selector", "read+elements", "reply", "notify/write full", "partial",
	"partial+selector", "delete+selector", "delete+elements", "read+selector+elements", "reply partial",
	"delete selector+elements, partial selector"}

func needsSel(shape int64) bool {
	switch shape {
	case 1, 6, 7, 9, 11:
		return true
	}
	return false
}

func needsEl(shape int64) bool {
	switch shape {
	case 2, 8, 9, 11:
		return true
	}
	return false
}

func fnIndex(name string) int64 {
	for _, f := range fac.Functions {
		if f.Name == name {
			return int64(f.Index)
		}
	}
	return -2
}

func structID(v any) int64 {
	t := reflect.TypeOf(v)
	for t.Kind() == reflect.Ptr {
		t = t.Elem()
	}
	if s, ok := clo.ByType[t]; ok {
		return int64(s.ID)
	}
	return -3
}

func obs(tag int64, rest ...int64) hx.Zs { return append(hx.Zs{tag}, rest...) }

func withTree(z hx.Zs, vs ...c18lib.V) hx.Zs {
	out := []int64(z)
	for _, v := range vs {
		out = v.Ints(out)
	}
	return hx.Zs(out)
}

func panicSite(r any) int64 {
	s := fmt.Sprint(r)
	switch {
	case strings.Contains(s, "reflect.Value.Convert"), strings.Contains(s, "reflect.Set"), strings.Contains(s, "not assignable"):
		return 1
	case strings.Contains(s, "nil pointer dereference"):
		return 2
	}
	return 9
}

type impl struct{}

func (impl) Close() {}

// function data objects of the running history, by feature type (reset by every new history)
var historyFds = map[int64][]api.FunctionDataCmdInterface{}

// anyPtr turns a tree into the `any` argument of the builders: nil, or a pointer to a value of type s.
func anyPtr(v c18lib.V, s *c18lib.Struct) any {
	if v.IsNil() || s == nil {
		return nil
	}
	return clo.FromTree(v, reflect.PointerTo(s.Type)).Interface()
}

func filterObs(which int64, f *model.FilterType) hx.Zs {
	if f == nil {
		return withTree(obs(12+which, 0, -1, -1, -1), c18lib.Nil, c18lib.Nil)
	}
	fd, err := f.Data()
	if err != nil || fd == nil {
		return withTree(obs(12+which, 1, -1, -1, -1), c18lib.Nil, c18lib.Nil)
	}
	fn := int64(-1)
	if fd.Function != nil {
		fn = fnIndex(string(*fd.Function))
	}
	selty, elty := int64(-1), int64(-1)
	sv, ev := c18lib.Nil, c18lib.Nil
	if fd.Selector != nil {
		selty = structID(fd.Selector)
		sv = clo.ToTree(reflect.ValueOf(fd.Selector))
	}
	if fd.Elements != nil {
		elty = structID(fd.Elements)
		ev = clo.ToTree(reflect.ValueOf(fd.Elements))
	}
	return withTree(obs(12+which, 1, fn, selty, elty), sv, ev)
}

func execRow(op hx.Zs) (out []hx.Zs) {
	ft, fn, shape := op[1], op[2], op[3]
	data, rest, err := c18lib.Parse(op[4:])
	if err != nil {
		return []hx.Zs{{97}}
	}
	sel, rest, err := c18lib.Parse(rest)
	if err != nil {
		return []hx.Zs{{97}}
	}
	el, rest, err := c18lib.Parse(rest)
	if err != nil || len(rest) != 0 {
		return []hx.Zs{{97}}
	}
	registered := false
	for _, r := range fac.Registered {
		if int64(r[0]) == ft && int64(r[1]) == fn {
			registered = true
		}
	}
	if !registered {
		return []hx.Zs{{21}}
	}
	f := fac.Functions[fn]
	if (needsSel(shape) && f.Sel == nil) || (needsEl(shape) && f.El == nil) {
		notApplicable++
		return []hx.Zs{{20}}
	}
	rowName := fmt.Sprintf("%s/%s/%s", fac.FeatureTypes[ft], f.Name, shapeNames[shape])
	rowsRun[fac.FeatureTypes[ft]]++
	shapesRun[shapeNames[shape]]++
	defer func() {
		if r := recover(); r != nil {
			panicsSeen[fmt.Sprint(r)]++
			failingRows[rowName] = true
			out = append(out, obs(19, panicSite(r)))
		}
	}()
	// the function data objects the stack registers for this feature type; they are kept for the
	// whole history (as a feature keeps them), so that a command built earlier on the same object
	// cannot leak into a later one unnoticed
	fds, ok := historyFds[ft]
	if data.IsNil() {
		ok = false // a row without stored data needs an object that has never stored any
		delete(historyFds, ft)
	}
	if !ok {
		fds, ok = c18lib.CreateFor(model.FeatureTypeType(fac.FeatureTypes[ft]))
		if !ok {
			return []hx.Zs{{21}}
		}
		if !data.IsNil() {
			historyFds[ft] = fds
		}
	}
	var fd api.FunctionDataCmdInterface
	for _, x := range fds {
		if string(x.FunctionType()) == f.Name && structID(x.DataCopyAny()) == int64(f.Data.ID) {
			fd = x
			break
		}
	}
	if fd == nil {
		return []hx.Zs{{21}}
	}
	if !data.IsNil() {
		fd.UpdateDataAny(false, true, clo.FromTree(data, reflect.PointerTo(f.Data.Type)).Interface(), nil, nil)
	}
	s, e := anyPtr(sel, f.Sel), anyPtr(el, f.El)
	// "no selector" / "no elements" is passed as an untyped nil or, every other row, as a nil pointer of
	// the function's selectors / elements type (what a caller with a conditionally assigned variable
	// hands over): both mean absent, the model has one plain shape for them
	typedNilRows++
	ns, ne := any(nil), any(nil)
	if typedNilRows%2 == 0 {
		if f.Sel != nil {
			ns = reflect.Zero(reflect.PointerTo(f.Sel.Type)).Interface()
		}
		if f.El != nil {
			ne = reflect.Zero(reflect.PointerTo(f.El.Type)).Interface()
		}
	}
	var cmd model.CmdType
	switch shape {
	case 0:
		cmd = fd.ReadCmdType(ns, ne)
	case 1:
		cmd = fd.ReadCmdType(s, ne)
	case 2:
		cmd = fd.ReadCmdType(ns, e)
	case 3:
		cmd = fd.ReplyCmdType(false)
	case 4:
		cmd = fd.NotifyOrWriteCmdType(ns, ns, false, ne)
	case 5:
		cmd = fd.NotifyOrWriteCmdType(ns, ns, true, ne)
	case 6:
		cmd = fd.NotifyOrWriteCmdType(ns, s, false, ne)
	case 7:
		cmd = fd.NotifyOrWriteCmdType(s, ns, false, ne)
	case 8:
		cmd = fd.NotifyOrWriteCmdType(ns, ns, false, e)
	case 9:
		cmd = fd.ReadCmdType(s, e)
	case 10:
		cmd = fd.ReplyCmdType(true)
	default:
		cmd = fd.NotifyOrWriteCmdType(s, s, false, e)
	}
	b, err := json.Marshal(cmd)
	if err != nil {
		return []hx.Zs{obs(17, 18)}
	}
	jt, err := c18lib.JSONTree(b)
	if err != nil {
		return []hx.Zs{obs(17, 18)}
	}
	out = append(out, withTree(obs(10), jt))
	var back model.CmdType
	if err := json.Unmarshal(b, &back); err != nil {
		return append(out, obs(17, 17))
	}
	// what the receiver sees
	p, d := back.ExtractFilter()
	var dataObs hx.Zs
	if cd, err := back.Data(); err != nil {
		dataObs = obs(16)
	} else {
		fnx := int64(-1)
		if cd.Function != nil {
			fnx = fnIndex(string(*cd.Function))
		}
		dataObs = withTree(obs(11, fnx, int64(clo.Cmd().FieldIndex(cd.FieldName)), structID(cd.Value)), clo.ToTree(reflect.ValueOf(cd.Value)))
	}
	return append(out, dataObs, filterObs(0, p), filterObs(1, d))
}

func execCodec(op hx.Zs) (out []hx.Zs) {
	defer func() {
		if r := recover(); r != nil {
			out = []hx.Zs{{97}}
		}
	}()
	tid := op[1]
	if tid < 0 || int(tid) >= len(clo.Structs) {
		return []hx.Zs{{97}}
	}
	v, rest, err := c18lib.Parse(op[2:])
	if err != nil || len(rest) != 0 {
		return []hx.Zs{{97}}
	}
	s := clo.Structs[tid]
	codecTypes[s.ID]++
	val := clo.FromTree(v, reflect.PointerTo(s.Type))
	b, err := json.Marshal(val.Interface())
	if err != nil {
		return []hx.Zs{obs(17, 18)}
	}
	jt, err := c18lib.JSONTree(b)
	if err != nil {
		return []hx.Zs{obs(17, 18)}
	}
	out = append(out, withTree(obs(10), jt))
	back := reflect.New(s.Type)
	if err := json.Unmarshal(b, back.Interface()); err != nil {
		return append(out, obs(17, 17))
	}
	return append(out, withTree(obs(14), clo.ToTree(back)))
}

func execDecode(op hx.Zs) (out []hx.Zs) {
	defer func() {
		if r := recover(); r != nil {
			out = []hx.Zs{{97}}
		}
	}()
	tid := op[1]
	if tid < 0 || int(tid) >= len(clo.Structs) {
		return []hx.Zs{{97}}
	}
	jt, rest, err := c18lib.Parse(op[2:])
	if err != nil || len(rest) != 0 {
		return []hx.Zs{{97}}
	}
	var buf bytes.Buffer
	c18lib.RenderJSON(jt, &buf)
	s := clo.Structs[tid]
	back := reflect.New(s.Type)
	if err := json.Unmarshal(buf.Bytes(), back.Interface()); err != nil {
		decodeOutcome["error"]++
		return []hx.Zs{obs(17, 17)}
	}
	decodeOutcome["ok"]++
	return []hx.Zs{withTree(obs(14), clo.ToTree(back))}
}

func (impl) Exec(op hx.Zs) []hx.Zs {
	if len(op) < 2 {
		return []hx.Zs{{97}}
	}
	switch op[0] {
	case 0:
		if len(op) < 7 || op[3] < 0 || op[3] > 11 || op[2] < 0 || int(op[2]) >= len(fac.Functions) || op[1] < 0 || int(op[1]) >= len(fac.FeatureTypes) {
			return []hx.Zs{{21}}
		}
		return execRow(op)
	case 1:
		return execCodec(op)
	case 2:
		return execDecode(op)
	}
	return []hx.Zs{{97}}
}

// ---------------------------------------------------------------- generators

func rowOp(ft, fn int, shape int64, data, sel, el c18lib.V) hx.Zs {
	return withTree(hx.Zs{0, int64(ft), int64(fn), shape}, data, sel, el)
}

func sampleRow(ft, fn int, shape int64, depth int) hx.Zs {
	f := fac.Functions[fn]
	return rowOp(ft, fn, shape, clo.SampleStruct(depth, f.Data), clo.SampleStruct(depth, f.Sel), clo.SampleStruct(depth, f.El))
}

// fixed: the exhaustive function x shape sweep over the sample values the theorem
// C18_recognised computes on (depths 0, 1, 2).
func fixed(tier string) [][]hx.Zs {
	var out [][]hx.Zs
	// small histories first (they are the in-Coq cross-check sample)
	for i := 0; i < len(fac.Registered); i += 11 {
		r := fac.Registered[i]
		var h []hx.Zs
		for _, sh := range []int64{1, 3, 8} {
			h = append(h, sampleRow(r[0], r[1], sh, 0))
		}
		out = append(out, h)
	}
	seenFn := map[int]bool{}
	for _, r := range fac.Registered {
		depths := []int{1}
		if !seenFn[r[1]] || tier == "thorough" {
			depths = []int{0, 1, 2}
			seenFn[r[1]] = true
		}
		for _, d := range depths {
			var h []hx.Zs
			for sh := int64(0); sh < 12; sh++ {
				h = append(h, sampleRow(r[0], r[1], sh, d))
			}
			// and the plain shapes once more, after the filtered ones, on the same function data object
			for _, sh := range []int64{0, 4, 3} {
				h = append(h, sampleRow(r[0], r[1], sh, d))
			}
			out = append(out, h)
		}
	}
	return out
}

var alphabet = []string{"", "a", "s", "abc", "Zeta", "0", "-1", "true", "null", " ", "a b", "\"", "\\", "/", "<", ">", "&", "\n", "\t",
	"\u0001", "\u007f", "é", "ß", "日本", "😀", " ", " ", "{}", "[]", ":", ",", "key", "KEY"}

func genString(r *hx.Rng) string {
	n := r.Pick(3, 5, 3, 1)
	var b strings.Builder
	for i := 0; i < n; i++ {
		b.WriteString(alphabet[r.Intn(len(alphabet))])
	}
	s := b.String()
	// never an ISO-8601 duration (the TimePeriodType clause is exercised apart)
	if strings.HasPrefix(s, "P") || strings.HasPrefix(s, "-P") || strings.HasPrefix(s, "+P") {
		s = "x" + s
	}
	return s
}

func genInt(r *hx.Rng, k c18lib.Kind) int64 {
	var lo, hi int64
	fmt.Sscan(k.Lo, &lo)
	if _, err := fmt.Sscan(k.Hi, &hi); err != nil {
		hi = 1<<63 - 1 // uint64: the wire carries int64
	}
	switch r.Pick(3, 3, 1, 1, 2) {
	case 0:
		return 0
	case 1:
		return int64(r.Intn(100))
	case 2:
		return lo
	case 3:
		return hi
	}
	x := int64(r.U64() >> 1)
	if x > hi {
		x = x % (hi + 1)
	}
	if lo < 0 && r.Bool() {
		x = -x
		if x < lo {
			x = lo
		}
	}
	return x
}

func genKind(r *hx.Rng, k c18lib.Kind, depth int) c18lib.V {
	switch k.K {
	case "bool":
		return c18lib.V{Tag: c18lib.TBool, B: r.Bool()}
	case "int":
		return c18lib.V{Tag: c18lib.TInt, Z: genInt(r, k)}
	case "str":
		return c18lib.V{Tag: c18lib.TStr, S: genString(r)}
	case "struct":
		return genStruct(r, clo.Structs[k.Struct], depth)
	}
	return c18lib.Nil
}

func genStruct(r *hx.Rng, s *c18lib.Struct, depth int) c18lib.V {
	v := c18lib.V{Tag: c18lib.TStruct, L: []c18lib.V{}}
	for _, f := range s.Fields {
		var x c18lib.V
		nilChance := 35 + 12*depth
		if f.Ty.Kind.K == "struct" && depth >= 4 {
			nilChance = 100
		}
		switch f.Ty.Shape {
		case "ptr":
			if r.Chance(nilChance, 100) {
				x = c18lib.Nil
			} else {
				x = genKind(r, f.Ty.Kind, depth+1)
			}
		case "slice":
			switch {
			case r.Chance(nilChance, 100):
				x = c18lib.Nil
			case r.Chance(15, 100):
				x = c18lib.V{Tag: c18lib.TList, L: []c18lib.V{}}
			default:
				x = c18lib.V{Tag: c18lib.TList, L: []c18lib.V{}}
				for i, n := 0, r.Range(1, 3); i < n; i++ {
					x.L = append(x.L, genKind(r, f.Ty.Kind, depth+1))
				}
			}
		default:
			x = genKind(r, f.Ty.Kind, depth+1)
		}
		v.L = append(v.L, x)
	}
	if s.Custom && s.Name == "TimePeriodType" {
		// keep the custom (un)marshaller on its identity branch: a start time whenever there is an end time
		si, ei := s.FieldIndex("StartTime"), s.FieldIndex("EndTime")
		if si >= 0 && ei >= 0 && !v.L[ei].IsNil() && v.L[si].IsNil() {
			v.L[si] = c18lib.V{Tag: c18lib.TStr, S: "2024-01-01T00:00:00Z"}
		}
	}
	return v
}

// the types the property quantifies over: every command payload, selector and elements type
var valueRoots []*c18lib.Struct

func initRoots() {
	for _, f := range clo.Cmd().Fields {
		if f.Ty.Kind.K == "struct" && f.Go != "Filter" {
			valueRoots = append(valueRoots, clo.Structs[f.Ty.Kind.Struct])
		}
	}
	for _, f := range clo.Filter().Fields {
		if f.Ty.Kind.K == "struct" {
			valueRoots = append(valueRoots, clo.Structs[f.Ty.Kind.Struct])
		}
	}
	valueRoots = append(valueRoots, clo.Cmd(), clo.Filter(), clo.Structs[0])
}

func flipCase(s string, r *hx.Rng) string {
	b := []byte(s)
	for i := range b {
		if r.Chance(1, 3) {
			switch {
			case b[i] >= 'a' && b[i] <= 'z':
				b[i] -= 32
			case b[i] >= 'A' && b[i] <= 'Z':
				b[i] += 32
			}
		}
	}
	return string(b)
}

// mutate perturbs a JSON tree the way a foreign peer might: unknown members, nulls,
// other key case, reordered members, wrong kinds, out-of-range numbers, repeated scalars.
func mutate(r *hx.Rng, v c18lib.V, budget *int) c18lib.V {
	switch v.Tag {
	case c18lib.TObj:
		out := c18lib.V{Tag: c18lib.TObj, L: []c18lib.V{}, Keys: []string{}}
		for i, x := range v.L {
			k := v.Keys[i]
			if *budget > 0 && r.Chance(1, 12) {
				*budget--
				switch r.Intn(6) {
				case 0:
					k = flipCase(k, r)
				case 1:
					x = c18lib.Nil
				case 2:
					out.Keys = append(out.Keys, "unknown"+k)
					out.L = append(out.L, c18lib.V{Tag: c18lib.TInt, Z: 1})
				case 3:
					if x.Tag == c18lib.TInt || x.Tag == c18lib.TStr || x.Tag == c18lib.TBool {
						out.Keys = append(out.Keys, k) // an earlier duplicate that the later member overrides
						out.L = append(out.L, x)
					}
				case 4:
					switch x.Tag {
					case c18lib.TInt:
						x = c18lib.V{Tag: c18lib.TInt, Z: []int64{-1, 256, 1 << 40, -(1 << 62)}[r.Intn(4)]}
					case c18lib.TStr:
						x = c18lib.V{Tag: c18lib.TInt, Z: 5}
					case c18lib.TBool:
						x = c18lib.V{Tag: c18lib.TStr, S: "true"}
					}
				case 5:
					continue // member dropped
				}
			}
			out.Keys = append(out.Keys, k)
			out.L = append(out.L, mutate(r, x, budget))
		}
		if *budget > 0 && len(out.L) > 1 && r.Chance(1, 6) {
			*budget--
			i, j := r.Intn(len(out.L)), r.Intn(len(out.L))
			out.L[i], out.L[j] = out.L[j], out.L[i]
			out.Keys[i], out.Keys[j] = out.Keys[j], out.Keys[i]
		}
		return out
	case c18lib.TList:
		out := c18lib.V{Tag: c18lib.TList, L: []c18lib.V{}}
		for _, x := range v.L {
			if *budget > 0 && r.Chance(1, 20) {
				*budget--
				x = c18lib.Nil
			}
			out.L = append(out.L, mutate(r, x, budget))
		}
		return out
	}
	return v
}

func gen(r *hx.Rng, tier string, i int) []hx.Zs {
	switch r.Pick(6, 2, 2) {
	case 0: // values of the payload / selector / elements types, and their JSON perturbed
		var h []hx.Zs
		for n := r.Range(2, 3); n > 0; n-- {
			s := valueRoots[r.Intn(len(valueRoots))]
			v := genStruct(r, s, r.Pick(3, 1, 1))
			h = append(h, withTree(hx.Zs{1, int64(s.ID)}, v))
			if r.Chance(1, 2) {
				b, err := json.Marshal(clo.FromTree(v, reflect.PointerTo(s.Type)).Interface())
				if err == nil {
					if jt, err := c18lib.JSONTree(b); err == nil {
						budget := 3
						h = append(h, withTree(hx.Zs{2, int64(s.ID)}, mutate(r, jt, &budget)))
					}
				}
			}
		}
		return h
	case 1: // rows with random payload, selector and elements
		var h []hx.Zs
		for n := r.Range(2, 4); n > 0; n-- {
			reg := fac.Registered[r.Intn(len(fac.Registered))]
			f := fac.Functions[reg[1]]
			data, sel, el := c18lib.Nil, c18lib.Nil, c18lib.Nil
			if r.Chance(4, 5) {
				data = genStruct(r, f.Data, 1)
			}
			if f.Sel != nil {
				sel = genStruct(r, f.Sel, 0)
			}
			if f.El != nil {
				el = genStruct(r, f.El, 0)
			}
			h = append(h, rowOp(reg[0], reg[1], int64(r.Intn(12)), data, sel, el))
		}
		return h
	default: // whole commands and datagrams
		var h []hx.Zs
		for n := 2; n > 0; n-- {
			s := []*c18lib.Struct{clo.Cmd(), clo.Filter(), clo.Structs[0]}[r.Intn(3)]
			v := genStruct(r, s, 2)
			h = append(h, withTree(hx.Zs{1, int64(s.ID)}, v))
		}
		return h
	}
}

// emitCorpus writes the regression inputs: the rows that failed on the pinned tree
// (repaired by the fix: patches) and the witnesses of the two recorded findings.
func emitCorpus(dir string) {
	ftIdx := func(name string) int {
		for i, ft := range fac.FeatureTypes {
			if ft == name {
				return i
			}
		}
		panic("feature type " + name)
	}
	type row struct {
		file, ft, fn, what string
		shapes             []int64
	}
	rows := []row{
		{"fixed-delete-filter-panic", "Measurement", "measurementListData", "NotifyOrWriteCmdType with a delete selector / delete elements panicked (pointer to interface handed to reflect.Convert)", []int64{7, 8, 11}},
		{"fixed-tag-networkmanagement-featuredescription-selectors", "NetworkManagement", "networkManagementFeatureDescriptionListData", "selector dropped: tag fct:networkManagementFeatureDescriptionList", []int64{1, 6, 7}},
		{"fixed-tag-sessionidentification-elements", "Generic", "sessionIdentificationListData", "elements dropped: tag fct:sessionIdentificationData", []int64{2, 8}},
		{"fixed-tag-sessionmeasurementrelation-elements", "Generic", "sessionMeasurementRelationListData", "elements dropped: tag fct:sessionMeasurementRelationData", []int64{2, 8}},
		{"fixed-tag-measurementseries-selectors", "Measurement", "measurementSeriesListData", "selector dropped: eebus tag without typ:/fct: keys", []int64{1, 6, 7}},
		{"finding-setpoint-description-elements-tag", "Setpoint", "setpointDescriptionListData", "elements dropped: tag fct: (empty)", []int64{2, 8}},
		{"finding-shared-elements-type", "ElectricalConnection", "electricalConnectionCharacteristicData", "elements dropped: ElectricalConnectionCharacteristicDataElements is tagged for the list function", []int64{2, 8}},
	}
	for _, r := range rows {
		fn := -1
		for _, reg := range fac.Registered {
			if reg[0] == ftIdx(r.ft) && fac.Functions[reg[1]].Name == r.fn {
				fn = reg[1]
			}
		}
		if fn < 0 {
			panic("row " + r.file)
		}
		var h []hx.Zs
		for _, sh := range r.shapes {
			h = append(h, sampleRow(ftIdx(r.ft), fn, sh, 1))
		}
		b, _ := json.Marshal(map[string]any{"property": "C18", "note": r.what,
			"row": fmt.Sprintf("feature type %s, function %s, shapes %v", r.ft, r.fn, r.shapes), "history": h})
		if err := os.WriteFile(filepath.Join(dir, r.file+".json"), b, 0o644); err != nil {
			panic(err)
		}
	}
}

var typedNilRows int

func main() {
	c18lib.Lenient = true
	clo = c18lib.NewClosure()
	var err error
	// the repository root is only needed for the AST-derived parts of the factory table
	fac, err = c18lib.NewFactory(clo, c18lib.RepoRoot())
	if err != nil {
		fmt.Println("c18:", err)
		panic(err)
	}
	initRoots()
	if len(os.Args) == 3 && os.Args[1] == "emit-corpus" {
		emitCorpus(os.Args[2])
		return
	}
	hx.Main(hx.Config{
		Property: "C18",
		Model:    "c18",
		Clauses: map[int64]string{1: "builds-and-decodes", 2: "function-recognised", 3: "payload-type", 4: "payload-equal",
			5: "partial-selector", 6: "partial-elements", 7: "delete-selector", 8: "delete-elements", 9: "filter-presence",
			10: "value-roundtrip", 11: "shared-elements-type", 12: "setpoint-description-elements-tag",
			98: "observation-outside-model-vocabulary", 99: "operation-not-parsed"},
		OpNames: map[int64]string{0: "Row", 1: "Codec", 2: "Decode"},
		NewImpl: func() hx.Impl { historyFds = map[int64][]api.FunctionDataCmdInterface{}; return impl{} },
		Gen:     gen,
		Fixed:   fixed,
		Count:   map[string]int{"quick": 1500, "thorough": 60000},
		Extra: func() map[string]any {
			types := 0
			for range codecTypes {
				types++
			}
			var rows []string
			for r := range failingRows {
				rows = append(rows, r)
			}
			return map[string]any{
				"structs": len(clo.Structs), "fields": clo.NumFields(), "functions": len(fac.Functions),
				"registered_pairs": len(fac.Registered), "feature_types": len(fac.FeatureTypes),
				"rows_per_feature_type": rowsRun, "rows_per_shape": shapesRun, "rows_not_applicable": notApplicable,
				"codec_distinct_types": types, "decode_outcomes": decodeOutcome, "panics": panicsSeen,
				"rows_that_panicked": rows,
			}
		},
	})
}
