// C05 runner, part 5: stand-alone search (no model): `c05 -scan N [-seed S]` runs N histories on
// the real code and lists every distinct panic site, wedge and unanswered probe with one example.
package main

import (
	"fmt"
	"os"
	"sort"
	"strconv"

	"verifharness/hx"
)

type finding struct {
	count   int
	example string
	detail  string
}

func runScan(n int, seed uint64) {
	rng := hx.NewRng(seed)
	found := map[string]*finding{}
	note := func(key, example, detail string) {
		f, ok := found[key]
		if !ok {
			f = &finding{example: example, detail: detail}
			found[key] = f
		}
		f.count++
	}
	for i := 0; i < n; i++ {
		h := genHistory(rng.Fork(), "quick")
		w := newWorld()
		last := ""
		for _, op := range h {
			switch op[0] {
			case opConnect:
				w.connect(int(op[1]))
			case opDisconnect:
				w.disconnect(int(op[1]))
			case opInbound:
				p, payload, _ := splitInbound(op)
				last = string(payload)
				res := w.deliver(p, payload)
				if res.wedged {
					note("WEDGE", last, "")
				} else if res.panicSite != "" {
					note("PANIC "+res.panicSite+" "+lastPanicLine, last, res.panicMsg)
				}
			case opProbe:
				p := int(op[1])
				res := w.deliver(p, discoveryRead(p, uint64(op[2])))
				ok := false
				for _, o := range res.out {
					a := abstractOut(o)
					if a.peer == p && a.cls == "reply" && a.fn == "NodeManagementDetailedDiscoveryData" && a.ref == op[2] {
						ok = true
					}
				}
				if res.panicSite != "" {
					note("PROBE-PANIC "+res.panicSite+" "+lastPanicLine, last, res.panicMsg)
				} else if !ok {
					note("PROBE-UNANSWERED", last, fmt.Sprint(res.err))
				}
			}
			if w.dead != "" {
				break
			}
		}
		w.close()
	}
	keys := make([]string, 0, len(found))
	for k := range found {
		keys = append(keys, k)
	}
	sort.Strings(keys)
	for _, k := range keys {
		f := found[k]
		fmt.Printf("%-70s x%-5d %s\n    %s\n", k, f.count, f.detail, f.example)
	}
	fmt.Printf("%d histories, %d distinct findings\n", n, len(found))
}

func dirArg(flag string) (string, bool) {
	for i, a := range os.Args {
		if a == flag && i+1 < len(os.Args) {
			return os.Args[i+1], true
		}
	}
	return "", false
}

func scanArgs() (int, uint64, bool) {
	n, seed, on := 0, uint64(1), false
	for i, a := range os.Args {
		if a == "-scan" && i+1 < len(os.Args) {
			n, _ = strconv.Atoi(os.Args[i+1])
			on = true
		}
		if a == "-seed" && i+1 < len(os.Args) {
			seed, _ = strconv.ParseUint(os.Args[i+1], 10, 64)
		}
	}
	return n, seed, on
}
