// C05 runner: no inbound byte sequence can crash or wedge the stack.
// Search (always): mutants of valid messages of every kind + byte noise + truncation, delivered to
// 2-3 connections in random order and connection state, every input followed by a valid
// detailed-discovery read on every connection. Correspondence: the real stack vs the extracted
// model coq/Model/Robust.v (repaired reading) on the outcome class of every input: no panic, and
// exactly which reply / result / notify datagrams are written to which connection.
// The extracted monitor coq/Spec/RobustSpec.v judges the implementation's observations.
package main

import (
	"fmt"
	"sort"

	"verifharness/hx"
)

// panic sites (coq/Model/Robust.v S_*): innermost spine-go function
var siteIds = map[string]int64{
	"spine.(*DeviceLocal).FeatureByAddress":                     1,
	"spine.(*DeviceLocal).ProcessCmd":                           2,
	"model.(*CmdType).ExtractFilter":                            3,
	"model.(*DatagramType).PrintMessageOverview":                4,
	"spine.(*NodeManagement).handleMsgSubscriptionRequestCall":  5,
	"spine.(*NodeManagement).handleMsgSubscriptionDeleteCall":   6,
	"spine.(*NodeManagement).handleMsgBindingRequestCall":       7,
	"spine.(*NodeManagement).handleMsgBindingDeleteCall":        8,
	"spine.(*SubscriptionManager).AddSubscription":              9,
	"spine.(*SubscriptionManager).RemoveSubscription":           10,
	"spine.(*BindingManager).AddBinding":                        11,
	"spine.(*BindingManager).RemoveBinding":                     12,
	"spine.(*DeviceRemote).FeatureByAddress":                    13,
	"spine.(*NodeManagement).processReplyDetailedDiscoveryData": 14,
	"spine.(*DeviceRemote).AddEntityAndFeatures":                15,
	"spine.NewEntity":                      16,
	"spine.unmarshalFeature":               17,
	"spine.(*FeatureRemote).SetOperations": 18,
	"spine.CreateFunctionData":             19,
	"model.UpdateList":                     20,
	"model.(*FilterData).SelectorMatch":    21,
}

var panicsSeen = map[string]int{}
var outKinds = map[string]int{}
var wedges int

type impl struct{ w *world }

func newImpl() hx.Impl { return &impl{w: newWorld()} }

func (i *impl) Close() { i.w.close() }

func (i *impl) observe(res deliverResult) []hx.Zs {
	var obs []hx.Zs
	if res.wedged {
		wedges++
		return []hx.Zs{{91}}
	}
	for _, o := range res.out {
		a := abstractOut(o)
		fn, ok := fnIds[a.fn]
		if !ok {
			fn = 999
		}
		refz := hx.Zs{0}
		if a.ref >= 0 {
			refz = hx.Zs{1, a.ref}
		}
		outKinds[a.cls]++
		switch a.cls {
		case "reply":
			obs = append(obs, append(hx.Zs{1, int64(a.peer), fn}, refz...))
		case "result":
			obs = append(obs, append(hx.Zs{2, int64(a.peer), a.errn}, refz...))
		case "notify":
			obs = append(obs, hx.Zs{3, int64(a.peer), fn})
		}
	}
	if res.panicSite != "" {
		panicsSeen[res.panicSite+" "+lastPanicLine]++
		id, ok := siteIds[res.panicSite]
		if !ok {
			id = 99
		}
		// the model reports the panic alone: what was written before it is not part of the outcome class
		return []hx.Zs{{90, id}}
	}
	return obs
}

func eqZ(a, b hx.Zs) bool {
	if len(a) != len(b) {
		return false
	}
	for i := range a {
		if a[i] != b[i] {
			return false
		}
	}
	return true
}

func (i *impl) Exec(op hx.Zs) []hx.Zs {
	if len(op) < 2 {
		return nil
	}
	switch op[0] {
	case opConnect:
		i.w.connect(int(op[1]))
		i.w.takeOut()
	case opDisconnect:
		i.w.disconnect(int(op[1]))
		i.w.takeOut()
	case opInbound:
		p, payload, abs := splitInbound(op)
		if !eqZ(abstractPayload(payload), abs) {
			return []hx.Zs{{92}}
		}
		return i.observe(i.w.deliver(p, payload))
	case opOpaque:
		p, payload := splitOpaque(op)
		var crash []hx.Zs
		for _, o := range i.observe(i.w.deliver(p, payload)) {
			if len(o) > 0 && o[0] >= 90 { // outputs of an opaque payload are not compared
				crash = append(crash, o)
			}
		}
		return crash
	case opProbe:
		if len(op) < 3 {
			return nil
		}
		p := int(op[1])
		return i.observe(i.w.deliver(p, discoveryRead(p, uint64(op[2]))))
	}
	return nil
}

// every 25th generated history is a slice of the function sweep's payload mutants
func gen(r *hx.Rng, tier string, i int) []hx.Zs {
	if i%25 == 7 {
		if h := rotatingSweep(r); h != nil {
			return h
		}
	}
	return genHistory(r, tier)
}

func extra() map[string]any {
	kinds := map[string]int{}
	for k, v := range stats.kinds {
		kinds[k] = v
	}
	var sites []string
	for s, n := range panicsSeen {
		sites = append(sites, fmt.Sprintf("%s x%d", s, n))
	}
	sort.Strings(sites)
	return map[string]any{
		"message_kind_x_mutation":          kinds,
		"mutation_classes":                 stats.mutations,
		"mutants_dropped_unrepresentable":  droppedUnrepresentable,
		"panic_sites_observed":             sites,
		"outbound_datagrams_by_classifier": outKinds,
		"wedges_observed":                  wedges,
		"watchdog_seconds":                 watchdog.Seconds(),
		"function_sweep":                   sweepStats,
	}
}

func main() {
	if n, seed, on := scanArgs(); on {
		runScan(n, seed)
		return
	}
	if d, on := dirArg("-mkcorpus"); on {
		mkCorpus(d)
		return
	}
	if in, on := dirArg("-reabs"); on {
		out, _ := dirArg("-to")
		note, _ := dirArg("-note")
		reabstract(in, out, note)
		return
	}
	if d, on := dirArg("-witnesses"); on {
		runWitnesses(d)
		return
	}
	hx.Main(hx.Config{
		Property: "C05",
		Model:    "c05",
		Clauses:  map[int64]string{1: "panic", 2: "wedge", 3: "discovery-read-unanswered", 4: "shape", 98: "bad-observation", 99: "bad-operation"},
		OpNames:  map[int64]string{1: "connect", 2: "disconnect", 3: "inbound", 4: "probe", 5: "opaque-data-payload"},
		Fixed:    fixedSweep,
		NewImpl:  newImpl,
		Gen:      gen,
		Count:    map[string]int{"quick": 1400, "thorough": 30000},
		Extra:    extra,
	})
}
