// C05 runner, part 3: mutation of valid messages at the JSON-tree level (remove / null /
// empty / replace by an unknown or inconsistent value, any subset of nodes), raw byte
// noise and truncation.
package main

import (
	"bytes"
	"encoding/json"
	"sort"

	"verifharness/hx"
)

type node struct {
	parent any // map[string]any or *[]any holder
	key    string
	idx    int
	depth  int
}

type arr struct{ v []any }

// box converts []any into *arr so that elements can be removed in place
func box(v any) any {
	switch x := v.(type) {
	case map[string]any:
		for k, e := range x {
			x[k] = box(e)
		}
		return x
	case []any:
		a := &arr{}
		for _, e := range x {
			a.v = append(a.v, box(e))
		}
		return a
	}
	return v
}

func unbox(v any) any {
	switch x := v.(type) {
	case map[string]any:
		m := map[string]any{}
		for k, e := range x {
			m[k] = unbox(e)
		}
		return m
	case *arr:
		out := make([]any, 0, len(x.v))
		for _, e := range x.v {
			out = append(out, unbox(e))
		}
		return out
	}
	return v
}

func collect(v any, depth int, out *[]node) {
	switch x := v.(type) {
	case map[string]any:
		keys := make([]string, 0, len(x))
		for k := range x {
			keys = append(keys, k)
		}
		sort.Strings(keys)
		for _, k := range keys {
			*out = append(*out, node{parent: x, key: k, depth: depth})
			collect(x[k], depth+1, out)
		}
	case *arr:
		for i, e := range x.v {
			*out = append(*out, node{parent: x, idx: i, depth: depth})
			collect(e, depth+1, out)
		}
	}
}

func (n node) get() (any, bool) {
	switch p := n.parent.(type) {
	case map[string]any:
		v, ok := p[n.key]
		return v, ok
	case *arr:
		if n.idx < len(p.v) {
			return p.v[n.idx], true
		}
	}
	return nil, false
}

func (n node) set(v any) {
	switch p := n.parent.(type) {
	case map[string]any:
		p[n.key] = v
	case *arr:
		if n.idx < len(p.v) {
			p.v[n.idx] = v
		}
	}
}

func (n node) remove() {
	switch p := n.parent.(type) {
	case map[string]any:
		delete(p, n.key)
	case *arr:
		if n.idx < len(p.v) {
			p.v = append(append([]any{}, p.v[:n.idx]...), p.v[n.idx+1:]...)
		}
	}
}

// values a string leaf may be replaced by: other members of the enumerations the
// handlers switch on, and values no enumeration knows
var stringPool = []string{"read", "reply", "notify", "write", "call", "result", "bogus",
	"added", "removed", "modified", "client", "server", "special",
	"LoadControl", "Measurement", "NodeManagement", "Generic", "NoSuchFeatureType", "DeviceClassification",
	"loadControlLimitConstraintsListData", "measurementListData", "nodeManagementDetailedDiscoveryData", "noSuchFunction",
	"d0", "d1", "d2", "d3", "d9", "", "EV", "CEM"}

// payload / filter keys a key may be renamed to (inconsistent payload kinds)
var keyPool = []string{"resultData", "nodeManagementDetailedDiscoveryData", "nodeManagementSubscriptionRequestCall",
	"nodeManagementSubscriptionDeleteCall", "nodeManagementBindingRequestCall", "nodeManagementBindingDeleteCall",
	"nodeManagementSubscriptionData", "nodeManagementBindingData", "nodeManagementUseCaseData", "nodeManagementDestinationListData",
	"loadControlLimitConstraintsListData", "loadControlNodeData", "measurementListData", "deviceClassificationManufacturerData",
	"partial", "delete", "loadControlLimitConstraintsListDataSelectors", "loadControlLimitConstraintsDataElements",
	"measurementListDataSelectors", "measurementDataElements", "addressSource", "addressDestination",
	"subscriptionRequest", "subscriptionDelete", "bindingRequest", "bindingDelete", "clientAddress", "serverAddress"}

func mutateTree(r *hx.Rng, msg []byte) []byte {
	var tree any
	if err := json.Unmarshal(msg, &tree); err != nil {
		return msg
	}
	tree = box(tree)
	n := 1
	switch r.Pick(5, 3, 2, 1) {
	case 1:
		n = 2
	case 2:
		n = r.Range(3, 4)
	case 3:
		n = r.Range(5, 9)
	}
	// filters carrying the selectors / elements of ANOTHER function than the cmd's (and one the feature does
	// not have): replace the filter's own field, or put the foreign one next to it, or give a filter-less cmd one
	if r.Chance(1, 6) {
		addForeignFilter(r, tree)
	}
	for i := 0; i < n; i++ {
		var nodes []node
		collect(tree, 0, &nodes)
		// skip the two wrapper levels most of the time: they only produce undecodable input
		var cand []node
		for _, nd := range nodes {
			if nd.depth >= 2 || r.Chance(1, 20) {
				cand = append(cand, nd)
			}
		}
		if len(cand) == 0 {
			break
		}
		nd := cand[r.Intn(len(cand))]
		cur, ok := nd.get()
		if !ok {
			continue
		}
		switch r.Pick(4, 3, 3, 4, 1) {
		case 0:
			nd.remove()
		case 1:
			nd.set(nil)
		case 2: // empty
			switch cur.(type) {
			case map[string]any:
				nd.set(map[string]any{})
			case *arr:
				nd.set(&arr{})
			case string:
				nd.set("")
			case float64:
				nd.set(float64(0))
			default:
				nd.set(map[string]any{})
			}
		case 3: // replace by an unknown or inconsistent value
			switch x := cur.(type) {
			case string:
				nd.set(stringPool[r.Intn(len(stringPool))])
			case float64:
				nd.set([]float64{0, 1, 2, 3, 7, 99, x + 1}[r.Intn(7)])
			case bool:
				nd.set(!x)
			case *arr:
				if len(x.v) > 0 && r.Bool() { // duplicate an element
					x.v = append(x.v, x.v[r.Intn(len(x.v))])
				} else {
					nd.set(&arr{v: []any{float64(r.Range(0, 3))}})
				}
			case map[string]any:
				if m, isMap := nd.parent.(map[string]any); isMap && r.Chance(2, 3) { // rename the key: another payload kind
					nk := keyPool[r.Intn(len(keyPool))]
					delete(m, nd.key)
					m[nk] = cur
				} else {
					nd.set(float64(r.Range(0, 2))) // wrong JSON type: the decoder rejects the message
				}
			default:
				nd.set("x")
			}
		case 4: // add a second payload kind next to this node (inconsistent cmd)
			if m, isMap := nd.parent.(map[string]any); isMap {
				m[keyPool[r.Intn(len(keyPool))]] = map[string]any{}
			}
		}
	}
	out, err := json.Marshal(unbox(tree))
	if err != nil {
		return msg
	}
	return out
}

// byteNoise flips, inserts and deletes bytes; truncate cuts the text.
func byteNoise(r *hx.Rng, msg []byte) []byte {
	b := append([]byte(nil), msg...)
	n := r.Range(1, 4)
	for i := 0; i < n && len(b) > 0; i++ {
		p := r.Intn(len(b))
		switch r.Pick(3, 2, 2, 1) {
		case 0:
			b[p] = byte(r.Intn(256))
		case 1:
			b = append(b[:p], b[p+1:]...)
		case 2:
			b = append(b[:p], append([]byte{"{}[]\":,0n"[r.Intn(9)]}, b[p:]...)...)
		case 3:
			b[p] ^= 1 << uint(r.Intn(8))
		}
	}
	return b
}

func truncate(r *hx.Rng, msg []byte) []byte {
	if len(msg) < 2 {
		return msg
	}
	return msg[:r.Range(0, len(msg)-1)]
}

func randomBytes(r *hx.Rng) []byte {
	n := r.Range(0, 40)
	var b bytes.Buffer
	for i := 0; i < n; i++ {
		b.WriteByte(byte(r.Intn(256)))
	}
	return b.Bytes()
}

var foreignSelector = func() map[string]any { return map[string]any{"measurementId": float64(1)} }
var foreignElements = func() map[string]any { return map[string]any{"value": map[string]any{}} }

func addForeignFilter(r *hx.Rng, tree any) {
	root, _ := tree.(map[string]any)
	dg, _ := root["datagram"].(map[string]any)
	pl, _ := dg["payload"].(map[string]any)
	cmds, _ := pl["cmd"].(*arr)
	if cmds == nil || len(cmds.v) == 0 {
		return
	}
	c, _ := cmds.v[0].(map[string]any)
	if c == nil {
		return
	}
	fl, _ := c["filter"].(*arr)
	if fl == nil || len(fl.v) == 0 {
		ctrl := "partial"
		if r.Chance(1, 3) {
			ctrl = "delete"
		}
		fl = &arr{v: []any{map[string]any{"cmdControl": map[string]any{ctrl: map[string]any{}}}}}
		c["filter"] = fl
	}
	f, _ := fl.v[r.Intn(len(fl.v))].(map[string]any)
	if f == nil {
		return
	}
	switch r.Pick(4, 2, 2, 1) {
	case 0: // the foreign selector instead of the own one
		delete(f, "loadControlLimitConstraintsListDataSelectors")
		f["measurementListDataSelectors"] = foreignSelector()
	case 1: // next to the own one
		f["measurementListDataSelectors"] = foreignSelector()
	case 2: // foreign elements
		delete(f, "loadControlLimitConstraintsDataElements")
		f["measurementDataElements"] = foreignElements()
	case 3:
		f["measurementListDataSelectors"] = foreignSelector()
		f["measurementDataElements"] = foreignElements()
	}
	// now and then empty the data list as well: the update then fails and the stack re-reads the data
	if r.Chance(1, 3) {
		for _, k := range []string{"loadControlLimitConstraintsListData", "measurementListData"} {
			if _, ok := c[k]; ok {
				c[k] = map[string]any{}
			}
		}
	}
}
