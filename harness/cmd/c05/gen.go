// C05 runner, part 4: histories. An operation is
//
//	[1 p]                      connect peer p (SetupRemoteDevice)
//	[2 p]                      disconnect peer p (RemoveRemoteDeviceConnection)
//	[3 p n b1..bn a...]        deliver a payload to p: n integers packing the bytes (6 per integer,
//	                           first integer = length), then the abstraction a... of the decoded datagram
//	                           (the model reads only a..., the implementation only the bytes)
//	[4 p c]                    probe: a valid detailed-discovery read from p with message counter c
package main

import (
	"verifharness/hx"
)

const (
	opConnect    = 1
	opDisconnect = 2
	opInbound    = 3
	opProbe      = 4
)

func packBytes(b []byte) hx.Zs {
	z := hx.Zs{int64(len(b))}
	for i := 0; i < len(b); i += 6 {
		var v int64
		for j := 0; j < 6; j++ {
			v <<= 8
			if i+j < len(b) {
				v |= int64(b[i+j])
			}
		}
		z = append(z, v)
	}
	return z
}

func unpackBytes(z hx.Zs) []byte {
	if len(z) == 0 {
		return nil
	}
	n := int(z[0])
	var b []byte
	for _, v := range z[1:] {
		for j := 5; j >= 0; j-- {
			b = append(b, byte(v>>(8*uint(j))))
		}
	}
	if n > len(b) {
		n = len(b)
	}
	if n < 0 {
		n = 0
	}
	return b[:n]
}

func inboundOp(p int, payload []byte) hx.Zs {
	pk := packBytes(payload)
	z := hx.Zs{opInbound, int64(p), int64(len(pk))}
	z = append(z, pk...)
	return append(z, abstractPayload(payload)...)
}

// splitInbound returns the payload bytes and the abstraction part of an inbound operation
func splitInbound(op hx.Zs) (int, []byte, hx.Zs) {
	if len(op) < 3 {
		return 0, nil, nil
	}
	n := int(op[2])
	if n < 0 || 3+n > len(op) {
		return int(op[1]), nil, nil
	}
	return int(op[1]), unpackBytes(op[3 : 3+n]), op[3+n:]
}

type genStats struct {
	kinds     map[string]int
	mutations map[string]int
}

var stats = genStats{kinds: map[string]int{}, mutations: map[string]int{}}

// history: 2-3 peers, each connected and (mostly) discovered in random order, then a stream of
// mutants and valid messages to random peers; after every input a probe on every connection.
func genHistory(r *hx.Rng, tier string) []hx.Zs {
	var h []hx.Zs
	npeers := r.Range(2, maxPeers)
	connected := map[int]bool{}
	ctr := map[int]uint64{}
	next := func(p int) uint64 { ctr[p]++; return uint64(1000*p) + ctr[p] }
	probes := func() {
		for p := 1; p <= maxPeers; p++ {
			if connected[p] {
				h = append(h, hx.Zs{opProbe, int64(p), int64(next(p))})
			}
		}
	}
	order := []int{1, 2, 3}[:npeers]
	for i := len(order) - 1; i > 0; i-- {
		j := r.Intn(i + 1)
		order[i], order[j] = order[j], order[i]
	}
	discovered := map[int]bool{}
	for _, p := range order {
		h = append(h, hx.Zs{opConnect, int64(p)})
		connected[p] = true
		if r.Chance(2, 3) {
			h = append(h, inboundOp(p, validMessage(r, kDiscReply, p, next(p))))
			discovered[p] = true
			stats.kinds["valid:"+kindNames[kDiscReply]]++
		}
	}
	// in a third of the histories the discovered peers subscribe and bind first, so that writes pass
	// the gate and notifications fan out while the mutants arrive
	if r.Chance(1, 3) {
		for _, p := range order {
			if discovered[p] {
				h = append(h, inboundOp(p, validMessage(r, kSubCall, p, next(p))))
				if r.Bool() {
					h = append(h, inboundOp(p, validMessage(r, kBindCall, p, next(p))))
				}
			}
		}
	}
	probes()
	n := r.Range(6, 16)
	if tier == "thorough" {
		n = r.Range(10, 40)
	}
	for i := 0; i < n; i++ {
		var live []int
		for p := 1; p <= maxPeers; p++ {
			if connected[p] {
				live = append(live, p)
			}
		}
		if len(live) == 0 || r.Chance(1, 40) {
			p := r.Range(1, npeers)
			if !connected[p] {
				h = append(h, hx.Zs{opConnect, int64(p)})
				connected[p] = true
				probes()
			}
			continue
		}
		p := live[r.Intn(len(live))]
		if r.Chance(1, 50) {
			h = append(h, hx.Zs{opDisconnect, int64(p)})
			connected[p] = false
			probes()
			continue
		}
		kind := r.Intn(numKinds)
		// a peer other than the sender may be named in the addresses now and then
		as := p
		if r.Chance(1, 15) {
			as = r.Range(1, maxPeers)
		}
		msg := validMessage(r, kind, as, next(p))
		label := "valid:"
		switch r.Pick(22, 60, 8, 6, 4) {
		case 0:
		case 1:
			msg = mutateTree(r, msg)
			label = "tree-mutant:"
		case 2:
			msg = byteNoise(r, msg)
			label = "byte-noise:"
		case 3:
			msg = truncate(r, msg)
			label = "truncated:"
		case 4:
			msg = randomBytes(r)
			label = "random-bytes:"
		}
		if abstractPayload(msg) == nil {
			droppedUnrepresentable++
			continue
		}
		stats.kinds[label+kindNames[kind]]++
		stats.mutations[label]++
		h = append(h, inboundOp(p, msg))
		probes()
	}
	return h
}
