// C05 runner, part 6: abstraction of a payload to the datagram type of coq/Model/Robust.v
// (format: coq/Model/RobustWire.v).  The payload is decoded with encoding/json into
// model.Datagram exactly as HandleSpineMesssage does (the bytes -> tree layer is trusted);
// the abstraction keeps, for every pointer and slice the handlers read, whether it is
// present, and the identifiers.  abstractPayload returns nil when the decoded datagram
// carries something the model's type cannot express (a payload or filter field of a
// function outside the modelled set): the generator then drops that mutant.
package main

import (
	"encoding/json"
	"hash/fnv"
	"reflect"
	"strconv"
	"strings"

	"github.com/enbility/spine-go/api"
	"github.com/enbility/spine-go/model"
	"github.com/enbility/spine-go/spine"

	"verifharness/hx"
)

var fnIds = map[string]int64{
	"LoadControlLimitConstraintsListData": 1, "LoadControlNodeData": 2, "MeasurementListData": 3,
	"DeviceClassificationManufacturerData": 4,
	"NodeManagementDetailedDiscoveryData":  10, "NodeManagementUseCaseData": 11, "NodeManagementDestinationListData": 12,
	"NodeManagementSubscriptionData": 13, "NodeManagementSubscriptionRequestCall": 14, "NodeManagementSubscriptionDeleteCall": 15,
	"NodeManagementBindingData": 16, "NodeManagementBindingRequestCall": 17, "NodeManagementBindingDeleteCall": 18,
	"ResultData": 19,
}

var factoryCache = map[model.FeatureTypeType]bool{}

// hasFactory: CreateFunctionData knows the feature type (the unrepaired code panics otherwise)
func hasFactory(t model.FeatureTypeType) (ok bool) {
	if v, found := factoryCache[t]; found {
		return v
	}
	defer func() {
		if r := recover(); r != nil {
			ok = false
		}
		factoryCache[t] = ok
	}()
	return len(spine.CreateFunctionData[api.FunctionDataInterface](t)) > 0
}

func featureTypeId(t model.FeatureTypeType) int64 {
	switch t {
	case model.FeatureTypeTypeLoadControl:
		return 1
	case model.FeatureTypeTypeMeasurement:
		return 2
	case model.FeatureTypeTypeGeneric:
		return 4
	case model.FeatureTypeTypeNodeManagement:
		return 5
	case model.FeatureTypeTypeDeviceClassification:
		return 6
	}
	if hasFactory(t) {
		return 7
	}
	return 0
}

func devId(d model.AddressDeviceType) int64 {
	s := string(d)
	if s == "" {
		return 50
	}
	if strings.HasPrefix(s, "d") {
		if k, err := strconv.Atoi(s[1:]); err == nil && k >= 0 && k < 50 && strconv.Itoa(k) == s[1:] {
			return int64(k)
		}
	}
	h := fnv.New32a()
	h.Write([]byte(s))
	return 1000 + int64(h.Sum32()%1000000)
}

type enc struct{ z hx.Zs }

func (e *enc) n(v int64) { e.z = append(e.z, v) }
func (e *enc) b(v bool) {
	if v {
		e.n(1)
	} else {
		e.n(0)
	}
}
func (e *enc) optN(present bool, v int64) {
	if present {
		e.n(1)
		e.n(v)
	} else {
		e.n(0)
	}
}
func (e *enc) dev(d *model.AddressDeviceType) {
	if d == nil {
		e.n(0)
	} else {
		e.optN(true, devId(*d))
	}
}
func (e *enc) ent(l []model.AddressEntityType) {
	if l == nil {
		e.n(0)
		return
	}
	e.n(1)
	e.n(int64(len(l)))
	for _, x := range l {
		e.n(int64(x))
	}
}
func (e *enc) faddr(a *model.FeatureAddressType) {
	if a == nil {
		e.n(0)
		return
	}
	e.n(1)
	e.dev(a.Device)
	e.ent(a.Entity)
	if a.Feature == nil {
		e.n(0)
	} else {
		e.optN(true, int64(*a.Feature))
	}
}

func clsId(c *model.CmdClassifierType) int64 {
	if c == nil {
		return 0
	}
	switch *c {
	case model.CmdClassifierTypeRead:
		return 1
	case model.CmdClassifierTypeReply:
		return 2
	case model.CmdClassifierTypeNotify:
		return 3
	case model.CmdClassifierTypeWrite:
		return 4
	case model.CmdClassifierTypeCall:
		return 5
	case model.CmdClassifierTypeResult:
		return 6
	}
	return 7
}

// firstPayload: cmd.Data() by our own walk over the struct: the first non-nil tagged field
func firstPayload(c *model.CmdType) (string, bool) {
	v := reflect.ValueOf(*c)
	for i := 0; i < v.NumField(); i++ {
		f := v.Field(i)
		if f.Kind() != reflect.Ptr || f.IsNil() {
			continue
		}
		sf := v.Type().Field(i)
		if sf.Name == "Function" || sf.Name == "Filter" {
			continue
		}
		if !strings.Contains(sf.Tag.Get("eebus"), "fct:") {
			continue
		}
		return sf.Name, true
	}
	return "", false
}

// foreignFilter: a selectors / elements field other than those of the modelled list function
func foreignFilter(f *model.FilterType) bool {
	v := reflect.ValueOf(*f)
	for i := 0; i < v.NumField(); i++ {
		fl := v.Field(i)
		if fl.Kind() != reflect.Ptr || fl.IsNil() {
			continue
		}
		switch v.Type().Field(i).Name {
		case "FilterId", "CmdControl", "LoadControlLimitConstraintsListDataSelectors", "LoadControlLimitConstraintsDataElements",
			"MeasurementListDataSelectors", "MeasurementDataElements": // the two foreign fields the model knows (f_fsel, f_felems)
		default:
			return true
		}
	}
	return false
}

func (e *enc) regreq(cli, srv *model.FeatureAddressType, t *model.FeatureTypeType) {
	e.faddr(cli)
	e.faddr(srv)
	if t == nil {
		e.n(0)
	} else {
		e.optN(true, featureTypeId(*t))
	}
}

func (e *enc) disc(d *model.NodeManagementDetailedDiscoveryDataType) {
	switch {
	case d.DeviceInformation == nil:
		e.n(0)
	case d.DeviceInformation.Description == nil:
		e.n(1)
	default:
		e.n(2)
		da := d.DeviceInformation.Description.DeviceAddress
		if da == nil || da.Device == nil {
			e.n(0)
		} else {
			e.optN(true, devId(*da.Device))
		}
	}
	e.n(int64(len(d.EntityInformation)))
	for _, ei := range d.EntityInformation {
		ed := ei.Description
		if ed == nil {
			e.n(0)
			continue
		}
		e.n(1)
		if ed.EntityAddress == nil {
			e.n(0)
		} else {
			e.n(1)
			e.dev(ed.EntityAddress.Device)
			e.ent(ed.EntityAddress.Entity)
		}
		e.optN(ed.EntityType != nil, 1)
		switch {
		case ed.LastStateChange == nil:
			e.n(0)
		case *ed.LastStateChange == model.NetworkManagementStateChangeTypeAdded:
			e.n(1)
		case *ed.LastStateChange == model.NetworkManagementStateChangeTypeRemoved:
			e.n(2)
		default:
			e.n(3)
		}
	}
	e.n(int64(len(d.FeatureInformation)))
	for _, fi := range d.FeatureInformation {
		fd := fi.Description
		if fd == nil {
			e.n(0)
			continue
		}
		e.n(1)
		e.faddr(fd.FeatureAddress)
		if fd.FeatureType == nil {
			e.n(0)
		} else {
			e.optN(true, featureTypeId(*fd.FeatureType))
		}
		switch {
		case fd.Role == nil:
			e.n(0)
		case *fd.Role == model.RoleTypeClient:
			e.n(1)
		case *fd.Role == model.RoleTypeServer:
			e.n(2)
		case *fd.Role == model.RoleTypeSpecial:
			e.n(3)
		default:
			e.n(4)
		}
		e.n(int64(len(fd.SupportedFunction)))
		for _, sf := range fd.SupportedFunction {
			e.b(sf.Function != nil)
			e.b(sf.PossibleOperations != nil)
		}
	}
}

var droppedUnrepresentable int

func abstractPayload(payload []byte) (z hx.Zs) {
	defer func() {
		if r := recover(); r != nil { // the decoder itself panics: the payload goes out as an opaque operation
			z = nil
		}
	}()
	var dg model.Datagram
	if err := json.Unmarshal(payload, &dg); err != nil {
		return hx.Zs{0}
	}
	e := &enc{}
	e.n(1)
	h := dg.Datagram.Header
	e.faddr(h.AddressSource)
	e.faddr(h.AddressDestination)
	if (h.MsgCounter != nil && uint64(*h.MsgCounter) > 1<<60) || (h.MsgCounterReference != nil && uint64(*h.MsgCounterReference) > 1<<60) {
		return nil
	}
	e.optN(h.MsgCounter != nil, valOr(h.MsgCounter))
	e.optN(h.MsgCounterReference != nil, valOr(h.MsgCounterReference))
	if h.AckRequest == nil {
		e.n(0)
	} else {
		e.n(1)
		e.b(*h.AckRequest)
	}
	e.n(clsId(h.CmdClassifier))
	if len(dg.Datagram.Payload.Cmd) == 0 {
		e.n(0)
		return e.z
	}
	e.n(1)
	c := dg.Datagram.Payload.Cmd[0]
	e.n(int64(len(c.Filter)))
	for i := range c.Filter {
		f := &c.Filter[i]
		if foreignFilter(f) {
			return nil
		}
		if f.CmdControl == nil {
			e.n(0)
		} else {
			e.n(1)
			e.b(f.CmdControl.Partial != nil)
			e.b(f.CmdControl.Delete != nil)
		}
		if s := f.LoadControlLimitConstraintsListDataSelectors; s == nil {
			e.n(0)
		} else {
			e.n(1)
			e.optN(s.LimitId != nil, ptrVal(s.LimitId))
		}
		if el := f.LoadControlLimitConstraintsDataElements; el == nil {
			e.n(0)
		} else {
			e.n(1)
			e.b(el.LimitId != nil)
		}
		e.b(f.MeasurementListDataSelectors != nil)
		e.b(f.MeasurementDataElements != nil)
	}
	name, ok := firstPayload(&c)
	if !ok {
		e.n(0)
	} else {
		id, known := fnIds[name]
		if !known {
			return nil
		}
		e.optN(true, id)
	}
	nitems := 0
	var ids []*model.LoadControlLimitIdType
	switch name {
	case "LoadControlLimitConstraintsListData":
		nitems = len(c.LoadControlLimitConstraintsListData.LoadControlLimitConstraintsData)
		for _, it := range c.LoadControlLimitConstraintsListData.LoadControlLimitConstraintsData {
			ids = append(ids, it.LimitId)
		}
	case "MeasurementListData":
		nitems = len(c.MeasurementListData.MeasurementData)
	case "NodeManagementDestinationListData":
		nitems = len(c.NodeManagementDestinationListData.NodeManagementDestinationData)
	}
	e.n(int64(nitems))
	e.n(int64(len(ids)))
	for _, id := range ids {
		e.optN(id != nil, ptrVal(id))
	}
	if c.ResultData == nil {
		e.n(0)
	} else {
		e.n(1)
		e.optN(c.ResultData.ErrorNumber != nil, ptrValE(c.ResultData.ErrorNumber))
	}
	if c.NodeManagementDetailedDiscoveryData == nil {
		e.n(0)
	} else {
		e.n(1)
		e.disc(c.NodeManagementDetailedDiscoveryData)
	}
	if r := c.NodeManagementSubscriptionRequestCall; r == nil {
		e.n(0)
	} else if r.SubscriptionRequest == nil {
		e.n(1)
		e.n(0)
	} else {
		e.n(1)
		e.n(1)
		e.regreq(r.SubscriptionRequest.ClientAddress, r.SubscriptionRequest.ServerAddress, r.SubscriptionRequest.ServerFeatureType)
	}
	if r := c.NodeManagementSubscriptionDeleteCall; r == nil {
		e.n(0)
	} else if r.SubscriptionDelete == nil {
		e.n(1)
		e.n(0)
	} else {
		e.n(1)
		e.n(1)
		e.faddr(r.SubscriptionDelete.ClientAddress)
		e.faddr(r.SubscriptionDelete.ServerAddress)
	}
	e.b(c.NodeManagementSubscriptionData != nil)
	if r := c.NodeManagementBindingRequestCall; r == nil {
		e.n(0)
	} else if r.BindingRequest == nil {
		e.n(1)
		e.n(0)
	} else {
		e.n(1)
		e.n(1)
		e.regreq(r.BindingRequest.ClientAddress, r.BindingRequest.ServerAddress, r.BindingRequest.ServerFeatureType)
	}
	if r := c.NodeManagementBindingDeleteCall; r == nil {
		e.n(0)
	} else if r.BindingDelete == nil {
		e.n(1)
		e.n(0)
	} else {
		e.n(1)
		e.n(1)
		e.faddr(r.BindingDelete.ClientAddress)
		e.faddr(r.BindingDelete.ServerAddress)
	}
	e.b(c.NodeManagementBindingData != nil)
	e.b(c.NodeManagementUseCaseData != nil)
	e.b(c.NodeManagementDestinationListData != nil)
	return e.z
}

func valOr(c *model.MsgCounterType) int64 {
	if c == nil {
		return 0
	}
	return int64(*c)
}

func ptrVal(p *model.LoadControlLimitIdType) int64 {
	if p == nil {
		return 0
	}
	return int64(*p)
}

func ptrValE(p *model.ErrorNumberType) int64 {
	if p == nil {
		return 0
	}
	return int64(*p)
}
