// C05 runner, part 7: the refutation witnesses as concrete payloads.
//
//	c05 -mkcorpus <dir>    writes one history per witness of coq/Properties/C05.v (regression inputs,
//	                       run first by every check on the repaired tree)
//	c05 -witnesses <dir>   runs them on the implementation alone and prints what happens at the last
//	                       input (used once on the tree WITHOUT the C05 patches: model and code must
//	                       agree on the panic site / the unanswered probe)
package main

import (
	"encoding/json"

	"fmt"
	"github.com/enbility/spine-go/model"
	"os"
	"path/filepath"
	"sort"
	"strings"

	"verifharness/hx"
)

func edit(msg []byte, f func(root map[string]any)) []byte {
	var tree map[string]any
	if err := json.Unmarshal(msg, &tree); err != nil {
		panic(err)
	}
	f(tree)
	out, _ := json.Marshal(tree)
	return out
}

func at(root map[string]any, path string) map[string]any {
	cur := any(root)
	for _, k := range strings.Split(path, ".") {
		switch x := cur.(type) {
		case map[string]any:
			cur = x[k]
		case []any:
			var i int
			fmt.Sscanf(k, "%d", &i)
			cur = x[i]
		}
	}
	m, _ := cur.(map[string]any)
	return m
}

const hdrPath = "datagram.header"
const cmdPath = "datagram.payload.cmd.0"

type witness struct {
	name   string
	expect string // on the tree without the C05 patches
	ops    []hx.Zs
}

func buildWitnesses() []witness {
	r := hx.NewRng(1)
	conn := hx.Zs{opConnect, 1}
	in := func(b []byte) hx.Zs { return inboundOp(1, b) }
	discReply := validMessage(r, kDiscReply, 1, 1)
	discovered := []hx.Zs{conn, in(discReply)}
	one := func(b []byte) []hx.Zs { return []hx.Zs{conn, in(b)} }
	subCall := validMessage(r, kSubCall, 1, 2)
	subDel := validMessage(r, kSubDelete, 1, 2)
	bindCall := validMessage(r, kBindCall, 1, 2)
	bindDel := validMessage(r, kBindDelete, 1, 2)
	read := discoveryRead(1, 5)
	emptyCall := func(key string) []byte {
		return edit(subCall, func(t map[string]any) {
			c := at(t, cmdPath)
			delete(c, "nodeManagementSubscriptionRequestCall")
			c[key] = map[string]any{}
		})
	}
	discEdit := func(f func(d map[string]any)) []byte {
		return edit(discReply, func(t map[string]any) { f(at(t, cmdPath+".nodeManagementDetailedDiscoveryData")) })
	}
	lcClient := func() map[string]any {
		return map[string]any{"description": map[string]any{"featureAddress": map[string]any{"device": "d1", "entity": []any{1}, "feature": 1},
			"featureType": "LoadControl", "role": "client"}}
	}
	partialNotify := func(state string) []byte {
		m := validMessage(r, kDiscNotifyAdd, 1, 3)
		return edit(m, func(t map[string]any) {
			d := at(t, cmdPath+".nodeManagementDetailedDiscoveryData")
			delete(d, "featureInformation")
			d["entityInformation"] = []any{map[string]any{"description": map[string]any{
				"entityAddress": map[string]any{"device": "d1", "entity": []any{0}}, "entityType": "DeviceInformation", "lastStateChange": state}}}
		})
	}
	onlyEntity1 := func(kind int) []byte {
		return edit(validMessage(r, kind, 1, 4), func(t map[string]any) {
			d := at(t, cmdPath+".nodeManagementDetailedDiscoveryData")
			ei := d["entityInformation"].([]any)
			d["entityInformation"] = ei[1:]
			fi := d["featureInformation"].([]any)
			d["featureInformation"] = fi[2:]
		})
	}
	writeKeyless := edit(validMessage(r, kWriteLimits, 1, 6), func(t map[string]any) {
		at(t, cmdPath+".loadControlLimitConstraintsListData")["loadControlLimitConstraintsData"] = []any{map[string]any{"valueRangeMax": map[string]any{"number": 5}}}
	})
	writeSelector := edit(validMessage(r, kWriteLimitsPartial, 1, 7), func(t map[string]any) {
		at(t, cmdPath+".filter.0.loadControlLimitConstraintsListDataSelectors")["limitId"] = 1
		at(t, cmdPath+".loadControlLimitConstraintsListData")["loadControlLimitConstraintsData"] = []any{map[string]any{"limitId": 1, "valueRangeMax": map[string]any{"number": 6}}}
	})
	notifyNoItems := edit(validMessage(r, kNotifyLimitsPartial, 1, 8), func(t map[string]any) {
		at(t, cmdPath)["loadControlLimitConstraintsListData"] = map[string]any{}
	})
	probe := hx.Zs{opProbe, 1, 77}
	regress = []witness{
		{"foreign-function-then-notify", "", append(append([]hx.Zs{}, discovered...), in(validMessage(r, kNotifyForeignFunction, 1, 20)),
			in(validMessage(r, kNotifyLimits, 1, 21)), in(validMessage(r, kReplyForeignFunction, 1, 22)), in(validMessage(r, kReplyLimits, 1, 23)), probe)},
		{"failed-notify-with-foreign-selector", "", append(append([]hx.Zs{}, discovered...), in(validMessage(r, kNotifyFailedForeignSelector, 1, 30)),
			in(validMessage(r, kNotifyLimitsForeignSelector, 1, 31)), probe)},
		{"payload-with-emptied-timeperiod", "", sweepWitness("loadControlLimitListData", func(t map[string]any) {
			at(t, cmdPath+".loadControlLimitListData.loadControlLimitData.0")["timePeriod"] = map[string]any{}
		})},
		{"characteristic-data-reply-notify-read", "", sweepWitness("electricalConnectionCharacteristicData", nil)},
		{"reply-with-entity-entry-without-description", "", []hx.Zs{conn, in(discEdit(func(d map[string]any) {
			ei := d["entityInformation"].([]any)
			d["entityInformation"] = []any{ei[0], map[string]any{}, ei[1]}
		})), probe}},
	}
	return []witness{
		{"nil-destination", "spine.(*DeviceLocal).FeatureByAddress", one(edit(read, func(t map[string]any) { delete(at(t, hdrPath), "addressDestination") }))},
		{"nil-source", "spine.(*DeviceLocal).ProcessCmd", one(edit(read, func(t map[string]any) { delete(at(t, hdrPath), "addressSource") }))},
		{"filter-without-cmdcontrol", "model.(*CmdType).ExtractFilter", one(edit(read, func(t map[string]any) { at(t, cmdPath)["filter"] = []any{map[string]any{}} }))},
		{"reply-without-reference", "model.(*DatagramType).PrintMessageOverview", one(edit(discReply, func(t map[string]any) { delete(at(t, hdrPath), "msgCounterReference") }))},
		{"read-without-counter", "model.(*DatagramType).PrintMessageOverview", one(edit(read, func(t map[string]any) { delete(at(t, hdrPath), "msgCounter") }))},
		{"result-without-errornumber", "model.(*DatagramType).PrintMessageOverview", one(edit(validMessage(r, kResultNM, 1, 2), func(t map[string]any) { delete(at(t, cmdPath+".resultData"), "errorNumber") }))},
		{"empty-subscription-request", "spine.(*NodeManagement).handleMsgSubscriptionRequestCall", one(emptyCall("nodeManagementSubscriptionRequestCall"))},
		{"empty-subscription-delete", "spine.(*NodeManagement).handleMsgSubscriptionDeleteCall", one(emptyCall("nodeManagementSubscriptionDeleteCall"))},
		{"empty-binding-request", "spine.(*NodeManagement).handleMsgBindingRequestCall", one(emptyCall("nodeManagementBindingRequestCall"))},
		{"empty-binding-delete", "spine.(*NodeManagement).handleMsgBindingDeleteCall", one(emptyCall("nodeManagementBindingDeleteCall"))},
		{"subscription-without-type", "spine.(*SubscriptionManager).AddSubscription", one(edit(subCall, func(t map[string]any) {
			delete(at(t, cmdPath+".nodeManagementSubscriptionRequestCall.subscriptionRequest"), "serverFeatureType")
		}))},
		{"subscription-before-discovery", "spine.(*SubscriptionManager).AddSubscription", one(subCall)},
		{"subscription-delete-without-client", "spine.(*SubscriptionManager).RemoveSubscription", one(edit(subDel, func(t map[string]any) {
			delete(at(t, cmdPath+".nodeManagementSubscriptionDeleteCall.subscriptionDelete"), "clientAddress")
		}))},
		{"subscription-delete-before-discovery", "spine.(*SubscriptionManager).RemoveSubscription", one(subDel)},
		{"binding-before-discovery", "spine.(*BindingManager).AddBinding", one(bindCall)},
		{"binding-delete-without-client", "spine.(*BindingManager).RemoveBinding", one(edit(bindDel, func(t map[string]any) {
			delete(at(t, cmdPath+".nodeManagementBindingDeleteCall.bindingDelete"), "clientAddress")
		}))},
		{"subscription-without-client", "spine.(*DeviceRemote).FeatureByAddress", one(edit(subCall, func(t map[string]any) {
			delete(at(t, cmdPath+".nodeManagementSubscriptionRequestCall.subscriptionRequest"), "clientAddress")
		}))},
		{"subscription-without-server", "spine.(*DeviceLocal).FeatureByAddress", one(edit(subCall, func(t map[string]any) {
			delete(at(t, cmdPath+".nodeManagementSubscriptionRequestCall.subscriptionRequest"), "serverAddress")
		}))},
		{"reply-without-deviceinformation", "spine.(*NodeManagement).processReplyDetailedDiscoveryData", one(discEdit(func(d map[string]any) { delete(d, "deviceInformation") }))},
		{"new-entity-without-type", "spine.(*DeviceRemote).AddEntityAndFeatures", one(discEdit(func(d map[string]any) {
			delete(at(d, "entityInformation.1.description"), "entityType")
		}))},
		{"feature-entry-without-description", "spine.(*DeviceRemote).AddEntityAndFeatures", one(discEdit(func(d map[string]any) {
			d["featureInformation"] = []any{map[string]any{}}
		}))},
		{"empty-entity-address", "spine.NewEntity", one(discEdit(func(d map[string]any) {
			at(d, "entityInformation.1.description.entityAddress")["entity"] = []any{}
		}))},
		{"feature-without-role", "spine.unmarshalFeature", one(discEdit(func(d map[string]any) {
			f := lcClient()
			delete(f["description"].(map[string]any), "role")
			d["featureInformation"] = []any{f}
		}))},
		{"function-without-name", "spine.(*FeatureRemote).SetOperations", one(discEdit(func(d map[string]any) {
			f := lcClient()
			f["description"].(map[string]any)["supportedFunction"] = []any{map[string]any{"possibleOperations": map[string]any{"read": map[string]any{}}}}
			d["featureInformation"] = []any{f}
		}))},
		{"unknown-feature-type", "spine.CreateFunctionData", one(discEdit(func(d map[string]any) {
			f := lcClient()
			f["description"].(map[string]any)["featureType"] = "NoSuchFeatureType"
			d["featureInformation"] = []any{f}
		}))},
		{"partial-update-without-items", "model.UpdateList", append(append([]hx.Zs{}, discovered...), in(notifyNoItems))},
		{"selector-on-keyless-item", "model.(*FilterData).SelectorMatch", append(append([]hx.Zs{}, discovered...), in(bindCall), in(writeKeyless), in(writeSelector))},
		{"lockout-entity0-added-without-features", "unanswered-probe", []hx.Zs{conn, in(partialNotify("added")), probe}},
		{"lockout-entity0-removed", "unanswered-probe", []hx.Zs{conn, in(partialNotify("removed")), probe}},
		{"lockout-full-notify-without-entity0", "unanswered-probe", append(append([]hx.Zs{}, discovered...), in(onlyEntity1(kDiscNotifyFull)), probe)},
		{"lockout-reply-without-entity0", "unanswered-probe", append(append([]hx.Zs{}, discovered...), in(onlyEntity1(kDiscReply)), probe)},
	}
}

// regression inputs that are not refutation witnesses of the unrepaired tree (seeded defects, past disagreements)
var regress []witness

func mkCorpus(dir string) {
	ws := buildWitnesses()
	for _, w := range regress {
		doc := map[string]any{"note": "C05 regression input (seeded-defect pattern): " + w.name, "history": w.ops}
		b, _ := json.MarshalIndent(doc, "", " ")
		if err := os.WriteFile(filepath.Join(dir, "regress-"+w.name+".json"), b, 0o644); err != nil {
			panic(err)
		}
	}
	for _, w := range ws {
		_, payload, _ := splitInbound(lastInbound(w.ops))
		doc := map[string]any{
			"note":              "C05 refutation witness / regression input; last inbound payload: " + string(payload),
			"expect_unrepaired": w.expect,
			"history":           w.ops,
		}
		b, _ := json.MarshalIndent(doc, "", " ")
		if err := os.WriteFile(filepath.Join(dir, "fixed-"+w.name+".json"), b, 0o644); err != nil {
			panic(err)
		}
	}
}

func lastInbound(ops []hx.Zs) hx.Zs {
	for i := len(ops) - 1; i >= 0; i-- {
		if ops[i][0] == opInbound {
			return ops[i]
		}
	}
	return nil
}

func runWitnesses(dir string) {
	files, _ := filepath.Glob(filepath.Join(dir, "*.json"))
	sort.Strings(files)
	bad := 0
	for _, f := range files {
		b, _ := os.ReadFile(f)
		var doc struct {
			Expect  string  `json:"expect_unrepaired"`
			History []hx.Zs `json:"history"`
		}
		if json.Unmarshal(b, &doc) != nil {
			continue
		}
		i := &impl{w: newWorld()}
		got := "no-panic"
		for _, op := range doc.History {
			obs := i.Exec(op)
			if op[0] == opProbe && len(obs) == 0 {
				got = "unanswered-probe"
			}
			if i.w.lastSite != "" {
				got = i.w.lastSite
				break
			}
		}
		i.Close()
		mark := "agrees with the unrepaired model"
		if got != doc.Expect {
			mark = "EXPECTED " + doc.Expect
			bad++
		}
		fmt.Printf("%-55s %-60s %s\n", filepath.Base(f), got, mark)
	}
	fmt.Printf("%d witnesses, %d differ from the expectation for the unrepaired tree\n", len(files), bad)
}

// reabstract rewrites a history file, recomputing the abstraction of every inbound payload from its
// bytes (used when the abstraction format grows): c05 -reabs <in.json> -to <out.json>
func reabstract(in, out, note string) {
	b, err := os.ReadFile(in)
	if err != nil {
		panic(err)
	}
	var doc struct {
		History []hx.Zs `json:"history"`
	}
	if err := json.Unmarshal(b, &doc); err != nil {
		panic(err)
	}
	var h []hx.Zs
	for _, op := range doc.History {
		if len(op) > 0 && op[0] == opInbound {
			p, payload, _ := splitInbound(op)
			h = append(h, inboundOp(p, payload))
		} else {
			h = append(h, op)
		}
	}
	o, _ := json.MarshalIndent(map[string]any{"note": note, "history": h}, "", " ")
	if err := os.WriteFile(out, o, 0o644); err != nil {
		panic(err)
	}
}

// sweepWitness: the sweep's base messages of one function (optionally the first one edited) as opaque payloads
func sweepWitness(fn string, f func(root map[string]any)) []hx.Zs {
	initSweep()
	h := []hx.Zs{{opConnect, 1},
		inboundOp(1, encode(header(faddr(1, nm0, 0), faddr(0, nm0, 0), 1, 1, model.CmdClassifierTypeReply, false),
			model.CmdType{NodeManagementDetailedDiscoveryData: sweepTree(1)}))}
	for _, sf := range sweepFns {
		if sf.name != fn {
			continue
		}
		ctr := uint64(800000)
		for i, m := range sweepMessages(sf, 1, &ctr) {
			if i == 0 && f != nil {
				m = edit(m, f)
			}
			h = append(h, opaqueOp(1, m), hx.Zs{opProbe, 1, int64(810000 + i)})
		}
	}
	return h
}
