// C05 runner, part 8: the function sweep (search only). Every function the factory registers for a data
// feature type x {reply, notify from a Generic and from a feature of the function's own type, read on a local
// Generic server} with a payload filled reflectively (every pointer set, every list one item), and for the
// functions whose payload reaches a type with its own JSON (un)marshaler every single-node mutant of the
// payload subtree (removed / null / emptied), always; for the other functions a rotating slice of them.
// These payloads are outside the model's datagram type: they travel as operation [5 p n b1..bn] (Opaque),
// for which only panic / wedge are observed, each followed by the discovery-read probe.
package main

import (
	"encoding/json"
	"reflect"
	"sort"
	"strings"

	"github.com/enbility/spine-go/model"
	"github.com/enbility/spine-go/util"

	"verifharness/c18lib"
	"verifharness/hx"
)

const opOpaque = 5

type sweepFn struct {
	name    string // function name = eebus fct tag
	field   int    // index in model.CmdType
	jsonKey string
	ftype   model.FeatureTypeType // a non-Generic feature type registering it ("" if none)
	custom  bool                  // payload reaches a type with a custom JSON unmarshaler
}

var sweepFns []sweepFn
var sweepTypes []model.FeatureTypeType // data feature types with function data, index -> remote feature id 3+i

func initSweep() {
	if sweepFns != nil {
		return
	}
	byName := map[string]model.FeatureTypeType{}
	generic := map[string]bool{}
	fts, err := c18lib.FeatureTypeConsts(c18lib.RepoRoot())
	if err != nil {
		fts = []string{"Generic"}
	}
	for _, ft := range fts {
		t := model.FeatureTypeType(ft)
		if t == model.FeatureTypeTypeNodeManagement {
			continue
		}
		fds, ok := c18lib.CreateFor(t)
		if !ok || len(fds) == 0 {
			continue
		}
		if t != model.FeatureTypeTypeGeneric {
			sweepTypes = append(sweepTypes, t)
		}
		for _, fd := range fds {
			n := string(fd.FunctionType())
			if t == model.FeatureTypeTypeGeneric {
				generic[n] = true
			} else if _, seen := byName[n]; !seen {
				byName[n] = t
			}
		}
	}
	ct := reflect.TypeOf(model.CmdType{})
	for i := 0; i < ct.NumField(); i++ {
		sf := ct.Field(i)
		tag := sf.Tag.Get("eebus")
		if !strings.HasPrefix(tag, "fct:") || sf.Type.Kind() != reflect.Ptr {
			continue
		}
		name := strings.Split(strings.TrimPrefix(tag, "fct:"), ",")[0]
		if _, typed := byName[name]; !typed && !generic[name] {
			continue
		}
		key := strings.Split(sf.Tag.Get("json"), ",")[0]
		sweepFns = append(sweepFns, sweepFn{name: name, field: i, jsonKey: key, ftype: byName[name], custom: reachesCustomJSON(sf.Type.Elem(), map[reflect.Type]bool{})})
	}
	sort.Slice(sweepFns, func(a, b int) bool { return sweepFns[a].name < sweepFns[b].name })
}

var unmarshalerType = reflect.TypeOf((*json.Unmarshaler)(nil)).Elem()

func reachesCustomJSON(t reflect.Type, seen map[reflect.Type]bool) bool {
	for t.Kind() == reflect.Ptr || t.Kind() == reflect.Slice {
		t = t.Elem()
	}
	if seen[t] {
		return false
	}
	seen[t] = true
	if reflect.PointerTo(t).Implements(unmarshalerType) {
		return true
	}
	if t.Kind() == reflect.Struct {
		for i := 0; i < t.NumField(); i++ {
			if reachesCustomJSON(t.Field(i).Type, seen) {
				return true
			}
		}
	}
	return false
}

// fill sets every pointer, gives every slice one element and every scalar a plausible value
func fill(v reflect.Value, depth int) {
	switch v.Kind() {
	case reflect.Ptr:
		if depth <= 0 {
			return
		}
		v.Set(reflect.New(v.Type().Elem()))
		fill(v.Elem(), depth-1)
	case reflect.Struct:
		for i := 0; i < v.NumField(); i++ {
			if v.Field(i).CanSet() {
				fill(v.Field(i), depth)
			}
		}
	case reflect.Slice:
		if depth <= 0 {
			return
		}
		s := reflect.MakeSlice(v.Type(), 1, 1)
		fill(s.Index(0), depth-1)
		v.Set(s)
	case reflect.String:
		n := v.Type().Name()
		switch {
		case strings.Contains(n, "Duration"):
			v.SetString("PT1H")
		case strings.Contains(n, "AbsoluteOrRelativeTime"), strings.Contains(n, "DateTime"):
			v.SetString("2024-01-01T00:00:00Z")
		default:
			v.SetString("s")
		}
	case reflect.Bool:
		v.SetBool(true)
	case reflect.Int, reflect.Int8, reflect.Int16, reflect.Int32, reflect.Int64:
		v.SetInt(1)
	case reflect.Uint, reflect.Uint8, reflect.Uint16, reflect.Uint32, reflect.Uint64:
		v.SetUint(1)
	case reflect.Float32, reflect.Float64:
		v.SetFloat(1)
	}
}

func sweepCmd(f sweepFn, filled bool) model.CmdType {
	var c model.CmdType
	fv := reflect.ValueOf(&c).Elem().Field(f.field)
	fv.Set(reflect.New(fv.Type().Elem()))
	if filled {
		fill(fv.Elem(), 6)
	}
	return c
}

// the peer's tree for the sweep: the usual one plus entity [2] with a Generic server (1), a Generic client (2)
// and one server feature per data feature type (3..)
func sweepTree(k int) *model.NodeManagementDetailedDiscoveryDataType {
	initSweep()
	d := fullTree(k)
	e := []uint{2}
	d.EntityInformation = append(d.EntityInformation, entInfo(k, e, model.EntityTypeTypeEV, nil))
	d.FeatureInformation = append(d.FeatureInformation,
		featInfo(k, e, 1, model.FeatureTypeTypeGeneric, model.RoleTypeServer),
		featInfo(k, e, 2, model.FeatureTypeTypeGeneric, model.RoleTypeClient))
	for i, t := range sweepTypes {
		d.FeatureInformation = append(d.FeatureInformation, featInfo(k, e, uint(3+i), t, model.RoleTypeServer))
	}
	return d
}

func typedFeature(t model.FeatureTypeType) uint {
	for i, x := range sweepTypes {
		if x == t {
			return uint(3 + i)
		}
	}
	return 1
}

func opaqueOp(p int, payload []byte) hx.Zs {
	pk := packBytes(payload)
	z := hx.Zs{opOpaque, int64(p), int64(len(pk))}
	return append(z, pk...)
}

func splitOpaque(op hx.Zs) (int, []byte) {
	if len(op) < 3 {
		return 0, nil
	}
	n := int(op[2])
	if n < 0 || 3+n > len(op) {
		return int(op[1]), nil
	}
	return int(op[1]), unpackBytes(op[3 : 3+n])
}

// base messages of one function from peer k
func sweepMessages(f sweepFn, k int, ctr *uint64) [][]byte {
	next := func() uint64 { *ctr++; return *ctr }
	lCli, lGen := faddr(0, []uint{1}, 2), faddr(0, []uint{1}, 3)
	rGenSrv, rGenCli := faddr(k, []uint{2}, 1), faddr(k, []uint{2}, 2)
	var out [][]byte
	out = append(out,
		encode(header(rGenSrv, lCli, next(), 1, model.CmdClassifierTypeReply, false), sweepCmd(f, true)),
		encode(header(rGenSrv, lCli, next(), -1, model.CmdClassifierTypeNotify, false), sweepCmd(f, true)))
	if f.ftype != "" {
		rT := faddr(k, []uint{2}, typedFeature(f.ftype))
		out = append(out,
			encode(header(rT, lCli, next(), 1, model.CmdClassifierTypeReply, false), sweepCmd(f, true)),
			encode(header(rT, lCli, next(), -1, model.CmdClassifierTypeNotify, false), sweepCmd(f, false)))
	}
	out = append(out, encode(header(rGenCli, lGen, next(), -1, model.CmdClassifierTypeRead, false), sweepCmd(f, false)))
	return out
}

// every single-node mutant (removed / null / emptied) of the payload subtree of msg
func payloadMutants(msg []byte, jsonKey string) [][]byte {
	count := func() int {
		var tree any
		_ = json.Unmarshal(msg, &tree)
		sub := payloadSubtree(box(tree), jsonKey)
		var nodes []node
		collect(sub, 0, &nodes)
		return len(nodes)
	}()
	var out [][]byte
	for i := 0; i < count; i++ {
		for kind := 0; kind < 3; kind++ {
			var tree any
			_ = json.Unmarshal(msg, &tree)
			tree = box(tree)
			var nodes []node
			collect(payloadSubtree(tree, jsonKey), 0, &nodes)
			if i >= len(nodes) {
				continue
			}
			nd := nodes[i]
			cur, _ := nd.get()
			switch kind {
			case 0:
				nd.remove()
			case 1:
				nd.set(nil)
			case 2:
				switch cur.(type) {
				case map[string]any:
					nd.set(map[string]any{})
				case *arr:
					nd.set(&arr{})
				case string:
					nd.set("")
				default:
					continue // a number or bool has no empty form; null and removal cover it
				}
			}
			b, err := json.Marshal(unbox(tree))
			if err == nil {
				out = append(out, b)
			}
		}
	}
	return out
}

// the holder {jsonKey: payload} so that the payload node itself is a mutable node as well
func payloadSubtree(tree any, jsonKey string) any {
	root, _ := tree.(map[string]any)
	dg, _ := root["datagram"].(map[string]any)
	pl, _ := dg["payload"].(map[string]any)
	cmds, _ := pl["cmd"].(*arr)
	if cmds == nil || len(cmds.v) == 0 {
		return nil
	}
	c, _ := cmds.v[0].(map[string]any)
	if c == nil {
		return nil
	}
	if _, ok := c[jsonKey]; !ok {
		return nil
	}
	return map[string]any{jsonKey: c[jsonKey]} // NB: a copy of the holder; removal of the payload itself is done below
}

var sweepStats = map[string]int{}

// histories: connect, the sweep tree, then chunks of (opaque payload, probe)
func sweepHistories(msgs [][]byte, label string) [][]hx.Zs {
	const chunk = 60
	var hs [][]hx.Zs
	for i := 0; i < len(msgs); i += chunk {
		end := i + chunk
		if end > len(msgs) {
			end = len(msgs)
		}
		h := []hx.Zs{{opConnect, 1},
			inboundOp(1, encode(header(faddr(1, nm0, 0), faddr(0, nm0, 0), 1, 1, model.CmdClassifierTypeReply, false),
				model.CmdType{NodeManagementDetailedDiscoveryData: sweepTree(1)}))}
		pc := int64(900000 + i)
		for _, m := range msgs[i:end] {
			pc++
			h = append(h, opaqueOp(1, m), hx.Zs{opProbe, 1, pc})
		}
		hs = append(hs, h)
	}
	sweepStats[label+"_payloads"] += len(msgs)
	sweepStats[label+"_histories"] += len(hs)
	return hs
}

// fixedSweep: all functions x base messages, and all single-node payload mutants of the functions with a
// custom JSON type (always); thorough: the mutants of every function
func fixedSweep(tier string) [][]hx.Zs {
	initSweep()
	ctr := uint64(500000)
	var base, mut [][]byte
	for _, f := range sweepFns {
		ms := sweepMessages(f, 1, &ctr)
		base = append(base, ms...)
		if f.custom || tier == "thorough" {
			mut = append(mut, payloadMutants(ms[0], f.jsonKey)...) // reply from the Generic server
			mut = append(mut, payloadMutants(ms[1], f.jsonKey)...) // notify
		}
	}
	sweepStats["functions"] = len(sweepFns)
	n := 0
	for _, f := range sweepFns {
		if f.custom {
			n++
		}
	}
	sweepStats["functions_with_custom_json_type"] = n
	return append(sweepHistories(base, "base"), sweepHistories(mut, "custom_json_mutant")...)
}

// rotatingSweep: the payload mutants of a slice of the remaining functions, chosen by the run's randomness
func rotatingSweep(r *hx.Rng) []hx.Zs {
	initSweep()
	var rest []sweepFn
	for _, f := range sweepFns {
		if !f.custom {
			rest = append(rest, f)
		}
	}
	if len(rest) == 0 {
		return nil
	}
	f := rest[r.Intn(len(rest))]
	ctr := uint64(700000)
	ms := sweepMessages(f, 1, &ctr)
	mut := payloadMutants(ms[r.Intn(2)], f.jsonKey)
	if len(mut) > 60 {
		off := r.Intn(len(mut) - 59)
		mut = mut[off : off+60]
	}
	hs := sweepHistories(mut, "rotating_mutant")
	if len(hs) == 0 {
		return nil
	}
	return hs[0]
}

var _ = util.Ptr[int]
