// C05 runner, part 1: the world. A real spine-go stack (local device d0 with a
// LoadControl server and a LoadControl client on entity [1]) and up to three
// connections s1..s3. Inbound payloads are delivered through
// DeviceRemote.HandleSpineMesssage exactly as ship-go does; a panic is recovered
// (site = innermost spine-go frame), non-return is detected by a watchdog.
package main

import (
	"encoding/json"
	"fmt"
	"runtime"
	"strings"
	"sync"
	"time"

	shipapi "github.com/enbility/ship-go/api"
	"github.com/enbility/spine-go/api"
	"github.com/enbility/spine-go/model"
	"github.com/enbility/spine-go/spine"
	"github.com/enbility/spine-go/util"
)

const maxPeers = 3

var watchdog = 3 * time.Second

type outMsg struct {
	peer int
	raw  []byte
}

type peerRec struct {
	ski    string
	reader shipapi.ShipConnectionDataReaderInterface
}

type world struct {
	mu       sync.Mutex
	out      []outMsg
	local    *spine.DeviceLocal
	peers    map[int]*peerRec
	dead     string // non-empty after a wedge: the stack is unusable
	lastSite string // site of the last recovered panic
}

type writer struct {
	w    *world
	peer int
}

func (wr *writer) WriteShipMessageWithPayload(msg []byte) {
	wr.w.mu.Lock()
	defer wr.w.mu.Unlock()
	wr.w.out = append(wr.w.out, outMsg{wr.peer, append([]byte(nil), msg...)})
}

func constraintItem(id uint, v int64) model.LoadControlLimitConstraintsDataType {
	return model.LoadControlLimitConstraintsDataType{
		LimitId:       util.Ptr(model.LoadControlLimitIdType(id)),
		ValueRangeMin: &model.ScaledNumberType{Number: util.Ptr(model.NumberType(0))},
		ValueRangeMax: &model.ScaledNumberType{Number: util.Ptr(model.NumberType(v))},
	}
}

func newWorld() *world {
	spine.VerifResetEvents()
	w := &world{peers: map[int]*peerRec{}}
	w.local = spine.NewDeviceLocal("brand", "model", "serial", "code", "d0",
		model.DeviceTypeTypeEnergyManagementSystem, model.NetworkManagementFeatureSetTypeSmart)
	e1 := spine.NewEntityLocal(w.local, model.EntityTypeTypeCEM, []model.AddressEntityType{1}, 0)
	srv := e1.GetOrAddFeature(model.FeatureTypeTypeLoadControl, model.RoleTypeServer)
	srv.AddFunctionType(model.FunctionTypeLoadControlLimitConstraintsListData, true, true)
	srv.AddFunctionType(model.FunctionTypeLoadControlNodeData, true, false)
	cli := e1.GetOrAddFeature(model.FeatureTypeTypeLoadControl, model.RoleTypeClient)
	_ = cli
	// [1]:3 a Generic server without operations: the destination of the sweep's reads (every data function)
	_ = e1.GetOrAddFeature(model.FeatureTypeTypeGeneric, model.RoleTypeServer)
	w.local.AddEntity(e1)
	srv.SetData(model.FunctionTypeLoadControlLimitConstraintsListData, &model.LoadControlLimitConstraintsListDataType{
		LoadControlLimitConstraintsData: []model.LoadControlLimitConstraintsDataType{constraintItem(1, 10), constraintItem(2, 20)},
	})
	return w
}

func (w *world) close() {
	if w.dead != "" {
		return // locks may be held for ever; leave the garbage to the collector
	}
	for _, p := range w.peers {
		w.local.RemoveRemoteDeviceConnection(p.ski)
	}
}

func (w *world) connect(p int) {
	if _, ok := w.peers[p]; ok {
		return
	}
	ski := fmt.Sprintf("s%d", p)
	rd := w.local.SetupRemoteDevice(ski, &writer{w, p})
	w.peers[p] = &peerRec{ski: ski, reader: rd}
}

func (w *world) disconnect(p int) {
	pr, ok := w.peers[p]
	if !ok {
		return
	}
	w.local.RemoveRemoteDeviceConnection(pr.ski)
	delete(w.peers, p)
}

func (w *world) takeOut() []outMsg {
	w.mu.Lock()
	defer w.mu.Unlock()
	o := w.out
	w.out = nil
	return o
}

type deliverResult struct {
	panicSite string // "" = returned normally
	panicMsg  string
	wedged    bool
	err       error
	out       []outMsg
}

var lastPanicLine string

// panicSite names the innermost frame that belongs to spine-go.
func panicSite() string {
	pcs := make([]uintptr, 64)
	n := runtime.Callers(3, pcs)
	frames := runtime.CallersFrames(pcs[:n])
	for {
		f, more := frames.Next()
		if strings.Contains(f.Function, "github.com/enbility/spine-go/") {
			fn := strings.TrimPrefix(f.Function, "github.com/enbility/spine-go/")
			if i := strings.Index(fn, "["); i >= 0 { // generic instantiation
				fn = fn[:i]
			}
			lastPanicLine = fmt.Sprintf("%s:%d", f.File[strings.LastIndex(f.File, "/")+1:], f.Line)
			return fn
		}
		if !more {
			break
		}
	}
	return "outside-spine-go"
}

// deliver hands one payload to the connection's reader, as ship-go's read loop does.
func (w *world) deliver(p int, payload []byte) deliverResult {
	var res deliverResult
	if w.dead != "" {
		res.wedged = true
		return res
	}
	pr, ok := w.peers[p]
	if !ok {
		return res
	}
	w.takeOut()
	done := make(chan struct{})
	go func() {
		defer close(done)
		defer func() {
			if r := recover(); r != nil {
				res.panicSite = panicSite()
				res.panicMsg = fmt.Sprint(r)
			}
		}()
		_, res.err = pr.reader.(api.DeviceRemoteInterface).HandleSpineMesssage(payload)
	}()
	select {
	case <-done:
	case <-time.After(watchdog):
		w.dead = "wedged"
		watchdog = 400 * time.Millisecond // once a wedge has been seen, replays and shrinking need not wait as long
		return deliverResult{wedged: true}
	}
	res.out = w.takeOut()
	w.lastSite = res.panicSite
	return res
}

// ---- outbound datagrams, reduced to what the model predicts

type outAbs struct {
	peer int
	cls  string
	fn   string // payload field name (reply / notify)
	errn int64  // result: error number (-1 = absent)
	ref  int64  // msgCounterReference (-1 = absent)
}

func abstractOut(o outMsg) outAbs {
	a := outAbs{peer: o.peer, errn: -1, ref: -1}
	defer func() {
		if r := recover(); r != nil { // a panicking decoder is the implementation's fault, found on the inbound side
			a.cls = "undecodable"
		}
	}()
	var d model.Datagram
	if err := json.Unmarshal(o.raw, &d); err != nil {
		a.cls = "undecodable"
		return a
	}
	h := d.Datagram.Header
	if h.CmdClassifier != nil {
		a.cls = string(*h.CmdClassifier)
	}
	if h.MsgCounterReference != nil {
		a.ref = int64(*h.MsgCounterReference)
	}
	if len(d.Datagram.Payload.Cmd) > 0 {
		c := d.Datagram.Payload.Cmd[0]
		a.fn = c.DataName()
		if c.ResultData != nil && c.ResultData.ErrorNumber != nil {
			a.errn = int64(*c.ResultData.ErrorNumber)
		}
	}
	return a
}
