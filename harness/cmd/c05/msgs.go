// C05 runner, part 2: valid messages of every kind, as a peer k (device "d<k>") sends them.
package main

import (
	"encoding/json"
	"fmt"

	"github.com/enbility/spine-go/model"
	"github.com/enbility/spine-go/util"

	"verifharness/hx"
)

func dev(k int) *model.AddressDeviceType {
	return util.Ptr(model.AddressDeviceType(fmt.Sprintf("d%d", k)))
}

func faddr(k int, ent []uint, feat uint) *model.FeatureAddressType {
	a := &model.FeatureAddressType{Device: dev(k), Feature: util.Ptr(model.AddressFeatureType(feat))}
	for _, e := range ent {
		a.Entity = append(a.Entity, model.AddressEntityType(e))
	}
	return a
}

func eaddr(k int, ent []uint) *model.EntityAddressType {
	a := &model.EntityAddressType{Device: dev(k)}
	for _, e := range ent {
		a.Entity = append(a.Entity, model.AddressEntityType(e))
	}
	return a
}

func header(src, dst *model.FeatureAddressType, ctr uint64, ref int64, cls model.CmdClassifierType, ack bool) model.HeaderType {
	h := model.HeaderType{
		SpecificationVersion: util.Ptr(model.SpecificationVersionType("1.3.0")),
		AddressSource:        src,
		AddressDestination:   dst,
		MsgCounter:           util.Ptr(model.MsgCounterType(ctr)),
		CmdClassifier:        util.Ptr(cls),
	}
	if ref >= 0 {
		h.MsgCounterReference = util.Ptr(model.MsgCounterType(ref))
	}
	if ack {
		h.AckRequest = util.Ptr(true)
	}
	return h
}

func encode(h model.HeaderType, cmd model.CmdType) []byte {
	d := model.Datagram{Datagram: model.DatagramType{Header: h, Payload: model.PayloadType{Cmd: []model.CmdType{cmd}}}}
	b, err := json.Marshal(d)
	if err != nil {
		panic(err)
	}
	return b
}

func fprop(fn model.FunctionType, write bool) model.FunctionPropertyType {
	po := &model.PossibleOperationsType{Read: &model.PossibleOperationsReadType{}}
	if write {
		po.Write = &model.PossibleOperationsWriteType{Partial: &model.ElementTagType{}}
	}
	return model.FunctionPropertyType{Function: util.Ptr(fn), PossibleOperations: po}
}

func featInfo(k int, ent []uint, feat uint, t model.FeatureTypeType, role model.RoleType, fns ...model.FunctionPropertyType) model.NodeManagementDetailedDiscoveryFeatureInformationType {
	return model.NodeManagementDetailedDiscoveryFeatureInformationType{
		Description: &model.NetworkManagementFeatureDescriptionDataType{
			FeatureAddress:    faddr(k, ent, feat),
			FeatureType:       util.Ptr(t),
			Role:              util.Ptr(role),
			SupportedFunction: fns,
			Description:       util.Ptr(model.DescriptionType("f")),
		},
	}
}

func entInfo(k int, ent []uint, t model.EntityTypeType, state *model.NetworkManagementStateChangeType) model.NodeManagementDetailedDiscoveryEntityInformationType {
	return model.NodeManagementDetailedDiscoveryEntityInformationType{
		Description: &model.NetworkManagementEntityDescriptionDataType{
			EntityAddress:   eaddr(k, ent),
			EntityType:      util.Ptr(t),
			LastStateChange: state,
			Description:     util.Ptr(model.DescriptionType("e")),
		},
	}
}

func devInfo(k int) *model.NodeManagementDetailedDiscoveryDeviceInformationType {
	return &model.NodeManagementDetailedDiscoveryDeviceInformationType{
		Description: &model.NetworkManagementDeviceDescriptionDataType{
			DeviceAddress:     &model.DeviceAddressType{Device: dev(k)},
			DeviceType:        util.Ptr(model.DeviceTypeTypeChargingStation),
			NetworkFeatureSet: util.Ptr(model.NetworkManagementFeatureSetTypeSmart),
		},
	}
}

func lcFeatures(k int, ent []uint) []model.NodeManagementDetailedDiscoveryFeatureInformationType {
	return []model.NodeManagementDetailedDiscoveryFeatureInformationType{
		featInfo(k, ent, 1, model.FeatureTypeTypeLoadControl, model.RoleTypeClient),
		featInfo(k, ent, 2, model.FeatureTypeTypeLoadControl, model.RoleTypeServer,
			fprop(model.FunctionTypeLoadControlLimitConstraintsListData, true),
			fprop(model.FunctionTypeLoadControlNodeData, false)),
	}
}

// the peer's complete tree: [0] (node management, device classification) and [1] (LoadControl client 1, server 2)
func fullTree(k int) *model.NodeManagementDetailedDiscoveryDataType {
	fi := []model.NodeManagementDetailedDiscoveryFeatureInformationType{
		featInfo(k, []uint{0}, 0, model.FeatureTypeTypeNodeManagement, model.RoleTypeSpecial,
			fprop(model.FunctionTypeNodeManagementDetailedDiscoveryData, false),
			fprop(model.FunctionTypeNodeManagementUseCaseData, false)),
		featInfo(k, []uint{0}, 1, model.FeatureTypeTypeDeviceClassification, model.RoleTypeServer,
			fprop(model.FunctionTypeDeviceClassificationManufacturerData, false)),
	}
	fi = append(fi, lcFeatures(k, []uint{1})...)
	return &model.NodeManagementDetailedDiscoveryDataType{
		SpecificationVersionList: &model.NodeManagementSpecificationVersionListType{
			SpecificationVersion: []model.SpecificationVersionDataType{"1.3.0"}},
		DeviceInformation: devInfo(k),
		EntityInformation: []model.NodeManagementDetailedDiscoveryEntityInformationType{
			entInfo(k, []uint{0}, model.EntityTypeTypeDeviceInformation, nil),
			entInfo(k, []uint{1}, model.EntityTypeTypeEVSE, nil),
		},
		FeatureInformation: fi,
	}
}

func partialFilter() []model.FilterType {
	return []model.FilterType{{CmdControl: &model.CmdControlType{Partial: &model.ElementTagType{}}}}
}

var nm0 = []uint{0}

// kinds of valid messages
const (
	kDiscReply = iota
	kDiscNotifyAdd
	kDiscNotifyRemove
	kDiscNotifyFull
	kSubCall
	kSubDelete
	kBindCall
	kBindDelete
	kSubDataCall
	kBindDataCall
	kReadDisc
	kReadUseCase
	kReadDestList
	kReadLimits
	kReplyLimits
	kNotifyLimits
	kNotifyLimitsPartial
	kNotifyLimitsDelete
	kWriteLimits
	kWriteLimitsPartial
	kWriteLimitsDeleteSel
	kWriteLimitsDeleteElem
	kResultNM
	kResultFeature
	kUseCaseReply
	kUseCaseNotify
	kReadManufacturer
	kNotifyForeignFunction
	kReplyForeignFunction
	kDiscReplyDefectiveEntry
	kNotifyFailedForeignSelector
	kNotifyLimitsForeignSelector
	kReplyLimitsPartialForeign
	kWriteLimitsForeignSelector
	kWriteLimitsDeleteForeign
	kReadLimitsSelector
	numKinds
)

var kindNames = []string{"disc-reply", "disc-notify-add", "disc-notify-remove", "disc-notify-full", "sub-call", "sub-delete",
	"bind-call", "bind-delete", "sub-data-call", "bind-data-call", "read-disc", "read-usecase", "read-destlist", "read-limits",
	"reply-limits", "notify-limits", "notify-limits-partial", "notify-limits-delete", "write-limits", "write-limits-partial",
	"write-limits-delete-selector", "write-limits-delete-elements", "result-nm", "result-feature", "usecase-reply", "usecase-notify",
	"read-manufacturer", "notify-foreign-function", "reply-foreign-function", "disc-reply-defective-entry",
	"notify-failed-foreign-selector", "notify-limits-foreign-selector", "reply-limits-partial-foreign", "write-limits-foreign-selector",
	"write-limits-delete-foreign", "read-limits-selector"}

func limits(r *hx.Rng) *model.LoadControlLimitConstraintsListDataType {
	l := &model.LoadControlLimitConstraintsListDataType{}
	n := r.Range(1, 3)
	for i := 0; i < n; i++ {
		it := constraintItem(uint(r.Range(1, 3)), int64(r.Range(1, 99)))
		if r.Chance(1, 8) {
			it.LimitId = nil
		}
		l.LoadControlLimitConstraintsData = append(l.LoadControlLimitConstraintsData, it)
	}
	return l
}

func elems(r *hx.Rng) *model.LoadControlLimitConstraintsDataElementsType {
	e := &model.LoadControlLimitConstraintsDataElementsType{ValueRangeMax: &model.ScaledNumberElementsType{}}
	if r.Chance(1, 4) {
		e.LimitId = &model.ElementTagType{}
	}
	return e
}

func selFilter(ctrl *model.CmdControlType, id uint) model.FilterType {
	return model.FilterType{CmdControl: ctrl,
		LoadControlLimitConstraintsListDataSelectors: &model.LoadControlLimitConstraintsListDataSelectorsType{LimitId: util.Ptr(model.LoadControlLimitIdType(id))}}
}

// foreignSel: a filter carrying the selector of measurementListData (a function the LoadControl features do not have),
// optionally next to the own selector
func foreignSel(ctrl *model.CmdControlType, withOwn bool) model.FilterType {
	f := model.FilterType{CmdControl: ctrl,
		MeasurementListDataSelectors: &model.MeasurementListDataSelectorsType{MeasurementId: util.Ptr(model.MeasurementIdType(1))}}
	if withOwn {
		f.LoadControlLimitConstraintsListDataSelectors = &model.LoadControlLimitConstraintsListDataSelectorsType{LimitId: util.Ptr(model.LoadControlLimitIdType(1))}
	}
	return f
}

var ctrlPartial = func() *model.CmdControlType { return &model.CmdControlType{Partial: &model.ElementTagType{}} }
var ctrlDelete = func() *model.CmdControlType { return &model.CmdControlType{Delete: &model.ElementTagType{}} }

// validMessage builds message kind `kind` from peer k with message counter ctr.
func validMessage(r *hx.Rng, kind, k int, ctr uint64) []byte {
	rNM, lNM := faddr(k, nm0, 0), faddr(0, nm0, 0)
	rCli, rSrv := faddr(k, []uint{1}, 1), faddr(k, []uint{1}, 2)
	lSrv, lCli := faddr(0, []uint{1}, 1), faddr(0, []uint{1}, 2)
	fnLimits := util.Ptr(model.FunctionTypeLoadControlLimitConstraintsListData)
	ref := int64(r.Range(1, 6))
	ack := r.Bool()
	added, removed := model.NetworkManagementStateChangeTypeAdded, model.NetworkManagementStateChangeTypeRemoved
	switch kind {
	case kDiscReply:
		return encode(header(rNM, lNM, ctr, 1, model.CmdClassifierTypeReply, false),
			model.CmdType{NodeManagementDetailedDiscoveryData: fullTree(k)})
	case kDiscNotifyAdd:
		e := []uint{uint(r.Range(1, 3))}
		d := &model.NodeManagementDetailedDiscoveryDataType{DeviceInformation: devInfo(k),
			EntityInformation:  []model.NodeManagementDetailedDiscoveryEntityInformationType{entInfo(k, e, model.EntityTypeTypeEV, &added)},
			FeatureInformation: lcFeatures(k, e)}
		return encode(header(rNM, lNM, ctr, -1, model.CmdClassifierTypeNotify, ack),
			model.CmdType{Function: util.Ptr(model.FunctionTypeNodeManagementDetailedDiscoveryData), Filter: partialFilter(), NodeManagementDetailedDiscoveryData: d})
	case kDiscNotifyRemove:
		e := []uint{uint(r.Range(1, 3))}
		ei := entInfo(k, e, model.EntityTypeTypeEV, &removed)
		ei.Description.EntityType = nil
		d := &model.NodeManagementDetailedDiscoveryDataType{DeviceInformation: devInfo(k),
			EntityInformation: []model.NodeManagementDetailedDiscoveryEntityInformationType{ei}}
		return encode(header(rNM, lNM, ctr, -1, model.CmdClassifierTypeNotify, ack),
			model.CmdType{Function: util.Ptr(model.FunctionTypeNodeManagementDetailedDiscoveryData), Filter: partialFilter(), NodeManagementDetailedDiscoveryData: d})
	case kDiscNotifyFull:
		return encode(header(rNM, lNM, ctr, -1, model.CmdClassifierTypeNotify, ack),
			model.CmdType{NodeManagementDetailedDiscoveryData: fullTree(k)})
	case kSubCall:
		return encode(header(rNM, lNM, ctr, -1, model.CmdClassifierTypeCall, ack),
			model.CmdType{NodeManagementSubscriptionRequestCall: &model.NodeManagementSubscriptionRequestCallType{
				SubscriptionRequest: &model.SubscriptionManagementRequestCallType{ClientAddress: rCli, ServerAddress: lSrv,
					ServerFeatureType: util.Ptr(model.FeatureTypeTypeLoadControl)}}})
	case kSubDelete:
		return encode(header(rNM, lNM, ctr, -1, model.CmdClassifierTypeCall, ack),
			model.CmdType{NodeManagementSubscriptionDeleteCall: &model.NodeManagementSubscriptionDeleteCallType{
				SubscriptionDelete: &model.SubscriptionManagementDeleteCallType{ClientAddress: rCli, ServerAddress: lSrv}}})
	case kBindCall:
		return encode(header(rNM, lNM, ctr, -1, model.CmdClassifierTypeCall, ack),
			model.CmdType{NodeManagementBindingRequestCall: &model.NodeManagementBindingRequestCallType{
				BindingRequest: &model.BindingManagementRequestCallType{ClientAddress: rCli, ServerAddress: lSrv,
					ServerFeatureType: util.Ptr(model.FeatureTypeTypeLoadControl)}}})
	case kBindDelete:
		return encode(header(rNM, lNM, ctr, -1, model.CmdClassifierTypeCall, ack),
			model.CmdType{NodeManagementBindingDeleteCall: &model.NodeManagementBindingDeleteCallType{
				BindingDelete: &model.BindingManagementDeleteCallType{ClientAddress: rCli, ServerAddress: lSrv}}})
	case kSubDataCall:
		return encode(header(rNM, lNM, ctr, -1, model.CmdClassifierTypeCall, false),
			model.CmdType{NodeManagementSubscriptionData: &model.NodeManagementSubscriptionDataType{}})
	case kBindDataCall:
		return encode(header(rNM, lNM, ctr, -1, model.CmdClassifierTypeCall, false),
			model.CmdType{NodeManagementBindingData: &model.NodeManagementBindingDataType{}})
	case kReadDisc:
		return discoveryRead(k, ctr)
	case kReadUseCase:
		return encode(header(rNM, lNM, ctr, -1, model.CmdClassifierTypeRead, false),
			model.CmdType{NodeManagementUseCaseData: &model.NodeManagementUseCaseDataType{}})
	case kReadDestList:
		return encode(header(rNM, lNM, ctr, -1, model.CmdClassifierTypeRead, false),
			model.CmdType{NodeManagementDestinationListData: &model.NodeManagementDestinationListDataType{}})
	case kReadLimits:
		return encode(header(rCli, lSrv, ctr, -1, model.CmdClassifierTypeRead, false),
			model.CmdType{LoadControlLimitConstraintsListData: &model.LoadControlLimitConstraintsListDataType{}})
	case kReplyLimits:
		return encode(header(rSrv, lCli, ctr, ref, model.CmdClassifierTypeReply, false),
			model.CmdType{LoadControlLimitConstraintsListData: limits(r)})
	case kNotifyLimits:
		return encode(header(rSrv, lCli, ctr, -1, model.CmdClassifierTypeNotify, ack),
			model.CmdType{LoadControlLimitConstraintsListData: limits(r)})
	case kNotifyLimitsPartial:
		return encode(header(rSrv, lCli, ctr, -1, model.CmdClassifierTypeNotify, ack),
			model.CmdType{Function: fnLimits, Filter: []model.FilterType{selFilter(ctrlPartial(), uint(r.Range(1, 3)))}, LoadControlLimitConstraintsListData: limits(r)})
	case kNotifyLimitsDelete:
		return encode(header(rSrv, lCli, ctr, -1, model.CmdClassifierTypeNotify, ack),
			model.CmdType{Function: fnLimits, Filter: []model.FilterType{selFilter(ctrlDelete(), uint(r.Range(1, 3)))}, LoadControlLimitConstraintsListData: &model.LoadControlLimitConstraintsListDataType{}})
	case kWriteLimits:
		return encode(header(rCli, lSrv, ctr, -1, model.CmdClassifierTypeWrite, ack),
			model.CmdType{LoadControlLimitConstraintsListData: limits(r)})
	case kWriteLimitsPartial:
		return encode(header(rCli, lSrv, ctr, -1, model.CmdClassifierTypeWrite, ack),
			model.CmdType{Function: fnLimits, Filter: []model.FilterType{selFilter(ctrlPartial(), uint(r.Range(1, 3)))}, LoadControlLimitConstraintsListData: limits(r)})
	case kWriteLimitsDeleteSel:
		return encode(header(rCli, lSrv, ctr, -1, model.CmdClassifierTypeWrite, ack),
			model.CmdType{Function: fnLimits, Filter: []model.FilterType{selFilter(ctrlDelete(), uint(r.Range(1, 3))), {CmdControl: ctrlPartial()}}, LoadControlLimitConstraintsListData: limits(r)})
	case kWriteLimitsDeleteElem:
		f := model.FilterType{CmdControl: ctrlDelete(), LoadControlLimitConstraintsDataElements: elems(r)}
		if r.Bool() {
			f.LoadControlLimitConstraintsListDataSelectors = &model.LoadControlLimitConstraintsListDataSelectorsType{LimitId: util.Ptr(model.LoadControlLimitIdType(r.Range(1, 3)))}
		}
		return encode(header(rCli, lSrv, ctr, -1, model.CmdClassifierTypeWrite, ack),
			model.CmdType{Function: fnLimits, Filter: []model.FilterType{f}, LoadControlLimitConstraintsListData: &model.LoadControlLimitConstraintsListDataType{}})
	case kResultNM:
		en := model.ErrorNumberType(r.Pick(2, 1, 1) * 3)
		return encode(header(rNM, lNM, ctr, ref, model.CmdClassifierTypeResult, false),
			model.CmdType{ResultData: &model.ResultDataType{ErrorNumber: util.Ptr(en), Description: util.Ptr(model.DescriptionType("x"))}})
	case kResultFeature:
		en := model.ErrorNumberType(r.Pick(2, 1) * 7)
		return encode(header(rSrv, lCli, ctr, ref, model.CmdClassifierTypeResult, false),
			model.CmdType{ResultData: &model.ResultDataType{ErrorNumber: util.Ptr(en)}})
	case kUseCaseReply, kUseCaseNotify:
		cls, rf := model.CmdClassifierTypeReply, ref
		if kind == kUseCaseNotify {
			cls, rf = model.CmdClassifierTypeNotify, -1
		}
		uc := &model.NodeManagementUseCaseDataType{UseCaseInformation: []model.UseCaseInformationDataType{{
			Address: faddr(k, []uint{1}, 1), Actor: util.Ptr(model.UseCaseActorTypeEVSE),
			UseCaseSupport: []model.UseCaseSupportType{{UseCaseName: util.Ptr(model.UseCaseNameTypeEVSECommissioningAndConfiguration),
				UseCaseVersion: util.Ptr(model.SpecificationVersionType("1.0.1")), UseCaseAvailable: util.Ptr(true),
				ScenarioSupport: []model.UseCaseScenarioSupportType{1, 2}}}}}}
		return encode(header(rNM, lNM, ctr, rf, cls, kind == kUseCaseNotify && ack),
			model.CmdType{NodeManagementUseCaseData: uc})
	case kNotifyForeignFunction, kReplyForeignFunction:
		// a function that does not belong to the type of the SOURCE feature (LoadControl): "function data not found"
		cls, rf := model.CmdClassifierTypeNotify, int64(-1)
		if kind == kReplyForeignFunction {
			cls, rf = model.CmdClassifierTypeReply, ref
		}
		return encode(header(rSrv, lCli, ctr, rf, cls, false),
			model.CmdType{MeasurementListData: &model.MeasurementListDataType{MeasurementData: []model.MeasurementDataType{
				{MeasurementId: util.Ptr(model.MeasurementIdType(1)), Value: &model.ScaledNumberType{Number: util.Ptr(model.NumberType(r.Range(1, 99)))}}}}})
	case kDiscReplyDefectiveEntry:
		// the complete tree with one defective entity entry (no description / no address / empty address) among the valid ones
		d := fullTree(k)
		bad := model.NodeManagementDetailedDiscoveryEntityInformationType{}
		switch r.Intn(3) {
		case 1:
			bad.Description = &model.NetworkManagementEntityDescriptionDataType{EntityType: util.Ptr(model.EntityTypeTypeEV)}
		case 2:
			bad.Description = &model.NetworkManagementEntityDescriptionDataType{EntityType: util.Ptr(model.EntityTypeTypeEV),
				EntityAddress: &model.EntityAddressType{Device: dev(k)}}
		}
		pos := r.Intn(len(d.EntityInformation) + 1)
		ei := append([]model.NodeManagementDetailedDiscoveryEntityInformationType{}, d.EntityInformation[:pos]...)
		ei = append(ei, bad)
		d.EntityInformation = append(ei, d.EntityInformation[pos:]...)
		return encode(header(rNM, lNM, ctr, 1, model.CmdClassifierTypeReply, false), model.CmdType{NodeManagementDetailedDiscoveryData: d})
	case kNotifyFailedForeignSelector:
		// a partial notify that cannot be applied (selector, no item) whose filter carries the selector of another
		// function: answered with an error result and followed by a re-read of the function
		return encode(header(rSrv, lCli, ctr, -1, model.CmdClassifierTypeNotify, ack),
			model.CmdType{Function: fnLimits, Filter: []model.FilterType{foreignSel(ctrlPartial(), r.Bool())}, LoadControlLimitConstraintsListData: &model.LoadControlLimitConstraintsListDataType{}})
	case kNotifyLimitsForeignSelector:
		return encode(header(rSrv, lCli, ctr, -1, model.CmdClassifierTypeNotify, ack),
			model.CmdType{Function: fnLimits, Filter: []model.FilterType{foreignSel(ctrlPartial(), r.Bool())}, LoadControlLimitConstraintsListData: limits(r)})
	case kReplyLimitsPartialForeign:
		f := foreignSel(ctrlPartial(), false)
		if r.Bool() {
			f = foreignSel(ctrlDelete(), true)
		}
		return encode(header(rSrv, lCli, ctr, ref, model.CmdClassifierTypeReply, false),
			model.CmdType{Function: fnLimits, Filter: []model.FilterType{f}, LoadControlLimitConstraintsListData: limits(r)})
	case kWriteLimitsForeignSelector:
		return encode(header(rCli, lSrv, ctr, -1, model.CmdClassifierTypeWrite, ack),
			model.CmdType{Function: fnLimits, Filter: []model.FilterType{foreignSel(ctrlPartial(), r.Bool())}, LoadControlLimitConstraintsListData: limits(r)})
	case kWriteLimitsDeleteForeign:
		f := foreignSel(ctrlDelete(), false)
		if r.Bool() {
			f.MeasurementListDataSelectors = nil
			f.MeasurementDataElements = &model.MeasurementDataElementsType{Value: &model.ElementTagType{}}
		}
		return encode(header(rCli, lSrv, ctr, -1, model.CmdClassifierTypeWrite, ack),
			model.CmdType{Function: fnLimits, Filter: []model.FilterType{f, {CmdControl: ctrlPartial()}}, LoadControlLimitConstraintsListData: limits(r)})
	case kReadLimitsSelector:
		f := selFilter(ctrlPartial(), uint(r.Range(1, 3)))
		if r.Bool() {
			f = foreignSel(ctrlPartial(), false)
		}
		return encode(header(rCli, lSrv, ctr, -1, model.CmdClassifierTypeRead, false),
			model.CmdType{Function: fnLimits, Filter: []model.FilterType{f}, LoadControlLimitConstraintsListData: &model.LoadControlLimitConstraintsListDataType{}})
	case kReadManufacturer:
		return encode(header(rNM, faddr(0, nm0, 1), ctr, -1, model.CmdClassifierTypeRead, false),
			model.CmdType{DeviceClassificationManufacturerData: &model.DeviceClassificationManufacturerDataType{}})
	}
	panic("unknown kind")
}

// discoveryRead is THE probe: a valid detailed-discovery read from peer k.
func discoveryRead(k int, ctr uint64) []byte {
	return encode(header(faddr(k, nm0, 0), faddr(0, nm0, 0), ctr, -1, model.CmdClassifierTypeRead, false),
		model.CmdType{NodeManagementDetailedDiscoveryData: &model.NodeManagementDetailedDiscoveryDataType{}})
}
