// C14 runner: response and result callbacks of the real stack (FeatureLocal.AddResponseCallback,
// processResponseMsgCallbacks, AddResultCallback, processResultCallbacks, processResult,
// processReply, NodeManagement.HandleMessage) against coq/Model/Dispatch.v, judged by the
// extracted monitor coq/Spec/CallbackSpec.v.
//
// Callbacks are eight functions with distinct code (AddResponseCallback compares code
// pointers); each logs (callback id, local feature, reference, remote feature, data token);
// they run in goroutines, so after every inbound datagram the runner waits until the
// invocation counter is stable, and invocations are compared as sorted lists.
package main

import (
	"verifharness/dispatch"
	"verifharness/hx"
)

type impl struct{ w *dispatch.World }

func (m *impl) Exec(op hx.Zs) []hx.Zs { return m.w.Exec(op) }
func (m *impl) Close()                { m.w.Close() }

func main() {
	hx.Main(hx.Config{
		Property: "C14",
		Clauses: map[int64]string{1: "invocations-not-exactly-the-prescribed-ones", 2: "registration-outcome", 3: "invocation-without-message",
			98: "unparseable-observation", 99: "unparseable-operation"},
		OpNames: map[int64]string{1: "add-entity", 2: "add-feature", 3: "add-function", 4: "set-data", 5: "get-data", 6: "connect",
			7: "disconnect", 8: "inbound-datagram", 9: "add-response-callback", 10: "add-result-callback", 11: "factory-query", 12: "overlapping-arrivals", 13: "back-to-back-arrivals", 14: "remove-entity", 15: "overlapping-registrations"},
		NewImpl: func() hx.Impl { return &impl{w: dispatch.New()} },
		Gen: func(r *hx.Rng, tier string, i int) []hx.Zs {
			switch i % 4 {
			case 3:
				if i%16 == 7 {
					return dispatch.ManyPendingHistory(r, tier)
				}
				return dispatch.Random(r, tier, 25)
			case 1:
				if i%8 == 1 {
					return dispatch.SeqHistory(r, tier)
				}
				return dispatch.ParHistory(r, tier)
			}
			return dispatch.CallbackHistory(r, tier)
		},
		Count: map[string]int{"quick": 500, "thorough": 15000},
		Canon: dispatch.Canon,
		Extra: func() map[string]any {
			return map[string]any{"implementation_side_distribution": dispatch.Stats()}
		},
	})
}
