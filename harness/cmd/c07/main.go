// C07 runner: the local device tree of a real spine.DeviceLocal and its announcement
// (detailed-discovery read replies, entity added/removed notifications, FeatureByAddress,
// NextFeatureId, GetOrAddFeature under forced schedules) against coq/Model/LocalTree.v.
//
// Three peers (p = 0,1,2) are connected with SetupRemoteDevice and made known by a
// detailed-discovery reply announcing entity [0] with node management (client feature
// c = 0) and entity [1] with two Generic client features (c = 1, 2); they subscribe to
// the local node management through real subscription calls.
//
// op encoding (parse_op in LocalTree.v):
//
//	0 e ty                          NewEntityLocal for address id e (entity type ty) unless the object exists
//	1 e | 2 e                       DeviceLocal.AddEntity (unless a member) | RemoveEntity
//	3 e ty role desc (fn r w ps)*   NewFeatureLocal(NextFeatureId) + description + AddFunctionType* + AddFeature
//	4 e fid fn r w ps               AddFunctionType on feature fid
//	5 e                             NextFeatureId
//	6 e ty role                     GetOrAddFeature
//	7 t e ty role | 8 t             goroutine t: GetOrAddFeature up to the hook GetOrAddFeature.miss | the rest
//	9 p c | 10 p c                  peer p (un)subscribes its client feature c
//	11 p                            peer p reads nodeManagementDetailedDiscoveryData
//	12 t p | 13 t                   goroutine t handles a read of peer p up to the hook DiscoveryRead.entities
//	                                (the entity list is taken) | the rest (the reply is built and sent)
//
//	14 e (kind ty role)*            burst: one goroutine per call, released together on entity object e, real parallelism,
//	                                no hooks; kind 0 NextFeatureId, 1 NewFeatureLocal(NextFeatureId) + AddFeature,
//	                                2 GetOrAddFeature; the (type, role)s pairwise different, else 21 (BadBurst)
//
//	15 add e q kind p               AddEntity (add = 1) / RemoveEntity e in a goroutine whose first notification write to peer q
//	                                is held inside the connection writer; meanwhile kind 0: peer p reads the discovery data,
//	                                kind 1: peer p disconnects and reconnects; then the write is released. Observation:
//	                                22 n, the n observations of the entity operation, [23 if the overlapped operation
//	                                returned only after the release,] the observations of the overlapped operation
//	16 p                            peer p disconnects (RemoveRemoteDeviceConnection) and is set up again
//	17 e fid d                      SetDescriptionString(custom text d >= 1) on the existing feature fid of entity object e
//
// Burst observations are canonical: the ids taken from the generator are sorted and paired with the
// calls that take one in the order given (which goroutine obtained which id is the schedule's
// business). From then on the runner names the features of that entity by the model's ids -- a
// bijection on the ids of the burst, applied to every later observation and to the feature id of
// op 4 -- and lists the features of that entity in a reply by id. If the ids of a burst are not
// pairwise different no renaming is installed.
//
// A panic of the read handler is recovered in its goroutine and reported as observation 20
// (ReadPanicked); 19 = parked at the hook.
// ps (the function data supports partial writes) is a fact about the data model, computed
// from spine.CreateFunctionData; an op whose ps disagrees with it is rejected (97).
// obs encoding: see print_obs in LocalTree.v.
package main

import (
	"encoding/json"
	"fmt"
	"reflect"
	"runtime"
	"sort"
	"strconv"
	"strings"
	"sync"
	"sync/atomic"
	"time"

	"github.com/enbility/spine-go/api"
	"github.com/enbility/spine-go/model"
	"github.com/enbility/spine-go/spine"
	"github.com/enbility/spine-go/util"

	"verifharness/hx"
)

// ---------------------------------------------------------------- id tables

var entityTypes = []model.EntityTypeType{"", model.EntityTypeTypeDeviceInformation, model.EntityTypeTypeCEM, model.EntityTypeTypeEVSE,
	model.EntityTypeTypeEV, model.EntityTypeTypeHeatPumpAppliance, model.EntityTypeTypeInverter}

var featureTypes = []model.FeatureTypeType{"", model.FeatureTypeTypeNodeManagement, model.FeatureTypeTypeDeviceClassification,
	model.FeatureTypeTypeDeviceDiagnosis, model.FeatureTypeTypeMeasurement, model.FeatureTypeTypeLoadControl,
	model.FeatureTypeTypeElectricalConnection, model.FeatureTypeTypeGeneric}

var roles = []model.RoleType{"", model.RoleTypeClient, model.RoleTypeServer, model.RoleTypeSpecial}

var functions = []model.FunctionType{"",
	model.FunctionTypeNodeManagementDetailedDiscoveryData, model.FunctionTypeNodeManagementUseCaseData,
	model.FunctionTypeNodeManagementSubscriptionData, model.FunctionTypeNodeManagementSubscriptionRequestCall,
	model.FunctionTypeNodeManagementSubscriptionDeleteCall, model.FunctionTypeNodeManagementBindingData,
	model.FunctionTypeNodeManagementBindingRequestCall, model.FunctionTypeNodeManagementBindingDeleteCall,
	model.FunctionTypeNodeManagementDestinationListData,
	model.FunctionTypeDeviceClassificationManufacturerData,                                  // 10
	model.FunctionTypeMeasurementListData, model.FunctionTypeMeasurementDescriptionListData, // 11 12
	model.FunctionTypeLoadControlLimitListData, model.FunctionTypeLoadControlLimitDescriptionListData, // 13 14
	model.FunctionTypeElectricalConnectionDescriptionListData, model.FunctionTypeDeviceDiagnosisStateData, // 15 16
	model.FunctionTypeDeviceClassificationUserData, // 17
}

const (
	nPeers   = 3
	nClient  = 3
	maxEnt   = 4
	localDev = "local"
)

func idOf[T comparable](tab []T, v *T) int64 {
	if v == nil {
		return 998
	}
	for i := 1; i < len(tab); i++ {
		if tab[i] == *v {
			return int64(i)
		}
	}
	return 999
}

func entAddr(e int64) []model.AddressEntityType {
	if e == 3 {
		return []model.AddressEntityType{1, 1}
	}
	return []model.AddressEntityType{model.AddressEntityType(e)}
}

func entID(a []model.AddressEntityType) int64 {
	if len(a) == 2 && a[0] == 1 && a[1] == 1 {
		return 3
	}
	if len(a) == 1 && a[0] != 3 {
		return int64(a[0])
	}
	return 999
}

// psup: does the function data of this function on this feature type support partial writes
var psupCache = map[[2]int64]bool{}

func psup(ty, fn int64) bool {
	if ty < 1 || int(ty) >= len(featureTypes) || fn < 1 || int(fn) >= len(functions) {
		return false
	}
	k := [2]int64{ty, fn}
	if v, ok := psupCache[k]; ok {
		return v
	}
	res := false
	for _, fd := range spine.CreateFunctionData[api.FunctionDataCmdInterface](featureTypes[ty]) {
		if fd.FunctionType() == functions[fn] {
			res = fd.SupportsPartialWrite()
		}
	}
	psupCache[k] = res
	return res
}

func descOf(k int64) string { return fmt.Sprintf("d%d", k) }

func descID(d *model.DescriptionType, ty model.FeatureTypeType, role model.RoleType) int64 {
	if d == nil {
		return 0
	}
	auto := string(ty)
	switch role {
	case model.RoleTypeClient:
		auto += " Client"
	case model.RoleTypeServer:
		auto += " Server"
	}
	if string(*d) == auto {
		return 1
	}
	var k int64
	if _, err := fmt.Sscanf(string(*d), "d%d", &k); err == nil && descOf(k) == string(*d) {
		return 1 + k
	}
	return 999
}

// ---------------------------------------------------------------- connection recorder

type writer struct {
	mu   sync.Mutex
	msgs [][]byte
}

func (w *writer) WriteShipMessageWithPayload(msg []byte) {
	w.mu.Lock()
	defer w.mu.Unlock()
	w.msgs = append(w.msgs, append([]byte(nil), msg...))
}

func (w *writer) take() [][]byte {
	w.mu.Lock()
	defer w.mu.Unlock()
	m := w.msgs
	w.msgs = nil
	return m
}

// conn is one connection of a peer: what the stack writes to it goes to the peer's log, except during
// the set-up exchange of the connection (kept aside), and one write can be held back (During).
type conn struct {
	log      *writer
	mu       sync.Mutex
	setup    bool
	setupMsg [][]byte
	armed    bool
	parked   chan struct{}
	release  chan struct{}
}

func (c *conn) WriteShipMessageWithPayload(msg []byte) {
	c.mu.Lock()
	if c.setup {
		c.setupMsg = append(c.setupMsg, append([]byte(nil), msg...))
		c.mu.Unlock()
		return
	}
	hold := c.armed
	c.armed = false
	c.mu.Unlock()
	if hold {
		// the write is stalled inside the transport: nothing of the stack's own is locked by us
		close(c.parked)
		<-c.release
	}
	c.log.WriteShipMessageWithPayload(msg)
}

// arm: the next write to this connection is held until the returned release channel is closed
func (c *conn) arm() (parked, release chan struct{}) {
	c.mu.Lock()
	defer c.mu.Unlock()
	c.armed = true
	c.parked, c.release = make(chan struct{}), make(chan struct{})
	return c.parked, c.release
}

func (c *conn) disarm() {
	c.mu.Lock()
	c.armed = false
	c.mu.Unlock()
}

// ---------------------------------------------------------------- forced scheduling

type worker struct {
	tid    int64
	e      int64
	ent    *spine.EntityLocal
	parked chan struct{}
	resume chan struct{}
	done   chan struct{}
	ret    api.FeatureLocalInterface
	state  int // 2 parked at the hook, 3 done
}

// reader: an inbound detailed-discovery read handled in its own goroutine
type reader struct {
	tid      int64
	peer     int
	ref      uint64
	parked   chan struct{}
	resume   chan struct{}
	done     chan struct{}
	panicked any
	state    int // 2 parked at the hook, 3 done
}

type sched struct {
	mu       sync.Mutex
	byGoid   map[int64]*worker
	readGoid map[int64]*reader
	draining bool
}

func goid() int64 {
	var buf [64]byte
	n := runtime.Stack(buf[:], false)
	f := strings.Fields(string(buf[:n]))
	if len(f) < 2 {
		return -1
	}
	id, _ := strconv.ParseInt(f[1], 10, 64)
	return id
}

func (s *sched) yield(point string) {
	switch point {
	case "GetOrAddFeature.miss":
		s.mu.Lock()
		w := s.byGoid[goid()]
		drain := s.draining
		s.mu.Unlock()
		if w == nil || drain {
			return
		}
		w.parked <- struct{}{}
		<-w.resume
	case "DiscoveryRead.entities":
		// only reads started by op 12 park; the uninterrupted read (op 11) runs in the main goroutine
		s.mu.Lock()
		rd := s.readGoid[goid()]
		drain := s.draining
		s.mu.Unlock()
		if rd == nil || drain {
			return
		}
		rd.parked <- struct{}{}
		<-rd.resume
	}
}

// ---------------------------------------------------------------- implementation

type peer struct {
	dev string
	ski string
	w   *writer
	c   *conn
	rd  api.DeviceRemoteInterface
	ctr uint64
}

type impl struct {
	dev     *spine.DeviceLocal
	objs    map[int64]*spine.EntityLocal
	member  map[int64]bool
	peers   []*peer
	sc      *sched
	threads map[int64]*worker
	readers map[int64]*reader
	// after bursts: implementation feature id -> model feature id per entity, and back
	ren, inv map[int64]map[int64]int64
	bursted  map[int64]bool
	// the last collect: notification blocks and the reply block separately
	lastNotifs, lastReply []hx.Zs
	// a write held by During that has not been released (only when the operation was abandoned)
	held chan struct{}
}

func (m *impl) toModel(e, id int64) int64 {
	if x, ok := m.ren[e][id]; ok {
		return x
	}
	return id
}

func (m *impl) toImpl(e, id int64) int64 {
	if x, ok := m.inv[e][id]; ok {
		return x
	}
	return id
}

func featAddr(dev string, entity []model.AddressEntityType, f uint) *model.FeatureAddressType {
	return &model.FeatureAddressType{Device: util.Ptr(model.AddressDeviceType(dev)), Entity: entity, Feature: util.Ptr(model.AddressFeatureType(f))}
}

func nmAddr(dev string) *model.FeatureAddressType {
	return featAddr(dev, []model.AddressEntityType{0}, 0)
}

// address of client feature c of a peer
func clientAddr(dev string, c int64) *model.FeatureAddressType {
	if c == 0 {
		return nmAddr(dev)
	}
	return featAddr(dev, []model.AddressEntityType{1}, uint(c))
}

func (p *peer) send(classifier model.CmdClassifierType, ref *model.MsgCounterType, ack bool, cmd model.CmdType) uint64 {
	b := p.datagram(classifier, ref, ack, cmd)
	_, _ = p.rd.HandleSpineMesssage(b)
	return p.ctr
}

// datagram builds the next message of the peer (its counter is p.ctr afterwards)
func (p *peer) datagram(classifier model.CmdClassifierType, ref *model.MsgCounterType, ack bool, cmd model.CmdType) []byte {
	p.ctr++
	h := model.HeaderType{
		SpecificationVersion: util.Ptr(model.SpecificationVersionType("1.3.0")),
		AddressSource:        nmAddr(p.dev),
		AddressDestination:   nmAddr(localDev),
		MsgCounter:           util.Ptr(model.MsgCounterType(p.ctr)),
		MsgCounterReference:  ref,
		CmdClassifier:        util.Ptr(classifier),
	}
	if ack {
		h.AckRequest = util.Ptr(true)
	}
	b, err := json.Marshal(model.Datagram{Datagram: model.DatagramType{Header: h, Payload: model.PayloadType{Cmd: []model.CmdType{cmd}}}})
	if err != nil {
		panic(err)
	}
	return b
}

func newImpl() hx.Impl {
	m := &impl{objs: map[int64]*spine.EntityLocal{}, member: map[int64]bool{0: true}, threads: map[int64]*worker{},
		ren: map[int64]map[int64]int64{}, inv: map[int64]map[int64]int64{}, bursted: map[int64]bool{},
		readers: map[int64]*reader{}, sc: &sched{byGoid: map[int64]*worker{}, readGoid: map[int64]*reader{}}}
	m.dev = spine.NewDeviceLocal("brand", "model", "serial", "code", localDev, model.DeviceTypeTypeEnergyManagementSystem, model.NetworkManagementFeatureSetTypeSmart)
	if e0, ok := m.dev.Entity([]model.AddressEntityType{0}).(*spine.EntityLocal); ok {
		m.objs[0] = e0
	}
	for i := 0; i < nPeers; i++ {
		p := &peer{dev: fmt.Sprintf("peer%d", i), ski: fmt.Sprintf("ski-peer%d", i), w: &writer{}}
		m.connect(p)
		m.peers = append(m.peers, p)
	}
	spine.VerifSetYieldLT(m.sc.yield)
	return m
}

// connect sets up a connection of the peer and makes the peer known by its detailed-discovery reply;
// what the stack writes during this exchange (its own discovery read, its subscription to the peer's
// node management, ...) is kept aside.
func (m *impl) connect(p *peer) {
	{
		c := &conn{log: p.w, setup: true}
		p.c = c
		p.rd = m.dev.SetupRemoteDevice(p.ski, c).(api.DeviceRemoteInterface)
		var ref *model.MsgCounterType
		c.mu.Lock()
		for _, b := range c.setupMsg {
			var d model.Datagram
			if json.Unmarshal(b, &d) == nil && d.Datagram.Header.MsgCounter != nil {
				ref = d.Datagram.Header.MsgCounter
			}
		}
		c.mu.Unlock()
		devAddr := util.Ptr(model.AddressDeviceType(p.dev))
		entInfo := func(a []model.AddressEntityType, t model.EntityTypeType) model.NodeManagementDetailedDiscoveryEntityInformationType {
			return model.NodeManagementDetailedDiscoveryEntityInformationType{Description: &model.NetworkManagementEntityDescriptionDataType{
				EntityAddress: &model.EntityAddressType{Device: devAddr, Entity: a}, EntityType: util.Ptr(t)}}
		}
		featInfo := func(a *model.FeatureAddressType, t model.FeatureTypeType, r model.RoleType) model.NodeManagementDetailedDiscoveryFeatureInformationType {
			return model.NodeManagementDetailedDiscoveryFeatureInformationType{Description: &model.NetworkManagementFeatureDescriptionDataType{
				FeatureAddress: a, FeatureType: util.Ptr(t), Role: util.Ptr(r)}}
		}
		p.send(model.CmdClassifierTypeReply, ref, false, model.CmdType{NodeManagementDetailedDiscoveryData: &model.NodeManagementDetailedDiscoveryDataType{
			SpecificationVersionList: &model.NodeManagementSpecificationVersionListType{SpecificationVersion: []model.SpecificationVersionDataType{"1.3.0"}},
			DeviceInformation: &model.NodeManagementDetailedDiscoveryDeviceInformationType{Description: &model.NetworkManagementDeviceDescriptionDataType{
				DeviceAddress: &model.DeviceAddressType{Device: devAddr}, DeviceType: util.Ptr(model.DeviceTypeTypeChargingStation)}},
			EntityInformation: []model.NodeManagementDetailedDiscoveryEntityInformationType{
				entInfo([]model.AddressEntityType{0}, model.EntityTypeTypeDeviceInformation),
				entInfo([]model.AddressEntityType{1}, model.EntityTypeTypeCEM)},
			FeatureInformation: []model.NodeManagementDetailedDiscoveryFeatureInformationType{
				featInfo(clientAddr(p.dev, 0), model.FeatureTypeTypeNodeManagement, model.RoleTypeSpecial),
				featInfo(clientAddr(p.dev, 1), model.FeatureTypeTypeGeneric, model.RoleTypeClient),
				featInfo(clientAddr(p.dev, 2), model.FeatureTypeTypeGeneric, model.RoleTypeClient)},
		}})
		c.mu.Lock()
		c.setup = false
		c.setupMsg = nil
		c.mu.Unlock()
	}
}

// reconnect: the peer's connection closes, a new one is set up
func (m *impl) reconnect(p *peer) {
	m.dev.RemoveRemoteDeviceConnection(p.ski)
	m.connect(p)
}

func (m *impl) Close() {
	m.sc.mu.Lock()
	m.sc.draining = true
	m.sc.mu.Unlock()
	if m.held != nil {
		close(m.held)
		m.held = nil
	}
	for _, w := range m.threads {
		if w.state == 2 {
			w.resume <- struct{}{}
			select {
			case <-w.done:
			case <-time.After(5 * time.Second):
				fmt.Println("c07: goroutine did not finish")
			}
		}
	}
	for _, rd := range m.readers {
		if rd.state == 2 {
			rd.resume <- struct{}{}
			select {
			case <-rd.done:
			case <-time.After(5 * time.Second):
				fmt.Println("c07: read goroutine did not finish")
			}
		}
	}
	spine.VerifSetYieldLT(nil)
	for _, p := range m.peers {
		m.dev.RemoveRemoteDevice(p.ski)
	}
}

// readReply classifies what a finished read of peer p (request counter ref) wrote
func (m *impl) readReply(p int, ref uint64) []hx.Zs {
	blocks, results, other := m.collect(p, ref)
	for pi := range results {
		other = append(other, hx.Zs{16, int64(pi)})
	}
	return append(blocks, other...)
}

func b2i(b bool) int64 {
	if b {
		return 1
	}
	return 0
}

// renderData turns the entity and feature information of a discovery datagram into REnt / RFeat / RFn / REnd.
func (m *impl) renderData(d *model.NodeManagementDetailedDiscoveryDataType) []hx.Zs {
	var out []hx.Zs
	if d == nil {
		return []hx.Zs{{93}}
	}
	for _, ei := range d.EntityInformation {
		if ei.Description == nil || ei.Description.EntityAddress == nil {
			out = append(out, hx.Zs{93})
			continue
		}
		e := entID(ei.Description.EntityAddress.Entity)
		if ei.Description.EntityAddress.Device == nil || string(*ei.Description.EntityAddress.Device) != localDev {
			e = 997
		}
		var lsc int64
		if ei.Description.LastStateChange != nil {
			switch *ei.Description.LastStateChange {
			case model.NetworkManagementStateChangeTypeAdded:
				lsc = 1
			case model.NetworkManagementStateChangeTypeRemoved:
				lsc = 2
			default:
				lsc = 9
			}
		}
		out = append(out, hx.Zs{12, e, idOf(entityTypes, ei.Description.EntityType), lsc})
	}
	type fblock struct {
		e, id int64
		lines []hx.Zs
	}
	var blocks []fblock
	for _, fi := range d.FeatureInformation {
		fd := fi.Description
		if fd == nil || fd.FeatureAddress == nil || fd.FeatureAddress.Feature == nil || fd.FeatureType == nil || fd.Role == nil {
			blocks = append(blocks, fblock{-1, 0, []hx.Zs{{93}}})
			continue
		}
		e := entID(fd.FeatureAddress.Entity)
		if fd.FeatureAddress.Device == nil || string(*fd.FeatureAddress.Device) != localDev {
			e = 997
		}
		var rid, rty, rrole int64
		if rf := m.dev.FeatureByAddress(fd.FeatureAddress); rf != nil && !reflect.ValueOf(rf).IsNil() {
			ra := rf.Address()
			rid = 998
			if ra != nil && ra.Feature != nil && ra.Device != nil && fd.FeatureAddress.Device != nil && *ra.Device == *fd.FeatureAddress.Device &&
				reflect.DeepEqual(ra.Entity, fd.FeatureAddress.Entity) {
				rid = m.toModel(e, int64(*ra.Feature))
			}
			t, r := rf.Type(), rf.Role()
			rty, rrole = idOf(featureTypes, &t), idOf(roles, &r)
		}
		fid := m.toModel(e, int64(*fd.FeatureAddress.Feature))
		blk := fblock{e, fid, []hx.Zs{{13, e, fid, idOf(featureTypes, fd.FeatureType), idOf(roles, fd.Role),
			descID(fd.Description, *fd.FeatureType, *fd.Role), rid, rty, rrole}}}
		var fns []hx.Zs
		for _, sf := range fd.SupportedFunction {
			z := hx.Zs{14, idOf(functions, sf.Function), 0, 0, 0, 0}
			if po := sf.PossibleOperations; po != nil {
				if po.Read != nil {
					z[2] = 1
					z[3] = b2i(po.Read.Partial != nil)
				}
				if po.Write != nil {
					z[4] = 1
					z[5] = b2i(po.Write.Partial != nil)
				}
			}
			fns = append(fns, z)
		}
		sort.SliceStable(fns, func(i, j int) bool { return fns[i][1] < fns[j][1] })
		blk.lines = append(blk.lines, fns...)
		blocks = append(blocks, blk)
	}
	// the features of an entity that went through a burst are listed by (model) id: their order in
	// the entity's list is the order in which the goroutines appended
	for i := 0; i < len(blocks); {
		j := i
		for j < len(blocks) && blocks[j].e == blocks[i].e {
			j++
		}
		if m.bursted[blocks[i].e] {
			run := blocks[i:j]
			sort.SliceStable(run, func(a, b int) bool { return run[a].id < run[b].id })
		}
		i = j
	}
	for _, b := range blocks {
		out = append(out, b.lines...)
	}
	return append(out, hx.Zs{15})
}

func (m *impl) commonOK(d *model.NodeManagementDetailedDiscoveryDataType) bool {
	if d == nil || d.DeviceInformation == nil || d.DeviceInformation.Description == nil {
		return false
	}
	dd := d.DeviceInformation.Description
	return dd.DeviceAddress != nil && dd.DeviceAddress.Device != nil && string(*dd.DeviceAddress.Device) == localDev &&
		dd.DeviceType != nil && *dd.DeviceType == model.DeviceTypeTypeEnergyManagementSystem &&
		dd.NetworkFeatureSet != nil && *dd.NetworkFeatureSet == model.NetworkManagementFeatureSetTypeSmart &&
		d.SpecificationVersionList != nil && len(d.SpecificationVersionList.SpecificationVersion) == 1 &&
		string(d.SpecificationVersionList.SpecificationVersion[0]) == string(spine.SpecificationVersion)
}

// collect classifies everything written to the peers since the last call. Notification blocks are
// ordered by (peer, client feature); replyTo/replyRef select the one datagram accepted as the read reply.
func (m *impl) collect(replyTo int, replyRef uint64) (blocks []hx.Zs, results map[int]int64, other []hx.Zs) {
	results = map[int]int64{}
	m.lastNotifs, m.lastReply = nil, nil
	for pi, p := range m.peers {
		type blk struct {
			c int64
			z []hx.Zs
		}
		var nb []blk
		for _, b := range p.w.take() {
			var d model.Datagram
			if err := json.Unmarshal(b, &d); err != nil || d.Datagram.Header.CmdClassifier == nil || len(d.Datagram.Payload.Cmd) != 1 {
				other = append(other, hx.Zs{16, int64(pi)})
				continue
			}
			h := d.Datagram.Header
			cmd := d.Datagram.Payload.Cmd[0]
			srcOK := h.AddressSource != nil && reflect.DeepEqual(h.AddressSource, nmAddr(localDev))
			switch {
			case *h.CmdClassifier == model.CmdClassifierTypeNotify && cmd.NodeManagementDetailedDiscoveryData != nil:
				var c int64 = 99
				for k := int64(0); k < nClient; k++ {
					if reflect.DeepEqual(h.AddressDestination, clientAddr(p.dev, k)) {
						c = k
					}
				}
				ok := srcOK && cmd.Function != nil && *cmd.Function == model.FunctionTypeNodeManagementDetailedDiscoveryData &&
					len(cmd.Filter) == 1 && cmd.Filter[0].CmdControl != nil && cmd.Filter[0].CmdControl.Partial != nil &&
					cmd.Filter[0].CmdControl.Delete == nil && m.commonOK(cmd.NodeManagementDetailedDiscoveryData)
				z := append([]hx.Zs{{10, int64(pi), c, b2i(ok)}}, m.renderData(cmd.NodeManagementDetailedDiscoveryData)...)
				nb = append(nb, blk{c, z})
			case *h.CmdClassifier == model.CmdClassifierTypeReply && cmd.NodeManagementDetailedDiscoveryData != nil && pi == replyTo:
				ok := srcOK && reflect.DeepEqual(h.AddressDestination, nmAddr(p.dev)) && h.MsgCounterReference != nil &&
					uint64(*h.MsgCounterReference) == replyRef && len(cmd.Filter) == 0 && m.commonOK(cmd.NodeManagementDetailedDiscoveryData)
				rb := append([]hx.Zs{{11, int64(pi), b2i(ok)}}, m.renderData(cmd.NodeManagementDetailedDiscoveryData)...)
				blocks = append(blocks, rb...)
				m.lastReply = append(m.lastReply, rb...)
				replyTo = -1
			case *h.CmdClassifier == model.CmdClassifierTypeResult && cmd.ResultData != nil && cmd.ResultData.ErrorNumber != nil:
				if _, dup := results[pi]; dup {
					other = append(other, hx.Zs{16, int64(pi)})
				}
				results[pi] = int64(*cmd.ResultData.ErrorNumber)
			default:
				other = append(other, hx.Zs{16, int64(pi)})
			}
		}
		sort.SliceStable(nb, func(i, j int) bool { return nb[i].c < nb[j].c })
		for _, b := range nb {
			blocks = append(blocks, b.z...)
			m.lastNotifs = append(m.lastNotifs, b.z...)
		}
	}
	return
}

// everything written during an operation that is not supposed to write anything is reported
func (m *impl) quiet(ret []hx.Zs) []hx.Zs {
	blocks, results, other := m.collect(-1, 0)
	ret = append(ret, blocks...)
	for pi := range results {
		ret = append(ret, hx.Zs{16, int64(pi)})
	}
	return append(ret, other...)
}

func (m *impl) Exec(op hx.Zs) []hx.Zs {
	bad := []hx.Zs{{97}}
	ftOf := func(ty int64) (model.FeatureTypeType, bool) {
		if ty < 1 || int(ty) >= len(featureTypes) {
			return "", false
		}
		return featureTypes[ty], true
	}
	roleOf := func(r int64) (model.RoleType, bool) {
		if r < 1 || int(r) >= len(roles) {
			return "", false
		}
		return roles[r], true
	}
	switch op[0] {
	case 0:
		if len(op) != 3 || op[1] < 1 || op[1] > maxEnt || op[2] < 1 || int(op[2]) >= len(entityTypes) {
			return bad
		}
		if m.objs[op[1]] != nil {
			return m.quiet([]hx.Zs{{1}})
		}
		m.objs[op[1]] = spine.NewEntityLocal(m.dev, entityTypes[op[2]], entAddr(op[1]), 4*time.Second)
		return m.quiet([]hx.Zs{{0}})
	case 1, 2:
		if len(op) != 2 || op[1] < 1 {
			return bad
		}
		ent := m.objs[op[1]]
		if ent == nil {
			return m.quiet([]hx.Zs{{2}})
		}
		if op[0] == 1 {
			if m.member[op[1]] {
				return m.quiet([]hx.Zs{{3}})
			}
			m.dev.AddEntity(ent)
			m.member[op[1]] = true
		} else {
			m.dev.RemoveEntity(ent)
			m.member[op[1]] = false
		}
		return m.quiet(nil)
	case 3:
		if len(op) < 5 || (len(op)-5)%4 != 0 {
			return bad
		}
		ft, ok1 := ftOf(op[2])
		role, ok2 := roleOf(op[3])
		if !ok1 || !ok2 {
			return bad
		}
		for i := 5; i < len(op); i += 4 {
			if op[i] < 1 || int(op[i]) >= len(functions) || (op[i+3] != 0) != psup(op[2], op[i]) {
				return bad
			}
		}
		ent := m.objs[op[1]]
		if ent == nil {
			return m.quiet([]hx.Zs{{2}})
		}
		f := spine.NewFeatureLocal(ent.NextFeatureId(), ent, ft, role)
		if op[4] > 0 {
			f.SetDescriptionString(descOf(op[4]))
		}
		for i := 5; i < len(op); i += 4 {
			f.AddFunctionType(functions[op[i]], op[i+1] != 0, op[i+2] != 0)
		}
		ent.AddFeature(f)
		return m.quiet([]hx.Zs{{4, int64(*f.Address().Feature)}})
	case 4:
		if len(op) != 7 || op[3] < 1 || int(op[3]) >= len(functions) {
			return bad
		}
		ent := m.objs[op[1]]
		if ent == nil {
			return m.quiet([]hx.Zs{{2}})
		}
		f := ent.FeatureOfAddress(util.Ptr(model.AddressFeatureType(m.toImpl(op[1], op[2]))))
		if f == nil || reflect.ValueOf(f).IsNil() {
			return m.quiet([]hx.Zs{{18}})
		}
		ft := f.Type()
		if (op[6] != 0) != psup(idOf(featureTypes, &ft), op[3]) {
			return bad
		}
		f.AddFunctionType(functions[op[3]], op[4] != 0, op[5] != 0)
		return m.quiet([]hx.Zs{{17}})
	case 5:
		if len(op) != 2 {
			return bad
		}
		ent := m.objs[op[1]]
		if ent == nil {
			return m.quiet([]hx.Zs{{2}})
		}
		return m.quiet([]hx.Zs{{4, int64(ent.NextFeatureId())}})
	case 6:
		if len(op) != 4 {
			return bad
		}
		ft, ok1 := ftOf(op[2])
		role, ok2 := roleOf(op[3])
		if !ok1 || !ok2 {
			return bad
		}
		ent := m.objs[op[1]]
		if ent == nil {
			return m.quiet([]hx.Zs{{2}})
		}
		before := len(ent.Features())
		f := ent.GetOrAddFeature(ft, role)
		return m.quiet([]hx.Zs{{5, m.toModel(op[1], int64(*f.Address().Feature)), b2i(len(ent.Features()) > before)}})
	case 7:
		if len(op) != 5 {
			return bad
		}
		ft, ok1 := ftOf(op[3])
		role, ok2 := roleOf(op[4])
		if !ok1 || !ok2 {
			return bad
		}
		if w := m.threads[op[1]]; w != nil && w.state == 2 {
			return m.quiet([]hx.Zs{{8}})
		}
		ent := m.objs[op[2]]
		if ent == nil {
			return m.quiet([]hx.Zs{{2}})
		}
		w := &worker{tid: op[1], e: op[2], ent: ent, parked: make(chan struct{}, 1), resume: make(chan struct{}), done: make(chan struct{})}
		m.threads[op[1]] = w
		before := len(ent.Features())
		started := make(chan struct{})
		go func() {
			m.sc.mu.Lock()
			m.sc.byGoid[goid()] = w
			m.sc.mu.Unlock()
			close(started)
			w.ret = ent.GetOrAddFeature(ft, role)
			close(w.done)
		}()
		<-started
		select {
		case <-w.parked:
			w.state = 2
			return m.quiet([]hx.Zs{{6}})
		case <-w.done:
			w.state = 3
			return m.quiet([]hx.Zs{{5, m.toModel(w.e, int64(*w.ret.Address().Feature)), b2i(len(ent.Features()) > before)}})
		case <-time.After(5 * time.Second):
			return []hx.Zs{{96}}
		}
	case 8:
		if len(op) != 2 {
			return bad
		}
		w := m.threads[op[1]]
		if w == nil || w.state != 2 {
			return m.quiet([]hx.Zs{{7}})
		}
		ent := w.ent
		before := len(ent.Features())
		w.resume <- struct{}{}
		select {
		case <-w.done:
			w.state = 3
		case <-time.After(5 * time.Second):
			return []hx.Zs{{96}}
		}
		return m.quiet([]hx.Zs{{5, m.toModel(w.e, int64(*w.ret.Address().Feature)), b2i(len(ent.Features()) > before)}})
	case 9, 10:
		if len(op) != 3 || op[1] < 0 || op[1] >= nPeers || op[2] < 0 {
			return bad
		}
		p := m.peers[op[1]]
		var cmd model.CmdType
		if op[0] == 9 {
			cmd.NodeManagementSubscriptionRequestCall = spine.NewNodeManagementSubscriptionRequestCallType(clientAddr(p.dev, op[2]), nmAddr(localDev), model.FeatureTypeTypeNodeManagement)
		} else {
			cmd.NodeManagementSubscriptionDeleteCall = spine.NewNodeManagementSubscriptionDeleteCallType(clientAddr(p.dev, op[2]), nmAddr(localDev))
		}
		p.send(model.CmdClassifierTypeCall, nil, true, cmd)
		blocks, results, other := m.collect(-1, 0)
		var ret []hx.Zs
		for pi, errno := range results {
			if pi == int(op[1]) {
				ret = append(ret, hx.Zs{9, b2i(errno == 0)})
			} else {
				other = append(other, hx.Zs{16, int64(pi)})
			}
		}
		return append(append(ret, blocks...), other...)
	case 11:
		if len(op) != 2 || op[1] < 0 || op[1] >= nPeers {
			return bad
		}
		p := m.peers[op[1]]
		ref := p.send(model.CmdClassifierTypeRead, nil, false, model.CmdType{NodeManagementDetailedDiscoveryData: &model.NodeManagementDetailedDiscoveryDataType{}})
		return m.readReply(int(op[1]), ref)
	case 12:
		if len(op) != 3 || op[1] < 0 || op[2] < 0 || op[2] >= nPeers {
			return bad
		}
		if rd := m.readers[op[1]]; rd != nil && rd.state == 2 {
			return m.quiet([]hx.Zs{{8}})
		}
		p := m.peers[op[2]]
		b := p.datagram(model.CmdClassifierTypeRead, nil, false, model.CmdType{NodeManagementDetailedDiscoveryData: &model.NodeManagementDetailedDiscoveryDataType{}})
		rd := &reader{tid: op[1], peer: int(op[2]), ref: p.ctr, parked: make(chan struct{}, 1), resume: make(chan struct{}), done: make(chan struct{})}
		m.readers[op[1]] = rd
		started := make(chan struct{})
		go func() {
			// HandleSpineMesssage runs the handler in this goroutine: a panic of the handler is recovered here
			defer close(rd.done)
			defer func() {
				if r := recover(); r != nil {
					rd.panicked = r
				}
			}()
			m.sc.mu.Lock()
			m.sc.readGoid[goid()] = rd
			m.sc.mu.Unlock()
			close(started)
			_, _ = p.rd.HandleSpineMesssage(b)
		}()
		<-started
		select {
		case <-rd.parked:
			rd.state = 2
			return m.quiet([]hx.Zs{{19}})
		case <-rd.done:
			// the handler did not reach the hook
			rd.state = 3
			if rd.panicked != nil {
				return m.quiet([]hx.Zs{{20}})
			}
			return m.readReply(rd.peer, rd.ref)
		case <-time.After(5 * time.Second):
			return []hx.Zs{{96}}
		}
	case 13:
		if len(op) != 2 {
			return bad
		}
		rd := m.readers[op[1]]
		if rd == nil || rd.state != 2 {
			return m.quiet([]hx.Zs{{7}})
		}
		rd.resume <- struct{}{}
		select {
		case <-rd.done:
			rd.state = 3
		case <-time.After(5 * time.Second):
			return []hx.Zs{{96}}
		}
		if rd.panicked != nil {
			return m.quiet([]hx.Zs{{20}})
		}
		return m.readReply(rd.peer, rd.ref)
	case 14:
		return m.burst(op)
	case 15:
		return m.during(op)
	case 16:
		if len(op) != 2 || op[1] < 0 || op[1] >= nPeers {
			return bad
		}
		m.reconnect(m.peers[op[1]])
		return m.quiet([]hx.Zs{{17}})
	case 17:
		if len(op) != 4 || op[3] < 1 {
			return bad
		}
		ent := m.objs[op[1]]
		if ent == nil {
			return m.quiet([]hx.Zs{{2}})
		}
		f := ent.FeatureOfAddress(util.Ptr(model.AddressFeatureType(m.toImpl(op[1], op[2]))))
		if f == nil || reflect.ValueOf(f).IsNil() {
			return m.quiet([]hx.Zs{{18}})
		}
		f.SetDescriptionString(descOf(op[3]))
		return m.quiet([]hx.Zs{{17}})
	}
	return bad
}

// stallWait: how long the operation overlapping a stalled notification write may take before it is
// reported as blocked behind it (it takes well under a millisecond when nothing waits for the write)
const stallWait = 3 * time.Second

// during: AddEntity / RemoveEntity with its first notification write to peer q held inside the
// connection, overlapped by a discovery read or a disconnect of peer p
func (m *impl) during(op hx.Zs) []hx.Zs {
	bad := []hx.Zs{{97}}
	if len(op) != 6 || op[1] < 0 || op[1] > 1 || op[2] < 1 || op[3] < 0 || op[3] >= nPeers || op[4] < 0 || op[4] > 1 || op[5] < 0 || op[5] >= nPeers {
		return bad
	}
	add, e, q, kind, pi := op[1] == 1, op[2], m.peers[op[3]], op[4], int(op[5])
	inner := hx.Zs{11, int64(pi)}
	if kind == 1 {
		inner = hx.Zs{16, int64(pi)}
	}
	ent := m.objs[e]
	if ent == nil || (add && m.member[e]) {
		// the entity operation does nothing: one after the other
		o1 := m.Exec(hx.Zs{2 - op[1], e})
		o2 := m.Exec(inner)
		return append(append([]hx.Zs{{22, int64(len(o1))}}, o1...), o2...)
	}
	parked, release := q.c.arm()
	entDone := make(chan struct{})
	go func() {
		defer close(entDone)
		if add {
			m.dev.AddEntity(ent)
		} else {
			m.dev.RemoveEntity(ent)
		}
	}()
	stalled := false
	select {
	case <-parked:
		stalled = true
		m.held = release
		duringStats["entity_ops_with_a_write_stalled"]++
	case <-entDone:
		// peer q gets no notification: nothing to stall
		q.c.disarm()
		duringStats["entity_ops_without_a_write_to_the_stalled_peer"]++
	}
	m.member[e] = add
	// the overlapped operation, while the write is stalled
	p := m.peers[pi]
	var ref uint64
	innerDone := make(chan struct{})
	go func() {
		defer close(innerDone)
		if kind == 0 {
			ref = p.send(model.CmdClassifierTypeRead, nil, false, model.CmdType{NodeManagementDetailedDiscoveryData: &model.NodeManagementDetailedDiscoveryDataType{}})
		} else {
			m.reconnect(p)
		}
	}()
	blocked := false
	select {
	case <-innerDone:
	case <-time.After(stallWait):
		blocked = stalled
	}
	if stalled {
		close(release)
		m.held = nil
	}
	// both must return now; if not, the harness's watchdog reports the operation as never returned
	<-innerDone
	<-entDone
	replyTo := -1
	if kind == 0 {
		replyTo = pi
	}
	_, results, other := m.collect(replyTo, ref)
	ret := append([]hx.Zs{{22, int64(len(m.lastNotifs))}}, m.lastNotifs...)
	if blocked {
		ret = append(ret, hx.Zs{23})
		duringStats["overlapped_ops_blocked_behind_the_write"]++
	}
	if kind == 0 {
		ret = append(ret, m.lastReply...)
	} else {
		ret = append(ret, hx.Zs{17})
	}
	for x := range results {
		other = append(other, hx.Zs{16, int64(x)})
	}
	return append(ret, other...)
}

var duringStats = map[string]int{}

// burst: overlapping calls on one entity object, one goroutine each, released together
func (m *impl) burst(op hx.Zs) []hx.Zs {
	bad := []hx.Zs{{97}}
	if len(op) < 2 || (len(op)-2)%3 != 0 {
		return bad
	}
	e := op[1]
	n := (len(op) - 2) / 3
	type call struct {
		kind int64
		ft   model.FeatureTypeType
		role model.RoleType
	}
	calls := make([]call, n)
	seen := map[[2]int64]bool{}
	wf := true
	for j := 0; j < n; j++ {
		k, ty, role := op[2+3*j], op[3+3*j], op[4+3*j]
		if k < 0 || k > 2 {
			return bad
		}
		calls[j].kind = k
		if k == 0 {
			continue
		}
		if ty < 1 || int(ty) >= len(featureTypes) || role < 1 || int(role) >= len(roles) {
			return bad
		}
		calls[j].ft, calls[j].role = featureTypes[ty], roles[role]
		if seen[[2]int64{ty, role}] {
			wf = false
		}
		seen[[2]int64{ty, role}] = true
	}
	if !wf {
		return m.quiet([]hx.Zs{{21}})
	}
	ent := m.objs[e]
	if ent == nil {
		return m.quiet([]hx.Zs{{2}})
	}
	// a GetOrAddFeature takes an id iff its feature does not exist before the burst (the (type, role)s of a burst differ)
	had := make([]bool, n)
	for j, c := range calls {
		if c.kind == 2 {
			f := ent.FeatureOfTypeAndRole(c.ft, c.role)
			had[j] = f != nil && !reflect.ValueOf(f).IsNil()
		}
	}
	ids := make([]int64, n)
	var ready, goFlag atomic.Int32
	var wg sync.WaitGroup
	for j := range calls {
		wg.Add(1)
		go func(j int) {
			defer wg.Done()
			c := calls[j]
			// spin barrier: all goroutines leave it within nanoseconds of each other
			ready.Add(1)
			for spins := 0; goFlag.Load() == 0; spins++ {
				if spins%4096 == 4095 {
					runtime.Gosched() // fewer processors than goroutines
				}
			}
			switch c.kind {
			case 0:
				ids[j] = int64(ent.NextFeatureId())
			case 1:
				f := spine.NewFeatureLocal(ent.NextFeatureId(), ent, c.ft, c.role)
				ent.AddFeature(f)
				ids[j] = int64(*f.Address().Feature)
			default:
				f := ent.GetOrAddFeature(c.ft, c.role)
				ids[j] = int64(*f.Address().Feature)
			}
		}(j)
	}
	for int(ready.Load()) < n {
		runtime.Gosched()
	}
	goFlag.Store(1)
	wg.Wait()
	burstStats["bursts"]++
	burstStats["burst_calls"] += n
	// canonical observation
	var taken []int64
	for j, c := range calls {
		if c.kind != 2 || !had[j] {
			taken = append(taken, ids[j])
		}
	}
	sorted := append([]int64(nil), taken...)
	sort.Slice(sorted, func(a, b int) bool { return sorted[a] < sorted[b] })
	distinct := true
	inOrder := true
	for i := range sorted {
		if i > 0 && sorted[i] == sorted[i-1] {
			distinct = false
		}
		if sorted[i] != taken[i] {
			inOrder = false
		}
	}
	if !inOrder {
		burstStats["bursts_ids_not_in_call_order"]++
	}
	m.bursted[e] = true
	if distinct {
		if m.ren[e] == nil {
			m.ren[e], m.inv[e] = map[int64]int64{}, map[int64]int64{}
		}
		for i, x := range taken {
			m.ren[e][x] = sorted[i]
			m.inv[e][sorted[i]] = x
		}
	} else {
		burstStats["bursts_with_duplicate_ids"]++
	}
	var ret []hx.Zs
	k := 0
	for j, c := range calls {
		switch {
		case c.kind == 2 && had[j]:
			ret = append(ret, hx.Zs{5, m.toModel(e, ids[j]), 0})
		case c.kind == 2:
			ret = append(ret, hx.Zs{5, sorted[k], 1})
			k++
		default:
			ret = append(ret, hx.Zs{4, sorted[k]})
			k++
		}
	}
	return m.quiet(ret)
}

// measured over the run (reported in the evidence)
var burstStats = map[string]int{}

// ---------------------------------------------------------------- generator

// sim predicts ids and the tree so that the generator can aim at existing features and parked threads
type simFeat struct {
	id, ty, role int64
	at           int // the feature exists after this many operations of the history
}
type simEnt struct {
	ctr    int64
	feats  []simFeat
	member bool
}
type sim struct {
	r     *hx.Rng
	ents  map[int64]*simEnt
	list  []int64 // the member list in order
	thr   map[int64][3]int64
	reads map[int64][]int64 // pending reads: thread -> the member list at its begin
	subs  map[[2]int64]bool // predicted subscription entries (peer, client feature)
	h     []hx.Zs
}

// subscribedPeers in ascending order
func (s *sim) subscribedPeers() []int64 {
	seen := map[int64]bool{}
	for k := range s.subs {
		seen[k[0]] = true
	}
	var l []int64
	for p := int64(0); p < nPeers; p++ {
		if seen[p] {
			l = append(l, p)
		}
	}
	return l
}

func (s *sim) reconnect(p int64) {
	s.h = append(s.h, hx.Zs{16, p})
	s.dropSubs(p)
}

func (s *sim) dropSubs(p int64) {
	for k := range s.subs {
		if k[0] == p {
			delete(s.subs, k)
		}
	}
}

// during: an entity operation with its notification write to peer q stalled, overlapped by another
// peer's read or by a disconnect; aimed at subscribed peers
func (s *sim) during() {
	r := s.r
	sp := s.subscribedPeers()
	q := int64(r.Intn(nPeers))
	if len(sp) > 0 && r.Chance(7, 8) {
		q = sp[r.Intn(len(sp))]
	}
	// the entity: mostly one for which the operation does something
	e := int64(r.Range(1, maxEnt))
	add := int64(r.Intn(2))
	var cand []int64
	for x := int64(1); x <= maxEnt; x++ {
		if en := s.ents[x]; en != nil && en.member == (add == 0) {
			cand = append(cand, x)
		}
	}
	if len(cand) > 0 && r.Chance(9, 10) {
		e = cand[r.Intn(len(cand))]
	}
	kind := int64(r.Pick(60, 40))
	p := int64(r.Intn(nPeers))
	if kind == 0 {
		// another peer's read
		p = (q + 1 + int64(r.Intn(nPeers-1))) % nPeers
	} else if len(sp) > 0 && r.Chance(3, 4) {
		p = sp[r.Intn(len(sp))] // a subscribed peer disconnects (also the stalled one)
	}
	s.h = append(s.h, hx.Zs{15, add, e, q, kind, p})
	if en := s.ents[e]; en != nil {
		if add == 1 && !en.member {
			en.member = true
			s.list = append(s.list, e)
		} else if add == 0 {
			en.member = false
			var l []int64
			for _, x := range s.list {
				if x != e {
					l = append(l, x)
				}
			}
			s.list = l
		}
	}
	if kind == 1 {
		s.dropSubs(p)
	}
}

// duringRounds: subscriptions, entities with features, then entity operations with a stalled write
func (s *sim) duringRounds() {
	r := s.r
	for k := r.Range(1, 4); k > 0; k-- {
		s.subscribe()
	}
	for k := r.Range(1, 3); k > 0; k-- {
		s.newEntity()
		ty, role := s.tyRole()
		s.addFeatureTo(s.h[len(s.h)-1][1], ty, role)
	}
	for n := r.Range(3, 9); n > 0; n-- {
		switch r.Pick(55, 10, 10, 8, 7, 5, 5) {
		case 0:
			s.during()
		case 1:
			s.subscribe()
		case 2:
			s.addEntity()
		case 3:
			s.removeEntity()
		case 4:
			s.reconnect(int64(r.Intn(nPeers)))
		case 5:
			s.read()
		default:
			s.addFeature()
		}
	}
	s.read()
}

func newSim(r *hx.Rng) *sim {
	return &sim{r: r, ents: map[int64]*simEnt{0: {ctr: 2, feats: []simFeat{{0, 1, 3, 0}, {1, 2, 2, 0}}, member: true}}, list: []int64{0},
		thr: map[int64][3]int64{}, reads: map[int64][]int64{}, subs: map[[2]int64]bool{}}
}

// measured shape of the generated overlapped reads (reported in the evidence)
var genStats = map[string]int{}

func (s *sim) readBegin(t int64) {
	s.h = append(s.h, hx.Zs{12, t, int64(s.r.Intn(nPeers))})
	if _, busy := s.reads[t]; !busy {
		s.reads[t] = append([]int64(nil), s.list...)
	}
}

func (s *sim) readEnd(t int64) {
	s.h = append(s.h, hx.Zs{13, t})
	snap, ok := s.reads[t]
	if !ok {
		return
	}
	delete(s.reads, t)
	genStats["overlapped_reads"]++
	same := len(snap) == len(s.list)
	for i := 0; same && i < len(snap); i++ {
		same = snap[i] == s.list[i]
	}
	if !same {
		genStats["overlapped_reads_list_changed_meanwhile"]++
	}
	// the shape that makes an in-place compaction visible: the array prefix of the read's length differs now
	shifted := len(s.list) < len(snap)
	for i := 0; !shifted && i < len(snap); i++ {
		shifted = snap[i] != s.list[i]
	}
	if shifted {
		genStats["overlapped_reads_across_removal_of_listed_entity"]++
	}
	if len(s.reads) > 0 {
		genStats["overlapped_reads_ended_while_others_pending"]++
	}
}

// pending read threads in ascending order (map iteration order must not leak into the history)
func (s *sim) readThreads() []int64 {
	var ts []int64
	for t := range s.reads {
		ts = append(ts, t)
	}
	sort.Slice(ts, func(i, j int) bool { return ts[i] < ts[j] })
	return ts
}

func (s *sim) endAllReads() {
	ts := s.readThreads()
	for len(ts) > 0 {
		j := s.r.Intn(len(ts))
		s.readEnd(ts[j])
		ts = append(ts[:j], ts[j+1:]...)
	}
}

func (s *sim) addEntityID(e int64) {
	s.h = append(s.h, hx.Zs{1, e})
	if en := s.ents[e]; en != nil && !en.member {
		en.member = true
		s.list = append(s.list, e)
	}
}

func (s *sim) removeEntityID(e int64) {
	s.h = append(s.h, hx.Zs{2, e})
	if en := s.ents[e]; en != nil {
		en.member = false
		var l []int64
		for _, x := range s.list {
			if x != e {
				l = append(l, x)
			}
		}
		s.list = l
	}
}

// burst: k overlapping calls on entity e with pairwise different (type, role)s; the predicted ids
// are the model's (in the order given)
func (s *sim) burst(e int64, k int) {
	r := s.r
	z := hx.Zs{14, e}
	used := map[[2]int64]bool{}
	en := s.ents[e]
	gets := 0
	for j := 0; j < k; j++ {
		kind := int64(r.Pick(25, 55, 20))
		if kind == 2 && gets >= 2 {
			kind = 1
		}
		if kind == 0 {
			z = append(z, 0, 0, 0)
			if en != nil {
				en.ctr++
			}
			continue
		}
		var ty, role int64
		for try := 0; ; try++ {
			ty, role = s.tyRole()
			if kind == 2 && en != nil && len(en.feats) > 0 && r.Chance(1, 4) {
				f := en.feats[r.Intn(len(en.feats))] // a GetOrAddFeature of a feature that exists
				ty, role = f.ty, f.role
			}
			if !used[[2]int64{ty, role}] || try > 40 {
				break
			}
		}
		if used[[2]int64{ty, role}] {
			// no free (type, role) found: ask for a number instead
			z = append(z, 0, 0, 0)
			if en != nil {
				en.ctr++
			}
			continue
		}
		used[[2]int64{ty, role}] = true
		if kind == 2 {
			gets++
		}
		z = append(z, kind, ty, role)
		if en != nil {
			if kind == 1 {
				id := en.ctr
				en.ctr++
				if !s.has(e, ty, role) {
					en.feats = append(en.feats, simFeat{id, ty, role, len(s.h) + 1})
				}
			} else {
				s.created(e, ty, role)
			}
		}
	}
	s.h = append(s.h, z)
}

// badBurst: two calls naming one (type, role): refused by both sides
func (s *sim) badBurst(e int64) {
	ty, role := s.tyRole()
	z := hx.Zs{14, e, 1, ty, role, 0, 0, 0, int64(1 + s.r.Intn(2)), ty, role}
	s.h = append(s.h, z)
}

// burstRounds: concurrent feature creation on one entity object, announced and used afterwards
func (s *sim) burstRounds() {
	r := s.r
	s.newEntity()
	e := s.h[0][1]
	if r.Chance(1, 6) {
		e = 0 // the device-information entity has a generator of its own, starting at 0
	}
	add := func() {
		if e != 0 {
			s.addEntityID(e)
		}
	}
	if r.Chance(2, 3) {
		add()
	}
	for k := r.Intn(3); k > 0; k-- {
		ty, role := s.tyRole()
		s.addFeatureTo(e, ty, role)
	}
	if r.Chance(1, 3) {
		s.subscribe()
	}
	for round := r.Range(3, 7); round > 0; round-- {
		if r.Chance(1, 20) {
			s.badBurst(e)
		}
		s.burst(e, r.Range(2, 8))
		switch r.Pick(30, 15, 15, 10, 10, 10, 10) {
		case 0:
			add()
			s.read()
		case 1:
			s.addFunctionTo(e)
		case 2:
			// GetOrAddFeature of a feature a burst created (or another one)
			en := s.ents[e]
			if len(en.feats) > 0 {
				f := en.feats[r.Intn(len(en.feats))]
				s.h = append(s.h, hx.Zs{6, e, f.ty, f.role})
			} else {
				s.getOrAdd()
			}
		case 3:
			s.h = append(s.h, hx.Zs{5, e})
			s.ents[e].ctr++
		case 4:
			if e != 0 {
				s.removeEntityID(e)
			}
		case 5:
			ty, role := s.tyRole()
			s.addFeatureTo(e, ty, role)
		default:
			s.read()
		}
	}
	add()
	s.read()
}

func (s *sim) addFunctionTo(e int64) {
	en := s.ents[e]
	if en == nil || len(en.feats) == 0 {
		s.h = append(s.h, hx.Zs{4, e, 7, 11, 1, 0, 0})
		return
	}
	f := en.feats[s.r.Intn(len(en.feats))]
	sp := s.fnSpec(f.ty)
	s.h = append(s.h, hx.Zs{4, e, f.id, sp[0], sp[1], sp[2], sp[3]})
}

func (s *sim) has(e, ty, role int64) bool {
	for _, f := range s.ents[e].feats {
		if f.ty == ty && f.role == role {
			return true
		}
	}
	return false
}

func (s *sim) pickEnt(allowMissing bool) int64 {
	if allowMissing && s.r.Chance(1, 12) {
		return int64(s.r.Range(0, maxEnt))
	}
	var l []int64
	for e := int64(0); e <= maxEnt; e++ {
		if s.ents[e] != nil {
			l = append(l, e)
		}
	}
	// prefer application entities
	e := l[s.r.Intn(len(l))]
	if e == 0 && len(l) > 1 && s.r.Chance(2, 3) {
		e = l[1+s.r.Intn(len(l)-1)]
	}
	return e
}

func (s *sim) fnSpec(ty int64) hx.Zs {
	var fn int64
	if s.r.Chance(1, 8) {
		fn = int64(s.r.Range(1, 9))
	} else {
		fn = int64(s.r.Range(10, len(functions)-1))
	}
	return hx.Zs{fn, int64(s.r.Intn(2)), int64(s.r.Intn(2)), b2i(psup(ty, fn))}
}

func (s *sim) tyRole() (int64, int64) {
	ty := int64(s.r.Range(2, len(featureTypes)-1))
	if s.r.Chance(1, 15) {
		ty = 1
	}
	role := int64(s.r.Pick(30, 55, 15) + 1)
	return ty, role
}

func (s *sim) newEntity() {
	e := int64(s.r.Range(1, maxEnt))
	s.h = append(s.h, hx.Zs{0, e, int64(s.r.Range(2, len(entityTypes)-1))})
	if s.ents[e] == nil {
		s.ents[e] = &simEnt{ctr: 1}
	}
}

func (s *sim) addEntity() { s.addEntityID(int64(s.r.Range(1, maxEnt))) }

func (s *sim) removeEntity() { s.removeEntityID(int64(s.r.Range(1, maxEnt))) }

func (s *sim) addFeatureTo(e, ty, role int64) {
	z := hx.Zs{3, e, ty, role, int64(s.r.Intn(4))}
	for k := s.r.Intn(5); k > 0; k-- {
		z = append(z, s.fnSpec(ty)...)
	}
	s.h = append(s.h, z)
	if en := s.ents[e]; en != nil {
		id := en.ctr
		en.ctr++
		if !s.has(e, ty, role) {
			en.feats = append(en.feats, simFeat{id, ty, role, len(s.h) + 1})
		}
	}
}

func (s *sim) addFeature() {
	ty, role := s.tyRole()
	s.addFeatureTo(s.pickEnt(true), ty, role)
}

func (s *sim) addFunction() {
	e := s.pickEnt(false)
	en := s.ents[e]
	if len(en.feats) == 0 || s.r.Chance(1, 10) {
		s.h = append(s.h, hx.Zs{4, e, en.ctr + int64(s.r.Intn(3)), 11, 1, 0, 0})
		return
	}
	f := en.feats[s.r.Intn(len(en.feats))]
	sp := s.fnSpec(f.ty)
	s.h = append(s.h, hx.Zs{4, e, f.id, sp[0], sp[1], sp[2], sp[3]})
}

func (s *sim) nextID() {
	e := s.pickEnt(true)
	s.h = append(s.h, hx.Zs{5, e})
	if s.ents[e] != nil {
		s.ents[e].ctr++
	}
}

func (s *sim) created(e, ty, role int64) {
	en := s.ents[e]
	if !s.has(e, ty, role) {
		en.feats = append(en.feats, simFeat{en.ctr, ty, role, len(s.h) + 1})
		en.ctr++
	}
}

func (s *sim) getOrAdd() {
	e := s.pickEnt(true)
	ty, role := s.tyRole()
	if en := s.ents[e]; en != nil && len(en.feats) > 0 && s.r.Chance(1, 2) {
		f := en.feats[s.r.Intn(len(en.feats))]
		ty, role = f.ty, f.role
	}
	s.h = append(s.h, hx.Zs{6, e, ty, role})
	if s.ents[e] != nil {
		s.created(e, ty, role)
	}
}

func (s *sim) lookup(t, e, ty, role int64) {
	s.h = append(s.h, hx.Zs{7, t, e, ty, role})
	if _, busy := s.thr[t]; busy || s.ents[e] == nil {
		return
	}
	if !s.has(e, ty, role) {
		s.thr[t] = [3]int64{e, ty, role}
	}
}

func (s *sim) create(t int64) {
	s.h = append(s.h, hx.Zs{8, t})
	if x, ok := s.thr[t]; ok {
		delete(s.thr, t)
		s.created(x[0], x[1], x[2])
	}
}

func (s *sim) subscribe() {
	c := int64(s.r.Intn(nClient))
	if s.r.Chance(1, 15) {
		c = nClient + int64(s.r.Intn(2))
	}
	p := int64(s.r.Intn(nPeers))
	s.h = append(s.h, hx.Zs{9, p, c})
	if c < nClient {
		s.subs[[2]int64{p, c}] = true
	}
}

func (s *sim) unsubscribe() {
	p, c := int64(s.r.Intn(nPeers)), int64(s.r.Intn(nClient))
	s.h = append(s.h, hx.Zs{10, p, c})
	delete(s.subs, [2]int64{p, c})
}

func (s *sim) read() { s.h = append(s.h, hx.Zs{11, int64(s.r.Intn(nPeers))}) }

func (s *sim) mixedStep(conc, overlap bool) {
	w := []int{8, 10, 7, 18, 9, 4, 9, 9, 5, 12, 0, 0, 0, 0, 0, 0, 0}
	if conc {
		w[10], w[11] = 12, 12
		w[14] = 8
		w[15], w[16] = 6, 2
	}
	if overlap {
		w[12], w[13] = 9, 9
		w[2] = 11
	}
	switch s.r.Pick(w...) {
	case 0:
		s.newEntity()
	case 1:
		s.addEntity()
	case 2:
		s.removeEntity()
	case 3:
		s.addFeature()
	case 4:
		s.addFunction()
	case 5:
		s.nextID()
	case 6:
		s.getOrAdd()
	case 7:
		s.subscribe()
	case 8:
		s.unsubscribe()
	case 9:
		s.read()
	case 10:
		e := s.pickEnt(true)
		ty, role := s.tyRole()
		// aim at a (type, role) another parked thread is after
		var parked []int64
		for t := range s.thr {
			parked = append(parked, t)
		}
		sort.Slice(parked, func(i, j int) bool { return parked[i] < parked[j] })
		for _, t := range parked {
			if x := s.thr[t]; s.r.Chance(1, 2) {
				e, ty, role = x[0], x[1], x[2]
			}
		}
		s.lookup(int64(s.r.Intn(4)), e, ty, role)
	case 11:
		s.create(int64(s.r.Intn(4)))
	case 12:
		s.readBegin(int64(s.r.Intn(4)))
	case 14:
		s.burst(s.pickEnt(true), s.r.Range(2, 6))
	case 15:
		s.during()
	case 16:
		s.reconnect(int64(s.r.Intn(nPeers)))
	default:
		t := int64(s.r.Intn(4))
		// mostly end a read that is pending
		if ts := s.readThreads(); len(ts) > 0 && s.r.Chance(3, 4) {
			t = ts[s.r.Intn(len(ts))]
		}
		s.readEnd(t)
	}
}

// overlapRounds: reads held open across changes of the member list and of the listed entity objects
func (s *sim) overlapRounds() {
	r := s.r
	// a device with 2..4 application entities, most of them members, with some features
	n := int64(r.Range(2, maxEnt))
	for e := int64(1); e <= n; e++ {
		s.h = append(s.h, hx.Zs{0, e, int64(r.Range(2, len(entityTypes)-1))})
		s.ents[e] = &simEnt{ctr: 1}
		for k := r.Intn(3); k > 0; k-- {
			ty, role := s.tyRole()
			s.addFeatureTo(e, ty, role)
		}
	}
	order := []int64{1, 2, 3, 4}[:n]
	for i := len(order) - 1; i > 0; i-- {
		j := r.Intn(i + 1)
		order[i], order[j] = order[j], order[i]
	}
	for _, e := range order {
		if r.Chance(5, 6) {
			s.addEntityID(e)
		}
	}
	for k := r.Intn(3); k > 0; k-- {
		s.subscribe()
	}
	for round := r.Range(1, 3); round > 0; round-- {
		// 1..3 reads begin, possibly with a change between them
		for k := int64(r.Range(1, 3)); k > 0; k-- {
			t := int64(r.Intn(4))
			s.readBegin(t)
			if r.Chance(1, 4) {
				s.overlapChange()
			}
		}
		for k := r.Range(1, 4); k > 0; k-- {
			s.overlapChange()
		}
		if r.Chance(1, 3) {
			s.read()
		}
		if r.Chance(1, 2) {
			// end one, change again, end the rest
			if ts := s.readThreads(); len(ts) > 0 {
				s.readEnd(ts[r.Intn(len(ts))])
			}
			s.overlapChange()
		}
		s.endAllReads()
	}
	s.read()
}

// overlapChange: one change while reads are pending, aimed relative to the entity lists they hold
func (s *sim) overlapChange() {
	r := s.r
	apps := func(l []int64) []int64 {
		var out []int64
		for _, e := range l {
			if e != 0 {
				out = append(out, e)
			}
		}
		return out
	}
	switch r.Pick(40, 18, 16, 14, 6, 6) {
	case 0: // remove a member: first, middle or last of the list (before / at / after the others)
		l := apps(s.list)
		if len(l) == 0 {
			s.removeEntity()
			return
		}
		var e int64
		switch r.Pick(45, 30, 25) {
		case 0:
			e = l[0]
		case 1:
			e = l[r.Intn(len(l))]
		default:
			e = l[len(l)-1]
		}
		s.removeEntityID(e)
	case 1: // add an entity (a removed one comes back at the end of the list, a new one appears)
		var out []int64
		for e := int64(1); e <= maxEnt; e++ {
			if en := s.ents[e]; en != nil && !en.member {
				out = append(out, e)
			}
		}
		if len(out) == 0 {
			s.newEntity()
			s.addEntity()
			return
		}
		s.addEntityID(out[r.Intn(len(out))])
	case 2: // a feature on an entity that a pending read lists (member or removed meanwhile)
		e := s.pickEnt(false)
		for _, t := range s.readThreads() {
			if snap := s.reads[t]; len(snap) > 0 && r.Chance(1, 2) {
				e = snap[r.Intn(len(snap))]
			}
		}
		ty, role := s.tyRole()
		s.addFeatureTo(e, ty, role)
	case 3:
		e := s.pickEnt(false)
		for _, t := range s.readThreads() {
			if snap := s.reads[t]; len(snap) > 0 && r.Chance(1, 2) {
				e = snap[r.Intn(len(snap))]
			}
		}
		s.addFunctionTo(e)
	case 4:
		s.getOrAdd()
	default:
		if r.Chance(1, 2) {
			s.subscribe()
		} else {
			s.unsubscribe()
		}
	}
}

func gen(r *hx.Rng, tier string, i int) []hx.Zs {
	s := newSim(r)
	switch i % 8 {
	case 7: // entity operations whose notification write to a subscribed peer is stalled, overlapped by reads and disconnects
		s.duringRounds()
	case 0: // sequential: configurations, additions, removals, reads
		for n := r.Range(8, 60); n > 0; n-- {
			s.mixedStep(false, false)
		}
		s.read()
	case 6: // bursts of overlapping feature creation on one entity object, announced and used afterwards
		s.burstRounds()
	case 4: // reads held open (several at once) across removals / additions of entities, features and functions
		s.overlapRounds()
	case 5: // sequential traffic with overlapped reads
		for n := r.Range(10, 60); n > 0; n-- {
			s.mixedStep(false, true)
		}
		s.endAllReads()
		s.read()
	case 1: // subscriptions first (a peer with two features among them), then entity traffic
		for n := r.Range(2, 7); n > 0; n-- {
			s.subscribe()
		}
		for n := r.Range(6, 40); n > 0; n-- {
			switch r.Pick(15, 25, 20, 20, 5, 5, 10) {
			case 0:
				s.newEntity()
			case 1:
				s.addEntity()
			case 2:
				s.removeEntity()
			case 3:
				s.addFeature()
			case 4:
				s.subscribe()
			case 5:
				s.unsubscribe()
			default:
				s.read()
			}
		}
	case 2: // k goroutines asking for the same feature of one entity, every interleaving shape
		s.newEntity()
		e := s.h[0][1]
		if r.Chance(1, 2) {
			s.addEntity()
		}
		ty, role := s.tyRole()
		k := int64(r.Range(2, 4))
		var pending []int64
		for t := int64(0); t < k; t++ {
			pending = append(pending, t)
		}
		started := int64(0)
		for len(pending) > 0 || started < k {
			switch {
			case started < k && (len(s.thr) == 0 || r.Chance(1, 2)):
				s.lookup(started, e, ty, role)
				started++
			case r.Chance(1, 8):
				s.addFeatureTo(e, ty, role)
			case r.Chance(1, 8):
				s.read()
			default:
				j := r.Intn(len(pending))
				s.create(pending[j])
				if pending[j] < started {
					pending = append(pending[:j], pending[j+1:]...)
				}
			}
		}
		s.h = append(s.h, hx.Zs{6, e, ty, role})
		s.read()
	default: // everything mixed: GetOrAddFeature goroutines and overlapped reads
		for n := r.Range(10, 60); n > 0; n-- {
			s.mixedStep(true, true)
		}
		for t := int64(0); t < 4; t++ {
			s.create(t)
		}
		s.endAllReads()
		s.read()
	}
	return s.sprinkleDescriptions()
}

// sprinkleDescriptions inserts description changes of existing features into the finished history of
// any class (they change nothing the generators aim at): after a read -- followed by another read --,
// between RemoveEntity and a re-adding AddEntity, and anywhere else.
func (s *sim) sprinkleDescriptions() []hx.Zs {
	r := s.r
	// a feature that exists after n operations, preferably of entity e (e < 0: any entity)
	pick := func(n int, e int64) (hx.Zs, bool) {
		var cand [][2]int64
		for x := int64(0); x <= maxEnt; x++ {
			if en := s.ents[x]; en != nil && (e < 0 || e == x) {
				for _, f := range en.feats {
					if f.at <= n && (x != 0 || r.Chance(1, 3)) {
						cand = append(cand, [2]int64{x, f.id})
					}
				}
			}
		}
		if len(cand) == 0 {
			return nil, false
		}
		c := cand[r.Intn(len(cand))]
		return hx.Zs{17, c[0], c[1], int64(r.Range(1, 6))}, true
	}
	var out []hx.Zs
	for i, op := range s.h {
		out = append(out, op)
		n := i + 1
		switch {
		case (op[0] == 11 || op[0] == 13) && r.Chance(1, 3):
			// read -> SetDescr -> read
			if z, ok := pick(n, -1); ok {
				out = append(out, z, hx.Zs{11, int64(r.Intn(nPeers))})
				genStats["setdescr_between_two_reads"]++
			}
		case op[0] == 2 && r.Chance(1, 3):
			// announced -> removed -> SetDescr -> announced again
			if z, ok := pick(n, op[1]); ok {
				out = append(out, z, hx.Zs{1, op[1]})
				genStats["setdescr_between_remove_and_add"]++
			}
		case r.Chance(1, 14):
			if z, ok := pick(n, -1); ok {
				if r.Chance(1, 10) {
					z[2] += 7 // no such feature
				}
				out = append(out, z)
				genStats["setdescr_elsewhere"]++
			}
		}
	}
	return out
}

func fixed(tier string) [][]hx.Zs {
	return [][]hx.Zs{
		// the schedule refuting the pinned GetOrAddFeature: both look up before either creates
		{{0, 1, 2}, {1, 1}, {7, 1, 1, 4, 1}, {7, 2, 1, 4, 1}, {8, 1}, {8, 2}, {6, 1, 4, 1}, {11, 0}},
		// a peer subscribed with two of its features receives two notifications, an unsubscribed peer none
		{{9, 0, 0}, {9, 0, 2}, {9, 2, 1}, {0, 2, 3}, {3, 2, 4, 2, 1, 11, 1, 1, b2i(psup(4, 11)), 12, 1, 0, b2i(psup(4, 12))}, {1, 2}, {11, 1}, {2, 2}, {11, 0}},
		// ids are not reused after a dropped duplicate feature, after NextFeatureId and after RemoveEntity / AddEntity
		{{0, 1, 2}, {3, 1, 4, 2, 0}, {3, 1, 4, 2, 2}, {5, 1}, {1, 1}, {2, 1}, {6, 1, 5, 1}, {1, 1}, {3, 1, 6, 2, 0}, {11, 2}},
		// a read takes the entity list [0 1 2], entity 1 is removed, the read continues: it must still list 0, 1, 2
		// (C07_inplace_remove_refuted: with an in-place compaction the handler walks [0 2 nil] and panics)
		{{0, 1, 2}, {0, 2, 3}, {1, 1}, {1, 2}, {12, 0, 0}, {2, 1}, {13, 0}, {11, 0}},
		// two reads pending at once around removals at the first and the last position, an addition, a feature and a function
		{{0, 1, 2}, {0, 2, 3}, {0, 3, 4}, {3, 2, 4, 2, 0}, {1, 1}, {1, 2}, {1, 3}, {9, 1, 0}, {12, 0, 1}, {2, 1}, {12, 1, 2}, {2, 3},
			{3, 2, 5, 2, 1}, {4, 2, 1, 11, 1, 0, b2i(psup(4, 11))}, {1, 1}, {13, 1}, {12, 1, 0}, {13, 0}, {13, 1}, {13, 1}, {11, 1}},
		// bursts: eight goroutines creating features on entity 1 (one GetOrAddFeature of an existing feature, one of a new one,
		// two bare NextFeatureId), a refused burst, a function on and a GetOrAddFeature of burst features, a second burst, reads
		{{0, 1, 2}, {3, 1, 4, 2, 0}, {1, 1}, {14, 1, 1, 5, 2, 0, 0, 0, 2, 4, 2, 2, 6, 1, 1, 7, 1, 1, 3, 2, 0, 0, 0, 1, 5, 1}, {11, 0},
			{14, 1, 1, 6, 2, 2, 6, 2}, {4, 1, 2, 13, 1, 1, b2i(psup(5, 13))}, {6, 1, 7, 1}, {14, 1, 1, 2, 2, 1, 6, 2, 0, 0, 0, 1, 4, 1}, {5, 1}, {11, 2}},
		// C07_nonvacuous_during: peers 0 and 1 subscribed; entity 1 added with the write to peer 0 stalled while peer 2 reads,
		// removed with the write to peer 1 stalled while peer 0 disconnects, added again (only peer 1 is notified) while peer 1
		// reads behind peer 0's connection, peer 1 reconnects, a During whose entity operation notifies nobody, a missing object
		{{0, 1, 5}, {3, 1, 4, 2, 0}, {9, 0, 0}, {9, 1, 1}, {15, 1, 1, 0, 0, 2}, {15, 0, 1, 1, 1, 0}, {15, 1, 1, 0, 0, 1}, {16, 1},
			{15, 0, 1, 2, 1, 2}, {15, 1, 3, 0, 0, 0}, {11, 1}},
		// C07_nonvacuous_setdescr: a description set before the first announcement, changed between two reads, changed between
		// RemoveEntity and AddEntity, on an unknown feature / entity object, on the device classification feature of entity 0
		{{0, 1, 5}, {3, 1, 4, 2, 0, 11, 1, 0, b2i(psup(4, 11))}, {9, 0, 0}, {17, 1, 1, 3}, {1, 1}, {11, 1}, {17, 1, 1, 7}, {11, 1}, {2, 1},
			{17, 1, 1, 2}, {1, 1}, {17, 1, 9, 2}, {17, 4, 1, 2}, {17, 0, 1, 5}, {11, 2}},
	}
}

func main() {
	hx.Main(hx.Config{
		Property: "C07",
		Clauses: map[int64]string{1: "reply-differs-from-tree", 2: "announced-address-does-not-resolve", 3: "entity-notification-wrong",
			4: "feature-id-reused", 5: "get-or-add-not-one-feature", 6: "malformed-observation", 7: "blocked-behind-stalled-notification", 98: "unparseable-observation", 99: "unparseable-operation"},
		OpNames: map[int64]string{0: "new-entity", 1: "add-entity", 2: "remove-entity", 3: "add-feature", 4: "add-function", 5: "next-id",
			6: "get-or-add", 7: "get-or-add.lookup", 8: "get-or-add.create", 9: "subscribe", 10: "unsubscribe", 11: "read",
			12: "read.begin", 13: "read.end", 14: "burst", 15: "during", 16: "reconnect", 17: "set-description"},
		NewImpl: newImpl,
		Gen:     gen,
		Fixed:   fixed,
		Extra: func() map[string]any {
			out := map[string]any{}
			for k, v := range genStats {
				out[k] = v
			}
			for k, v := range burstStats {
				out[k] = v
			}
			for k, v := range duringStats {
				out[k] = v
			}
			return out
		},
		Count: map[string]int{"quick": 1200, "thorough": 30000},
	})
}
