// C19 runner: the conversions of model/commondatatypes_additions.go against the model
// coq/Model/Conv.v (Scaled.v on Flocq binary64, Period.v, TimeFmt.v).
//
// A float64 travels as three integers [sign mantissa exponent], value = (-1)^sign * mantissa * 2^exponent
// in IEEE canonical form (zero: s 0 0, infinity: s -1 0, NaN: 0 -2 0).
//
// op encoding (parse_op in Conv.v):
//
//	0 s m e           NewScaledNumberType(v).GetValue()
//	1 k d             the same for v = strconv.ParseFloat("<k>e-<d>")
//	2 ns              NewDurationType(ns).GetTimeDuration()
//	3 sec nsec        NewAbsoluteOrRelativeTimeTypeFromTime(time.Unix(sec,nsec)).GetTime()
//	4 variant dur t0 t1   TimePeriodType with relative end: variant 0 json.Unmarshal{"endTime":text(dur)} .. json.Marshal,
//	                  variant 1 NewTimePeriodTypeWithRelativeEndTime(dur) .. GetDuration().  t0/t1 are the wall
//	                  clock readings (Unix ns) taken by the runner immediately before the two calls; the code under
//	                  test reads time.Now() itself, so the runner WRITES t0 and t1 INTO the operation while executing
//	                  it (the generator leaves them 0) and repeats a call whose result would depend on which instant
//	                  inside the measured bracket the code saw (a rounding boundary inside the bracket).
//
// obs encoding (print_obs): 0 n scale r | 1 v n scale r | 2 <ptext 8> ok back | 3 <dtext 6> ok back |
// 4 <dtext 6> <ptext 8> ok back | 5 <dtext 6> r | 6.   ptext = neg Y M W D H M S (values*10), dtext = Y M D h m s.
package main

import (
	"encoding/json"
	"fmt"
	"math"
	"math/big"
	"strconv"
	"strings"
	"time"

	"github.com/enbility/spine-go/model"

	"verifharness/hx"
)

// ---------------------------------------------------------------- float <-> wire

func wireOf(f float64) []int64 {
	b := math.Float64bits(f)
	s := int64(b >> 63)
	be := int64((b >> 52) & 0x7ff)
	fr := int64(b & (1<<52 - 1))
	switch {
	case be == 0x7ff && fr != 0:
		return []int64{0, -2, 0}
	case be == 0x7ff:
		return []int64{s, -1, 0}
	case be == 0 && fr == 0:
		return []int64{s, 0, 0}
	case be == 0:
		return []int64{s, fr, -1074}
	}
	return []int64{s, fr | 1<<52, be - 1075}
}

func floatOf(s, m, e int64) float64 {
	var f float64
	switch m {
	case -1:
		f = math.Inf(1)
	case -2:
		return math.NaN()
	default:
		f = math.Ldexp(float64(m), int(e))
	}
	if s != 0 {
		f = -f
	}
	return f
}

// ---------------------------------------------------------------- text -> numbers

const badField = int64(1) << 40

// tenths parses "12", "12.3", "-12" ... into value*10; anything else is badField.
func tenths(s string) int64 {
	neg := strings.HasPrefix(s, "-")
	if neg {
		s = s[1:]
	}
	ip, fp := s, ""
	if i := strings.IndexByte(s, '.'); i >= 0 {
		ip, fp = s[:i], s[i+1:]
	}
	if ip == "" || len(fp) > 1 {
		return badField
	}
	v, err := strconv.ParseInt(ip, 10, 64)
	if err != nil || v > 1<<30 {
		return badField
	}
	v *= 10
	if fp != "" {
		if fp[0] < '0' || fp[0] > '9' {
			return badField
		}
		v += int64(fp[0] - '0')
	}
	if neg {
		v = -v
	}
	return v
}

// periodFields reads an ISO-8601 period text into [neg Y M W D H M S] (values*10, 0 = absent).
func periodFields(s string) ([]int64, bool) {
	out := make([]int64, 8)
	if strings.HasPrefix(s, "-") {
		out[0] = 1
		s = s[1:]
	}
	if !strings.HasPrefix(s, "P") {
		return nil, false
	}
	s = s[1:]
	inT := false
	for len(s) > 0 {
		if s[0] == 'T' {
			inT = true
			s = s[1:]
			continue
		}
		i := 0
		for i < len(s) && (s[i] == '-' || s[i] == '.' || (s[i] >= '0' && s[i] <= '9')) {
			i++
		}
		if i == 0 || i == len(s) {
			return nil, false
		}
		v := tenths(s[:i])
		idx := -1
		switch s[i] {
		case 'Y':
			idx = 1
		case 'M':
			if inT {
				idx = 6
			} else {
				idx = 2
			}
		case 'W':
			idx = 3
		case 'D':
			idx = 4
		case 'H':
			idx = 5
		case 'S':
			idx = 7
		}
		if idx < 0 || (idx >= 5) != inT {
			return nil, false
		}
		out[idx] = v
		s = s[i+1:]
	}
	return out, true
}

// dateTimeFields reads "Y-MM-DDThh:mm:ssZ" (year possibly negative or longer than four digits).
func dateTimeFields(s string) ([]int64, bool) {
	if !strings.HasSuffix(s, "Z") {
		return nil, false
	}
	s = s[:len(s)-1]
	i := strings.IndexByte(s, 'T')
	if i < 0 {
		return nil, false
	}
	date, clock := s[:i], s[i+1:]
	neg := strings.HasPrefix(date, "-")
	if neg {
		date = date[1:]
	}
	dp := strings.Split(date, "-")
	cp := strings.Split(clock, ":")
	if len(dp) != 3 || len(cp) != 3 {
		return nil, false
	}
	out := make([]int64, 6)
	for j, p := range append(dp, cp...) {
		v, err := strconv.ParseInt(p, 10, 64)
		if err != nil {
			return nil, false
		}
		out[j] = v
	}
	if neg {
		out[0] = -out[0]
	}
	return out, true
}

// ---------------------------------------------------------------- implementation

type impl struct{}

func newImpl() hx.Impl { return impl{} }
func (impl) Close()    {}

func optDur(d time.Duration, err error) []int64 {
	if err != nil {
		return []int64{0, 0}
	}
	return []int64{1, int64(d)}
}

func scaledObs(v float64) []int64 {
	s := model.NewScaledNumberType(v)
	var n, sc int64 = -1 << 62, 99
	if s.Number != nil {
		n = int64(*s.Number)
	}
	if s.Scale != nil {
		sc = int64(*s.Scale)
	}
	return append([]int64{n, sc}, wireOf(s.GetValue())...)
}

func roundSecond(unixNano int64) int64 { // Time.Round(time.Second) as Unix seconds
	sec := unixNano / 1e9
	ns := unixNano % 1e9
	if ns < 0 {
		ns += 1e9
		sec--
	}
	if ns >= 5e8 {
		sec++
	}
	return sec
}

// pauseFor: how long the runner lets the clock advance between creating and reading a
// relative end (derived from the duration, so that a history is self-contained).
func pauseFor(dur int64) time.Duration {
	n := dur / 1e8
	if n < 0 {
		n = -n
	}
	switch {
	case n%97 == 13:
		return 1100 * time.Millisecond
	case n%5 == 1:
		return 3 * time.Millisecond
	}
	return 0
}

func (impl) Exec(op hx.Zs) []hx.Zs {
	switch op[0] {
	case 0:
		if len(op) != 4 {
			return nil
		}
		return []hx.Zs{append(hx.Zs{0}, scaledObs(floatOf(op[1], op[2], op[3]))...)}
	case 1:
		if len(op) != 3 {
			return nil
		}
		v, err := strconv.ParseFloat(fmt.Sprintf("%de-%d", op[1], op[2]), 64)
		if err != nil {
			return []hx.Zs{{97}}
		}
		return []hx.Zs{append(append(hx.Zs{1}, wireOf(v)...), scaledObs(v)...)}
	case 2:
		if len(op) != 2 {
			return nil
		}
		dt := model.NewDurationType(time.Duration(op[1]))
		f, ok := periodFields(string(*dt))
		if !ok {
			return []hx.Zs{{97}}
		}
		return []hx.Zs{append(append(hx.Zs{2}, f...), optDur(dt.GetTimeDuration())...)}
	case 3:
		if len(op) != 3 {
			return nil
		}
		// the same instant in different locations (the SPINE text is always UTC): UTC, fixed offsets
		// on both sides including the extreme ones, and the process-local zone; the model knows instants only
		tm := time.Unix(op[1], op[2])
		switch ((op[1] % 6) + 6) % 6 {
		case 0:
			tm = tm.UTC()
		case 1:
			tm = tm.In(time.FixedZone("east", 5*3600+1800))
		case 2:
			tm = tm.In(time.FixedZone("west", -8*3600))
		case 3:
			tm = tm.In(time.FixedZone("far-east", 14*3600))
		case 4:
			tm = tm.In(time.FixedZone("far-west", -12*3600))
		}
		a := model.NewAbsoluteOrRelativeTimeTypeFromTime(tm)
		f, ok := dateTimeFields(string(*a))
		if !ok {
			return []hx.Zs{{97}}
		}
		back := []int64{0, 0}
		if t, err := a.GetTime(); err == nil {
			back = []int64{1, t.Unix()}
			if t.Nanosecond() != 0 {
				back[1] = -1 << 62
			}
		}
		return []hx.Zs{append(append(hx.Zs{3}, f...), back...)}
	case 4:
		if len(op) != 5 {
			return nil
		}
		return relEnd(op)
	}
	return nil
}

func relEnd(op hx.Zs) []hx.Zs {
	variant, dur := op[1], time.Duration(op[2])
	var tp *model.TimePeriodType
	var t0 int64
	for try := 0; ; try++ {
		if variant == 0 {
			in := string(*model.NewDurationType(dur))
			parsed, perr := model.NewAbsoluteOrRelativeTimeType(in).GetTimeDuration()
			data, _ := json.Marshal(map[string]string{"endTime": in})
			tp = &model.TimePeriodType{}
			ta := time.Now().UnixNano()
			err := json.Unmarshal(data, tp)
			tb := time.Now().UnixNano()
			t0 = ta
			if err != nil || tp.EndTime == nil {
				op[3], op[4] = t0, t0
				return []hx.Zs{{97}}
			}
			if perr != nil || roundSecond(ta+int64(parsed)) == roundSecond(tb+int64(parsed)) || try > 20 {
				break
			}
		} else {
			ta := time.Now().UnixNano()
			tp = model.NewTimePeriodTypeWithRelativeEndTime(dur)
			tb := time.Now().UnixNano()
			t0 = ta
			if roundSecond(ta+int64(dur)) == roundSecond(tb+int64(dur)) || try > 20 {
				break
			}
		}
	}
	op[3] = t0
	ef, ok := dateTimeFields(string(*tp.EndTime))
	if !ok {
		// the end time was left as it came in (its duration text could not be read)
		op[4] = time.Now().UnixNano()
		return []hx.Zs{{6}}
	}
	es, err := tp.EndTime.GetTime()
	if err != nil {
		op[4] = time.Now().UnixNano()
		return []hx.Zs{{6}}
	}
	if p := pauseFor(int64(dur)); p > 0 {
		time.Sleep(p)
	}
	rnd := func(now int64) time.Duration { return time.Duration(es.UnixNano() - now).Round(time.Second) }
	for try := 0; ; try++ {
		if variant == 0 {
			tc := time.Now().UnixNano()
			out, err := json.Marshal(tp)
			td := time.Now().UnixNano()
			if rnd(tc) != rnd(td) && try < 20 {
				continue
			}
			op[4] = tc
			var m map[string]string
			if err != nil || json.Unmarshal(out, &m) != nil || len(m) != 1 {
				return []hx.Zs{{97}}
			}
			pf, ok := periodFields(m["endTime"])
			if !ok {
				return []hx.Zs{{97}}
			}
			back := optDur(model.NewAbsoluteOrRelativeTimeType(m["endTime"]).GetTimeDuration())
			return []hx.Zs{append(append(append(hx.Zs{4}, ef...), pf...), back...)}
		}
		tc := time.Now().UnixNano()
		r, err := tp.GetDuration()
		td := time.Now().UnixNano()
		if rnd(tc) != rnd(td) && try < 20 {
			continue
		}
		op[4] = tc
		if err != nil {
			return []hx.Zs{{6}}
		}
		return []hx.Zs{append(append(hx.Zs{5}, ef...), int64(r))}
	}
}

// ---------------------------------------------------------------- Go-side sweep (search only)
//
// The sweep evaluates the implementation on far more inputs than go through the
// extracted model/monitor, with a Go transcription of the monitor's clauses. It decides
// nothing: every input it flags becomes a history that is then judged by the extracted
// monitor and compared with the model like any other.

var sweepStats = map[string]any{}

func pow10(d int64) *big.Int { return new(big.Int).Exp(big.NewInt(10), big.NewInt(d), nil) }

// decOK: clauses 1 and 2 for v = k*10^-d.
func decOK(k, d int64, n, sc int64, r float64) bool {
	if sc > 0 || sc < -18 {
		return false
	}
	lhs := new(big.Int).Mul(big.NewInt(n), pow10(d))
	rhs := new(big.Int).Mul(big.NewInt(k), pow10(-sc))
	if lhs.Cmp(rhs) != 0 || math.IsInf(r, 0) || math.IsNaN(r) {
		return false
	}
	want := new(big.Rat).SetFrac(big.NewInt(k), pow10(d))
	diff := new(big.Rat).Sub(new(big.Rat).SetFloat64(r), want)
	diff.Abs(diff)
	return diff.Cmp(new(big.Rat).SetFrac(big.NewInt(1), new(big.Int).Mul(big.NewInt(2), pow10(d)))) < 0
}

var tol4 = big.NewRat(1, 10000)

func nearOK(v, r float64) bool {
	if math.IsInf(r, 0) || math.IsNaN(r) {
		return false
	}
	if r == v {
		return true
	}
	diff := new(big.Rat).Sub(new(big.Rat).SetFloat64(r), new(big.Rat).SetFloat64(v))
	diff.Abs(diff)
	return diff.Cmp(tol4) <= 0
}

const nsDay = int64(24 * time.Hour)
const durLimit = 3277 * nsDay

func sweep(r *hx.Rng, tier string) [][]hx.Zs {
	mult := 1
	if tier == "thorough" {
		mult = 30
	}
	var flagged []hx.Zs
	flag := func(op hx.Zs) {
		if len(flagged) < 40 {
			flagged = append(flagged, op)
		}
	}
	// dense decimals k*10^-d, k in [-2e5, 2e5], d in 0..4 (all of them, every tier)
	dense, exact := 0, 0
	for d := int64(0); d <= 4; d++ {
		for k := int64(-200000); k <= 200000; k++ {
			v, _ := strconv.ParseFloat(fmt.Sprintf("%de-%d", k, d), 64)
			s := model.NewScaledNumberType(v)
			g := s.GetValue()
			dense++
			if g == v {
				exact++
				// bit-exact read back: only the representation needs the exact check
				if int64(*s.Scale) <= 0 && int64(*s.Scale) >= -d {
					p := int64(math.Pow10(int(d + int64(*s.Scale))))
					if int64(*s.Number)*p == k {
						continue
					}
				}
			}
			if !decOK(k, d, int64(*s.Number), int64(*s.Scale), g) || !nearOK(v, g) {
				flag(hx.Zs{1, k, d})
			}
		}
	}
	// random k up to 10^15
	nk := 400000 * mult
	for i := 0; i < nk; i++ {
		d := int64(r.Intn(5))
		k := int64(r.U64()%2000000000000000) - 1000000000000000
		if r.Chance(1, 3) {
			k /= int64(math.Pow10(r.Intn(15)))
		}
		v, _ := strconv.ParseFloat(fmt.Sprintf("%de-%d", k, d), 64)
		s := model.NewScaledNumberType(v)
		g := s.GetValue()
		bad := !decOK(k, d, int64(*s.Number), int64(*s.Scale), g)
		if math.Abs(v) <= 1e11 && !nearOK(v, g) {
			bad = true
		}
		if bad {
			flag(hx.Zs{1, k, d})
		}
	}
	// random finite floats, |v| <= 10^11 (beyond that the clause is a recorded finding)
	nf := 600000 * mult
	for i := 0; i < nf; i++ {
		v := randFloat(r, -30, 11)
		if math.Abs(v) > 1e11 {
			continue
		}
		if !nearOK(v, model.NewScaledNumberType(v).GetValue()) {
			w := wireOf(v)
			flag(hx.Zs{0, w[0], w[1], w[2]})
		}
	}
	// durations n*100ms below 3277 days
	nd := 500000 * mult
	for i := 0; i < nd; i++ {
		ns := randDuration(r, false)
		dt := model.NewDurationType(time.Duration(ns))
		back, err := dt.GetTimeDuration()
		if err != nil || int64(back) != ns {
			flag(hx.Zs{2, ns})
		}
	}
	// whole-second instants, years 0..9999
	ni := 500000 * mult
	for i := 0; i < ni; i++ {
		sec := randInstant(r)
		a := model.NewAbsoluteOrRelativeTimeTypeFromTime(time.Unix(sec, 0))
		t, err := a.GetTime()
		if err != nil || t.Unix() != sec || t.Nanosecond() != 0 {
			flag(hx.Zs{3, sec, 0})
		}
	}
	sweepStats = map[string]any{
		"note": "Go-side search with a Go transcription of the monitor clauses (decides nothing; flagged inputs are " +
			"re-run through the extracted model and monitor as histories of their own)",
		"dense_decimals_k_in_pm_2e5_times_d_0_4": dense,
		"dense_read_back_bit_identical":          exact,
		"random_decimals_k_below_1e15":           nk,
		"random_floats_below_1e11":               nf,
		"durations_100ms_below_3277_days":        nd,
		"whole_second_instants_years_0_9999":     ni,
		"flagged":                                len(flagged),
	}
	var out [][]hx.Zs
	for _, op := range flagged {
		out = append(out, []hx.Zs{op})
	}
	return out
}

// ---------------------------------------------------------------- generators

func randFloat(r *hx.Rng, lo10, hi10 int) float64 {
	var v float64
	switch r.Pick(4, 3, 2, 2, 1) {
	case 0: // magnitude uniform in the exponent, full mantissa
		e := float64(lo10) + float64(hi10-lo10)*float64(r.U64()>>11)/float64(1<<53)
		v = math.Pow(10, e) * (1 + float64(r.U64()>>11)/float64(1<<53))
	case 1: // few decimals
		e := r.Range(0, max(hi10, 1))
		x := float64(r.U64()>>11) / float64(1<<53) * math.Pow(10, float64(e))
		v, _ = strconv.ParseFloat(strconv.FormatFloat(x, 'f', r.Range(0, 6), 64), 64)
	case 2: // integers and halves
		v = float64(int64(r.U64()>>uint(r.Range(11, 63)))) / float64(int64(1)<<uint(r.Range(0, 4)))
	case 3: // just around a power of ten or of two
		if r.Bool() {
			v = math.Pow(10, float64(r.Range(lo10/2, hi10)))
		} else {
			v = math.Ldexp(1, r.Range(-20, int(float64(hi10)*3.3)))
		}
		for j := r.Intn(4); j > 0; j-- {
			v = math.Nextafter(v, math.Inf(1-2*r.Intn(2)))
		}
	default: // product of small decimals (typical application arithmetic)
		v = float64(r.Range(1, 9999)) * 0.01 * float64(r.Range(1, 999)) * 0.1
	}
	if r.Bool() {
		v = -v
	}
	return v
}

func randAnyFloat(r *hx.Rng) float64 {
	switch r.Pick(10, 3, 2, 2, 1) {
	case 0:
		return randFloat(r, -12, 11)
	case 1:
		return randFloat(r, 11, 15)
	case 2: // any bit pattern (finite)
		for {
			v := math.Float64frombits(r.U64())
			if !math.IsNaN(v) && !math.IsInf(v, 0) {
				return v
			}
		}
	case 3: // subnormal and tiny
		return math.Float64frombits(r.U64() >> uint(r.Range(12, 63)))
	}
	return []float64{0, math.Copysign(0, -1), 1e11, -1e11, 1e14, 99999999999999.98, 0.29, 0.57, 4.35, 1.005, 0.0029, 0.00005, 0.00004999,
		math.MaxFloat64, 9007199254740993, 9.223372036854775e18, 9.3e18}[r.Intn(17)]
}

// randDuration: a multiple of 100 ms; beyond=false keeps |d| < 3277 days.
func randDuration(r *hx.Rng, beyond bool) int64 {
	var n int64
	lim := durLimit / 1e8
	switch r.Pick(3, 3, 3, 2, 2, 2) {
	case 0:
		n = int64(r.Intn(36000)) // up to an hour
	case 1:
		n = int64(r.Intn(36000 * 24 * 40)) // up to 40 days
	case 2:
		n = int64(r.U64() % uint64(lim))
	case 3: // around the 3277-hour switch
		n = 3277*36000 + int64(r.Range(-40000, 40000))
	case 4: // just below the 3277-day switch
		n = lim - 1 - int64(r.Intn(900000))
	default: // whole units
		n = int64(r.Range(0, 3276)) * []int64{10, 600, 36000, 864000}[r.Intn(4)]
		if n >= lim {
			n = lim - 1
		}
	}
	if beyond {
		switch r.Pick(2, 2, 1) {
		case 0:
			n = lim + int64(r.Intn(2000000))
		case 1:
			n = lim + int64(r.U64()%uint64(int64(math.MaxInt64/100000000)-lim))
		default:
			n = int64(r.Range(3277, 106000)) * 864000
		}
	}
	if r.Bool() {
		n = -n
	}
	return n * 1e8
}

const unixYear0 = int64(-62167219200)
const unixYear10000 = int64(253402300800)

func randInstant(r *hx.Rng) int64 {
	switch r.Pick(6, 2, 2) {
	case 0:
		return unixYear0 + int64(r.U64()%uint64(unixYear10000-unixYear0))
	case 1: // around a year boundary (leap-year rules, century years)
		y := []int{0, 1, 4, 100, 400, 1582, 1600, 1900, 1970, 2000, 2024, 2100, 2400, 9999}[r.Intn(14)]
		return time.Date(y, time.Month(r.Range(1, 12)), r.Range(1, 31), 23, 59, r.Range(0, 59), 0, time.UTC).Unix()
	}
	if r.Bool() {
		return unixYear0 + int64(r.Intn(200000))
	}
	return unixYear10000 - 1 - int64(r.Intn(200000))
}

func gen(r *hx.Rng, tier string, i int) []hx.Zs {
	var h []hx.Zs
	n := r.Range(12, 30)
	switch i % 6 {
	case 0: // the dense decimal range
		for len(h) < n {
			h = append(h, hx.Zs{1, int64(r.Range(-200000, 200000)), int64(r.Intn(5))})
		}
	case 1: // decimals up to 10^15 (and a few outside the clause's domain)
		for len(h) < n {
			k := int64(r.U64()%2000000000000000) - 1000000000000000
			if r.Chance(1, 2) {
				k /= int64(math.Pow10(r.Intn(15)))
			}
			d := int64(r.Intn(5))
			if r.Chance(1, 12) {
				d = int64(r.Range(5, 9))
			}
			h = append(h, hx.Zs{1, k, d})
		}
	case 2: // finite floats across magnitudes
		for len(h) < n {
			w := wireOf(randAnyFloat(r))
			h = append(h, hx.Zs{0, w[0], w[1], w[2]})
		}
	case 3: // durations
		for len(h) < n {
			ns := randDuration(r, r.Chance(1, 8))
			if r.Chance(1, 10) {
				ns += int64(r.Intn(100000000)) // not a multiple of 100 ms: truncated, nothing demanded
			}
			h = append(h, hx.Zs{2, ns})
		}
	case 4: // instants
		for len(h) < n {
			sec := randInstant(r)
			var ns int64
			if r.Chance(1, 5) {
				ns = []int64{1, 499999999, 500000000, 500000001, 999999999, int64(r.Intn(1000000000))}[r.Intn(6)]
			}
			if r.Chance(1, 15) {
				sec = []int64{unixYear0 - 1, unixYear10000, unixYear10000 + int64(r.Intn(1<<40)), unixYear0 - int64(r.Intn(1<<36))}[r.Intn(4)]
			}
			h = append(h, hx.Zs{3, sec, ns})
		}
	default: // relative end of a time period
		n = r.Range(6, 14)
		for len(h) < n {
			dur := randDuration(r, r.Chance(1, 10))
			if r.Chance(1, 2) {
				dur = int64(r.Range(-3000, 200000)) * 1e8
			}
			if pauseFor(dur) > time.Second && !r.Chance(1, 6) {
				dur += 1e8 // keep the long pauses rare
			}
			h = append(h, hx.Zs{4, int64(r.Intn(2)), dur, 0, 0})
		}
	}
	return h
}

func fixed(tier string) [][]hx.Zs {
	out := sweep(hx.NewRng(20240919), tier)
	// the values the property text and the design name, on every run
	var h []hx.Zs
	for _, kd := range [][2]int64{{29, 2}, {57, 2}, {435, 2}, {1005, 3}, {29, 4}, {3, 1}, {-29, 2}, {0, 0}, {10, 1}, {125952, 4}, {999999999999999, 4}, {-999999999999999, 0}} {
		h = append(h, hx.Zs{1, kd[0], kd[1]})
	}
	out = append(out, h)
	out = append(out, []hx.Zs{{2, 0}, {2, 100000000}, {2, -100000000}, {2, 3276*3600e9 + 3599900000000}, {2, 3277 * 3600e9}, {2, durLimit - 1e8}, {2, -(durLimit - 1e8)},
		{3, unixYear0, 0}, {3, unixYear10000 - 1, 0}, {3, 0, 0}, {3, 951782400, 0}, {3, 4107542400, 0}})
	return out
}

func main() {
	hx.Main(hx.Config{
		Property: "C19",
		Clauses: map[int64]string{1: "decimal-representation-inexact", 2: "decimal-readback-differs", 3: "scaled-error-exceeds-1e-4",
			4: "duration-roundtrip-inexact", 5: "instant-roundtrip-inexact", 6: "relative-end-not-remaining-duration", 7: "wrong-shape",
			98: "unparseable-observation", 99: "unparseable-operation"},
		OpNames: map[int64]string{0: "scaled(float)", 1: "scaled(decimal)", 2: "duration", 3: "instant", 4: "relative-end"},
		NewImpl: newImpl,
		Gen:     gen,
		Fixed:   fixed,
		Count:   map[string]int{"quick": 300, "thorough": 12000},
		Extra:   func() map[string]any { return map[string]any{"go_side_sweep": sweepStats} },
	})
}
