// C04 runner: write-protected elements and all-or-nothing remote writes, against
// coq/Model/FunctionStore.v + Update.v with remoteWrite=true, judged by the extracted
// monitor coq/Spec/WriteSpec.v.
//
// A history is "Init type" followed by local updates (set-up data mixing changeable,
// unchangeable and flag-less elements) and remote writes of every shape: full, partial with
// identifiers, partial without identifiers, selector, delete with selector and/or elements,
// delete combined with partial. Families (which API executes the history):
//
//	0 spine.FunctionData.UpdateData(remoteWrite=true, ...)
//	3 FeatureLocal (server role, bound peer): the write arrives as a SPINE write datagram through
//	  DeviceRemote.HandleSpineMesssage -> ProcessCmd -> FeatureLocal.HandleMessage -> executeWrite;
//	  the result code is the result datagram sent back to the peer
//
// op / obs encodings: coq/Model/FunctionStore.v (wire encoding), harness/upd/world.go.
package main

import (
	"fmt"
	"os"
	"sort"

	"verifharness/hx"
	"verifharness/upd"
)

var types = upd.Types(nil)

var flagged []*upd.TypeInfo // the list types whose elements carry a writecheck flag
var others []*upd.TypeInfo
var perType = map[string]int{}
var perFamily = map[string]int{}
var shapes = map[string]int{}

func init() {
	for _, ti := range types {
		if len(ti.Keys) == 0 || !ti.Usable() {
			continue
		}
		if len(ti.WC) == 1 {
			flagged = append(flagged, ti)
		} else {
			others = append(others, ti)
		}
	}
	if len(flagged) == 0 {
		fmt.Fprintln(os.Stderr, "c04: no list data type with a writecheck field found")
		os.Exit(3)
	}
}

type impl struct {
	w   *upd.World
	fam int
}

func newImpl() hx.Impl { return &impl{} }

func (m *impl) Close() {
	if m.w != nil {
		m.w.Close()
	}
}

func (m *impl) Exec(op hx.Zs) []hx.Zs {
	if len(op) == 4 && op[0] == 0 {
		if m.w != nil {
			m.w.Close()
		}
		m.fam = int(op[3])
		m.w = upd.NewWorld(types, m.fam, false)
	}
	if m.w == nil {
		return []hx.Zs{{97}}
	}
	obs := m.w.Exec(op)
	lastFam = m.fam
	if len(op) > 0 && op[0] == 3 && len(obs) > 1 && len(obs[0]) == 2 {
		shapes[fmt.Sprintf("overlaps-write-answered-%d", obs[0][1])]++
	}
	if len(op) > 3 && op[0] == 1 && op[1] == 1 && len(obs) > 0 && len(obs[0]) == 2 {
		switch obs[0][1] {
		case 0:
			shapes["remote-writes-accepted"]++
		case 1:
			shapes["remote-writes-rejected"]++
		default:
			shapes["remote-writes-panicked-or-unanswered"]++
		}
	}
	return obs
}

var lastFam int

// the FeatureLocal API (family 3) does not hand the resulting data back: drop the model's Ret there
func canon(op hx.Zs, obs []hx.Zs) []hx.Zs {
	if len(op) > 0 && op[0] == 1 && !upd.ReturnsData(lastFam, op) {
		var out []hx.Zs
		for _, o := range obs {
			if len(o) > 0 && o[0] == 11 {
				continue
			}
			out = append(out, o)
		}
		return out
	}
	return obs
}

func gen(r *hx.Rng, tier string, i int) []hx.Zs {
	if i%25 == 3 {
		// a remote write overlapped by a local update of other elements of a long list
		ti := flagged[(i/25)%len(flagged)]
		perType[string(ti.Function)]++
		perFamily["3"]++
		shapes["overlap-histories"]++
		return ti.GenOverlapHistory(r, 8)
	}
	if i%25 == 5 || i%25 == 14 {
		// stored lists with repeated identifiers / elements without identifier, then writes on the Merge path
		ti := flagged[(i/25)%len(flagged)]
		fam := 3 * (i % 2)
		perType[string(ti.Function)]++
		perFamily[fmt.Sprint(fam)]++
		shapes["duplicate-identifier-histories"]++
		return ti.GenDuplicateHistory(r, fam)
	}
	if i%25 == 11 || i%25 == 19 {
		// sub-element deletes on elements that share a value object / refused with a protected element
		ti := flagged[(i/25)%len(flagged)]
		fam := 3 * (i % 2)
		perType[string(ti.Function)]++
		perFamily[fmt.Sprint(fam)]++
		shapes["sub-element-histories"]++
		return ti.GenSubElementHistory(r, fam)
	}
	var ti *upd.TypeInfo
	if i%8 != 7 {
		ti = flagged[i%len(flagged)]
	} else {
		ti = others[(i/8)%len(others)] // a type without flag: nothing is protected
	}
	fam := 0
	if r.Chance(3, 5) {
		fam = 3
	}
	cfg := upd.GenCfg{Family: fam, RemotePct: 55, IllPct: 0, FlagFields: true, SubElems: true, MaxLen: 7}
	h := ti.GenHistory(r, cfg)
	perType[string(ti.Function)]++
	perFamily[fmt.Sprint(fam)]++
	for _, op := range h {
		if len(op) > 3 && op[0] == 1 && op[1] == 1 {
			shapes["remote-writes"]++
		}
	}
	return h
}

func main() {
	hx.Main(hx.Config{
		Property: "C04",
		Clauses: map[int64]string{1: "protected-element-modified-or-deleted", 2: "flag-altered",
			3: "unaddressed-element-changed", 4: "acceptance-not-decided-by-addressed-elements", 5: "data-changed-by-rejected-write",
			6: "accepted-write-not-fully-applied", 7: "malformed-observation", 8: "overlapping-update-lost", 98: "unparseable-observation", 99: "unparseable-operation"},
		OpNames: map[int64]string{0: "init", 1: "update", 2: "snapshot", 3: "overlap"},
		NewImpl: newImpl,
		Gen:     gen,
		Canon:   canon,
		Count:   map[string]int{"quick": 15000, "thorough": 300000},
		Extra: func() map[string]any {
			names := make([]string, 0, len(perType))
			for n := range perType {
				names = append(names, n)
			}
			sort.Strings(names)
			var fl []string
			for _, ti := range flagged {
				fl = append(fl, string(ti.Function))
			}
			return map[string]any{"flagged_list_types": fl, "types_exercised": len(perType), "histories_per_type": perType,
				"histories_per_family": perFamily, "counts": shapes}
		},
	})
}
