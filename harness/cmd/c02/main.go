// C02 runner: the restricted-function-exchange update engine of spine-go against
// coq/Model/FunctionStore.v + Update.v, for every registered list data type.
//
// A history is "Init type family-directness" followed by updates of every filter
// shape; the family (which API the updates go through) is chosen per history:
//
//	0 spine.FunctionData.UpdateData   1 the per-type UpdateList method on a bare data object
//	2 FeatureRemote.UpdateData + inbound notify / reply   3 FeatureLocal.UpdateData / SetData
//
// op / obs encodings: coq/Model/FunctionStore.v (wire encoding), harness/upd/world.go.
package main

import (
	"fmt"
	"os"
	"sort"

	"verifharness/hx"
	"verifharness/upd"
)

var types = upd.Types(nil)

// the types the quick tier concentrates on: a writecheck type, multi-key types (numeric,
// numeric+string), a struct-key type, selectors with ignored / non-key fields
var representative = []string{
	"loadControlLimitListData", "measurementListData", "electricalConnectionCharacteristicListData",
	"networkManagementDeviceDescriptionListData", "deviceConfigurationKeyValueListData", "billListData",
	"electricalConnectionPermittedValueSetListData", "timeSeriesListData",
}

var usable []*upd.TypeInfo
var repr []*upd.TypeInfo
var perType = map[string]int{}
var perFamily = map[string]int{}

func init() {
	for _, ti := range types {
		if len(ti.Keys) == 0 || !ti.Usable() {
			continue // no identifier at all (nodeManagementDestinationListData): the rules do not apply
		}
		usable = append(usable, ti)
		for _, n := range representative {
			if string(ti.Function) == n {
				repr = append(repr, ti)
			}
		}
	}
	if len(usable) == 0 || len(repr) == 0 {
		fmt.Fprintln(os.Stderr, "c02: no usable list data type found")
		os.Exit(3)
	}
}

// the family of a history is recorded by the generator and looked up by its Init operation
type impl struct {
	w   *upd.World
	fam int
}

// the family travels as the fourth number of Init (ignored by the model)
func famOf(op hx.Zs) int { return int(op[3]) }

func newImpl() hx.Impl { return &impl{} }

func (m *impl) Close() {
	if m.w != nil {
		m.w.Close()
	}
}

func (m *impl) Exec(op hx.Zs) []hx.Zs {
	if len(op) == 4 && op[0] == 0 {
		if m.w != nil {
			m.w.Close()
		}
		m.fam = famOf(op)
		m.w = upd.NewWorld(types, m.fam, false)
	}
	if m.w == nil {
		return []hx.Zs{{97}}
	}
	obs := m.w.Exec(op)
	lastFam = m.fam
	if len(op) > 3 && op[0] == 1 && len(obs) > 0 && len(obs[0]) == 2 && obs[0][0] == 10 {
		kind := "local"
		if op[1] != 0 {
			kind = "remote-write"
		} else if op[3] != 0 {
			kind = "notify-or-reply"
		}
		switch obs[0][1] {
		case 0:
			results["applied-or-dry-run:"+kind]++
		case 1:
			results["rejected:"+kind]++
			rejected++
		default:
			results[fmt.Sprintf("code-%d:%s", obs[0][1], kind)]++
		}
	}
	return obs
}

var lastFam int
var results = map[string]int{}
var rejected int

// the APIs of families 2 (wire) and 3 do not hand the resulting data back: drop the model's Ret there
func canon(op hx.Zs, obs []hx.Zs) []hx.Zs {
	if len(op) > 0 && op[0] == 1 && !upd.ReturnsData(lastFam, op) {
		var out []hx.Zs
		for _, o := range obs {
			if len(o) > 0 && o[0] == 11 {
				continue
			}
			out = append(out, o)
		}
		return out
	}
	return obs
}

func gen(r *hx.Rng, tier string, i int) []hx.Zs {
	var ti *upd.TypeInfo
	if i%3 != 0 {
		ti = repr[(i/3)%len(repr)]
	} else {
		ti = usable[(i/3)%len(usable)]
	}
	fam := r.Pick(4, 2, 3, 3)
	cfg := upd.GenCfg{Family: fam, IllPct: 6, NoPersist: true}
	if fam != 1 {
		// rejected updates go through FunctionData only (a bare data object has nothing that keeps a
		// rejected update from its list); remote writes exist for FunctionData itself and FeatureLocal
		cfg.RejectPct = 10
		if fam == 0 || fam == 3 {
			cfg.RemotePct = 15
			cfg.FlagFields = true
		}
	}
	h := ti.GenHistory(r, cfg)
	perType[string(ti.Function)]++
	perFamily[fmt.Sprint(fam)]++
	return h
}

func main() {
	hx.Main(hx.Config{
		Property: "C02",
		Clauses: map[int64]string{1: "fold-mismatch-after-ill-formed-update-list", 2: "duplicate-or-missing-identifier-after-ill-formed-update-list",
			3: "not-ordered-after-ill-formed-update-list", 4: "not-idempotent-after-ill-formed-update-list", 5: "malformed-observation",
			98: "unparseable-observation", 99: "unparseable-operation"},
		OpNames: map[int64]string{0: "init", 1: "update", 2: "snapshot"},
		NewImpl: newImpl,
		Gen:     gen,
		Canon:   canon,
		Count:   map[string]int{"quick": 15000, "thorough": 300000},
		Extra: func() map[string]any {
			names := make([]string, 0, len(perType))
			for n := range perType {
				names = append(names, n)
			}
			sort.Strings(names)
			return map[string]any{"registered_list_types": len(types), "types_exercised": len(perType), "histories_per_type": perType,
				"histories_per_family": perFamily, "update_results": results, "rejected_updates": rejected}
		},
	})
}
