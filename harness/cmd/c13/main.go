// C13 runner: spine.Sender against the model coq/Model/Sender.v.
//
// op encoding (parse_op in Sender.v):
//
//	0 h    Request for hash id h = dst*8 + cmd   (cmd 0..3 reads, 4 Subscribe, 5 Bind, 6 Unsubscribe, 7 Unbind)
//	1 [r]  ProcessResponseForMsgCounterReference(nil | r)
//	2 p    Notify with payload id p
//	3 k    k=2 Reply, 3 result (success/error alternating on p), 4 Write
//	4 c    DatagramForMsgCounter(c)
//	5 k..  overlapping calls of kinds k.. (as for op 3), one goroutine each, released together
//	6 p    Notify with payload id p, looked up by its counter from inside the connection writer
//
// obs encoding (print_obs): 0 c k p = datagram written; 1 c = returned counter; 2 p = found; 3 = not found.
package main

import (
	"encoding/json"
	"fmt"
	"sort"
	"sync"
	"sync/atomic"

	"github.com/enbility/spine-go/api"
	"github.com/enbility/spine-go/model"
	"github.com/enbility/spine-go/spine"
	"github.com/enbility/spine-go/util"

	"verifharness/hx"
)

type writer struct {
	mu    sync.Mutex
	msgs  [][]byte
	probe func(msg []byte) // called while the connection is being handed a datagram (op 6)
}

func (w *writer) WriteShipMessageWithPayload(msg []byte) {
	w.mu.Lock()
	p := w.probe
	w.msgs = append(w.msgs, append([]byte(nil), msg...))
	w.mu.Unlock()
	if p != nil {
		p(msg)
	}
}

func (w *writer) take() [][]byte {
	w.mu.Lock()
	defer w.mu.Unlock()
	m := w.msgs
	w.msgs = nil
	return m
}

const nCmd = 8

func devAddr(d int64) *model.AddressDeviceType {
	return util.Ptr(model.AddressDeviceType(fmt.Sprintf("d%d", d)))
}

func featAddr(d int64) *model.FeatureAddressType {
	return &model.FeatureAddressType{Device: devAddr(d), Entity: []model.AddressEntityType{1}, Feature: util.Ptr(model.AddressFeatureType(1))}
}

var localAddr = &model.FeatureAddressType{Device: devAddr(0), Entity: []model.AddressEntityType{1}, Feature: util.Ptr(model.AddressFeatureType(2))}

func readCmd(c int64) model.CmdType {
	switch c {
	case 0:
		return model.CmdType{MeasurementListData: &model.MeasurementListDataType{}}
	case 1:
		return model.CmdType{LoadControlLimitListData: &model.LoadControlLimitListDataType{}}
	case 2:
		return model.CmdType{DeviceDiagnosisStateData: &model.DeviceDiagnosisStateDataType{}}
	}
	return model.CmdType{ElectricalConnectionDescriptionListData: &model.ElectricalConnectionDescriptionListDataType{}}
}

func cmdID(c model.CmdType) int64 {
	switch {
	case c.MeasurementListData != nil:
		return 0
	case c.LoadControlLimitListData != nil:
		return 1
	case c.DeviceDiagnosisStateData != nil:
		return 2
	case c.ElectricalConnectionDescriptionListData != nil:
		return 3
	case c.NodeManagementSubscriptionRequestCall != nil:
		return 4
	case c.NodeManagementBindingRequestCall != nil:
		return 5
	case c.NodeManagementSubscriptionDeleteCall != nil:
		return 6
	case c.NodeManagementBindingDeleteCall != nil:
		return 7
	}
	return 99
}

type impl struct {
	w *writer
	s api.SenderInterface
	n int64
	// device mode (a history that starts with Request 99): the Sender is the one of a DeviceRemote set
	// up on a real DeviceLocal, and responses arrive as datagrams through DeviceRemote.HandleSpineMesssage
	dev    *spine.DeviceLocal
	remote api.DeviceRemoteInterface
	inCtr  uint64
	// hash of the request the previous operation issued and got a counter for, else -1
	lastReq int64
}

const discoveryHash = 99
const devSki = "ski-c13"

func newImpl() hx.Impl {
	w := &writer{}
	return &impl{w: w, s: spine.NewSender(w), lastReq: -1}
}

func (m *impl) Close() {
	if m.dev != nil {
		m.dev.RemoveRemoteDevice(devSki)
	}
}

// setupDevice switches to device mode; SetupRemoteDevice itself sends the first request (the
// detailed discovery read), which is the operation Request 99.
func (m *impl) setupDevice() {
	m.dev = spine.NewDeviceLocal("brand", "model", "serial", "code", "d0", model.DeviceTypeTypeEnergyManagementSystem, model.NetworkManagementFeatureSetTypeSmart)
	rd := m.dev.SetupRemoteDevice(devSki, m.w)
	m.remote = rd.(api.DeviceRemoteInterface)
	m.s = m.remote.Sender()
}

// a response datagram of the peer referencing counter ref: a result for the local node management
// (accepted by ProcessCmd) when ref is even, a result for a local feature that does not exist
// (rejected by ProcessCmd, nothing is written) when ref is odd; either way it answers request ref
func (m *impl) inboundResponse(ref int64) {
	m.inCtr++
	nm := func() *model.FeatureAddressType {
		return &model.FeatureAddressType{Entity: []model.AddressEntityType{0}, Feature: util.Ptr(model.AddressFeatureType(0))}
	}
	dst := nm()
	dst.Device = devAddr(0)
	if ref%2 != 0 {
		dst.Entity = []model.AddressEntityType{9}
		dst.Feature = util.Ptr(model.AddressFeatureType(9))
	}
	d := model.Datagram{Datagram: model.DatagramType{
		Header: model.HeaderType{
			SpecificationVersion: util.Ptr(model.SpecificationVersionType("1.3.0")),
			AddressSource:        nm(),
			AddressDestination:   dst,
			MsgCounter:           util.Ptr(model.MsgCounterType(m.inCtr)),
			MsgCounterReference:  util.Ptr(model.MsgCounterType(ref)),
			CmdClassifier:        util.Ptr(model.CmdClassifierTypeResult),
		},
		Payload: model.PayloadType{Cmd: []model.CmdType{{ResultData: &model.ResultDataType{ErrorNumber: util.Ptr(model.ErrorNumberType(0))}}}},
	}}
	b, _ := json.Marshal(d)
	_, _ = m.remote.HandleSpineMesssage(b)
}

func (m *impl) written() []hx.Zs {
	var out []hx.Zs
	for _, b := range m.w.take() {
		var d model.Datagram
		if err := json.Unmarshal(b, &d); err != nil {
			out = append(out, hx.Zs{97})
			continue
		}
		h := d.Datagram.Header
		var ctr int64 = -1
		if h.MsgCounter != nil {
			ctr = int64(*h.MsgCounter)
		}
		var kind, p int64 = 99, 0
		if h.CmdClassifier != nil {
			switch *h.CmdClassifier {
			case model.CmdClassifierTypeRead, model.CmdClassifierTypeCall:
				kind = 0
				var dst int64 = -1
				if h.AddressDestination != nil && h.AddressDestination.Device != nil {
					fmt.Sscanf(string(*h.AddressDestination.Device), "d%d", &dst)
				}
				if len(d.Datagram.Payload.Cmd) == 1 && d.Datagram.Payload.Cmd[0].NodeManagementDetailedDiscoveryData != nil {
					p = discoveryHash
				} else if len(d.Datagram.Payload.Cmd) == 1 {
					p = dst*nCmd + cmdID(d.Datagram.Payload.Cmd[0])
				} else {
					p = -1
				}
			case model.CmdClassifierTypeNotify:
				kind = 1
				p = payloadID(d.Datagram)
			case model.CmdClassifierTypeReply:
				kind = 2
			case model.CmdClassifierTypeResult:
				kind = 3
			case model.CmdClassifierTypeWrite:
				kind = 4
			}
		}
		out = append(out, hx.Zs{0, ctr, kind, p})
	}
	return out
}

func payloadID(d model.DatagramType) int64 {
	if len(d.Payload.Cmd) == 1 && d.Payload.Cmd[0].DeviceDiagnosisHeartbeatData != nil &&
		d.Payload.Cmd[0].DeviceDiagnosisHeartbeatData.HeartbeatCounter != nil {
		return int64(*d.Payload.Cmd[0].DeviceDiagnosisHeartbeatData.HeartbeatCounter)
	}
	return -1
}

func notifyCmd(p int64) model.CmdType {
	return model.CmdType{DeviceDiagnosisHeartbeatData: &model.DeviceDiagnosisHeartbeatDataType{HeartbeatCounter: util.Ptr(uint64(p))}}
}

func (m *impl) other(k int64) {
	req := &model.HeaderType{AddressSource: featAddr(1), AddressDestination: localAddr, MsgCounter: util.Ptr(model.MsgCounterType(7))}
	switch k {
	case 2:
		m.s.Reply(req, localAddr, readCmd(0))
	case 3:
		if atomic.AddInt64(&m.n, 1)%2 == 0 {
			m.s.ResultSuccess(req, localAddr)
		} else {
			m.s.ResultError(req, localAddr, model.NewErrorTypeFromString("x"))
		}
	default:
		m.s.Write(localAddr, featAddr(1), readCmd(1))
	}
}

func (m *impl) Exec(op hx.Zs) []hx.Zs {
	out := m.exec1(op)
	// a request that has just returned a counter is unanswered now (sent or withheld): only then may the
	// next operation overlap a repetition of it with other calls (operation 7)
	m.lastReq = -1
	if op[0] == 0 && op[1] != discoveryHash {
		for _, o := range out {
			if len(o) == 2 && o[0] == 1 {
				m.lastReq = op[1]
			}
		}
	}
	return out
}

func (m *impl) request(h int64) *model.MsgCounterType {
	dst, c := h/nCmd, h%nCmd
	var ctr *model.MsgCounterType
	switch c {
	case 4:
		ctr, _ = m.s.Subscribe(localAddr, featAddr(dst), model.FeatureTypeTypeMeasurement)
	case 5:
		ctr, _ = m.s.Bind(localAddr, featAddr(dst), model.FeatureTypeTypeMeasurement)
	case 6:
		ctr, _ = m.s.Unsubscribe(localAddr, featAddr(dst))
	case 7:
		ctr, _ = m.s.Unbind(localAddr, featAddr(dst))
	default:
		ctr, _ = m.s.Request(model.CmdClassifierTypeRead, localAddr, featAddr(dst), false, []model.CmdType{readCmd(c)})
	}
	return ctr
}

func (m *impl) exec1(op hx.Zs) []hx.Zs {
	var ret []hx.Zs
	switch op[0] {
	case 8:
		// Request h; while its datagram is inside the connection writer the response for counter r is
		// processed (synchronously from the writer: on main only the request lock is held there, which
		// response processing does not take).  A withheld request writes nothing: no response then.
		h, r := op[1], op[2]
		done := false
		m.w.mu.Lock()
		m.w.probe = func([]byte) {
			if done {
				return
			}
			done = true
			if m.remote != nil {
				m.inboundResponse(r)
			} else {
				m.s.ProcessResponseForMsgCounterReference(util.Ptr(model.MsgCounterType(r)))
			}
		}
		m.w.mu.Unlock()
		ctr := m.request(h)
		m.w.mu.Lock()
		m.w.probe = nil
		m.w.mu.Unlock()
		if ctr != nil {
			ret = append(ret, hx.Zs{1, int64(*ctr)})
		}
		return append(m.written(), ret...)
	case 7:
		// a repetition of the request that is unanswered, overlapped by other calls: it must be withheld
		// (no counter, no datagram) wherever it falls among them.  Without the guarantee that it is
		// unanswered the two parts run one after the other, which is the model's composition literally.
		h, kinds := op[1], op[2:]
		if m.lastReq != h || h == discoveryHash {
			r1 := m.exec1(hx.Zs{0, h})
			return append(r1, m.exec1(append(hx.Zs{5}, kinds...))...)
		}
		start := make(chan struct{})
		var wg sync.WaitGroup
		var got *model.MsgCounterType
		wg.Add(1)
		go func() {
			defer wg.Done()
			<-start
			got = m.request(h)
		}()
		for _, k := range kinds {
			wg.Add(1)
			go func(k int64) {
				defer wg.Done()
				<-start
				m.other(k)
			}(k)
		}
		close(start)
		wg.Wait()
		if got != nil {
			ret = append(ret, hx.Zs{1, int64(*got)})
		}
		return append(ret, m.pairBurst(kinds)...)
	case 0:
		h := op[1]
		if h == discoveryHash {
			var ctr *model.MsgCounterType
			if m.dev == nil {
				m.setupDevice()
				ws := m.written()
				for _, w := range ws { // SetupRemoteDevice does not return the counter: it is the one written
					if len(w) == 4 && w[0] == 0 {
						ws = append(ws, hx.Zs{1, w[1]})
						break
					}
				}
				return ws
			}
			ctr, _ = m.dev.RequestRemoteDetailedDiscoveryData(m.remote)
			if ctr != nil {
				ret = append(ret, hx.Zs{1, int64(*ctr)})
			}
			return append(m.written(), ret...)
		}
		ctr := m.request(h)
		if ctr != nil {
			ret = append(ret, hx.Zs{1, int64(*ctr)})
		}
	case 1:
		if len(op) == 1 {
			m.s.ProcessResponseForMsgCounterReference(nil)
		} else if m.remote != nil {
			m.inboundResponse(op[1])
		} else {
			m.s.ProcessResponseForMsgCounterReference(util.Ptr(model.MsgCounterType(op[1])))
		}
	case 2:
		ctr, _ := m.s.Notify(localAddr, featAddr(1), notifyCmd(op[1]))
		if ctr != nil {
			ret = append(ret, hx.Zs{1, int64(*ctr)})
		}
	case 3:
		m.other(op[1])
	case 6:
		// Notify whose datagram is looked up by its counter from inside the connection writer, i.e. while
		// Notify has not returned yet (a fast peer's error result is processed on the reader goroutine)
		var probed []hx.Zs
		m.w.mu.Lock()
		m.w.probe = func(msg []byte) {
			var d model.Datagram
			if json.Unmarshal(msg, &d) != nil || d.Datagram.Header.MsgCounter == nil {
				probed = append(probed, hx.Zs{97})
				return
			}
			dg, err := m.s.DatagramForMsgCounter(*d.Datagram.Header.MsgCounter)
			if err != nil {
				probed = append(probed, hx.Zs{3})
			} else {
				probed = append(probed, hx.Zs{2, payloadID(dg)})
			}
		}
		m.w.mu.Unlock()
		ctr, _ := m.s.Notify(localAddr, featAddr(1), notifyCmd(op[1]))
		m.w.mu.Lock()
		m.w.probe = nil
		m.w.mu.Unlock()
		if ctr != nil {
			ret = append(ret, hx.Zs{1, int64(*ctr)})
		}
		return append(append(m.written(), ret...), probed...)
	case 5:
		// overlapping calls: one goroutine per kind, released together; the written datagrams are
		// sorted by counter and paired with the kinds in the order given when the multiset of kinds
		// is the expected one (which goroutine obtained which counter is the schedule's business)
		kinds := op[1:]
		start := make(chan struct{})
		var wg sync.WaitGroup
		for _, k := range kinds {
			wg.Add(1)
			go func(k int64) {
				defer wg.Done()
				<-start
				m.other(k)
			}(k)
		}
		close(start)
		wg.Wait()
		return m.pairBurst(kinds)
	case 4:
		d, err := m.s.DatagramForMsgCounter(model.MsgCounterType(op[1]))
		if err != nil {
			ret = append(ret, hx.Zs{3})
		} else {
			ret = append(ret, hx.Zs{2, payloadID(d)})
		}
	}
	return append(m.written(), ret...)
}

// the datagrams written by overlapping calls, sorted by counter and paired with the kinds in the
// order given when the multiset of kinds is the expected one
func (m *impl) pairBurst(kinds []int64) []hx.Zs {
	ws := m.written()
	sort.SliceStable(ws, func(i, j int) bool { return len(ws[i]) > 1 && len(ws[j]) > 1 && ws[i][1] < ws[j][1] })
	want := map[int64]int{}
	for _, k := range kinds {
		want[k]++
	}
	same := len(ws) == len(kinds)
	for _, w := range ws {
		if len(w) == 4 {
			want[w[2]]--
		}
	}
	for _, v := range want {
		if v != 0 {
			same = false
		}
	}
	if same {
		for i := range ws {
			ws[i][2] = kinds[i]
		}
	}
	return ws
}

// ---- generator

func gen(r *hx.Rng, tier string, i int) []hx.Zs {
	var h []hx.Zs
	var issued, reqCtrs, notifCtrs []int64 // predicted counters (the model's numbering: every write takes the next)
	next := int64(0)
	unans := map[int64]int64{}
	take := func() int64 { next++; issued = append(issued, next); return next }
	request := func(hash int64) {
		h = append(h, hx.Zs{0, hash})
		for _, v := range unans {
			if v == hash {
				return
			}
		}
		c := take()
		unans[c] = hash
		reqCtrs = append(reqCtrs, c)
	}
	notify := func() {
		c := take()
		notifCtrs = append(notifCtrs, c)
		code := int64(2)
		if r.Chance(1, 5) {
			code = 6 // looked up from inside the connection writer
		}
		h = append(h, hx.Zs{code, int64(1000 + r.Intn(5000))})
		_ = c
	}
	lookup := func() {
		var c int64
		switch r.Pick(5, 2, 1, 1) {
		case 0:
			if len(notifCtrs) > 0 {
				k := len(notifCtrs) - 1 - r.Intn(min(len(notifCtrs), 110))
				c = notifCtrs[k]
			}
		case 1:
			if len(notifCtrs) > 0 {
				c = notifCtrs[r.Intn(len(notifCtrs))]
			}
		case 2:
			if len(issued) > 0 {
				c = issued[r.Intn(len(issued))]
			}
		default:
			c = next + int64(r.Intn(5))
		}
		h = append(h, hx.Zs{4, c})
	}
	response := func() {
		switch r.Pick(6, 2, 1, 1) {
		case 0:
			if len(reqCtrs) > 0 {
				c := reqCtrs[len(reqCtrs)-1-r.Intn(min(len(reqCtrs), 25))]
				delete(unans, c)
				h = append(h, hx.Zs{1, c})
				return
			}
			h = append(h, hx.Zs{1, 1})
		case 1:
			h = append(h, hx.Zs{1, next + int64(r.Intn(50))})
		case 2:
			if len(issued) > 0 {
				c := issued[r.Intn(len(issued))]
				delete(unans, c)
				h = append(h, hx.Zs{1, c})
				return
			}
			h = append(h, hx.Zs{1})
		default:
			h = append(h, hx.Zs{1})
		}
	}
	other := func() {
		take()
		h = append(h, hx.Zs{3, []int64{2, 3, 4}[r.Intn(3)]})
	}
	burst := func() {
		n := r.Range(2, 16)
		op := hx.Zs{5}
		for j := 0; j < n; j++ {
			take()
			op = append(op, []int64{2, 3, 4}[r.Intn(3)])
		}
		h = append(h, op)
	}
	// a repetition of a request that is unanswered, overlapped by other calls: the request first (so that
	// it is unanswered for certain), then the overlapped repetition, which takes no counter
	dupBurst := func() {
		hash := int64(r.Intn(4))*nCmd + int64(r.Intn(nCmd))
		request(hash)
		n := r.Range(1, 12)
		op := hx.Zs{7, hash}
		for j := 0; j < n; j++ {
			take()
			op = append(op, []int64{2, 3, 4}[r.Intn(3)])
		}
		h = append(h, op)
	}
	// a response processed while another request is being written, then the answered request again: it
	// must be sent anew (seed C13-l rebuilt the cache from a snapshot taken before the write)
	respDuring := func() {
		var pend []int64
		for c := range unans {
			pend = append(pend, c)
		}
		if len(pend) == 0 {
			request(int64(r.Intn(4))*nCmd + int64(r.Intn(nCmd)))
			return
		}
		sort.Slice(pend, func(a, b int) bool { return pend[a] < pend[b] })
		a := pend[r.Intn(len(pend))]
		ha := unans[a]
		hb := int64(r.Intn(4))*nCmd + int64(r.Intn(nCmd))
		for hb == ha {
			hb = int64(r.Intn(4))*nCmd + int64(r.Intn(nCmd))
		}
		withheld := false
		for _, v := range unans {
			if v == hb {
				withheld = true
			}
		}
		h = append(h, hx.Zs{8, hb, a})
		if !withheld {
			c := take()
			delete(unans, a)
			unans[c] = hb
			reqCtrs = append(reqCtrs, c)
			request(ha)
		}
	}
	nDst := int64(4)
	if i%6 == 5 { // device mode: responses arrive as datagrams through DeviceRemote.HandleSpineMesssage
		request(discoveryHash)
		n := r.Range(6, 40)
		for len(h) < n {
			if r.Chance(1, 8) {
				respDuring()
				continue
			}
			switch r.Pick(40, 30, 10, 10, 10) {
			case 0:
				if r.Chance(1, 3) {
					request(discoveryHash)
				} else {
					request(int64(r.Intn(int(nDst)))*nCmd + int64(r.Intn(nCmd)))
				}
			case 1:
				response()
			case 2:
				notify()
			case 3:
				other()
			default:
				lookup()
			}
		}
		return h
	}
	if i%5 == 4 { // concurrent use: bursts of overlapping calls between sequential operations
		n := r.Range(6, 40)
		for len(h) < n {
			switch r.Pick(50, 15, 10, 10, 10, 5, 25) {
			case 6:
				dupBurst()
			case 0:
				burst()
			case 1:
				request(int64(r.Intn(int(nDst)))*nCmd + int64(r.Intn(nCmd)))
			case 2:
				notify()
			case 3:
				other()
			case 4:
				response()
			default:
				lookup()
			}
		}
		return h
	}
	switch kind := i % 4; kind {
	case 0: // mixed
		n := r.Range(8, 70)
		for len(h) < n {
			if r.Chance(1, 8) {
				respDuring()
				continue
			}
			switch r.Pick(35, 20, 22, 10, 13) {
			case 0:
				request(int64(r.Intn(int(nDst)))*nCmd + int64(r.Intn(nCmd)))
			case 1:
				response()
			case 2:
				notify()
			case 3:
				other()
			default:
				lookup()
			}
		}
	case 1: // request flood: more than 20 unanswered, then re-requests and late responses
		n := r.Range(22, 32)
		perm := make([]int64, nDst*nCmd)
		for j := range perm {
			perm[j] = int64(j)
		}
		for j := len(perm) - 1; j > 0; j-- {
			k := r.Intn(j + 1)
			perm[j], perm[k] = perm[k], perm[j]
		}
		for j := 0; j < n; j++ {
			request(perm[j])
			if r.Chance(1, 6) {
				other()
			}
			if r.Chance(1, 10) {
				response()
			}
		}
		m := r.Range(5, 40)
		for j := 0; j < m; j++ {
			switch r.Pick(6, 3, 1) {
			case 0:
				request(perm[r.Intn(n)])
			case 1:
				response()
			default:
				notify()
			}
		}
	case 2: // notification flood, lookups only at the end (in scope of the retrieval clause)
		n := r.Range(90, 230)
		for j := 0; j < n; j++ {
			notify()
			if r.Chance(1, 8) {
				other()
			}
			if r.Chance(1, 12) {
				request(int64(r.Intn(int(nDst) * nCmd)))
			}
		}
		m := r.Range(3, 25)
		for j := 0; j < m; j++ {
			lookup()
		}
	default: // notification flood with interleaved lookups (leaves the scope: recorded finding)
		n := r.Range(100, 240)
		for j := 0; j < n; j++ {
			notify()
			if j > 95 && r.Chance(1, 6) {
				lookup()
			}
		}
		for j := 0; j < 10; j++ {
			lookup()
		}
	}
	return h
}

func main() {
	hx.Main(hx.Config{
		Property: "C13",
		Clauses: map[int64]string{1: "counter-duplicated", 2: "counter-not-increasing", 3: "withheld-without-unanswered-identical-request",
			4: "wrong-datagram-or-return", 5: "lru-get-refreshes-recency", 6: "retrieved-wrong-datagram", 98: "unparseable-observation", 99: "unparseable-operation"},
		OpNames: map[int64]string{0: "request", 1: "response", 2: "notify", 3: "reply/result/write", 4: "lookup", 5: "burst (overlapping calls)", 7: "repeated request overlapped by other calls", 8: "response processed while a request is being written", 6: "notify probed while written"},
		NewImpl: newImpl,
		Gen:     gen,
		Count:   map[string]int{"quick": 400, "thorough": 20000},
	})
}
