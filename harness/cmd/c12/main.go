// C12 runner: the write-approval bookkeeping of a real spine.FeatureLocal (HandleMessage write
// branch, addPendingApproval, ApproveOrDenyWrite, the approval timers, CleanWriteApprovalCaches
// through DeviceLocal.RemoveRemoteDevice) against the scheduled model coq/Model/Approval.v.
//
// World: one local device with a LoadControl server feature (loadControlLimitListData
// writable) on entity [1]; peers are real remote devices (SetupRemoteDevice, detailed discovery
// reply, binding request of their LoadControl client feature), so every write passes the
// binding / write-permission gate of DeviceLocal.ProcessCmd before it reaches HandleMessage.
// Peers with an odd number never announce a device address (discovery reply without deviceAddress,
// datagrams without device part: the stack serves them by their connection; a peer that never answers
// discovery has no known features, so its writes never reach HandleMessage and it is not part of this
// world); peers 2 and 3 (mod 4) are removed through RemoveRemoteDeviceConnection, the others through
// RemoveRemoteDevice - always the real teardown path, never CleanWriteApprovalCaches directly.
// Reconnects: model peer q is incarnation q/4 of connection slot q%4; all incarnations of a slot use the
// same SKI and device address, so after `6 0` the operations of peer 4 are "peer 0 reconnected"
// (SetupRemoteDevice, discovery reply and binding redone).  The model treats incarnations as different
// peers (its Clean empties the pending/tally state of the removed one, a later write is a first write);
// the stack keys its approval maps by SKI.  A history that uses an incarnation while another one of the
// slot is connected, or repeats a msgCounter on one SKI, is not realisable (observation 96).
// A panic of a call into the stack is recovered and becomes the observation 16 k (k as for 15).
// Busy callbacks: field 5 of an arrival is rank + 1000 * (bit set of busy callbacks); the model ignores the
// field.  The callback function of a busy (write, callback) pair records the presentation and then does
// not return: it waits until the schedule gives that pair its verdict - Lookup and Commit then run on the
// callback's own goroutine, inside the callback function - or until Close (a silent callback that never
// returns).  Every callback is started on a goroutine of its own by the stack, so the presentation to the
// other callbacks, their verdicts and the timeout are independent of it.
// The approval callbacks only record that they were called; the verdicts are given by the
// schedule: `Lookup` starts ApproveOrDenyWrite on a goroutine of its own, which the hook
// "ApproveOrDenyWrite.lookedup" (build tag verif) parks between the lookup of the pending
// entry and the commit; `Commit` lets it finish.  The approval timeout is real: before each
// write arrives SetWriteApprovalTimeout is set so that its timer expires at slot*T after the
// start of the history (slot = rank of the write's Expire operation; 0 = ten minutes, never
// within the history).  `Expire` waits until the body of that timer stands at its first hook
// (verifApprovalTimer phase 0); that the timer does NOT fire is decided without a timing
// assumption: the runner uses one P (GOMAXPROCS(1)), where the runtime runs expired timers in
// order of expiry, so once a sentinel timer later than the write's latest possible expiry has
// fired and the runner has yielded, a body that has not reached its hook never will.
// `Fire` lets the body run.  So a verdict can be looked up before the timeout and committed
// after the error result was sent, a timer can expire and be overtaken by a verdict or by the
// removal of the connection, etc.: the operation list is the schedule, on the real code as in
// the model.  Should the process be delayed so much that a timer expires before its place in
// the schedule, the executor notices it (a body standing at the hook whose Expire has not been
// executed when an operation that depends on it comes up) and re-executes the history so far
// with doubled slot length; this is counted in the evidence (timing_retries).
//
// op encoding (parse_op in Approval.v):
//
//	0                 AddWriteApprovalCallback
//	1 p c ack slot    write with msgCounter c (value unique to the write) from peer p arrives
//	2 p c cb a        callback cb calls ApproveOrDenyWrite(msg, a ? approve : deny(7)): up to the hook
//	3 p c cb          ... the rest of that call
//	4 p c             the timeout of write (p, c) elapses
//	5 p c             the timer body of write (p, c) runs
//	6 p               DeviceLocal.RemoveRemoteDevice(ski of p)
//	7                 probe: pending entries, tally entries, function data
//
// obs encoding: 0 skipped, 1 cb p c presented, 2 p c e result (e = error number), 3 p c applied
// (data-change event of the write), 4 parked, 5 returned, 6 timer body started, 7 no timer body,
// 8 p n bookkeeping entries of p left, 9 p c pending entry, 10 p c n tally entry, 11 p c data is
// the value of write (p, c), 12 no data, 13 p k other datagram to p, 14 data changed without event,
// 15 k a call into the stack did not return within the watchdog's bound (k: 1 inbound write, 2 verdict
// lookup, 3 verdict commit, 5 timer body, 6 RemoveRemoteDevice, 7 accessor / DataCopy, 0 the stack was
// not asked again after such an event), 96 the executor could not realise the step (timing), 97
// malformed operation.
//
// Watchdog: every call into the stack that can block (the inbound write, ApproveOrDenyWrite of a
// verdict step, the timer body, RemoveRemoteDevice, the accessor and DataCopy, also in Close) is
// given 2 s; a call that does not return becomes the observation 15, which the model never
// produces and the monitor rejects (clause call-into-the-stack-never-returned); its goroutine is
// abandoned, the world is not asked again, Close does not wait for it.  After the first such event
// of the process the bound is 300 ms (the shrinker re-executes the blocking schedule many times).
package main

import (
	"encoding/json"
	"fmt"
	"runtime"
	"sort"
	"sync"
	"sync/atomic"
	"time"

	"github.com/enbility/spine-go/api"
	"github.com/enbility/spine-go/model"
	"github.com/enbility/spine-go/spine"
	"github.com/enbility/spine-go/util"

	"verifharness/hx"
)

const (
	stepTimeout  = 2 * time.Second        // watchdog bound for a call into the stack ...
	shortTimeout = 300 * time.Millisecond // ... once a call has failed to return (process-wide: see impatient)
	valueBase    = 1000000                // value of write (p, c) = p*valueBase + c
	deniedErr    = 7
	maxRetries   = 5
	busyBase     = 1000 // field 5 of an arrival = rank of its timeout + busyBase * (bit set of busy callbacks)
)

// impatient is set by the first watchdog expiry of the process: a tree on which a call into the
// stack blocks once will block again in every shrink candidate, and each wait is real time.
var impatient atomic.Bool

var stuckCalls atomic.Int64

func bound() time.Duration {
	if impatient.Load() {
		return shortTimeout
	}
	return stepTimeout
}

// expired notes that a wait ran into the watchdog's bound.
func expired() { impatient.Store(true) }

// guarded runs a call into the stack on a goroutine of its own and reports whether it returned
// within the bound.  A call that does not is abandoned (its goroutine stays blocked); a panic of
// the call is reported as such.
func guarded(f func()) (returned bool, panicked any) {
	done := make(chan any, 1)
	go func() {
		defer func() { done <- recover() }()
		f()
	}()
	select {
	case p := <-done:
		return true, p
	case <-time.After(bound()):
		expired()
		stuckCalls.Add(1)
		return false, nil
	}
}

var (
	baseSlot    = 4 * time.Millisecond // slot length T
	instances   int64
	statsMu     sync.Mutex
	retries     int
	unreal      int
	unrealWhy   = map[string]int{}
	panics      = map[string]int{} // recovered panics of calls into the stack, by text
	outcomeHist = map[string]int{} // what the implementation did, per kind of step
	expWaits    int
	maxLate     time.Duration
)

type wid struct{ p, c int64 }
type vid struct {
	w  wid
	cb int64
}

// ---------------------------------------------------------------- connection recorder

type sentMsg struct {
	p   int64
	msg []byte
}

type writer struct {
	m *world
	p int64
}

func (w *writer) WriteShipMessageWithPayload(msg []byte) {
	w.m.mu.Lock()
	defer w.m.mu.Unlock()
	w.m.sent = append(w.m.sent, sentMsg{w.p, append([]byte(nil), msg...)})
}

// ---------------------------------------------------------------- the world (one per attempt)

type peer struct {
	p      int64
	ski    string
	devA   string
	reader interface {
		HandleSpineMesssage([]byte) (*model.MsgCounterType, error)
	}
	ctr uint64 // counter of the setup datagrams (kept apart from the write counters)
}

type vthread struct {
	parked chan struct{}
	resume chan struct{}
	done   chan struct{}
	pnc    any // the recovered panic of the call, if any
	state  int // 1 parked at the hook, 2 finished
}

type timerRec struct {
	deadline time.Time // planned expiry (slot * T after the start of the history)
	latest   time.Time // upper bound of the real expiry: (time after HandleMessage returned) + timeout
	slot     int64
	parked   chan struct{} // closed when the body reached its first hook
	release  chan struct{} // closed to let it run
	done     chan struct{} // closed when the body returned
	expired  bool          // the Expire operation was executed
	sawBody  bool          // ... and found the body standing at the hook
	fired    bool          // the Fire operation was executed
}

type world struct {
	inst  int64
	slot  time.Duration
	t0    time.Time
	dev   *spine.DeviceLocal
	feat  *spine.FeatureLocal
	peers map[int64]*peer

	mu       sync.Mutex
	sent     []sentMsg
	events   []hx.Zs // presented / applied, in order of occurrence
	cur      *vthread
	draining bool
	timers   map[wid]*timerRec

	ncb     int
	msgs    map[wid]*api.Message
	ack     map[wid]bool
	arrived map[wid]bool
	verd    map[vid]bool
	gone    map[int64]bool
	threads map[vid]*vthread
	last    *wid                // the write applied last according to the events
	bound   int64               // the peer holding the binding of the server feature (-1 none)
	stuck   bool                // a call into this world's stack never returned: nothing more is asked of it
	bodies  map[vid]chan func() // busy callbacks: the body of callback cb for write w waits here for its work
	byKey   map[wid]wid         // (slot, msgCounter) -> write of the model
	live    map[int64]int64     // slot -> incarnation (model peer) whose connection is up
}

var fn = model.FunctionTypeLoadControlLimitListData

// Model peer q is incarnation q/4 of the connection slot q%4: all incarnations of a slot use the
// same SKI (and device address), so "peer 4" is peer 0 reconnected after its connection was removed.
// The model treats incarnations as different peers; the stack keys its approval maps by SKI.
const nSlots = 4

func (m *world) ski(p int64) string { return fmt.Sprintf("c12-%d-p%d", m.inst, p%nSlots) }

func (m *world) slotOf(ski string) (int64, bool) {
	var inst, sl int64
	if n, err := fmt.Sscanf(ski, "c12-%d-p%d", &inst, &sl); err != nil || n != 2 || inst != m.inst {
		return 0, false
	}
	return sl, true
}

// widOf maps (SKI, msgCounter) as the stack sees it back to the write of the model.
func (m *world) widOf(ski string, counter int64) (wid, bool) {
	sl, ok := m.slotOf(ski)
	if !ok {
		return wid{}, false
	}
	m.mu.Lock()
	defer m.mu.Unlock()
	w, ok := m.byKey[wid{sl, counter}]
	return w, ok
}

func newWorld(slot time.Duration) *world {
	statsMu.Lock()
	instances++
	inst := instances
	statsMu.Unlock()
	m := &world{inst: inst, slot: slot, bodies: map[vid]chan func(){}, byKey: map[wid]wid{}, live: map[int64]int64{}, peers: map[int64]*peer{}, timers: map[wid]*timerRec{}, msgs: map[wid]*api.Message{},
		bound: -1, ack: map[wid]bool{}, arrived: map[wid]bool{}, verd: map[vid]bool{}, gone: map[int64]bool{}, threads: map[vid]*vthread{}}
	m.dev = spine.NewDeviceLocal("brand", "model", "serial", "code", "d0", model.DeviceTypeTypeEnergyManagementSystem, model.NetworkManagementFeatureSetTypeSmart)
	ent := spine.NewEntityLocal(m.dev, model.EntityTypeTypeCEM, []model.AddressEntityType{1}, 0)
	m.dev.AddEntity(ent)
	m.feat = spine.NewFeatureLocal(ent.NextFeatureId(), ent, model.FeatureTypeTypeLoadControl, model.RoleTypeServer)
	m.feat.AddFunctionType(fn, true, true)
	ent.AddFeature(m.feat)
	_ = spine.VerifStackSubscribeCore(m)
	spine.VerifSetYield(m.yield)
	spine.VerifSetApprovalTimerHook(m.timerHook)
	for p := int64(0); p < 4; p++ {
		m.ensurePeer(p)
	}
	m.t0 = time.Now()
	return m
}

// devPtr: the empty name stands for a peer that does not announce a device address.
func devPtr(dev string) *model.AddressDeviceType {
	if dev == "" {
		return nil
	}
	return util.Ptr(model.AddressDeviceType(dev))
}

func nmAddr(dev string) *model.FeatureAddressType {
	return &model.FeatureAddressType{Device: devPtr(dev), Entity: []model.AddressEntityType{0}, Feature: util.Ptr(model.AddressFeatureType(0))}
}

func clientAddr(dev string) *model.FeatureAddressType {
	return &model.FeatureAddressType{Device: devPtr(dev), Entity: []model.AddressEntityType{1}, Feature: util.Ptr(model.AddressFeatureType(1))}
}

// Peer kinds (by peer number, so that the operation list determines them): odd peers never announce a
// device address (their detailed discovery reply has no deviceAddress, their datagrams no device part;
// the stack serves them by their connection); peers 2, 3 (mod 4) are removed through
// RemoveRemoteDeviceConnection, the others through RemoveRemoteDevice.
func anonymous(p int64) bool     { return p%2 == 1 }
func viaConnection(p int64) bool { return p%4 >= 2 }

func (m *world) inject(pr *peer, h model.HeaderType, cmd model.CmdType) {
	h.SpecificationVersion = &spine.SpecificationVersion
	b, err := json.Marshal(model.Datagram{Datagram: model.DatagramType{Header: h, Payload: model.PayloadType{Cmd: []model.CmdType{cmd}}}})
	if err != nil {
		panic(err)
	}
	_, _ = pr.reader.HandleSpineMesssage(b)
}

// ensurePeer connects peer p: discovery reply (entity [1] with a LoadControl client feature) and binding.
// It returns nil when the slot of p is occupied by the connection of another incarnation (the same
// SKI cannot be connected twice: such a history is not realisable).
func (m *world) ensurePeer(p int64) *peer {
	if pr := m.peers[p]; pr != nil {
		return pr
	}
	if q, up := m.live[p%nSlots]; up && q != p {
		return nil
	}
	m.live[p%nSlots] = p
	pr := &peer{p: p, ski: m.ski(p), devA: fmt.Sprintf("d%d", p%nSlots+1), ctr: 1 << 40}
	if anonymous(p) {
		pr.devA = ""
	}
	m.peers[p] = pr
	rdr := m.dev.SetupRemoteDevice(pr.ski, &writer{m, p})
	pr.reader = rdr.(interface {
		HandleSpineMesssage([]byte) (*model.MsgCounterType, error)
	})
	var ref *model.MsgCounterType
	m.mu.Lock()
	for _, s := range m.sent {
		var d model.Datagram
		if s.p == p && json.Unmarshal(s.msg, &d) == nil && d.Datagram.Header.MsgCounter != nil {
			ref = d.Datagram.Header.MsgCounter
		}
	}
	m.mu.Unlock()
	devAddr := devPtr(pr.devA)
	var devDescr *model.DeviceAddressType
	if devAddr != nil {
		devDescr = &model.DeviceAddressType{Device: devAddr}
	}
	next := func() *model.MsgCounterType { pr.ctr++; return util.Ptr(model.MsgCounterType(pr.ctr)) }
	m.inject(pr, model.HeaderType{AddressSource: nmAddr(pr.devA), AddressDestination: nmAddr("d0"), MsgCounter: next(), MsgCounterReference: ref,
		CmdClassifier: util.Ptr(model.CmdClassifierTypeReply)},
		model.CmdType{NodeManagementDetailedDiscoveryData: &model.NodeManagementDetailedDiscoveryDataType{
			SpecificationVersionList: &model.NodeManagementSpecificationVersionListType{SpecificationVersion: []model.SpecificationVersionDataType{"1.3.0"}},
			DeviceInformation: &model.NodeManagementDetailedDiscoveryDeviceInformationType{Description: &model.NetworkManagementDeviceDescriptionDataType{
				DeviceAddress: devDescr, DeviceType: util.Ptr(model.DeviceTypeTypeChargingStation)}},
			EntityInformation: []model.NodeManagementDetailedDiscoveryEntityInformationType{
				{Description: &model.NetworkManagementEntityDescriptionDataType{EntityAddress: &model.EntityAddressType{Device: devAddr, Entity: []model.AddressEntityType{0}},
					EntityType: util.Ptr(model.EntityTypeTypeDeviceInformation)}},
				{Description: &model.NetworkManagementEntityDescriptionDataType{EntityAddress: &model.EntityAddressType{Device: devAddr, Entity: []model.AddressEntityType{1}},
					EntityType: util.Ptr(model.EntityTypeTypeCEM)}}},
			FeatureInformation: []model.NodeManagementDetailedDiscoveryFeatureInformationType{
				{Description: &model.NetworkManagementFeatureDescriptionDataType{FeatureAddress: nmAddr(pr.devA),
					FeatureType: util.Ptr(model.FeatureTypeTypeNodeManagement), Role: util.Ptr(model.RoleTypeSpecial)}},
				{Description: &model.NetworkManagementFeatureDescriptionDataType{FeatureAddress: clientAddr(pr.devA),
					FeatureType: util.Ptr(model.FeatureTypeTypeLoadControl), Role: util.Ptr(model.RoleTypeClient)}}},
		}})
	m.mu.Lock()
	m.sent = nil
	m.mu.Unlock()
	return pr
}

// bindTo hands the (single) binding of the server feature to peer p: a server feature accepts one
// remote binding only, so the peer holding it deletes its binding before p requests one.  Writes
// that arrived earlier stay pending, which is how writes of several peers are pending together.
func (m *world) bindTo(p int64) {
	if m.bound == p {
		return
	}
	call := func(pr *peer, cmd model.CmdType) {
		pr.ctr++
		m.inject(pr, model.HeaderType{AddressSource: nmAddr(pr.devA), AddressDestination: nmAddr("d0"), MsgCounter: util.Ptr(model.MsgCounterType(pr.ctr)),
			CmdClassifier: util.Ptr(model.CmdClassifierTypeCall)}, cmd)
	}
	if old := m.peers[m.bound]; old != nil && !m.gone[m.bound] {
		call(old, model.CmdType{NodeManagementBindingDeleteCall: &model.NodeManagementBindingDeleteCallType{BindingDelete: &model.BindingManagementDeleteCallType{
			ClientAddress: clientAddr(old.devA), ServerAddress: m.feat.Address()}}})
	}
	pr := m.peers[p]
	call(pr, model.CmdType{NodeManagementBindingRequestCall: &model.NodeManagementBindingRequestCallType{BindingRequest: &model.BindingManagementRequestCallType{
		ClientAddress: clientAddr(pr.devA), ServerAddress: m.feat.Address(), ServerFeatureType: util.Ptr(model.FeatureTypeTypeLoadControl)}}})
	if !m.dev.BindingManager().HasLocalFeatureRemoteBinding(m.feat.Address(), clientAddr(pr.devA)) {
		panic("c12: binding of peer not established")
	}
	m.bound = p
	m.mu.Lock()
	m.sent = nil
	m.mu.Unlock()
}

// HandleEvent observes the data-change event of an executed write (core level: synchronous).
func (m *world) HandleEvent(p api.EventPayload) {
	if p.EventType != api.EventTypeDataChange || p.CmdClassifier == nil || *p.CmdClassifier != model.CmdClassifierTypeWrite {
		return
	}
	if lf, ok := p.LocalFeature.(*spine.FeatureLocal); !ok || lf != m.feat {
		return
	}
	w, ok := valueWrite(p.Data)
	m.mu.Lock()
	defer m.mu.Unlock()
	if !ok {
		m.events = append(m.events, hx.Zs{3, 999, 999})
		return
	}
	m.last = &w
	m.events = append(m.events, hx.Zs{3, w.p, w.c})
}

func valueWrite(d any) (wid, bool) {
	x, ok := d.(*model.LoadControlLimitListDataType)
	if !ok || x == nil || len(x.LoadControlLimitData) != 1 || x.LoadControlLimitData[0].Value == nil || x.LoadControlLimitData[0].Value.Number == nil {
		return wid{}, false
	}
	v := int64(*x.LoadControlLimitData[0].Value.Number)
	return wid{v / valueBase, v % valueBase}, true
}

// yield is the verifYield callback: only the verdict goroutine started by Lookup is parked.
func (m *world) yield(point string) {
	if point != "ApproveOrDenyWrite.lookedup" {
		return
	}
	m.mu.Lock()
	th := m.cur
	m.cur = nil
	drain := m.draining
	m.mu.Unlock()
	if th == nil || drain {
		return
	}
	close(th.parked)
	<-th.resume
}

// timerHook is called by every approval timer body when it starts (0) and returns (1).
func (m *world) timerHook(phase int, ski string, counter uint64) {
	w, ok := m.widOf(ski, int64(counter))
	if !ok {
		return // timer of an earlier history
	}
	m.mu.Lock()
	rec := m.timers[w]
	drain := m.draining
	m.mu.Unlock()
	if rec == nil {
		return
	}
	if phase == 0 {
		late := time.Since(rec.deadline)
		statsMu.Lock()
		if late > maxLate {
			maxLate = late
		}
		statsMu.Unlock()
		close(rec.parked)
		if !drain {
			<-rec.release
		}
		return
	}
	close(rec.done)
}

func (m *world) close() {
	m.mu.Lock()
	m.draining = true
	m.mu.Unlock()
	for _, th := range m.threads {
		if th.state == 1 {
			close(th.resume)
			if m.stuck {
				continue // it may block behind the call that never returned: abandoned
			}
			select {
			case <-th.done:
			case <-time.After(bound()):
				expired()
				m.stuck = true
			}
		}
	}
	m.mu.Lock()
	for _, body := range m.bodies {
		close(body) // a busy callback that is still waiting (it stayed silent) returns now
	}
	m.bodies = map[vid]chan func(){}
	m.mu.Unlock()
	m.mu.Lock()
	for _, rec := range m.timers {
		select {
		case <-rec.release:
		default:
			close(rec.release)
		}
	}
	m.mu.Unlock()
	// the removal of the connections takes the approval mutexes: never wait for it without bound
	if !m.stuck {
		for _, p := range m.live {
			ski := m.ski(p)
			if ok, _ := guarded(func() { m.dev.RemoveRemoteDevice(ski) }); !ok {
				m.stuck = true
				break
			}
		}
	}
	_ = spine.VerifStackUnsubscribeCore(m)
}

// panicObs: a call into the stack panicked (recovered by guarded / the verdict goroutine).  The locks
// it held stay locked, so the world is treated as wedged; the panic text goes to the evidence.
func (m *world) panicObs(kind int64, pnc any) []hx.Zs {
	statsMu.Lock()
	panics[fmt.Sprint(pnc)]++
	statsMu.Unlock()
	m.stuck = true
	return append(m.collect(), hx.Zs{16, kind})
}

// stuckObs marks the world as wedged and is the observation of a call that never returned.
func (m *world) stuckObs(kind int64) []hx.Zs {
	m.stuck = true
	return append(m.collect(), hx.Zs{15, kind}) // what was written before the call blocked, then the fact
}

func isClosed(c chan struct{}) bool {
	select {
	case <-c:
		return true
	default:
		return false
	}
}

// bodyEarly: the timer body of w stands at its hook although the schedule has not reached Expire w.
func (m *world) bodyEarly(w wid) bool {
	m.mu.Lock()
	rec := m.timers[w]
	m.mu.Unlock()
	return rec != nil && !rec.expired && isClosed(rec.parked)
}

// bodyStarted is bodyEarly after letting a timer body that the runtime has just started reach its
// hook (one P: a few yields suffice).  Used after a step that consulted the timer (Stop): the timer
// may have expired between the check before the step and the Stop inside it.
func (m *world) bodyStarted(w wid) bool {
	for i := 0; i < 8; i++ {
		runtime.Gosched()
	}
	return m.bodyEarly(w)
}

// collect turns what was written / published since the last call into observations.
func (m *world) collect() []hx.Zs {
	m.mu.Lock()
	sent := m.sent
	m.sent = nil
	out := m.events
	m.events = nil
	last := m.last
	m.mu.Unlock()
	for _, s := range sent {
		var d model.Datagram
		if err := json.Unmarshal(s.msg, &d); err != nil || d.Datagram.Header.CmdClassifier == nil || len(d.Datagram.Payload.Cmd) != 1 {
			out = append(out, hx.Zs{13, s.p, 99})
			continue
		}
		h := d.Datagram.Header
		c := d.Datagram.Payload.Cmd[0]
		if *h.CmdClassifier == model.CmdClassifierTypeResult && h.MsgCounterReference != nil && c.ResultData != nil && c.ResultData.ErrorNumber != nil &&
			h.AddressSource != nil && h.AddressSource.Feature != nil && *h.AddressSource.Feature == *m.feat.Address().Feature {
			out = append(out, hx.Zs{2, s.p, int64(*h.MsgCounterReference), int64(*c.ResultData.ErrorNumber)})
			continue
		}
		var k int64 = 9
		switch *h.CmdClassifier {
		case model.CmdClassifierTypeRead:
			k = 1
		case model.CmdClassifierTypeReply:
			k = 2
		case model.CmdClassifierTypeNotify:
			k = 3
		case model.CmdClassifierTypeWrite:
			k = 4
		case model.CmdClassifierTypeCall:
			k = 5
		case model.CmdClassifierTypeResult:
			k = 6
		}
		out = append(out, hx.Zs{13, s.p, k})
	}
	// the function data must be the value of the write applied last
	if m.stuck {
		return out
	}
	var cur wid
	var has bool
	if ok, _ := guarded(func() { cur, has = valueWrite(m.feat.DataCopy(fn)) }); !ok {
		m.stuck = true
		return append(out, hx.Zs{15, 7})
	}
	if (last == nil) != !has || (last != nil && *last != cur) {
		out = append(out, hx.Zs{14})
	}
	return out
}

// approvalState reads the bookkeeping maps through the accessor (which takes both approval mutexes).
func (m *world) approvalState() (pend map[string][]uint64, tally map[string]map[uint64]int, ok bool) {
	ok, _ = guarded(func() { pend, tally = m.feat.VerifWriteApprovalState() })
	return
}

func (m *world) exec(op hx.Zs) (obs []hx.Zs, mistimed bool) {
	bad := []hx.Zs{{97}}
	skipped := []hx.Zs{{0}}
	if len(op) == 0 {
		return bad, false
	}
	if m.stuck {
		return []hx.Zs{{15, 0}}, false // a call never returned earlier in this history: the stack is not asked again
	}
	switch op[0] {
	case 0: // AddCb
		if len(op) != 1 {
			return bad, false
		}
		if len(m.arrived) > 0 {
			return skipped, false
		}
		cb := int64(m.ncb)
		m.ncb++
		_ = m.feat.AddWriteApprovalCallback(func(msg *api.Message) {
			var p, c int64 = 999, 999
			if msg != nil && msg.DeviceRemote != nil && msg.RequestHeader != nil && msg.RequestHeader.MsgCounter != nil {
				if w, ok := m.widOf(msg.DeviceRemote.Ski(), int64(*msg.RequestHeader.MsgCounter)); ok {
					p, c = w.p, w.c
				}
			}
			m.mu.Lock()
			if m.msgs[wid{p, c}] == nil {
				m.msgs[wid{p, c}] = msg
			}
			m.events = append(m.events, hx.Zs{1, cb, p, c})
			body := m.bodies[vid{wid{p, c}, cb}]
			m.mu.Unlock()
			if body != nil {
				// a busy callback: it does not return before it has given its verdict (the Lookup / Commit of
				// this (write, callback) run on this goroutine, inside the callback) or the history is over
				if work := <-body; work != nil {
					work()
				}
			}
		})
		return m.collect(), false
	case 1: // Arrive
		if len(op) != 5 || op[1] < 0 || op[1] > 99 || op[2] < 0 || op[2] >= valueBase || op[4] < 0 {
			return bad, false
		}
		w := wid{op[1], op[2]}
		if m.gone[w.p] || m.arrived[w] {
			return skipped, false
		}
		if q, up := m.live[w.p%nSlots]; up && q != w.p {
			return []hx.Zs{{96}}, false // the SKI is connected as another incarnation: not realisable
		}
		if k, used := m.byKey[wid{w.p % nSlots, w.c}]; used && k != w {
			return []hx.Zs{{96}}, false // msgCounter already used on this SKI by another incarnation
		}
		var pr *peer
		if ok, pnc := guarded(func() {
			if pr = m.ensurePeer(w.p); pr != nil {
				m.bindTo(w.p)
			}
		}); !ok {
			return m.stuckObs(1), false
		} else if pnc != nil {
			return m.panicObs(1, pnc), false
		}
		m.mu.Lock()
		m.byKey[wid{w.p % nSlots, w.c}] = w
		m.mu.Unlock()
		m.arrived[w] = true
		m.ack[w] = op[3] != 0
		busy := op[4] / busyBase // set of callbacks that are busy for this write
		op = hx.Zs{op[0], op[1], op[2], op[3], op[4] % busyBase}
		m.mu.Lock()
		for cb := int64(0); cb < int64(m.ncb) && cb < 32; cb++ {
			if busy&(1<<uint(cb)) != 0 {
				m.bodies[vid{w, cb}] = make(chan func(), 1)
			}
		}
		m.mu.Unlock()
		rec := &timerRec{slot: op[4], parked: make(chan struct{}), release: make(chan struct{}), done: make(chan struct{})}
		timeout := 10 * time.Minute
		if op[4] > 0 {
			rec.deadline = m.t0.Add(time.Duration(op[4]) * m.slot)
			timeout = time.Until(rec.deadline)
			if timeout < m.slot/3 {
				return nil, true
			}
		} else {
			rec.deadline = time.Now().Add(timeout)
		}
		m.mu.Lock()
		m.timers[w] = rec
		m.mu.Unlock()
		h := model.HeaderType{AddressSource: clientAddr(pr.devA), AddressDestination: m.feat.Address(),
			MsgCounter: util.Ptr(model.MsgCounterType(w.c)), CmdClassifier: util.Ptr(model.CmdClassifierTypeWrite)}
		if m.ack[w] {
			h.AckRequest = util.Ptr(true)
		}
		if ok, pnc := guarded(func() {
			m.feat.SetWriteApprovalTimeout(timeout)
			m.inject(pr, h, model.CmdType{LoadControlLimitListData: &model.LoadControlLimitListDataType{LoadControlLimitData: []model.LoadControlLimitDataType{
				{LimitId: util.Ptr(model.LoadControlLimitIdType(1)), Value: &model.ScaledNumberType{Number: util.Ptr(model.NumberType(w.p*valueBase + w.c))}}}}})
		}); !ok {
			return m.stuckObs(1), false
		} else if pnc != nil {
			return m.panicObs(1, pnc), false
		}
		// the timer was created during the call: it expires no later than now + timeout
		rec.latest = time.Now().Add(timeout)
		// the callbacks run on goroutines of their own: wait until each has been entered
		deadline := time.Now().Add(bound())
		for {
			m.mu.Lock()
			n := 0
			for _, e := range m.events {
				if e[0] == 1 {
					n++
				}
			}
			m.mu.Unlock()
			if n >= m.ncb {
				break
			}
			if time.Now().After(deadline) {
				expired() // a callback was not entered: the missing presentation is the observation
				break
			}
			runtime.Gosched()
		}
		return m.collect(), false
	case 2: // Lookup
		if len(op) != 5 {
			return bad, false
		}
		w := wid{op[1], op[2]}
		v := vid{w, op[3]}
		if !m.arrived[w] || op[3] < 0 || op[3] >= int64(m.ncb) || m.verd[v] {
			return skipped, false
		}
		m.verd[v] = true
		m.mu.Lock()
		msg := m.msgs[w]
		m.mu.Unlock()
		if msg == nil {
			// the write was never presented (cannot happen with callbacks registered): no message object to answer with
			return []hx.Zs{{96}}, false
		}
		th := &vthread{parked: make(chan struct{}), resume: make(chan struct{}), done: make(chan struct{})}
		m.threads[v] = th
		var e model.ErrorType
		if op[4] == 0 {
			e = model.ErrorType{ErrorNumber: deniedErr, Description: util.Ptr(model.DescriptionType("denied by the application"))}
		}
		m.mu.Lock()
		m.cur = th
		m.mu.Unlock()
		call := func() {
			defer func() {
				th.pnc = recover()
				close(th.done)
			}()
			m.feat.ApproveOrDenyWrite(msg, e)
		}
		m.mu.Lock()
		body := m.bodies[v]
		m.mu.Unlock()
		if body != nil {
			body <- call // the busy callback gives its verdict from inside the callback function
		} else {
			go call()
		}
		select {
		case <-th.parked:
			th.state = 1
			return append(m.collect(), hx.Zs{4}), false
		case <-th.done:
			th.state = 2
			m.mu.Lock()
			m.cur = nil
			m.mu.Unlock()
			if th.pnc != nil {
				return m.panicObs(2, th.pnc), false
			}
			return append(m.collect(), hx.Zs{5}), false
		case <-time.After(bound()):
			// ApproveOrDenyWrite neither reached the hook nor returned: the goroutine is abandoned
			expired()
			stuckCalls.Add(1)
			th.state = 3
			m.mu.Lock()
			m.cur = nil
			m.mu.Unlock()
			return m.stuckObs(2), false
		}
	case 3: // Commit
		if len(op) != 4 {
			return bad, false
		}
		w := wid{op[1], op[2]}
		th := m.threads[vid{w, op[3]}]
		if th == nil || th.state != 1 {
			return skipped, false
		}
		if m.bodyEarly(w) {
			return nil, true
		}
		th.state = 2
		close(th.resume)
		select {
		case <-th.done:
		case <-time.After(bound()):
			expired()
			stuckCalls.Add(1)
			th.state = 3
			return m.stuckObs(3), false
		}
		if th.pnc != nil {
			return m.panicObs(3, th.pnc), false
		}
		if m.bodyStarted(w) {
			return nil, true
		}
		return append(m.collect(), hx.Zs{5}), false
	case 4: // Expire
		if len(op) != 3 {
			return bad, false
		}
		w := wid{op[1], op[2]}
		m.mu.Lock()
		rec := m.timers[w]
		m.mu.Unlock()
		if !m.arrived[w] || rec == nil || rec.expired {
			return skipped, false
		}
		if rec.slot == 0 {
			return []hx.Zs{{96}}, false // the history gives this write no place for its timeout
		}
		rec.expired = true
		statsMu.Lock()
		expWaits++
		statsMu.Unlock()
		// One P (GOMAXPROCS(1)): the runtime runs expired timers in the order of their expiry, so
		// when the sentinel (later than the latest possible expiry of the write's timer) has fired,
		// the body of the write's timer has been started if the timer was still running; yielding
		// lets that goroutine reach its hook.  No timing assumption is involved in "no timer".
		select {
		case <-rec.parked:
		case <-time.After(time.Until(rec.latest) + 200*time.Microsecond):
			for i := 0; i < 16 && !isClosed(rec.parked); i++ {
				runtime.Gosched()
			}
		}
		if isClosed(rec.parked) {
			rec.sawBody = true
			return append(m.collect(), hx.Zs{6}), false
		}
		return append(m.collect(), hx.Zs{7}), false
	case 5: // Fire
		if len(op) != 3 {
			return bad, false
		}
		w := wid{op[1], op[2]}
		m.mu.Lock()
		rec := m.timers[w]
		m.mu.Unlock()
		if rec == nil || !rec.sawBody || rec.fired {
			if rec != nil && !rec.expired && isClosed(rec.parked) {
				return nil, true
			}
			return skipped, false
		}
		rec.fired = true
		close(rec.release)
		select {
		case <-rec.done:
		case <-time.After(bound()):
			expired()
			stuckCalls.Add(1)
			return m.stuckObs(5), false
		}
		return m.collect(), false
	case 6: // Clean
		if len(op) != 2 || op[1] < 0 || op[1] > 99 {
			return bad, false
		}
		p := op[1]
		if m.gone[p] {
			return skipped, false
		}
		if q, up := m.live[p%nSlots]; up && q != p {
			return []hx.Zs{{96}}, false // the SKI is connected as another incarnation: not realisable
		}
		if ok, pnc := guarded(func() { m.ensurePeer(p) }); !ok {
			return m.stuckObs(6), false
		} else if pnc != nil {
			return m.panicObs(6, pnc), false
		}
		for w := range m.arrived {
			if w.p == p && m.bodyEarly(w) {
				return nil, true
			}
		}
		m.gone[p] = true
		if m.bound == p {
			m.bound = -1
		}
		if ok, pnc := guarded(func() {
			if viaConnection(p) {
				m.dev.RemoveRemoteDeviceConnection(m.ski(p))
			} else {
				m.dev.RemoveRemoteDevice(m.ski(p))
			}
		}); !ok {
			return m.stuckObs(6), false
		} else if pnc != nil {
			return m.panicObs(6, pnc), false
		}
		delete(m.live, p%nSlots)
		for w := range m.arrived {
			if w.p == p && m.bodyStarted(w) {
				return nil, true
			}
		}
		pend, tally, ok := m.approvalState()
		if !ok {
			return m.stuckObs(7), false
		}
		n := int64(len(pend[m.ski(p)]) + len(tally[m.ski(p)]))
		return append(m.collect(), hx.Zs{8, p, n}), false
	case 7: // Probe
		if len(op) != 1 {
			return bad, false
		}
		out := m.collect()
		if m.stuck {
			return out, false
		}
		pend, tally, ok := m.approvalState()
		if !ok {
			m.stuck = true
			return append(out, hx.Zs{15, 7}), false
		}
		for ski, cs := range pend {
			for _, c := range cs {
				if w, ok := m.widOf(ski, int64(c)); ok {
					out = append(out, hx.Zs{9, w.p, w.c})
				} else {
					out = append(out, hx.Zs{9, 999, int64(c)})
				}
			}
		}
		for ski, cs := range tally {
			for c, n := range cs {
				// only the tally of connected peers is projected: an entry left behind for a removed connection
				// (a verdict looked up before and committed after the removal) has no effect and disappears
				// with the SKI's map at the next clean-up of that SKI
				if w, ok := m.widOf(ski, int64(c)); ok && m.gone[w.p] {
					continue
				}
				if w, ok := m.widOf(ski, int64(c)); ok {
					out = append(out, hx.Zs{10, w.p, w.c, int64(n)})
				} else {
					out = append(out, hx.Zs{10, 999, int64(c), int64(n)})
				}
			}
		}
		if w, ok := valueWrite(m.feat.DataCopy(fn)); ok {
			out = append(out, hx.Zs{11, w.p, w.c})
		} else {
			out = append(out, hx.Zs{12})
		}
		return out, false
	}
	return bad, false
}

// ---------------------------------------------------------------- hx.Impl with internal re-execution

type impl struct {
	w    *world
	hist []hx.Zs
	slot time.Duration
	dead bool
}

func newImpl() hx.Impl {
	return &impl{slot: baseSlot}
}

func (m *impl) Close() {
	if m.w != nil {
		m.w.close()
	}
}

// lateBody: a timer body started after its Expire operation had already reported "no timer".
func (m *impl) lateBody() bool {
	m.w.mu.Lock()
	defer m.w.mu.Unlock()
	for _, rec := range m.w.timers {
		if rec.expired && !rec.sawBody && isClosed(rec.parked) {
			return true
		}
	}
	return false
}

func (m *impl) Exec(op hx.Zs) []hx.Zs {
	if m.dead {
		return []hx.Zs{{96}}
	}
	if m.w == nil {
		m.w = newWorld(m.slot)
	}
	if m.lateBody() {
		// cannot be repaired by re-execution (the observation was already reported)
		statsMu.Lock()
		unreal++
		unrealWhy["timer body started after its timeout was reported as not firing"]++
		statsMu.Unlock()
		m.dead = true
		return []hx.Zs{{96}}
	}
	obs, mistimed := m.w.exec(op)
	for try := 0; mistimed; try++ {
		if try >= maxRetries {
			statsMu.Lock()
			unreal++
			unrealWhy[fmt.Sprintf("schedule not realisable in real time after %d re-executions (operation %v)", maxRetries, op)]++
			statsMu.Unlock()
			m.dead = true
			return []hx.Zs{{96}}
		}
		statsMu.Lock()
		retries++
		statsMu.Unlock()
		m.w.close()
		m.slot *= 2
		m.w = newWorld(m.slot)
		mistimed = false
		for _, o := range m.hist {
			if _, mt := m.w.exec(o); mt {
				mistimed = true
				break
			}
		}
		if !mistimed {
			obs, mistimed = m.w.exec(op)
		}
	}
	m.hist = append(m.hist, op)
	classify(op, obs)
	return obs
}

// classify counts what the implementation did in this step (evidence: which branches the schedules reached).
func classify(op hx.Zs, obs []hx.Zs) {
	has := func(code int64, pos int, val int64) bool {
		for _, o := range obs {
			if o[0] == code && (pos < 0 || (len(o) > pos && o[pos] == val)) {
				return true
			}
		}
		return false
	}
	key := ""
	switch op[0] {
	case 1:
		key = "arrive:presented"
		if has(0, -1, 0) {
			key = "arrive:skipped"
		} else if has(3, -1, 0) {
			key = "arrive:applied-at-once(no callback)"
		}
	case 2:
		switch {
		case has(4, -1, 0):
			key = "lookup:taken-up"
		case has(5, -1, 0):
			key = "lookup:too-late-or-cleaned"
		default:
			key = "lookup:skipped"
		}
	case 3:
		switch {
		case has(3, -1, 0):
			key = "commit:applied"
		case has(2, 3, deniedErr):
			key = "commit:denied"
		case has(5, -1, 0):
			key = "commit:no-outcome(more approvals needed, timer fired or stopped)"
		default:
			key = "commit:not-runnable"
		}
	case 4:
		switch {
		case has(6, -1, 0):
			key = "expire:timer-body-started"
		case has(7, -1, 0):
			key = "expire:no-timer(stopped)"
		default:
			key = "expire:skipped"
		}
	case 5:
		switch {
		case has(2, 3, 1):
			key = "fire:timeout-result"
		case has(0, -1, 0):
			key = "fire:not-runnable"
		default:
			key = "fire:silent(cleaned up)"
		}
	case 6:
		key = "remove-connection"
	default:
		return
	}
	statsMu.Lock()
	outcomeHist[key]++
	statsMu.Unlock()
}

// ---------------------------------------------------------------- canonical order

func less(a, b hx.Zs) bool {
	for i := 0; i < len(a) && i < len(b); i++ {
		if a[i] != b[i] {
			return a[i] < b[i]
		}
	}
	return len(a) < len(b)
}

func canon(op hx.Zs, obs []hx.Zs) []hx.Zs {
	sort.SliceStable(obs, func(i, j int) bool { return less(obs[i], obs[j]) })
	return obs
}

// ---------------------------------------------------------------- generator

type seqT struct {
	ops  []hx.Zs
	next int
	deps []*seqT // sequences released when this one has finished
}

// assignSlots numbers the Expire operations in schedule order and writes the rank into the Arrive of the write.
func assignSlots(h []hx.Zs) []hx.Zs {
	rank := map[wid]int64{}
	var n int64
	for _, o := range h {
		if o[0] == 4 {
			w := wid{o[1], o[2]}
			if _, ok := rank[w]; !ok {
				n++
				rank[w] = n
			}
		}
	}
	seen := map[wid]bool{}
	for i, o := range h {
		if o[0] == 1 {
			w := wid{o[1], o[2]}
			if !seen[w] {
				seen[w] = true
				h[i] = hx.Zs{1, o[1], o[2], o[3], o[4]/busyBase*busyBase + rank[w]}
			}
		}
	}
	return h
}

func gen(r *hx.Rng, tier string, i int) []hx.Zs {
	ncb := r.Range(1, 3)
	if r.Chance(1, 25) {
		ncb = r.Range(0, 4)
	}
	npeers := r.Range(1, 3)
	base := r.Intn(4) // the peers of the history are base, base+1, ... (mod 4): all four peer kinds take part
	peerOf := func(k int) int64 { return int64((base + k) % 4) }
	nw := r.Range(1, 4)
	if tier == "thorough" && r.Chance(1, 4) {
		nw = r.Range(3, 7)
	}
	sequential := i%4 == 0
	var h []hx.Zs
	for k := 0; k < ncb; k++ {
		h = append(h, hx.Zs{0})
	}
	var active []*seqT
	ctr := map[int64]int64{}
	// approval profile of the history: mostly approving / mixed / mostly silent
	profile := r.Intn(3)
	// one write of model peer p: arrival, then (in any order) the verdicts of the callbacks and its timeout;
	// msgCounters are unique per connection slot (p % 4), across the incarnations of the slot
	mkWrite := func(p int64) *seqT {
		ctr[p%nSlots] += int64(r.Range(1, 3))
		c := ctr[p%nSlots]
		// in a third of the writes some callbacks are busy: their callback function does not return before it
		// has given its verdict (or the history is over), while the others are presented the write and decide
		var busy int64
		if r.Chance(1, 3) {
			for cb := 0; cb < ncb; cb++ {
				if r.Chance(1, 2) {
					busy |= 1 << uint(cb)
				}
			}
		}
		arrive := &seqT{ops: []hx.Zs{{1, p, c, int64(r.Intn(2)), busy * busyBase}}}
		for cb := 0; cb < ncb; cb++ {
			var x int
			switch profile {
			case 0:
				x = r.Pick(80, 10, 10)
			case 1:
				x = r.Pick(45, 30, 25)
			default:
				x = r.Pick(35, 15, 50)
			}
			if x == 2 {
				continue // silent
			}
			a := int64(1)
			if x == 1 {
				a = 0
			}
			arrive.deps = append(arrive.deps, &seqT{ops: []hx.Zs{{2, p, c, int64(cb), a}, {3, p, c, int64(cb)}}})
		}
		if r.Chance(3, 5) {
			arrive.deps = append(arrive.deps, &seqT{ops: []hx.Zs{{4, p, c}, {5, p, c}}})
		}
		return arrive
	}
	for k := 0; k < nw; k++ {
		active = append(active, mkWrite(peerOf(r.Intn(npeers))))
	}
	// removal of a peer's connection, at a random place among its pending writes; in half of the cases the
	// peer reconnects afterwards with the same SKI (model peer p+4: discovery and binding are redone) and
	// writes again, and that connection may be removed and re-established once more
	for p := 0; p < npeers; p++ {
		if !r.Chance(1, 3) {
			continue
		}
		q := peerOf(p)
		clean := &seqT{ops: []hx.Zs{{6, q}}}
		active = append(active, clean)
		for depth := 0; depth < 2 && r.Chance(1, 2); depth++ {
			q += nSlots
			for k := r.Range(1, 2); k > 0; k-- {
				clean.deps = append(clean.deps, mkWrite(q))
			}
			if !r.Chance(1, 3) {
				break
			}
			next := &seqT{ops: []hx.Zs{{6, q}}}
			clean.deps = append(clean.deps, next)
			clean = next
		}
	}
	for len(active) > 0 {
		k := r.Intn(len(active))
		s := active[k]
		take := 1
		if sequential {
			take = len(s.ops) - s.next
		}
		for ; take > 0; take-- {
			h = append(h, s.ops[s.next])
			s.next++
		}
		if s.next >= len(s.ops) {
			active = append(active[:k], active[k+1:]...)
			active = append(active, s.deps...)
		}
		if r.Chance(1, 12) {
			h = append(h, hx.Zs{7})
		}
		if r.Chance(1, 40) {
			// an operation outside the discipline (skipped on both sides) or a not runnable step
			switch r.Intn(4) {
			case 0:
				h = append(h, hx.Zs{0})
			case 1:
				h = append(h, hx.Zs{3, int64(r.Intn(4)), int64(r.Range(1, 6)), int64(r.Intn(3))})
			case 2:
				h = append(h, hx.Zs{5, int64(r.Intn(4)), int64(r.Range(1, 6))})
			default:
				h = append(h, hx.Zs{2, int64(r.Intn(4)), int64(r.Range(1, 6)), int64(r.Intn(4)), 1})
			}
		}
	}
	h = append(h, hx.Zs{7})
	return assignSlots(h)
}

func fixed(tier string) [][]hx.Zs {
	hs := [][]hx.Zs{
		// tally-map reset of the pinned code: two callbacks, two pending writes of one peer, approvals 10a 11a 10b 11b
		{{0}, {0}, {1, 0, 10, 1, 0}, {1, 0, 11, 1, 0}, {2, 0, 10, 0, 1}, {3, 0, 10, 0}, {2, 0, 11, 0, 1}, {3, 0, 11, 0},
			{2, 0, 10, 1, 1}, {3, 0, 10, 1}, {2, 0, 11, 1, 1}, {3, 0, 11, 1}, {4, 0, 10}, {5, 0, 10}, {4, 0, 11}, {5, 0, 11}, {7}},
		// verdict looked up, timeout fires and answers, verdict commits
		{{0}, {1, 0, 10, 1, 0}, {2, 0, 10, 0, 1}, {4, 0, 10}, {5, 0, 10}, {3, 0, 10, 0}, {7}},
		// timeout elapsed but body not run yet, verdict looked up and committed, body runs
		{{0}, {1, 0, 10, 1, 0}, {4, 0, 10}, {2, 0, 10, 0, 1}, {3, 0, 10, 0}, {5, 0, 10}, {7}},
		// connection removed while a write is pending, then its timeout
		{{0}, {1, 0, 10, 1, 0}, {1, 1, 10, 1, 0}, {6, 0}, {4, 0, 10}, {5, 0, 10}, {2, 1, 10, 0, 1}, {3, 1, 10, 0}, {7}},
		// timeout elapsed, connection removed, body runs
		{{0}, {1, 0, 10, 1, 0}, {4, 0, 10}, {6, 0}, {5, 0, 10}, {7}},
		// verdict looked up, connection removed, verdict commits
		{{0}, {1, 0, 10, 1, 0}, {2, 0, 10, 0, 1}, {6, 0}, {3, 0, 10, 0}, {4, 0, 10}, {5, 0, 10}, {7}},
		// two denials racing
		{{0}, {0}, {1, 0, 10, 1, 0}, {2, 0, 10, 0, 0}, {2, 0, 10, 1, 0}, {3, 0, 10, 0}, {3, 0, 10, 1}, {4, 0, 10}, {5, 0, 10}, {7}},
		// three callbacks, three writes of two peers, every verdict order: approve all / one denial / one silent
		{{0}, {0}, {0}, {1, 0, 1, 1, 0}, {1, 1, 1, 0, 0}, {1, 0, 2, 1, 0},
			{2, 0, 1, 2, 1}, {2, 1, 1, 0, 1}, {2, 0, 2, 1, 1}, {3, 0, 2, 1}, {3, 0, 1, 2}, {2, 0, 1, 0, 1}, {3, 1, 1, 0}, {3, 0, 1, 0},
			{2, 1, 1, 1, 0}, {2, 0, 1, 1, 1}, {3, 0, 1, 1}, {3, 1, 1, 1}, {2, 1, 1, 2, 1}, {3, 1, 1, 2}, {2, 0, 2, 0, 1}, {3, 0, 2, 0},
			{4, 0, 2}, {5, 0, 2}, {2, 0, 2, 2, 1}, {3, 0, 2, 2}, {4, 0, 1}, {5, 0, 1}, {4, 1, 1}, {5, 1, 1}, {7}},
	}
	hs = append(hs,
		// a peer without device address: its connection is removed (RemoveRemoteDevice) while a write is pending, then the timeout and a late verdict
		[]hx.Zs{{0}, {1, 1, 10, 1, 0}, {1, 0, 10, 1, 0}, {6, 1}, {4, 1, 10}, {5, 1, 10}, {2, 1, 10, 0, 1}, {3, 1, 10, 0}, {2, 0, 10, 0, 1}, {3, 0, 10, 0}, {7}},
		// the same through RemoveRemoteDeviceConnection, with a verdict looked up before and committed after the removal
		[]hx.Zs{{0}, {0}, {1, 3, 10, 1, 0}, {2, 3, 10, 0, 1}, {3, 3, 10, 0}, {2, 3, 10, 1, 1}, {6, 3}, {3, 3, 10, 1}, {4, 3, 10}, {5, 3, 10}, {7}},
		// two peers without device address pending together, one removed
		[]hx.Zs{{0}, {1, 1, 5, 1, 0}, {1, 3, 5, 0, 0}, {6, 3}, {2, 3, 5, 0, 1}, {3, 3, 5, 0}, {2, 1, 5, 0, 1}, {3, 1, 5, 0}, {4, 3, 5}, {5, 3, 5}, {7}},
	)
	hs = append(hs,
		// disconnect, reconnect with the same SKI (peer 4 = peer 0 again), write again: behaves like a first write
		[]hx.Zs{{0}, {1, 0, 1, 1, 0}, {2, 0, 1, 0, 1}, {3, 0, 1, 0}, {6, 0}, {1, 4, 2, 1, 0}, {2, 4, 2, 0, 1}, {3, 4, 2, 0}, {7}},
		// the same with a write pending at the disconnect and its late timeout / verdict after the reconnect (anonymous peer 1 -> 5)
		[]hx.Zs{{0}, {0}, {1, 1, 1, 1, 0}, {2, 1, 1, 0, 1}, {3, 1, 1, 0}, {6, 1}, {1, 5, 2, 0, 0}, {4, 1, 1}, {5, 1, 1}, {2, 1, 1, 1, 1}, {3, 1, 1, 1},
			{2, 5, 2, 0, 1}, {3, 5, 2, 0}, {2, 5, 2, 1, 1}, {3, 5, 2, 1}, {4, 5, 2}, {5, 5, 2}, {7}},
		// two reconnects of one SKI (RemoveRemoteDeviceConnection: 2 -> 6 -> 10), a write each, the second times out
		[]hx.Zs{{0}, {1, 2, 1, 0, 0}, {6, 2}, {1, 6, 2, 1, 0}, {6, 6}, {1, 10, 3, 1, 0}, {4, 10, 3}, {5, 10, 3}, {4, 6, 2}, {5, 6, 2}, {7}},
	)
	hs = append(hs,
		// the first callback is busy (silent, does not return): the second is still presented the write and its denial concludes it
		[]hx.Zs{{0}, {0}, {1, 0, 1, 1, 1 * busyBase}, {2, 0, 1, 1, 0}, {3, 0, 1, 1}, {4, 0, 1}, {5, 0, 1}, {7}},
		// all three callbacks are busy and approve one after the other from inside their callback functions, well before the timeout
		[]hx.Zs{{0}, {0}, {0}, {1, 1, 1, 1, 7 * busyBase}, {2, 1, 1, 2, 1}, {3, 1, 1, 2}, {2, 1, 1, 0, 1}, {2, 1, 1, 1, 1}, {3, 1, 1, 1}, {3, 1, 1, 0}, {4, 1, 1}, {5, 1, 1}, {7}},
		// a busy first callback on one write does not hold up the presentation of the next write
		[]hx.Zs{{0}, {0}, {1, 0, 1, 0, 1 * busyBase}, {1, 0, 2, 1, 0}, {2, 0, 2, 0, 1}, {3, 0, 2, 0}, {2, 0, 2, 1, 1}, {3, 0, 2, 1}, {2, 0, 1, 1, 1}, {3, 0, 1, 1}, {4, 0, 1}, {5, 0, 1}, {7}},
	)
	for i := range hs {
		hs[i] = assignSlots(hs[i])
	}
	return hs
}

func main() {
	runtime.GOMAXPROCS(1)
	hx.Main(hx.Config{
		Property: "C12",
		Clauses: map[int64]string{1: "not-presented-once-to-every-callback", 2: "second-outcome-for-a-write", 3: "applied-without-unanimous-approval",
			4: "timely-verdict-without-effect", 5: "timeout-without-error-result", 6: "output-or-bookkeeping-for-removed-connection",
			7: "data-not-the-write-applied-last", 8: "malformed-observation", 9: "call-into-the-stack-never-returned", 10: "call-into-the-stack-panicked", 98: "unparseable-observation", 99: "unparseable-operation"},
		OpNames: map[int64]string{0: "add-callback", 1: "arrive", 2: "verdict-lookup", 3: "verdict-commit", 4: "timeout-expire", 5: "timeout-fire", 6: "remove-connection", 7: "probe"},
		NewImpl: newImpl,
		Gen:     gen,
		Fixed:   fixed,
		Canon:   canon,
		Count:   map[string]int{"quick": 2500, "thorough": 40000},
		Extra: func() map[string]any {
			statsMu.Lock()
			defer statsMu.Unlock()
			return map[string]any{"timing_retries": retries, "steps_not_realised": unreal, "calls_that_never_returned": stuckCalls.Load(), "recovered_panics": panics, "implementation_step_outcomes": outcomeHist, "steps_not_realised_reasons": unrealWhy, "timeouts_awaited": expWaits,
				"slot_ms": float64(baseSlot) / float64(time.Millisecond), "max_timer_lateness_ms": float64(maxLate) / float64(time.Millisecond)}
		},
	})
}
