// C17 runner: the search for a concrete failing schedule.  Built with -race by lib/c17.py;
// runs the workload mix of the property's quantifier (inbound messages on several
// connections, local data updates, use-case changes, entity add/remove, subscribe/bind
// requests, remote data requests, approval verdicts, heartbeat start/stop, connection
// removal, plus read-only API calls and application event handlers) from many goroutines
// against one DeviceLocal.  A watchdog dumps all goroutines when a worker makes no
// progress.  Race reports are written by the Go race detector (GORACE log_path, set by the
// orchestrator) and classified there; this program reports operation counts and whether
// every worker finished.
//
// The writer drops outbound messages and takes no lock: a mutex in the harness would add
// happens-before edges between the goroutines and hide races of the stack.
//
//	-scenario mix      the quantifier's workload (default)
//	-scenario setters  configuration setters of the public API called while messages are
//	                   processed (SetDescription*, SetWriteApprovalTimeout, AddFunctionType,
//	                   SetOperations, SetMaxResponseDelay, SetDescription on remote entities)
package main

import (
	"encoding/json"
	"flag"
	"fmt"
	"math/rand"
	"os"
	"regexp"
	"runtime"
	"sync"
	"sync/atomic"
	"time"

	"github.com/enbility/spine-go/api"
	"github.com/enbility/spine-go/model"
	"github.com/enbility/spine-go/spine"
	"github.com/enbility/spine-go/util"
)

type nullWriter struct{}

func (nullWriter) WriteShipMessageWithPayload([]byte) {}

const nConn = 3

type world struct {
	local    *spine.DeviceLocal
	ent      *spine.EntityLocal
	lcServer *spine.FeatureLocal // LoadControl server (write approval)
	ddServer *spine.FeatureLocal // DeviceDiagnosis server (heartbeat)
	mClient  *spine.FeatureLocal // Measurement client
	lcClient *spine.FeatureLocal // LoadControl client
	mServer  *spine.FeatureLocal // Measurement server

	readers [nConn]atomic.Value // api.DeviceRemoteInterface (current connection object)
	ctr     [nConn]uint64
	verdict uint64

	panicMu      sync.Mutex
	panics       map[string]int
	panicSamples map[string]string
}

func skiOf(k int) string { return fmt.Sprintf("ski-%d", k) }
func devOf(k int) *model.AddressDeviceType {
	return util.Ptr(model.AddressDeviceType(fmt.Sprintf("R-%d", k)))
}

var localDev = util.Ptr(model.AddressDeviceType("L"))

func faddr(dev *model.AddressDeviceType, ent []uint, feat uint) *model.FeatureAddressType {
	return &model.FeatureAddressType{Device: dev, Entity: spine.NewAddressEntityType(ent), Feature: util.Ptr(model.AddressFeatureType(feat))}
}

func newWorld() *world {
	w := &world{}
	w.local = spine.NewDeviceLocal("brand", "model", "serial", "code", "L", model.DeviceTypeTypeEnergyManagementSystem, model.NetworkManagementFeatureSetTypeSmart)
	w.ent = spine.NewEntityLocal(w.local, model.EntityTypeTypeCEM, spine.NewAddressEntityType([]uint{1}), 4*time.Second)
	mk := func(ft model.FeatureTypeType, role model.RoleType) *spine.FeatureLocal {
		f := spine.NewFeatureLocal(w.ent.NextFeatureId(), w.ent, ft, role)
		w.ent.AddFeature(f)
		return f
	}
	w.lcServer = mk(model.FeatureTypeTypeLoadControl, model.RoleTypeServer)
	w.lcServer.AddFunctionType(model.FunctionTypeLoadControlLimitListData, true, true)
	w.lcServer.AddFunctionType(model.FunctionTypeLoadControlLimitDescriptionListData, true, false)
	w.ddServer = mk(model.FeatureTypeTypeDeviceDiagnosis, model.RoleTypeServer)
	w.mClient = mk(model.FeatureTypeTypeMeasurement, model.RoleTypeClient)
	w.lcClient = mk(model.FeatureTypeTypeLoadControl, model.RoleTypeClient)
	w.mServer = mk(model.FeatureTypeTypeMeasurement, model.RoleTypeServer)
	w.mServer.AddFunctionType(model.FunctionTypeMeasurementListData, true, false)
	w.mServer.AddFunctionType(model.FunctionTypeMeasurementDescriptionListData, true, false)
	w.lcServer.SetWriteApprovalTimeout(30 * time.Millisecond)
	w.lcServer.SetData(model.FunctionTypeLoadControlLimitListData, limits(0, 3))
	w.mServer.SetData(model.FunctionTypeMeasurementListData, measurements(0, 4))
	w.local.AddEntity(w.ent)
	// starts the heartbeat of entity 1
	w.ddServer.AddFunctionType(model.FunctionTypeDeviceDiagnosisHeartbeatData, true, false)
	for i := 0; i < 2; i++ {
		i := i
		_ = w.lcServer.AddWriteApprovalCallback(func(msg *api.Message) {
			n := atomic.AddUint64(&w.verdict, 1)
			switch (n + uint64(i)) % 5 {
			case 0: // no answer: the timer decides
			case 1:
				w.lcServer.ApproveOrDenyWrite(msg, model.ErrorType{ErrorNumber: 7, Description: util.Ptr(model.DescriptionType("denied"))})
			default:
				w.lcServer.ApproveOrDenyWrite(msg, model.ErrorType{})
			}
		})
	}
	return w
}

func limits(base int, n int) *model.LoadControlLimitListDataType {
	d := &model.LoadControlLimitListDataType{}
	for i := 0; i < n; i++ {
		d.LoadControlLimitData = append(d.LoadControlLimitData, model.LoadControlLimitDataType{
			LimitId:           util.Ptr(model.LoadControlLimitIdType(i)),
			IsLimitChangeable: util.Ptr(true),
			IsLimitActive:     util.Ptr(i%2 == 0),
			Value:             model.NewScaledNumberType(float64(base + i)),
			// a period without start and with a relative end: the custom (un)marshaller re-expresses the end
			// against the clock, i.e. every message that carries it runs the time/duration conversions of
			// model/commondatatypes_additions.go - from as many goroutines as there are connections
			TimePeriod: &model.TimePeriodType{EndTime: model.NewAbsoluteOrRelativeTimeTypeFromDuration(time.Duration(base+i+1) * time.Minute)},
		})
	}
	return d
}

func measurements(base int, n int) *model.MeasurementListDataType {
	d := &model.MeasurementListDataType{}
	for i := 0; i < n; i++ {
		d.MeasurementData = append(d.MeasurementData, model.MeasurementDataType{
			MeasurementId: util.Ptr(model.MeasurementIdType(i)),
			ValueType:     util.Ptr(model.MeasurementValueTypeTypeValue),
			Value:         model.NewScaledNumberType(float64(base + i)),
		})
	}
	return d
}

// connect sets up connection k and feeds the peer's detailed discovery reply before other
// inbound messages are routed to the new connection object (a request that arrives before
// the peer's address is known dereferences nil in the stack: C05's subject, not C17's)
func (w *world) connect(k int) api.DeviceRemoteInterface {
	r := w.local.SetupRemoteDevice(skiOf(k), nullWriter{})
	rd := r.(api.DeviceRemoteInterface)
	d := model.Datagram{Datagram: model.DatagramType{
		Header:  w.header(k, nm(devOf(k)), nm(localDev), model.CmdClassifierTypeReply, util.Ptr(uint64(1)), false),
		Payload: model.PayloadType{Cmd: []model.CmdType{{NodeManagementDetailedDiscoveryData: w.discoveryData(k)}}}}}
	b, _ := json.Marshal(d)
	w.handle(rd, b)
	w.readers[k].Store(rd)
	return rd
}

func (w *world) reader(k int) api.DeviceRemoteInterface {
	return w.readers[k].Load().(api.DeviceRemoteInterface)
}

// ---- inbound datagrams ----

func (w *world) header(k int, src, dst *model.FeatureAddressType, cls model.CmdClassifierType, ref *uint64, ack bool) model.HeaderType {
	c := model.MsgCounterType(atomic.AddUint64(&w.ctr[k], 1))
	h := model.HeaderType{
		SpecificationVersion: &spine.SpecificationVersion,
		AddressSource:        src,
		AddressDestination:   dst,
		MsgCounter:           &c,
		CmdClassifier:        &cls,
	}
	if ref != nil {
		h.MsgCounterReference = util.Ptr(model.MsgCounterType(*ref))
	}
	if ack {
		h.AckRequest = util.Ptr(true)
	}
	return h
}

func (w *world) deliver(k int, h model.HeaderType, cmd model.CmdType) {
	d := model.Datagram{Datagram: model.DatagramType{Header: h, Payload: model.PayloadType{Cmd: []model.CmdType{cmd}}}}
	b, err := json.Marshal(d)
	if err != nil {
		panic(err)
	}
	w.handle(w.reader(k), b)
}

// a panic in a message handler or an API call is recorded with its innermost spine-go
// frame and the workload goes on (the stack's deferred unlocks run); the orchestrator
// classifies it like a race report (known finding or violation)
func (w *world) handle(rd api.DeviceRemoteInterface, b []byte) {
	defer w.recoverPanic()
	_, _ = rd.HandleSpineMesssage(b)
}

var frameRe = regexp.MustCompile(`(?m)^github\.com/enbility/spine-go/(.+)\([^()]*\)$`)

func (w *world) recoverPanic() {
	r := recover()
	if r == nil {
		return
	}
	buf := make([]byte, 16384)
	n := runtime.Stack(buf, false)
	stack := string(buf[:n])
	site := "?"
	if m := frameRe.FindStringSubmatch(stack); m != nil {
		site = m[1]
	}
	key := site + "|" + fmt.Sprint(r)
	w.panicMu.Lock()
	if w.panics == nil {
		w.panics = map[string]int{}
		w.panicSamples = map[string]string{}
	}
	w.panics[key]++
	if _, ok := w.panicSamples[key]; !ok {
		w.panicSamples[key] = stack
	}
	w.panicMu.Unlock()
}

func nm(dev *model.AddressDeviceType) *model.FeatureAddressType { return faddr(dev, []uint{0}, 0) }

func featureInfo(dev *model.AddressDeviceType, ent []uint, id uint, ft model.FeatureTypeType, role model.RoleType, fcts ...model.FunctionType) model.NodeManagementDetailedDiscoveryFeatureInformationType {
	var sf []model.FunctionPropertyType
	for _, f := range fcts {
		f := f
		sf = append(sf, model.FunctionPropertyType{Function: &f, PossibleOperations: &model.PossibleOperationsType{Read: &model.PossibleOperationsReadType{}, Write: &model.PossibleOperationsWriteType{}}})
	}
	return model.NodeManagementDetailedDiscoveryFeatureInformationType{Description: &model.NetworkManagementFeatureDescriptionDataType{
		FeatureAddress: faddr(dev, ent, id), FeatureType: &ft, Role: &role, SupportedFunction: sf,
		Description: util.Ptr(model.DescriptionType("f")), MaxResponseDelay: util.Ptr(model.MaxResponseDelayType("PT5S")),
	}}
}

func entityInfo(dev *model.AddressDeviceType, ent []uint, et model.EntityTypeType, change *model.NetworkManagementStateChangeType) model.NodeManagementDetailedDiscoveryEntityInformationType {
	return model.NodeManagementDetailedDiscoveryEntityInformationType{Description: &model.NetworkManagementEntityDescriptionDataType{
		EntityAddress: &model.EntityAddressType{Device: dev, Entity: spine.NewAddressEntityType(ent)}, EntityType: &et,
		LastStateChange: change, Description: util.Ptr(model.DescriptionType("e")),
	}}
}

func (w *world) discoveryData(k int) *model.NodeManagementDetailedDiscoveryDataType {
	dev := devOf(k)
	return &model.NodeManagementDetailedDiscoveryDataType{
		DeviceInformation: &model.NodeManagementDetailedDiscoveryDeviceInformationType{Description: &model.NetworkManagementDeviceDescriptionDataType{
			DeviceAddress: &model.DeviceAddressType{Device: dev}, DeviceType: util.Ptr(model.DeviceTypeTypeChargingStation),
			NetworkFeatureSet: util.Ptr(model.NetworkManagementFeatureSetTypeSmart),
		}},
		EntityInformation: []model.NodeManagementDetailedDiscoveryEntityInformationType{
			entityInfo(dev, []uint{0}, model.EntityTypeTypeDeviceInformation, nil),
			entityInfo(dev, []uint{1}, model.EntityTypeTypeEVSE, nil),
		},
		FeatureInformation: []model.NodeManagementDetailedDiscoveryFeatureInformationType{
			featureInfo(dev, []uint{0}, 0, model.FeatureTypeTypeNodeManagement, model.RoleTypeSpecial, model.FunctionTypeNodeManagementDetailedDiscoveryData, model.FunctionTypeNodeManagementUseCaseData),
			featureInfo(dev, []uint{1}, 1, model.FeatureTypeTypeMeasurement, model.RoleTypeServer, model.FunctionTypeMeasurementListData),
			featureInfo(dev, []uint{1}, 2, model.FeatureTypeTypeLoadControl, model.RoleTypeClient),
			featureInfo(dev, []uint{1}, 3, model.FeatureTypeTypeLoadControl, model.RoleTypeServer, model.FunctionTypeLoadControlLimitListData),
			featureInfo(dev, []uint{1}, 4, model.FeatureTypeTypeMeasurement, model.RoleTypeClient),
		},
	}
}

func (w *world) inDiscoveryReply(k int) {
	w.deliver(k, w.header(k, nm(devOf(k)), nm(localDev), model.CmdClassifierTypeReply, util.Ptr(uint64(1)), false),
		model.CmdType{NodeManagementDetailedDiscoveryData: w.discoveryData(k)})
}

func (w *world) inEntityChange(k int, add bool) {
	dev := devOf(k)
	ch := model.NetworkManagementStateChangeTypeAdded
	if !add {
		ch = model.NetworkManagementStateChangeTypeRemoved
	}
	data := &model.NodeManagementDetailedDiscoveryDataType{
		DeviceInformation: &model.NodeManagementDetailedDiscoveryDeviceInformationType{Description: &model.NetworkManagementDeviceDescriptionDataType{DeviceAddress: &model.DeviceAddressType{Device: dev}}},
		EntityInformation: []model.NodeManagementDetailedDiscoveryEntityInformationType{entityInfo(dev, []uint{2}, model.EntityTypeTypeEV, &ch)},
	}
	if add {
		data.FeatureInformation = []model.NodeManagementDetailedDiscoveryFeatureInformationType{
			featureInfo(dev, []uint{2}, 1, model.FeatureTypeTypeMeasurement, model.RoleTypeClient),
			featureInfo(dev, []uint{2}, 2, model.FeatureTypeTypeLoadControl, model.RoleTypeClient),
		}
	}
	w.deliver(k, w.header(k, nm(devOf(k)), nm(localDev), model.CmdClassifierTypeNotify, nil, false),
		model.CmdType{Function: util.Ptr(model.FunctionTypeNodeManagementDetailedDiscoveryData), Filter: []model.FilterType{*model.NewFilterTypePartial()}, NodeManagementDetailedDiscoveryData: data})
}

func (w *world) inSubscription(k int, ent uint, clientFeat uint, server *spine.FeatureLocal, del bool) {
	client := faddr(devOf(k), []uint{ent}, clientFeat)
	cmd := model.CmdType{}
	if del {
		cmd.NodeManagementSubscriptionDeleteCall = spine.NewNodeManagementSubscriptionDeleteCallType(client, server.Address())
	} else {
		cmd.NodeManagementSubscriptionRequestCall = spine.NewNodeManagementSubscriptionRequestCallType(client, server.Address(), server.Type())
	}
	w.deliver(k, w.header(k, nm(devOf(k)), nm(localDev), model.CmdClassifierTypeCall, nil, true), cmd)
}

func (w *world) inBinding(k int, ent uint, clientFeat uint, server *spine.FeatureLocal, del bool) {
	client := faddr(devOf(k), []uint{ent}, clientFeat)
	cmd := model.CmdType{}
	if del {
		cmd.NodeManagementBindingDeleteCall = spine.NewNodeManagementBindingDeleteCallType(client, server.Address())
	} else {
		cmd.NodeManagementBindingRequestCall = spine.NewNodeManagementBindingRequestCallType(client, server.Address(), server.Type())
	}
	w.deliver(k, w.header(k, nm(devOf(k)), nm(localDev), model.CmdClassifierTypeCall, nil, true), cmd)
}

func (w *world) inbound(k int, rng *rand.Rand) string {
	dev := devOf(k)
	switch n := rng.Intn(100); {
	case n < 6:
		w.inDiscoveryReply(k)
		return "in.discovery-reply"
	case n < 10:
		w.inEntityChange(k, true)
		return "in.entity-added"
	case n < 13:
		w.inEntityChange(k, false)
		return "in.entity-removed"
	case n < 21:
		w.inSubscription(k, 1, 2, w.lcServer, false)
		return "in.subscribe"
	case n < 26:
		w.inSubscription(k, 1, 4, w.mServer, false)
		return "in.subscribe"
	case n < 29:
		w.inSubscription(k, 2, 1, w.mServer, false)
		return "in.subscribe"
	case n < 33:
		w.inSubscription(k, 1, []uint{2, 4}[rng.Intn(2)], []*spine.FeatureLocal{w.lcServer, w.mServer}[rng.Intn(2)], true)
		return "in.unsubscribe"
	case n < 41:
		w.inBinding(k, 1, 2, w.lcServer, false)
		return "in.bind"
	case n < 45:
		w.inBinding(k, 1, 2, w.lcServer, true)
		return "in.unbind"
	case n < 53:
		w.deliver(k, w.header(k, faddr(dev, []uint{1}, 4), w.mServer.Address(), model.CmdClassifierTypeRead, nil, false),
			model.CmdType{MeasurementListData: &model.MeasurementListDataType{}})
		return "in.read"
	case n < 58:
		w.deliver(k, w.header(k, nm(dev), nm(localDev), model.CmdClassifierTypeRead, nil, false),
			model.CmdType{NodeManagementDetailedDiscoveryData: &model.NodeManagementDetailedDiscoveryDataType{}})
		return "in.read-discovery"
	case n < 62:
		w.deliver(k, w.header(k, nm(dev), nm(localDev), model.CmdClassifierTypeRead, nil, false),
			model.CmdType{NodeManagementUseCaseData: &model.NodeManagementUseCaseDataType{}})
		return "in.read-usecases"
	case n < 65:
		w.deliver(k, w.header(k, nm(dev), nm(localDev), model.CmdClassifierTypeRead, nil, false),
			model.CmdType{NodeManagementSubscriptionData: &model.NodeManagementSubscriptionDataType{}})
		return "in.read-subscriptions"
	case n < 77:
		partial := rng.Intn(2) == 0
		cmd := model.CmdType{LoadControlLimitListData: limits(rng.Intn(1000), 1+rng.Intn(3))}
		if partial {
			cmd.Function = util.Ptr(model.FunctionTypeLoadControlLimitListData)
			cmd.Filter = []model.FilterType{*model.NewFilterTypePartial()}
		}
		w.deliver(k, w.header(k, faddr(dev, []uint{1}, 2), w.lcServer.Address(), model.CmdClassifierTypeWrite, nil, true), cmd)
		return "in.write"
	case n < 87:
		cmd := model.CmdType{MeasurementListData: measurements(rng.Intn(1000), 1+rng.Intn(4))}
		if rng.Intn(2) == 0 {
			cmd.Function = util.Ptr(model.FunctionTypeMeasurementListData)
			cmd.Filter = []model.FilterType{*model.NewFilterTypePartial()}
		}
		w.deliver(k, w.header(k, faddr(dev, []uint{1}, 1), w.mClient.Address(), model.CmdClassifierTypeNotify, nil, rng.Intn(4) == 0), cmd)
		return "in.notify"
	case n < 92:
		ref := uint64(1 + rng.Intn(40))
		w.deliver(k, w.header(k, faddr(dev, []uint{1}, 1), w.mClient.Address(), model.CmdClassifierTypeReply, &ref, false),
			model.CmdType{MeasurementListData: measurements(rng.Intn(1000), 2)})
		return "in.reply"
	case n < 96:
		ref := uint64(1 + rng.Intn(40))
		w.deliver(k, w.header(k, faddr(dev, []uint{1}, 3), w.lcClient.Address(), model.CmdClassifierTypeResult, &ref, false),
			model.CmdType{ResultData: &model.ResultDataType{ErrorNumber: util.Ptr(model.ErrorNumberType(rng.Intn(2)))}})
		return "in.result"
	default:
		uc := &model.NodeManagementUseCaseDataType{}
		uc.AddUseCaseSupport(*faddr(dev, []uint{1}, 0), model.UseCaseActorTypeEVSE, model.UseCaseNameTypeEVSECommissioningAndConfiguration, "1.0.0", "release", true, []model.UseCaseScenarioSupportType{1, 2})
		w.deliver(k, w.header(k, nm(dev), nm(localDev), model.CmdClassifierTypeReply, util.Ptr(uint64(2)), false), model.CmdType{NodeManagementUseCaseData: uc})
		return "in.usecase-reply"
	}
}

// ---- API workers ----

type handler struct{ n uint64 }

func (h *handler) HandleEvent(p api.EventPayload) {
	atomic.AddUint64(&h.n, 1)
	if p.Device != nil {
		_ = p.Device.Address()
		_ = p.Device.Ski()
	}
	if p.Entity != nil {
		_ = p.Entity.Address()
		_ = p.Entity.Description()
	}
	if p.Feature != nil {
		_ = p.Feature.Address()
		_ = p.Feature.Type()
	}
}

func (w *world) localData(rng *rand.Rand) string {
	switch rng.Intn(4) {
	case 0:
		w.mServer.SetData(model.FunctionTypeMeasurementListData, measurements(rng.Intn(1000), 1+rng.Intn(5)))
		return "api.SetData"
	case 1:
		_ = w.mServer.UpdateData(model.FunctionTypeMeasurementListData, measurements(rng.Intn(1000), 1+rng.Intn(3)), model.NewFilterTypePartial(), nil)
		return "api.UpdateData"
	case 2:
		_ = w.lcServer.UpdateData(model.FunctionTypeLoadControlLimitListData, limits(rng.Intn(1000), 1+rng.Intn(3)), model.NewFilterTypePartial(), nil)
		return "api.UpdateData"
	default:
		_ = w.mServer.DataCopy(model.FunctionTypeMeasurementListData)
		_ = w.lcServer.DataCopy(model.FunctionTypeLoadControlLimitListData)
		return "api.DataCopy"
	}
}

// values handed over to the stack are allocated before the workers start, so that the
// harness's own initialising writes never appear as one side of a report
var (
	scenarios = []model.UseCaseScenarioSupportType{1, 2, 3}
	descX     = util.Ptr(model.DescriptionType("x"))
	descY     = util.Ptr(model.DescriptionType("y"))
	descZ     = util.Ptr(model.DescriptionType("z"))
	delay3s   = util.Ptr(model.MaxResponseDelayType("PT3S"))
)

var ucNames = []model.UseCaseNameType{model.UseCaseNameTypeControlOfBattery, model.UseCaseNameTypeEVSECommissioningAndConfiguration, model.UseCaseNameTypeEVChargingSummary}

func (w *world) useCases(ent api.EntityLocalInterface, rng *rand.Rand) string {
	name := ucNames[rng.Intn(len(ucNames))]
	switch rng.Intn(5) {
	case 0, 1:
		ent.AddUseCaseSupport(model.UseCaseActorTypeCEM, name, "1.0.0", "release", true, scenarios)
		return "api.AddUseCaseSupport"
	case 2:
		ent.SetUseCaseAvailability(model.UseCaseActorTypeCEM, name, rng.Intn(2) == 0)
		return "api.SetUseCaseAvailability"
	case 3:
		ent.RemoveUseCaseSupport(model.UseCaseActorTypeCEM, name)
		return "api.RemoveUseCaseSupport"
	default:
		_ = ent.HasUseCaseSupport(model.UseCaseActorTypeCEM, name)
		return "api.HasUseCaseSupport"
	}
}

func (w *world) entityCycle(rng *rand.Rand, id uint) string {
	e := spine.NewEntityLocal(w.local, model.EntityTypeTypeEV, spine.NewAddressEntityType([]uint{id}), 4*time.Second)
	f := spine.NewFeatureLocal(e.NextFeatureId(), e, model.FeatureTypeTypeMeasurement, model.RoleTypeServer)
	f.AddFunctionType(model.FunctionTypeMeasurementListData, true, false)
	e.AddFeature(f)
	c := e.GetOrAddFeature(model.FeatureTypeTypeLoadControl, model.RoleTypeClient)
	w.local.AddEntity(e)
	f.SetData(model.FunctionTypeMeasurementListData, measurements(int(id), 2))
	e.AddUseCaseSupport(model.UseCaseActorTypeEV, model.UseCaseNameTypeEVChargingSummary, "1.0.0", "release", true, nil)
	k := rng.Intn(nConn)
	_, _ = c.SubscribeToRemote(faddr(devOf(k), []uint{1}, 3))
	_, _ = c.BindToRemote(faddr(devOf(k), []uint{1}, 3))
	w.local.RemoveEntity(e)
	return "api.entity-add-remove"
}

func (w *world) subscribeBind(rng *rand.Rand) string {
	k := rng.Intn(nConn)
	switch rng.Intn(6) {
	case 0:
		_, _ = w.mClient.SubscribeToRemote(faddr(devOf(k), []uint{1}, 1))
		return "api.SubscribeToRemote"
	case 1:
		_, _ = w.lcClient.BindToRemote(faddr(devOf(k), []uint{1}, 3))
		return "api.BindToRemote"
	case 2:
		_, _ = w.mClient.RemoveRemoteSubscription(faddr(devOf(k), []uint{1}, 1))
		return "api.RemoveRemoteSubscription"
	case 3:
		_, _ = w.lcClient.RemoveRemoteBinding(faddr(devOf(k), []uint{1}, 3))
		return "api.RemoveRemoteBinding"
	case 4:
		_ = w.mClient.HasSubscriptionToRemote(faddr(devOf(k), []uint{1}, 1))
		_ = w.lcClient.HasBindingToRemote(faddr(devOf(k), []uint{1}, 3))
		return "api.HasSubscription/Binding"
	default:
		w.lcClient.RemoveAllRemoteBindings()
		w.mClient.RemoveAllRemoteSubscriptions()
		return "api.RemoveAllRemote*"
	}
}

func (w *world) remoteRequests(rng *rand.Rand) string {
	k := rng.Intn(nConn)
	rd := w.local.RemoteDeviceForSki(skiOf(k))
	if rd == nil {
		return "api.request(no device)"
	}
	rf := rd.FeatureByAddress(faddr(devOf(k), []uint{1}, 1))
	if rf == nil {
		rf = rd.FeatureByAddress(faddr(nil, []uint{0}, 0))
	}
	if rf == nil {
		return "api.request(no feature)"
	}
	switch rng.Intn(3) {
	case 0:
		ctr, err := w.mClient.RequestRemoteData(model.FunctionTypeMeasurementListData, nil, nil, rf)
		if err == nil && ctr != nil {
			_ = w.mClient.AddResponseCallback(*ctr, func(api.ResponseMessage) {})
		}
		return "api.RequestRemoteData"
	case 1:
		_, _ = rd.Sender().DatagramForMsgCounter(model.MsgCounterType(1 + rng.Intn(50)))
		return "api.DatagramForMsgCounter"
	default:
		_, _ = w.local.RequestRemoteDetailedDiscoveryData(rd)
		return "api.RequestRemoteDetailedDiscoveryData"
	}
}

func (w *world) readOnly(rng *rand.Rand) string {
	for _, rd := range w.local.RemoteDevices() {
		_ = rd.Address()
		_ = rd.DeviceType()
		_ = rd.FeatureSet()
		_ = rd.UseCases()
		for _, e := range rd.Entities() {
			_ = e.Address()
			_ = e.Description()
			for _, f := range e.Features() {
				_ = f.Address()
				_ = f.Description()
				_ = f.Operations()
				_ = f.MaxResponseDelayDuration()
				_ = f.DataCopy(model.FunctionTypeMeasurementListData)
			}
		}
		_ = w.local.SubscriptionManager().Subscriptions(rd)
		_ = w.local.BindingManager().Bindings(rd)
	}
	k := rng.Intn(nConn)
	_ = w.local.RemoteDeviceForAddress(*devOf(k))
	for _, e := range w.local.Entities() {
		_ = e.Information()
		for _, f := range e.Features() {
			_ = f.Information()
			_ = f.Functions()
		}
	}
	_ = w.local.FeatureByAddress(w.mServer.Address())
	_ = w.local.Information()
	return "api.read-only"
}

func (w *world) heartbeat(rng *rand.Rand) string {
	hm := w.ent.HeartbeatManager()
	switch rng.Intn(3) {
	case 0:
		_ = hm.StartHeartbeat()
		return "api.StartHeartbeat"
	case 1:
		hm.StopHeartbeat()
		return "api.StopHeartbeat"
	default:
		_ = hm.IsHeartbeatRunning()
		return "api.IsHeartbeatRunning"
	}
}

func (w *world) flap(k int) string {
	w.local.RemoveRemoteDeviceConnection(skiOf(k))
	w.connect(k)
	return "api.connection-remove-and-setup"
}

func (w *world) setters(rng *rand.Rand) string {
	switch rng.Intn(7) {
	case 0:
		w.mServer.SetDescriptionString(fmt.Sprintf("d%d", rng.Intn(10)))
		return "api.SetDescriptionString"
	case 1:
		w.mServer.SetDescription(descX)
		return "api.SetDescription"
	case 2:
		w.lcServer.SetWriteApprovalTimeout(time.Duration(20+rng.Intn(20)) * time.Millisecond)
		return "api.SetWriteApprovalTimeout"
	case 3:
		w.mServer.AddFunctionType(model.FunctionTypeMeasurementConstraintsListData, true, false)
		w.mServer.AddFunctionType(model.FunctionTypeMeasurementThresholdRelationListData, true, false)
		return "api.AddFunctionType"
	default:
		rd := w.local.RemoteDeviceForSki(skiOf(rng.Intn(nConn)))
		if rd == nil {
			return "api.setters(no device)"
		}
		for _, e := range rd.Entities() {
			e.SetDescription(descY)
			for _, f := range e.Features() {
				f.SetMaxResponseDelay(delay3s)
				f.SetOperations(nil)
				f.SetDescription(descZ)
			}
		}
		return "api.remote-setters"
	}
}

// ---- driver ----

type worker struct {
	name     string
	progress uint64
	done     uint32
	ops      map[string]int
	step     func(*rand.Rand) string
}

func main() {
	tier := flag.String("tier", "quick", "quick|thorough")
	seed := flag.Int64("seed", 1, "seed")
	out := flag.String("out", "", "result json")
	scenario := flag.String("scenario", "mix", "mix|setters")
	dur := flag.Duration("duration", 0, "workload duration (default by tier)")
	dump := flag.String("dump", "", "file for the goroutine dump of the watchdog")
	flag.Parse()
	if *dur == 0 {
		*dur = 14 * time.Second
		if *tier == "thorough" {
			*dur = 9 * time.Minute
		}
		if *scenario == "setters" {
			*dur = *dur / 4
		}
	}
	w := newWorld()
	h := &handler{}
	_ = spine.Events.Subscribe(h)
	for k := 0; k < nConn; k++ {
		w.connect(k)
	}

	var workers []*worker
	add := func(name string, step func(*rand.Rand) string) {
		workers = append(workers, &worker{name: name, ops: map[string]int{}, step: step})
	}
	for k := 0; k < nConn; k++ {
		k := k
		add(fmt.Sprintf("inbound-%d", k), func(r *rand.Rand) string { return w.inbound(k, r) })
	}
	add("inbound-0b", func(r *rand.Rand) string { return w.inbound(0, r) }) // a second reader on the same connection
	add("local-data", w.localData)
	add("local-data-2", w.localData)
	add("use-cases", func(r *rand.Rand) string { return w.useCases(w.ent, r) })
	add("use-cases-2", func(r *rand.Rand) string { return w.useCases(w.ent, r) })
	var entID uint32 = 10
	add("entity-add-remove", func(r *rand.Rand) string { return w.entityCycle(r, uint(atomic.AddUint32(&entID, 1))) })
	add("subscribe-bind", w.subscribeBind)
	add("remote-requests", w.remoteRequests)
	add("read-only", w.readOnly)
	add("heartbeat", func(r *rand.Rand) string {
		time.Sleep(time.Millisecond)
		return w.heartbeat(r)
	})
	add("heartbeat-2", func(r *rand.Rand) string {
		time.Sleep(time.Millisecond)
		return w.heartbeat(r)
	})
	add("connection-flap", func(r *rand.Rand) string {
		time.Sleep(3 * time.Millisecond)
		return w.flap(nConn - 1)
	})
	add("event-subscription", func(r *rand.Rand) string {
		time.Sleep(500 * time.Microsecond)
		h2 := &handler{}
		_ = spine.Events.Subscribe(h2)
		_ = spine.Events.Unsubscribe(h2)
		return "api.Events.Subscribe/Unsubscribe"
	})
	if *scenario == "setters" {
		add("setters", w.setters)
		add("setters-2", w.setters)
	}

	deadline := time.Now().Add(*dur)
	var wg sync.WaitGroup
	for i, wk := range workers {
		wg.Add(1)
		go func(i int, wk *worker) {
			defer wg.Done()
			defer atomic.StoreUint32(&wk.done, 1)
			rng := rand.New(rand.NewSource(*seed*1000 + int64(i)))
			for time.Now().Before(deadline) {
				func() {
					defer w.recoverPanic()
					op := wk.step(rng)
					wk.ops[op]++
				}()
				atomic.AddUint64(&wk.progress, 1)
			}
		}(i, wk)
	}
	finished := make(chan struct{})
	go func() { wg.Wait(); close(finished) }()

	// watchdog: a worker whose counter does not move for `limit` is stuck
	limit := 20 * time.Second
	last := make([]uint64, len(workers))
	lastMove := make([]time.Time, len(workers))
	for i := range lastMove {
		lastMove[i] = time.Now()
	}
	stuck := ""
	tick := time.NewTicker(250 * time.Millisecond)
loop:
	for {
		select {
		case <-finished:
			break loop
		case <-tick.C:
			for i, wk := range workers {
				p := atomic.LoadUint64(&wk.progress)
				if p != last[i] || atomic.LoadUint32(&wk.done) == 1 {
					last[i] = p
					lastMove[i] = time.Now()
				} else if time.Since(lastMove[i]) > limit {
					stuck = wk.name
					break loop
				}
			}
		}
	}
	res := map[string]any{"scenario": *scenario, "seed": *seed, "duration_s": dur.Seconds(), "workers": len(workers), "goroutines_at_end": runtime.NumGoroutine()}
	if stuck != "" {
		buf := make([]byte, 8<<20)
		n := runtime.Stack(buf, true)
		if *dump != "" {
			_ = os.WriteFile(*dump, buf[:n], 0o644)
		}
		res["stuck_worker"] = stuck
		res["dump"] = *dump
	}
	ops := map[string]int{}
	total := 0
	perWorker := map[string]uint64{}
	for _, wk := range workers {
		perWorker[wk.name] = atomic.LoadUint64(&wk.progress)
		if stuck == "" {
			for k, v := range wk.ops {
				ops[k] += v
				total += v
			}
		}
	}
	res["op_distribution"] = ops
	res["operations"] = total
	res["per_worker"] = perWorker
	res["events_delivered_to_application_handler"] = atomic.LoadUint64(&h.n)
	w.panicMu.Lock()
	res["panics"] = w.panics
	res["panic_samples"] = w.panicSamples
	w.panicMu.Unlock()
	b, _ := json.MarshalIndent(res, "", " ")
	if *out != "" {
		_ = os.WriteFile(*out, b, 0o644)
	} else {
		fmt.Println(string(b))
	}
	if stuck != "" {
		os.Exit(3)
	}
}
