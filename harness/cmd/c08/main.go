// C08 runner: subscriptions registry and notification fan-out, real stack vs coq/Model/Stack.v
// judged by coq/Spec/C08Spec.v.
package main

import (
	"verifharness/hx"
	"verifharness/stack"
)

func pickAddr(r *hx.Rng, a stack.FAddr) stack.FAddr {
	// omit the device part now and then (legal: defaults to sender / recipient)
	if r.Chance(1, 3) {
		a.Dev = 0
	}
	return a
}

// fanOut: every compatible remote feature of every peer subscribes to one server feature;
// data changes interleaved with deletes, a disconnect and listings.
func fanOut(r *hx.Rng) []hx.Zs {
	focus := int64(r.Range(1, 3))
	pl := stack.GenPlanFocus(r, focus)
	h := append([]hx.Zs{}, pl.Prefix...)
	h = append(h, pl.ConnectAll()...)
	ctr := map[int64]int64{}
	next := func(p int64) int64 { ctr[p]++; return 100*p + ctr[p] }
	var servers []stack.LFeat
	for _, f := range pl.Servers() {
		if f.Type == focus && len(f.Fns) > 0 {
			servers = append(servers, f)
		}
	}
	if len(servers) == 0 {
		return h
	}
	type sub struct {
		p        int64
		cli, srv stack.FAddr
	}
	var subs []sub
	for _, srv := range servers[:min(len(servers), 2)] {
		for _, p := range pl.Peers {
			for _, f := range p.Feats {
				if f.Ent[0] != 0 && r.Chance(5, 6) {
					s := sub{p.Ski, p.Addr(f, r.Chance(2, 3)), srv.Addr(r.Chance(2, 3))}
					subs = append(subs, s)
					h = append(h, stack.OpSubCall(p.Ski, next(p.Ski), r.Bool(), s.cli, s.srv, srv.Type+1))
				}
			}
		}
	}
	change := func() {
		srv := servers[r.Intn(min(len(servers), 2))]
		fn := srv.Fns[r.Intn(len(srv.Fns))]
		h = append(h, stack.OpSetData(srv.Ent, srv.Id, fn, int64(r.Range(1, 900))))
		if r.Chance(1, 4) { // back to an earlier value by way of another route of change
			v := int64(4 * r.Range(1, 200))
			h = append(h, stack.OpSetData(srv.Ent, srv.Id, fn, v), stack.OpSetData(srv.Ent, srv.Id, fn, v+int64(r.Range(1, 3))), stack.OpSetData(srv.Ent, srv.Id, fn, v))
		}
	}
	change()
	for k := 0; k < r.Range(2, 8); k++ {
		switch r.Pick(4, 3, 1, 1) {
		case 0:
			change()
		case 1:
			if len(subs) > 0 {
				s := subs[r.Intn(len(subs))]
				h = append(h, stack.OpSubDelete(s.p, next(s.p), r.Bool(), s.cli, s.srv))
			}
		case 2:
			p := pl.Peers[r.Intn(len(pl.Peers))]
			h = append(h, stack.OpDisconnect(p.Ski))
		default:
			p := pl.Peers[r.Intn(len(pl.Peers))]
			h = append(h, stack.OpListSubs(p.Ski))
		}
	}
	change()
	return h
}

// writeFanOut: accepted and rejected remote writes (with and without acknowledgement request)
// against a server feature with several subscribers; unbind / rebind in between.
func writeFanOut(r *hx.Rng) []hx.Zs {
	focus := int64(r.Range(1, 3))
	pl := stack.GenPlanFocus(r, focus)
	h := append([]hx.Zs{}, pl.Prefix...)
	h = append(h, pl.ConnectAll()...)
	ctr := map[int64]int64{}
	next := func(p int64) int64 { ctr[p]++; return 100*p + ctr[p] }
	var srv *stack.LFeat
	var wfn int64
	for i, f := range pl.Servers() {
		for _, fn := range f.Fns {
			if f.Type == focus && f.Writable[fn] {
				s := pl.Servers()[i]
				srv, wfn = &s, fn
			}
		}
	}
	if srv == nil {
		return fanOut(r)
	}
	type cl struct {
		p   int64
		a   stack.FAddr
		typ int64
	}
	var clients []cl
	for _, p := range pl.Peers {
		for _, f := range p.Feats {
			if f.Ent[0] != 0 && f.Role == 0 && (f.Type == focus || f.Type == 4) {
				c := cl{p.Ski, p.Addr(f, true), f.Type}
				clients = append(clients, c)
				if r.Chance(4, 5) {
					h = append(h, stack.OpSubCall(p.Ski, next(p.Ski), r.Bool(), c.a, srv.Addr(true), srv.Type+1))
				}
			}
		}
	}
	if len(clients) == 0 {
		return fanOut(r)
	}
	bound := clients[r.Intn(len(clients))]
	h = append(h, stack.OpBindCall(bound.p, next(bound.p), r.Bool(), bound.a, srv.Addr(true), srv.Type+1))
	isBound := true
	for k := 0; k < r.Range(4, 14); k++ {
		switch r.Pick(8, 3, 2, 2, 2, 1) {
		case 0: // write by the bound client, with or without ack request
			h = append(h, stack.OpWrite(bound.p, next(bound.p), r.Bool(), bound.a, srv.Addr(r.Chance(2, 3)), wfn, int64(r.Range(1, 900))))
		case 1: // write by another client
			c := clients[r.Intn(len(clients))]
			h = append(h, stack.OpWrite(c.p, next(c.p), r.Bool(), c.a, srv.Addr(true), wfn, int64(r.Range(1, 900))))
		case 2: // write to another function of the feature
			h = append(h, stack.OpWrite(bound.p, next(bound.p), r.Bool(), bound.a, srv.Addr(true), srv.Fns[r.Intn(len(srv.Fns))], int64(r.Range(1, 900))))
		case 3:
			h = append(h, stack.OpSetData(srv.Ent, srv.Id, wfn, int64(r.Range(1, 900))))
		case 4:
			if isBound {
				h = append(h, stack.OpBindDelete(bound.p, next(bound.p), r.Bool(), bound.a, srv.Addr(true)))
			} else {
				h = append(h, stack.OpBindCall(bound.p, next(bound.p), r.Bool(), bound.a, srv.Addr(true), srv.Type+1))
			}
			isBound = !isBound
		default:
			c := clients[r.Intn(len(clients))]
			h = append(h, stack.OpSubDelete(c.p, next(c.p), r.Bool(), c.a, srv.Addr(true)))
		}
	}
	h = append(h, stack.OpReadData(srv.Ent, srv.Id, wfn))
	return h
}

func gen(r *hx.Rng, tier string, i int) []hx.Zs {
	if i%14 == 13 {
		// a notification round held in its first write while a later subscriber is disconnected
		return stack.RoundOverlap(r)
	}
	if i%14 == 6 {
		// an entity announced again without its features, then torn down
		return stack.Reannounce(r)
	}
	if i%7 == 2 {
		// a delete call of one peer overlapped by a subscribe call of another (atomicity of RemoveSubscription)
		return stack.DeleteOverlap(r, false)
	}
	if i%7 == 5 {
		// two peers that cannot be told apart by address delete their own and each other's subscriptions
		return stack.Twins(r, false)
	}
	if i%4 == 3 {
		return writeFanOut(r)
	}
	if i%3 == 1 {
		return fanOut(r)
	}
	pl := stack.GenPlan(r)
	h := append([]hx.Zs{}, pl.Prefix...)
	h = append(h, pl.ConnectAll()...)
	ctr := map[int64]int64{}
	next := func(p int64) int64 { ctr[p]++; return 100*p + ctr[p] }
	type call struct {
		p        int64
		cli, srv stack.FAddr
	}
	var calls []call
	locals := append([]stack.LFeat{stack.NodeMgmt}, pl.Local...)
	connected := map[int64]bool{}
	for _, p := range pl.Peers {
		connected[p.Ski] = true
	}
	n := r.Range(10, 60)
	if tier == "thorough" {
		n = r.Range(10, 120)
	}
	for len(h) < len(pl.Prefix)+n {
		p := pl.Peers[r.Intn(len(pl.Peers))]
		switch r.Pick(40, 14, 16, 6, 8, 8, 3, 3, 2, 3, 3, 4) {
		case 0: // subscribe
			var cli stack.FAddr
			if r.Chance(5, 6) {
				cli = p.Addr(p.Feats[r.Intn(len(p.Feats))], true)
			} else {
				cli = stack.FAddr{Dev: p.Dev + 1, Ent: []int64{int64(r.Range(1, 3))}, Feat: int64(r.Range(1, 5))}
			}
			var srv stack.FAddr
			var t int64
			if r.Chance(5, 6) {
				lf := locals[r.Intn(len(locals))]
				srv = lf.Addr(true)
				t = lf.Type
			} else {
				srv = stack.FAddr{Dev: 1, Ent: []int64{int64(r.Range(1, 3))}, Feat: int64(r.Range(1, 6))}
				t = int64(r.Range(1, 3))
			}
			if r.Chance(1, 5) {
				t = int64(r.Range(1, 5))
			}
			c := call{p.Ski, pickAddr(r, cli), pickAddr(r, srv)}
			calls = append(calls, c)
			h = append(h, stack.OpSubCall(p.Ski, next(p.Ski), r.Bool(), c.cli, c.srv, t+1))
			if r.Chance(1, 8) { // immediate duplicate
				h = append(h, stack.OpSubCall(p.Ski, next(p.Ski), r.Bool(), c.cli, c.srv, t+1))
			}
		case 1: // delete
			if len(calls) > 0 && r.Chance(5, 6) {
				c := calls[r.Intn(len(calls))]
				sender := c.p
				cli := c.cli
				if r.Chance(1, 10) { // sent by another peer (naming its own or the other's device)
					sender = pl.Peers[r.Intn(len(pl.Peers))].Ski
				}
				if r.Chance(1, 4) {
					cli.Dev = 0
				}
				h = append(h, stack.OpSubDelete(sender, next(sender), r.Bool(), cli, pickAddr(r, c.srv)))
			} else {
				h = append(h, stack.OpSubDelete(p.Ski, next(p.Ski), r.Bool(), p.Addr(p.Feats[r.Intn(len(p.Feats))], r.Bool()), locals[r.Intn(len(locals))].Addr(r.Bool())))
			}
		case 2: // local data change
			lf := pl.Local[r.Intn(len(pl.Local))]
			fn := int64(r.Range(1, 4))
			if len(lf.Fns) > 0 && r.Chance(4, 5) {
				fn = lf.Fns[r.Intn(len(lf.Fns))]
			}
			h = append(h, stack.OpSetData(lf.Ent, lf.Id, fn, int64(r.Range(1, 900))))
			if r.Chance(1, 4) {
				// back to an earlier value: SetData(v), a change by another route (UpdateData forms for the
				// functions that have them, else SetData of another value), SetData(v) again - every step is
				// a change of the data and must be notified (seed C08-j remembered what SetData told last)
				v := int64(4 * r.Range(1, 200))
				h = append(h, stack.OpSetData(lf.Ent, lf.Id, fn, v))
				h = append(h, stack.OpSetData(lf.Ent, lf.Id, fn, v+int64(r.Range(1, 3))))
				h = append(h, stack.OpSetData(lf.Ent, lf.Id, fn, v))
			}
		case 3: // bind (so that some writes are accepted)
			lf := pl.Local[r.Intn(len(pl.Local))]
			h = append(h, stack.OpBindCall(p.Ski, next(p.Ski), r.Bool(), p.Addr(p.Feats[r.Intn(len(p.Feats))], true), lf.Addr(true), lf.Type+1))
		case 4: // write
			lf := pl.Local[r.Intn(len(pl.Local))]
			fn := int64(r.Range(1, 4))
			if len(lf.Fns) > 0 && r.Chance(5, 6) {
				fn = lf.Fns[r.Intn(len(lf.Fns))]
			}
			h = append(h, stack.OpWrite(p.Ski, next(p.Ski), r.Bool(), p.Addr(p.Feats[r.Intn(len(p.Feats))], true), lf.Addr(true), fn, int64(r.Range(1, 900))))
		case 5:
			h = append(h, stack.OpListSubs(p.Ski))
		case 6: // disconnect / reconnect
			if connected[p.Ski] {
				h = append(h, stack.OpDisconnect(p.Ski))
				connected[p.Ski] = false
			} else if r.Chance(2, 3) {
				h = append(h, stack.OpConnect(p.Ski), stack.OpDiscoveryReply(p.Ski, p.Msg(0, nil)))
				connected[p.Ski] = true
			} else {
				// the peer subscribes through its node-management feature (and names a feature it has
				// not announced) before it answers the discovery request; the reply follows
				h = append(h, stack.OpConnect(p.Ski))
				connected[p.Ski] = true
				c := call{p.Ski, p.NMAddr(false), stack.NodeMgmt.Addr(r.Bool())}
				calls = append(calls, c)
				h = append(h, stack.OpSubCall(p.Ski, next(p.Ski), r.Bool(), c.cli, c.srv, 6))
				if r.Bool() {
					lf := pl.Local[r.Intn(len(pl.Local))]
					h = append(h, stack.OpSubCall(p.Ski, next(p.Ski), r.Bool(), p.Addr(p.Feats[r.Intn(len(p.Feats))], false), lf.Addr(true), lf.Type+1))
					h = append(h, stack.OpSubDelete(p.Ski, next(p.Ski), r.Bool(), p.Addr(p.Feats[r.Intn(len(p.Feats))], false), lf.Addr(true)))
				}
				h = append(h, stack.OpListSubs(p.Ski))
				if r.Chance(3, 4) {
					h = append(h, stack.OpDiscoveryReply(p.Ski, p.Msg(0, nil)), stack.OpListSubs(p.Ski))
				}
			}
		case 9: // notification mixing added and removed entries
			h = append(h, stack.OpDiscoveryNotify(p.Ski, next(p.Ski), r.Bool(), p.MixedNotify(r)), stack.OpListSubs(p.Ski))
		case 10: // a further discovery reply that omits entities announced before (and sometimes [0])
			h = append(h, stack.OpDiscoveryReply(p.Ski, p.PartialReply(r)), stack.OpListSubs(p.Ski))
		case 11: // a teardown of p overlapped by a subscribe / delete call of another peer q
			var q stack.Peer
			found := false
			for _, c := range pl.Peers {
				if c.Ski != p.Ski && connected[c.Ski] {
					q, found = c, true
				}
			}
			if !found || !connected[p.Ski] {
				break
			}
			lf := pl.Local[r.Intn(len(pl.Local))]
			// p gets something to lose first
			h = append(h, stack.OpSubCall(p.Ski, next(p.Ski), r.Bool(), p.Addr(p.Feats[r.Intn(len(p.Feats))], true), lf.Addr(true), lf.Type+1))
			qc := call{q.Ski, q.Addr(q.Feats[r.Intn(len(q.Feats))], true), lf.Addr(true)}
			var c hx.Zs
			if r.Chance(2, 3) {
				calls = append(calls, qc)
				c = stack.OpSubCall(q.Ski, next(q.Ski), r.Bool(), qc.cli, qc.srv, lf.Type+1)
			} else {
				c = stack.OpSubDelete(q.Ski, next(q.Ski), r.Bool(), qc.cli, qc.srv)
			}
			var td hx.Zs
			if r.Bool() || len(p.Ents) < 2 {
				td = stack.OpDisconnect(p.Ski)
				connected[p.Ski] = false
			} else {
				td = stack.OpDiscoveryNotify(p.Ski, next(p.Ski), r.Bool(), p.Msg(2, [][]int64{p.Ents[1+r.Intn(len(p.Ents)-1)]}))
			}
			h = append(h, stack.OpDuring(td, c), stack.OpListSubs(q.Ski), stack.OpListSubs(p.Ski))
		case 7: // entity removed / re-added
			if len(p.Ents) > 1 {
				e := p.Ents[1+r.Intn(len(p.Ents)-1)]
				st := int64(2)
				if r.Chance(1, 3) {
					st = 1
				}
				h = append(h, stack.OpDiscoveryNotify(p.Ski, next(p.Ski), r.Bool(), p.Msg(st, [][]int64{e})))
			}
		default:
			h = append(h, stack.OpListSubs(p.Ski), stack.OpListBinds(p.Ski))
		}
	}
	for _, p := range pl.Peers {
		h = append(h, stack.OpListSubs(p.Ski))
	}
	return h
}

func main() {
	hx.Main(hx.Config{
		Property: "C08",
		Clauses: map[int64]string{1: "grant-rule", 2: "subscription-event", 3: "delete-rule", 4: "fan-out", 5: "listing", 6: "stray-notification-or-event",
			98: "unparseable-observation", 99: "unparseable-operation"},
		OpNames: stack.OpNames,
		NewImpl: stack.NewImpl,
		Gen:     gen,
		Count:   map[string]int{"quick": 300, "thorough": 8000},
		Extra: func() map[string]any {
			m := map[string]int{}
			for k, v := range stack.OverlapStats() {
				m["observed-overlap-"+k] = v
			}
			return map[string]any{"generated": m}
		},
	})
}
