// C20 runner: the use-case registry of a real spine.DeviceLocal (EntityLocal use-case
// operations, HasUseCaseSupport, a peer's read of nodeManagementUseCaseData) against the
// model coq/Model/UseCase.v.
//
// Every mutating operation runs in its own goroutine under a forced schedule: the hook
// "UseCase.copied" (build tag verif, between DataCopy and the modification) parks it;
// Begin t starts it and reports whether it reached the hook (0) or waits for the mutex (1,
// decided from the goroutine's wait state, not from a timeout); End t lets it finish.
// At most one goroutine really waits on the mutex (later Begins are held back by the
// runner and started when the waiter before them got the mutex): mutex hand-off is not
// FIFO in Go, a waiter has no effect before it acquires.
//
// op encoding (parse_op in UseCase.v):
//
//	0 t 0 e a n ver sub av sc*   Begin t: entity e AddUseCaseSupport(actor a, name n, version, sub-revision, available, scenarios)
//	0 t 1 e a n                  Begin t: RemoveUseCaseSupport
//	0 t 2 e a n av               Begin t: SetUseCaseAvailability
//	0 t 3 e                      Begin t: RemoveAllUseCaseSupports
//	0 t 4 e                      Begin t: DeviceLocal.RemoveEntity(e)
//	1 t                          End t
//	2 e a n                      HasUseCaseSupport
//	3                            the peer reads nodeManagementUseCaseData
//
// obs encoding: 0 parked, 1 blocked, 2 busy, 3 done, 4 t acquired, 5 not runnable, 6 b has,
// 7 e a entry, 8 n ver sub av sc* support, 9 end of data; 94 t = the waiter t got the mutex and took
// its copy while the finishing operation had not stored yet (hook "UseCase.store"; never in the model).
package main

import (
	"encoding/json"
	"fmt"
	"runtime"
	"sort"
	"strconv"
	"strings"
	"sync"
	"sync/atomic"
	"time"

	"github.com/enbility/spine-go/api"
	"github.com/enbility/spine-go/model"
	"github.com/enbility/spine-go/spine"
	"github.com/enbility/spine-go/util"

	"verifharness/hx"
)

// ---------------------------------------------------------------- id tables

var actors = []model.UseCaseActorType{"", model.UseCaseActorTypeCEM, model.UseCaseActorTypeEV, model.UseCaseActorTypeEVSE}
var names = []model.UseCaseNameType{"", model.UseCaseNameTypeControlOfBattery, model.UseCaseNameTypeCoordinatedEVCharging,
	model.UseCaseNameTypeEVChargingSummary, model.UseCaseNameTypeEVStateOfCharge, model.UseCaseNameTypeEVSECommissioningAndConfiguration}

const nEnt, nActor, nName = 3, 2, 4

// entity id -> address: ids 1 and 2 are nested (a sub-entity and its parent), so that address
// comparisons that only look at a prefix are exercised; the model only needs distinct ids
var entAddr = map[int64][]model.AddressEntityType{1: {1}, 2: {1, 1}, 3: {2}}

func entID(a []model.AddressEntityType) int64 {
	for id, x := range entAddr {
		if len(x) == len(a) {
			same := true
			for i := range x {
				same = same && x[i] == a[i]
			}
			if same {
				return id
			}
		}
	}
	return 999
}

func actorOf(a int64) model.UseCaseActorType {
	if a >= 1 && int(a) < len(actors) {
		return actors[a]
	}
	return model.UseCaseActorType(fmt.Sprintf("actor%d", a))
}

func nameOf(n int64) model.UseCaseNameType {
	if n >= 1 && int(n) < len(names) {
		return names[n]
	}
	return model.UseCaseNameType(fmt.Sprintf("name%d", n))
}

func actorID(a *model.UseCaseActorType) int64 {
	if a == nil {
		return 998
	}
	for i := 1; i < len(actors); i++ {
		if actors[i] == *a {
			return int64(i)
		}
	}
	var k int64
	if _, err := fmt.Sscanf(string(*a), "actor%d", &k); err == nil {
		return k
	}
	return 999
}

func nameID(n *model.UseCaseNameType) int64 {
	if n == nil {
		return 998
	}
	for i := 1; i < len(names); i++ {
		if names[i] == *n {
			return int64(i)
		}
	}
	var k int64
	if _, err := fmt.Sscanf(string(*n), "name%d", &k); err == nil {
		return k
	}
	return 999
}

func verOf(v int64) model.SpecificationVersionType {
	return model.SpecificationVersionType(fmt.Sprintf("1.%d.0", v))
}
func verID(v *model.SpecificationVersionType) int64 {
	var k int64
	if v != nil {
		if _, err := fmt.Sscanf(string(*v), "1.%d.0", &k); err == nil {
			return k
		}
	}
	return 999
}
func subOf(v int64) string { return fmt.Sprintf("rev%d", v) }
func subID(v *string) int64 {
	var k int64
	if v != nil {
		if _, err := fmt.Sscanf(*v, "rev%d", &k); err == nil {
			return k
		}
	}
	return 999
}

// ---------------------------------------------------------------- connection recorder

type writer struct {
	mu   sync.Mutex
	msgs [][]byte
}

func (w *writer) WriteShipMessageWithPayload(msg []byte) {
	w.mu.Lock()
	defer w.mu.Unlock()
	w.msgs = append(w.msgs, append([]byte(nil), msg...))
}

func (w *writer) take() [][]byte {
	w.mu.Lock()
	defer w.mu.Unlock()
	m := w.msgs
	w.msgs = nil
	return m
}

// ---------------------------------------------------------------- forced scheduling

type worker struct {
	tid     int64
	goid    int64
	run     func()
	started chan struct{}
	parked  chan struct{}
	storing chan struct{} // reached the hook "UseCase.store" (just before SetData)
	resume  chan struct{}
	done    chan struct{}
	state   int // 0 not started (held back), 1 waiting for the mutex, 2 parked at the hook, 3 done
}

type sched struct {
	mu       sync.Mutex
	byGoid   map[int64]*worker
	draining bool
}

func goid() int64 {
	var buf [64]byte
	n := runtime.Stack(buf[:], false)
	// "goroutine 123 [running]:"
	f := strings.Fields(string(buf[:n]))
	if len(f) < 2 {
		return -1
	}
	id, _ := strconv.ParseInt(f[1], 10, 64)
	return id
}

func (s *sched) yield(point string) {
	if point != "UseCase.copied" && point != "UseCase.store" {
		return
	}
	s.mu.Lock()
	w := s.byGoid[goid()]
	drain := s.draining
	s.mu.Unlock()
	if w == nil || drain {
		return
	}
	if point == "UseCase.store" {
		w.storing <- struct{}{}
	} else {
		w.parked <- struct{}{}
	}
	<-w.resume
}

func (s *sched) spawn(w *worker) {
	go func() {
		s.mu.Lock()
		w.goid = goid()
		s.byGoid[w.goid] = w
		s.mu.Unlock()
		close(w.started)
		w.run()
		close(w.done)
	}()
	<-w.started
}

// waitState of a goroutine as printed by the runtime ("running", "sync.Mutex.Lock", "chan receive", ...).
func waitState(id int64) string {
	buf := make([]byte, 1<<18)
	n := runtime.Stack(buf, true)
	key := fmt.Sprintf("goroutine %d [", id)
	txt := string(buf[:n])
	i := strings.Index(txt, key)
	if i < 0 {
		return ""
	}
	rest := txt[i+len(key):]
	j := strings.Index(rest, "]")
	if j < 0 {
		return ""
	}
	return rest[:j]
}

// settle waits until the freshly started (or released) worker is parked at the hook (2), has
// finished (3) or is blocked on a mutex (1).
func (s *sched) settle(w *worker) int {
	deadline := time.Now().Add(5 * time.Second)
	wait := 50 * time.Microsecond
	for {
		select {
		case <-w.parked:
			w.state = 2
			return 2
		case <-w.done:
			w.state = 3
			return 3
		case <-time.After(wait):
		}
		st := waitState(w.goid)
		if strings.HasPrefix(st, "sync.Mutex.Lock") || strings.HasPrefix(st, "semacquire") || strings.HasPrefix(st, "sync.RWMutex") {
			// confirm: still not parked
			select {
			case <-w.parked:
				w.state = 2
				return 2
			case <-w.done:
				w.state = 3
				return 3
			default:
			}
			w.state = 1
			return 1
		}
		if wait < 2*time.Millisecond {
			wait *= 2
		}
		if time.Now().After(deadline) {
			return -1
		}
	}
}

// ---------------------------------------------------------------- implementation

const localDev = "local"
const peerDev = "peer0"
const peerSki = "ski-peer0"

type impl struct {
	dev      *spine.DeviceLocal
	ents     map[int64]*spine.EntityLocal
	w        *writer
	peer     api.DeviceRemoteInterface
	ctr      uint64
	sc       *sched
	threads  map[int64]*worker
	waiter   *worker   // the one goroutine really waiting on the mutex
	heldBack []*worker // Begins behind it, not started yet
}

func nmAddr(dev string) *model.FeatureAddressType {
	return &model.FeatureAddressType{Device: util.Ptr(model.AddressDeviceType(dev)), Entity: []model.AddressEntityType{0}, Feature: util.Ptr(model.AddressFeatureType(0))}
}

func (m *impl) send(classifier model.CmdClassifierType, ref *model.MsgCounterType, cmd model.CmdType) {
	m.ctr++
	d := model.Datagram{Datagram: model.DatagramType{
		Header: model.HeaderType{
			SpecificationVersion: util.Ptr(model.SpecificationVersionType("1.3.0")),
			AddressSource:        nmAddr(peerDev),
			AddressDestination:   nmAddr(localDev),
			MsgCounter:           util.Ptr(model.MsgCounterType(m.ctr)),
			MsgCounterReference:  ref,
			CmdClassifier:        util.Ptr(classifier),
		},
		Payload: model.PayloadType{Cmd: []model.CmdType{cmd}},
	}}
	b, err := json.Marshal(d)
	if err != nil {
		panic(err)
	}
	_, _ = m.peer.HandleSpineMesssage(b)
}

func newImpl() hx.Impl {
	m := &impl{w: &writer{}, ents: map[int64]*spine.EntityLocal{}, threads: map[int64]*worker{},
		sc: &sched{byGoid: map[int64]*worker{}}}
	m.dev = spine.NewDeviceLocal("brand", "model", "serial", "code", localDev, model.DeviceTypeTypeEnergyManagementSystem, model.NetworkManagementFeatureSetTypeSmart)
	for e := int64(1); e <= nEnt; e++ {
		ent := spine.NewEntityLocal(m.dev, model.EntityTypeTypeCEM, entAddr[e], 4*time.Second)
		m.ents[e] = ent
		m.dev.AddEntity(ent)
	}
	rd := m.dev.SetupRemoteDevice(peerSki, m.w)
	m.peer = rd.(api.DeviceRemoteInterface)
	// the peer answers the detailed discovery read: it becomes a known device
	var ref *model.MsgCounterType
	for _, b := range m.w.take() {
		var d model.Datagram
		if json.Unmarshal(b, &d) == nil && d.Datagram.Header.MsgCounter != nil {
			ref = d.Datagram.Header.MsgCounter
		}
	}
	devAddr := util.Ptr(model.AddressDeviceType(peerDev))
	m.send(model.CmdClassifierTypeReply, ref, model.CmdType{NodeManagementDetailedDiscoveryData: &model.NodeManagementDetailedDiscoveryDataType{
		SpecificationVersionList: &model.NodeManagementSpecificationVersionListType{SpecificationVersion: []model.SpecificationVersionDataType{"1.3.0"}},
		DeviceInformation: &model.NodeManagementDetailedDiscoveryDeviceInformationType{Description: &model.NetworkManagementDeviceDescriptionDataType{
			DeviceAddress: &model.DeviceAddressType{Device: devAddr},
			DeviceType:    util.Ptr(model.DeviceTypeTypeChargingStation),
		}},
		EntityInformation: []model.NodeManagementDetailedDiscoveryEntityInformationType{{Description: &model.NetworkManagementEntityDescriptionDataType{
			EntityAddress: &model.EntityAddressType{Device: devAddr, Entity: []model.AddressEntityType{0}},
			EntityType:    util.Ptr(model.EntityTypeTypeDeviceInformation),
		}}},
		FeatureInformation: []model.NodeManagementDetailedDiscoveryFeatureInformationType{{Description: &model.NetworkManagementFeatureDescriptionDataType{
			FeatureAddress: nmAddr(peerDev),
			FeatureType:    util.Ptr(model.FeatureTypeTypeNodeManagement),
			Role:           util.Ptr(model.RoleTypeSpecial),
		}}},
	}})
	m.w.take()
	spine.VerifSetYieldLT(m.sc.yield)
	return m
}

func (m *impl) Close() {
	// let every goroutine run to completion (the mutex is package level: nothing may stay behind)
	m.sc.mu.Lock()
	m.sc.draining = true
	m.sc.mu.Unlock()
	for _, w := range m.threads {
		if w.state == 2 {
			w.resume <- struct{}{}
		}
	}
	for _, w := range m.threads {
		if w.state == 0 {
			continue
		}
	wait:
		for {
			select {
			case <-w.done:
				break wait
			case <-w.parked: // reached a hook concurrently with the drain flag
				w.resume <- struct{}{}
			case <-w.storing:
				w.resume <- struct{}{}
			case <-time.After(5 * time.Second):
				fmt.Println("c20: goroutine did not finish")
				break wait
			}
		}
	}
	spine.VerifSetYieldLT(nil)
	m.dev.RemoveRemoteDevice(peerSki)
}

func (m *impl) operation(u hx.Zs) func() {
	if len(u) < 2 {
		return nil
	}
	ent := m.ents[u[1]]
	if ent == nil {
		return nil
	}
	switch {
	case u[0] == 0 && len(u) >= 7:
		var sc []model.UseCaseScenarioSupportType
		for _, s := range u[7:] {
			sc = append(sc, model.UseCaseScenarioSupportType(s))
		}
		return func() {
			ent.AddUseCaseSupport(actorOf(u[2]), nameOf(u[3]), verOf(u[4]), subOf(u[5]), u[6] != 0, sc)
		}
	case u[0] == 1 && len(u) == 4:
		return func() { ent.RemoveUseCaseSupport(actorOf(u[2]), nameOf(u[3])) }
	case u[0] == 2 && len(u) == 5:
		return func() { ent.SetUseCaseAvailability(actorOf(u[2]), nameOf(u[3]), u[4] != 0) }
	case u[0] == 3 && len(u) == 2:
		return func() { ent.RemoveAllUseCaseSupports() }
	case u[0] == 4 && len(u) == 2:
		return func() { m.dev.RemoveEntity(ent) }
	}
	return nil
}

func (m *impl) renderData(d *model.NodeManagementUseCaseDataType) []hx.Zs {
	var out []hx.Zs
	if d != nil {
		for _, info := range d.UseCaseInformation {
			var e int64 = 999
			if info.Address != nil && info.Address.Device != nil && string(*info.Address.Device) == localDev && info.Address.Feature == nil {
				e = entID(info.Address.Entity)
			}
			out = append(out, hx.Zs{7, e, actorID(info.Actor)})
			for _, s := range info.UseCaseSupport {
				var av int64 = 2
				if s.UseCaseAvailable != nil {
					av = 0
					if *s.UseCaseAvailable {
						av = 1
					}
				}
				z := hx.Zs{8, nameID(s.UseCaseName), verID(s.UseCaseVersion), subID(s.UseCaseDocumentSubRevision), av}
				for _, sc := range s.ScenarioSupport {
					z = append(z, int64(sc))
				}
				out = append(out, z)
			}
		}
	}
	return append(out, hx.Zs{9})
}

func (m *impl) Exec(op hx.Zs) []hx.Zs {
	switch op[0] {
	case 0: // Begin
		if len(op) < 3 {
			return []hx.Zs{{97}}
		}
		t := op[1]
		if w := m.threads[t]; w != nil && w.state != 3 {
			return []hx.Zs{{2}}
		}
		f := m.operation(op[2:])
		if f == nil {
			return []hx.Zs{{97}}
		}
		w := &worker{tid: t, run: f, started: make(chan struct{}), parked: make(chan struct{}, 1), storing: make(chan struct{}, 1), resume: make(chan struct{}), done: make(chan struct{})}
		m.threads[t] = w
		if m.waiter != nil {
			m.heldBack = append(m.heldBack, w)
			return []hx.Zs{{1}}
		}
		m.sc.spawn(w)
		switch m.sc.settle(w) {
		case 2:
			return []hx.Zs{{0}}
		case 1:
			m.waiter = w
			return []hx.Zs{{1}}
		case 3:
			return []hx.Zs{{3}}
		}
		return []hx.Zs{{96}}
	case 1: // End
		w := m.threads[op[1]]
		if w == nil || w.state != 2 {
			return []hx.Zs{{5}}
		}
		w.resume <- struct{}{}
		var anomaly []hx.Zs
		select {
		case <-w.done:
			w.state = 3
		case <-w.storing:
			// The operation stands just before SetData.  It must still hold the mutex: a goroutine
			// waiting for the mutex must not be able to reach its own copy now (it would work on a
			// snapshot that misses this update).  Probe, then let the operation store and return.
			if wt := m.waiter; wt != nil {
				select {
				case <-wt.parked:
					wt.state = 2
					wt.parked <- struct{}{} // keep the token for the hand-off code below
					anomaly = append(anomaly, hx.Zs{94, wt.tid})
				case <-time.After(3 * time.Millisecond):
				}
			}
			w.resume <- struct{}{}
			select {
			case <-w.done:
				w.state = 3
			case <-time.After(5 * time.Second):
				return []hx.Zs{{96}}
			}
		case <-time.After(5 * time.Second):
			return []hx.Zs{{96}}
		}
		out := append(anomaly, hx.Zs{3})
		// the mutex was released: the waiter (if any) acquires it; then the held-back Begins follow
		for m.waiter != nil {
			wt := m.waiter
			select {
			case <-wt.parked:
				wt.state = 2
			case <-time.After(5 * time.Second):
				return append(out, hx.Zs{96})
			}
			out = append(out, hx.Zs{4, wt.tid})
			m.waiter = nil
			for len(m.heldBack) > 0 && m.waiter == nil {
				nx := m.heldBack[0]
				m.heldBack = m.heldBack[1:]
				m.sc.spawn(nx)
				switch m.sc.settle(nx) {
				case 2:
					out = append(out, hx.Zs{4, nx.tid})
				case 1:
					m.waiter = nx
					// it stays waiting: the goroutine that just acquired is parked inside the critical section
					goto dump
				default:
					return append(out, hx.Zs{96})
				}
			}
			break
		}
	dump:
		d, err := spine.LocalFeatureDataCopyOfType[*model.NodeManagementUseCaseDataType](m.dev.NodeManagement(), model.FunctionTypeNodeManagementUseCaseData)
		if err != nil {
			d = nil
		}
		return append(out, m.renderData(d)...)
	case 4: // Par2: two operations released together on goroutines the scheduler does not park
		if len(op) < 3 || op[1] < 0 || int(op[1]) > len(op)-2 {
			return []hx.Zs{{97}}
		}
		for _, w := range m.threads {
			if w.state != 3 {
				return []hx.Zs{{5}} // somebody holds or awaits the mutex: the step is not realisable
			}
		}
		f1, f2 := m.operation(op[2:2+op[1]]), m.operation(op[2+op[1]:])
		if f1 == nil || f2 == nil {
			return []hx.Zs{{97}}
		}
		var ready, fin sync.WaitGroup
		var start int32
		for _, f := range []func(){f1, f2} {
			ready.Add(1)
			fin.Add(1)
			go func(f func()) {
				defer fin.Done()
				ready.Done()
				for atomic.LoadInt32(&start) == 0 { // spinning common start
				}
				f()
			}(f)
		}
		ready.Wait()
		atomic.StoreInt32(&start, 1)
		finished := make(chan struct{})
		go func() { fin.Wait(); close(finished) }()
		select {
		case <-finished:
		case <-time.After(5 * time.Second):
			return []hx.Zs{{96}}
		}
		d, err := spine.LocalFeatureDataCopyOfType[*model.NodeManagementUseCaseDataType](m.dev.NodeManagement(), model.FunctionTypeNodeManagementUseCaseData)
		if err != nil {
			d = nil
		}
		return append([]hx.Zs{{3}}, m.renderData(d)...)
	case 2: // Has
		if len(op) != 4 || m.ents[op[1]] == nil {
			return []hx.Zs{{97}}
		}
		b := m.ents[op[1]].HasUseCaseSupport(actorOf(op[2]), nameOf(op[3]))
		if b {
			return []hx.Zs{{6, 1}}
		}
		return []hx.Zs{{6, 0}}
	case 3: // Read by the peer
		m.w.take()
		m.send(model.CmdClassifierTypeRead, nil, model.CmdType{NodeManagementUseCaseData: &model.NodeManagementUseCaseDataType{}})
		msgs := m.w.take()
		if len(msgs) != 1 {
			return []hx.Zs{{95, int64(len(msgs))}}
		}
		var d model.Datagram
		if err := json.Unmarshal(msgs[0], &d); err != nil {
			return []hx.Zs{{97}}
		}
		h := d.Datagram.Header
		if h.CmdClassifier == nil || *h.CmdClassifier != model.CmdClassifierTypeReply || len(d.Datagram.Payload.Cmd) != 1 ||
			h.MsgCounterReference == nil || uint64(*h.MsgCounterReference) != m.ctr {
			return []hx.Zs{{94}}
		}
		return m.renderData(d.Datagram.Payload.Cmd[0].NodeManagementUseCaseData)
	}
	return []hx.Zs{{97}}
}

// ---------------------------------------------------------------- generator

func randOp(r *hx.Rng) hx.Zs {
	e := int64(r.Range(1, nEnt))
	a := int64(r.Range(1, nActor))
	n := int64(r.Range(1, nName))
	switch r.Pick(45, 22, 14, 7, 7) {
	case 0:
		z := hx.Zs{0, e, a, n, int64(r.Range(1, 3)), int64(r.Range(1, 2)), int64(r.Intn(2))}
		for k := r.Intn(4); k > 0; k-- {
			z = append(z, int64(r.Range(1, 6)))
		}
		return z
	case 1:
		return hx.Zs{1, e, a, n}
	case 2:
		return hx.Zs{2, e, a, n, int64(r.Intn(2))}
	case 3:
		return hx.Zs{3, e}
	}
	return hx.Zs{4, e}
}

func query(r *hx.Rng) hx.Zs {
	if r.Chance(1, 4) {
		return hx.Zs{3}
	}
	return hx.Zs{2, int64(r.Range(1, nEnt)), int64(r.Range(1, nActor)), int64(r.Range(1, nName))}
}

func gen(r *hx.Rng, tier string, i int) []hx.Zs {
	var h []hx.Zs
	begin := func(t int64, u hx.Zs) { h = append(h, append(hx.Zs{0, t}, u...)) }
	if i%4 == 3 {
		// free-running pairs, the first of them being the first use of the fresh device: operations on
		// different entities (both completion orders denote the same registry), queries in between
		n := r.Range(3, 14)
		for k := 0; k < n; k++ {
			u1, u2 := randOp(r), randOp(r)
			for u2[1] == u1[1] {
				u2 = randOp(r)
			}
			if k == 0 || r.Chance(2, 3) { // mostly additions: they are what a lost update loses
				u1 = hx.Zs{0, u1[1], int64(r.Range(1, nActor)), int64(r.Range(1, nName)), int64(r.Range(1, 3)), 1, 1, int64(r.Range(1, 6))}
				u2 = hx.Zs{0, u2[1], int64(r.Range(1, nActor)), int64(r.Range(1, nName)), int64(r.Range(1, 3)), 1, 1}
			}
			h = append(h, append(append(hx.Zs{4, int64(len(u1))}, u1...), u2...))
			if r.Chance(1, 2) {
				h = append(h, query(r))
			}
			if r.Chance(1, 5) {
				begin(0, randOp(r))
				h = append(h, hx.Zs{1, 0})
			}
		}
		h = append(h, hx.Zs{3})
		return h
	}
	switch i % 3 {
	case 0: // sequential history
		n := r.Range(4, 40)
		for k := 0; k < n; k++ {
			if r.Chance(1, 3) {
				h = append(h, query(r))
				continue
			}
			begin(0, randOp(r))
			h = append(h, hx.Zs{1, 0})
		}
		for e := int64(1); e <= nEnt && r.Chance(1, 2); e++ {
			for a := int64(1); a <= nActor; a++ {
				for n := int64(1); n <= nName; n++ {
					h = append(h, hx.Zs{2, e, a, n})
				}
			}
		}
		h = append(h, hx.Zs{3})
	default: // k goroutines under a random schedule
		k := int64(r.Range(2, 4))
		// some sequential prefix so that the concurrent operations meet existing data
		for p := r.Intn(5); p > 0; p-- {
			begin(0, randOp(r))
			h = append(h, hx.Zs{1, 0})
		}
		active := map[int64]bool{}
		n := r.Range(6, 36)
		for s := 0; s < n; s++ {
			switch r.Pick(40, 40, 20) {
			case 0:
				t := int64(r.Intn(int(k)))
				begin(t, randOp(r))
				active[t] = true
			case 1:
				t := int64(r.Intn(int(k)))
				h = append(h, hx.Zs{1, t})
			default:
				h = append(h, query(r))
			}
		}
		// finish everything: ending every thread k times releases every waiter in any order
		for round := int64(0); round < k; round++ {
			for t := int64(0); t < k; t++ {
				h = append(h, hx.Zs{1, t})
			}
		}
		h = append(h, hx.Zs{3})
		for p := r.Intn(6); p > 0; p-- {
			h = append(h, query(r))
		}
	}
	return h
}

func fixed(tier string) [][]hx.Zs {
	add := func(t, e, a, n int64) hx.Zs { return hx.Zs{0, t, 0, e, a, n, 1, 1, 1, 1, 2} }
	return [][]hx.Zs{
		// the lost-update schedule of the pinned code: both copy before either stores
		{add(1, 1, 1, 1), add(2, 2, 1, 1), {1, 1}, {1, 2}, {3}, {2, 1, 1, 1}, {2, 2, 1, 1}},
		// three goroutines on three entities, ended in reverse order of their start
		{add(1, 1, 1, 1), add(2, 2, 2, 2), add(3, 3, 1, 3), {1, 3}, {1, 2}, {1, 1}, {1, 2}, {1, 3}, {1, 3}, {3}},
		// set-availability racing with a re-add of the same use case
		{add(0, 1, 1, 1), {1, 0}, {0, 1, 2, 1, 1, 1, 0}, {0, 2, 0, 1, 1, 1, 2, 2, 1, 5}, {1, 1}, {1, 2}, {3}},
	}
}

// In a history that lets two operations run freely the order of the entries of the data is the
// schedule's business: every dump of such a history (model's and implementation's) is compared with
// its entries sorted by (entity, actor), stably.  The monitor's clauses do not depend on that order.
var sortedDumps bool

func prepare(h []hx.Zs) {
	sortedDumps = false
	for _, op := range h {
		if len(op) > 0 && op[0] == 4 {
			sortedDumps = true
		}
	}
}

func canon(op hx.Zs, obs []hx.Zs) []hx.Zs {
	if !sortedDumps {
		return obs
	}
	// split into prefix (up to the first entry), entries (7 .. followed by 8 ..), suffix (from 9)
	i := 0
	for i < len(obs) && !(len(obs[i]) > 0 && (obs[i][0] == 7 || obs[i][0] == 9)) {
		i++
	}
	j := i
	for j < len(obs) && len(obs[j]) > 0 && (obs[j][0] == 7 || obs[j][0] == 8) {
		j++
	}
	if j == i {
		return obs
	}
	var entries [][]hx.Zs
	for k := i; k < j; k++ {
		if obs[k][0] == 7 || len(entries) == 0 {
			entries = append(entries, nil)
		}
		entries[len(entries)-1] = append(entries[len(entries)-1], obs[k])
	}
	sort.SliceStable(entries, func(a, b int) bool {
		x, y := entries[a][0], entries[b][0]
		if len(x) < 3 || len(y) < 3 || x[0] != 7 || y[0] != 7 {
			return false
		}
		if x[1] != y[1] {
			return x[1] < y[1]
		}
		return x[2] < y[2]
	})
	out := append([]hx.Zs{}, obs[:i]...)
	for _, e := range entries {
		out = append(out, e...)
	}
	return append(out, obs[j:]...)
}

func main() {
	hx.Main(hx.Config{
		Canon:    canon,
		Prepare:  prepare,
		Property: "C20",
		Clauses: map[int64]string{1: "has-differs-from-registry", 2: "data-differs-from-registry", 3: "read-reply-differs-from-registry",
			4: "other-entity-changed", 5: "malformed-observation", 98: "unparseable-observation", 99: "unparseable-operation"},
		OpNames: map[int64]string{0: "begin", 1: "end", 2: "has", 3: "read", 4: "two operations running freely"},
		NewImpl: newImpl,
		Gen:     gen,
		Fixed:   fixed,
		Count:   map[string]int{"quick": 600, "thorough": 30000},
	})
}
