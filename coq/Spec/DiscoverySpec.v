(* C06 — the property: the remote device tree is what the peer announced.

   [apply] says what an announcement (detailed discovery reply, partial
   notification, full notification) does to the previous tree and which entities
   thereby actually appear or disappear.  The monitor [mon] compares, after every
   operation, everything the API reports with what [apply ideal] yields from the
   previously reported state: entity addresses, entity types, descriptions and
   features (ids, types, roles, descriptions, announced operations), the entity
   events, the registries (the entries of a disappeared entity of that peer are
   gone and nothing else changed), and that nothing of another peer moved.  It
   never looks at the model's state: its state is the last reported snapshot.

   Two deviations of the code from [apply ideal] are recorded findings; they are
   described here, declaratively, as [deviations] of [apply], and the scope
   function excuses a clause on exactly those steps on which a recorded deviation
   changes what that clause looks at. *)
From Verif Require Import Base.Prelude Model.Discovery.
Open Scope N_scope.

Record deviations := {
  keep_type : bool;            (* an announcement for an already known address leaves the entity type as it was *)
  full_ignores_known : bool    (* a full notification does not touch the entities it lists that are already known *)
}.
Definition ideal : deviations := {| keep_type := false; full_ignores_known := false |}.
Definition recorded : deviations := {| keep_type := true; full_ignores_known := true |}.

Inductive change := Appeared (a : addr) | Disappeared (a : addr).

(* the entity a message announces under an entity entry: exactly the features the
   message lists for that address, in message order ([features_for]; under [protect0],
   entity [0] always carries a NodeManagement feature 0) *)
Definition announced (fis : list mfeat) (e : ment) : ent :=
  {| e_addr := me_addr e; e_type := me_type e; e_descr := me_descr e; e_feats := features_for (me_addr e) fis |}.

(* replace the entity at n's address by n (under [keep]: all but the type) *)
Fixpoint replace_first (n : ent) (keep : bool) (t : tree) : tree :=
  match t with
  | [] => []
  | x :: r => if addr_eqb (e_addr x) (e_addr n)
              then {| e_addr := e_addr x; e_type := if keep then e_type x else e_type n;
                      e_descr := e_descr n; e_feats := e_feats n |} :: r
              else x :: replace_first n keep r
  end.

(* added: insert, or replace what is known under that address *)
Definition upsert (d : deviations) (t : tree) (n : ent) : tree :=
  if known (e_addr n) t then replace_first n (keep_type d) t else t ++ [n].

(* removed: delete that address *)
Definition delete (a : addr) (t : tree) : tree := filter (fun e => negb (addr_eqb (e_addr e) a)) t.

Definition announce (d : deviations) (fis : list mfeat) (t : tree) (e : ment) : tree * list change :=
  (upsert d t (announced fis e), if known (me_addr e) t then [] else [Appeared (me_addr e)]).

Definition retract (t : tree) (a : addr) : tree * list change :=
  (delete a t, if known a t then [Disappeared a] else []).

Fixpoint announce_all (d : deviations) (fis : list mfeat) (t : tree) (es : list ment) : tree * list change :=
  match es with
  | [] => (t, [])
  | e :: r => let '(t1, c1) := announce d fis t e in
              let '(t2, c2) := announce_all d fis t1 r in (t2, c1 ++ c2)
  end.

Fixpoint retract_all (t : tree) (l : list addr) : tree * list change :=
  match l with
  | [] => (t, [])
  | a :: r => let '(t1, c1) := retract t a in
              let '(t2, c2) := retract_all t1 r in (t2, c1 ++ c2)
  end.

(* a partial notification: the entries in order, each by its own state; an entry
   without state cannot be interpreted and ends the processing *)
Fixpoint apply_partial (d : deviations) (fis : list mfeat) (t : tree) (es : list ment) : tree * list change :=
  match es with
  | [] => (t, [])
  | e :: r =>
      match me_state e with
      | None => (t, [])
      | Some s =>
          if N.eqb s ST_ADDED then
            let '(t1, c1) := announce d fis t e in
            let '(t2, c2) := apply_partial d fis t1 r in (t2, c1 ++ c2)
          else if N.eqb s ST_REMOVED then
            if is_devinfo (me_addr e) then (t, [])      (* [protect0]: [0] cannot be retracted; the entry ends the processing *)
            else
            let '(t1, c1) := retract t (me_addr e) in
            let '(t2, c2) := apply_partial d fis t1 r in (t2, c1 ++ c2)
          else apply_partial d fis t r
      end
  end.

(* the addresses of the previous tree that a complete description does not list
   (under [protect0] the device information entity [0] is never among them) *)
Definition unlisted (es : list ment) (t : tree) : list addr :=
  map e_addr (filter (fun x => negb (mem_addr (e_addr x) (map me_addr es)) && negb (is_devinfo (e_addr x))) t).

(* a complete description (reply, full notification) is the diff against the
   previous tree: every listed entity is inserted or replaced, every entity of the
   previous tree that is not listed is deleted *)
Definition apply_complete (d : deviations) (ignore_known : bool) (fis : list mfeat) (t : tree) (es : list ment)
  : tree * list change :=
  let ups := if ignore_known then filter (fun e => negb (known (me_addr e) t)) es else es in
  let '(t1, c1) := announce_all d fis t ups in
  let '(t2, c2) := retract_all t1 (unlisted es t) in
  (t2, c1 ++ c2).

Definition apply (d : deviations) (k : kind) (t : tree) (m : dmsg) : tree * list change :=
  match k with
  | KReply => apply_complete d false (d_feats m) t (d_ents m)
  | KFull => apply_complete d (full_ignores_known d) (d_feats m) t (d_ents m)
  | KPartial => apply_partial d (d_feats m) t (d_ents m)
  end.

(* ---- the registries: an entity that disappears takes its entries with it *)

Definition forget (p : N) (a : addr) (r : list rentry) : list rentry :=
  filter (fun x => negb (N.eqb (r_peer x) p && addr_eqb (r_addr x) a)) r.

Definition gone (c : list change) : list addr :=
  flat_map (fun x => match x with Disappeared a => [a] | Appeared _ => [] end) c.

Definition forget_all (p : N) (l : list addr) (r : list rentry) : list rentry :=
  fold_left (fun r a => forget p a r) l r.

Definition ev_of (p : N) (c : change) : obs :=
  match c with
  | Appeared a => EvEntity p true a
  | Disappeared a => EvEntity p false a
  end.

(* ---- what one operation must report, from the previously reported state *)

Definition spec_msg (d : deviations) (s : st) (p : N) (k : kind) (m : dmsg) : st * list obs :=
  match get_peer s p with
  | None => (s, [])
  | Some pr =>
      if negb (source_resolves (p_tree pr)) then (s, [])     (* not a message of a known feature: dropped (C01/C05) *)
      else
        let '(t', c) := apply d k (p_tree pr) m in
        let is_reply := match k with KReply => true | _ => false end in
        (* a reply makes the device address known, and the stack subscribes to the peer's NodeManagement *)
        let r0 := if is_reply then reg_insert (nm_entry p) (s_reg s) else s_reg s in
        (set_reg (set_peer s p {| p_known := p_known pr || is_reply; p_tree := t' |}) (forget_all p (gone c) r0),
         (if is_reply then [EvDevice p] else []) ++ map (ev_of p) c)
  end.

Definition spec_step (d : deviations) (s : st) (o : op) : st * list obs :=
  match o with
  | Msg p k m => let '(s1, evs) := spec_msg d s p k m in (s1, OSnap s1 :: evs)
  | RegAdd p kd a fid => let '(s1, ok) := reg_add s p kd a fid in (s1, [OSnap s1; ORes ok])
  | MsgDuring p k m p' kd a fid =>
      (* another peer's request call delivered while the entities of p go: it is served after the
         removal; afterwards the registries are the cascade's result plus that entry — nothing of
         the other peer is lost, nothing else is touched *)
      let '(s1, evs) := spec_msg d s p k m in
      let '(s2, ok) := call_after s1 p p' kd a fid in
      (s2, OSnap s2 :: evs ++ [ORes ok])
  end.

(* ---- boolean equalities *)

Fixpoint list_eqb {A} (eqb : A -> A -> bool) (a b : list A) : bool :=
  match a, b with
  | [], [] => true
  | x :: a', y :: b' => eqb x y && list_eqb eqb a' b'
  | _, _ => false
  end.

Definition opt_eqb (a b : option N) : bool :=
  match a, b with
  | None, None => true
  | Some x, Some y => N.eqb x y
  | _, _ => false
  end.

Definition pair_eqb (a b : N * N) : bool := N.eqb (fst a) (fst b) && N.eqb (snd a) (snd b).

Definition feat_eqb (a b : feat) : bool :=
  N.eqb (f_id a) (f_id b) && N.eqb (f_type a) (f_type b) && N.eqb (f_role a) (f_role b) &&
  opt_eqb (f_descr a) (f_descr b) && list_eqb pair_eqb (f_ops a) (f_ops b).

(* description and features of an entity *)
Definition content_eqb (a b : ent) : bool :=
  opt_eqb (e_descr a) (e_descr b) && list_eqb feat_eqb (e_feats a) (e_feats b).

Definition ent_eqb (a b : ent) : bool :=
  addr_eqb (e_addr a) (e_addr b) && N.eqb (e_type a) (e_type b) && content_eqb a b.

Definition peer_eqb (a b : peer) : bool :=
  Bool.eqb (p_known a) (p_known b) && list_eqb ent_eqb (p_tree a) (p_tree b).

Definition st_eqb (a b : st) : bool :=
  peer_eqb (s0 a) (s0 b) && peer_eqb (s1 a) (s1 b) && peer_eqb (s2 a) (s2 b) &&
  list_eqb rentry_eqb (s_reg a) (s_reg b).

Definition obs_eqb (a b : obs) : bool :=
  match a, b with
  | OSnap x, OSnap y => st_eqb x y
  | EvDevice p, EvDevice q => N.eqb p q
  | EvEntity p x a, EvEntity q y b => N.eqb p q && Bool.eqb x y && addr_eqb a b
  | ORes x, ORes y => Bool.eqb x y
  | _, _ => false
  end.

(* ---- the monitor *)

Open Scope Z_scope.

Definition CL_ADDRS : Z := 1.     (* the peer's entity addresses are not those of the announced tree *)
Definition CL_TYPE : Z := 2.      (* an entity type is not the announced one *)
Definition CL_CONTENT : Z := 3.   (* description or features (id, type, role, description, operations) of an entity are not the announced ones *)
Definition CL_EVENTS : Z := 4.    (* not exactly one entity event per entity that appeared / disappeared (and one device event per reply) *)
Definition CL_CASCADE : Z := 5.   (* the registries are not the previous ones minus the entries of the disappeared entities *)
Definition CL_OTHERS : Z := 6.    (* something of another peer (or the known-flag) changed *)
Definition CL_REGCALL : Z := 7.   (* a registry call did not do what was asked (environment) *)
Definition CL_SHAPE : Z := 8.     (* no snapshot reported *)

Definition flag (ok : bool) (c : Z) : verdict := if ok then [] else [c].

Definition judge_peer (acting : bool) (e a : peer) : verdict :=
  if acting then
    let same := list_eqb addr_eqb (map e_addr (p_tree e)) (map e_addr (p_tree a)) in
    flag same CL_ADDRS ++
    (* types and contents are compared entity by entity once the addresses agree *)
    (if same then flag (list_eqb N.eqb (map e_type (p_tree e)) (map e_type (p_tree a))) CL_TYPE ++
                  flag (list_eqb content_eqb (p_tree e) (p_tree a)) CL_CONTENT
     else []) ++
    flag (Bool.eqb (p_known e) (p_known a)) CL_OTHERS
  else flag (peer_eqb e a) CL_OTHERS.

Definition acts (o : op) (i : N) : bool :=
  match o with
  | Msg p _ _ => N.eqb p i
  | RegAdd _ _ _ _ => false
  | MsgDuring p _ _ _ _ _ _ => N.eqb p i
  end.

Definition is_msg (o : op) : bool := match o with RegAdd _ _ _ _ => false | _ => true end.

(* compare what was reported with what had to be reported *)
Definition judge_out (o : op) (expected actual : list obs) : verdict :=
  match expected, actual with
  | OSnap se :: re, OSnap sa :: ra =>
      judge_peer (acts o 0%N) (s0 se) (s0 sa) ++
      judge_peer (acts o 1%N) (s1 se) (s1 sa) ++
      judge_peer (acts o 2%N) (s2 se) (s2 sa) ++
      flag (list_eqb rentry_eqb (s_reg se) (s_reg sa)) (if is_msg o then CL_CASCADE else CL_REGCALL) ++
      flag (list_eqb obs_eqb re ra) (if is_msg o then CL_EVENTS else CL_REGCALL)
  | _, _ => [CL_SHAPE]
  end.

Definition mst := st.
Definition minit : mst := init.

Definition mon (m : mst) (o : op) (out : list obs) : mst * verdict :=
  (match out with OSnap s' :: _ => s' | _ => m end,
   judge_out o (snd (spec_step ideal m o)) out).

(* ---- scope: the recorded findings.  The state follows the tree as the recorded
   deviations make it; a clause is excused on a step exactly when a recorded
   deviation changes what the clause compares, and only CL_TYPE / CL_CONTENT can be. *)
Record sst := { sc_st : st; sc_ex : list Z }.
Definition sinit : sst := {| sc_st := init; sc_ex := [] |}.

Definition excusable (c : Z) : bool := Z.eqb c CL_TYPE || Z.eqb c CL_CONTENT.

Definition scope (s : sst) (o : op) : sst :=
  let w := sc_st s in
  {| sc_st := fst (spec_step recorded w o);
     sc_ex := filter excusable (judge_out o (snd (spec_step ideal w o)) (snd (spec_step recorded w o))) |}.

Definition excuses (s : sst) : list Z := sc_ex s.

Fixpoint judge (m : mst) (s : sst) (tr : list (op * list obs)) : list (verdict * list Z) :=
  match tr with
  | [] => []
  | (o, out) :: r =>
      let '(m1, v) := mon m o out in
      let s1 := scope s o in
      (v, excuses s1) :: judge m1 s1 r
  end.

Definition accepted (j : list (verdict * list Z)) : bool :=
  forallb (fun ve => excused (fst ve) (snd ve)) j.

Definition strictly_accepted (j : list (verdict * list Z)) : bool :=
  forallb (fun ve => match fst ve with [] => true | _ => false end) j.
