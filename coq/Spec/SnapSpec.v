(* C11 — the property as a trace monitor.  It never looks at the model's state: it sees the
   operations and what was observed (from the model in the theorems, from the implementation
   in the harness: the runner keeps every object it was handed, deep-clones it at hand-out,
   compares object and clone after every later operation and reports a difference as
   [Changed k]; after every operation it reads the stored data back).

   Property text: "A data set obtained from a local or remote feature, or delivered in a
   data-change event, never changes afterwards, whatever updates the stack processes later.
   An update requested without persistence, and any update reported as failed, leave the
   stored data exactly as it was." *)
From Verif Require Import Base.Prelude Model.Schema Model.Slices Model.SnapStore.

(* clause ids *)
Definition CL_SNAP : Z := 1.       (* an object handed out earlier (DataCopy result, returned data, event payload) changed *)
Definition CL_NOPERSIST : Z := 2.  (* an update with persist=false changed the stored data *)
Definition CL_FAILED : Z := 3.     (* an update reported as failed changed the stored data *)
Definition CL_SHAPE : Z := 4.      (* malformed observation list for the operation *)

Record mst := {
  m_n : nat;                         (* objects handed out so far *)
  m_store : option (list cell);      (* the stored data as last read back (None = nil) *)
  m_known : bool;                    (* no update that may legitimately change the store ran unobserved since *)
  m_np : bool;                       (* an update without persistence ran unobserved since the last read-back *)
  m_fl : bool                        (* an update reported as failed ran unobserved since the last read-back *)
}.

Definition minit : mst := {| m_n := 0; m_store := None; m_known := true; m_np := false; m_fl := false |}.

Definition eqb_store (a b : option (list cell)) : bool :=
  match a, b with
  | None, None => true
  | Some x, Some y => eqb_cells x y
  | _, _ => false
  end.

Definition res_of (l : list obs) : list N :=
  flat_map (fun o => match o with Res c => [c] | _ => [] end) l.
(* what DataCopy returned at the end of the operation *)
Definition store_of (l : list obs) : list (option (list cell)) :=
  flat_map (fun o => match o with
                     | Out k _ _ v => if N.eqb k 0 then [Some v] else []
                     | NilStore => [None]
                     | _ => []
                     end) l.
Definition changed_of (l : list obs) : list nat :=
  flat_map (fun o => match o with Changed k => [k] | _ => [] end) l.
Definition outs_of (l : list obs) : nat :=
  length (filter (fun o => match o with Out _ _ _ _ => true | _ => false end) l).

Definition snap_verdict (m : mst) (out : list obs) : verdict :=
  (match changed_of out with [] => [] | _ => [CL_SNAP] end) ++
  (if forallb (fun k => Nat.ltb k (m_n m)) (changed_of out) then [] else [CL_SHAPE]).

Definition mon (m : mst) (o : op) (out : list obs) : mst * verdict :=
  match o with
  | Init _ _ _ _ =>
      (minit, match out with [] => [] | _ => [CL_SHAPE] end)
  | Update remote persist rb wire u =>
      (* may this update change the store?  only a persisting one that is not reported as failed *)
      match res_of out, store_of out, rb with
      | [c], [sv], true =>
          let same := eqb_store sv (m_store m) in
          let bad := m_known m && (negb persist || N.eqb c 1) && negb same in
          ({| m_n := m_n m + outs_of out; m_store := sv; m_known := true; m_np := false; m_fl := false |},
           snap_verdict m out ++
           (if bad && (negb persist || m_np m) then [CL_NOPERSIST] else []) ++
           (if bad && (N.eqb c 1 || m_fl m) then [CL_FAILED] else []))
      | [c], [], false =>
          (* not read back: the judgement waits for the next read-back *)
          (if negb persist || N.eqb c 1
           then {| m_n := m_n m + outs_of out; m_store := m_store m; m_known := m_known m;
                   m_np := m_np m || negb persist; m_fl := m_fl m || N.eqb c 1 |}
           else {| m_n := m_n m + outs_of out; m_store := m_store m; m_known := false; m_np := false; m_fl := false |},
           snap_verdict m out)
      | _, _, _ => (m, [CL_SHAPE])
      end
  | Snapshot =>
      match res_of out, store_of out with
      | [], [sv] =>
          let bad := m_known m && negb (eqb_store sv (m_store m)) in
          ({| m_n := m_n m + outs_of out; m_store := sv; m_known := true; m_np := false; m_fl := false |},
           snap_verdict m out ++
           (if bad && m_np m then [CL_NOPERSIST] else []) ++
           (if bad && m_fl m then [CL_FAILED] else []))
      | _, _ => (m, [CL_SHAPE])
      end
  | Keep =>
      (* one more object in the application's hands; nothing else may be reported but changes *)
      match out with
      | Kept :: r =>
          ({| m_n := S (m_n m); m_store := m_store m; m_known := m_known m; m_np := m_np m; m_fl := m_fl m |},
           snap_verdict m r ++ (if Nat.eqb (length (changed_of r)) (length r) then [] else [CL_SHAPE]))
      | _ => (m, [CL_SHAPE])
      end
  | Ext _ =>
      (* an operation outside the model: whatever it is, nothing handed out may change *)
      (m, snap_verdict m out ++ (if Nat.eqb (length (changed_of out)) (length out) then [] else [CL_SHAPE]))
  end.

(* Nothing is excused: the repaired code satisfies every clause on every history. *)
Definition sst := unit.
Definition sinit : sst := tt.
Definition scope (s : sst) (o : op) : sst := s.
Definition excuses (s : sst) : list Z := [].

Fixpoint judge (m : mst) (s : sst) (tr : list (op * list obs)) : list (verdict * list Z) :=
  match tr with
  | [] => []
  | (o, out) :: r =>
      let '(m1, v) := mon m o out in
      let s1 := scope s o in
      (v, excuses s1) :: judge m1 s1 r
  end.

Definition accepted (j : list (verdict * list Z)) : bool :=
  forallb (fun ve => excused (fst ve) (snd ve)) j.

Definition strictly_accepted (j : list (verdict * list Z)) : bool :=
  forallb (fun ve => match fst ve with [] => true | _ => false end) j.

(* the histories the theorems are about: every Init selects the repaired FunctionData.UpdateData *)
Definition repaired (ops : list op) : bool :=
  forallb (fun o => match o with Init _ _ fx _ => fx | _ => true end) ops.
