(* C09 — Bindings: exact registry, at most one binding per server feature, as a trace
   monitor.  The monitor keeps its own specification registry (Spec/BindReg.v: a list of
   (server feature, peer, client address) triples) which it updates by the grant / delete
   rules of the property, and a copy of the model state [w] that is used ONLY to resolve
   addresses in the announced trees (local features, the peer's remote features) — that
   is the business of C06/C07. *)
From Verif Require Import Base.Prelude Model.Stack Spec.StackObs Spec.BindReg.

Definition CL_GRANT : Z := 1.     (* outcome of a binding request differs from the grant rule *)
Definition CL_EVENT : Z := 2.     (* binding add/remove event missing, duplicated or wrong *)
Definition CL_DELETE : Z := 3.    (* outcome of a binding delete differs from the rule *)
Definition CL_LISTING : Z := 4.   (* listing is not exactly the peer's bindings / ids not distinct *)
Definition CL_STRAY : Z := 5.     (* binding event where none is due *)

Record mst := { w : st; reg : list bentry }.
Definition minit : mst := {| w := init; reg := [] |}.

(* no binding event *)
Definition quiet (out : list obs) : verdict := check (negb (existsb is_bind_event out)) CL_STRAY.

(* the grant rule of the property: server and client feature exist with the right roles
   and type (the requested type, or Generic; "special" counts for either role) and the
   server feature has no binding yet *)
Definition grant (m : mst) (pe : peer) (c : reg_call) : option (lfeat * rent * faddr) :=
  match local_feature (w m) (rc_srv c), rc_type c, remote_feature pe (rc_cli c) with
  | Some sf, Some t, Some (en, rf) =>
      if role_type_ok (lf_role sf) (lf_type sf) RServer t &&
         role_type_ok (rf_role rf) (rf_type rf) RClient t &&
         negb (existsb (on_srv (srv_of sf)) (reg m))
      then Some (sf, en, rf_addr en rf) else None
  | _, _, _ => None
  end.

(* the world copy follows the model; the registry follows the rules *)
Definition advance (m : mst) (o : op) (r : list bentry) : mst := {| w := fst (step (w m) o); reg := r |}.

Definition mon (m : mst) (o : op) (out : list obs) : mst * verdict :=
  match o with
  | BindCall p ctr ack c =>
      match sender_known (w m) p with
      | None => (advance m o (reg m), check (eqb_list eqb_res (results out) []) CL_GRANT ++ quiet out)
      | Some pe =>
          match grant m pe c with
          | Some (sf, en, cli) =>
              (advance m o (reg m ++ [ {| b_srv := srv_of sf; b_ski := p; b_cli := cli |} ]),
               check (eqb_list eqb_res (results out) (expect_result p ctr ack false)) CL_GRANT ++
               check (eqb_list eqb_obs_event (filter is_bind_event out) [ev_reg EvBind ChAdd p en cli sf]) CL_EVENT)
          | None =>
              (advance m o (reg m),
               check (eqb_list eqb_res (results out) (expect_result p ctr ack true)) CL_GRANT ++ quiet out)
          end
      end
  | BindDelete p ctr ack c =>
      match sender_known (w m) p with
      | None => (advance m o (reg m), check (eqb_list eqb_res (results out) []) CL_DELETE ++ quiet out)
      | Some pe =>
          match remote_feature pe (rc_cli c), local_feature (w m) (rc_srv c) with
          | Some (en, rf), Some sf =>
              (* the addressed binding: the client address of the call (device defaulted to the
                 sender's, SPINE 7.4.4) must be the announced address of the sender's own feature,
                 the server feature must have a server role, and the pair must be bound *)
              let ca := default_dev pe (rc_cli c) in
              if eqb_faddr ca (rf_addr en rf) &&
                 role_type_ok (lf_role sf) (lf_type sf) RServer (lf_type sf) &&
                 existsb (hit p ca (srv_of sf)) (reg m)
              then
                (advance m o (filter (fun x => negb (hit p ca (srv_of sf) x)) (reg m)),
                 check (eqb_list eqb_res (results out) (expect_result p ctr ack false)) CL_DELETE ++
                 check (eqb_list eqb_obs_event (filter is_bind_event out) [ev_reg EvBind ChRemove p en (rf_addr en rf) sf]) CL_EVENT)
              else
                (advance m o (reg m),
                 check (eqb_list eqb_res (results out) (expect_result p ctr ack true)) CL_DELETE ++ quiet out)
          | _, _ =>
              (advance m o (reg m),
               check (eqb_list eqb_res (results out) (expect_result p ctr ack true)) CL_DELETE ++ quiet out)
          end
      end
  | ListBinds p =>
      (advance m o (reg m), check (listing_ok (filter (fun x => N.eqb (b_ski x) p) (reg m)) p out) CL_LISTING)
  | Disconnect p | Connect p =>
      (* teardown (a reconnect tears the old connection down first) removes the peer's bindings;
         exactness of teardown and its events is C10 *)
      (advance m o (drop_peer p (reg m)), [])
  | DiscoveryNotify p _ _ _ =>
      (* entities of p announced as removed (entity-removed event) take their bindings with them *)
      (advance m o (drop_gone p (gone_seen out) (reg m)), [])
  | DiscoveryReply p dm =>
      (* so do the entities a discovery reply no longer lists; the reply also completes the
         address of the node-management feature it came in through *)
      (advance m o (after_reply (w m) p dm out (reg m)), [])
  | _ => (advance m o (reg m), quiet out)
  end.

(* nothing is excused: C09 holds in full on the repaired tree *)
Definition sst := unit.
Definition sinit : sst := tt.
Definition scope (s : sst) (o : op) : sst := tt.
Definition excuses (s : sst) : list Z := [].

Fixpoint judge (m : mst) (tr : list (op * list obs)) : list verdict :=
  match tr with
  | [] => []
  | (o, out) :: r => let '(m1, v) := mon m o out in v :: judge m1 r
  end.

Definition accepted (j : list verdict) : bool := forallb (fun v => match v with [] => true | _ => false end) j.
