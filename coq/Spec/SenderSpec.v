(* C13 — the property as a trace monitor.  It never looks at the model's state:
   it only sees operations and what was observed (from the model in the
   theorems, from the implementation in the harness). *)
From Verif Require Import Base.Prelude Gen.GenConsts Model.Sender.

(* clause ids *)
Definition CL_DUP : Z := 1.        (* a counter was written twice on this connection *)
Definition CL_ORDER : Z := 2.      (* counters do not strictly increase in issue order *)
Definition CL_WITHHELD : Z := 3.   (* a request was withheld although no identical request with the
                                      returned counter is unanswered *)
Definition CL_SHAPE : Z := 4.      (* wrong datagram/return for the call (kind, payload, returned counter) *)
Definition CL_RETRIEVE : Z := 5.   (* one of the last N notifications cannot be retrieved *)
Definition CL_WRONGDG : Z := 6.    (* a retrieved datagram is not the one sent under that counter *)

Record mst := {
  m_seen : list N;               (* every counter written so far *)
  m_last : N;                    (* the last counter written *)
  m_unans : list (N * N);        (* (counter, hash) of requests written and not answered since *)
  m_notifs : list (N * N)        (* (counter, payload) of notifications, newest first *)
}.

Definition minit : mst := {| m_seen := []; m_last := 0; m_unans := []; m_notifs := [] |}.

Fixpoint mem_pair (c h : N) (l : list (N * N)) : bool :=
  match l with
  | [] => false
  | (c', h') :: r => (N.eqb c c' && N.eqb h h') || mem_pair c h r
  end.

Definition fresh (m : mst) (c : N) : verdict :=
  (if memN c (m_seen m) then [CL_DUP] else []) ++
  (if N.ltb (m_last m) c then [] else [CL_ORDER]).

Definition saw (m : mst) (c : N) (un : list (N * N)) (nf : list (N * N)) : mst :=
  {| m_seen := c :: m_seen m; m_last := c; m_unans := un; m_notifs := nf |}.

(* overlapping calls: every counter is new and above everything written before the burst
   began (the calls of a burst overlap each other, so no order is required among them) *)
Fixpoint mon_burst (base : N) (seen : list N) (last : N) (ks : list N) (out : list obs) : list N * N * verdict :=
  match ks, out with
  | [], [] => (seen, last, [])
  | k :: ks', Written c k' p :: out' =>
      let v := (if memN c seen then [CL_DUP] else []) ++
               (if N.ltb base c then [] else [CL_ORDER]) ++
               (if N.eqb k k' && N.eqb p 0 then [] else [CL_SHAPE]) in
      let '(sn, l, v') := mon_burst base (c :: seen) (N.max last c) ks' out' in
      (sn, l, v ++ v')
  | _, _ => (seen, last, [CL_SHAPE])
  end.

Definition mon (m : mst) (o : op) (out : list obs) : mst * verdict :=
  match o, out with
  | Burst ks, _ =>
      let '(sn, l, v) := mon_burst (m_last m) (m_seen m) (m_last m) ks out in
      ({| m_seen := sn; m_last := l; m_unans := m_unans m; m_notifs := m_notifs m |}, v)
  | DupBurst h ks, RetCtr c :: rest =>
      (* withheld: judged as the withheld request, the overlapping calls as a burst *)
      let '(sn, l, v) := mon_burst (m_last m) (m_seen m) (m_last m) ks rest in
      ({| m_seen := sn; m_last := l; m_unans := m_unans m; m_notifs := m_notifs m |},
       (if mem_pair c h (m_unans m) then [] else [CL_WITHHELD]) ++ v)
  | DupBurst h ks, Written c k p :: RetCtr c' :: rest =>
      (* sent (no identical request was unanswered): the request, then the burst *)
      let '(sn, l, v) := mon_burst c (c :: m_seen m) c ks rest in
      ({| m_seen := sn; m_last := l; m_unans := (c, h) :: m_unans m; m_notifs := m_notifs m |},
       fresh m c ++
       (if N.eqb c c' && N.eqb k K_REQUEST && N.eqb p h then [] else [CL_SHAPE]) ++ v)
  | RespDuring h r, [Written c k p; RetCtr c'] =>
      (* the request is written and unanswered; the response processed meanwhile answered r *)
      (saw m c ((c, h) :: remove_N r (m_unans m)) (m_notifs m),
       fresh m c ++
       (if N.eqb c c' && N.eqb k K_REQUEST && N.eqb p h then [] else [CL_SHAPE]))
  | RespDuring h r, [RetCtr c] =>
      (m, if mem_pair c h (m_unans m) then [] else [CL_WITHHELD])
  | Request h, [Written c k p; RetCtr c'] =>
      (saw m c ((c, h) :: m_unans m) (m_notifs m),
       fresh m c ++
       (if N.eqb c c' && N.eqb k K_REQUEST && N.eqb p h then [] else [CL_SHAPE]))
  | Request h, [RetCtr c] =>
      (m, if mem_pair c h (m_unans m) then [] else [CL_WITHHELD])
  | Response None, [] => (m, [])
  | Response (Some r), [] =>
      ({| m_seen := m_seen m; m_last := m_last m; m_unans := remove_N r (m_unans m);
          m_notifs := m_notifs m |}, [])
  | Notify p, [Written c k p'; RetCtr c'] =>
      (saw m c (m_unans m) ((c, p) :: m_notifs m),
       fresh m c ++
       (if N.eqb c c' && N.eqb k K_NOTIFY && N.eqb p' p then [] else [CL_SHAPE]))
  | NotifyProbe p, [Written c k p'; RetCtr c'; Found q] =>
      (saw m c (m_unans m) ((c, p) :: m_notifs m),
       fresh m c ++
       (if N.eqb c c' && N.eqb k K_NOTIFY && N.eqb p' p then [] else [CL_SHAPE]) ++
       (if N.eqb q p then [] else [CL_WRONGDG]))
  | NotifyProbe p, [Written c k p'; RetCtr c'; NotFound] =>
      (* a notification must be retrievable from the moment it is handed to the connection *)
      (saw m c (m_unans m) ((c, p) :: m_notifs m), fresh m c ++ [CL_WRONGDG])
  | Other k, [Written c k' p] =>
      (saw m c (m_unans m) (m_notifs m),
       fresh m c ++ (if N.eqb k k' && N.eqb p 0 then [] else [CL_SHAPE]))
  | Lookup c, [Found p] =>
      (m, match assoc_N c (m_notifs m) with
          | Some p0 => if N.eqb p p0 then [] else [CL_WRONGDG]
          | None => [CL_WRONGDG]
          end)
  | Lookup c, [NotFound] =>
      (m, match assoc_N c (firstn notify_cache_size (m_notifs m)) with
          | Some _ => [CL_RETRIEVE]
          | None => []
          end)
  | _, _ => (m, [CL_SHAPE])
  end.

(* Scope of the proved theorem (DESIGN.md 2.4): the retrieval clause is excused
   once a notification has been sent after a lookup, because the cache library
   refreshes recency on lookup (recorded finding lru-get-refreshes-recency). *)
Record sst := { looked : bool; oos : bool }.
Definition sinit : sst := {| looked := false; oos := false |}.

Definition scope (s : sst) (o : op) : sst :=
  match o with
  | Lookup _ => {| looked := true; oos := oos s |}
  | Notify _ | NotifyProbe _ => {| looked := looked s; oos := oos s || looked s |}
  | _ => s
  end.

Definition excuses (s : sst) : list Z := if oos s then [CL_RETRIEVE] else [].

(* monitor + scope over a whole trace: the list of per-step (verdict, excused) *)
Fixpoint judge (m : mst) (s : sst) (tr : list (op * list obs)) : list (verdict * list Z) :=
  match tr with
  | [] => []
  | (o, out) :: r =>
      let '(m1, v) := mon m o out in
      let s1 := scope s o in
      (v, excuses s1) :: judge m1 s1 r
  end.

Definition accepted (j : list (verdict * list Z)) : bool :=
  forallb (fun ve => excused (fst ve) (snd ve)) j.

Definition strictly_accepted (j : list (verdict * list Z)) : bool :=
  forallb (fun ve => match fst ve with [] => true | _ => false end) j.
