(* C04 — write-protected elements; remote writes are all-or-nothing.  The property
   as a trace monitor over the operations / observations of Model/FunctionStore.v.
   The monitor never looks at the model's state: the data before a write is the data
   the previous operation returned (the Store observation), the data after it is the
   Store observation of the write itself. *)
From Verif Require Import Base.Prelude Model.Schema Model.Update Model.FunctionStore Model.WriteStore Spec.UpdateSpec.

Section Spec.
  Variable sch : schema.

  (* the changeability flag of an element is true (a type without a flag field has
     nothing protected) *)
  Definition changeable (y : item) : bool :=
    match s_wc sch with
    | [w] => match fld y w with Some v => N.eqb v 1 | None => false end
    | _ => true
    end.

  (* z with the flag field(s) of y *)
  Definition keep_flag (y z : item) : item := fold_left (fun x w => set_fld x w (fld y w)) (s_wc sch) z.

  Definition eqb_flag (y z : item) : bool :=
    forallb (fun w => match fld y w, fld z w with
                      | Some a, Some b => N.eqb a b
                      | None, None => true
                      | _, _ => false
                      end) (s_wc sch).

  Definition mem_item (y : item) (l : list item) : bool := existsb (eqb_item y) l.

  (* ---- what a write addresses ---- *)

  Definition addr_del (fd : option flt) (y : item) : bool :=
    match filter_data fd with
    | Some f => match f_sel f with Some sel => smatch sch sel y | None => true end
    | None => false
    end.

  Definition addr_dat (fp : option flt) (new : list item) (y : item) : bool :=
    match filter_data fp with
    | Some f => match f_sel f with Some sel => smatch sch sel y | None => false end
    | None =>
        match new with
        | [] => false
        | n0 :: _ =>
            if is_some (key_of sch n0)
            then match key_of sch y with Some k => mem_key k (keys_of sch new) | None => false end
            else true        (* no identifier: every element *)
        end
    end.

  (* a full write (no filter) addresses every element *)
  Definition addressed (full : bool) (u : upd) (y : item) : bool :=
    full || addr_del (u_fd u) y || addr_dat (u_fp u) (u_new u) y.

  (* ---- what a successful write does (flags are never written) ---- *)

  Definition spec_del (fd : option flt) (l : list item) : list item :=
    match filter_data fd with
    | Some f =>
        match f_sel f, f_elems f with
        | Some sel, Some el => map (fun y => if smatch sch sel y then keep_flag y (clear el y) else y) l
        | Some sel, None => filter (fun y => negb (smatch sch sel y)) l
        | None, Some el => map (fun y => keep_flag y (clear el y)) l
        | None, None => l
        end
    | None => l
    end.

  Definition spec_dat (fp : option flt) (new : list item) (l : list item) : list item :=
    match filter_data fp with
    | Some f =>
        match f_sel f, new with
        | Some sel, x :: _ => map (fun y => if smatch sch sel y then keep_flag y (overlay x y) else y) l
        | _, _ => l
        end
    | None =>
        match new with
        | [] => l
        | n0 :: _ =>
            if is_some (key_of sch n0)
            then map (fun y => match key_of sch y with
                               | Some k => match lfind sch k new with Some x => keep_flag y (overlay x y) | None => y end
                               | None => y
                               end) l
            else map (fun y => keep_flag y (overlay n0 y)) l
        end
    end.

  Definition spec_write (full : bool) (u : upd) (l : list item) : list item :=
    if full then u_new u else spec_dat (u_fp u) (u_new u) (spec_del (u_fd u) l).

  (* an identified write names an identifier the (remaining) data does not hold: elements
     can only be added locally *)
  Definition names_unknown (u : upd) (l : list item) : bool :=
    match filter_data (u_fp u) with
    | Some _ => false
    | None => existsb (fun x => match key_of sch x with Some k => negb (mem_key k (keys_of sch l)) | None => false end) (u_new u)
    end.

  Definition perm_eqb (a b : list item) : bool :=
    Nat.eqb (length a) (length b) && forallb (fun x => mem_item x b) a && forallb (fun x => mem_item x a) b.
End Spec.

Definition CL_PROTECTED : Z := 1.   (* an element whose flag is not true was modified or deleted by a remote write *)
Definition CL_FLAG : Z := 2.        (* a remote write altered the flag of an element *)
Definition CL_UNADDRESSED : Z := 3. (* an element the write does not address changed *)
Definition CL_ACCEPT : Z := 4.      (* accepted although it addresses a protected element, or rejected without an
                                       addressed protected element (and without naming an unknown identifier) *)
Definition CL_ERR : Z := 5.         (* answered with an error (or not applied), yet the data changed *)
Definition CL_OK : Z := 6.          (* answered with success, yet not all changes were applied *)
Definition CL_WSHAPE : Z := 7.      (* malformed observation list *)
Definition CL_OVERLAP : Z := 8.     (* a remote write overlapped by a local update of other elements: the data afterwards
                                       is not what the two give one after the other (an update was lost or undone) *)

Record wmst := { wm_sch : schema; wm_direct : bool; wm_last : list item }.
Definition wminit : wmst := {| wm_sch := empty_schema; wm_direct := false; wm_last := [] |}.

Definition olist (so : option (list item)) : list item := match so with Some l => l | None => [] end.

(* the element z of the data after a write carries the flag of an element of the data before it that
   has z's identifier (if there is one; the identifier may be repeated in an ill-formed list) *)
Definition flag_kept (s : schema) (pre : list item) (z : item) : bool :=
  match key_of s z with
  | Some k => negb (mem_key k (keys_of s pre)) ||
              existsb (fun y => match key_of s y with Some k' => eqb_key k' k | None => false end && eqb_flag s y z) pre
  | None => true
  end.

Definition accept_ok (s : schema) (full : bool) (c : N) (u : upd) (pre : list item) : bool :=
  (if N.eqb c 0 then forallb (fun y => negb (addressed s full u y) || changeable s y) pre else true) &&
  (if N.eqb c 1
   then existsb (fun y => addressed s full u y && negb (changeable s y)) pre || names_unknown s u (spec_del s (u_fd u) pre)
   else true).

Definition wmon (m : wmst) (o : op) (out : list obs) : wmst * verdict :=
  match o, out with
  | Init ty d, [] => ({| wm_sch := schema_of ty; wm_direct := d; wm_last := [] |}, [])
  | Update remote persist wire u, Res c :: rest =>
      match stored rest with
      | None => (m, [CL_WSHAPE])
      | Some so =>
          let s := wm_sch m in
          let pre := wm_last m in
          let post := olist so in
          let full := negb (wm_direct m) && is_full persist u in
          let v :=
            if remote then
              (if forallb (fun y => changeable s y || mem_item y post) pre then [] else [CL_PROTECTED]) ++
              (if forallb (flag_kept s pre) post then [] else [CL_FLAG]) ++
              (if forallb (fun y => addressed s full u y || mem_item y post) pre then [] else [CL_UNADDRESSED]) ++
              (if accept_ok s full c u pre then [] else [CL_ACCEPT]) ++
              (if N.eqb c 0 || eqb_items post pre then [] else [CL_ERR]) ++
              (if negb (N.eqb c 0) || perm_eqb post (spec_write s full u pre) then [] else [CL_OK])
            else [] in
          ({| wm_sch := s; wm_direct := wm_direct m; wm_last := post |}, v)
      end
  | Snapshot, [Store so] => ({| wm_sch := wm_sch m; wm_direct := wm_direct m; wm_last := olist so |}, [])
  | _, _ => (m, [CL_WSHAPE])
  end.

(* Scope of the proved theorem (DESIGN.md 2.4).
   - Recorded finding: a full (filter-less) remote write goes through the replace path of
     FunctionData.UpdateData and replaces the whole list, protected elements and flags
     included: at such a step the clauses PROTECTED, FLAG and ACCEPT are excused.
   - Once the stored data is not well-formed (repeated or missing identifiers), a remote write that
     takes the Merge path ([weak_shape]) is still held to PROTECTED, UNADDRESSED and ERR: whatever the
     list looks like, an accepted write keeps every element that is protected or that it does not
     address, and a rejected one changes nothing.  FLAG, ACCEPT and OK are excused there (they are
     stated through identifiers).
   - Everything is excused once the data or a write is not well-formed (ill-formed update
     lists are C02's recorded findings; a remote write that is not persisted does not exist
     in the API), until a well-formed full local update replaces the data. *)
(* a write that takes the Merge / SortData path of the engine: no selector or elements in the partial
   filter, data with complete, pairwise distinct identifiers (or none: a delete-only write) *)
Definition weak_shape (s : schema) (u : upd) : bool :=
  negb (is_some (filter_data (u_fp u))) &&
  match u_new u with [] => true | _ => wf_items s (u_new u) end.

(* [ws_fullw] qualifies the step just taken: in scope it marks a full remote write (finding below); out
   of scope it marks a remote write of [weak_shape] on a well-formed schema, for which PROTECTED,
   UNADDRESSED and ERR are proved whatever the stored list looks like (repeated identifiers, elements
   without identifier) *)
Record wsst := { ws_sch : schema; ws_direct : bool; ws_oos : bool; ws_fullw : bool }.
Definition wsinit : wsst := {| ws_sch := empty_schema; ws_direct := false; ws_oos := true; ws_fullw := false |}.

Definition wscope (s : wsst) (o : op) : wsst :=
  match o with
  | Init ty d => {| ws_sch := schema_of ty; ws_direct := d; ws_oos := negb (wf_schema (schema_of ty)); ws_fullw := false |}
  | Update remote persist wire u =>
      let full := negb (ws_direct s) && is_full persist u in
      let mk oos fw := {| ws_sch := ws_sch s; ws_direct := ws_direct s; ws_oos := oos; ws_fullw := fw |} in
      if remote then
        if negb persist then mk true false
        else if full then (let oos := ws_oos s || negb (wf_update (ws_sch s) true u) in mk oos (negb oos))
        else (let oos := ws_oos s || negb (wf_update (ws_sch s) false u) in
              mk oos (oos && wf_schema (ws_sch s) && weak_shape (ws_sch s) u))
      else if negb persist then mk (ws_oos s) false
      else if wf_update (ws_sch s) full u then
        (if full then mk (negb (wf_schema (ws_sch s))) false else mk (ws_oos s) false)
      else mk true false
  | Snapshot => {| ws_sch := ws_sch s; ws_direct := ws_direct s; ws_oos := ws_oos s; ws_fullw := false |}
  end.

Definition wexcuses (s : wsst) : list Z :=
  if ws_oos s then
    (if ws_fullw s then [CL_FLAG; CL_ACCEPT; CL_OK; CL_OVERLAP]
     else [CL_PROTECTED; CL_FLAG; CL_UNADDRESSED; CL_ACCEPT; CL_ERR; CL_OK; CL_OVERLAP])
  else if ws_fullw s then [CL_PROTECTED; CL_FLAG; CL_ACCEPT] else [].

Fixpoint wjudge (m : wmst) (s : wsst) (tr : list (op * list obs)) : list (verdict * list Z) :=
  match tr with
  | [] => []
  | (o, out) :: r =>
      let '(m1, v) := wmon m o out in
      let s1 := wscope s o in
      (v, wexcuses s1) :: wjudge m1 s1 r
  end.

(* ---- overlapping updates (Model/WriteStore.v) ---- *)

(* what a local identified partial update does to a list (C02's rule, on lists): merge into the
   items it names, append the items whose identifier is new *)
Definition spec_local (s : schema) (u : upd) (l : list item) : list item :=
  map (fun y => match key_of s y with
                | Some k => match lfind s k (u_new u) with Some x => overlay x y | None => y end
                | None => y
                end) l ++
  filter (fun x => match key_of s x with Some k => negb (mem_key k (keys_of s l)) | None => false end) (u_new u).

(* a partial update with identifiers and nothing else: partial filter without selectors / elements, no
   delete filter, a non-empty list with complete, pairwise distinct identifiers *)
Definition merge_shape (s : schema) (u : upd) : bool :=
  is_some (u_fp u) && negb (is_some (filter_data (u_fp u))) && negb (is_some (u_fd u)) &&
  wf_items s (u_new u) && negb (match u_new u with [] => true | _ => false end).

Definition disjoint_keys (s : schema) (a b : upd) : bool :=
  forallb (fun k => negb (mem_key k (keys_of s (u_new b)))) (keys_of s (u_new a)).

(* the pairs that commute: both are such updates and they name disjoint identifiers *)
Definition overlap_ok (s : schema) (w l : upd) : bool := merge_shape s w && merge_shape s l && disjoint_keys s w l.

Definition womon (m : wmst) (o : wop) (out : list obs) : wmst * verdict :=
  match o with
  | Seq o => wmon m o out
  | Overlap w l =>
      match out with
      | Res cw :: Res cl :: Store so :: _ =>
          let s := wm_sch m in
          let pre := wm_last m in
          let post := olist so in
          ({| wm_sch := s; wm_direct := wm_direct m; wm_last := post |},
           (if accept_ok s false cw w pre then [] else [CL_ACCEPT]) ++
           (if N.eqb cl 0 && perm_eqb post (spec_local s l (if N.eqb cw 0 then spec_write s false w pre else pre))
            then [] else [CL_OVERLAP]))
      | _ => (m, [CL_WSHAPE])
      end
  end.

Definition woscope (s : wsst) (o : wop) : wsst :=
  match o with
  | Seq o => wscope s o
  | Overlap w l => {| ws_sch := ws_sch s; ws_direct := ws_direct s;
                      ws_oos := ws_oos s || ws_direct s || negb (overlap_ok (ws_sch s) w l); ws_fullw := false |}
  end.

Fixpoint wojudge (m : wmst) (s : wsst) (tr : list (wop * list obs)) : list (verdict * list Z) :=
  match tr with
  | [] => []
  | (o, out) :: r =>
      let '(m1, v) := womon m o out in
      let s1 := woscope s o in
      (v, wexcuses s1) :: wojudge m1 s1 r
  end.
