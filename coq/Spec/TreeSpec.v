(* C07 — the property as a trace monitor.  It sees operations and observations only.

   The monitor keeps the tree as the application built it (entity objects with their
   features: a feature of a type and role that the entity already has is not added a
   second time; functions only on server/special features, first registration wins; the
   description), the device's member list, the feature ids it saw handed out, the
   subscription entries on node management (plain data, taken from the observed results
   of the subscription calls), the GetOrAddFeature calls parked at the hook and, for every
   discovery read that has begun and not yet returned, the member list at its beginning.
   Feature ids are taken from the observations, never predicted.  Clauses:
     REPLY    the reply to a detailed-discovery read is not exactly render(current tree):
              member entities in order with their type; for each its features with id,
              type, role, description and per function read / write (+ partial); functions
              as a sorted set; nothing else on any connection.
              A read that overlaps other calls (ReadBegin t p ... ReadEnd t): the property's
              "at every moment" is read, for a call that takes time, as "at some moment
              between its call and its return" -- here the moment of its ReadBegin: the
              reply must list exactly the entities that were members THEN, in that order
              (not one more, not one less, whatever was added or removed since), each
              described as the entity object is when the reply is built (type, features,
              functions: these objects are live and every change to them happened before
              the reply was sent); a read that produces no reply at all (ReadPanicked)
              or anything else on any connection violates REPLY
     RESOLVE  an announced feature address does not resolve (FeatureByAddress) to a
              feature with that address, type and role.  In the reply of an overlapped read
              this is demanded of the entities that are members when the reply is sent; the
              features of an entity removed during the read were announced for the moment
              of ReadBegin and their resolution now is not judged
     NOTIFY   AddEntity / RemoveEntity did not send exactly one partial notification per
              subscription entry on node management, addressed to that entry's client
              feature, describing the entity as added (with its features) or removed
              (without), and nothing to anyone else
     FRESH    a feature id was handed out twice within one entity -- also among the calls of a
              burst (overlapping NextFeatureId / NewFeatureLocal + AddFeature / GetOrAddFeature
              calls on one entity object) and between them and everything handed out before.
              A burst is judged as its calls one after the other in the order given, each
              with its own observation (the runner reports the ids sorted: the calls overlap
              each other, so which call obtained which id is not prescribed); the reads that
              follow show the announced feature numbers unique and resolving
     SAME     GetOrAddFeature did not return the one feature of that type and role
              (it returned another one, or created a second one)
   The tree helpers (feats_add, fn_add, render_feat, the sorted subscription set) are
   shared with Model/LocalTree.v; the monitor renders with "resolves to itself". *)
From Verif Require Import Base.Prelude Base.Machine Model.LocalTree.

Definition CL_REPLY : Z := 1.
Definition CL_RESOLVE : Z := 2.
Definition CL_NOTIFY : Z := 3.
Definition CL_FRESH : Z := 4.
Definition CL_SAME : Z := 5.
Definition CL_SHAPE : Z := 6.
Definition CL_STALL : Z := 7.
(* STALL: while one notification write of AddEntity / RemoveEntity to a subscribed peer is stalled
   inside the connection writer, another peer's discovery read (or a peer's disconnect) did not
   complete: it returned only after the write had been released (observation Blocked).  "At every
   moment the reply to a detailed-discovery read ..." presupposes that the read is answered;
   "sends each subscribed peer exactly one notification" must not make the device wait for one
   peer's connection.  [During add e q i] is judged as the entity operation on the first [Len n]
   observations, then [i] on the rest -- the sequential composition, whatever peer q is stalled. *)

Record mst := {
  m_objs : list (N * eobj);
  m_ids : list (N * N);                (* every (entity, feature id) seen handed out *)
  m_members : list N;
  m_subs : list (N * N);
  m_thr : list (N * (N * N * N));
  m_rds : list (N * (N * list N))      (* reads begun and not returned: thread -> (peer, the members at ReadBegin) *)
}.

Definition minit : mst :=
  {| m_objs := objs init; m_ids := [(0, 0); (0, 1)]%N; m_members := [0%N]; m_subs := []; m_thr := []; m_rds := [] |}.

Definition mfeats (m : mst) (e : N) : list feat :=
  match assoc_N e (m_objs m) with Some o => e_feats o | None => [] end.
Definition mtype (m : mst) (e : N) : N :=
  match assoc_N e (m_objs m) with Some o => e_type o | None => 0 end.

Definition handed (e id : N) (l : list (N * N)) : bool :=
  existsb (fun x => N.eqb (fst x) e && N.eqb (snd x) id) l.

(* render(current tree), every announced feature resolving to itself *)
Definition exp_feats (m : mst) (e : N) : list obs :=
  flat_map (fun f => render_feat e f (Some f)) (mfeats m e).

(* the reply listing exactly the entities [l], each as it is now *)
Definition exp_reply_of (m : mst) (p : N) (l : list N) : list obs :=
  RBegin p true :: map (fun e => REnt e (mtype m e) 0) l ++
  flat_map (exp_feats m) l ++ [REnd].

Definition exp_reply (m : mst) (p : N) : list obs := exp_reply_of m p (m_members m).

Definition exp_notifs (m : mst) (e lsc : N) (with_feats : bool) : list obs :=
  flat_map (fun pc : N * N =>
              NBegin (fst pc) (snd pc) true :: REnt e (mtype m e) lsc ::
              (if with_feats then exp_feats m e else []) ++ [REnd]) (m_subs m).

(* the announcement with the resolution columns replaced by "itself" *)
Definition self_res (o : obs) : obs :=
  match o with
  | RFeat e id ty role d _ _ _ => RFeat e id ty role d id ty role
  | x => x
  end.

Definition same (a b : list obs) : bool := eqb_zss (map print_obs a) (map print_obs b).

Definition judge_announce (cl : Z) (out expected : list obs) : verdict :=
  (if same (map self_res out) expected then [] else [cl]) ++
  (if same (map self_res out) out then [] else [CL_RESOLVE]).

(* the announcement with the resolution columns of the current members' features replaced by "itself" *)
Definition member_res (mem : list N) (o : obs) : obs :=
  match o with
  | RFeat e id ty role d _ _ _ => if memN e mem then RFeat e id ty role d id ty role else o
  | x => x
  end.

(* the reply of an overlapped read: content against [expected], resolution for the current members *)
Definition judge_reply (mem : list N) (out expected : list obs) : verdict :=
  (if same (map self_res out) expected then [] else [CL_REPLY]) ++
  (if same (map (member_res mem) out) out then [] else [CL_RESOLVE]).

Definition set_mobjs (m : mst) (o : list (N * eobj)) (ids : list (N * N)) : mst :=
  {| m_objs := o; m_ids := ids; m_members := m_members m; m_subs := m_subs m; m_thr := m_thr m; m_rds := m_rds m |}.

Definition fresh (m : mst) (e id : N) : verdict := if handed e id (m_ids m) then [CL_FRESH] else [].

(* GetOrAddFeature returned feature id [id]; [new]: the feature list grew *)
Definition judge_get (m : mst) (e ty role id : N) (new : bool) : mst * verdict :=
  match find_tr ty role (mfeats m e) with
  | Some f => (m, if N.eqb id (f_id f) && negb new then [] else [CL_SAME])
  | None =>
      if new
      then let f := {| f_id := id; f_type := ty; f_role := role; f_desc := 1; f_ops := [] |} in
           (set_mobjs m (upd_feats e (fun l => l ++ [f]) (m_objs m)) ((e, id) :: m_ids m), fresh m e id)
      else (m, [CL_SAME])
  end.

Definition expect (m : mst) (out : list obs) (o : obs) : mst * verdict :=
  match out with
  | [x] => if eqb_zs (print_obs x) (print_obs o) then (m, []) else (m, [CL_SHAPE])
  | _ => (m, [CL_SHAPE])
  end.

(* every operation but Burst *)
Definition mon_base (m : mst) (o : op) (out : list obs) : mst * verdict :=
  match o with
  | NewEntity e ty =>
      match assoc_N (Npos e) (m_objs m) with
      | Some _ => expect m out Exists
      | None =>
          expect (set_mobjs m (m_objs m ++ [(Npos e, {| e_type := ty; e_feats := [] |})]) (m_ids m)) out Created
      end
  | AddEntity e =>
      match assoc_N (Npos e) (m_objs m) with
      | None => expect m out NoEntity
      | Some _ =>
          if memN (Npos e) (m_members m) then expect m out AlreadyMember
          else let m1 := {| m_objs := m_objs m; m_ids := m_ids m; m_members := m_members m ++ [Npos e];
                            m_subs := m_subs m; m_thr := m_thr m; m_rds := m_rds m |} in
               (m1, judge_announce CL_NOTIFY out (exp_notifs m1 (Npos e) 1 true))
      end
  | RemoveEntity e =>
      match assoc_N (Npos e) (m_objs m) with
      | None => expect m out NoEntity
      | Some _ =>
          let m1 := {| m_objs := m_objs m; m_ids := m_ids m;
                       m_members := filter (fun x => negb (N.eqb x (Npos e))) (m_members m);
                       m_subs := m_subs m; m_thr := m_thr m; m_rds := m_rds m |} in
          (m1, judge_announce CL_NOTIFY out (exp_notifs m1 (Npos e) 2 false))
      end
  | AddFeature e ty role desc fns =>
      match assoc_N e (m_objs m) with
      | None => expect m out NoEntity
      | Some _ =>
          match out with
          | [FeatId id] =>
              let f := {| f_id := id; f_type := ty; f_role := role;
                          f_desc := if N.eqb desc 0 then 0 else N.succ desc;
                          f_ops := fns_add role [] fns |} in
              (set_mobjs m (upd_feats e (feats_add f) (m_objs m)) ((e, id) :: m_ids m), fresh m e id)
          | _ => (m, [CL_SHAPE])
          end
      end
  | AddFunction e fid fn r w ps =>
      match assoc_N e (m_objs m) with
      | None => expect m out NoEntity
      | Some o =>
          match find_id fid (e_feats o) with
          | None => expect m out NoFeature
          | Some _ =>
              expect (set_mobjs m (upd_feats e (feats_upd_id fid (fun f => with_ops f (fn_add (f_role f) (f_ops f) fn r w ps)))
                                             (m_objs m)) (m_ids m)) out OkDone
          end
      end
  | NextId e =>
      match assoc_N e (m_objs m) with
      | None => expect m out NoEntity
      | Some _ =>
          match out with
          | [FeatId id] => (set_mobjs m (m_objs m) ((e, id) :: m_ids m), fresh m e id)
          | _ => (m, [CL_SHAPE])
          end
      end
  | GetOrAdd e ty role =>
      match assoc_N e (m_objs m) with
      | None => expect m out NoEntity
      | Some _ =>
          match out with
          | [GRet id new] => judge_get m e ty role id new
          | _ => (m, [CL_SHAPE])
          end
      end
  | GLookup t e ty role =>
      match assoc_N t (m_thr m) with
      | Some _ => expect m out BusyT
      | None =>
          match assoc_N e (m_objs m) with
          | None => expect m out NoEntity
          | Some _ =>
              match out with
              | [Miss] =>
                  ({| m_objs := m_objs m; m_ids := m_ids m; m_members := m_members m; m_subs := m_subs m;
                      m_thr := (t, (e, ty, role)) :: m_thr m; m_rds := m_rds m |}, [])
              | [GRet id false] => judge_get m e ty role id false
              | _ => (m, [CL_SHAPE])
              end
          end
      end
  | GCreate t =>
      match assoc_N t (m_thr m) with
      | None => expect m out NoThread
      | Some (e, ty, role) =>
          match out with
          | [GRet id new] =>
              judge_get {| m_objs := m_objs m; m_ids := m_ids m; m_members := m_members m; m_subs := m_subs m;
                           m_thr := remove_N t (m_thr m); m_rds := m_rds m |} e ty role id new
          | _ => (m, [CL_SHAPE])
          end
      end
  | Subscribe p c =>
      match out with
      | [SubRes ok] =>
          ({| m_objs := m_objs m; m_ids := m_ids m; m_members := m_members m;
              m_subs := if ok && negb (sub_mem (p, c) (m_subs m)) then sub_ins (p, c) (m_subs m) else m_subs m;
              m_thr := m_thr m; m_rds := m_rds m |}, [])
      | _ => (m, [CL_SHAPE])
      end
  | Unsubscribe p c =>
      match out with
      | [SubRes ok] =>
          ({| m_objs := m_objs m; m_ids := m_ids m; m_members := m_members m;
              m_subs := if ok then sub_del (p, c) (m_subs m) else m_subs m;
              m_thr := m_thr m; m_rds := m_rds m |}, [])
      | _ => (m, [CL_SHAPE])
      end
  | Read p => (m, judge_announce CL_REPLY out (exp_reply m p))
  | ReadBegin t p =>
      match assoc_N t (m_rds m) with
      | Some _ => expect m out BusyT
      | None =>
          expect {| m_objs := m_objs m; m_ids := m_ids m; m_members := m_members m; m_subs := m_subs m;
                    m_thr := m_thr m; m_rds := (t, (p, m_members m)) :: m_rds m |} out Parked
      end
  | ReadEnd t =>
      match assoc_N t (m_rds m) with
      | None => expect m out NoThread
      | Some (p, l) =>
          let m1 := {| m_objs := m_objs m; m_ids := m_ids m; m_members := m_members m; m_subs := m_subs m;
                       m_thr := m_thr m; m_rds := remove_N t (m_rds m) |} in
          (m1, judge_reply (m_members m1) out (exp_reply_of m1 p l))
      end
  | Burst _ _ => expect m out BadBurst
  | Reconnect p =>
      expect {| m_objs := m_objs m; m_ids := m_ids m; m_members := m_members m;
                m_subs := filter (fun x : N * N => negb (N.eqb (fst x) p)) (m_subs m);
                m_thr := m_thr m; m_rds := m_rds m |} out OkDone
  | During _ _ _ _ => expect m out BadBurst
  | SetDescr e fid d =>
      (* the application changed the description of an existing feature: every later announcement of it
         (reply, "added" notification) must carry the new text *)
      match assoc_N e (m_objs m) with
      | None => expect m out NoEntity
      | Some o =>
          match find_id fid (e_feats o) with
          | None => expect m out NoFeature
          | Some _ =>
              expect (set_mobjs m (upd_feats e (feats_upd_id fid (fun f => with_desc f (N.succ d))) (m_objs m)) (m_ids m)) out OkDone
          end
      end
  end.

(* the calls of a burst, one observation each *)
Fixpoint mon_calls (m : mst) (l : list op) (out : list obs) : mst * verdict :=
  match l, out with
  | [], [] => (m, [])
  | o :: r, x :: out' =>
      let '(m1, v) := mon_base m o [x] in
      let '(m2, v2) := mon_calls m1 r out' in
      (m2, v ++ v2)
  | _, _ => (m, [CL_SHAPE])
  end.

Definition mon (m : mst) (o : op) (out : list obs) : mst * verdict :=
  match o with
  | Burst e calls =>
      if burst_wf calls
      then match assoc_N e (m_objs m) with
           | None => expect m out NoEntity
           | Some _ => mon_calls m (map (bcall_op e) calls) out
           end
      else expect m out BadBurst
  | During add e q i =>
      match out with
      | Len n :: rest =>
          let '(m1, v1) := mon_base m (ent_op add e) (firstn (N.to_nat n) rest) in
          let b := skipn (N.to_nat n) rest in
          let '(vb, b') := match b with Blocked :: b' => ([CL_STALL], b') | _ => ([], b) end in
          let '(m2, v2) := mon_base m1 (inner_op i) b' in
          (m2, v1 ++ vb ++ v2)
      | _ => (m, [CL_SHAPE])
      end
  | _ => mon_base m o out
  end.

(* nothing is excused: no recorded finding for C07 *)
Definition sst := unit.
Definition sinit : sst := tt.
Definition scope (s : sst) (o : op) : sst := tt.
Definition excuses (s : sst) : list Z := [].

Fixpoint judge (m : mst) (s : sst) (tr : list (op * list obs)) : list (verdict * list Z) :=
  match tr with
  | [] => []
  | (o, out) :: r =>
      let '(m1, v) := mon m o out in
      let s1 := scope s o in
      (v, excuses s1) :: judge m1 s1 r
  end.

(* the monitor's state after a trace *)
Fixpoint mrun (m : mst) (tr : list (op * list obs)) : mst :=
  match tr with
  | [] => m
  | (o, out) :: r => mrun (fst (mon m o out)) r
  end.

Definition accepted (j : list (verdict * list Z)) : bool :=
  forallb (fun ve => excused (fst ve) (snd ve)) j.

Definition strictly_accepted (j : list (verdict * list Z)) : bool :=
  forallb (fun ve => match fst ve with [] => true | _ => false end) j.
