(* C12 — the property as a trace monitor.  It never looks at the model's state: it only
   sees the operations (the schedule) and what was observed, from the model in the theorems
   and from the real FeatureLocal in the harness.

   Reading of the property text over a schedule.  A verdict is a call of ApproveOrDenyWrite,
   spanning [Lookup, Commit]; the approval timeout of a write is the event [Expire] (the time
   has elapsed), its processing spans [Expire, Fire].
     * the write is presented exactly once to every callback when it arrives (PRESENT);
     * a write never gets a second outcome (TWICE); an outcome is "applied (+ success result
       if an acknowledgement was requested)" or one error result;
     * it may be applied only at the completion of an approval, when every callback has
       delivered an approval for it (NOT_UNANIMOUS);
     * it MUST be applied at the completion of the approval that makes the approvals
       unanimous if the timeout has not elapsed yet, and a denial completing before the timeout
       MUST produce the error result; a verdict delivered before the timeout must be taken up
       (IGNORED).  A verdict that overlaps the timeout may go either way — the result must
       still be exactly one outcome;
     * when the timer body runs and the write has no outcome yet it MUST send the error
       result, and a timer may only disappear once the write has its outcome (TIMEOUT);
     * nothing is ever addressed to a peer whose connection was removed, and none of its
       bookkeeping entries survives the removal (CLEANUP; this is the approval clause of C10);
     * the function data is the value of the write applied last (DATA);
     * every call into the stack returns (STUCK): an inbound write, a verdict, a timer body or the
       removal of a connection that blocks for ever leaves writes without their outcome.
   "Independently of other writes" is built in: every clause is evaluated per write, from
   that write's own verdicts and timeout only. *)
From Verif Require Import Base.Prelude Model.Approval.

(* clause ids *)
Definition CL_PRESENT : Z := 1.        (* not presented exactly once to every callback *)
Definition CL_TWICE : Z := 2.          (* a second outcome for a write *)
Definition CL_NOT_UNANIMOUS : Z := 3.  (* applied although not every callback approved *)
Definition CL_IGNORED : Z := 4.        (* a verdict delivered in time had no effect *)
Definition CL_TIMEOUT : Z := 5.        (* the timeout did not produce the error result / the timer vanished *)
Definition CL_CLEANUP : Z := 6.        (* output for, or bookkeeping of, a removed connection *)
Definition CL_DATA : Z := 7.           (* the data is not the value of the write applied last *)
Definition CL_SHAPE : Z := 8.          (* observation of the wrong shape for the operation *)
Definition CL_STUCK : Z := 9.          (* a call into the stack (write, verdict, timer body, cleanup) never returned:
                                          the writes it blocks cannot get their outcome *)
Definition CL_PANIC : Z := 10.         (* a call into the stack panicked: the message handling died, the write has no outcome *)

Inductive phase := PRun | PExp | PFired.
Definition is_prun (ph : phase) : bool := match ph with PRun => true | _ => false end.

Record wrec := {
  r_phase : phase;                 (* timeout not elapsed / elapsed, body not run / body ran *)
  r_out : bool;                    (* the write has its outcome *)
  r_nstart : nat;                  (* approvals delivered (call begun and taken up) *)
  r_ndone : nat                    (* approvals whose call completed *)
}.
Definition rfresh : wrec := {| r_phase := PRun; r_out := false; r_nstart := 0; r_ndone := 0 |}.

Record mst := {
  m_d : disc;                      (* the environment's bookkeeping, recomputed from the operations *)
  m_w : list (wid * wrec);
  m_call : list (vid * bool);      (* verdict calls in progress, with their approve flag *)
  m_data : option wid              (* the write applied last *)
}.
Definition minit : mst := {| m_d := dinit; m_w := []; m_call := []; m_data := None |}.

Definition rget (w : wid) (m : mst) : wrec :=
  match wassoc w (m_w m) with Some r => r | None => rfresh end.

Definition obs_eqb (a b : obs) : bool :=
  match a, b with
  | Skipped, Skipped | Parked, Parked | Returned, Returned | TimerFired, TimerFired
  | NoTimer, NoTimer | DataNone, DataNone | Drift, Drift => true
  | Presented x y z, Presented x' y' z' => N.eqb x x' && N.eqb y y' && N.eqb z z'
  | Result x y z, Result x' y' z' => N.eqb x x' && N.eqb y y' && N.eqb z z'
  | TallyEntry x y z, TallyEntry x' y' z' => N.eqb x x' && N.eqb y y' && N.eqb z z'
  | Applied x y, Applied x' y' => N.eqb x x' && N.eqb y y'
  | PendingLeft x y, PendingLeft x' y' => N.eqb x x' && N.eqb y y'
  | PendingEntry x y, PendingEntry x' y' => N.eqb x x' && N.eqb y y'
  | DataIs x y, DataIs x' y' => N.eqb x x' && N.eqb y y'
  | Sent x y, Sent x' y' => N.eqb x x' && N.eqb y y'
  | Stuck x, Stuck x' => N.eqb x x'
  | Panicked x, Panicked x' => N.eqb x x'
  | _, _ => false
  end.

Fixpoint olist_eqb (a b : list obs) : bool :=
  match a, b with
  | [], [] => true
  | x :: a', y :: b' => obs_eqb x y && olist_eqb a' b'
  | _, _ => false
  end.

(* the peer an observation is addressed to / belongs to *)
Definition obs_peer (o : obs) : option N :=
  match o with
  | Presented _ p _ | Result p _ _ | Applied p _ | Sent p _ | PendingEntry p _ => Some p
  | _ => None
  end.

Definition to_gone (d : disc) (out : list obs) : bool :=
  existsb (fun o => match obs_peer o with Some p => gone p d | None => false end) out.

Definition has_drift (out : list obs) : bool :=
  existsb (fun o => match o with Drift => true | _ => false end) out.

Definition has_stuck (out : list obs) : bool :=
  existsb (fun o => match o with Stuck _ => true | _ => false end) out.

Definition has_panic (out : list obs) : bool :=
  existsb (fun o => match o with Panicked _ => true | _ => false end) out.

(* observations that are wrong whatever the operation *)
Definition flags (out : list obs) : verdict :=
  (if has_drift out then [CL_DATA] else []) ++ (if has_stuck out then [CL_STUCK] else []) ++
  (if has_panic out then [CL_PANIC] else []).

Definition skipped_only (out : list obs) : verdict :=
  match out with [Skipped] => [] | _ => [CL_SHAPE] end.

Definition with_d (m : mst) (d : disc) : mst :=
  {| m_d := d; m_w := m_w m; m_call := m_call m; m_data := m_data m |}.

Definition set_rec (m : mst) (d : disc) (w : wid) (r : wrec) : mst :=
  {| m_d := d; m_w := wset w r (m_w m); m_call := m_call m; m_data := m_data m |}.

(* what a Commit step produced *)
Inductive ckind := KNone | KApplied | KDenied | KBad.

Definition commit_kind (w : wid) (ack : bool) (out : list obs) : ckind :=
  match out with
  | [Returned] => KNone
  | [Applied p c; Returned] => if weqb (p, c) w && negb ack then KApplied else KBad
  | [Result p c e; Applied p' c'; Returned] =>
      if weqb (p, c) w && weqb (p', c') w && N.eqb e 0 && ack then KApplied else KBad
  | [Result p c e; Returned] => if weqb (p, c) w && N.eqb e E_DENIED then KDenied else KBad
  | _ => KBad
  end.

Definition data_check (m : mst) (w : option wid) : verdict :=
  match m_data m, w with
  | None, None => []
  | Some a, Some b => if weqb a b then [] else [CL_DATA]
  | _, _ => [CL_DATA]
  end.

(* Probe: bookkeeping entries, then the data *)
Fixpoint probe_check (m : mst) (out : list obs) : verdict :=
  match out with
  | [DataIs p c] => data_check m (Some (p, c))
  | [DataNone] => data_check m None
  | PendingEntry p c :: r =>
      (* a pending entry is a write that still awaits its outcome *)
      (if arrived (p, c) (m_d m) && negb (r_out (rget (p, c) m)) then [] else [CL_SHAPE]) ++ probe_check m r
  | TallyEntry _ _ _ :: r => probe_check m r
  | _ => [CL_SHAPE]
  end.

Definition mon_op (m : mst) (d : disc) (o : op) (out : list obs) : mst * verdict :=
  match o with
  | AddCb => (with_d m d, match out with [] => [] | _ => [CL_SHAPE] end)
  | Arrive p c ack _ =>
      let w := (p, c) in
      match d_ncb d with
      | O => (* no callback registered (outside the property's quantifier): applied at once *)
          ({| m_d := d; m_w := wset w {| r_phase := PRun; r_out := true; r_nstart := 0; r_ndone := 0 |} (m_w m);
              m_call := m_call m; m_data := Some w |},
           if olist_eqb out (ack_result ack w ++ [Applied p c]) then [] else [CL_SHAPE])
      | S _ =>
          (set_rec m d w rfresh, if olist_eqb out (presented (d_ncb d) w) then [] else [CL_PRESENT])
      end
  | Lookup p c cb a =>
      let w := (p, c) in
      let r := rget w m in
      match out with
      | [Parked] =>
          ({| m_d := d;
              m_w := wset w {| r_phase := r_phase r; r_out := r_out r;
                               r_nstart := if a then S (r_nstart r) else r_nstart r; r_ndone := r_ndone r |} (m_w m);
              m_call := m_call m ++ [((w, cb), a)]; m_data := m_data m |}, [])
      | [Returned] =>
          (with_d m d, if r_out r || gone p d || negb (is_prun (r_phase r)) then [] else [CL_IGNORED])
      | _ => (with_d m d, [CL_SHAPE])
      end
  | Commit p c cb =>
      let w := (p, c) in
      match vassoc (w, cb) (m_call m) with
      | None => (m, skipped_only out)
      | Some a =>
          let r := rget w m in
          let nd := if a then S (r_ndone r) else r_ndone r in
          let calls := vremove (w, cb) (m_call m) in
          let must := negb (r_out r) && negb (gone p d) && is_prun (r_phase r) &&
                      (if a then Nat.leb (d_ncb d) nd else true) in
          let upd (o' : bool) (dt : option wid) :=
            {| m_d := d;
               m_w := wset w {| r_phase := r_phase r; r_out := o'; r_nstart := r_nstart r; r_ndone := nd |} (m_w m);
               m_call := calls; m_data := dt |} in
          match commit_kind w (ack_of w d) out with
          | KNone => (upd (r_out r) (m_data m), if must then [CL_IGNORED] else [])
          | KApplied =>
              (upd true (Some w),
               (if r_out r then [CL_TWICE] else []) ++
               (if a && Nat.leb (d_ncb d) (r_nstart r) then [] else [CL_NOT_UNANIMOUS]))
          | KDenied =>
              (upd true (m_data m), (if r_out r then [CL_TWICE] else []) ++ (if a then [CL_SHAPE] else []))
          | KBad => (upd (r_out r) (m_data m), [CL_SHAPE])
          end
      end
  | Expire p c =>
      let w := (p, c) in
      let r := rget w m in
      match out with
      | [TimerFired] =>
          (set_rec m d w {| r_phase := PExp; r_out := r_out r; r_nstart := r_nstart r; r_ndone := r_ndone r |},
           if is_prun (r_phase r) then [] else [CL_SHAPE])
      | [NoTimer] => (with_d m d, if r_out r || gone p d then [] else [CL_TIMEOUT])
      | _ => (with_d m d, [CL_SHAPE])
      end
  | Fire p c =>
      let w := (p, c) in
      let r := rget w m in
      match r_phase r with
      | PExp =>
          let fired (o' : bool) :=
            set_rec m d w {| r_phase := PFired; r_out := o'; r_nstart := r_nstart r; r_ndone := r_ndone r |} in
          match out with
          | [] => (fired (r_out r), if r_out r || gone p d then [] else [CL_TIMEOUT])
          | [Result p' c' e] =>
              if weqb (p', c') w && N.eqb e E_TIMEOUT
              then (fired true, if r_out r then [CL_TWICE] else [])
              else (fired (r_out r), [CL_SHAPE])
          | _ => (fired (r_out r), [CL_SHAPE])
          end
      | _ => (m, skipped_only out)
      end
  | Clean p =>
      (with_d m d,
       match out with
       | [PendingLeft p' n] => if N.eqb p' p && N.eqb n 0 then [] else [CL_CLEANUP]
       | _ => [CL_SHAPE]
       end)
  | Probe => (m, probe_check m out)
  end.

Definition mon (m : mst) (o : op) (out : list obs) : mst * verdict :=
  if negb (d_ok (m_d m) o) then (m, skipped_only out) else
  let d := d_next (m_d m) o in
  let '(m1, v) := mon_op m d o out in
  (m1, (if to_gone d out then [CL_CLEANUP] else []) ++ flags out ++ v).

(* nothing is excused: the property holds in full of the repaired code *)
Definition sst := unit.
Definition sinit : sst := tt.
Definition scope (s : sst) (o : op) : sst := s.
Definition excuses (s : sst) : list Z := [].

Fixpoint judge (m : mst) (s : sst) (tr : list (op * list obs)) : list (verdict * list Z) :=
  match tr with
  | [] => []
  | (o, out) :: r =>
      let '(m1, v) := mon m o out in
      let s1 := scope s o in
      (v, excuses s1) :: judge m1 s1 r
  end.

Fixpoint mrun (m : mst) (tr : list (op * list obs)) : mst :=
  match tr with
  | [] => m
  | (o, out) :: r => mrun (fst (mon m o out)) r
  end.

Definition accepted (j : list (verdict * list Z)) : bool :=
  forallb (fun ve => excused (fst ve) (snd ve)) j.

Definition strictly_accepted (j : list (verdict * list Z)) : bool :=
  forallb (fun ve => match fst ve with [] => true | _ => false end) j.
