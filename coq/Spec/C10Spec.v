(* C10 — teardown of one peer or entity never leaks into another, as a trace monitor.

   The monitor keeps its OWN account of what every connection owns:
     conn         the connections that are there (Connect / Disconnect),
     sreg, breg   one record per subscription / binding: (server feature, connection, client address),
     cref         one record per client-side request sent by a local feature:
                  (local feature, subscription or binding, connection it was written to, remote address).
   Outside teardown these accounts simply FOLLOW what was observed (add / remove events of
   the registry calls, the outgoing subscribe / bind call of a local request) — whether a
   request is granted is the business of C08 / C09.  At teardown they are updated by the
   rule of the property: when connection p is removed exactly the records of connection p
   go; when entity e of p is announced as removed exactly the records of (p, e) go.  Every
   later observation is judged against these accounts: the removal events of the teardown
   itself, listings, the notifications of a data change, the answers of the client-side
   bookkeeping, Resolve, and the destination of every datagram written.

   [w] is a copy of the model state that is used ONLY to resolve addresses in the announced
   trees (does the local feature exist and is the function registered, the announced device
   address of a peer, was a write authorised) — the business of C06 / C07 / C03. *)
From Verif Require Import Base.Prelude Model.Stack Spec.StackObs.
From Verif Require Import Model.StackX Spec.StackXSpec.

Definition CL_EVENTS : Z := 1.    (* teardown: the removal events are not exactly one per registry entry of the
                                     removed connection / entity (plus one for the device) *)
Definition CL_SILENT : Z := 2.    (* a datagram was written to a connection that is not (or no longer) there *)
Definition CL_RESOLVE : Z := 3.   (* a removed device still resolves by SKI or address (or a connected one does not) *)
Definition CL_LISTING : Z := 4.   (* a peer's subscriptions / bindings are not exactly the ones it obtained and still owns *)
Definition CL_FANOUT : Z := 5.    (* a data change is not sent to exactly the subscriptions that are still there *)
Definition CL_CLIENT : Z := 6.    (* the client-side bookkeeping is not exactly the requests written to connections
                                     (and entities) that are still there *)

Record sentry := { s_srv : eaddr * N; s_ski : N; s_cli : faddr }.
Record centry := { c_ent : eaddr; c_feat : N; c_sub : bool; c_ski : N; c_addr : faddr }.

Record mst := { w : st; conn : list N; sreg : list sentry; breg : list sentry; cref : list centry }.
Definition minit : mst := {| w := init; conn := []; sreg := []; breg := []; cref := [] |}.

Definition eqb_srv (a b : eaddr * N) : bool := eqb_eaddr (fst a) (fst b) && N.eqb (snd a) (snd b).
Definition eqb_sentry (a b : sentry) : bool :=
  eqb_srv (s_srv a) (s_srv b) && N.eqb (s_ski a) (s_ski b) && eqb_faddr (s_cli a) (s_cli b).
Definition srv_of (a : faddr) : eaddr * N := (fa_ent a, match fa_feat a with Some f => f | None => 0%N end).

(* ---------- who a datagram is written to ---------- *)
Definition dgram_to (o : obs) : option N :=
  match o with
  | OResult p _ _ _ _ | ONotify p _ _ _ _ | OCall p _ _ _ | OOther p _ => Some p
  | _ => None
  end.

Definition silent (allowed : list N) (out : list obs) : verdict :=
  check (forallb (fun o => match dgram_to o with Some p => memN p allowed | None => true end) out) CL_SILENT.

Definition without (p : N) (l : list N) : list N := filter (fun q => negb (N.eqb q p)) l.

(* ---------- removal events ---------- *)
Definition is_event (o : obs) : bool := match o with OEvent _ _ _ _ _ _ => true | _ => false end.
Definition is_reg_event (o : obs) : bool :=
  match o with OEvent EvSub _ _ _ _ _ | OEvent EvBind _ _ _ _ _ => true | _ => false end.

(* the local server feature of an entry, as an event reports it *)
Definition srv_ev (wd : st) (srv : eaddr * N) : option faddr :=
  match find_lfeat wd (fst srv) (Some (snd srv)) with
  | Some sf => if existsb (fun le => eqb_eaddr (le_addr le) (lf_ent sf)) (lents wd) then Some (lf_addr sf) else None
  | None => None
  end.

(* the removal event owed to one registry entry.  The client feature is left out: the code
   reports it only while the entity still announces that feature; this part of the event is
   compared with the model by the correspondence, not judged. *)
Definition removal_event (wd : st) (k : evkind) (x : sentry) : obs :=
  OEvent k ChRemove (s_ski x) (Some (fa_ent (s_cli x))) None (srv_ev wd (s_srv x)).

Definition norm_event (o : obs) : obs :=
  match o with
  | OEvent EvSub ChRemove ski e _ lf => OEvent EvSub ChRemove ski e None lf
  | OEvent EvBind ChRemove ski e _ lf => OEvent EvBind ChRemove ski e None lf
  | _ => o
  end.

Definition own (p : N) (x : sentry) : bool := N.eqb (s_ski x) p.
Definition of_entity (p : N) (gone : list eaddr) (x : sentry) : bool :=
  N.eqb (s_ski x) p && existsb (eqb_eaddr (fa_ent (s_cli x))) gone.

Definition device_event (p : N) : obs := OEvent EvDevice ChRemove p None None None.

(* removing connection p: one event per entry of p, one for the device, no other event *)
Definition device_teardown_events (m : mst) (p : N) : list obs :=
  map (removal_event (w m) EvSub) (filter (own p) (sreg m)) ++
  map (removal_event (w m) EvBind) (filter (own p) (breg m)) ++ [device_event p].

(* entities [gone] of p announced as removed: one event per entry of (p, e) *)
Definition entity_teardown_events (wd : st) (p : N) (gone : list eaddr) (sr br : list sentry) : list obs :=
  map (removal_event wd EvSub) (filter (of_entity p gone) sr) ++
  map (removal_event wd EvBind) (filter (of_entity p gone) br).

Definition ref_of_entity (p : N) (gone : list eaddr) (x : centry) : bool :=
  N.eqb (c_ski x) p && existsb (eqb_eaddr (fa_ent (c_addr x))) gone.

Definition complete_entry (p d : N) (x : sentry) : sentry :=
  if N.eqb (s_ski x) p then {| s_srv := s_srv x; s_ski := s_ski x; s_cli := complete_cli d (s_cli x) |} else x.

(* the address under which an accepted reply of p makes the local node management subscribe: the
   device part of the node-management feature the reply came in through, else the address the
   connection has announced by now *)
Definition nm_subscription (wd : st) (p : N) (dm : disc_msg) (out : list obs) : option N :=
  if reply_accepted p out then
    match find_peer wd p with
    | Some pe =>
        match remote_feature pe (nm_addr None) with
        | Some (_, rf) =>
            match rf_dev rf with
            | Some d0 => Some d0
            | None => match dm_dev dm with Some d => Some d | None => p_addr pe end
            end
        | None => None
        end
    | None => None
    end
  else None.

Definition gone_ents (out : list obs) : list eaddr :=
  flat_map (fun x => match x with OEvent EvEntity ChRemove _ (Some e) _ _ => [e] | _ => [] end) out.

(* ---------- following the registry calls by their events ---------- *)
Definition same_kind (k k' : evkind) : bool :=
  match k, k' with EvSub, EvSub | EvBind, EvBind => true | _, _ => false end.

Definition added (k : evkind) (out : list obs) : list sentry :=
  flat_map (fun o => match o with
                     | OEvent k' ChAdd ski _ (Some cli) (Some srv) =>
                         if same_kind k k' then [ {| s_srv := srv_of srv; s_ski := ski; s_cli := cli |} ] else []
                     | _ => []
                     end) out.

Definition deleted_on (k : evkind) (out : list obs) : list (eaddr * N) :=
  flat_map (fun o => match o with
                     | OEvent k' ChRemove _ _ _ (Some srv) => if same_kind k k' then [srv_of srv] else []
                     | _ => []
                     end) out.

(* a delete call removes the entries OF THE CALLING CONNECTION with the named client address (device
   defaulted to the sender's, SPINE 7.4.4) on the server feature of the removal event *)
Definition after_delete (m : mst) (p : N) (c : reg_call) (k : evkind) (out : list obs) (l : list sentry) : list sentry :=
  let ca := match find_peer (w m) p with Some pe => default_dev pe (rc_cli c) | None => rc_cli c end in
  filter (fun x => negb (N.eqb (s_ski x) p && eqb_faddr (s_cli x) ca && existsb (eqb_srv (s_srv x)) (deleted_on k out))) l.

Definition calls_to (out : list obs) : list N :=
  flat_map (fun o => match o with OCall p _ _ _ => [p] | _ => [] end) out.

(* a local feature withdraws a request (RemoveRemoteSubscription / RemoveRemoteBinding): the records
   of that feature, kind and remote address made over the connection(s) the delete call went to are
   dropped - the bookkeeping is by connection; records of other connections stay *)
Definition drop_ref (sub : bool) (e : eaddr) (f : N) (r : faddr) (qs : list N) (cr : list centry) : list centry :=
  filter (fun x => negb (eqb_eaddr (c_ent x) e && N.eqb (c_feat x) f && Bool.eqb (c_sub x) sub &&
                         (eqb_faddr (c_addr x) r && memN (c_ski x) qs))) cr.

(* ---------- expectations ---------- *)
Definition fanout (m : mst) (sf : lfeat) (fn v : N) : list obs :=
  map (fun x => ONotify (s_ski x) (lf_addr sf) (s_cli x) fn v)
      (filter (fun x => eqb_srv (s_srv x) (lf_ent sf, lf_id sf)) (sreg m)).

Definition entries_seen (p : N) (out : list obs) : list sentry :=
  flat_map (fun x => match x with
                     | OEntry _ srv cli => [ {| s_srv := srv_of srv; s_ski := p; s_cli := cli |} ]
                     | _ => []
                     end) out.

Definition listing_ok (p : N) (l : list sentry) (out : list obs) : bool :=
  same_multiset eqb_sentry (filter (own p) l) (entries_seen p out) &&
  Nat.eqb (length out) (length (entries_seen p out)).

Definition has_ref (m : mst) (sub : bool) (e : eaddr) (f : N) (r : faddr) : bool :=
  existsb (fun x => eqb_eaddr (c_ent x) e && N.eqb (c_feat x) f && Bool.eqb (c_sub x) sub && eqb_faddr (c_addr x) r) (cref m).

Definition answers (b : bool) (out : list obs) : bool :=
  forallb (fun o => match o with ORetB b' => Bool.eqb b b' | _ => true end) out.

Definition eqb_ret (a b : obs) : bool :=
  match a, b with ORetB x, ORetB y => Bool.eqb x y | _, _ => false end.

Definition resolvable (m : mst) (d : N) : bool :=
  existsb (fun pe => eqb_optN (p_addr pe) (Some d) && memN (p_ski pe) (conn m)) (peers (w m)).

Definition set_accounts (m : mst) (o : op) (cn : list N) (sr br : list sentry) (cr : list centry) : mst :=
  {| w := fst (step (w m) o); conn := cn; sreg := sr; breg := br; cref := cr |}.

Definition follow (m : mst) (o : op) : mst := set_accounts m o (conn m) (sreg m) (breg m) (cref m).

Definition drop_conn {A} (ski : A -> N) (p : N) (l : list A) : list A := filter (fun x => negb (N.eqb (ski x) p)) l.

(* ---------- the monitor ---------- *)
Definition mon (m : mst) (o : op) (out : list obs) : mst * verdict :=
  match o with
  | Disconnect p =>
      (set_accounts m o (without p (conn m)) (drop_conn s_ski p (sreg m)) (drop_conn s_ski p (breg m)) (drop_conn c_ski p (cref m)),
       check (same_multiset eqb_obs_event (device_teardown_events m p) (map norm_event (filter is_event out))) CL_EVENTS ++
       silent (without p (conn m)) out)
  | Connect p =>
      (* the transport reconnects: a connection of this SKI that is still there is removed first *)
      (set_accounts m o (p :: without p (conn m)) (drop_conn s_ski p (sreg m)) (drop_conn s_ski p (breg m)) (drop_conn c_ski p (cref m)),
       check (same_multiset eqb_obs_event (if memN p (conn m) then device_teardown_events m p else [])
                (map norm_event (filter is_event out))) CL_EVENTS ++
       silent (p :: conn m) out)
  | DiscoveryNotify p _ _ _ =>
      let gone := gone_ents out in
      (set_accounts m o (conn m)
         (filter (fun x => negb (of_entity p gone x)) (sreg m))
         (filter (fun x => negb (of_entity p gone x)) (breg m))
         (filter (fun x => negb (ref_of_entity p gone x)) (cref m)),
       check (same_multiset eqb_obs_event (entity_teardown_events (w m) p gone (sreg m) (breg m))
                (map norm_event (filter is_reg_event out))) CL_EVENTS ++
       silent (conn m) out)
  | DiscoveryReply p dm =>
      (* an accepted reply (a) completes the address of the node-management feature it came in
         through: entries made through it before the reply carry the device address from now on;
         (b) lets the local node management subscribe to the peer's node management: recorded for
         the connection that announces that address; (c) removes the entities it no longer lists:
         entity-removed notifications, judged like those of a notification *)
      let gone := gone_ents out in
      let w1 := fst (step (w m) o) in
      let sr := match nm_completion (w m) p dm out with Some d => map (complete_entry p d) (sreg m) | None => sreg m end in
      let br := match nm_completion (w m) p dm out with Some d => map (complete_entry p d) (breg m) | None => breg m end in
      let cr := match nm_subscription (w m) p dm out with
                | Some d0 => match peer_by_addr w1 d0 with
                             | Some pq => cref m ++ [ {| c_ent := [0%N]; c_feat := 0; c_sub := true; c_ski := p_ski pq;
                                                         c_addr := nm_addr (Some d0) |} ]
                             | None => cref m
                             end
                | None => cref m
                end in
      (set_accounts m o (conn m)
         (filter (fun x => negb (of_entity p gone x)) sr)
         (filter (fun x => negb (of_entity p gone x)) br)
         (filter (fun x => negb (ref_of_entity p gone x)) cr),
       check (same_multiset eqb_obs_event (entity_teardown_events (w m) p gone sr br)
                (map norm_event (filter is_reg_event out))) CL_EVENTS ++
       silent (conn m) out)
  | SubCall p _ _ _ => (set_accounts m o (conn m) (sreg m ++ added EvSub out) (breg m) (cref m), silent (conn m) out)
  | BindCall p _ _ _ => (set_accounts m o (conn m) (sreg m) (breg m ++ added EvBind out) (cref m), silent (conn m) out)
  | SubDelete p _ _ c => (set_accounts m o (conn m) (after_delete m p c EvSub out (sreg m)) (breg m) (cref m), silent (conn m) out)
  | BindDelete p _ _ c => (set_accounts m o (conn m) (sreg m) (after_delete m p c EvBind out (breg m)) (cref m), silent (conn m) out)
  | SetData e f fn v =>
      (follow m o,
       check (same_multiset eqb_obs_notify
                (match find_lfeat (w m) e (Some f) with
                 | Some sf => if fn_registered (lf_type sf) fn then fanout m sf fn v else []
                 | None => []
                 end)
                (filter is_notify out)) CL_FANOUT ++
       silent (conn m) out)
  | Write p ctr ack src dst fn v =>
      let '(_, mout) := step (w m) o in
      (follow m o,
       check (same_multiset eqb_obs_notify
                (match existsb is_ev_data mout, local_feature (w m) dst with
                 | true, Some sf => fanout m sf fn v
                 | _, _ => []
                 end)
                (filter is_notify out)) CL_FANOUT ++
       silent (conn m) out)
  | ListSubs p => (follow m o, check (listing_ok p (sreg m) out) CL_LISTING)
  | ListBinds p => (follow m o, check (listing_ok p (breg m) out) CL_LISTING)
  | LocalSubscribe e f r =>
      (set_accounts m o (conn m) (sreg m) (breg m)
         (cref m ++ map (fun q => {| c_ent := e; c_feat := f; c_sub := true; c_ski := q; c_addr := r |}) (calls_to out)),
       silent (conn m) out)
  | LocalBind e f r =>
      (set_accounts m o (conn m) (sreg m) (breg m)
         (cref m ++ map (fun q => {| c_ent := e; c_feat := f; c_sub := false; c_ski := q; c_addr := r |}) (calls_to out)),
       silent (conn m) out)
  | HasLocalSub e f r => (follow m o, check (answers (has_ref m true e f r) out) CL_CLIENT)
  | HasLocalBind e f r => (follow m o, check (answers (has_ref m false e f r) out) CL_CLIENT)
  | LocalUnsubscribe e f r =>
      (set_accounts m o (conn m) (sreg m) (breg m) (drop_ref true e f r (calls_to out) (cref m)), silent (conn m) out)
  | LocalUnbind e f r =>
      (set_accounts m o (conn m) (sreg m) (breg m) (drop_ref false e f r (calls_to out) (cref m)), silent (conn m) out)
  | Resolve p dev =>
      (follow m o,
       check (eqb_list eqb_ret out
                [ORetB (memN p (conn m)); ORetB (match dev with Some d => resolvable m d | None => false end)]) CL_RESOLVE)
  | _ => (follow m o, silent (conn m) out)
  end.

(* ---------- scope of the proved theorem (DESIGN.md 2.4) ----------
   Recorded finding client-bookkeeping-keyed-by-device-address: FeatureLocal.subscriptions /
   bindings hold bare feature addresses and are cleaned by device address
   (CleanRemoteDeviceCaches / CleanRemoteEntityCaches), not by connection.  The client
   clause is excused once device addresses have stopped identifying connections:
     - two connections that are there at the same time announce the same device address, or
     - a connection re-announces a different device address.
   (Entity removal cleans with the remote DEVICE's address since bbf4b62, so the address an
   entity happens to be stored under no longer matters.) *)
Fixpoint distinct_addrs (l : list peer) : bool :=
  match l with
  | [] => true
  | pe :: r =>
      match p_addr pe with
      | Some d => negb (existsb (fun q => eqb_optN (p_addr q) (Some d)) r)
      | None => true
      end && distinct_addrs r
  end.

Definition addr_ok (s : st) : bool := distinct_addrs (peers s).

(* an operation after which device addresses no longer identify connections: a connection
   re-announces a different device address *)
Definition addr_event (s : st) (o : op) : bool :=
  match o with
  | DiscoveryReply p m =>
      match find_peer s p with
      | Some pe =>
          match remote_feature pe (nm_addr None), p_addr pe, dm_dev m with
          | Some _, Some d, Some d' => negb (N.eqb d d')
          | _, _, _ => false
          end
      | None => false
      end
  | _ => false
  end.

Record sst := { sw : st; oos : bool }.
Definition sinit : sst := {| sw := init; oos := false |}.

Definition scope (s : sst) (o : op) : sst :=
  let w1 := fst (step (sw s) o) in
  {| sw := w1; oos := oos s || addr_event (sw s) o || negb (addr_ok w1) |}.

Definition excuses (s : sst) : list Z := if oos s then [CL_CLIENT] else [].

Fixpoint judge (m : mst) (s : sst) (tr : list (op * list obs)) : list (verdict * list Z) :=
  match tr with
  | [] => []
  | (o, out) :: r =>
      let '(m1, v) := mon m o out in
      let s1 := scope s o in
      (v, excuses s1) :: judge m1 s1 r
  end.

Definition accepted (j : list (verdict * list Z)) : bool :=
  forallb (fun ve => excused (fst ve) (snd ve)) j.

Definition strictly_accepted (j : list (verdict * list Z)) : bool :=
  forallb (fun ve => match fst ve with [] => true | _ => false end) j.

(* ---------- teardown overlapped by a registry call of another peer (Model/StackX.v) ----------
   The observations of [During a b] are split into the teardown's and the call's and judged as the
   teardown followed by the call (Spec/StackXSpec.v xmon); the scope follows both. *)
Fixpoint xjudge10 (m : mst) (s : sst) (tr : list (xop * list obs)) : list (verdict * list Z) :=
  match tr with
  | [] => []
  | (o, out) :: r =>
      let '(m1, v) := xmon mon m o out in
      let s1 := xscope scope s o in
      (v, excuses s1) :: xjudge10 m1 s1 r
  end.
