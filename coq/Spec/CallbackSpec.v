(* C14 — response and result callbacks fire exactly once for the right message.

   The property as a trace monitor.  The monitor keeps its OWN registries, flat lists in
   registration order:
     pending    (feature, counter, callback)  response callbacks registered and not yet used
     resultcbs  (feature, callback)           result callbacks (never used up)
   and prescribes for every operation the exact multiset of invocations:
     - registering (counter, callback) on a feature succeeds iff that pair is not pending
       there; a callback registered on a feature that does not exist is refused;
     - an accepted reply, or a result, that arrives for local feature F with reference r
       invokes every callback pending for (F, r) exactly once — with r, the data of the
       message and the originating remote feature — and uses them up; a result additionally
       invokes every result callback of F once; nothing else is ever invoked: not for
       another reference, not on another feature, not without a reference, not for a
       rejected reply, not for any other classifier.
   "Accepted" is C01's acceptance rule (Spec/ResponseSpec.accepted); whether a feature exists
   and whether the source is an announced feature of a connected peer is resolved in a copy
   [w] of the model state that is advanced by the model's [step] on the operations only.
   Callbacks are identified by the code pointer of the function (AddResponseCallback compares
   reflect.ValueOf(cb).Pointer()); they are keyed by counter only, not by the peer the request
   went to — a reply from another peer with the same reference fires them (noted in
   DESIGN.md, not a violation). *)
From Verif Require Import Base.Prelude Model.Dispatch Spec.ResponseSpec.

Definition CL_INVOKE : Z := 1.      (* the invocations are not exactly the prescribed ones *)
Definition CL_REGISTER : Z := 2.    (* outcome of a registration differs from the rule *)
Definition CL_STRAY_INVOKE : Z := 3.  (* a callback invoked although no message arrived *)

Record reg := { g_ent : eaddr; g_feat : N; g_ctr : N; g_cb : N }.
Record rreg := { q_ent : eaddr; q_feat : N; q_cb : N }.

Record mst := { w : st; pending : list reg; resultcbs : list rreg }.
Definition minit : mst := {| w := init; pending := []; resultcbs := [] |}.

Definition on_key (e : eaddr) (f c : N) (g : reg) : bool :=
  eqb_eaddr (g_ent g) e && N.eqb (g_feat g) f && N.eqb (g_ctr g) c.
Definition on_feat (e : eaddr) (f : N) (q : rreg) : bool :=
  eqb_eaddr (q_ent q) e && N.eqb (q_feat q) f.

(* the callbacks pending for (feature, counter) / registered for results on a feature, in registration order *)
Definition cbs_of (l : list reg) (e : eaddr) (f c : N) : list N := map g_cb (filter (on_key e f c) l).
Definition rcbs_of (l : list rreg) (e : eaddr) (f : N) : list N := map q_cb (filter (on_feat e f) l).

(* ---- comparison of invocation multisets ---- *)
Definition is_invoke (o : obs) : bool := match o with OInvoke _ _ _ _ _ _ _ _ => true | _ => false end.

Definition eqb_obs_invoke (a b : obs) : bool :=
  match a, b with
  | OInvoke cb e f r p re rf v, OInvoke cb' e' f' r' p' re' rf' v' =>
      N.eqb cb cb' && eqb_eaddr e e' && N.eqb f f' && N.eqb r r' && N.eqb p p' &&
      eqb_eaddr re re' && N.eqb rf rf' && N.eqb v v'
  | _, _ => false
  end.

Fixpoint remove_first {A} (eqb : A -> A -> bool) (x : A) (l : list A) : option (list A) :=
  match l with
  | [] => None
  | y :: r => if eqb x y then Some r
              else match remove_first eqb x r with Some r' => Some (y :: r') | None => None end
  end.

Fixpoint same_multiset {A} (eqb : A -> A -> bool) (a b : list A) : bool :=
  match a with
  | [] => match b with [] => true | _ => false end
  | x :: a' => match remove_first eqb x b with Some b' => same_multiset eqb a' b' | None => false end
  end.

(* ---- the rule ---- *)
(* which reference of which message uses up callbacks on local feature lf, and with which data *)
Definition delivers (s : st) (pe : peer) (en : rent) (rf : rfeat) (lf : lfeat) (d : dgram) : option (N * N * bool) :=
  match d_ref d with
  | None => None                                           (* no reference: nobody is waiting for it *)
  | Some r =>
      match d_body d with
      | BResult e => Some (r, e, true)                     (* a result referencing r, data = its error number *)
      | BResultWith _ => None                              (* a result without resultData is rejected *)
      | BCmd c (PResult e) =>
          (* node management processes a resultData element as a result whatever the classifier says
             (unless a write is stopped at the write gate); other features reject it *)
          if is_nm lf && match c with CWrite => write_gate s lf (rf_addr en rf) FN_RESULT | _ => true end
          then Some (r, e, true) else None
      | BCmd CReply pl =>
          if accepted s pe en rf lf CReply pl then Some (r, pl_val pl, false) else None
      | BCmd _ _ => None
      end
  end.

Definition expected_invokes (m : mst) (p : N) (en : rent) (rf : rfeat) (lf : lfeat) (r data : N) (result : bool) : list obs :=
  let mk := fun cb => OInvoke cb (lf_ent lf) (lf_id lf) r p (re_addr en) (rf_id rf) data in
  map mk (cbs_of (pending m) (lf_ent lf) (lf_id lf) r) ++
  (if result then map mk (rcbs_of (resultcbs m) (lf_ent lf) (lf_id lf)) else []).

Definition check (b : bool) (c : Z) : verdict := if b then [] else [c].

Definition eqb_obs_ret (a b : obs) : bool :=
  match a, b with
  | ORetB x, ORetB y => Bool.eqb x y
  | ONone, ONone => true
  | _, _ => false
  end.

Definition is_ret (o : obs) : bool := match o with ORetB _ | ONone => true | _ => false end.

Definition advance (m : mst) (o : op) (pend : list reg) (res : list rreg) : mst :=
  {| w := fst (step (w m) o); pending := pend; resultcbs := res |}.

Definition no_invokes (out : list obs) : verdict := check (negb (existsb is_invoke out)) CL_STRAY_INVOKE.

(* the local feature, reference, data a datagram on connection p delivers to (None: nobody is concerned) *)
Definition target_of (m : mst) (p : N) (d : dgram) : option (rent * rfeat * lfeat * N * N * bool) :=
  match find_peer (w m) p with
  | None => None
  | Some pe =>
      match remote_feature pe (d_src d), local_feature (w m) (d_dst d) with
      | Some (en, rf), Some lf =>
          match delivers (w m) pe en rf lf d with
          | Some (r, data, result) => Some (en, rf, lf, r, data, result)
          | None => None
          end
      | _, _ => None
      end
  end.

(* an arrival: new registries, prescribed invocations *)
Definition mon_inbound (m : mst) (p : N) (d : dgram) : mst * list obs :=
  match target_of m p d with
  | Some (en, rf, lf, r, data, result) =>
      (advance m (Inbound p d) (filter (fun g => negb (on_key (lf_ent lf) (lf_id lf) r g)) (pending m)) (resultcbs m),
       expected_invokes m p en rf lf r data result)
  | None => (advance m (Inbound p d) (pending m) (resultcbs m), [])
  end.

(* a registration: new registries, prescribed outcome *)
Definition mon_addresp (m : mst) (e : eaddr) (f c cb : N) : mst * list obs :=
  match find_lfeat (w m) e (Some f) with
  | None => (advance m (AddRespCb e f c cb) (pending m) (resultcbs m), [ONone])
  | Some _ =>
      let dup := memN cb (cbs_of (pending m) e f c) in
      (advance m (AddRespCb e f c cb)
               (if dup then pending m else pending m ++ [ {| g_ent := e; g_feat := f; g_ctr := c; g_cb := cb |} ])
               (resultcbs m),
       [ORetB (negb dup)])
  end.

(* ---- overlapping arrivals: the rule applied event by event, in the order the model runs them.
   The prescription is a multiset with the peer blanked; it does not depend on the order of the events
   whenever the operation is well posed (Proofs/CallbackProofs.par_any_interleaving): the message is a
   result or a data reply, the racing registration is of a callback not pending for that counter, and
   the closing arrival delivers — then every callback registered before or during the operation is
   invoked exactly once and every result callback once per delivering arrival. *)
Definition mon_ev (m : mst) (d : dgram) (e : ev) : mst * list obs * list obs :=
  match e with
  | EArr p => let '(m1, inv) := mon_inbound m p d in (m1, inv, [])
  | EReg cb =>
      match d_ref d, fa_feat (d_dst d) with
      | Some r, Some f => let '(m1, rets) := mon_addresp m (fa_ent (d_dst d)) f r cb in (m1, [], rets)
      | _, _ => (m, [], [])
      end
  end.

Fixpoint mon_evs (m : mst) (d : dgram) (l : list ev) : mst * list obs * list obs :=
  match l with
  | [] => (m, [], [])
  | e :: r =>
      let '(m1, i1, r1) := mon_ev m d e in
      let '(m2, i2, r2) := mon_evs m1 d r in
      (m2, i1 ++ i2, r1 ++ r2)
  end.

(* the same registration from k goroutines at once: the rule applied k times *)
Fixpoint mon_regs (m : mst) (e : eaddr) (f c cb : N) (n : nat) : mst * list obs :=
  match n with
  | O => (m, [])
  | S n' =>
      let '(m1, r1) := mon_addresp m e f c cb in
      let '(m2, r2) := mon_regs m1 e f c cb n' in
      (m2, r1 ++ r2)
  end.

(* arrivals back to back: the rule applied arrival by arrival *)
Fixpoint mon_seq (m : mst) (l : list (N * dgram)) : mst * list obs :=
  match l with
  | [] => (m, [])
  | (p, d) :: r =>
      let '(m1, i1) := mon_inbound m p d in
      let '(m2, i2) := mon_seq m1 r in
      (m2, i1 ++ i2)
  end.

Definition blank (o : obs) : obs :=
  match o with
  | OInvoke cb e f r _ re rf data => OInvoke cb e f r 0 re rf data
  | _ => o
  end.

Definition quiet_body (b : body) : bool :=
  match b with
  | BResult _ | BCmd CReply (PData _ _) | BCmd CReply (PUseCase _) => true
  | _ => false
  end.

Definition well_posed (m : mst) (d : dgram) (late : option N) (pf : N) : bool :=
  quiet_body (d_body d) &&
  match late with
  | None => true
  | Some cb =>
      match target_of m pf d with
      | Some (_, _, lf, r, _, _) => negb (memN cb (cbs_of (pending m) (lf_ent lf) (lf_id lf) r))
      | None => false
      end
  end.

Definition mon (m : mst) (o : op) (out : list obs) : mst * verdict :=
  match o with
  | AddRespCb e f c cb =>
      let '(m1, rets) := mon_addresp m e f c cb in
      (m1, check (same_multiset eqb_obs_ret rets (filter is_ret out)) CL_REGISTER ++ no_invokes out)
  | AddResultCb e f cb =>
      match find_lfeat (w m) e (Some f) with
      | None =>
          (advance m o (pending m) (resultcbs m),
           check (same_multiset eqb_obs_ret [ONone] (filter is_ret out)) CL_REGISTER ++ no_invokes out)
      | Some _ =>
          (advance m o (pending m) (resultcbs m ++ [ {| q_ent := e; q_feat := f; q_cb := cb |} ]),
           check (same_multiset eqb_obs_ret [] (filter is_ret out)) CL_REGISTER ++ no_invokes out)
      end
  | Inbound p d =>
      let '(m1, inv) := mon_inbound m p d in
      (m1, check (same_multiset eqb_obs_invoke inv (filter is_invoke out)) CL_INVOKE)
  | ParRegister e f c cb k =>
      (* exactly one of the k identical registrations is accepted (none if the callback is pending already) *)
      let '(m1, rets) := mon_regs m e f c cb (N.to_nat k) in
      (m1, check (same_multiset eqb_obs_ret rets (filter is_ret out)) CL_REGISTER ++ no_invokes out)
  | SeqArrive l =>
      let '(m1, inv) := mon_seq m l in
      (m1, check (same_multiset eqb_obs_invoke inv (filter is_invoke out)) CL_INVOKE)
  | ParArrive ps d late pf =>
      let '(m1, inv, rets) := mon_evs m d (par_events ps late pf) in
      (m1, if well_posed m d late pf
           then check (same_multiset eqb_obs_invoke (map blank inv) (map blank (filter is_invoke out))) CL_INVOKE ++
                check (same_multiset eqb_obs_ret rets (filter is_ret out)) CL_REGISTER
           else [])
  | _ => (advance m o (pending m) (resultcbs m), no_invokes out)
  end.

(* nothing is excused: with fix-C14-nodemanagement-reply-callbacks the property holds in full *)
Definition sst := unit.
Definition sinit : sst := tt.
Definition scope (s : sst) (o : op) : sst := tt.
Definition excuses (s : sst) : list Z := [].

Fixpoint judge (m : mst) (tr : list (op * list obs)) : list verdict :=
  match tr with
  | [] => []
  | (o, out) :: r => let '(m1, v) := mon m o out in v :: judge m1 r
  end.

Definition accepted_trace (j : list verdict) : bool := forallb (fun v => match v with [] => true | _ => false end) j.

(* how often callback cb was invoked with reference r on feature (e, f) in a trace *)
Definition invoked (cb : N) (e : eaddr) (f r : N) (o : obs) : bool :=
  match o with
  | OInvoke cb' e' f' r' _ _ _ _ => N.eqb cb cb' && eqb_eaddr e e' && N.eqb f f' && N.eqb r r'
  | _ => false
  end.
