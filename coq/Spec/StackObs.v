(* Projections and comparison helpers over the observations of Model/Stack.v, shared by
   the monitors of C03, C08, C09, C10. *)
From Verif Require Import Base.Prelude Model.Stack.

(* ---- projections of an observation list ---- *)
Definition is_result (o : obs) : bool := match o with OResult _ _ _ _ _ => true | _ => false end.
Definition is_notify (o : obs) : bool := match o with ONotify _ _ _ _ _ => true | _ => false end.
Definition is_sub_event (o : obs) : bool := match o with OEvent EvSub _ _ _ _ _ => true | _ => false end.

Definition results (out : list obs) : list (N * N * bool) :=
  flat_map (fun o => match o with OResult p r e _ _ => [(p, r, e)] | _ => [] end) out.

Definition eqb_res (a b : N * N * bool) : bool :=
  let '(p, r, e) := a in let '(p', r', e') := b in N.eqb p p' && N.eqb r r' && Bool.eqb e e'.

Fixpoint eqb_list {A} (eqb : A -> A -> bool) (a b : list A) : bool :=
  match a, b with
  | [], [] => true
  | x :: a', y :: b' => eqb x y && eqb_list eqb a' b'
  | _, _ => false
  end.

(* multiset equality by removing one occurrence at a time *)
Fixpoint remove_first {A} (eqb : A -> A -> bool) (x : A) (l : list A) : option (list A) :=
  match l with
  | [] => None
  | y :: r => if eqb x y then Some r
              else match remove_first eqb x r with Some r' => Some (y :: r') | None => None end
  end.

Fixpoint same_multiset {A} (eqb : A -> A -> bool) (a b : list A) : bool :=
  match a with
  | [] => match b with [] => true | _ => false end
  | x :: a' => match remove_first eqb x b with Some b' => same_multiset eqb a' b' | None => false end
  end.

Definition eqb_obs_notify (a b : obs) : bool :=
  match a, b with
  | ONotify p s d fn v, ONotify p' s' d' fn' v' =>
      N.eqb p p' && eqb_faddr s s' && eqb_faddr d d' && N.eqb fn fn' && N.eqb v v'
  | _, _ => false
  end.

Definition eqb_opt {A} (eqb : A -> A -> bool) (a b : option A) : bool :=
  match a, b with
  | None, None => true
  | Some x, Some y => eqb x y
  | _, _ => false
  end.

Definition eqb_obs_event (a b : obs) : bool :=
  match a, b with
  | OEvent k c ski e f lf, OEvent k' c' ski' e' f' lf' =>
      match k, k' with EvDevice, EvDevice | EvEntity, EvEntity | EvSub, EvSub | EvBind, EvBind | EvData, EvData => true | _, _ => false end &&
      match c, c' with ChAdd, ChAdd | ChUpdate, ChUpdate | ChRemove, ChRemove => true | _, _ => false end &&
      N.eqb ski ski' && eqb_opt eqb_eaddr e e' && eqb_opt eqb_faddr f f' && eqb_opt eqb_faddr lf lf'
  | _, _ => false
  end.

Definition check (b : bool) (c : Z) : verdict := if b then [] else [c].

Fixpoint nodupb (l : list N) : bool := match l with [] => true | x :: r => negb (memN x r) && nodupb r end.


Definition is_ev_data (x : obs) : bool := match x with OEvent EvData _ _ _ _ _ => true | _ => false end.
Definition is_bind_event (o : obs) : bool := match o with OEvent EvBind _ _ _ _ _ => true | _ => false end.

(* ---- a discovery reply completes the address of the node-management feature it came in through ----
   (DeviceLocal.HandleEvent writes the device address into the shared address object).  The
   monitors follow it in their specification registries: entries of connection p whose client
   is that feature, made while it had no device part, carry the device address afterwards.
   [wd] is the world copy before the reply; the result is the device address written, if any. *)
Definition reply_accepted (p : N) (out : list obs) : bool :=
  existsb (fun x => match x with OEvent EvDevice ChAdd q _ _ _ => N.eqb q p | _ => false end) out.

Definition nm_completion (wd : st) (p : N) (m : disc_msg) (out : list obs) : option N :=
  if reply_accepted p out then
    match find_peer wd p with
    | Some pe =>
        match remote_feature pe (nm_addr None) with
        | Some (_, rf) =>
            match rf_dev rf with
            | None => match dm_dev m with Some d => Some d | None => p_addr pe end
            | Some _ => None
            end
        | None => None
        end
    | None => None
    end
  else None.

Definition complete_cli (d : N) (a : faddr) : faddr :=
  if eqb_faddr a (nm_addr None) then nm_addr (Some d) else a.
